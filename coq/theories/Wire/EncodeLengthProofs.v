(** encode_length: the encoder writes exactly the announced number of bytes. *)
From Coq Require Import Lia ZifyBool ZifyNat ZifyN.
From Sci Require Import Wire.Codec Wire.Spec_C03 Wire.BitFieldProofs Wire.Proofs_C03 Wire.RoundTripProofs Wire.ChecksumProofs Wire.ChecksumVerify.
Local Open Scope N_scope.
Ltac Zify.zify_post_hook ::= Z.div_mod_to_equations.
Arguments N.add : simpl never. Arguments N.sub : simpl never. Arguments N.mul : simpl never.
Arguments N.div : simpl never. Arguments N.modulo : simpl never. Arguments N.pow : simpl never.
Arguments N.ltb : simpl never. Arguments N.leb : simpl never. Arguments N.eqb : simpl never.
Ltac closed_le := apply N.leb_le; vm_compute; reflexivity.

Lemma w_blen r v b : byte_hi r <= blen b -> blen (w r v b) = blen b.
Proof. apply lane_write_blen. Qed.

Lemma apply_writes_blen ws : forall b, (forall x, In x ws -> byte_hi (fst x) <= blen b) -> blen (apply_writes ws b) = blen b.
Proof.
  induction ws as [|[r v] t IH]; intros b H; [reflexivity|].
  change (apply_writes ((r, v) :: t) b) with (apply_writes t (lane_write b r v)).
  assert (Hr : byte_hi r <= blen b) by (apply (H (r, v)); left; reflexivity).
  rewrite IH; [apply lane_write_blen; exact Hr|].
  intros x Hx. rewrite lane_write_blen by exact Hr. apply H. right. exact Hx.
Qed.

Lemma on_sub_blen lo hi f (b : bytes) : lo <= hi -> hi <= blen b -> blen (f (sub b lo hi)) = hi - lo -> blen (on_sub lo hi f b) = blen b.
Proof. intros H1 H2 Hf. unfold on_sub. apply put_blen. lia. Qed.

Lemma skipn_blen n (b : bytes) : blen (skipn (N.to_nat n) b) = blen b - n.
Proof. unfold blen. rewrite skipn_length. lia. Qed.

Lemma on_suffix_blen lo f (b : bytes) : lo <= blen b -> blen (on_suffix lo f b) = lo + blen (f (skipn (N.to_nat lo) b)).
Proof. intros H. unfold on_suffix, blen in *. rewrite app_length, firstn_length. lia. Qed.

Lemma sub_blen' (b : bytes) lo hi : lo <= hi -> hi <= blen b -> blen (sub b lo hi) = hi - lo.
Proof. intros H1 H2. unfold sub, blen in *. rewrite firstn_length, skipn_length. lia. Qed.

(** info / hop fields *)
Lemma encode_info_blen i buf : blen buf = 8 -> blen (encode_info i buf) = 8.
Proof.
  intros H. rewrite encode_info_writes, apply_writes_blen; [exact H|].
  apply (writes_hi_ok _ 8); [vm_compute; reflexivity|lia].
Qed.
Lemma encode_hop_blen h buf : blen (h_mac h) = 6 -> blen buf = 12 -> blen (encode_hop h buf) = 12.
Proof.
  intros Hm H. rewrite encode_hop_writes.
  assert (L : blen (apply_writes (hop_writes h) buf) = 12).
  { rewrite apply_writes_blen; [exact H|]. apply (writes_hi_ok _ 12); [vm_compute; reflexivity|lia]. }
  rewrite put_blen; [exact L|]. rewrite L, Hm. closed_le.
Qed.

Lemma info_range_rel i : fst (info_field_byte_range i) - StdPathMeta_SIZE_BYTES = i * 8 /\ snd (info_field_byte_range i) - StdPathMeta_SIZE_BYTES = i * 8 + 8.
Proof.
  unfold info_field_byte_range, rshift, byte_lo, byte_hi, r_end, r_start, InfoField_TOTAL_RNG, InfoField_SIZE_BYTES, StdPathMeta_SIZE_BYTES.
  cbn [fst snd]. split; lia.
Qed.
Lemma hop_range_rel s0 s1 s2 i :
  fst (hop_field_byte_range s0 s1 s2 i) - StdPathMeta_SIZE_BYTES = info_field_count s0 s1 s2 * 8 + i * 12
  /\ snd (hop_field_byte_range s0 s1 s2 i) - StdPathMeta_SIZE_BYTES = info_field_count s0 s1 s2 * 8 + i * 12 + 12.
Proof.
  unfold hop_field_byte_range, size_bytes, rshift, byte_lo, byte_hi, r_end, r_start, HopField_TOTAL_RNG, HopField_SIZE_BYTES,
    InfoField_SIZE_BYTES, StdPathMeta_SIZE_BYTES. cbn [fst snd].
  set (ni := info_field_count s0 s1 s2). split; lia.
Qed.

Lemma encode_infos_blen l : forall i data, (i + N.of_nat (length l)) * 8 <= blen data -> blen (encode_infos l i data) = blen data.
Proof.
  induction l as [|x r IH]; intros i data H; cbn [encode_infos]; [reflexivity|].
  destruct (info_range_rel i) as [-> ->]. cbn [length] in H. rewrite Nat2N.inj_succ in H.
  assert (L : blen (on_sub (i * 8) (i * 8 + 8) (encode_info x) data) = blen data).
  { apply on_sub_blen; [lia|lia|]. rewrite encode_info_blen; [lia|]. rewrite sub_blen' by lia. lia. }
  rewrite IH; [exact L|]. rewrite L. lia.
Qed.
Lemma encode_hops_blen l s0 s1 s2 : forall i data,
  Forall (fun h => blen (h_mac h) = 6) l ->
  info_field_count s0 s1 s2 * 8 + (i + N.of_nat (length l)) * 12 <= blen data -> blen (encode_hops l s0 s1 s2 i data) = blen data.
Proof.
  induction l as [|x r IH]; intros i data Hm H; cbn [encode_hops]; [reflexivity|].
  destruct (hop_range_rel s0 s1 s2 i) as [-> ->]. cbn [length] in H. rewrite Nat2N.inj_succ in H.
  inversion Hm as [|? ? Hx Hr]; subst.
  set (ni := info_field_count s0 s1 s2) in *.
  assert (L : blen (on_sub (ni * 8 + i * 12) (ni * 8 + i * 12 + 12) (encode_hop x) data) = blen data).
  { apply on_sub_blen; [lia|lia|]. rewrite encode_hop_blen; [lia|exact Hx|]. rewrite sub_blen' by lia. lia. }
  rewrite IH; [exact L|exact Hr|]. rewrite L. lia.
Qed.

(** * standard path: the counts the layout derives from the segment lengths are the list lengths *)
Lemma std_valid_counts ci ch segs : std_wire_valid ci ch segs = true ->
  info_field_count (seg_len8 segs 0) (seg_len8 segs 1) (seg_len8 segs 2) = N.of_nat (length segs)
  /\ hop_field_count (seg_len8 segs 0) (seg_len8 segs 1) (seg_len8 segs 2) = std_hop_count segs
  /\ seg_len8 segs 0 < 64 /\ seg_len8 segs 1 < 64 /\ seg_len8 segs 2 < 64 /\ ci < 4 /\ ch < 64.
Proof.
  unfold std_wire_valid. intros V.
  repeat (apply Bool.andb_true_iff in V; let X := fresh "V" in destruct V as [V X]).
  clean_bools. unfold StdPathMeta_MAX_SEGMENTS, StdPathMeta_MAX_SEGMENT_HOPS in *.
  assert (Hs : forall s, In s segs -> 1 <= N.of_nat (length (s_hops s)) <= 63).
  { intros s Hs. rewrite forallb_forall in V0. specialize (V0 s Hs). clean_bools.
    destruct (s_hops s); [discriminate|cbn [length] in *; lia]. }
  unfold info_field_count, hop_field_count, std_hop_count, std_hops, seg_len8, nz, trunc. change (2 ^ 8) with 256.
  destruct segs as [|a [|b [|c [|d r]]]]; cbn [length] in *; try lia; try discriminate.
  - pose proof (Hs a ltac:(cbn; tauto)) as Ha. cbn [nth_error flat_map]. rewrite app_nil_r.
    rewrite N.mod_small by lia. destruct (0 <? N.of_nat (length (s_hops a))) eqn:Z; [|apply N.ltb_ge in Z; lia].
    cbn. repeat split; try lia.
  - pose proof (Hs a ltac:(cbn; tauto)) as Ha. pose proof (Hs b ltac:(cbn; tauto)) as Hb.
    cbn [nth_error flat_map]. rewrite app_nil_r, app_length, Nat2N.inj_add.
    rewrite !N.mod_small by lia.
    destruct (0 <? N.of_nat (length (s_hops a))) eqn:Z; [|apply N.ltb_ge in Z; lia].
    destruct (0 <? N.of_nat (length (s_hops b))) eqn:Z2; [|apply N.ltb_ge in Z2; lia].
    cbn. repeat split; try lia.
  - pose proof (Hs a ltac:(cbn; tauto)) as Ha. pose proof (Hs b ltac:(cbn; tauto)) as Hb. pose proof (Hs c ltac:(cbn; tauto)) as Hc.
    cbn [nth_error flat_map]. rewrite app_nil_r, !app_length, !Nat2N.inj_add.
    rewrite !N.mod_small by lia.
    destruct (0 <? N.of_nat (length (s_hops a))) eqn:Z; [|apply N.ltb_ge in Z; lia].
    destruct (0 <? N.of_nat (length (s_hops b))) eqn:Z2; [|apply N.ltb_ge in Z2; lia].
    destruct (0 <? N.of_nat (length (s_hops c))) eqn:Z3; [|apply N.ltb_ge in Z3; lia].
    cbn. repeat split; try lia.
Qed.

Lemma std_hops_macs segs : forallb (fun s => info_wf (s_info s) && forallb hop_wf (s_hops s)) segs = true ->
  Forall (fun h => blen (h_mac h) = 6) (std_hops segs).
Proof.
  intros H. unfold std_hops. apply Forall_forall. intros h Hh. apply in_flat_map in Hh. destruct Hh as (s & Hs & Hh).
  rewrite forallb_forall in H. specialize (H s Hs). apply Bool.andb_true_iff in H. destruct H as [_ H].
  rewrite forallb_forall in H. specialize (H h Hh). unfold hop_wf in H.
  apply Bool.andb_true_iff in H. destruct H as [H _]. apply Bool.andb_true_iff in H. destruct H as [_ H].
  apply N.eqb_eq in H. exact H.
Qed.

Lemma std_data_size_eq s0 s1 s2 : std_data_size s0 s1 s2 = info_field_count s0 s1 s2 * 8 + hop_field_count s0 s1 s2 * 12.
Proof. reflexivity. Qed.

Lemma encode_path_blen p buf : path_wf p = true -> path_wire_valid p = true -> blen buf = path_size p ->
  blen (encode_path p buf) = blen buf.
Proof.
  intros W V Hb. destruct p as [ci ch segs|i h1 h2| |pt d]; cbn [encode_path].
  - unfold path_wire_valid in V. apply Bool.andb_true_iff in V. destruct V as [_ V].
    destruct (std_valid_counts ci ch segs V) as (Eni & Enh & _).
    cbn [path_size] in Hb. rewrite std_data_size_eq in Hb.
    set (s0 := seg_len8 segs 0) in *. set (s1 := seg_len8 segs 1) in *. set (s2 := seg_len8 segs 2) in *.
    change (w StdPathMeta_SEG2_LEN_RNG s2 (w StdPathMeta_SEG1_LEN_RNG s1 (w StdPathMeta_SEG0_LEN_RNG s0 (w StdPathMeta_RSV_RNG 0
             (w StdPathMeta_CURR_HOP_FIELD_RNG ch (w StdPathMeta_CURR_INFO_FIELD_RNG ci buf))))))
      with (apply_writes (meta_writes ci ch s0 s1 s2) buf).
    assert (Lm : blen (apply_writes (meta_writes ci ch s0 s1 s2) buf) = blen buf).
    { apply apply_writes_blen. apply (writes_hi_ok _ 4); [vm_compute; reflexivity|unfold StdPathMeta_SIZE_BYTES in Hb; lia]. }
    rewrite on_suffix_blen by (rewrite Lm; unfold StdPathMeta_SIZE_BYTES in *; lia).
    cbn [path_wf] in W. repeat (apply Bool.andb_true_iff in W; let X := fresh "W" in destruct W as [W X]).
    rewrite encode_hops_blen.
    + rewrite encode_infos_blen; rewrite skipn_blen, Lm; [unfold StdPathMeta_SIZE_BYTES in *; lia|].
      rewrite map_length. unfold StdPathMeta_SIZE_BYTES in *. lia.
    + apply std_hops_macs. assumption.
    + rewrite encode_infos_blen; rewrite skipn_blen, Lm.
      * unfold std_hop_count in Enh. unfold StdPathMeta_SIZE_BYTES in *. lia.
      * rewrite map_length. unfold StdPathMeta_SIZE_BYTES in *. lia.
  - cbn [path_size] in Hb. cbn [path_wf] in W.
    apply Bool.andb_true_iff in W. destruct W as [W W2]. apply Bool.andb_true_iff in W. destruct W as [Wi W1].
    assert (M1 : blen (h_mac h1) = 6) by (unfold hop_wf in W1; repeat (apply Bool.andb_true_iff in W1; let X := fresh "W" in destruct W1 as [W1 X]); clean_bools; assumption).
    assert (M2 : blen (h_mac h2) = 6) by (unfold hop_wf in W2; repeat (apply Bool.andb_true_iff in W2; let X := fresh "W" in destruct W2 as [W2 X]); clean_bools; assumption).
    change (byte_lo OneHopPath_INFO_FIELD) with 0. change (byte_hi OneHopPath_INFO_FIELD) with 8.
    change (byte_lo OneHopPath_HOP_FIELD_1) with 8. change (byte_hi OneHopPath_HOP_FIELD_1) with 20.
    change (byte_lo OneHopPath_HOP_FIELD_2) with 20. change (byte_hi OneHopPath_HOP_FIELD_2) with 32.
    unfold OneHopPath_SIZE_BYTES in Hb.
    assert (L1 : blen (on_sub 0 8 (encode_info i) buf) = blen buf).
    { apply on_sub_blen; [lia|lia|]. rewrite encode_info_blen; [lia|]. rewrite sub_blen' by lia. lia. }
    assert (L2 : blen (on_sub 8 20 (encode_hop h1) (on_sub 0 8 (encode_info i) buf)) = blen buf).
    { rewrite on_sub_blen; [exact L1|lia|lia|]. rewrite encode_hop_blen; [lia|exact M1|]. rewrite sub_blen' by lia. lia. }
    rewrite on_sub_blen; [exact L2|lia|lia|]. rewrite encode_hop_blen; [lia|exact M2|]. rewrite sub_blen' by lia. lia.
  - reflexivity.
  - cbn [path_size] in Hb. apply put_blen. lia.
Qed.

(** * address header *)
Lemma host_bytes_blen h : host_wf h = true -> blen (host_bytes h) = host_size h /\ host_size h <= 16.
Proof.
  destruct h as [b|b|s|id b]; cbn [host_wf host_bytes host_size]; intros W.
  - apply Bool.andb_true_iff in W. destruct W as [L _]. apply N.eqb_eq in L. lia.
  - apply Bool.andb_true_iff in W. destruct W as [L _]. apply N.eqb_eq in L. lia.
  - cbn. lia.
  - apply Bool.andb_true_iff in W. destruct W as [W _]. apply Bool.andb_true_iff in W. destruct W as [_ L].
    apply N.leb_le in L. lia.
Qed.

Lemma trunc8_small x : x <= 16 -> trunc 8 x = x.
Proof. intros H. unfold trunc. change (2 ^ 8) with 256. apply N.mod_small. lia. Qed.

Lemma addr_size_eq h : host_wf (h_dst_host h) = true -> host_wf (h_src_host h) = true ->
  addr_size h = 16 + host_size (h_dst_host h) + host_size (h_src_host h).
Proof.
  intros Wd Ws. destruct (host_bytes_blen _ Wd) as [_ Ld]. destruct (host_bytes_blen _ Ws) as [_ Ls].
  unfold addr_size, addr_hdr_size, AddressHeader_FIXED_SIZE_BITS. rewrite !trunc8_small by assumption. lia.
Qed.

Lemma encode_addr_blen h buf : host_wf (h_dst_host h) = true -> host_wf (h_src_host h) = true ->
  addr_size h <= blen buf -> blen (encode_addr h buf) = blen buf.
Proof.
  intros Wd Ws Hb. rewrite (addr_size_eq h Wd Ws) in Hb.
  destruct (host_bytes_blen _ Wd) as [Bd Ld]. destruct (host_bytes_blen _ Ws) as [Bs Ls].
  unfold encode_addr. rewrite !trunc8_small by assumption.
  change (AddressHeader_FIXED_SIZE_BITS / 8) with 16.
  set (b1 := w AddressHeader_SRC_AS_RNG _ _).
  assert (L1 : blen b1 = blen buf).
  { unfold b1.
    change (w AddressHeader_SRC_AS_RNG (N.land (h_src_ia h) ASN_MASK) (w AddressHeader_SRC_ISD_RNG (trunc 16 (N.shiftr (h_src_ia h) 48))
             (w AddressHeader_DST_AS_RNG (N.land (h_dst_ia h) ASN_MASK) (w AddressHeader_DST_ISD_RNG (trunc 16 (N.shiftr (h_dst_ia h) 48)) buf))))
      with (apply_writes [(AddressHeader_DST_ISD_RNG, trunc 16 (N.shiftr (h_dst_ia h) 48)); (AddressHeader_DST_AS_RNG, N.land (h_dst_ia h) ASN_MASK);
                          (AddressHeader_SRC_ISD_RNG, trunc 16 (N.shiftr (h_src_ia h) 48)); (AddressHeader_SRC_AS_RNG, N.land (h_src_ia h) ASN_MASK)] buf).
    apply apply_writes_blen. apply (writes_hi_ok _ 16); [vm_compute; reflexivity|lia]. }
  assert (L2 : blen (put 16 (host_bytes (h_dst_host h)) b1) = blen buf) by (rewrite put_blen; [exact L1|rewrite L1, Bd; lia]).
  rewrite put_blen; [exact L2|]. rewrite L2, Bs. lia.
Qed.

(** * header *)
Lemma encode_header_blen h ps buf : header_wf h = true -> header_wire_valid h = true -> blen buf = header_size h ->
  blen (encode_header h ps buf) = header_size h.
Proof.
  intros W V Hb. unfold header_wf in W.
  repeat (apply Bool.andb_true_iff in W; let X := fresh "W" in destruct W as [W X]).
  unfold header_wire_valid in V. repeat (apply Bool.andb_true_iff in V; let X := fresh "V" in destruct V as [V X]).
  unfold encode_header.
  assert (L1 : blen (encode_common h (trunc 8 (header_size h / 4)) ps buf) = blen buf).
  { rewrite encode_common_writes. apply apply_writes_blen. apply (writes_hi_ok _ 12); [vm_compute; reflexivity|].
    rewrite Hb. unfold header_size, CommonHeader_SIZE_BYTES. lia. }
  set (b1 := encode_common h _ ps buf) in *.
  assert (A : addr_size h = 16 + host_size (h_dst_host h) + host_size (h_src_host h)) by (apply addr_size_eq; assumption).
  assert (L2 : blen (on_suffix CommonHeader_SIZE_BYTES (encode_addr h) b1) = blen buf).
  { rewrite on_suffix_blen by (rewrite L1, Hb; unfold header_size; lia).
    rewrite encode_addr_blen; try assumption; rewrite skipn_blen, L1, Hb; unfold header_size, CommonHeader_SIZE_BYTES in *; lia. }
  set (b2 := on_suffix CommonHeader_SIZE_BYTES (encode_addr h) b1) in *.
  rewrite on_suffix_blen by (rewrite L2, Hb; unfold header_size; lia).
  rewrite encode_path_blen; try assumption; rewrite skipn_blen, L2, Hb; unfold header_size; lia.
Qed.

(** * payloads *)
Lemma scmp_fields_in_header m :
  forallb (fun x => byte_hi (fst x) <=? scmp_header_size (scmp_type_of m)) (scmp_hdr_fields m) = true
  \/ (exists t c d, m = SM_Unknown t c d).
Proof. destruct m; try (left; vm_compute; reflexivity). right. eauto. Qed.

Lemma encode_payload_blen h p hs alh al : payload_wf p = true -> payload_wire_valid p = true ->
  (forall m, p = PL_Scmp m -> False) ->
  blen (encode_payload h p hs alh al (zeros (payload_size p hs))) = payload_size p hs.
Proof.
  intros W V Hns. destruct (zeros_ok (payload_size p hs)) as [Zok Zlen].
  destruct p as [b|sp dp d|m]; [| |exfalso; eapply Hns; reflexivity].
  - cbn [encode_payload payload_size] in *. rewrite put_blen; [exact Zlen|]. rewrite Zlen. lia.
  - cbn [payload_wf payload_wire_valid] in *.
    apply Bool.andb_true_iff in W. destruct W as [W Wd]. apply Bool.andb_true_iff in W. destruct W as [Wsp Wdp].
    apply N.ltb_lt in Wsp. apply N.ltb_lt in Wdp. apply Bool.negb_true_iff in V. apply N.ltb_ge in V. unfold U16_MAX in V.
    cbn [payload_size] in *.
    destruct (udp_roundtrip_lemma h sp dp d hs alh al _ Zok Wd Zlen Wsp Wdp V) as (L & _). rewrite L. exact Zlen.
Qed.

(** * packets: every accepted model with a raw or UDP payload encodes to exactly the announced size *)
Lemma encode_packet_blen p alh al : model_wf p = true -> packet_wire_valid p = true ->
  (forall m, p_pl p = PL_Scmp m -> False) ->
  blen (encode_packet_al p alh al) = packet_size p.
Proof.
  intros W V Hns. unfold model_wf in W. apply Bool.andb_true_iff in W. destruct W as [Wh Wp].
  unfold packet_wire_valid in V. apply Bool.andb_true_iff in V. destruct V as [V _].
  apply Bool.andb_true_iff in V. destruct V as [Vh Vp].
  unfold encode_packet_al, packet_size.
  destruct (zeros_ok (header_size (p_hdr p))) as [_ Zlen].
  unfold blen at 1. rewrite app_length, Nat2N.inj_add. fold (blen (encode_header (p_hdr p) (trunc 16 (payload_size (p_pl p) (header_size (p_hdr p)))) (zeros (header_size (p_hdr p))))).
  fold (blen (encode_payload (p_hdr p) (p_pl p) (header_size (p_hdr p)) alh al (zeros (payload_size (p_pl p) (header_size (p_hdr p)))))).
  rewrite encode_header_blen by assumption. rewrite encode_payload_blen by assumption. reflexivity.
Qed.

(** * SCMP messages *)
Lemma scmp_header_size_unknown ty : scmp_is_known ty = false -> scmp_header_size ty = 8 /\ scmp_fixed_size ty = false.
Proof.
  unfold scmp_is_known, scmp_type_known. cbn [existsb]. intros H.
  repeat (apply Bool.orb_false_iff in H; let X := fresh "K" in destruct H as [X H]).
  unfold scmp_header_size, scmp_fixed_size.
  unfold SCMP_T_DestinationUnreachable, SCMP_T_PacketTooBig, SCMP_T_ParameterProblem, SCMP_T_ExternalInterfaceDown,
    SCMP_T_InternalConnectivityDown, SCMP_T_EchoRequest, SCMP_T_EchoReply, SCMP_T_TracerouteRequest, SCMP_T_TracerouteReply in *.
  rewrite K, K0, K1, K2, K3, K4, K5, K6, K7. split; reflexivity.
Qed.

Lemma scmp_body_blen m hs buf : payload_wire_valid (PL_Scmp m) = true -> blen buf = scmp_size m hs ->
  blen (encode_scmp_body m hs buf) = blen buf /\ 4 <= blen buf.
Proof.
  intros V Hb. unfold encode_scmp_body.
  set (ty := scmp_type_of m). set (hdr := scmp_header_size ty). set (n := scmp_size m hs) in *.
  assert (Facts : hdr <= n /\ 8 <= hdr /\ (forall x, In x (scmp_hdr_fields m) -> byte_hi (fst x) <= hdr)
                  /\ (match m with SM_Unknown _ _ _ => hdr = 8 | _ => True end)).
  { destruct m; cbn [payload_wire_valid scmp_type_of] in *; unfold hdr, ty, n; cbn [scmp_type_of scmp_size scmp_hdr_fields];
      try (refine (conj _ (conj _ (conj _ I)));
           [ first [ (unfold scmp_error_size; cbn [scmp_type_of]; lia) | (vm_compute; discriminate) | (unfold scmp_header_size; cbn; lia) | idtac ]
           | vm_compute; discriminate
           | intros x Hx; cbn [In] in Hx; repeat (destruct Hx as [Hx|Hx]; [subst x; closed_le|]); destruct Hx ]).
    - (* echo request *) change (scmp_header_size SCMP_T_EchoRequest) with 8. unfold ScmpEchoRequest_HEADER_SIZE_BYTES. lia.
    - change (scmp_header_size SCMP_T_EchoReply) with 8. unfold ScmpEchoReply_HEADER_SIZE_BYTES. lia.
    - (* unknown *) apply Bool.negb_true_iff in V. destruct (scmp_header_size_unknown _ V) as [E8 _]. rewrite E8.
      refine (conj _ (conj _ (conj _ eq_refl))); [unfold ScmpUnknownMessage_HEADER_SIZE_BYTES; lia|lia|].
      intros x Hx. cbn [In] in Hx. repeat (destruct Hx as [Hx|Hx]; [subst x; closed_le|]). destruct Hx. }
  destruct Facts as (Hn & H8 & Hf & Hu).
  change (fold_left (fun b f => w (fst f) (snd f) b) (scmp_hdr_fields m) (w ScmpMessage_TYPE_RNG ty buf))
    with (apply_writes (scmp_hdr_fields m) (w ScmpMessage_TYPE_RNG ty buf)).
  assert (L0 : blen (w ScmpMessage_TYPE_RNG ty buf) = blen buf) by (apply w_blen; change (byte_hi ScmpMessage_TYPE_RNG) with 1; lia).
  assert (L1 : blen (apply_writes (scmp_hdr_fields m) (w ScmpMessage_TYPE_RNG ty buf)) = blen buf).
  { rewrite apply_writes_blen; [exact L0|]. intros x Hx. rewrite L0. specialize (Hf x Hx). lia. }
  set (b1 := apply_writes (scmp_hdr_fields m) (w ScmpMessage_TYPE_RNG ty buf)) in *.
  assert (L2 : forall b2, b2 = match m with SM_Unknown _ _ _ => put (byte_hi ScmpUnknownMessage_CHECKSUM_RNG) (zeros (hdr - byte_hi ScmpUnknownMessage_CHECKSUM_RNG)) b1 | _ => b1 end ->
               blen b2 = blen buf).
  { intros b2 ->. destruct m; try exact L1. rewrite put_blen; [exact L1|].
    destruct (zeros_ok (hdr - byte_hi ScmpUnknownMessage_CHECKSUM_RNG)) as [_ Z]. rewrite Z, L1, Hu.
    change (byte_hi ScmpUnknownMessage_CHECKSUM_RNG) with 4. lia. }
  specialize (L2 _ eq_refl).
  split; [|lia].
  destruct (scmp_fixed_size ty); [exact L2|].
  rewrite put_blen; [exact L2|]. rewrite L2. unfold blen at 1. rewrite firstn_length. lia.
Qed.

Lemma encode_scmp_blen h m hs alh al : payload_wire_valid (PL_Scmp m) = true ->
  blen (encode_payload h (PL_Scmp m) hs alh al (zeros (scmp_size m hs))) = scmp_size m hs.
Proof.
  intros V. destruct (zeros_ok (scmp_size m hs)) as [_ Zlen]. cbn [encode_payload].
  destruct (scmp_body_blen m hs _ V Zlen) as [L B4]. rewrite w_blen; [rewrite L; exact Zlen|].
  rewrite L. change (byte_hi ScmpMessage_CHECKSUM_RNG) with 4. exact B4.
Qed.

(** every accepted model encodes to exactly the announced number of bytes *)
Lemma encode_packet_blen_all p alh al : model_wf p = true -> packet_wire_valid p = true ->
  blen (encode_packet_al p alh al) = packet_size p.
Proof.
  intros W V. destruct (p_pl p) as [b|sp dp d|m] eqn:Epl.
  - apply encode_packet_blen; try assumption. intros m Hm. rewrite Epl in Hm. discriminate.
  - apply encode_packet_blen; try assumption. intros m Hm. rewrite Epl in Hm. discriminate.
  - unfold model_wf in W. apply Bool.andb_true_iff in W. destruct W as [Wh Wp].
    unfold packet_wire_valid in V. apply Bool.andb_true_iff in V. destruct V as [V _].
    apply Bool.andb_true_iff in V. destruct V as [Vh Vp]. rewrite Epl in Vp.
    unfold encode_packet_al, packet_size. rewrite Epl. cbn [payload_size].
    unfold blen at 1. rewrite app_length, Nat2N.inj_add.
    fold (blen (encode_header (p_hdr p) (trunc 16 (scmp_size m (header_size (p_hdr p)))) (zeros (header_size (p_hdr p))))).
    fold (blen (encode_payload (p_hdr p) (PL_Scmp m) (header_size (p_hdr p)) alh al (zeros (scmp_size m (header_size (p_hdr p)))))).
    destruct (zeros_ok (header_size (p_hdr p))) as [_ Zlen].
    rewrite encode_header_blen by assumption. rewrite encode_scmp_blen by assumption. reflexivity.
Qed.

(** * the SCMP checksum verifies too *)
Lemma scmp_writes_disjoint m : pairwise_disjoint (map fst ((ScmpMessage_TYPE_RNG, scmp_type_of m) :: scmp_hdr_fields m)) = true
  /\ In (ScmpMessage_CHECKSUM_RNG, 0) (scmp_hdr_fields m).
Proof. destruct m; split; try (vm_compute; reflexivity); cbn [scmp_hdr_fields In]; tauto. Qed.

Lemma scmp_quote_ok m : scmp_wf m = true -> bytes_ok (scmp_quote m) = true.
Proof.
  destruct m; cbn [scmp_wf scmp_quote]; intros W; try reflexivity;
    repeat (apply Bool.andb_true_iff in W; let X := fresh "W" in destruct W as [W X]); assumption.
Qed.

Lemma scmp_body_props m hs buf : scmp_wf m = true -> payload_wire_valid (PL_Scmp m) = true ->
  bytes_ok buf = true -> blen buf = scmp_size m hs ->
  bytes_ok (encode_scmp_body m hs buf) = true /\ lane_read (encode_scmp_body m hs buf) ScmpMessage_CHECKSUM_RNG = 0.
Proof.
  intros W V Hok Hb. destruct (scmp_body_blen m hs buf V Hb) as [_ B4].
  unfold encode_scmp_body.
  set (ty := scmp_type_of m). set (hdr := scmp_header_size ty). set (n := scmp_size m hs) in *.
  assert (Facts : hdr <= n /\ 8 <= hdr /\ (forall x, In x (scmp_hdr_fields m) -> byte_hi (fst x) <= hdr)).
  { destruct m; cbn [payload_wire_valid scmp_type_of] in *; unfold hdr, ty, n; cbn [scmp_type_of scmp_size scmp_hdr_fields];
      try (refine (conj _ (conj _ _));
           [ first [ (unfold scmp_error_size; cbn [scmp_type_of]; lia) | (vm_compute; discriminate) | (unfold scmp_header_size; cbn; lia) | idtac ]
           | vm_compute; discriminate
           | intros x Hx; cbn [In] in Hx; repeat (destruct Hx as [Hx|Hx]; [subst x; closed_le|]); destruct Hx ]).
    - change (scmp_header_size SCMP_T_EchoRequest) with 8. unfold ScmpEchoRequest_HEADER_SIZE_BYTES. lia.
    - change (scmp_header_size SCMP_T_EchoReply) with 8. unfold ScmpEchoReply_HEADER_SIZE_BYTES. lia.
    - apply Bool.negb_true_iff in V. destruct (scmp_header_size_unknown _ V) as [E8 _]. rewrite E8.
      refine (conj _ (conj _ _)); [unfold ScmpUnknownMessage_HEADER_SIZE_BYTES; lia|lia|].
      intros x Hx. cbn [In] in Hx. repeat (destruct Hx as [Hx|Hx]; [subst x; closed_le|]). destruct Hx. }
  destruct Facts as (Hn & H8 & Hf).
  change (fold_left (fun b f => w (fst f) (snd f) b) (scmp_hdr_fields m) (w ScmpMessage_TYPE_RNG ty buf))
    with (apply_writes ((ScmpMessage_TYPE_RNG, ty) :: scmp_hdr_fields m) buf).
  destruct (scmp_writes_disjoint m) as [Hd Hin].
  assert (Hhi : forall x, In x ((ScmpMessage_TYPE_RNG, ty) :: scmp_hdr_fields m) -> byte_hi (fst x) <= blen buf).
  { intros x [<-|Hx]; [cbn [fst]; change (byte_hi ScmpMessage_TYPE_RNG) with 1; lia|]. specialize (Hf x Hx). eapply N.le_trans; [exact Hf|]. rewrite Hb. exact Hn. }
  destruct (apply_writes_spec _ buf Hok Hhi Hd) as (Ok1 & Len1 & Rd & _).
  pose proof (Rd (ScmpMessage_CHECKSUM_RNG, 0) ltac:(right; exact Hin)) as R0. cbn [fst snd] in R0.
  rewrite N.mod_0_l in R0 by (apply N.pow_nonzero; discriminate).
  set (b1 := apply_writes ((ScmpMessage_TYPE_RNG, ty) :: scmp_hdr_fields m) buf) in *.
  set (b2 := match m with SM_Unknown _ _ _ => put (byte_hi ScmpUnknownMessage_CHECKSUM_RNG) (zeros (hdr - byte_hi ScmpUnknownMessage_CHECKSUM_RNG)) b1 | _ => b1 end).
  assert (P2 : bytes_ok b2 = true /\ lane_read b2 ScmpMessage_CHECKSUM_RNG = 0 /\ blen b2 = blen buf).
  { unfold b2. destruct m; try (refine (conj Ok1 (conj R0 Len1))).
    destruct (zeros_ok (hdr - byte_hi ScmpUnknownMessage_CHECKSUM_RNG)) as [Zo Zl].
    refine (conj _ (conj _ _)).
    - apply put_bytes_ok; assumption.
    - rewrite put_read_below; [exact R0|closed_le|rewrite Len1; change (byte_hi ScmpUnknownMessage_CHECKSUM_RNG) with 4; lia].
    - rewrite put_blen; [exact Len1|]. rewrite Zl, Len1. change (byte_hi ScmpUnknownMessage_CHECKSUM_RNG) with 4. lia. }
  destruct P2 as (O2 & R2 & L2).
  destruct (scmp_fixed_size ty); [split; assumption|].
  split.
  - apply put_bytes_ok; [|exact O2]. apply bytes_ok_firstn. apply scmp_quote_ok. exact W.
  - rewrite put_read_below; [exact R2|change (byte_hi ScmpMessage_CHECKSUM_RNG) with 4; lia|rewrite L2; lia].
Qed.

Lemma scmp_checksum_verifies h m hs alh al :
  addr_ok h -> scmp_wf m = true -> payload_wire_valid (PL_Scmp m) = true -> scmp_size m hs <= 65535 ->
  checksum_verifies h 202 (encode_payload h (PL_Scmp m) hs alh al (zeros (scmp_size m hs))) = true.
Proof.
  intros Ha W V Hsz. destruct (zeros_ok (scmp_size m hs)) as [Zok Zlen]. cbn [encode_payload].
  destruct (scmp_body_props m hs _ W V Zok Zlen) as [Ok2 Z2].
  destruct (scmp_body_blen m hs _ V Zlen) as [L B4]. rewrite Zlen in L, B4.
  set (body := encode_scmp_body m hs (zeros (scmp_size m hs))) in *.
  rewrite <- L. rewrite sub_full.
  change ScmpMessage_CHECKSUM_RNG with (csum_rng 2) in *. change PROTO_SCMP with 202. unfold w.
  apply fill_checksum_verifies; try assumption; try reflexivity; try lia.
Qed.
