(** The checksum the encoders fill in verifies: RFC 1071 over pseudo header ++ transmitted
    message (checksum field included) folds to 0xffff, i.e. its complement is 0. *)
From Coq Require Import Lia ZifyBool ZifyNat ZifyN.
From Sci Require Import Wire.Codec Wire.Spec_C03 Wire.BitFieldProofs Wire.ChecksumProofs Wire.RoundTripProofs.
Local Open Scope N_scope.
Ltac Zify.zify_post_hook ::= Z.div_mod_to_equations.
Arguments N.add : simpl never. Arguments N.sub : simpl never. Arguments N.mul : simpl never.
Arguments N.div : simpl never. Arguments N.modulo : simpl never. Arguments N.pow : simpl never.
Arguments N.shiftr : simpl never. Arguments N.land : simpl never. Arguments N.ltb : simpl never.
Arguments N.leb : simpl never.

Definition csum_rng (o : N) : rng := (8 * o, 16).
Lemma csum_rng_bytes o : byte_lo (csum_rng o) = o /\ byte_hi (csum_rng o) = o + 2 /\ r_end (csum_rng o) = 8 * o + 16.
Proof. unfold csum_rng, byte_lo, byte_hi, r_end, r_start. cbn [fst snd]. repeat split; lia. Qed.

Lemma two_bytes (l : bytes) : length l = 2%nat -> bytes_ok l = true -> words_sum l 0 = be_val 0 l /\ be_val 0 l < 65536.
Proof.
  destruct l as [|a [|c [|]]]; try discriminate. intros _ H.
  cbn [bytes_ok forallb] in H. apply Bool.andb_true_iff in H. destruct H as [Ha H].
  apply Bool.andb_true_iff in H. destruct H as [Hc _]. unfold byte_ok in *.
  cbn [words_sum be_val]. lia.
Qed.

Lemma sub_len b lo hi : lo <= hi -> hi <= blen b -> length (sub b lo hi) = N.to_nat (hi - lo).
Proof. intros H1 H2. unfold sub, blen in *. rewrite firstn_length, skipn_length. lia. Qed.

(** the aligned 16-bit field at byte offset o, read through the lane, is the big-endian word *)
Lemma lane_read_csum b o : bytes_ok b = true -> o + 2 <= blen b -> lane_read b (csum_rng o) = words_sum (sub b o (o + 2)) 0.
Proof.
  intros Hok Hlen. destruct (csum_rng_bytes o) as (E1 & E2 & E3).
  unfold lane_read. rewrite E1, E2, E3.
  replace ((o + 2) * 8 - (8 * o + 16)) with 0 by lia. rewrite N.shiftr_0_r, N.land_ones.
  change (r_width (csum_rng o)) with 16. change (2 ^ 16) with 65536.
  assert (L : length (sub b o (o + 2)) = 2%nat) by (rewrite sub_len by lia; lia).
  assert (O : bytes_ok (sub b o (o + 2)) = true) by (unfold sub; apply bytes_ok_firstn, bytes_ok_skipn, Hok).
  destruct (two_bytes _ L O) as [E B]. rewrite E. apply N.mod_small. exact B.
Qed.

(** word sum of a buffer, split around an aligned 16-bit field *)
Lemma words_sum_split b o : N.even o = true -> o + 2 <= blen b ->
  words_sum b 0 = words_sum (firstn (N.to_nat o) b) 0 + words_sum (sub b o (o + 2)) 0 + words_sum (skipn (N.to_nat (o + 2)) b) 0.
Proof.
  intros Ev Hlen. rewrite (split3 b o (o + 2)) at 1 by lia.
  assert (Eo : Nat.odd (length (firstn (N.to_nat o) b)) = false).
  { rewrite firstn_length. unfold blen in Hlen. replace (Nat.min (N.to_nat o) (length b)) with (N.to_nat o) by lia.
    rewrite <- Nat.negb_even. apply N.even_spec in Ev. destruct Ev as [k ->].
    replace (N.to_nat (2 * k)) with (2 * N.to_nat k)%nat by lia. rewrite Nat.even_mul. reflexivity. }
  rewrite words_sum_app0 by exact Eo.
  rewrite words_sum_app0 by (rewrite sub_len by lia; replace (N.to_nat (o + 2 - o)) with 2%nat by lia; reflexivity).
  lia.
Qed.

Lemma sub_full (b : bytes) : sub b 0 (blen b) = b.
Proof. unfold sub, blen. rewrite N.sub_0_r, Nat2N.id. cbn [N.to_nat skipn]. apply firstn_all. Qed.

(** filling the checksum of a message whose checksum field is zero makes it verify *)
Lemma fill_checksum_verifies h proto m o alh al :
  addr_ok h -> 0 < proto < 256 -> bytes_ok m = true -> blen m <= 131072 ->
  N.even o = true -> o + 2 <= blen m -> lane_read m (csum_rng o) = 0 ->
  checksum_verifies h proto (lane_write m (csum_rng o) (l4_checksum h proto m alh al)) = true.
Proof.
  intros Ha Hp Hok Hlen Ev Ho Hz.
  destruct (csum_rng_bytes o) as (E1 & E2 & E3).
  destruct (l4_checksum_is_rfc1071 h proto m alh al Ha Hp Hok Hlen) as (Ec & _ & _).
  destruct (pseudo_digest_spec h proto m alh al Ha Hp Hok Hlen) as (_ & _ & _ & _ & W0 & W1).
  destruct (rfc1071_spec _ W0 W1) as (f & Ef & Fb & Fc).
  set (c := l4_checksum h proto m alh al) in *.
  assert (Hc : c = 65535 - f) by congruence.
  assert (Hhi : byte_hi (csum_rng o) <= blen m) by (rewrite E2; exact Ho).
  destruct (lane_write_value m (csum_rng o) c Hok Hhi) as (_ & _ & _ & _ & _ & Ok' & Len').
  pose proof (read_write_same_lemma m (csum_rng o) c Hok Hhi) as Rs.
  change (r_width (csum_rng o)) with 16 in Rs. change (2 ^ 16) with 65536 in Rs.
  rewrite N.mod_small in Rs by lia.
  set (m' := lane_write m (csum_rng o) c) in *.
  (* word sums of m and m' differ by c *)
  assert (Em' : words_sum m' 0 = words_sum m 0 + c).
  { rewrite (words_sum_split m' o Ev) by (rewrite Len'; exact Ho).
    rewrite (words_sum_split m o Ev Ho).
    rewrite <- (lane_read_csum m' o Ok') by (rewrite Len'; exact Ho).
    rewrite <- (lane_read_csum m o Hok Ho). rewrite Rs, Hz.
    destruct (lane_write_shape m (csum_rng o) c Hhi) as (x & Lx & E). fold m' in E. rewrite E1, E2 in E, Lx.
    assert (F1 : firstn (N.to_nat o) m' = firstn (N.to_nat o) m).
    { rewrite E. rewrite firstn_app. rewrite firstn_firstn, Nat.min_id.
      rewrite firstn_length. unfold blen in Ho. replace (N.to_nat o - Nat.min (N.to_nat o) (length m))%nat with 0%nat by lia.
      cbn [firstn]. apply app_nil_r. }
    assert (F2 : skipn (N.to_nat (o + 2)) m' = skipn (N.to_nat (o + 2)) m).
    { rewrite E. rewrite app_assoc, skipn_app.
      rewrite skipn_all2 by (rewrite app_length, firstn_length; unfold blen in Ho; lia). cbn [app].
      rewrite app_length, firstn_length. unfold blen in Ho.
      replace (N.to_nat (o + 2) - (Nat.min (N.to_nat o) (length m) + length x))%nat with 0%nat by lia. reflexivity. }
    rewrite F1, F2. lia. }
  unfold checksum_verifies. apply N.eqb_eq.
  unfold len_. fold (blen m'). rewrite Len'.
  (* word sum of pseudo header ++ m' *)
  assert (Epre : forall x, words_sum (pseudo_header h proto (blen m) ++ x) 0 = words_sum (pseudo_header h proto (blen m)) 0 + words_sum x 0).
  { intros x. apply words_sum_app0. destruct Ha as (_ & _ & Wd & Ws & Vd & Vs).
    unfold pseudo_header. rewrite <- (host_bytes_wire _ Wd), <- (host_bytes_wire _ Ws).
    pose proof (host_bytes_even _ Wd Vd) as Ed. pose proof (host_bytes_even _ Ws Vs) as Es.
    rewrite !app_length, !be_bytes_length'. cbn [length].
    rewrite <- Nat.negb_even in *. apply Bool.negb_false_iff in Ed. apply Bool.negb_false_iff in Es.
    apply Bool.negb_false_iff.
    rewrite !Nat.even_add, Ed, Es. reflexivity. }
  rewrite Epre in W0, W1, Fc.
  unfold rfc1071. rewrite Epre, Em'.
  set (P := words_sum (pseudo_header h proto (blen m)) 0) in *. set (M := words_sum m 0) in *.
  destruct (fold_carry_spec 16 (P + (M + c))) as [C Pos].
  pose proof (fold_carry_small 4 16 (P + (M + c)) ltac:(lia)) as S.
  change (65536 ^ N.of_nat 4) with 18446744073709551616 in S. change (2 ^ 40) with 1099511627776 in W1.
  specialize (S ltac:(lia)). specialize (Pos ltac:(lia)).
  assert ((P + (M + c)) mod 65535 = 0) by lia. lia.
Qed.

Lemma zeros_ok n : bytes_ok (zeros n) = true /\ blen (zeros n) = n.
Proof.
  unfold zeros, blen. rewrite repeat_length, N2Nat.id. split; [|reflexivity].
  unfold bytes_ok. apply forallb_forall. intros x Hx. apply repeat_spec in Hx. subst x. reflexivity.
Qed.

Lemma udp_body_props sp dp d buf :
  bytes_ok buf = true -> bytes_ok d = true -> blen buf = UdpDatagram_HEADER_SIZE_BYTES + blen d ->
  UdpDatagram_HEADER_SIZE_BYTES + blen d <= 65535 ->
  bytes_ok (udp_body sp dp d buf) = true /\ blen (udp_body sp dp d buf) = blen buf
  /\ lane_read (udp_body sp dp d buf) UdpDatagram_CHECKSUM_RNG = 0.
Proof.
  intros Hok Hd Hlen Hsz. unfold udp_body.
  set (n := UdpDatagram_HEADER_SIZE_BYTES + blen d) in *.
  assert (Hn8 : 8 <= n) by (unfold n, UdpDatagram_HEADER_SIZE_BYTES; lia).
  set (ws := udp_writes sp dp (trunc 16 n)).
  assert (Hhi : forall x, In x ws -> byte_hi (fst x) <= blen buf).
  { apply (writes_hi_ok _ 8); [vm_compute; reflexivity|lia]. }
  assert (Hdj : pairwise_disjoint (map fst ws) = true) by (vm_compute; reflexivity).
  destruct (apply_writes_spec ws buf Hok Hhi Hdj) as (Ok1 & Len1 & Rd & _).
  set (b1 := apply_writes ws buf) in *.
  refine (conj _ (conj _ _)).
  - apply put_bytes_ok; assumption.
  - rewrite put_blen; [exact Len1|rewrite Len1, Hlen; unfold n; apply N.le_refl].
  - rewrite put_read_below; [|closed_le|rewrite Len1; unfold UdpDatagram_HEADER_SIZE_BYTES; lia].
    pose proof (Rd (UdpDatagram_CHECKSUM_RNG, 0) ltac:(unfold ws, udp_writes; cbn [In]; tauto)) as R.
    cbn [fst snd] in R. rewrite R. reflexivity.
Qed.

(** the UDP datagram produced by the (repaired) encoder carries a checksum that verifies *)
Lemma udp_checksum_verifies h sp dp d hs alh al :
  addr_ok h -> bytes_ok d = true -> UdpDatagram_HEADER_SIZE_BYTES + blen d <= 65535 ->
  checksum_verifies h 17 (encode_payload h (PL_Udp sp dp d) hs alh al (zeros (UdpDatagram_HEADER_SIZE_BYTES + blen d))) = true.
Proof.
  intros Ha Hd Hsz. rewrite encode_udp_shape.
  destruct (zeros_ok (UdpDatagram_HEADER_SIZE_BYTES + blen d)) as [Zok Zlen].
  destruct (udp_body_props sp dp d _ Zok Hd Zlen Hsz) as (Ok2 & Len2 & Z2).
  set (m := udp_body sp dp d (zeros (UdpDatagram_HEADER_SIZE_BYTES + blen d))) in *.
  rewrite Zlen in Len2. rewrite <- Len2. rewrite sub_full.
  change UdpDatagram_CHECKSUM_RNG with (csum_rng 6) in *. change PROTO_UDP with 17. unfold w.
  apply fill_checksum_verifies; try assumption; try reflexivity; try lia.
  rewrite Len2. unfold UdpDatagram_HEADER_SIZE_BYTES. lia.
Qed.
