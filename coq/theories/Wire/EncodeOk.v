(** Every element of the encoder's output is a byte: [bytes_ok (encode_packet_al p ..) = true] for
    every accepted Rust-typed packet model -- header (common, address, every path kind) and
    payload (raw, UDP, all SCMP kinds).  Needed to apply the byte-string agreement theorems
    ([SpecDecodeAgree]) to the encoder's output. *)
From Coq Require Import Lia ZifyBool ZifyNat ZifyN.
From Sci Require Import Wire.Codec Wire.Spec_C03 Wire.BitFieldProofs Wire.Proofs_C03 Wire.RoundTripProofs Wire.ChecksumProofs
  Wire.ChecksumVerify Wire.LengthProofs Wire.EncodeLengthProofs Wire.AddrRoundTrip Wire.HeaderRoundTrip Wire.StdPathRoundTrip
  Wire.ScmpRoundTrip.
Local Open Scope N_scope.
Ltac Zify.zify_post_hook ::= Z.div_mod_to_equations.
Arguments N.add : simpl never. Arguments N.sub : simpl never. Arguments N.mul : simpl never.
Arguments N.div : simpl never. Arguments N.modulo : simpl never. Arguments N.pow : simpl never.
Arguments N.ltb : simpl never. Arguments N.leb : simpl never. Arguments N.eqb : simpl never. Arguments N.min : simpl never.
Ltac closed_le := apply N.leb_le; vm_compute; reflexivity.

Lemma encode_path_ok p buf : path_wf p = true -> path_wire_valid p = true ->
  bytes_ok buf = true -> blen buf = path_size p -> bytes_ok (encode_path p buf) = true.
Proof.
  intros W V Hok Hb. destruct p as [ci ch segs|i h1 h2| |pt d].
  - (* standard path: as in stdpath_roundtrip *)
    pose proof V as V'. unfold path_wire_valid in V'. apply Bool.andb_true_iff in V'. destruct V' as [_ Vs].
    destruct (std_valid_counts ci ch segs Vs) as (Eni & Enh & H0 & H1 & H2 & Hci & Hch).
    cbn [path_wf] in W. repeat (apply Bool.andb_true_iff in W; let X := fresh "W" in destruct W as [W X]).
    cbn [path_size] in Hb. rewrite std_data_size_eq in Hb.
    cbn [encode_path] in *.
    set (s0 := seg_len8 segs 0) in *. set (s1 := seg_len8 segs 1) in *. set (s2 := seg_len8 segs 2) in *.
    set (ni := info_field_count s0 s1 s2) in *. set (nh := hop_field_count s0 s1 s2) in *.
    change (w StdPathMeta_SEG2_LEN_RNG s2 (w StdPathMeta_SEG1_LEN_RNG s1 (w StdPathMeta_SEG0_LEN_RNG s0 (w StdPathMeta_RSV_RNG 0
             (w StdPathMeta_CURR_HOP_FIELD_RNG ch (w StdPathMeta_CURR_INFO_FIELD_RNG ci buf))))))
      with (apply_writes (meta_writes ci ch s0 s1 s2) buf) in *.
    assert (B4 : StdPathMeta_SIZE_BYTES <= blen buf) by (rewrite Hb; lia).
    destruct (path_meta_roundtrip_lemma ci ch s0 s1 s2 buf Hok B4 Hci Hch H0 H1 H2) as (Okm & Lm & _).
    set (meta := apply_writes (meta_writes ci ch s0 s1 s2) buf) in *.
    unfold on_suffix. rewrite bytes_ok_app, bytes_ok_firstn by exact Okm. cbn [andb].
    set (data0 := skipn (N.to_nat StdPathMeta_SIZE_BYTES) meta) in *.
    assert (Od0 : bytes_ok data0 = true) by (apply bytes_ok_skipn; exact Okm).
    assert (Ld0 : blen data0 = ni * 8 + nh * 12) by (unfold data0; rewrite skipn_blen, Lm, Hb; unfold StdPathMeta_SIZE_BYTES; lia).
    assert (Winf : Forall (fun x => info_wf x = true) (map s_info segs)).
    { apply Forall_forall. intros x Hx. apply in_map_iff in Hx. destruct Hx as (s & <- & Hs).
      rewrite forallb_forall in W0. specialize (W0 s Hs). apply Bool.andb_true_iff in W0. tauto. }
    assert (Whop : Forall (fun x => hop_wf x = true) (std_hops segs)).
    { apply Forall_forall. intros x Hx. unfold std_hops in Hx. apply in_flat_map in Hx. destruct Hx as (s & Hs & Hx).
      rewrite forallb_forall in W0. specialize (W0 s Hs). apply Bool.andb_true_iff in W0. destruct W0 as [_ W0].
      rewrite forallb_forall in W0. apply W0. exact Hx. }
    assert (Lni : N.of_nat (length (map s_info segs)) = ni) by (rewrite map_length; lia).
    assert (Lnh : N.of_nat (length (std_hops segs)) = nh) by (unfold std_hop_count in Enh; lia).
    destruct (encode_infos_spec (map s_info segs) 0 data0 Od0 ltac:(rewrite Lni, Ld0; lia) Winf) as (Oi & Li & _ & _).
    set (d1 := encode_infos (map s_info segs) 0 data0) in *.
    destruct (encode_hops_spec (std_hops segs) s0 s1 s2 0 d1 Oi ltac:(fold ni; rewrite Lnh, Li, Ld0; lia) Whop) as (Oh & _).
    exact Oh.
  - (* one-hop path *)
    cbn [path_wf] in W. apply Bool.andb_true_iff in W. destruct W as [W W2]. apply Bool.andb_true_iff in W. destruct W as [Wi W1].
    cbn [path_size] in Hb. unfold OneHopPath_SIZE_BYTES in Hb. cbn [encode_path].
    change (byte_lo OneHopPath_INFO_FIELD) with 0. change (byte_hi OneHopPath_INFO_FIELD) with 8.
    change (byte_lo OneHopPath_HOP_FIELD_1) with 8. change (byte_hi OneHopPath_HOP_FIELD_1) with 20.
    change (byte_lo OneHopPath_HOP_FIELD_2) with 20. change (byte_hi OneHopPath_HOP_FIELD_2) with 32.
    assert (S0 : blen (sub buf 0 8) = InfoField_SIZE_BYTES) by (rewrite sub_blen' by lia; reflexivity).
    destruct (info_roundtrip i (sub buf 0 8) Wi (sub_ok _ _ _ Hok) S0) as (_ & O0 & L0).
    set (b1 := on_sub 0 8 (encode_info i) buf).
    assert (Ob1 : bytes_ok b1 = true) by (apply on_sub_ok; assumption).
    assert (Lb1 : blen b1 = blen buf) by (apply on_sub_blen; [lia|lia|]; rewrite L0, S0; reflexivity).
    assert (S1 : blen (sub b1 8 20) = HopField_SIZE_BYTES) by (rewrite sub_blen' by lia; reflexivity).
    destruct (hop_roundtrip h1 (sub b1 8 20) W1 (sub_ok _ _ _ Ob1) S1) as (_ & O1 & L1).
    set (b2 := on_sub 8 20 (encode_hop h1) b1).
    assert (Ob2 : bytes_ok b2 = true) by (apply on_sub_ok; assumption).
    assert (Lb2 : blen b2 = blen b1) by (apply on_sub_blen; [lia|lia|]; rewrite L1, S1; reflexivity).
    assert (S2 : blen (sub b2 20 32) = HopField_SIZE_BYTES) by (rewrite sub_blen' by lia; reflexivity).
    destruct (hop_roundtrip h2 (sub b2 20 32) W2 (sub_ok _ _ _ Ob2) S2) as (_ & O2 & _).
    apply on_sub_ok; assumption.
  - exact Hok.
  - cbn [encode_path]. apply put_bytes_ok; [|exact Hok]. cbn [path_wf] in W.
    repeat (apply Bool.andb_true_iff in W; let X := fresh "W" in destruct W as [W X]). assumption.
Qed.

Lemma encode_header_ok h ps : header_wf h = true -> header_wire_valid h = true -> ps < 65536 ->
  bytes_ok (encode_header h ps (zeros (header_size h))) = true.
Proof.
  intros Wh Vh Hps.
  destruct (header_prefix_facts h ps Wh Vh Hps) as (Lb2 & Ob2 & Hhs & _).
  unfold encode_header. cbv zeta.
  set (b2 := on_suffix CommonHeader_SIZE_BYTES (encode_addr h)
               (encode_common h (trunc 8 (header_size h / 4)) ps (zeros (header_size h)))) in *.
  pose proof Wh as W. unfold header_wf in W.
  repeat (apply Bool.andb_true_iff in W; let X := fresh "W" in destruct W as [W X]).
  pose proof Vh as V. unfold header_wire_valid in V.
  repeat (apply Bool.andb_true_iff in V; let X := fresh "V" in destruct V as [V X]).
  assert (A : addr_size h = 16 + host_size (h_dst_host h) + host_size (h_src_host h)) by (apply addr_size_eq; assumption).
  unfold on_suffix at 1. rewrite bytes_ok_app, bytes_ok_firstn by exact Ob2. cbn [andb].
  apply encode_path_ok; try assumption.
  - apply bytes_ok_skipn. exact Ob2.
  - rewrite skipn_blen, Lb2, Hhs, A. unfold CommonHeader_SIZE_BYTES. lia.
Qed.

Lemma encode_payload_ok h pl hs alh al : payload_wf pl = true -> payload_wire_valid pl = true ->
  bytes_ok (encode_payload h pl hs alh al (zeros (payload_size pl hs))) = true.
Proof.
  intros W V. destruct pl as [b|sp dp d|m].
  - cbn [encode_payload payload_size payload_wf] in *. apply put_bytes_ok; [exact W|apply zeros_ok].
  - cbn [payload_wf payload_wire_valid payload_size] in *.
    apply Bool.andb_true_iff in W. destruct W as [W Wd]. apply Bool.andb_true_iff in W. destruct W as [Ws Wdp].
    apply N.ltb_lt in Ws, Wdp. apply Bool.negb_true_iff in V. apply N.ltb_ge in V. unfold U16_MAX in V.
    destruct (zeros_ok (UdpDatagram_HEADER_SIZE_BYTES + blen d)) as [Zok Zlen].
    destruct (udp_roundtrip_lemma h sp dp d hs alh al _ Zok Wd Zlen Ws Wdp V) as (_ & O & _). exact O.
  - cbn [payload_wf payload_size] in *.
    destruct (scmp_final_facts h m hs alh al W V) as (Okf & _). exact Okf.
Qed.

Theorem encode_packet_ok p alh al : model_wf p = true -> packet_wire_valid p = true ->
  bytes_ok (encode_packet_al p alh al) = true.
Proof.
  intros W V. unfold model_wf in W. apply Bool.andb_true_iff in W. destruct W as [Wh Wp].
  unfold packet_wire_valid in V. apply Bool.andb_true_iff in V. destruct V as [V Vsz].
  apply Bool.andb_true_iff in V. destruct V as [Vh Vp].
  unfold encode_packet_al. cbv zeta. rewrite bytes_ok_app.
  rewrite encode_header_ok by (first [assumption | (unfold trunc; change (2 ^ 16) with 65536; lia)]).
  rewrite encode_payload_ok by assumption. reflexivity.
Qed.
