(** Executable statement of C02 over observable behaviour, independent of the model:
    what a view reports as its own never exceeds the input, and every slice any safe
    accessor hands out lies inside the view.  Used in the theorems of [Props_C02] and,
    evaluated on the implementation's observations, as the search oracle of the check. *)
From Coq Require Import NArith List Bool.
Import ListNotations.
Local Open Scope N_scope.

(** the size a view constructor reports is at most the input length *)
Definition size_within (reported input_len : N) : bool := reported <=? input_len.

(** byte ranges [lo, hi) (offsets from the start of the view) handed out by accessors *)
Definition range_in_view (n : N) (r : N * N) : bool := (fst r <=? snd r) && (snd r <=? n).
Definition ranges_in_view (n : N) (l : list (N * N)) : bool := forallb (range_in_view n) l.

(** a bit range read or written through the 128-bit lane touches at most 16 bytes and stays
    inside [n] bytes *)
Definition lane_within (n : N) (start width : N) : bool :=
  let lo := start / 8 in let hi := (start + width + 7) / 8 in
  (hi - lo <=? 16) && (hi <=? n).
