(** Executable statement of C02 over observable behaviour, independent of the model:
    what a view reports as its own never exceeds the input, and every slice any safe
    accessor hands out lies inside the view.  Used in the theorems of [Props_C02] and,
    evaluated on the implementation's observations, as the search oracle of the check. *)
From Coq Require Import NArith List Bool.
Import ListNotations.
Local Open Scope N_scope.

(** the size a view constructor reports is at most the input length *)
Definition size_within (reported input_len : N) : bool := reported <=? input_len.

(** byte ranges [lo, hi) (offsets from the start of the view) handed out by accessors *)
Definition range_in_view (n : N) (r : N * N) : bool := (fst r <=? snd r) && (snd r <=? n).
Definition ranges_in_view (n : N) (l : list (N * N)) : bool := forallb (range_in_view n) l.

(** a bit range read or written through the 128-bit lane touches at most 16 bytes and stays
    inside [n] bytes *)
Definition lane_within (n : N) (start width : N) : bool :=
  let lo := start / 8 in let hi := (start + width + 7) / 8 in
  (hi - lo <=? 16) && (hi <=? n).

(** ** Constructor families of [View] (try_from_slice, try_from_mut_slice, try_from_boxed,
    to_boxed, copy_to_slice, and the owned packet conversions try_into_udp / try_into_scmp /
    into_raw), as observed from outside: (class, numbers) with class 1 = Ok, 0 = Err,
    99 = panic.

    An owned view owns EXACTLY the bytes its size function reported -- for the fixed-size views
    a [Box<[u8]>] of another length is reinterpreted as [Box<[u8; N]>] (undefined behaviour,
    deallocation with the wrong layout), for the slice-backed ones the view would silently own
    bytes it did not report.  A borrowed view is the first [required] bytes of the input and the
    rest starts right behind it. *)
Definition owned_exact (input_len required reported owned : N) : bool :=
  (reported =? required) && (owned =? required) && (input_len =? required).
Definition slice_cut_exact (input_len required vl rl vo ro : N) : bool :=
  (vl =? required) && (vo =? 0) && (ro =? required) && (vl + rl =? input_len).

(** [req] = what has_required_size returned on the same input: Some n | None (refused).
    [fam]: 0 try_from_slice, 1 try_from_mut_slice, 2 try_from_boxed, 3 to_boxed (of the borrowed
    view), 4 copy_to_slice into [arg] bytes, 5 Box<Raw>::try_into_udp, 6 Box<Raw>::try_into_scmp,
    7 Box<Udp/Scmp packet>::into_raw *)
Definition ctor_obs_ok (input_len : N) (req : option N) (fam arg : N) (o : N * list N) : bool :=
  match o with
  | (0, _) => match fam, req with 4, Some n => arg <? n | _, _ => true end
  | (1, l) =>
    match req with
    | None => false                       (* a constructor accepted what the size function refused *)
    | Some n =>
      match fam, l with
      | 0, [vl; rl; vo; ro] | 1, [vl; rl; vo; ro] => slice_cut_exact input_len n vl rl vo ro
      | 2, [rep; own] | 5, [rep; own] | 6, [rep; own] | 7, [rep; own] => owned_exact input_len n rep own
      | 3, [rep; own] => (rep =? n) && (own =? n)
      | 4, [vl; rl; same] => (vl =? n) && (vl + rl =? arg) && (same =? 1)
      | _, _ => false
      end
    end
  | _ => false                            (* panic *)
  end.
