(** Correspondence driver for C02, evaluated by [vm_compute] on the case files written by
    harness/hc_wire/src/bin/h_wire_views.rs.  One case = one buffer, one view kind, the
    observed construction result, and a sequence of safe accessor / mutator calls with what
    the implementation returned.  The model is run on the same sequence; the property oracles
    of [Spec_C02] are evaluated on the IMPLEMENTATION's observations. *)
From Sci Require Export Wire.Views Wire.Spec_C02.
Local Open Scope N_scope.

Inductive obs := OPanic | OV (a : aval).

Inductive vop :=
| OA (id arg : N) (o : obs)                 (* safe accessor *)
| OM (id arg val : N) (panicked : bool)     (* safe mutator *)
| OL (which arg val : N) (panicked : bool). (* formerly safe, now unsafe mutator (replay of the fixed findings) *)

(** one call of a constructor family on the case's input bytes ([Views.run_ctor] numbering) *)
Inductive cobs := CO (fam arg : N) (o : N * list N).

Record vcase := mkVC {
  vc_kind : N;                 (* 0 header 1 stdpath 2 onehop 3 info 4 hop 5 raw 6 udp packet 7 scmp packet
                                  8 udp datagram 9 scmp payload, 1000+ty typed scmp message *)
  vc_buf : list (N * N);       (* input bytes, run-length encoded *)
  vc_res : N * list N;         (* (1,[n]) | (0,[1;at;required;actual]) | (0,[2;code]) | (99,[]) *)
  vc_ops : list vop;
  vc_final : list (N * N);     (* view bytes after the last operation, run-length encoded *)
  vc_abs : list (N * N);       (* every slice handed out by an accessor / *_mut, as [lo, hi) from the view start *)
  vc_ctors : list cobs }.      (* what every constructor family did on the same input bytes *)

Definition kind_of (c : N) : vkind :=
  match c with
  | 0 => KHeader | 1 => KStdPath | 2 => KOneHop | 3 => KInfo | 4 => KHop | 5 => KRaw
  | 6 => KUdpPkt | 7 => KScmpPkt | 8 => KUdp | 9 => KScmp | _ => KScmpMsg (c - 1000)
  end.

Definition enc_res (r : res N) : N * list N :=
  match r with
  | Ok n => (1, [n])
  | Err (BufTooSmall a rq ac) => (0, [1; a; rq; ac])
  | Err (VOther c) => (0, [2; c])
  | Panic _ => (99, [])
  end.
Definition res_eqb (a b : N * list N) : bool := (fst a =? fst b) && list_eqb N.eqb (snd a) (snd b).

Definition obs_of (r : res aval) : obs :=
  match r with Ok a => OV a | Err _ => OPanic | Panic _ => OPanic end.
Definition obs_eqb (a b : obs) : bool :=
  match a, b with OPanic, OPanic => true | OV x, OV y => aval_eqb x y | _, _ => false end.

Definition run_legacy (which arg val : N) (v : bytes) : res bytes :=
  match which with
  | 0 => legacy_udp_pkt_payload_poke arg val v
  | _ => legacy_scmp_unknown_set_type val v
  end.

(** runs the model along the observed sequence; returns (all steps agree, final bytes) *)
Fixpoint run_ops (k : vkind) (v : bytes) (ops : list vop) : bool * bytes :=
  match ops with
  | [] => (true, v)
  | OA id arg o :: r =>
    let '(ok, v') := run_ops k v r in (obs_eqb (obs_of (run_acc k id arg v)) o && ok, v')
  | OM id arg val p :: r =>
    match run_mut k id arg val v with
    | Ok v1 => let '(ok, v') := run_ops k v1 r in (negb p && ok, v')
    | _ => (p, v)      (* the harness stops a sequence at the first panic *)
    end
  | OL w arg val p :: r =>
    match run_legacy w arg val v with
    | Ok v1 => let '(ok, v') := run_ops k v1 r in (negb p && ok, v')
    | _ => (p, v)
    end
  end.

Definition has_legacy (ops : list vop) : bool :=
  existsb (fun o => match o with OL _ _ _ _ => true | _ => false end) ops.
Definition any_panic (ops : list vop) : bool :=
  existsb (fun o => match o with OA _ _ OPanic => true | OM _ _ _ true => true | OL _ _ _ true => true | _ => false end) ops.

Definition verdict (c : vcase) : N :=
  let k := kind_of (vc_kind c) in
  let b := rle_expand (vc_buf c) in
  let m := required_size k b in
  let mismatch_c := negb (res_eqb (enc_res m) (vc_res c)) in
  let '(ops_ok, final_ok) :=
    match m with
    | Ok n =>
      let '(ok, v') := run_ops k (sub b 0 n) (vc_ops c) in
      (ok, list_eqb N.eqb v' (rle_expand (vc_final c)))
    | _ => (match vc_ops c with [] => true | _ => false end, true)
    end in
  let ctor_mismatch :=
    existsb (fun c => match c with CO fam arg o => negb (res_eqb (run_ctor k fam arg b) o) end) (vc_ctors c) in
  let mismatch := mismatch_c || negb ops_ok || negb final_ok || ctor_mismatch in
  (* property oracles, on what the implementation did *)
  let size_bad := match vc_res c with (1, [n]) => negb (size_within n (blen b)) | (99, _) => true | _ => false end in
  let n_obs := match vc_res c with (1, [n]) => n | _ => 0 end in
  let oob := negb (ranges_in_view n_obs (vc_abs c)) in
  let len_changed := match vc_res c with
                     | (1, [n]) => negb (N.of_nat (length (rle_expand (vc_final c))) =? n) | _ => false end in
  let panicked := any_panic (vc_ops c) && negb (has_legacy (vc_ops c)) in
  let req_obs := match vc_res c with (1, [n]) => Some n | _ => None end in
  let ctor_bad :=
    existsb (fun c => match c with CO fam arg o => negb (ctor_obs_ok (blen b) req_obs fam arg o) end) (vc_ctors c) in
  let violation := size_bad || oob || len_changed || panicked || ctor_bad in
  (if mismatch then 1 else 0) + (if violation then 2 else 0).

Definition verdicts (cs : list vcase) : list N := map verdict cs.
