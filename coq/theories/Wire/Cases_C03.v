(** Correspondence driver for C03, evaluated by [vm_compute] on the case files written by
    harness/hc_wire/src/bin/h_wire_codec.rs.  [CE]: a packet model, what the implementation's
    encoder did with it, and what its decoder made of the result.  [CD]: a byte string, what the
    decoder made of it, and the re-encoding of the decoded model.
    Verdict bits: 1 model/implementation mismatch, 2 property violation (any oracle, incl. the
    reused-buffer outputs), 16 / 64 known open classes.  (Bit 32, the dirty-buffer class, was
    retired when that finding was repaired: a reused-buffer difference is a violation.) *)
From Sci Require Export Wire.Codec Wire.Spec_C03.
Local Open Scope N_scope.

Inductive dres := DPanic | DErr | DOk (p : packet) (rest : N).

Inductive c3case :=
| CE (kind : N) (m : packet) (noncanon valid : bool) (size : N) (enc : list (N * N))
     (dec : dres) (dirty : list (N * list (N * N))) (csum_unaligned : N)
| CD (kind : N) (b : list (N * N)) (dec : dres) (reenc_ok : bool) (reenc : list (N * N)).

Definition dres_of (r : res (packet * bytes)) : dres :=
  match r with Ok (p, rest) => DOk p (blen rest) | Err _ => DErr | Panic _ => DPanic end.
Definition dres_eqb (a b : dres) : bool :=
  match a, b with
  | DPanic, DPanic | DErr, DErr => true
  | DOk p r, DOk q s => packet_eqb p q && (r =? s)
  | _, _ => false
  end.
Definition opt_packet_is (o : option packet) (p : packet) : bool :=
  match o with Some q => packet_eqb q p | None => false end.

(* the checksum field found in the encoded bytes (offset 6 of UDP, 2 of SCMP) *)
Definition csum_in_bytes (kind hs : N) (b : bytes) : N :=
  match kind with 1 => be b (hs + 6) 2 | _ => be b (hs + 2) 2 end.

Definition verdict (c : c3case) : N :=
  match c with
  | CE kind m noncanon valid size enc dec dirty csum_un =>
    let b := rle_expand enc in
    let hs := header_size (p_hdr m) in
    let v_m := packet_wire_valid m in
    let mismatch :=
      negb (Bool.eqb v_m valid) || negb (packet_size m =? size)
      || (valid && negb (list_eqb N.eqb (encode_packet m) b))
      || (valid && negb (dres_eqb (dres_of (decode_packet kind b)) dec)) in
    (* oracles on the implementation's outputs *)
    let cm := canon m hs in
    let o_len := blen b =? size in
    let o_spec := opt_packet_is (spec_decode kind b) cm in
    let o_csum := spec_checksum_ok kind b in
    let o_rt := dres_eqb dec (DOk cm 0) in
    let o_repr := representable m in
    let o_un := (csum_un =? 65536) || (csum_un =? csum_in_bytes kind hs b) in
    let o_lf := length_fields_match kind b hs in      (* written length fields = true sizes, as numbers *)
    (* noncanon: the harness saw an accepted model whose catch-all enum variant spells a known
       number come back from the decoder as the named variant (Rust ==); only the two oracles that
       compare MODELS are excused for that class, every byte-level oracle still applies *)
    let known_tag := noncanon in
    let bad := valid && negb (o_len && o_lf && o_csum && o_repr && o_un && (known_tag || (o_spec && o_rt))) in
    (* [dirty]: outputs of try_encode into a reused buffer (pre-filled with 0xFF / 0xA5 / the previous
       packet) that the harness kept: all of them for the kind x path matrix, otherwise those that
       differ from the fresh-buffer output.  Each must be byte-identical to [enc] and carry a
       verifying checksum -- for every payload kind (the oracles below take [kind]). *)
    let dirty_bad :=
      valid && existsb (fun d => let db := rle_expand (snd d) in
                                 negb (list_eqb N.eqb db b) || negb (spec_checksum_ok kind db)
                                 || negb (length_fields_match kind db hs)) dirty in
    (if mismatch then 1 else 0) + (if bad || dirty_bad then 2 else 0)
    + (if known_tag then 16 else 0)
  | CD kind rb dec reenc_ok reenc =>
    let b := rle_expand rb in
    let mismatch := negb (dres_eqb (dres_of (decode_packet kind b)) dec) in
    let panicked := match dec with DPanic => true | _ => false end in
    let canonical := match spec_decode kind b with Some _ => spec_checksum_ok kind b | None => false end in
    let canon_bad :=
      canonical &&
      negb (match spec_decode kind b, dec with
            | Some m, DOk m' 0 => packet_eqb m m' && reenc_ok && list_eqb N.eqb (rle_expand reenc) b
            | _, _ => false end) in
    (* known class: the decoded model has a path index outside the path and the encoder refuses it *)
    let idx_class := canon_bad && negb reenc_ok &&
                     match dec with DOk m' _ => path_index_out_of_range m' | _ => false end in
    (if mismatch then 1 else 0) + (if panicked || (canon_bad && negb idx_class) then 2 else 0)
    + (if idx_class then 64 else 0)
  end.

Definition verdicts (cs : list c3case) : list N := map verdict cs.
