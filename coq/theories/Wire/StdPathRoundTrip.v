(** Standard path layer composition: the info / hop field arrays written by the encoder's loops
    decode back, through the decoder's loops, to the segments of the model. *)
From Coq Require Import Lia ZifyBool ZifyNat ZifyN.
From Sci Require Import Wire.Codec Wire.Spec_C03 Wire.BitFieldProofs Wire.Proofs_C03 Wire.RoundTripProofs Wire.ChecksumProofs
  Wire.ChecksumVerify Wire.LengthProofs Wire.EncodeLengthProofs Wire.AddrRoundTrip Wire.HeaderRoundTrip.
Local Open Scope N_scope.
Ltac Zify.zify_post_hook ::= Z.div_mod_to_equations.
Arguments N.add : simpl never. Arguments N.sub : simpl never. Arguments N.mul : simpl never.
Arguments N.div : simpl never. Arguments N.modulo : simpl never. Arguments N.pow : simpl never.
Arguments N.ltb : simpl never. Arguments N.leb : simpl never. Arguments N.eqb : simpl never.
Ltac closed_le := apply N.leb_le; vm_compute; reflexivity.

(** * slices of a buffer after an [on_sub] *)
Lemma put_sub_above lo (x b : bytes) lo2 hi2 : lo + blen x <= lo2 -> lo + blen x <= blen b ->
  sub (put lo x b) lo2 hi2 = sub b lo2 hi2.
Proof.
  intros H1 H2. unfold put.
  assert (Lp : blen (firstn (N.to_nat lo) b) = lo) by (unfold blen in *; rewrite firstn_length; lia).
  rewrite sub_above by (rewrite Lp; exact H1). rewrite Lp.
  unfold sub. rewrite skipn_skipn'. f_equal; [lia|]. f_equal. unfold blen in *. lia.
Qed.

Lemma on_sub_same lo hi f (b : bytes) : lo <= hi -> hi <= blen b -> blen (f (sub b lo hi)) = hi - lo ->
  sub (on_sub lo hi f b) lo hi = f (sub b lo hi).
Proof.
  intros H1 H2 Hf. unfold on_sub. replace hi with (lo + blen (f (sub b lo hi))) at 2 by lia.
  apply put_sub_exact. lia.
Qed.
Lemma on_sub_other lo hi f (b : bytes) lo2 hi2 : lo <= hi -> hi <= blen b -> blen (f (sub b lo hi)) = hi - lo ->
  hi2 <= lo \/ hi <= lo2 -> sub (on_sub lo hi f b) lo2 hi2 = sub b lo2 hi2.
Proof.
  intros H1 H2 Hf [H|H]; unfold on_sub.
  - apply put_sub_below; lia.
  - apply put_sub_above; lia.
Qed.
Lemma on_sub_ok lo hi f (b : bytes) : bytes_ok b = true -> bytes_ok (f (sub b lo hi)) = true -> bytes_ok (on_sub lo hi f b) = true.
Proof. intros H1 H2. unfold on_sub. apply put_bytes_ok; assumption. Qed.
Lemma sub_ok (b : bytes) lo hi : bytes_ok b = true -> bytes_ok (sub b lo hi) = true.
Proof. intros H. unfold sub. apply bytes_ok_firstn, bytes_ok_skipn, H. Qed.

(** * the info-field array *)
Lemma encode_infos_spec l : forall i data,
  bytes_ok data = true -> (i + N.of_nat (length l)) * 8 <= blen data ->
  Forall (fun x => info_wf x = true) l ->
  let d' := encode_infos l i data in
  bytes_ok d' = true /\ blen d' = blen data
  /\ (forall k x, nth_error l k = Some x ->
        decode_info (sub d' ((i + N.of_nat k) * 8) ((i + N.of_nat k) * 8 + 8)) = Ok x)
  /\ (forall lo2 hi2, hi2 <= i * 8 \/ (i + N.of_nat (length l)) * 8 <= lo2 -> sub d' lo2 hi2 = sub data lo2 hi2).
Proof.
  induction l as [|x r IH]; intros i data Hok Hlen Hwf; cbn [encode_infos].
  - cbv zeta. refine (conj Hok (conj eq_refl (conj _ _))); [intros k y Hk; destruct k; discriminate|reflexivity].
  - destruct (info_range_rel i) as [-> ->]. cbn [length] in Hlen. rewrite Nat2N.inj_succ in Hlen.
    inversion Hwf as [|? ? Wx Wr]; subst.
    assert (S8 : blen (sub data (i * 8) (i * 8 + 8)) = 8) by (rewrite sub_blen' by lia; lia).
    destruct (info_roundtrip x (sub data (i * 8) (i * 8 + 8)) Wx (sub_ok _ _ _ Hok) S8) as (Dx & Ox & Lx).
    set (d1 := on_sub (i * 8) (i * 8 + 8) (encode_info x) data).
    assert (L1 : blen d1 = blen data) by (apply on_sub_blen; [lia|lia|]; rewrite Lx, S8; lia).
    assert (O1 : bytes_ok d1 = true) by (apply on_sub_ok; assumption).
    destruct (IH (i + 1) d1 O1 ltac:(rewrite L1; lia) Wr) as (O' & L' & Rd & Fr).
    cbv zeta. refine (conj O' (conj _ (conj _ _))).
    + rewrite L'. exact L1.
    + intros k y Hk. destruct k as [|k].
      * cbn [nth_error] in Hk. inversion Hk; subst y. change (N.of_nat 0) with 0. rewrite N.add_0_r.
        rewrite Fr by lia. unfold d1. rewrite on_sub_same by (first [lia|(rewrite Lx, S8; lia)]). exact Dx.
      * cbn [nth_error] in Hk. specialize (Rd k y Hk).
        replace (i + N.of_nat (S k)) with (i + 1 + N.of_nat k) by lia. exact Rd.
    + intros lo2 hi2 H. cbn [length] in H. rewrite Nat2N.inj_succ in H.
      rewrite Fr by lia. unfold d1. apply on_sub_other; [lia|lia|(rewrite Lx, S8; lia)|lia].
Qed.

(** * the hop-field array (after [base] bytes of info fields) *)
Lemma encode_hops_spec l s0 s1 s2 : forall i data,
  let base := info_field_count s0 s1 s2 * 8 in
  bytes_ok data = true -> base + (i + N.of_nat (length l)) * 12 <= blen data ->
  Forall (fun x => hop_wf x = true) l ->
  let d' := encode_hops l s0 s1 s2 i data in
  bytes_ok d' = true /\ blen d' = blen data
  /\ (forall k x, nth_error l k = Some x ->
        decode_hop (sub d' (base + (i + N.of_nat k) * 12) (base + (i + N.of_nat k) * 12 + 12)) = Ok x)
  /\ (forall lo2 hi2, hi2 <= base + i * 12 \/ base + (i + N.of_nat (length l)) * 12 <= lo2 -> sub d' lo2 hi2 = sub data lo2 hi2).
Proof.
  induction l as [|x r IH]; intros i data base Hok Hlen Hwf; cbn [encode_hops].
  - cbv zeta. refine (conj Hok (conj eq_refl (conj _ _))); [intros k y Hk; destruct k; discriminate|reflexivity].
  - destruct (hop_range_rel s0 s1 s2 i) as [-> ->]. fold base. cbn [length] in Hlen. rewrite Nat2N.inj_succ in Hlen.
    inversion Hwf as [|? ? Wx Wr]; subst.
    assert (S12 : blen (sub data (base + i * 12) (base + i * 12 + 12)) = 12) by (rewrite sub_blen' by lia; lia).
    destruct (hop_roundtrip x (sub data (base + i * 12) (base + i * 12 + 12)) Wx (sub_ok _ _ _ Hok) S12) as (Dx & Ox & Lx).
    set (d1 := on_sub (base + i * 12) (base + i * 12 + 12) (encode_hop x) data).
    assert (L1 : blen d1 = blen data) by (apply on_sub_blen; [lia|lia|]; rewrite Lx, S12; lia).
    assert (O1 : bytes_ok d1 = true) by (apply on_sub_ok; assumption).
    destruct (IH (i + 1) d1 O1 ltac:(fold base; rewrite L1; lia) Wr) as (O' & L' & Rd & Fr). fold base in Rd, Fr.
    cbv zeta. refine (conj O' (conj _ (conj _ _))).
    + rewrite L'. exact L1.
    + intros k y Hk. destruct k as [|k].
      * cbn [nth_error] in Hk. inversion Hk; subst y. change (N.of_nat 0) with 0. rewrite N.add_0_r.
        rewrite Fr by lia. unfold d1. rewrite on_sub_same by (first [lia|(rewrite Lx, S12; lia)]). exact Dx.
      * cbn [nth_error] in Hk. specialize (Rd k y Hk).
        replace (i + N.of_nat (S k)) with (i + 1 + N.of_nat k) by lia. exact Rd.
    + intros lo2 hi2 H. cbn [length] in H. rewrite Nat2N.inj_succ in H.
      rewrite Fr by lia. unfold d1. apply on_sub_other; [lia|lia|(rewrite Lx, S12; lia)|lia].
Qed.

(** * the decoder's loop *)
Lemma decode_seq_spec {A} (dec : bytes -> res A) (v : bytes) size : forall (l : list A) lo,
  (forall k x, nth_error l k = Some x -> dec (sub v (lo + N.of_nat k * size) (lo + N.of_nat k * size + size)) = Ok x) ->
  lo + N.of_nat (length l) * size <= blen v ->
  decode_seq dec v lo size (length l) = Ok l.
Proof.
  induction l as [|x r IH]; intros lo Hd Hl; cbn [decode_seq length]; [reflexivity|].
  cbn [length] in Hl. rewrite Nat2N.inj_succ in Hl.
  rewrite get_unchecked_ok' by (split; lia). cbn [obind].
  pose proof (Hd 0%nat x eq_refl) as H0. change (N.of_nat 0) with 0 in H0. rewrite N.mul_0_l, N.add_0_r in H0.
  rewrite H0. cbn [obind].
  rewrite (IH (lo + size)); [reflexivity| |lia].
  intros k y Hk. specialize (Hd (S k) y Hk). rewrite Nat2N.inj_succ in Hd.
  replace (lo + size + N.of_nat k * size) with (lo + N.succ (N.of_nat k) * size) by lia. exact Hd.
Qed.

(** * segments *)
Lemma build_segments_spec segs :
  (length segs <= 3)%nat ->
  build_segments (map s_info segs) [N.of_nat (length (s_hops (nth 0 segs (mkSeg (mkIF 0 0 0) []))));
                                    N.of_nat (length (s_hops (nth 1 segs (mkSeg (mkIF 0 0 0) []))));
                                    N.of_nat (length (s_hops (nth 2 segs (mkSeg (mkIF 0 0 0) []))))] (std_hops segs) = segs.
Proof.
  intros H. unfold std_hops.
  destruct segs as [|[ia ha] [|[ib hb] [|[ic hc] [|d r]]]]; cbn [length] in H; try lia;
    cbn [map build_segments nth s_hops s_info flat_map]; rewrite ?Nat2N.id, ?app_nil_r.
  - reflexivity.
  - rewrite firstn_all. reflexivity.
  - rewrite firstn_app, Nat.sub_diag, firstn_all. cbn [firstn]. rewrite app_nil_r.
    rewrite skipn_app, Nat.sub_diag, skipn_all. cbn [skipn app]. rewrite firstn_all. reflexivity.
  - rewrite firstn_app, Nat.sub_diag, firstn_all. cbn [firstn]. rewrite app_nil_r.
    rewrite skipn_app, Nat.sub_diag, skipn_all. cbn [skipn app].
    rewrite firstn_app, Nat.sub_diag, firstn_all. cbn [firstn]. rewrite app_nil_r.
    rewrite skipn_app, Nat.sub_diag, skipn_all. cbn [skipn app]. rewrite firstn_all. reflexivity.
Qed.

(** * decode_stdpath (encode_path (DP_Std ..)) *)
Lemma seg_len8_exact ci ch segs : std_wire_valid ci ch segs = true ->
  seg_len8 segs 0 = N.of_nat (length (s_hops (nth 0 segs (mkSeg (mkIF 0 0 0) []))))
  /\ seg_len8 segs 1 = N.of_nat (length (s_hops (nth 1 segs (mkSeg (mkIF 0 0 0) []))))
  /\ seg_len8 segs 2 = N.of_nat (length (s_hops (nth 2 segs (mkSeg (mkIF 0 0 0) []))))
  /\ (length segs <= 3)%nat.
Proof.
  unfold std_wire_valid. intros V.
  repeat (apply Bool.andb_true_iff in V; let X := fresh "V" in destruct V as [V X]).
  clean_bools. unfold StdPathMeta_MAX_SEGMENTS, StdPathMeta_MAX_SEGMENT_HOPS in *.
  assert (Hs : forall s, In s segs -> N.of_nat (length (s_hops s)) <= 63).
  { intros s Hs. rewrite forallb_forall in V0. specialize (V0 s Hs). clean_bools. lia. }
  unfold seg_len8, trunc. change (2 ^ 8) with 256.
  destruct segs as [|a [|b [|c [|d r]]]]; cbn [length nth nth_error s_hops] in *; try lia;
    repeat split; try lia; try reflexivity;
    try (pose proof (Hs a ltac:(cbn; tauto)); apply N.mod_small; lia);
    try (pose proof (Hs b ltac:(cbn; tauto)); apply N.mod_small; lia);
    try (pose proof (Hs c ltac:(cbn; tauto)); apply N.mod_small; lia).
Qed.

Lemma nth_error_Some_lt {A} (l : list A) k x : nth_error l k = Some x -> (k < length l)%nat.
Proof. intros H. apply nth_error_Some. rewrite H. discriminate. Qed.

Lemma info_fields_range_eq s0 s1 s2 :
  info_fields_byte_range s0 s1 s2 = (StdPathMeta_SIZE_BYTES, StdPathMeta_SIZE_BYTES + info_field_count s0 s1 s2 * 8).
Proof.
  unfold info_fields_byte_range, rshift, byte_lo, byte_hi, r_end, r_start, InfoField_SIZE_BYTES, StdPathMeta_SIZE_BYTES.
  cbn [fst snd]. set (ni := info_field_count s0 s1 s2). f_equal; lia.
Qed.
Lemma hop_fields_range_eq s0 s1 s2 :
  hop_fields_byte_range s0 s1 s2 =
  (StdPathMeta_SIZE_BYTES + info_field_count s0 s1 s2 * 8, StdPathMeta_SIZE_BYTES + info_field_count s0 s1 s2 * 8 + hop_field_count s0 s1 s2 * 12).
Proof.
  unfold hop_fields_byte_range, rng_of_range, rshift, byte_lo, byte_hi, r_end, r_start, InfoField_SIZE_BYTES, HopField_SIZE_BYTES, StdPathMeta_SIZE_BYTES.
  cbn [fst snd]. set (ni := info_field_count s0 s1 s2). set (nh := hop_field_count s0 s1 s2). f_equal; lia.
Qed.

Lemma stdpath_roundtrip ci ch segs buf :
  path_wf (DP_Std ci ch segs) = true -> path_wire_valid (DP_Std ci ch segs) = true ->
  bytes_ok buf = true -> blen buf = path_size (DP_Std ci ch segs) ->
  decode_stdpath (encode_path (DP_Std ci ch segs) buf) = Ok (DP_Std ci ch segs)
  /\ blen (encode_path (DP_Std ci ch segs) buf) = blen buf
  /\ sp_segs (encode_path (DP_Std ci ch segs) buf) = Ok (seg_len8 segs 0, seg_len8 segs 1, seg_len8 segs 2).
Proof.
  intros W V Hok Hb.
  pose proof (encode_path_blen _ _ W V Hb) as Lp.
  pose proof V as V'. unfold path_wire_valid in V'. apply Bool.andb_true_iff in V'. destruct V' as [_ Vs].
  destruct (std_valid_counts ci ch segs Vs) as (Eni & Enh & H0 & H1 & H2 & Hci & Hch).
  destruct (seg_len8_exact ci ch segs Vs) as (X0 & X1 & X2 & L3).
  cbn [path_wf] in W. repeat (apply Bool.andb_true_iff in W; let X := fresh "W" in destruct W as [W X]).
  cbn [path_size] in Hb. rewrite std_data_size_eq in Hb.
  cbn [encode_path] in *.
  set (s0 := seg_len8 segs 0) in *. set (s1 := seg_len8 segs 1) in *. set (s2 := seg_len8 segs 2) in *.
  set (ni := info_field_count s0 s1 s2) in *. set (nh := hop_field_count s0 s1 s2) in *.
  change (w StdPathMeta_SEG2_LEN_RNG s2 (w StdPathMeta_SEG1_LEN_RNG s1 (w StdPathMeta_SEG0_LEN_RNG s0 (w StdPathMeta_RSV_RNG 0
           (w StdPathMeta_CURR_HOP_FIELD_RNG ch (w StdPathMeta_CURR_INFO_FIELD_RNG ci buf))))))
    with (apply_writes (meta_writes ci ch s0 s1 s2) buf) in *.
  assert (B4 : StdPathMeta_SIZE_BYTES <= blen buf) by (rewrite Hb; lia).
  destruct (path_meta_roundtrip_lemma ci ch s0 s1 s2 buf Hok B4 Hci Hch H0 H1 H2) as (Okm & Lm & Rci & Rch & Rsegs & _ & _).
  set (meta := apply_writes (meta_writes ci ch s0 s1 s2) buf) in *.
  set (g := fun data => encode_hops (std_hops segs) s0 s1 s2 0 (encode_infos (map s_info segs) 0 data)) in *.
  assert (M4 : StdPathMeta_SIZE_BYTES <= blen meta) by (rewrite Lm; exact B4).
  destruct (on_suffix_is_app StdPathMeta_SIZE_BYTES g meta M4) as [EP Lpre].
  set (pre := firstn (N.to_nat StdPathMeta_SIZE_BYTES) meta) in *.
  set (data0 := skipn (N.to_nat StdPathMeta_SIZE_BYTES) meta) in *.
  assert (Od0 : bytes_ok data0 = true) by (apply bytes_ok_skipn; exact Okm).
  assert (Ld0 : blen data0 = ni * 8 + nh * 12) by (unfold data0; rewrite skipn_blen, Lm, Hb; unfold StdPathMeta_SIZE_BYTES; lia).
  (* the two arrays *)
  assert (Winf : Forall (fun x => info_wf x = true) (map s_info segs)).
  { apply Forall_forall. intros x Hx. apply in_map_iff in Hx. destruct Hx as (s & <- & Hs).
    rewrite forallb_forall in W0. specialize (W0 s Hs). apply Bool.andb_true_iff in W0. tauto. }
  assert (Whop : Forall (fun x => hop_wf x = true) (std_hops segs)).
  { apply Forall_forall. intros x Hx. unfold std_hops in Hx. apply in_flat_map in Hx. destruct Hx as (s & Hs & Hx).
    rewrite forallb_forall in W0. specialize (W0 s Hs). apply Bool.andb_true_iff in W0. destruct W0 as [_ W0].
    rewrite forallb_forall in W0. apply W0. exact Hx. }
  assert (Lni : N.of_nat (length (map s_info segs)) = ni) by (rewrite map_length; lia).
  assert (Lnh : N.of_nat (length (std_hops segs)) = nh) by (unfold std_hop_count in Enh; lia).
  destruct (encode_infos_spec (map s_info segs) 0 data0 Od0 ltac:(rewrite Lni, Ld0; lia) Winf) as (Oi & Li & Rdi & Fri).
  set (d1 := encode_infos (map s_info segs) 0 data0) in *.
  destruct (encode_hops_spec (std_hops segs) s0 s1 s2 0 d1 Oi ltac:(fold ni; rewrite Lnh, Li, Ld0; lia) Whop) as (Oh & Lh & Rdh & Frh).
  fold ni in Rdh, Frh.
  set (d2 := encode_hops (std_hops segs) s0 s1 s2 0 d1) in *.
  assert (Eg : g data0 = d2) by reflexivity.
  rewrite Eg in EP.
  set (P := on_suffix StdPathMeta_SIZE_BYTES g meta) in *.
  assert (LP : blen P = StdPathMeta_SIZE_BYTES + (ni * 8 + nh * 12)) by (rewrite EP, blen_app, Lpre, Lh, Li, Ld0; reflexivity).
  (* meta reads see [meta] *)
  assert (FrM : forall r bits, byte_hi r <= StdPathMeta_SIZE_BYTES -> rd P r bits = rd meta r bits)
    by (intros r bits Hr; unfold P; apply rd_on_suffix_below; assumption).
  assert (Esegs : sp_segs P = Ok (s0, s1, s2)).
  { unfold sp_segs, sp_seg0, sp_seg1, sp_seg2 in *. rewrite !FrM by closed_le. exact Rsegs. }
  refine (conj _ (conj Lp Esegs)).
  unfold decode_stdpath. unfold sp_curr_info, sp_curr_hop in *. rewrite !FrM by closed_le. rewrite Rci, Rch. cbn [obind].
  rewrite Esegs. cbn [obind].
  unfold sp_info_fields_range, sp_hop_fields_range. rewrite Esegs. cbn [obind].
  rewrite info_fields_range_eq, hop_fields_range_eq. fold ni nh. cbn [fst snd].
  rewrite !get_unchecked_ok' by (rewrite LP; unfold StdPathMeta_SIZE_BYTES; split; lia). cbn [obind fst].
  (* slices of P inside the data part *)
  assert (SubD : forall a b', sub P (StdPathMeta_SIZE_BYTES + a) (StdPathMeta_SIZE_BYTES + b') = sub d2 a b').
  { intros a b'. rewrite EP. rewrite <- Lpre. apply sub_app_r. }
  replace (N.to_nat ni) with (length (map s_info segs)) by lia.
  rewrite (decode_seq_spec decode_info P InfoField_SIZE_BYTES (map s_info segs) StdPathMeta_SIZE_BYTES).
  2: { intros k x Hk. unfold InfoField_SIZE_BYTES.
       replace (StdPathMeta_SIZE_BYTES + N.of_nat k * 8 + 8) with (StdPathMeta_SIZE_BYTES + (N.of_nat k * 8 + 8)) by lia.
       rewrite SubD.
       assert (Kl : N.of_nat k < ni) by (apply nth_error_Some_lt in Hk; lia).
       unfold d2. rewrite Frh by lia. specialize (Rdi k x Hk). rewrite N.add_0_l in Rdi. exact Rdi. }
  2: { rewrite LP, Lni. unfold InfoField_SIZE_BYTES. lia. }
  cbn [obind].
  replace (N.to_nat nh) with (length (std_hops segs)) by lia.
  rewrite (decode_seq_spec decode_hop P HopField_SIZE_BYTES (std_hops segs) (StdPathMeta_SIZE_BYTES + ni * 8)).
  2: { intros k x Hk. unfold HopField_SIZE_BYTES.
       replace (StdPathMeta_SIZE_BYTES + ni * 8 + N.of_nat k * 12) with (StdPathMeta_SIZE_BYTES + (ni * 8 + N.of_nat k * 12)) by lia.
       replace (StdPathMeta_SIZE_BYTES + (ni * 8 + N.of_nat k * 12) + 12) with (StdPathMeta_SIZE_BYTES + (ni * 8 + N.of_nat k * 12 + 12)) by lia.
       rewrite SubD. specialize (Rdh k x Hk). rewrite N.add_0_l in Rdh. exact Rdh. }
  2: { rewrite LP, Lnh. unfold HopField_SIZE_BYTES. lia. }
  cbn [obind]. f_equal. f_equal.
  rewrite X0, X1, X2. apply build_segments_spec. exact L3.
Qed.

Lemma sub_app_tail' (x y : bytes) : sub (x ++ y) (blen x) (blen x + blen y) = y.
Proof. replace (blen x) with (blen x + 0) at 1 by lia. rewrite sub_app_r. apply sub_full. Qed.

(** * the whole header with a standard path *)
Lemma header_roundtrip_std h psize ci ch segs :
  header_wf h = true -> header_wire_valid h = true -> psize < 65536 -> h_path h = DP_Std ci ch segs ->
  decode_header (encode_header h psize (zeros (header_size h))) = Ok h
  /\ (let hb := encode_header h psize (zeros (header_size h)) in let off := CommonHeader_SIZE_BYTES + addr_size h in
      rd hb (rshift StdPathMeta_SEG0_LEN_RNG off) 8 = Ok (seg_len8 segs 0)
      /\ rd hb (rshift StdPathMeta_SEG1_LEN_RNG off) 8 = Ok (seg_len8 segs 1)
      /\ rd hb (rshift StdPathMeta_SEG2_LEN_RNG off) 8 = Ok (seg_len8 segs 2)).
Proof.
  intros Wh Vh Hps Hpath. rewrite encode_header_shape.
  destruct (header_prefix_facts h psize Wh Vh Hps) as (L2 & Ok2 & Hhs & Hu & F).
  specialize (F (encode_path (h_path h))). cbv zeta in F.
  set (b2 := on_suffix CommonHeader_SIZE_BYTES (encode_addr h) (encode_common h (trunc 8 (header_size h / 4)) psize (zeros (header_size h)))) in *.
  set (b3 := on_suffix (CommonHeader_SIZE_BYTES + addr_size h) (encode_path (h_path h)) b2) in *.
  destruct F as (Rtc & Rfl & Rnh & Rdia & Rsia & Rdh & Rsh & Rdn & Rsn & Rhl & Rpt & _ & _).
  pose proof Wh as W. unfold header_wf in W. repeat (apply Bool.andb_true_iff in W; let X := fresh "W" in destruct W as [W X]).
  pose proof Vh as V. unfold header_wire_valid in V. repeat (apply Bool.andb_true_iff in V; let X := fresh "V" in destruct V as [V X]).
  assert (A : addr_size h = 16 + host_size (h_dst_host h) + host_size (h_src_host h)) by (apply addr_size_eq; assumption).
  set (off := CommonHeader_SIZE_BYTES + addr_size h) in *.
  assert (Lo : off <= blen b2) by (rewrite L2, Hhs; unfold off; rewrite A; lia).
  destruct (on_suffix_is_app off (encode_path (h_path h)) b2 Lo) as [E3 Lp3]. fold b3 in E3.
  assert (Oks : bytes_ok (skipn (N.to_nat off) b2) = true) by (apply bytes_ok_skipn; exact Ok2).
  assert (Ls : blen (skipn (N.to_nat off) b2) = path_size (h_path h)) by (rewrite skipn_blen, L2, Hhs; unfold off; rewrite A; lia).
  rewrite Hpath in W0, V0, Ls.
  destruct (stdpath_roundtrip ci ch segs _ W0 V0 Oks Ls) as (Dp & Lpth & Sg).
  rewrite <- Hpath in Dp, Lpth, Sg.
  set (PB := encode_path (h_path h) (skipn (N.to_nat off) b2)) in *.
  assert (Lb3 : blen b3 = header_size h).
  { rewrite E3, blen_app, Lp3, Lpth, Ls. rewrite Hhs. unfold off. rewrite A, Hpath. lia. }
  split.
  2: { cbv zeta. fold off. rewrite E3. set (p3 := firstn (N.to_nat off) b2) in *. rewrite <- Lp3.
       rewrite !rd_app_r. fold PB.
       unfold sp_segs, sp_seg0, sp_seg1, sp_seg2 in Sg.
       destruct (rd PB StdPathMeta_SEG0_LEN_RNG 8) as [a0| |]; cbn [obind] in Sg; try discriminate.
       destruct (rd PB StdPathMeta_SEG1_LEN_RNG 8) as [a1| |]; cbn [obind] in Sg; try discriminate.
       destruct (rd PB StdPathMeta_SEG2_LEN_RNG 8) as [a2| |]; cbn [obind] in Sg; try discriminate.
       inversion Sg; subst. repeat split; reflexivity. }
  unfold decode_header. rewrite Rtc, Rfl, Rnh, Rdia, Rsia, Rdh. cbn [obind]. rewrite Rsh. cbn [obind].
  unfold hv_path_range. rewrite Rdn, Rsn, Rhl, Rpt. cbn [obind].
  rewrite !hat_size_nibble by assumption.
  replace (CommonHeader_SIZE_BYTES + addr_hdr_size (host_size (h_dst_host h)) (host_size (h_src_host h))) with off
    by (unfold off; rewrite A; unfold addr_hdr_size, AddressHeader_FIXED_SIZE_BITS; lia).
  rewrite Hpath. cbn [path_type_num].
  change (PT_SCION =? PT_EMPTY) with false. change (PT_SCION =? PT_ONEHOP) with false. cbn iota.
  assert (Hoff : off <= header_size h) by (rewrite Hhs; unfold off; rewrite A; lia).
  rewrite get_unchecked_ok' by (rewrite Lb3; split; [exact Hoff|lia]). cbn [obind].
  change (PT_SCION =? PT_EMPTY) with false. change (PT_SCION =? PT_SCION) with true. cbn iota.
  rewrite get_unchecked_ok' by (rewrite Lb3; split; [exact Hoff|lia]). cbn [obind].
  assert (Esub : sub b3 off (header_size h) = PB).
  { rewrite E3. set (p3 := firstn (N.to_nat off) b2) in *.
    assert (Ehs : header_size h = blen p3 + blen PB) by (rewrite Lp3, Lpth, Ls, Hhs; unfold off; rewrite A, Hpath; lia).
    rewrite Ehs. rewrite <- Lp3 at 1. apply sub_app_tail'. }
  rewrite Esub, Dp. cbn [obind]. destruct h; reflexivity.
Qed.

(** * one-hop path *)
Lemma onehop_roundtrip i h1 h2 buf :
  path_wf (DP_OneHop i h1 h2) = true -> bytes_ok buf = true -> blen buf = OneHopPath_SIZE_BYTES ->
  decode_onehop (encode_path (DP_OneHop i h1 h2) buf) = Ok (DP_OneHop i h1 h2).
Proof.
  intros W Hok Hb. cbn [path_wf] in W.
  apply Bool.andb_true_iff in W. destruct W as [W W2]. apply Bool.andb_true_iff in W. destruct W as [Wi W1].
  unfold OneHopPath_SIZE_BYTES in Hb. cbn [encode_path].
  change (byte_lo OneHopPath_INFO_FIELD) with 0. change (byte_hi OneHopPath_INFO_FIELD) with 8.
  change (byte_lo OneHopPath_HOP_FIELD_1) with 8. change (byte_hi OneHopPath_HOP_FIELD_1) with 20.
  change (byte_lo OneHopPath_HOP_FIELD_2) with 20. change (byte_hi OneHopPath_HOP_FIELD_2) with 32.
  (* first sub-field *)
  assert (S0 : blen (sub buf 0 8) = 8) by (rewrite sub_blen' by lia; lia).
  destruct (info_roundtrip i (sub buf 0 8) Wi (sub_ok _ _ _ Hok) S0) as (D0 & O0 & L0).
  set (y0 := on_sub 0 8 (encode_info i) buf).
  assert (Ly0 : blen y0 = 32) by (unfold y0; rewrite on_sub_blen; [exact Hb|lia|lia|rewrite L0, S0; lia]).
  assert (Oy0 : bytes_ok y0 = true) by (apply on_sub_ok; assumption).
  (* second *)
  assert (S1 : blen (sub y0 8 20) = 12) by (rewrite sub_blen' by lia; lia).
  destruct (hop_roundtrip h1 (sub y0 8 20) W1 (sub_ok _ _ _ Oy0) S1) as (D1 & O1 & L1).
  set (y1 := on_sub 8 20 (encode_hop h1) y0).
  assert (Ly1 : blen y1 = 32) by (unfold y1; rewrite on_sub_blen; [exact Ly0|lia|lia|rewrite L1, S1; lia]).
  assert (Oy1 : bytes_ok y1 = true) by (apply on_sub_ok; assumption).
  (* third *)
  assert (S2 : blen (sub y1 20 32) = 12) by (rewrite sub_blen' by lia; lia).
  destruct (hop_roundtrip h2 (sub y1 20 32) W2 (sub_ok _ _ _ Oy1) S2) as (D2 & O2 & L2).
  set (x := on_sub 20 32 (encode_hop h2) y1).
  assert (Lx : blen x = 32) by (unfold x; rewrite on_sub_blen; [exact Ly1|lia|lia|rewrite L2, S2; lia]).
  (* the three slices of the result *)
  assert (E0 : sub x 0 8 = encode_info i (sub buf 0 8)).
  { unfold x. rewrite on_sub_other by (first [lia|(rewrite L2, S2; lia)]).
    unfold y1. rewrite on_sub_other by (first [lia|(rewrite L1, S1; lia)]).
    unfold y0. apply on_sub_same; [lia|lia|rewrite L0, S0; lia]. }
  assert (E1 : sub x 8 20 = encode_hop h1 (sub y0 8 20)).
  { unfold x. rewrite on_sub_other by (first [lia|(rewrite L2, S2; lia)]).
    unfold y1. apply on_sub_same; [lia|lia|rewrite L1, S1; lia]. }
  assert (E2 : sub x 20 32 = encode_hop h2 (sub y1 20 32)).
  { unfold x. apply on_sub_same; [lia|lia|rewrite L2, S2; lia]. }
  unfold decode_onehop.
  change (byte_lo OneHopPath_INFO_FIELD) with 0. change (byte_hi OneHopPath_INFO_FIELD) with 8.
  change (byte_lo OneHopPath_HOP_FIELD_1) with 8. change (byte_hi OneHopPath_HOP_FIELD_1) with 20.
  change (byte_lo OneHopPath_HOP_FIELD_2) with 20. change (byte_hi OneHopPath_HOP_FIELD_2) with 32.
  unfold index_range. rewrite Lx.
  change ((0 <=? 8) && (8 <=? 32)) with true. change ((8 <=? 20) && (20 <=? 32)) with true. change ((20 <=? 32) && (32 <=? 32)) with true.
  cbn [obind]. rewrite E0, E1, E2, D0, D1, D2. reflexivity.
Qed.

Lemma header_roundtrip_onehop h psize i h1 h2 :
  header_wf h = true -> header_wire_valid h = true -> psize < 65536 -> h_path h = DP_OneHop i h1 h2 ->
  decode_header (encode_header h psize (zeros (header_size h))) = Ok h.
Proof.
  intros Wh Vh Hps Hpath. rewrite encode_header_shape.
  destruct (header_prefix_facts h psize Wh Vh Hps) as (L2 & Ok2 & Hhs & Hu & F).
  specialize (F (encode_path (h_path h))). cbv zeta in F.
  set (b2 := on_suffix CommonHeader_SIZE_BYTES (encode_addr h) (encode_common h (trunc 8 (header_size h / 4)) psize (zeros (header_size h)))) in *.
  set (b3 := on_suffix (CommonHeader_SIZE_BYTES + addr_size h) (encode_path (h_path h)) b2) in *.
  destruct F as (Rtc & Rfl & Rnh & Rdia & Rsia & Rdh & Rsh & Rdn & Rsn & Rhl & Rpt & _ & _).
  pose proof Wh as W. unfold header_wf in W. repeat (apply Bool.andb_true_iff in W; let X := fresh "W" in destruct W as [W X]).
  pose proof Vh as V. unfold header_wire_valid in V. repeat (apply Bool.andb_true_iff in V; let X := fresh "V" in destruct V as [V X]).
  assert (A : addr_size h = 16 + host_size (h_dst_host h) + host_size (h_src_host h)) by (apply addr_size_eq; assumption).
  set (off := CommonHeader_SIZE_BYTES + addr_size h) in *.
  assert (Lo : off <= blen b2) by (rewrite L2, Hhs; unfold off; rewrite A; lia).
  destruct (on_suffix_is_app off (encode_path (h_path h)) b2 Lo) as [E3 Lp3]. fold b3 in E3.
  assert (Oks : bytes_ok (skipn (N.to_nat off) b2) = true) by (apply bytes_ok_skipn; exact Ok2).
  assert (Ls : blen (skipn (N.to_nat off) b2) = path_size (h_path h)) by (rewrite skipn_blen, L2, Hhs; unfold off; rewrite A; lia).
  pose proof (encode_path_blen (h_path h) _ W0 V0 Ls) as Lpth.
  rewrite Hpath in W0, Ls. cbn [path_size] in Ls.
  pose proof (onehop_roundtrip i h1 h2 _ W0 Oks Ls) as Dp. rewrite <- Hpath in Dp.
  set (PB := encode_path (h_path h) (skipn (N.to_nat off) b2)) in *.
  assert (Hhs32 : header_size h = off + OneHopPath_SIZE_BYTES) by (rewrite Hhs; unfold off; rewrite A, Hpath; reflexivity).
  assert (Lb3 : blen b3 = header_size h) by (rewrite E3, blen_app, Lp3, Lpth, Ls; symmetry; exact Hhs32).
  unfold decode_header. rewrite Rtc, Rfl, Rnh, Rdia, Rsia, Rdh. cbn [obind]. rewrite Rsh. cbn [obind].
  unfold hv_path_range. rewrite Rdn, Rsn, Rhl, Rpt. cbn [obind].
  rewrite !hat_size_nibble by assumption.
  replace (CommonHeader_SIZE_BYTES + addr_hdr_size (host_size (h_dst_host h)) (host_size (h_src_host h))) with off
    by (unfold off; rewrite A; unfold addr_hdr_size, AddressHeader_FIXED_SIZE_BITS; lia).
  rewrite Hpath. cbn [path_type_num].
  change (PT_ONEHOP =? PT_EMPTY) with false. change (PT_ONEHOP =? PT_ONEHOP) with true. cbn iota.
  rewrite get_unchecked_ok' by (rewrite Lb3, Hhs32; split; lia). cbn [obind].
  change (PT_ONEHOP =? PT_EMPTY) with false. change (PT_ONEHOP =? PT_SCION) with false. change (PT_ONEHOP =? PT_ONEHOP) with true. cbn iota.
  rewrite get_unchecked_ok' by (rewrite Lb3, Hhs32; split; lia). cbn [obind].
  assert (Esub : sub b3 off (off + OneHopPath_SIZE_BYTES) = PB).
  { rewrite E3. set (p3 := firstn (N.to_nat off) b2) in *.
    replace OneHopPath_SIZE_BYTES with (blen PB) by (rewrite Lpth, Ls; reflexivity).
    rewrite <- Lp3. apply sub_app_tail'. }
  rewrite Esub, Dp. cbn [obind]. destruct h; reflexivity.
Qed.
