(** decode_packet (encode_packet p) = Ok (p, []) for raw and UDP packets over an empty or an
    unsupported-type path (intra-AS traffic uses the empty path). *)
From Coq Require Import Lia ZifyBool ZifyNat ZifyN.
From Sci Require Import Wire.Codec Wire.Spec_C03 Wire.BitFieldProofs Wire.Proofs_C03 Wire.RoundTripProofs Wire.ChecksumProofs
  Wire.ChecksumVerify Wire.LengthProofs Wire.EncodeLengthProofs Wire.AddrRoundTrip Wire.HeaderRoundTrip.
From Sci Require Import Wire.Proofs_C02 Wire.Proofs_C02b.
Local Open Scope N_scope.
Ltac Zify.zify_post_hook ::= Z.div_mod_to_equations.
Arguments N.add : simpl never. Arguments N.sub : simpl never. Arguments N.mul : simpl never.
Arguments N.div : simpl never. Arguments N.modulo : simpl never. Arguments N.pow : simpl never.
Arguments N.ltb : simpl never. Arguments N.leb : simpl never. Arguments N.eqb : simpl never. Arguments N.min : simpl never.
Ltac closed_le := apply N.leb_le; vm_compute; reflexivity.

Lemma rd_app_l (x y : bytes) r bits : byte_hi r <= blen x -> rd (x ++ y) r bits = rd x r bits.
Proof.
  intros H. unfold rd. destruct (negb (size_bytes r <=? LANE_BYTES)); [reflexivity|].
  rewrite blen_app.
  destruct (byte_hi r <=? blen x + blen y) eqn:C1; destruct (byte_hi r <=? blen x) eqn:C2; cbn [negb]; try reflexivity;
    try (apply N.leb_gt in C1; lia); try (apply N.leb_gt in C2; lia).
  f_equal. f_equal. apply lane_read_local_eq.
  replace (x ++ y) with (x ++ y ++ []) by (rewrite app_nil_r; reflexivity). apply sub_below. exact H.
Qed.

Lemma sub_app_l (x y : bytes) : sub (x ++ y) 0 (blen x) = x.
Proof.
  replace (x ++ y) with (x ++ y ++ []) by (rewrite app_nil_r; reflexivity).
  rewrite sub_below by lia. apply sub_full.
Qed.
Lemma sub_app_tail (x y : bytes) : sub (x ++ y) (blen x) (blen x + blen y) = y.
Proof. replace (blen x) with (blen x + 0) at 1 by lia. rewrite sub_app_r. apply sub_full. Qed.

(** the layout the constructor computes on an encoded packet *)
Lemma encoded_layout p alh al :
  model_wf p = true -> packet_wire_valid p = true ->
  (match h_path (p_hdr p) with DP_Std _ _ _ => False | _ => True end) ->
  let h := p_hdr p in let hs := header_size h in let ps := payload_size (p_pl p) hs in
  exists l, header_layout (encode_packet_al p alh al) = Ok l /\ hl_header_len l = hs /\ hl_payload_len l = ps.
Proof.
  intros W V Hp h hs ps. change (h_path (p_hdr p)) with (h_path h) in Hp.
  pose proof W as W'. unfold model_wf in W'. apply Bool.andb_true_iff in W'. destruct W' as [Wh Wp].
  pose proof V as V'. unfold packet_wire_valid in V'. apply Bool.andb_true_iff in V'. destruct V' as [V' Vsz].
  apply Bool.andb_true_iff in V'. destruct V' as [Vh Vp].
  apply Bool.negb_true_iff in Vsz. apply N.ltb_ge in Vsz. unfold U16_MAX in Vsz. try (fold h hs ps in Vsz).
  assert (Hps : trunc 16 ps < 65536) by (unfold trunc; change (2 ^ 16) with 65536; lia).
  assert (Tps : trunc 16 ps = ps) by (apply trunc_id; change (2 ^ 16) with 65536; lia).
  destruct (header_prefix_facts h (trunc 16 ps) Wh Vh Hps) as (L2 & Ok2 & Hhs & Hu & F).
  specialize (F (encode_path (h_path h))). cbv zeta in F.
  destruct F as (_ & _ & _ & _ & _ & _ & _ & Rdn & Rsn & Rhl & Rpt & Rpl & Rv).
  pose proof (encode_header_blen h (trunc 16 ps) (zeros hs) Wh Vh (proj2 (zeros_ok hs))) as Lhb. try (fold hs in Lhb).
  unfold encode_packet_al. try fold h. try fold hs. try fold ps. rewrite <- encode_header_shape in Rdn, Rsn, Rhl, Rpt, Rpl, Rv. try (fold hs in Rdn, Rsn, Rhl, Rpt, Rpl, Rv).
  set (hb := encode_header h (trunc 16 ps) (zeros hs)) in *.
  set (pb := encode_payload h (p_pl p) hs alh al (zeros ps)).
  assert (Lpb : blen pb = ps).
  { pose proof (encode_packet_blen_all p alh al W V) as Lall. unfold encode_packet_al, packet_size in Lall. try (fold h hs ps hb pb in Lall).
    rewrite blen_app, Lhb in Lall. lia. }
  pose proof Wh as W2. unfold header_wf in W2. repeat (apply Bool.andb_true_iff in W2; let X := fresh "W" in destruct W2 as [W2 X]).
  pose proof Vh as V2. unfold header_wire_valid in V2. repeat (apply Bool.andb_true_iff in V2; let X := fresh "V" in destruct V2 as [V2 X]).
  assert (A : addr_size h = 16 + host_size (h_dst_host h) + host_size (h_src_host h)) by (apply addr_size_eq; assumption).
  assert (H28 : 28 <= hs) by (unfold hs; rewrite Hhs; unfold CommonHeader_SIZE_BYTES; lia).
  assert (Hhs' : hs = CommonHeader_SIZE_BYTES + (16 + host_size (h_dst_host h) + host_size (h_src_host h)) + path_size (h_path h)) by exact Hhs.
  assert (Hu' : trunc 8 (hs / 4) * 4 = hs) by exact Hu.
  rewrite header_layout_HL. unfold HL. rewrite blen_app, Lhb, Lpb.
  destruct (hs + ps <? CommonHeader_SIZE_BYTES) eqn:C0; [apply N.ltb_lt in C0; unfold CommonHeader_SIZE_BYTES in C0; lia|].
  unfold hv_version, hv_path_type, hv_src_addr_type, hv_dst_addr_type, hv_header_len, hv_payload_len in *.
  rewrite !rd_app_l by (rewrite Lhb; first [(change (byte_hi CommonHeader_VERSION_RNG) with 1; lia)|(change (byte_hi CommonHeader_PATH_TYPE_RNG) with 9; lia)
    |(change (byte_hi CommonHeader_SRC_ADDR_INFO_RNG) with 10; lia)|(change (byte_hi CommonHeader_DST_ADDR_INFO_RNG) with 10; lia)
    |(change (byte_hi CommonHeader_HEADER_LEN_RNG) with 6; lia)|(change (byte_hi CommonHeader_PAYLOAD_LEN_RNG) with 8; lia)]).
  rewrite Rv. cbn [obind]. change (negb (0 =? 0)) with false. cbn iota.
  rewrite Rpt, Rsn, Rdn. cbn [obind].
  destruct (rd hb CommonHeader_HEADER_LEN_RNG 8) as [u| |] eqn:Eu; cbn [obind] in Rhl; try discriminate.
  assert (Eu4 : u * 4 = hs) by (inversion Rhl; reflexivity). cbn [obind]. rewrite Rpl. cbn [obind]. rewrite Tps.
  rewrite !hat_size_nibble by assumption.
  assert (Eae : CommonHeader_SIZE_BYTES + addr_hdr_size (host_size (h_src_host h)) (host_size (h_dst_host h)) = CommonHeader_SIZE_BYTES + (16 + host_size (h_dst_host h) + host_size (h_src_host h)))
    by (unfold addr_hdr_size, AddressHeader_FIXED_SIZE_BITS; lia).
  rewrite Eae.
  destruct (hs + ps <? CommonHeader_SIZE_BYTES + (16 + host_size (h_dst_host h) + host_size (h_src_host h))) eqn:C1; [apply N.ltb_lt in C1; lia|].
  repeat match goal with H : context [p_hdr p] |- _ => progress change (p_hdr p) with h in H end.
  destruct (h_path h) as [ci ch segs|i h1 h2| |pt d] eqn:Epath; try destruct Hp; cbn [path_type_num path_size] in *.
  - change (PT_ONEHOP =? PT_SCION) with false. change (PT_ONEHOP =? PT_ONEHOP) with true.
    cbn iota. cbn [obind path_layout_size].
    match goal with |- context [hs + ps <? ?c] => destruct (hs + ps <? c) eqn:C2; [apply N.ltb_lt in C2; lia|] end.
    match goal with |- context [negb (?c =? u * 4)] => destruct (negb (c =? u * 4)) eqn:C3; [apply Bool.negb_true_iff in C3; apply N.eqb_neq in C3; lia|] end.
    eexists. split; [reflexivity|]. cbn [hl_header_len hl_payload_len]. split; [lia|reflexivity].
  - change (PT_EMPTY =? PT_SCION) with false. change (PT_EMPTY =? PT_ONEHOP) with false. change (PT_EMPTY =? PT_EMPTY) with true.
    cbn iota. cbn [obind path_layout_size].
    match goal with |- context [hs + ps <? ?c] => destruct (hs + ps <? c) eqn:C2; [apply N.ltb_lt in C2; lia|] end.
    match goal with |- context [negb (?c =? u * 4)] => destruct (negb (c =? u * 4)) eqn:C3; [apply Bool.negb_true_iff in C3; apply N.eqb_neq in C3; lia|] end.
    eexists. split; [reflexivity|]. cbn [hl_header_len hl_payload_len]. split; [lia|reflexivity].
  - cbn [path_wire_valid] in V0. apply Bool.andb_true_iff in V0. destruct V0 as [_ V0]. apply Bool.andb_true_iff in V0. destruct V0 as [Vt _].
    apply Bool.negb_true_iff in Vt. apply Bool.orb_false_iff in Vt. destruct Vt as [Vt Vo]. apply Bool.orb_false_iff in Vt. destruct Vt as [Ve Vs].
    rewrite Ve, Vs, Vo. cbn iota.
    match goal with |- context [u * 4 <? ?c] => destruct (u * 4 <? c) eqn:C4; [apply N.ltb_lt in C4; lia|] end. cbn [obind path_layout_size].
    assert (Esz : size_bytes (rng_of_range ((CommonHeader_SIZE_BYTES + (16 + host_size (h_dst_host h) + host_size (h_src_host h))) * 8) (u * 4 * 8)) = blen d).
    { unfold size_bytes, rng_of_range, byte_lo, byte_hi, r_end, r_start. cbn [fst snd]. lia. }
    rewrite Esz.
    match goal with |- context [hs + ps <? ?c] => destruct (hs + ps <? c) eqn:C2; [apply N.ltb_lt in C2; lia|] end.
    match goal with |- context [negb (?c =? u * 4)] => destruct (negb (c =? u * 4)) eqn:C3; [apply Bool.negb_true_iff in C3; apply N.eqb_neq in C3; lia|] end.
    eexists. split; [reflexivity|]. cbn [hl_header_len hl_payload_len]. split; [lia|reflexivity].
Qed.

Lemma put_zeros_full (x : bytes) : put 0 x (zeros (blen x)) = x.
Proof.
  unfold put. cbn [N.to_nat firstn app Nat.add]. rewrite skipn_all2; [apply app_nil_r|].
  unfold zeros, blen. rewrite repeat_length. lia.
Qed.

(** decode (encode p) = p for raw and UDP packets over an empty / unsupported-type path *)
Lemma packet_roundtrip_core p alh al :
  model_wf p = true -> packet_wire_valid p = true ->
  (exists l, header_layout (encode_packet_al p alh al) = Ok l /\ hl_header_len l = header_size (p_hdr p)
             /\ hl_payload_len l = payload_size (p_pl p) (header_size (p_hdr p))) ->
  decode_header (encode_header (p_hdr p) (trunc 16 (payload_size (p_pl p) (header_size (p_hdr p)))) (zeros (header_size (p_hdr p)))) = Ok (p_hdr p) ->
  match p_pl p with
  | PL_Raw _ => decode_packet 0 (encode_packet_al p alh al) = Ok (p, [])
  | PL_Udp _ _ _ => decode_packet 1 (encode_packet_al p alh al) = Ok (p, [])
  | PL_Scmp _ => True
  end.
Proof.
  intros W V (l & HLb & Hhl & Hpl) Dh.
  pose proof W as W'. unfold model_wf in W'. apply Bool.andb_true_iff in W'. destruct W' as [Wh Wp].
  pose proof V as V'. unfold packet_wire_valid in V'. apply Bool.andb_true_iff in V'. destruct V' as [V' Vsz].
  apply Bool.andb_true_iff in V'. destruct V' as [Vh Vp].
  apply Bool.negb_true_iff in Vsz. apply N.ltb_ge in Vsz. unfold U16_MAX in Vsz.
  set (h := p_hdr p) in *. set (hs := header_size h) in *. set (ps := payload_size (p_pl p) hs) in *.
  assert (Hps : trunc 16 ps < 65536) by (unfold trunc; change (2 ^ 16) with 65536; lia).
  pose proof (encode_header_blen h (trunc 16 ps) (zeros hs) Wh Vh (proj2 (zeros_ok hs))) as Lhb. fold hs in Lhb.
  destruct (encoded_header_lengths p W V) as (Rhl & _ & _). fold h hs ps in Rhl.
  unfold encode_packet_al in *. fold h hs ps in HLb |- *.
  set (hb := encode_header h (trunc 16 ps) (zeros hs)) in *.
  set (pb := encode_payload h (p_pl p) hs alh al (zeros ps)) in *.
  assert (Lpb : blen pb = ps).
  { pose proof (encode_packet_blen_all p alh al W V) as Lall. unfold encode_packet_al, packet_size in Lall. fold h hs ps hb pb in Lall.
    rewrite blen_app, Lhb in Lall. lia. }
  set (b := hb ++ pb) in *.
  assert (Lb : blen b = hs + ps) by (unfold b; rewrite blen_app, Lhb, Lpb; reflexivity).
  (* the pieces the decoder extracts *)
  assert (Ehdr : pkt_header b = Ok hb).
  { unfold pkt_header. unfold hv_header_len in *. unfold b at 1. rewrite rd_app_l by (rewrite Lhb; change (byte_hi CommonHeader_HEADER_LEN_RNG) with 6;
      pose proof (header_layout_min _ _ HLb) as M; rewrite Hhl in M; lia).
    destruct (rd hb CommonHeader_HEADER_LEN_RNG 8) as [u| |]; cbn [obind] in Rhl |- *; try discriminate. inversion Rhl as [E]. rewrite E.
    rewrite get_unchecked_ok' by (rewrite Lb; lia). f_equal. unfold b. rewrite <- Lhb. apply sub_app_l. }
  assert (Epay : pkt_payload b = Ok pb).
  { unfold pkt_payload. rewrite (pkt_payload_range_ok b l HLb). cbn [obind fst snd]. rewrite Hhl, Hpl, Lb.
    replace (N.min ps (hs + ps - hs)) with ps by lia. f_equal. unfold b. rewrite <- Lhb, <- Lpb. apply sub_app_tail. }
  assert (Eraw : required_size_raw b = Ok (blen b)).
  { unfold required_size_raw. rewrite HLb. cbn [obind]. rewrite Hhl, Hpl, Lb. f_equal. lia. }
  assert (Rest : sub b (blen b) (blen b) = []).
  { unfold sub. replace (N.to_nat (blen b - blen b)) with 0%nat by lia. reflexivity. }
  destruct (p_pl p) as [x|sp dp d|m] eqn:Epl; [| |exact I].
  - (* raw *)
    unfold decode_packet. unfold try_from_slice. cbn [required_size]. rewrite Eraw. cbn [obind].
    destruct (blen b <? blen b) eqn:C; [apply N.ltb_lt in C; lia|]. rewrite sub_full, Rest. cbn [obind].
    rewrite Ehdr. cbn [obind]. rewrite Dh. cbn [obind]. rewrite Epay. cbn [obind].
    unfold pb. cbn [encode_payload]. cbn [payload_size] in ps. unfold ps. rewrite put_zeros_full.
    destruct p as [ph ppl]. cbn [p_hdr p_pl] in *. subst ppl. reflexivity.
  - (* UDP *)
    cbn [payload_wf] in Wp. apply Bool.andb_true_iff in Wp. destruct Wp as [Wp Wd]. apply Bool.andb_true_iff in Wp. destruct Wp as [Wsp Wdp].
    apply N.ltb_lt in Wsp. apply N.ltb_lt in Wdp.
    cbn [payload_wire_valid] in Vp. apply Bool.negb_true_iff in Vp. apply N.ltb_ge in Vp. unfold U16_MAX in Vp.
    cbn [payload_size] in ps.
    destruct (zeros_ok ps) as [Zok Zlen].
    destruct (udp_roundtrip_lemma h sp dp d hs alh al (zeros ps) Zok Wd Zlen Wsp Wdp Vp) as (_ & _ & Ru & _ & Du).
    fold pb in Ru, Du.
    unfold decode_packet. unfold try_from_slice at 1. cbn [required_size]. unfold required_size_udp_pkt.
    rewrite Eraw. cbn [obind]. rewrite Epay. cbn [obind]. rewrite Ru. cbn [obind].
    destruct (blen b <? blen b) eqn:C; [apply N.ltb_lt in C; lia|]. rewrite sub_full, Rest. cbn [obind].
    rewrite Ehdr. cbn [obind]. rewrite Dh. cbn [obind]. rewrite Epay. cbn [obind].
    unfold try_from_slice. cbn [required_size]. rewrite Ru. cbn [obind].
    destruct (blen pb <? blen pb) eqn:C2; [apply N.ltb_lt in C2; lia|]. rewrite sub_full. rewrite Du.
    destruct p as [ph ppl]. cbn [p_hdr p_pl] in *. subst ppl. reflexivity.
Qed.

Lemma packet_roundtrip_simple p alh al :
  model_wf p = true -> packet_wire_valid p = true ->
  (match h_path (p_hdr p) with DP_Empty | DP_Unsupported _ _ => True | _ => False end) ->
  match p_pl p with
  | PL_Raw _ => decode_packet 0 (encode_packet_al p alh al) = Ok (p, [])
  | PL_Udp _ _ _ => decode_packet 1 (encode_packet_al p alh al) = Ok (p, [])
  | PL_Scmp _ => True
  end.
Proof.
  intros W V Hp. apply packet_roundtrip_core; try assumption.
  - apply (encoded_layout p alh al W V). destruct (h_path (p_hdr p)); try exact I; destruct Hp.
  - pose proof W as W'. unfold model_wf in W'. apply Bool.andb_true_iff in W'. destruct W' as [Wh _].
    pose proof V as V'. unfold packet_wire_valid in V'. apply Bool.andb_true_iff in V'. destruct V' as [V' Vsz].
    apply Bool.andb_true_iff in V'. destruct V' as [Vh _].
    apply header_roundtrip_simple_paths; try assumption.
    unfold trunc. change (2 ^ 16) with 65536. lia.
Qed.
