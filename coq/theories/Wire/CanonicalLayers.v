(** Canonical bytes re-encode to themselves, layer by layer (C03, "encode (decode b) = b"):
    for the layers whose fields are byte aligned -- info field and hop field -- decoding a byte
    string and encoding the result into ANY buffer of the same length gives the byte string back,
    provided the bytes are canonical (the info field's reserved byte is zero).
    Key lemmas: a byte-aligned lane write is a splice of the big-endian bytes ([w_aligned]);
    [be_bytes] inverts [be_val] on byte lists ([be_bytes_be_val]). *)
From Coq Require Import Lia ZifyBool ZifyNat ZifyN.
From Sci Require Import Wire.Codec Wire.Spec_C03 Wire.BitFieldProofs Wire.Proofs_C02 Wire.Proofs_C02d Wire.RoundTripProofs
  Wire.SpecAgreeProofs Wire.SpecDecodeAgree Wire.ChecksumVerify Wire.EncodeLengthProofs Wire.AddrRoundTrip Wire.StdPathRoundTrip.
Local Open Scope N_scope.
Ltac Zify.zify_post_hook ::= Z.div_mod_to_equations.
Arguments N.add : simpl never. Arguments N.sub : simpl never. Arguments N.mul : simpl never.
Arguments N.div : simpl never. Arguments N.modulo : simpl never. Arguments N.pow : simpl never.
Arguments N.shiftr : simpl never. Arguments N.land : simpl never. Arguments N.ltb : simpl never.
Arguments N.leb : simpl never. Arguments N.eqb : simpl never.

(** * big-endian bytes *)
Lemma be_bytes_mod n : forall v, be_bytes n (v mod 256 ^ N.of_nat n) = be_bytes n v.
Proof.
  induction n as [|n IH]; intros v; cbn [be_bytes]; [reflexivity|].
  rewrite Nat2N.inj_succ, N.pow_succ_r'.
  assert (P : 256 ^ N.of_nat n <> 0) by (apply N.pow_nonzero; discriminate).
  rewrite N.mod_mul_r by (first [discriminate | exact P]).
  set (X := (v / 256) mod 256 ^ N.of_nat n).
  assert (R : v mod 256 < 256) by (apply N.mod_lt; discriminate).
  replace ((v mod 256 + 256 * X) / 256) with X by lia.
  replace ((v mod 256 + 256 * X) mod 256) with (v mod 256) by lia.
  unfold X. rewrite IH. reflexivity.
Qed.

Lemma be_bytes_be_val (l : bytes) : bytes_ok l = true -> be_bytes (length l) (be_val 0 l) = l.
Proof.
  induction l as [|x l IH] using rev_ind; intros H; [reflexivity|].
  rewrite bytes_ok_app in H. apply Bool.andb_true_iff in H. destruct H as [Hl Hx].
  cbn [bytes_ok forallb] in Hx. apply Bool.andb_true_iff in Hx. destruct Hx as [Hx _]. unfold byte_ok in Hx. apply N.ltb_lt in Hx.
  rewrite app_length. cbn [length]. rewrite Nat.add_1_r. cbn [be_bytes].
  rewrite be_val_app. cbn [be_val length]. change (256 ^ N.of_nat 1) with 256.
  replace ((be_val 0 l * 256 + (0 * 256 + x)) / 256) with (be_val 0 l) by lia.
  replace ((be_val 0 l * 256 + (0 * 256 + x)) mod 256) with x by lia.
  rewrite IH by exact Hl. reflexivity.
Qed.

Lemma be_bytes_sl (v : bytes) o k : bytes_ok v = true -> o + k <= blen v -> be_bytes (N.to_nat k) (be v o k) = sl v o k.
Proof.
  intros Hok H. unfold be.
  assert (L : length (sl v o k) = N.to_nat k) by (pose proof (sl_blen v o k H) as E; unfold blen in E; lia).
  rewrite <- L. apply be_bytes_be_val. apply bytes_ok_sl. exact Hok.
Qed.

(** * a byte-aligned lane write is a splice *)
Lemma land_lor_ldiff L M V : N.land (N.lor (N.ldiff L M) (N.land V M)) M = N.land V M.
Proof.
  apply N.bits_inj. intros n. rewrite !N.land_spec, N.lor_spec, N.ldiff_spec, N.land_spec.
  destruct (N.testbit L n), (N.testbit M n), (N.testbit V n); reflexivity.
Qed.

Lemma w_aligned o k val (b : bytes) : o + k <= blen b -> val < 256 ^ k ->
  w (8 * o, 8 * k) val b = put o (be_bytes (N.to_nat k) val) b.
Proof.
  intros Hl Hv. unfold w, lane_write, put.
  assert (E1 : byte_lo (8 * o, 8 * k) = o) by (unfold byte_lo, r_start; cbn [fst]; lia).
  assert (E2 : byte_hi (8 * o, 8 * k) = o + k) by (unfold byte_hi, r_end, r_start, r_width; cbn [fst snd]; lia).
  assert (E3 : r_end (8 * o, 8 * k) = 8 * o + 8 * k) by reflexivity.
  assert (E4 : r_width (8 * o, 8 * k) = 8 * k) by reflexivity.
  cbv zeta. rewrite E1, E2, E3, E4.
  replace ((o + k) * 8 - (8 * o + 8 * k)) with 0 by lia. rewrite !N.shiftl_0_r.
  replace (o + k - o) with k by lia.
  set (lane := be_val 0 (sub b o (o + k))). set (M := N.ones (8 * k)).
  assert (P : 256 ^ N.of_nat (N.to_nat k) = 2 ^ (8 * k)).
  { rewrite N2Nat.id. change 256 with (2 ^ 8). rewrite <- N.pow_mul_r. reflexivity. }
  assert (Enew : N.lor (N.ldiff lane M) (N.land val M) mod 256 ^ N.of_nat (N.to_nat k) = val).
  { rewrite P. rewrite <- N.land_ones. fold M. rewrite land_lor_ldiff. unfold M. rewrite N.land_ones.
    apply N.mod_small. rewrite <- P, N2Nat.id. exact Hv. }
  rewrite <- (be_bytes_mod (N.to_nat k) (N.lor (N.ldiff lane M) (N.land val M))). rewrite Enew.
  rewrite be_bytes_len. rewrite <- N2Nat.inj_add. reflexivity.
Qed.

(** * rebuilding a byte string from consecutive slices *)
Lemma put_slice_step (v b : bytes) o k :
  blen b = blen v -> sub b 0 o = sub v 0 o -> o + k <= blen v ->
  blen (put o (sl v o k) b) = blen v /\ sub (put o (sl v o k) b) 0 (o + k) = sub v 0 (o + k).
Proof.
  intros Lb Hp Hl.
  assert (Lx : blen (sl v o k) = k) by (apply sl_blen; exact Hl).
  split; [rewrite put_blen by (rewrite Lx, Lb; exact Hl); exact Lb|].
  unfold put. unfold sub in *. rewrite N.sub_0_r in *. cbn [N.to_nat skipn] in *.
  rewrite Hp. rewrite app_assoc. rewrite firstn_app.
  assert (L1 : length (firstn (N.to_nat o) v ++ sl v o k) = N.to_nat (o + k)).
  { rewrite app_length, firstn_length. unfold blen in *. lia. }
  rewrite L1, Nat.sub_diag. cbn [firstn]. rewrite app_nil_r.
  rewrite firstn_all2 by lia.
  rewrite N2Nat.inj_add. rewrite (firstn_sum_split (N.to_nat o) (N.to_nat k) v). reflexivity.
Qed.

Lemma sub_whole_eq (b v : bytes) : blen b = blen v -> sub b 0 (blen v) = sub v 0 (blen v) -> b = v.
Proof. intros L H. rewrite <- L in H at 1. rewrite !sub_all in H. exact H. Qed.

(** * info field *)
Lemma encode_decode_info v i buf :
  bytes_ok v = true -> blen v = 8 -> be v 1 1 = 0 -> decode_info v = Ok i ->
  blen buf = 8 -> encode_info i buf = v.
Proof.
  intros Hok Lv Hr Hd Lb.
  destruct (spec_info_agrees v Hok ltac:(rewrite Lv; unfold InfoField_SIZE_BYTES; lia)) as (E1 & E2 & E3 & _).
  unfold decode_info in Hd. rewrite E1, E2, E3 in Hd. cbn [obind] in Hd. inversion Hd; subst i. clear Hd.
  unfold encode_info. cbn [i_flags i_segid i_ts].
  change InfoField_FLAGS_RNG with (8 * 0, 8 * 1). change InfoField_RSV_RNG with (8 * 1, 8 * 1).
  change InfoField_SEGMENT_ID_RNG with (8 * 2, 8 * 2). change InfoField_TIMESTAMP_RNG with (8 * 4, 8 * 4).
  rewrite <- Hr at 1.
  rewrite (w_aligned 0 1 _ buf) by (first [lia | (apply (be_lt v 0 1 Hok); lia)]).
  rewrite (be_bytes_sl v 0 1 Hok) by lia.
  destruct (put_slice_step v buf 0 1 ltac:(lia) ltac:(reflexivity) ltac:(lia)) as [L1 P1]. change (0 + 1) with 1 in P1.
  set (b1 := put 0 (sl v 0 1) buf) in *.
  rewrite (w_aligned 1 1 _ b1) by (first [lia | (apply (be_lt v 1 1 Hok); lia)]).
  rewrite (be_bytes_sl v 1 1 Hok) by lia.
  destruct (put_slice_step v b1 1 1 L1 P1 ltac:(lia)) as [L2 P2]. change (1 + 1) with 2 in P2.
  set (b2 := put 1 (sl v 1 1) b1) in *.
  rewrite (w_aligned 2 2 _ b2) by (first [lia | (apply (be_lt v 2 2 Hok); lia)]).
  rewrite (be_bytes_sl v 2 2 Hok) by lia.
  destruct (put_slice_step v b2 2 2 L2 P2 ltac:(lia)) as [L3 P3]. change (2 + 2) with 4 in P3.
  set (b3 := put 2 (sl v 2 2) b2) in *.
  rewrite (w_aligned 4 4 _ b3) by (first [lia | (apply (be_lt v 4 4 Hok); lia)]).
  rewrite (be_bytes_sl v 4 4 Hok) by lia.
  destruct (put_slice_step v b3 4 4 L3 P3 ltac:(lia)) as [L4 P4]. change (4 + 4) with 8 in P4.
  apply sub_whole_eq; [exact L4|]. rewrite Lv. exact P4.
Qed.

(** * hop field *)
Lemma encode_decode_hop v h buf :
  bytes_ok v = true -> blen v = 12 -> decode_hop v = Ok h -> blen buf = 12 -> encode_hop h buf = v.
Proof.
  intros Hok Lv Hd Lb.
  destruct (spec_hop_agrees v Hok ltac:(rewrite Lv; unfold HopField_SIZE_BYTES; lia)) as (E1 & E2 & E3 & E4 & E5).
  unfold decode_hop in Hd. rewrite E1, E2, E3, E4, E5 in Hd. cbn [obind] in Hd. inversion Hd; subst h. clear Hd.
  unfold encode_hop. cbn [h_flags h_exp h_in h_eg h_mac].
  change HopField_FLAGS_RNG with (8 * 0, 8 * 1). change HopField_EXP_TIME_RNG with (8 * 1, 8 * 1).
  change HopField_CONS_INGRESS_RNG with (8 * 2, 8 * 2). change HopField_CONS_EGRESS_RNG with (8 * 4, 8 * 2).
  change (byte_lo HopField_MAC_RNG) with 6.
  rewrite (w_aligned 0 1 _ buf) by (first [lia | (apply (be_lt v 0 1 Hok); lia)]).
  rewrite (be_bytes_sl v 0 1 Hok) by lia.
  destruct (put_slice_step v buf 0 1 ltac:(lia) ltac:(reflexivity) ltac:(lia)) as [L1 P1]. change (0 + 1) with 1 in P1.
  set (b1 := put 0 (sl v 0 1) buf) in *.
  rewrite (w_aligned 1 1 _ b1) by (first [lia | (apply (be_lt v 1 1 Hok); lia)]).
  rewrite (be_bytes_sl v 1 1 Hok) by lia.
  destruct (put_slice_step v b1 1 1 L1 P1 ltac:(lia)) as [L2 P2]. change (1 + 1) with 2 in P2.
  set (b2 := put 1 (sl v 1 1) b1) in *.
  rewrite (w_aligned 2 2 _ b2) by (first [lia | (apply (be_lt v 2 2 Hok); lia)]).
  rewrite (be_bytes_sl v 2 2 Hok) by lia.
  destruct (put_slice_step v b2 2 2 L2 P2 ltac:(lia)) as [L3 P3]. change (2 + 2) with 4 in P3.
  set (b3 := put 2 (sl v 2 2) b2) in *.
  rewrite (w_aligned 4 2 _ b3) by (first [lia | (apply (be_lt v 4 2 Hok); lia)]).
  rewrite (be_bytes_sl v 4 2 Hok) by lia.
  destruct (put_slice_step v b3 4 2 L3 P3 ltac:(lia)) as [L4 P4]. change (4 + 2) with 6 in P4.
  set (b4 := put 4 (sl v 4 2) b3) in *.
  destruct (put_slice_step v b4 6 6 L4 P4 ltac:(lia)) as [L5 P5]. change (6 + 6) with 12 in P5.
  apply sub_whole_eq; [exact L5|]. rewrite Lv. exact P5.
Qed.

(** * one-hop path: info field + two hop fields *)
Lemma encode_decode_onehop v p buf :
  bytes_ok v = true -> blen v = 32 -> be v 1 1 = 0 -> decode_onehop v = Ok p ->
  blen buf = 32 -> encode_path p buf = v.
Proof.
  intros Hok Lv Hr Hd Lb. unfold decode_onehop in Hd.
  change (byte_lo OneHopPath_INFO_FIELD) with 0 in Hd. change (byte_hi OneHopPath_INFO_FIELD) with 8 in Hd.
  change (byte_lo OneHopPath_HOP_FIELD_1) with 8 in Hd. change (byte_hi OneHopPath_HOP_FIELD_1) with 20 in Hd.
  change (byte_lo OneHopPath_HOP_FIELD_2) with 20 in Hd. change (byte_hi OneHopPath_HOP_FIELD_2) with 32 in Hd.
  rewrite !index_range_ok in Hd by lia. cbn [obind] in Hd.
  destruct (decode_info (sub v 0 8)) as [i| |] eqn:Di; cbn [obind] in Hd; try discriminate.
  destruct (decode_hop (sub v 8 20)) as [h1| |] eqn:D1; cbn [obind] in Hd; try discriminate.
  destruct (decode_hop (sub v 20 32)) as [h2| |] eqn:D2; cbn [obind] in Hd; try discriminate.
  inversion Hd; subst p. clear Hd. cbn [encode_path].
  change (byte_lo OneHopPath_INFO_FIELD) with 0. change (byte_hi OneHopPath_INFO_FIELD) with 8.
  change (byte_lo OneHopPath_HOP_FIELD_1) with 8. change (byte_hi OneHopPath_HOP_FIELD_1) with 20.
  change (byte_lo OneHopPath_HOP_FIELD_2) with 20. change (byte_hi OneHopPath_HOP_FIELD_2) with 32.
  unfold on_sub.
  assert (S0 : forall (b : bytes), blen b = 32 -> blen (sub b 0 8) = 8) by (intros b Hb; rewrite blen_sub by lia; lia).
  assert (S1 : forall (b : bytes), blen b = 32 -> blen (sub b 8 20) = 12) by (intros b Hb; rewrite blen_sub by lia; lia).
  assert (S2 : forall (b : bytes), blen b = 32 -> blen (sub b 20 32) = 12) by (intros b Hb; rewrite blen_sub by lia; lia).
  assert (R0 : be (sub v 0 8) 1 1 = 0) by (rewrite be_sub by lia; exact Hr).
  rewrite (encode_decode_info (sub v 0 8) i (sub buf 0 8) (bytes_ok_sub v 0 8 Hok) (S0 v Lv) R0 Di (S0 buf Lb)).
  replace (sub v 0 8) with (sl v 0 8) by (apply sl_sub).
  destruct (put_slice_step v buf 0 8 ltac:(lia) ltac:(reflexivity) ltac:(lia)) as [L1 P1]. change (0 + 8) with 8 in P1.
  set (b1 := put 0 (sl v 0 8) buf) in *.
  rewrite (encode_decode_hop (sub v 8 20) h1 (sub b1 8 20) (bytes_ok_sub v 8 20 Hok) (S1 v Lv) D1 (S1 b1 ltac:(lia))).
  replace (sub v 8 20) with (sl v 8 12) by (apply sl_sub).
  destruct (put_slice_step v b1 8 12 L1 P1 ltac:(lia)) as [L2 P2]. change (8 + 12) with 20 in P2.
  set (b2 := put 8 (sl v 8 12) b1) in *.
  rewrite (encode_decode_hop (sub v 20 32) h2 (sub b2 20 32) (bytes_ok_sub v 20 32 Hok) (S2 v Lv) D2 (S2 b2 ltac:(lia))).
  replace (sub v 20 32) with (sl v 20 12) by (apply sl_sub).
  destruct (put_slice_step v b2 20 12 L2 P2 ltac:(lia)) as [L3 P3]. change (20 + 12) with 32 in P3.
  apply sub_whole_eq; [exact L3|]. rewrite Lv. exact P3.
Qed.

(** * layers with bit fields: round trip + agreement with the literal reader + injectivity.
    If [v] is canonical and [v2] is the encoding of the fields decoded from [v], then [v2] decodes
    to the same fields (round-trip lemma) with the reserved bits zero; both are read by the
    literal-offset reader as functions of their big-endian chunk values, the fields determine
    those values, and [be_bytes] rebuilds the bytes from them. *)
Lemma whole_is_chunk (v : bytes) n : blen v = n -> sl v 0 n = v.
Proof. intros H. rewrite sl_sub. rewrite N.add_0_l, <- H. apply sub_all. Qed.

Lemma same_be_same_bytes (v v2 : bytes) n :
  bytes_ok v = true -> bytes_ok v2 = true -> blen v = n -> blen v2 = n -> be v 0 n = be v2 0 n -> v2 = v.
Proof.
  intros O1 O2 L1 L2 E.
  rewrite <- (whole_is_chunk v n L1), <- (whole_is_chunk v2 n L2).
  rewrite <- (be_bytes_sl v 0 n O1) by lia. rewrite <- (be_bytes_sl v2 0 n O2) by lia. rewrite E. reflexivity.
Qed.

Lemma chain6 x : exists q1 q2 q3 q4,
  x = 64 * q1 + x mod 64 /\ q1 = 64 * q2 + (x / 64) mod 64 /\ q2 = 64 * q3 + (x / 4096) mod 64
  /\ q3 = 64 * q4 + (x / 262144) mod 64 /\ q4 = 64 * (x / 1073741824) + (x / 16777216) mod 64.
Proof.
  exists (x / 64), (x / 4096), (x / 262144), (x / 16777216).
  refine (conj (N.div_mod' x 64) (conj _ (conj _ (conj _ _)))).
  - rewrite (N.div_mod' (x / 64) 64) at 1. rewrite N.div_div by discriminate. reflexivity.
  - rewrite (N.div_mod' (x / 4096) 64) at 1. rewrite N.div_div by discriminate. reflexivity.
  - rewrite (N.div_mod' (x / 262144) 64) at 1. rewrite N.div_div by discriminate. reflexivity.
  - rewrite (N.div_mod' (x / 16777216) 64) at 1. rewrite N.div_div by discriminate. reflexivity.
Qed.

(** standard path meta header (4 bytes: CurrINF 2, CurrHF 6, RSV 6, SegLen 3 x 6 bits) *)
Lemma encode_decode_meta (v buf : bytes) :
  bytes_ok v = true -> blen v = 4 -> bytes_ok buf = true -> blen buf = 4 ->
  let m := be v 0 4 in
  (m / 2 ^ 18) mod 64 = 0 ->
  apply_writes (meta_writes (m / 2 ^ 30) ((m / 2 ^ 24) mod 64) ((m / 2 ^ 12) mod 64) ((m / 2 ^ 6) mod 64) (m mod 64)) buf = v.
Proof.
  intros Hok Lv Hob Lb m Hr.
  assert (Lm : m < 4294967296) by (apply (be_lt v 0 4 Hok); lia).
  destruct (path_meta_roundtrip_lemma (m / 2 ^ 30) ((m / 2 ^ 24) mod 64) ((m / 2 ^ 12) mod 64) ((m / 2 ^ 6) mod 64) (m mod 64) buf Hob
              ltac:(rewrite Lb; unfold StdPathMeta_SIZE_BYTES; lia) ltac:(change (2 ^ 30) with 1073741824; lia)
              ltac:(lia) ltac:(lia) ltac:(lia) ltac:(lia)) as (O2 & L2 & Rci & Rch & Rsegs & Rrsv & _).
  set (v2 := apply_writes (meta_writes (m / 2 ^ 30) ((m / 2 ^ 24) mod 64) ((m / 2 ^ 12) mod 64) ((m / 2 ^ 6) mod 64) (m mod 64)) buf) in *.
  destruct (spec_meta_agrees v2 O2 ltac:(rewrite L2, Lb; unfold StdPathMeta_SIZE_BYTES; lia)) as (A1 & A2 & A3 & A4 & A5 & A6).
  set (m2 := be v2 0 4) in *.
  assert (Lm2 : m2 < 4294967296) by (apply (be_lt v2 0 4 O2); rewrite L2, Lb; lia).
  rewrite Rci in A1. rewrite Rch in A2. rewrite Rrsv in A3.
  unfold sp_segs in Rsegs. rewrite A4, A5, A6 in Rsegs. cbn [obind] in Rsegs.
  inversion A1 as [B1]. inversion A2 as [B2]. inversion A3 as [B3]. inversion Rsegs as [[B4 B5 B6]].
  apply (same_be_same_bytes v v2 4 Hok O2 Lv ltac:(rewrite L2; exact Lb)).
  fold m m2.
  change (2 ^ 30) with 1073741824 in *. change (2 ^ 24) with 16777216 in *. change (2 ^ 18) with 262144 in *.
  change (2 ^ 12) with 4096 in *. change (2 ^ 6) with 64 in *.
  destruct (chain6 m) as (q1 & q2 & q3 & q4 & C1 & C2 & C3 & C4 & C5).
  destruct (chain6 m2) as (p1 & p2 & p3 & p4 & D1 & D2 & D3 & D4 & D5).
  rewrite B6 in D1. rewrite B5 in D2. rewrite B4 in D3. rewrite <- B3 in D4. rewrite <- B2, <- B1 in D5. rewrite Hr in C4.
  clear - C1 C2 C3 C4 C5 D1 D2 D3 D4 D5.
  remember (m mod 64) as t1. remember ((m / 64) mod 64) as t2. remember ((m / 4096) mod 64) as t3.
  remember ((m / 16777216) mod 64) as t5. remember (m / 1073741824) as t6.
  clear Heqt1 Heqt2 Heqt3 Heqt5 Heqt6. lia.
Qed.

(** * common header (12 bytes; version 4, traffic class 8, flow id 20 bits, two 4-bit address nibbles) *)
Lemma chunk_ext (v v2 : bytes) o k :
  bytes_ok v = true -> bytes_ok v2 = true -> o + k <= blen v -> o + k <= blen v2 ->
  sub v2 0 o = sub v 0 o -> be v2 o k = be v o k -> sub v2 0 (o + k) = sub v 0 (o + k).
Proof.
  intros O1 O2 L1 L2 Hp Hb.
  assert (E : sl v2 o k = sl v o k) by (rewrite <- (be_bytes_sl v o k O1 L1), <- (be_bytes_sl v2 o k O2 L2), Hb; reflexivity).
  unfold sub in *. rewrite N.sub_0_r in *. cbn [N.to_nat skipn] in *.
  rewrite N2Nat.inj_add, !firstn_sum_split. rewrite Hp. f_equal. exact E.
Qed.

Lemma encode_decode_common (v buf : bytes) h units psize :
  bytes_ok v = true -> blen v = 12 -> bytes_ok buf = true -> blen buf = 12 ->
  h_tc h < 256 -> h_flow h < 2 ^ 20 -> h_nh h < 256 -> units < 256 -> psize < 65536 ->
  path_type_num (h_path h) < 256 -> host_nibble (h_dst_host h) < 16 -> host_nibble (h_src_host h) < 16 ->
  hv_version v = Ok 0 -> rd v CommonHeader_RSV_RNG 16 = Ok 0 ->
  hv_traffic_class v = Ok (h_tc h) -> hv_flow_id v = Ok (h_flow h) -> hv_next_header v = Ok (h_nh h) ->
  hv_header_len v = Ok (units * 4) -> hv_payload_len v = Ok psize -> hv_path_type v = Ok (path_type_num (h_path h)) ->
  hv_dst_addr_type v = Ok (host_nibble (h_dst_host h)) -> hv_src_addr_type v = Ok (host_nibble (h_src_host h)) ->
  encode_common h units psize buf = v.
Proof.
  intros Hok Lv Hob Lb Htc Hfl Hnh Hun Hps Hpt Hdn Hsn Rv Rr Rtc Rfl Rnh Rhl Rpl Rpt Rd Rs.
  destruct (common_header_roundtrip_lemma h units psize buf Hob ltac:(rewrite Lb; unfold CommonHeader_SIZE_BYTES; lia)
              Htc Hfl Hnh Hun Hps Hpt Hdn Hsn) as (O2 & L2 & Qv & Qtc & Qfl & Qnh & Qhl & Qpl & Qpt & Qd & Qs & Qr & _).
  set (v2 := encode_common h units psize buf) in *. rewrite Lb in L2.
  assert (X0 : be v 0 1 < 256) by (apply (be_lt v 0 1 Hok); rewrite ?Lv, ?L2; apply N.leb_le; reflexivity). assert (Y0 : be v2 0 1 < 256) by (apply (be_lt v2 0 1 O2); rewrite ?Lv, ?L2; apply N.leb_le; reflexivity).
  assert (X1 : be v 1 1 < 256) by (apply (be_lt v 1 1 Hok); rewrite ?Lv, ?L2; apply N.leb_le; reflexivity). assert (Y1 : be v2 1 1 < 256) by (apply (be_lt v2 1 1 O2); rewrite ?Lv, ?L2; apply N.leb_le; reflexivity).
  assert (X2 : be v 2 2 < 65536) by (apply (be_lt v 2 2 Hok); rewrite ?Lv, ?L2; apply N.leb_le; reflexivity). assert (Y2 : be v2 2 2 < 65536) by (apply (be_lt v2 2 2 O2); rewrite ?Lv, ?L2; apply N.leb_le; reflexivity).
  assert (X9 : be v 9 1 < 256) by (apply (be_lt v 9 1 Hok); rewrite ?Lv, ?L2; apply N.leb_le; reflexivity). assert (Y9 : be v2 9 1 < 256) by (apply (be_lt v2 9 1 O2); rewrite ?Lv, ?L2; apply N.leb_le; reflexivity).
  pose proof (spec_common_agrees v Hok ltac:(rewrite Lv; unfold CommonHeader_SIZE_BYTES; lia)) as A. cbv zeta in A.
  destruct A as (A1 & A2 & A3 & A4 & A5 & A6 & A7 & A8 & A9 & A10).
  pose proof (spec_common_agrees v2 O2 ltac:(rewrite L2; unfold CommonHeader_SIZE_BYTES; lia)) as B. cbv zeta in B.
  destruct B as (B1 & B2 & B3 & B4 & B5 & B6 & B7 & B8 & B9 & B10).
  rewrite Rv in A1. rewrite Rtc in A2. rewrite Rfl in A3. rewrite Rnh in A4. rewrite Rhl in A5. rewrite Rpl in A6.
  rewrite Rpt in A7. rewrite Rd in A8. rewrite Rs in A9. rewrite Rr in A10.
  rewrite Qv in B1. rewrite Qtc in B2. rewrite Qfl in B3. rewrite Qnh in B4. rewrite Qhl in B5. rewrite Qpl in B6.
  rewrite Qpt in B7. rewrite Qd in B8. rewrite Qs in B9. rewrite Qr in B10.
  inversion A1 as [a1]. inversion A2 as [a2]. inversion A3 as [a3]. inversion A4 as [a4]. inversion A5 as [a5]. inversion A6 as [a6].
  inversion A7 as [a7]. inversion A8 as [a8]. inversion A9 as [a9]. inversion A10 as [a10].
  inversion B1 as [b1]. inversion B2 as [b2]. inversion B3 as [b3]. inversion B4 as [b4]. inversion B5 as [b5]. inversion B6 as [b6].
  inversion B7 as [b7]. inversion B8 as [b8]. inversion B9 as [b9]. inversion B10 as [b10].
  assert (E0 : be v2 0 1 = be v 0 1) by (clear - a1 a2 b1 b2 X0 Y0 X1 Y1; lia).
  assert (E1 : be v2 1 1 = be v 1 1) by (clear - a2 a3 b2 b3 X0 Y0 X1 Y1 X2 Y2 E0; lia).
  assert (E2 : be v2 2 2 = be v 2 2) by (clear - a3 b3 E1 X2 Y2; lia).
  assert (E4 : be v2 4 1 = be v 4 1) by congruence.
  assert (E5 : be v2 5 1 = be v 5 1) by (clear - a5 b5; lia).
  assert (E6 : be v2 6 2 = be v 6 2) by congruence.
  assert (E8 : be v2 8 1 = be v 8 1) by congruence.
  assert (E9 : be v2 9 1 = be v 9 1) by (clear - a8 a9 b8 b9 X9 Y9; lia).
  assert (E10 : be v2 10 2 = be v 10 2) by congruence.
  assert (S0 : sub v2 0 0 = sub v 0 0) by reflexivity.
  pose proof (chunk_ext v v2 0 1 Hok O2 ltac:(rewrite Lv; apply N.leb_le; reflexivity) ltac:(rewrite L2; apply N.leb_le; reflexivity) S0 E0) as S1. change (0 + 1) with 1 in S1.
  pose proof (chunk_ext v v2 1 1 Hok O2 ltac:(rewrite Lv; apply N.leb_le; reflexivity) ltac:(rewrite L2; apply N.leb_le; reflexivity) S1 E1) as S2. change (1 + 1) with 2 in S2.
  pose proof (chunk_ext v v2 2 2 Hok O2 ltac:(rewrite Lv; apply N.leb_le; reflexivity) ltac:(rewrite L2; apply N.leb_le; reflexivity) S2 E2) as S4. change (2 + 2) with 4 in S4.
  pose proof (chunk_ext v v2 4 1 Hok O2 ltac:(rewrite Lv; apply N.leb_le; reflexivity) ltac:(rewrite L2; apply N.leb_le; reflexivity) S4 E4) as S5. change (4 + 1) with 5 in S5.
  pose proof (chunk_ext v v2 5 1 Hok O2 ltac:(rewrite Lv; apply N.leb_le; reflexivity) ltac:(rewrite L2; apply N.leb_le; reflexivity) S5 E5) as S6. change (5 + 1) with 6 in S6.
  pose proof (chunk_ext v v2 6 2 Hok O2 ltac:(rewrite Lv; apply N.leb_le; reflexivity) ltac:(rewrite L2; apply N.leb_le; reflexivity) S6 E6) as S8. change (6 + 2) with 8 in S8.
  pose proof (chunk_ext v v2 8 1 Hok O2 ltac:(rewrite Lv; apply N.leb_le; reflexivity) ltac:(rewrite L2; apply N.leb_le; reflexivity) S8 E8) as S9. change (8 + 1) with 9 in S9.
  pose proof (chunk_ext v v2 9 1 Hok O2 ltac:(rewrite Lv; apply N.leb_le; reflexivity) ltac:(rewrite L2; apply N.leb_le; reflexivity) S9 E9) as S10. change (9 + 1) with 10 in S10.
  pose proof (chunk_ext v v2 10 2 Hok O2 ltac:(rewrite Lv; apply N.leb_le; reflexivity) ltac:(rewrite L2; apply N.leb_le; reflexivity) S10 E10) as S12. change (10 + 2) with 12 in S12.
  apply sub_whole_eq; [rewrite L2, Lv; reflexivity|]. rewrite Lv. exact S12.
Qed.

(** * layers that are plain copies: raw payload, unsupported path data, empty path *)
Lemma put_whole (x buf : bytes) : blen buf = blen x -> put 0 x buf = x.
Proof.
  intros H. unfold put. cbn [N.to_nat firstn app Nat.add]. rewrite skipn_all2 by (unfold blen in H; lia). apply app_nil_r.
Qed.

Lemma encode_decode_raw_payload h (v buf : bytes) hs alh al :
  blen buf = blen v -> encode_payload h (PL_Raw v) hs alh al buf = v.
Proof. intros H. cbn [encode_payload]. apply put_whole. exact H. Qed.

Lemma encode_decode_plain_paths (v buf : bytes) pt :
  blen buf = blen v ->
  encode_path (DP_Unsupported pt v) buf = v /\ (blen v = 0 -> encode_path DP_Empty buf = v).
Proof.
  intros H. split; [cbn [encode_path]; apply put_whole; exact H|].
  intros Z. cbn [encode_path]. unfold blen in *. destruct buf; [|cbn in H; lia]. destruct v; [reflexivity|cbn in Z; lia].
Qed.

(** * UDP datagram: header (ports, length, checksum) + data *)
Lemma put_slice_step_t (T b : bytes) o k x :
  blen b = blen T -> sub b 0 o = sub T 0 o -> o + k <= blen T -> x = sl T o k ->
  blen (put o x b) = blen T /\ sub (put o x b) 0 (o + k) = sub T 0 (o + k).
Proof. intros L P H ->. apply put_slice_step; assumption. Qed.

Lemma put_same (v : bytes) o k : o + k <= blen v -> put o (sl v o k) v = v.
Proof.
  intros H. destruct (put_slice_step v v o k eq_refl eq_refl H) as [L P].
  unfold put in *. assert (Lx : length (sl v o k) = N.to_nat k) by (pose proof (sl_blen v o k H) as E; unfold blen in E; lia).
  rewrite Lx. unfold sl. rewrite <- N2Nat.inj_add.
  rewrite <- (firstn_skipn (N.to_nat o) v) at 4.
  f_equal. rewrite <- (firstn_skipn (N.to_nat k) (skipn (N.to_nat o) v)) at 2. f_equal.
  rewrite skipn_skipn'. rewrite N2Nat.inj_add. reflexivity.
Qed.

Lemma put_put (v x y : bytes) o : length x = length y -> o + blen y <= blen v -> put o x (put o y v) = put o x v.
Proof.
  intros Hl Hb. unfold put. unfold blen in *.
  assert (L1 : length (firstn (N.to_nat o) v) = N.to_nat o) by (rewrite firstn_length; lia).
  rewrite firstn_app, L1, Nat.sub_diag. cbn [firstn]. rewrite app_nil_r, firstn_firstn, Nat.min_id.
  f_equal. f_equal. rewrite Hl.
  rewrite app_assoc. rewrite skipn_app.
  assert (L2 : length (firstn (N.to_nat o) v ++ y) = (N.to_nat o + length y)%nat) by (rewrite app_length, L1; reflexivity).
  rewrite L2, Nat.sub_diag. rewrite skipn_all2 by lia. cbn [skipn app]. reflexivity.
Qed.

Lemma encode_decode_udp h (v buf : bytes) sp dp d hs alh al :
  bytes_ok v = true -> 8 <= blen v -> blen v <= 65535 -> be v 4 2 = blen v ->
  decode_udp v = Ok (PL_Udp sp dp d) -> blen buf = blen v ->
  be v 6 2 = l4_checksum h PROTO_UDP (put 6 [0; 0] v) alh al ->
  encode_payload h (PL_Udp sp dp d) hs alh al buf = v.
Proof.
  intros Hok L8 L16 Hlen Hd Lb Hc.
  destruct (spec_udp_agrees v Hok ltac:(unfold UdpDatagram_HEADER_SIZE_BYTES; lia)) as (E1 & E2 & _).
  unfold decode_udp in Hd. rewrite E1, E2 in Hd. cbn [obind] in Hd. unfold udp_payload_range in Hd.
  change UdpDatagram_HEADER_SIZE_BYTES with 8 in Hd. rewrite get_unchecked_ok in Hd by lia. cbn [obind fst snd] in Hd.
  inversion Hd; subst sp dp d. clear Hd.
  assert (Ld : blen (sub v 8 (blen v)) = blen v - 8) by (rewrite blen_sub by lia; reflexivity).
  set (T := put 6 [0; 0] v).
  assert (LT : blen T = blen v) by (unfold T; rewrite put_blen by (cbn; lia); reflexivity).
  assert (T0 : sl T 0 2 = sl v 0 2) by (rewrite !sl_sub; unfold T; apply put_sub_below; lia).
  assert (T2 : sl T 2 2 = sl v 2 2) by (rewrite !sl_sub; unfold T; apply put_sub_below; lia).
  assert (T4 : sl T 4 2 = sl v 4 2) by (rewrite !sl_sub; unfold T; apply put_sub_below; lia).
  assert (T6 : sl T 6 2 = [0; 0]) by (rewrite sl_sub; unfold T; change (6 + 2) with (6 + blen [0; 0]); apply put_sub_exact; cbn; lia).
  assert (T8 : sl T 8 (blen v - 8) = sub v 8 (blen v)).
  { rewrite sl_sub. replace (8 + (blen v - 8)) with (blen v) by lia. unfold T. apply put_sub_above; cbn; lia. }
  cbn [encode_payload]. change UdpDatagram_HEADER_SIZE_BYTES with 8. rewrite Ld.
  replace (8 + (blen v - 8)) with (blen v) by lia.
  unfold trunc. change (2 ^ 16) with 65536. rewrite (N.mod_small (blen v)) by lia.
  change UdpDatagram_SRC_PORT_RNG with (8 * 0, 8 * 2). change UdpDatagram_DST_PORT_RNG with (8 * 2, 8 * 2).
  change UdpDatagram_LENGTH_RNG with (8 * 4, 8 * 2). change UdpDatagram_CHECKSUM_RNG with (8 * 6, 8 * 2).
  rewrite (w_aligned 0 2 _ buf) by (first [lia | (apply (be_lt v 0 2 Hok); lia)]).
  rewrite (be_bytes_sl v 0 2 Hok) by lia.
  destruct (put_slice_step_t T buf 0 2 _ ltac:(lia) ltac:(reflexivity) ltac:(lia) (eq_sym T0)) as [L1 P1]. change (0 + 2) with 2 in P1.
  set (b1 := put 0 (sl v 0 2) buf) in *.
  rewrite (w_aligned 2 2 _ b1) by (first [lia | (apply (be_lt v 2 2 Hok); lia)]).
  rewrite (be_bytes_sl v 2 2 Hok) by lia.
  destruct (put_slice_step_t T b1 2 2 _ L1 P1 ltac:(lia) (eq_sym T2)) as [L2 P2]. change (2 + 2) with 4 in P2.
  set (b2 := put 2 (sl v 2 2) b1) in *.
  rewrite (w_aligned 4 2 (blen v) b2) by (first [lia | (change (256 ^ 2) with 65536; lia)]).
  replace (be_bytes (N.to_nat 2) (blen v)) with (sl v 4 2)
    by (rewrite <- Hlen at 1; symmetry; apply be_bytes_sl; [exact Hok|lia]).
  destruct (put_slice_step_t T b2 4 2 _ L2 P2 ltac:(lia) (eq_sym T4)) as [L3 P3]. change (4 + 2) with 6 in P3.
  set (b3 := put 4 (sl v 4 2) b2) in *.
  rewrite (w_aligned 6 2 0 b3) by (first [lia | (vm_compute; reflexivity)]).
  change (be_bytes (N.to_nat 2) 0) with [0; 0].
  destruct (put_slice_step_t T b3 6 2 _ L3 P3 ltac:(lia) (eq_sym T6)) as [L4 P4]. change (6 + 2) with 8 in P4.
  set (b4 := put 6 [0; 0] b3) in *.
  destruct (put_slice_step_t T b4 8 (blen v - 8) _ L4 P4 ltac:(lia) (eq_sym T8)) as [L5 P5].
  replace (8 + (blen v - 8)) with (blen v) in P5 by lia.
  set (b5 := put 8 (sub v 8 (blen v)) b4) in *.
  assert (E5 : b5 = T) by (apply sub_whole_eq; [exact L5|]; rewrite LT; exact P5).
  rewrite E5. rewrite <- LT at 1. rewrite sub_all. fold T in Hc. rewrite <- Hc.
  rewrite (w_aligned 6 2 _ T) by (first [lia | (apply (be_lt v 6 2 Hok); lia)]).
  rewrite (be_bytes_sl v 6 2 Hok) by lia.
  unfold T. rewrite put_put by (first [reflexivity | (cbn; lia) | (pose proof (sl_blen v 6 2 ltac:(lia)) as E; unfold blen in E |- *; cbn [length]; lia)]).
  apply put_same. lia.
Qed.

(** * address header: two ISD-AS numbers (each written as ISD + AS) and the two host addresses *)
Lemma ia_parts (v : bytes) o : bytes_ok v = true -> o + 8 <= blen v ->
  trunc 16 (N.shiftr (be v o 8) 48) = be v o 2 /\ N.land (be v o 8) ASN_MASK = be v (o + 2) 6.
Proof.
  intros Hok H.
  assert (S : be v o 8 = be v o 2 * 256 ^ 6 + be v (o + 2) 6) by (change 8 with (2 + 6) at 1; apply be_split; [exact Hok|lia]).
  assert (B2 : be v o 2 < 65536) by (apply (be_lt v o 2 Hok); lia).
  assert (B6 : be v (o + 2) 6 < 281474976710656) by (apply (be_lt v (o + 2) 6 Hok); lia).
  change (256 ^ 6) with 281474976710656 in S.
  split.
  - rewrite N.shiftr_div_pow2. change (2 ^ 48) with 281474976710656. unfold trunc. change (2 ^ 16) with 65536.
    rewrite S. clear S. replace ((be v o 2 * 281474976710656 + be v (o + 2) 6) / 281474976710656) with (be v o 2) by lia.
    apply N.mod_small. exact B2.
  - change ASN_MASK with (N.ones 48). rewrite N.land_ones. change (2 ^ 48) with 281474976710656.
    rewrite S. clear S. lia.
Qed.

Lemma encode_decode_addr (v buf : bytes) h :
  bytes_ok v = true ->
  let dl := host_size (h_dst_host h) in let sl_ := host_size (h_src_host h) in
  dl <= 16 -> sl_ <= 16 -> blen v = 16 + dl + sl_ -> blen buf = blen v ->
  h_dst_ia h = be v 0 8 -> h_src_ia h = be v 8 8 ->
  host_bytes (h_dst_host h) = sl v 16 dl -> host_bytes (h_src_host h) = sl v (16 + dl) sl_ ->
  encode_addr h buf = v.
Proof.
  intros Hok dl sl_ Hd Hs Lv Lb Ed Es Hdb Hsb.
  unfold encode_addr. fold dl sl_. cbv zeta.
  assert (Td : trunc 8 dl = dl) by (unfold trunc; change (2 ^ 8) with 256; apply N.mod_small; lia).
  rewrite Td. change (AddressHeader_FIXED_SIZE_BITS / 8) with 16.
  rewrite Ed, Es.
  destruct (ia_parts v 0 Hok ltac:(lia)) as [D1 D2]. destruct (ia_parts v 8 Hok ltac:(lia)) as [S1 S2].
  rewrite D1, D2, S1, S2. change (0 + 2) with 2. change (8 + 2) with 10.
  change AddressHeader_DST_ISD_RNG with (8 * 0, 8 * 2). change AddressHeader_DST_AS_RNG with (8 * 2, 8 * 6).
  change AddressHeader_SRC_ISD_RNG with (8 * 8, 8 * 2). change AddressHeader_SRC_AS_RNG with (8 * 10, 8 * 6).
  rewrite (w_aligned 0 2 _ buf) by (first [lia | (apply (be_lt v 0 2 Hok); lia)]).
  rewrite (be_bytes_sl v 0 2 Hok) by lia.
  destruct (put_slice_step v buf 0 2 ltac:(lia) ltac:(reflexivity) ltac:(lia)) as [L1 P1]. change (0 + 2) with 2 in P1.
  set (b1 := put 0 (sl v 0 2) buf) in *.
  rewrite (w_aligned 2 6 _ b1) by (first [lia | (apply (be_lt v 2 6 Hok); lia)]).
  rewrite (be_bytes_sl v 2 6 Hok) by lia.
  destruct (put_slice_step v b1 2 6 L1 P1 ltac:(lia)) as [L2 P2]. change (2 + 6) with 8 in P2.
  set (b2 := put 2 (sl v 2 6) b1) in *.
  rewrite (w_aligned 8 2 _ b2) by (first [lia | (apply (be_lt v 8 2 Hok); lia)]).
  rewrite (be_bytes_sl v 8 2 Hok) by lia.
  destruct (put_slice_step v b2 8 2 L2 P2 ltac:(lia)) as [L3 P3]. change (8 + 2) with 10 in P3.
  set (b3 := put 8 (sl v 8 2) b2) in *.
  rewrite (w_aligned 10 6 _ b3) by (first [lia | (apply (be_lt v 10 6 Hok); lia)]).
  rewrite (be_bytes_sl v 10 6 Hok) by lia.
  destruct (put_slice_step v b3 10 6 L3 P3 ltac:(lia)) as [L4 P4]. change (10 + 6) with 16 in P4.
  set (b4 := put 10 (sl v 10 6) b3) in *.
  rewrite Hdb, Hsb.
  destruct (put_slice_step v b4 16 dl L4 P4 ltac:(lia)) as [L5 P5].
  set (b5 := put 16 (sl v 16 dl) b4) in *.
  destruct (put_slice_step v b5 (16 + dl) sl_ L5 P5 ltac:(lia)) as [L6 P6].
  apply sub_whole_eq; [exact L6|]. rewrite Lv. exact P6.
Qed.

(** a decoded host address re-encodes to the bytes it was read from, if the service address's
    padding is zero (the canonical form) *)
Lemma host_bytes_of_decoded nib (raw : bytes) x :
  bytes_ok raw = true -> host_addr_decode nib raw = Some x ->
  (forall s, x = HA_Svc s -> sl raw 2 2 = [0; 0]) -> host_bytes x = raw.
Proof.
  intros Hok Hd Hc. unfold host_addr_decode in Hd.
  destruct (nib =? HAT_IPV4). { destruct (blen raw =? 4); inversion Hd. reflexivity. }
  destruct (nib =? HAT_IPV6). { destruct (blen raw =? 16); inversion Hd. reflexivity. }
  destruct (nib =? HAT_SERVICE).
  { destruct (blen raw =? 4) eqn:L; inversion Hd as [E]. apply N.eqb_eq in L. cbn [host_bytes].
    specialize (Hc _ (eq_sym E)). unfold blen in L.
    destruct raw as [|a [|b [|c [|d [|e r]]]]]; cbn [length] in L; try lia.
    unfold sl in Hc. cbn in Hc. inversion Hc; subst c d.
    cbn [bytes_ok forallb] in Hok. apply Bool.andb_true_iff in Hok. destruct Hok as [Ha Hok].
    apply Bool.andb_true_iff in Hok. destruct Hok as [Hb _]. unfold byte_ok in Ha, Hb. apply N.ltb_lt in Ha, Hb.
    unfold sub. cbn [N.to_nat skipn firstn]. change (N.to_nat (2 - 0)) with 2%nat. cbn [firstn be_val be_bytes app].
    replace (((0 * 256 + a) * 256 + b) / 256 mod 256) with a by lia.
    replace (((0 * 256 + a) * 256 + b) mod 256) with b by lia. reflexivity. }
  destruct (blen raw <=? 16); inversion Hd. reflexivity.
Qed.

(** * the info / hop field arrays of a standard path, through the encoder's loops: writing the
    decoded fields into a buffer that already agrees with [V] up to the start of the array makes
    it agree with [V] up to the end of the array *)
Lemma encode_infos_canon (V : bytes) l : forall i data,
  bytes_ok V = true -> blen data = blen V -> (i + N.of_nat (length l)) * 8 <= blen V ->
  sub data 0 (i * 8) = sub V 0 (i * 8) ->
  (forall k x, nth_error l k = Some x ->
     decode_info (sub V ((i + N.of_nat k) * 8) ((i + N.of_nat k) * 8 + 8)) = Ok x /\ be V ((i + N.of_nat k) * 8 + 1) 1 = 0) ->
  blen (encode_infos l i data) = blen V
  /\ sub (encode_infos l i data) 0 ((i + N.of_nat (length l)) * 8) = sub V 0 ((i + N.of_nat (length l)) * 8).
Proof.
  induction l as [|x r IH]; intros i data Hok Ld Hl Hp Hk; cbn [encode_infos length].
  - change (N.of_nat 0) with 0. rewrite N.add_0_r. split; assumption.
  - cbn [length] in *. rewrite Nat2N.inj_succ in *. destruct (info_range_rel i) as [-> ->].
    destruct (Hk 0%nat x eq_refl) as [Dx Rx]. change (N.of_nat 0) with 0 in Dx, Rx. rewrite N.add_0_r in Dx, Rx.
    unfold on_sub.
    assert (S8 : forall (b : bytes), blen b = blen V -> blen (sub b (i * 8) (i * 8 + 8)) = 8) by (intros b Hb; rewrite blen_sub by lia; lia).
    rewrite (encode_decode_info (sub V (i * 8) (i * 8 + 8)) x (sub data (i * 8) (i * 8 + 8)) (bytes_ok_sub V _ _ Hok) (S8 V eq_refl)
               ltac:(rewrite be_sub by lia; exact Rx) Dx (S8 data Ld)).
    replace (sub V (i * 8) (i * 8 + 8)) with (sl V (i * 8) 8) by (apply sl_sub).
    destruct (put_slice_step V data (i * 8) 8 Ld Hp ltac:(lia)) as [L1 P1].
    replace (i * 8 + 8) with ((i + 1) * 8) in P1 by lia.
    destruct (IH (i + 1) _ Hok L1 ltac:(lia) P1) as [L2 P2].
    + intros k y Hy. specialize (Hk (S k) y Hy). rewrite Nat2N.inj_succ in Hk.
      replace (i + 1 + N.of_nat k) with (i + N.succ (N.of_nat k)) by lia. exact Hk.
    + split; [exact L2|]. replace (i + N.succ (N.of_nat (length r))) with (i + 1 + N.of_nat (length r)) by lia. exact P2.
Qed.

Lemma encode_hops_canon (V : bytes) s0 s1 s2 l : forall i data,
  let base := info_field_count s0 s1 s2 * 8 in
  bytes_ok V = true -> blen data = blen V -> base + (i + N.of_nat (length l)) * 12 <= blen V ->
  sub data 0 (base + i * 12) = sub V 0 (base + i * 12) ->
  (forall k x, nth_error l k = Some x ->
     decode_hop (sub V (base + (i + N.of_nat k) * 12) (base + (i + N.of_nat k) * 12 + 12)) = Ok x) ->
  blen (encode_hops l s0 s1 s2 i data) = blen V
  /\ sub (encode_hops l s0 s1 s2 i data) 0 (base + (i + N.of_nat (length l)) * 12) = sub V 0 (base + (i + N.of_nat (length l)) * 12).
Proof.
  induction l as [|x r IH]; intros i data base Hok Ld Hl Hp Hk; cbn [encode_hops length].
  - change (N.of_nat 0) with 0. rewrite N.add_0_r. split; assumption.
  - cbn [length] in *. rewrite Nat2N.inj_succ in *. destruct (hop_range_rel s0 s1 s2 i) as [-> ->]. fold base.
    pose proof (Hk 0%nat x eq_refl) as Dx. change (N.of_nat 0) with 0 in Dx. rewrite N.add_0_r in Dx.
    unfold on_sub.
    assert (S12 : forall (b : bytes), blen b = blen V -> blen (sub b (base + i * 12) (base + i * 12 + 12)) = 12)
      by (intros b Hb; rewrite blen_sub by lia; lia).
    rewrite (encode_decode_hop (sub V (base + i * 12) (base + i * 12 + 12)) x (sub data (base + i * 12) (base + i * 12 + 12))
               (bytes_ok_sub V _ _ Hok) (S12 V eq_refl) Dx (S12 data Ld)).
    replace (sub V (base + i * 12) (base + i * 12 + 12)) with (sl V (base + i * 12) 12) by (apply sl_sub).
    destruct (put_slice_step V data (base + i * 12) 12 Ld Hp ltac:(lia)) as [L1 P1].
    replace (base + i * 12 + 12) with (base + (i + 1) * 12) in P1 by lia.
    destruct (IH (i + 1) _ Hok L1 ltac:(fold base; lia) P1) as [L2 P2].
    + intros k y Hy. specialize (Hk (S k) y Hy). rewrite Nat2N.inj_succ in Hk.
      replace (i + 1 + N.of_nat k) with (i + N.succ (N.of_nat k)) by lia. exact Hk.
    + split; [exact L2|]. fold base in P2. replace (i + N.succ (N.of_nat (length r))) with (i + 1 + N.of_nat (length r)) by lia. exact P2.
Qed.

(** * the whole standard path: meta header + info array + hop array *)
Lemma apply_writes_app ws : forall (x t : bytes),
  (forall r, In r ws -> byte_hi (fst r) <= blen x) -> apply_writes ws (x ++ t) = apply_writes ws x ++ t.
Proof.
  induction ws as [|[r val] ws IH]; intros x t H; [reflexivity|].
  change (apply_writes ((r, val) :: ws) (x ++ t)) with (apply_writes ws (lane_write (x ++ t) r val)).
  change (apply_writes ((r, val) :: ws) x) with (apply_writes ws (lane_write x r val)).
  rewrite lane_write_app by (apply (H (r, val)); left; reflexivity).
  apply IH. intros r' Hr'. rewrite lane_write_blen by (apply (H (r, val)); left; reflexivity). apply H. right. exact Hr'.
Qed.

Lemma encode_decode_stdpath (V buf : bytes) ci ch segs :
  bytes_ok V = true -> bytes_ok buf = true -> blen buf = blen V ->
  let m := be V 0 4 in
  let s0 := seg_len8 segs 0 in let s1 := seg_len8 segs 1 in let s2 := seg_len8 segs 2 in
  let ni := info_field_count s0 s1 s2 in let nh := hop_field_count s0 s1 s2 in
  blen V = 4 + ni * 8 + nh * 12 ->
  (m / 2 ^ 18) mod 64 = 0 -> ci = m / 2 ^ 30 -> ch = (m / 2 ^ 24) mod 64 ->
  s0 = (m / 2 ^ 12) mod 64 -> s1 = (m / 2 ^ 6) mod 64 -> s2 = m mod 64 ->
  N.of_nat (length (map s_info segs)) = ni -> N.of_nat (length (std_hops segs)) = nh ->
  (forall k x, nth_error (map s_info segs) k = Some x ->
     decode_info (sub V (4 + N.of_nat k * 8) (4 + N.of_nat k * 8 + 8)) = Ok x /\ be V (4 + N.of_nat k * 8 + 1) 1 = 0) ->
  (forall k x, nth_error (std_hops segs) k = Some x ->
     decode_hop (sub V (4 + ni * 8 + N.of_nat k * 12) (4 + ni * 8 + N.of_nat k * 12 + 12)) = Ok x) ->
  encode_path (DP_Std ci ch segs) buf = V.
Proof.
  intros Hok Hob Lb m s0 s1 s2 ni nh LV Hr Eci Ech E0 E1 E2 Lni Lnh Hi Hh.
  cbn [encode_path]. fold s0 s1 s2.
  change (w StdPathMeta_SEG2_LEN_RNG s2 (w StdPathMeta_SEG1_LEN_RNG s1 (w StdPathMeta_SEG0_LEN_RNG s0 (w StdPathMeta_RSV_RNG 0
           (w StdPathMeta_CURR_HOP_FIELD_RNG ch (w StdPathMeta_CURR_INFO_FIELD_RNG ci buf))))))
    with (apply_writes (meta_writes ci ch s0 s1 s2) buf).
  (* split the buffer and V at the meta header *)
  set (x := firstn 4 buf). set (t := skipn 4 buf).
  assert (Eb : buf = x ++ t) by (symmetry; apply firstn_skipn).
  assert (Lx : blen x = 4) by (unfold x, blen in *; rewrite firstn_length; lia).
  assert (Lt : blen t = ni * 8 + nh * 12) by (unfold t, blen in *; rewrite skipn_length; lia).
  set (V4 := sub V 0 4). set (VD := sub V 4 (blen V)).
  assert (LV4 : blen V4 = 4) by (unfold V4; rewrite blen_sub by lia; lia).
  assert (LVD : blen VD = ni * 8 + nh * 12) by (unfold VD; rewrite blen_sub by lia; lia).
  assert (EV : V = V4 ++ VD).
  { unfold V4, VD, sub. rewrite N.sub_0_r. cbn [N.to_nat skipn]. rewrite (firstn_all2 (n := N.to_nat (blen V - 4))).
    - symmetry. apply firstn_skipn.
    - rewrite skipn_length. unfold blen. lia. }
  rewrite Eb. rewrite apply_writes_app.
  2: { intros r Hr'. rewrite Lx. unfold meta_writes in Hr'. cbn [In] in Hr'.
       repeat (destruct Hr' as [<-|Hr']; [cbn [fst]; apply N.leb_le; vm_compute; reflexivity|]). destruct Hr'. }
  (* the meta header *)
  assert (Em : be V4 0 4 = m) by (unfold V4; rewrite be_sub by lia; reflexivity).
  assert (Emeta : apply_writes (meta_writes ci ch s0 s1 s2) x = V4).
  { rewrite Eci, Ech, E0, E1, E2. rewrite <- Em.
    apply (encode_decode_meta V4 x (bytes_ok_sub V 0 4 Hok) LV4).
    - unfold x. apply bytes_ok_firstn. exact Hob.
    - exact Lx.
    - rewrite Em. exact Hr. }
  rewrite Emeta.
  unfold on_suffix. change StdPathMeta_SIZE_BYTES with 4. change (N.to_nat 4) with 4%nat.
  assert (L4n : length V4 = 4%nat) by (unfold blen in LV4; lia).
  rewrite <- L4n at 1. rewrite firstn_app, Nat.sub_diag, firstn_all. cbn [firstn]. rewrite app_nil_r.
  rewrite <- L4n at 1. rewrite skipn_app, Nat.sub_diag, skipn_all. cbn [skipn app].
  transitivity (V4 ++ VD); [|symmetry; exact EV]. f_equal.
  (* the arrays, on the data part *)
  assert (OVD : bytes_ok VD = true) by (apply bytes_ok_sub; exact Hok).
  destruct (encode_infos_canon VD (map s_info segs) 0 t OVD ltac:(rewrite Lt, LVD; reflexivity) ltac:(rewrite Lni, LVD; lia) eq_refl) as [L1 P1].
  { intros k y Hy. destruct (Hi k y Hy) as [D R]. rewrite N.add_0_l. unfold VD.
    pose proof Hy as Kl. apply nth_error_Some_lt in Kl.
    assert (Kb : 4 + (N.of_nat k * 8 + 8) <= blen V) by (clear - Kl Lni LV; lia).
    split.
    - rewrite sub_sub by (first [exact Kb | apply N.le_refl]).
      replace (4 + N.of_nat k * 8) with (4 + N.of_nat k * 8) by reflexivity.
      replace (4 + (N.of_nat k * 8 + 8)) with (4 + N.of_nat k * 8 + 8) by (clear; lia). exact D.
    - rewrite be_sub by (first [(clear - Kb; lia) | apply N.le_refl]).
      replace (4 + (N.of_nat k * 8 + 1)) with (4 + N.of_nat k * 8 + 1) by (clear; lia). exact R. }
  rewrite N.add_0_l, Lni in P1.
  set (d1 := encode_infos (map s_info segs) 0 t) in *.
  destruct (encode_hops_canon VD s0 s1 s2 (std_hops segs) 0 d1 OVD L1) as [L2 P2].
  - fold ni. rewrite Lnh, LVD. lia.
  - fold ni. rewrite N.mul_0_l, N.add_0_r. exact P1.
  - intros k y Hy. fold ni. rewrite N.add_0_l. unfold VD.
    pose proof Hy as Kl. apply nth_error_Some_lt in Kl.
    assert (Kb : 4 + (ni * 8 + N.of_nat k * 12 + 12) <= blen V) by (clear - Kl Lnh LV; lia).
    rewrite sub_sub by (first [exact Kb | apply N.le_refl]).
    replace (4 + (ni * 8 + N.of_nat k * 12)) with (4 + ni * 8 + N.of_nat k * 12) by (clear; lia).
    replace (4 + (ni * 8 + N.of_nat k * 12 + 12)) with (4 + ni * 8 + N.of_nat k * 12 + 12) by (clear; lia). apply Hh. exact Hy.
  - fold ni in P2. rewrite N.add_0_l, Lnh in P2.
    apply sub_whole_eq; [exact L2|]. rewrite LVD. exact P2.
Qed.

(** * composition of the layers along the packet layout: if every layer of the model re-encodes
    (into any buffer of its size) to the corresponding slice of a byte string, the whole packet
    re-encodes to the whole byte string *)
Lemma zeros_app a b : zeros (a + b) = zeros a ++ zeros b.
Proof. unfold zeros. rewrite N2Nat.inj_add. apply repeat_app. Qed.

Lemma put_app_left lo (y x t : bytes) : lo + blen y <= blen x -> put lo y (x ++ t) = put lo y x ++ t.
Proof.
  intros H. unfold put, blen in *.
  rewrite firstn_app. replace (N.to_nat lo - length x)%nat with 0%nat by lia. cbn [firstn]. rewrite app_nil_r.
  rewrite skipn_app. replace (N.to_nat lo + length y - length x)%nat with 0%nat by lia. cbn [skipn].
  rewrite <- !app_assoc. reflexivity.
Qed.

Lemma encode_common_local h u ps (x t : bytes) : blen x = 12 -> encode_common h u ps (x ++ t) = encode_common h u ps x ++ t.
Proof.
  intros L. rewrite !encode_common_writes. apply apply_writes_app.
  intros r Hr. rewrite L. unfold common_writes in Hr. cbn [In] in Hr.
  repeat (destruct Hr as [<-|Hr]; [cbn [fst]; apply N.leb_le; vm_compute; reflexivity|]). destruct Hr.
Qed.

Lemma encode_addr_local h (x t : bytes) : addr_size h = 16 + host_size (h_dst_host h) + host_size (h_src_host h) ->
  host_size (h_dst_host h) <= 16 -> blen (host_bytes (h_dst_host h)) = host_size (h_dst_host h) ->
  blen (host_bytes (h_src_host h)) = host_size (h_src_host h) ->
  blen x = addr_size h -> encode_addr h (x ++ t) = encode_addr h x ++ t.
Proof.
  intros A Hd Ld Ls L. unfold encode_addr. cbv zeta.
  assert (Td : trunc 8 (host_size (h_dst_host h)) = host_size (h_dst_host h)) by (unfold trunc; change (2 ^ 8) with 256; apply N.mod_small; lia).
  rewrite Td. change (AddressHeader_FIXED_SIZE_BITS / 8) with 16.
  unfold w.
  assert (H16 : forall r, In r [AddressHeader_DST_ISD_RNG; AddressHeader_DST_AS_RNG; AddressHeader_SRC_ISD_RNG; AddressHeader_SRC_AS_RNG] -> byte_hi r <= 16).
  { intros r Hr. cbn [In] in Hr. repeat (destruct Hr as [<-|Hr]; [apply N.leb_le; vm_compute; reflexivity|]). destruct Hr. }
  rewrite lane_write_app by (rewrite L, A; specialize (H16 AddressHeader_DST_ISD_RNG ltac:(cbn [In]; tauto)); lia).
  set (x1 := lane_write x AddressHeader_DST_ISD_RNG _).
  assert (L1 : blen x1 = blen x) by (apply lane_write_blen; rewrite L, A; specialize (H16 AddressHeader_DST_ISD_RNG ltac:(cbn [In]; tauto)); lia).
  rewrite lane_write_app by (rewrite L1, L, A; specialize (H16 AddressHeader_DST_AS_RNG ltac:(cbn [In]; tauto)); lia).
  set (x2 := lane_write x1 AddressHeader_DST_AS_RNG _).
  assert (L2 : blen x2 = blen x) by (rewrite <- L1; apply lane_write_blen; rewrite L1, L, A; specialize (H16 AddressHeader_DST_AS_RNG ltac:(cbn [In]; tauto)); lia).
  rewrite lane_write_app by (rewrite L2, L, A; specialize (H16 AddressHeader_SRC_ISD_RNG ltac:(cbn [In]; tauto)); lia).
  set (x3 := lane_write x2 AddressHeader_SRC_ISD_RNG _).
  assert (L3 : blen x3 = blen x) by (rewrite <- L2; apply lane_write_blen; rewrite L2, L, A; specialize (H16 AddressHeader_SRC_ISD_RNG ltac:(cbn [In]; tauto)); lia).
  rewrite lane_write_app by (rewrite L3, L, A; specialize (H16 AddressHeader_SRC_AS_RNG ltac:(cbn [In]; tauto)); lia).
  set (x4 := lane_write x3 AddressHeader_SRC_AS_RNG _).
  assert (L4 : blen x4 = blen x) by (rewrite <- L3; apply lane_write_blen; rewrite L3, L, A; specialize (H16 AddressHeader_SRC_AS_RNG ltac:(cbn [In]; tauto)); lia).
  rewrite put_app_left by (rewrite Ld, L4, L, A; lia).
  rewrite put_app_left by (rewrite put_blen by (rewrite Ld, L4, L, A; lia); rewrite Ls, L4, L, A; lia).
  reflexivity.
Qed.

Lemma compose_packet p alh al (cv av xv pv : bytes) :
  let h := p_hdr p in let hs := header_size h in let ps := payload_size (p_pl p) hs in
  addr_size h = 16 + host_size (h_dst_host h) + host_size (h_src_host h) -> host_size (h_dst_host h) <= 16 ->
  blen (host_bytes (h_dst_host h)) = host_size (h_dst_host h) -> blen (host_bytes (h_src_host h)) = host_size (h_src_host h) ->
  blen cv = 12 -> blen av = addr_size h -> blen xv = path_size (h_path h) -> blen pv = ps ->
  (forall B, bytes_ok B = true -> blen B = 12 -> encode_common h (trunc 8 (hs / 4)) (trunc 16 ps) B = cv) ->
  (forall B, bytes_ok B = true -> blen B = blen av -> encode_addr h B = av) ->
  (forall B, bytes_ok B = true -> blen B = blen xv -> encode_path (h_path h) B = xv) ->
  (forall B, bytes_ok B = true -> blen B = blen pv -> encode_payload h (p_pl p) hs alh al B = pv) ->
  encode_packet_al p alh al = cv ++ av ++ xv ++ pv.
Proof.
  intros h hs ps A Hd Ld Ls Lc La Lx Lp Fc Fa Fx Fp.
  unfold encode_packet_al. fold h hs ps. cbv zeta.
  rewrite (Fp (zeros ps) (proj1 (zeros_ok ps)) ltac:(rewrite (proj2 (zeros_ok ps)); symmetry; exact Lp)).
  rewrite !app_assoc. f_equal. rewrite <- !app_assoc.
  unfold encode_header. fold hs. cbv zeta.
  assert (Ehs : hs = 12 + (addr_size h + path_size (h_path h))) by (unfold hs, header_size, CommonHeader_SIZE_BYTES; lia).
  rewrite Ehs at 2. rewrite zeros_app, zeros_app.
  destruct (zeros_ok 12) as [Z1 Z1l]. destruct (zeros_ok (addr_size h)) as [Z2 Z2l]. destruct (zeros_ok (path_size (h_path h))) as [Z3 Z3l].
  rewrite encode_common_local by exact Z1l. rewrite (Fc _ Z1 Z1l).
  change CommonHeader_SIZE_BYTES with 12.
  assert (Lcn : length cv = N.to_nat 12) by (unfold blen in Lc; lia).
  unfold on_suffix at 2. rewrite <- Lcn. rewrite firstn_app, Nat.sub_diag, firstn_all. cbn [firstn]. rewrite app_nil_r.
  rewrite skipn_app, Nat.sub_diag, skipn_all. cbn [skipn app].
  rewrite (encode_addr_local h _ _ A Hd Ld Ls Z2l). rewrite (Fa _ Z2 ltac:(rewrite Z2l; symmetry; exact La)).
  unfold on_suffix.
  assert (Lcan : length (cv ++ av) = N.to_nat (12 + addr_size h)) by (rewrite app_length; unfold blen in Lc, La; lia).
  rewrite app_assoc. rewrite <- Lcan. rewrite firstn_app, Nat.sub_diag, firstn_all. cbn [firstn]. rewrite app_nil_r.
  rewrite skipn_app, Nat.sub_diag, skipn_all. cbn [skipn app].
  rewrite (Fx _ Z3 ltac:(rewrite Z3l; symmetry; exact Lx)). rewrite <- app_assoc. reflexivity.
Qed.
