(** Canonical bytes re-encode to themselves, layer by layer (C03, "encode (decode b) = b"):
    for the layers whose fields are byte aligned -- info field and hop field -- decoding a byte
    string and encoding the result into ANY buffer of the same length gives the byte string back,
    provided the bytes are canonical (the info field's reserved byte is zero).
    Key lemmas: a byte-aligned lane write is a splice of the big-endian bytes ([w_aligned]);
    [be_bytes] inverts [be_val] on byte lists ([be_bytes_be_val]). *)
From Coq Require Import Lia ZifyBool ZifyNat ZifyN.
From Sci Require Import Wire.Codec Wire.Spec_C03 Wire.BitFieldProofs Wire.Proofs_C02 Wire.RoundTripProofs
  Wire.SpecAgreeProofs Wire.SpecDecodeAgree.
Local Open Scope N_scope.
Ltac Zify.zify_post_hook ::= Z.div_mod_to_equations.
Arguments N.add : simpl never. Arguments N.sub : simpl never. Arguments N.mul : simpl never.
Arguments N.div : simpl never. Arguments N.modulo : simpl never. Arguments N.pow : simpl never.
Arguments N.shiftr : simpl never. Arguments N.land : simpl never. Arguments N.ltb : simpl never.
Arguments N.leb : simpl never. Arguments N.eqb : simpl never.

(** * big-endian bytes *)
Lemma be_bytes_mod n : forall v, be_bytes n (v mod 256 ^ N.of_nat n) = be_bytes n v.
Proof.
  induction n as [|n IH]; intros v; cbn [be_bytes]; [reflexivity|].
  rewrite Nat2N.inj_succ, N.pow_succ_r'.
  assert (P : 256 ^ N.of_nat n <> 0) by (apply N.pow_nonzero; discriminate).
  rewrite N.mod_mul_r by (first [discriminate | exact P]).
  set (X := (v / 256) mod 256 ^ N.of_nat n).
  assert (R : v mod 256 < 256) by (apply N.mod_lt; discriminate).
  replace ((v mod 256 + 256 * X) / 256) with X by lia.
  replace ((v mod 256 + 256 * X) mod 256) with (v mod 256) by lia.
  unfold X. rewrite IH. reflexivity.
Qed.

Lemma be_bytes_be_val (l : bytes) : bytes_ok l = true -> be_bytes (length l) (be_val 0 l) = l.
Proof.
  induction l as [|x l IH] using rev_ind; intros H; [reflexivity|].
  rewrite bytes_ok_app in H. apply Bool.andb_true_iff in H. destruct H as [Hl Hx].
  cbn [bytes_ok forallb] in Hx. apply Bool.andb_true_iff in Hx. destruct Hx as [Hx _]. unfold byte_ok in Hx. apply N.ltb_lt in Hx.
  rewrite app_length. cbn [length]. rewrite Nat.add_1_r. cbn [be_bytes].
  rewrite be_val_app. cbn [be_val length]. change (256 ^ N.of_nat 1) with 256.
  replace ((be_val 0 l * 256 + (0 * 256 + x)) / 256) with (be_val 0 l) by lia.
  replace ((be_val 0 l * 256 + (0 * 256 + x)) mod 256) with x by lia.
  rewrite IH by exact Hl. reflexivity.
Qed.

Lemma be_bytes_sl (v : bytes) o k : bytes_ok v = true -> o + k <= blen v -> be_bytes (N.to_nat k) (be v o k) = sl v o k.
Proof.
  intros Hok H. unfold be.
  assert (L : length (sl v o k) = N.to_nat k) by (pose proof (sl_blen v o k H) as E; unfold blen in E; lia).
  rewrite <- L. apply be_bytes_be_val. apply bytes_ok_sl. exact Hok.
Qed.

(** * a byte-aligned lane write is a splice *)
Lemma land_lor_ldiff L M V : N.land (N.lor (N.ldiff L M) (N.land V M)) M = N.land V M.
Proof.
  apply N.bits_inj. intros n. rewrite !N.land_spec, N.lor_spec, N.ldiff_spec, N.land_spec.
  destruct (N.testbit L n), (N.testbit M n), (N.testbit V n); reflexivity.
Qed.

Lemma w_aligned o k val (b : bytes) : o + k <= blen b -> val < 256 ^ k ->
  w (8 * o, 8 * k) val b = put o (be_bytes (N.to_nat k) val) b.
Proof.
  intros Hl Hv. unfold w, lane_write, put.
  assert (E1 : byte_lo (8 * o, 8 * k) = o) by (unfold byte_lo, r_start; cbn [fst]; lia).
  assert (E2 : byte_hi (8 * o, 8 * k) = o + k) by (unfold byte_hi, r_end, r_start, r_width; cbn [fst snd]; lia).
  assert (E3 : r_end (8 * o, 8 * k) = 8 * o + 8 * k) by reflexivity.
  assert (E4 : r_width (8 * o, 8 * k) = 8 * k) by reflexivity.
  cbv zeta. rewrite E1, E2, E3, E4.
  replace ((o + k) * 8 - (8 * o + 8 * k)) with 0 by lia. rewrite !N.shiftl_0_r.
  replace (o + k - o) with k by lia.
  set (lane := be_val 0 (sub b o (o + k))). set (M := N.ones (8 * k)).
  assert (P : 256 ^ N.of_nat (N.to_nat k) = 2 ^ (8 * k)).
  { rewrite N2Nat.id. change 256 with (2 ^ 8). rewrite <- N.pow_mul_r. reflexivity. }
  assert (Enew : N.lor (N.ldiff lane M) (N.land val M) mod 256 ^ N.of_nat (N.to_nat k) = val).
  { rewrite P. rewrite <- N.land_ones. fold M. rewrite land_lor_ldiff. unfold M. rewrite N.land_ones.
    apply N.mod_small. rewrite <- P, N2Nat.id. exact Hv. }
  rewrite <- (be_bytes_mod (N.to_nat k) (N.lor (N.ldiff lane M) (N.land val M))). rewrite Enew.
  rewrite be_bytes_len. rewrite <- N2Nat.inj_add. reflexivity.
Qed.

(** * rebuilding a byte string from consecutive slices *)
Lemma put_slice_step (v b : bytes) o k :
  blen b = blen v -> sub b 0 o = sub v 0 o -> o + k <= blen v ->
  blen (put o (sl v o k) b) = blen v /\ sub (put o (sl v o k) b) 0 (o + k) = sub v 0 (o + k).
Proof.
  intros Lb Hp Hl.
  assert (Lx : blen (sl v o k) = k) by (apply sl_blen; exact Hl).
  split; [rewrite put_blen by (rewrite Lx, Lb; exact Hl); exact Lb|].
  unfold put. unfold sub in *. rewrite N.sub_0_r in *. cbn [N.to_nat skipn] in *.
  rewrite Hp. rewrite app_assoc. rewrite firstn_app.
  assert (L1 : length (firstn (N.to_nat o) v ++ sl v o k) = N.to_nat (o + k)).
  { rewrite app_length, firstn_length. unfold blen in *. lia. }
  rewrite L1, Nat.sub_diag. cbn [firstn]. rewrite app_nil_r.
  rewrite firstn_all2 by lia.
  rewrite N2Nat.inj_add. rewrite (firstn_sum_split (N.to_nat o) (N.to_nat k) v). reflexivity.
Qed.

Lemma sub_whole_eq (b v : bytes) : blen b = blen v -> sub b 0 (blen v) = sub v 0 (blen v) -> b = v.
Proof. intros L H. rewrite <- L in H at 1. rewrite !sub_all in H. exact H. Qed.

(** * info field *)
Lemma encode_decode_info v i buf :
  bytes_ok v = true -> blen v = 8 -> be v 1 1 = 0 -> decode_info v = Ok i ->
  blen buf = 8 -> encode_info i buf = v.
Proof.
  intros Hok Lv Hr Hd Lb.
  destruct (spec_info_agrees v Hok ltac:(rewrite Lv; unfold InfoField_SIZE_BYTES; lia)) as (E1 & E2 & E3 & _).
  unfold decode_info in Hd. rewrite E1, E2, E3 in Hd. cbn [obind] in Hd. inversion Hd; subst i. clear Hd.
  unfold encode_info. cbn [i_flags i_segid i_ts].
  change InfoField_FLAGS_RNG with (8 * 0, 8 * 1). change InfoField_RSV_RNG with (8 * 1, 8 * 1).
  change InfoField_SEGMENT_ID_RNG with (8 * 2, 8 * 2). change InfoField_TIMESTAMP_RNG with (8 * 4, 8 * 4).
  rewrite <- Hr at 1.
  rewrite (w_aligned 0 1 _ buf) by (first [lia | (apply (be_lt v 0 1 Hok); lia)]).
  rewrite (be_bytes_sl v 0 1 Hok) by lia.
  destruct (put_slice_step v buf 0 1 ltac:(lia) ltac:(reflexivity) ltac:(lia)) as [L1 P1]. change (0 + 1) with 1 in P1.
  set (b1 := put 0 (sl v 0 1) buf) in *.
  rewrite (w_aligned 1 1 _ b1) by (first [lia | (apply (be_lt v 1 1 Hok); lia)]).
  rewrite (be_bytes_sl v 1 1 Hok) by lia.
  destruct (put_slice_step v b1 1 1 L1 P1 ltac:(lia)) as [L2 P2]. change (1 + 1) with 2 in P2.
  set (b2 := put 1 (sl v 1 1) b1) in *.
  rewrite (w_aligned 2 2 _ b2) by (first [lia | (apply (be_lt v 2 2 Hok); lia)]).
  rewrite (be_bytes_sl v 2 2 Hok) by lia.
  destruct (put_slice_step v b2 2 2 L2 P2 ltac:(lia)) as [L3 P3]. change (2 + 2) with 4 in P3.
  set (b3 := put 2 (sl v 2 2) b2) in *.
  rewrite (w_aligned 4 4 _ b3) by (first [lia | (apply (be_lt v 4 4 Hok); lia)]).
  rewrite (be_bytes_sl v 4 4 Hok) by lia.
  destruct (put_slice_step v b3 4 4 L3 P3 ltac:(lia)) as [L4 P4]. change (4 + 4) with 8 in P4.
  apply sub_whole_eq; [exact L4|]. rewrite Lv. exact P4.
Qed.

(** * hop field *)
Lemma encode_decode_hop v h buf :
  bytes_ok v = true -> blen v = 12 -> decode_hop v = Ok h -> blen buf = 12 -> encode_hop h buf = v.
Proof.
  intros Hok Lv Hd Lb.
  destruct (spec_hop_agrees v Hok ltac:(rewrite Lv; unfold HopField_SIZE_BYTES; lia)) as (E1 & E2 & E3 & E4 & E5).
  unfold decode_hop in Hd. rewrite E1, E2, E3, E4, E5 in Hd. cbn [obind] in Hd. inversion Hd; subst h. clear Hd.
  unfold encode_hop. cbn [h_flags h_exp h_in h_eg h_mac].
  change HopField_FLAGS_RNG with (8 * 0, 8 * 1). change HopField_EXP_TIME_RNG with (8 * 1, 8 * 1).
  change HopField_CONS_INGRESS_RNG with (8 * 2, 8 * 2). change HopField_CONS_EGRESS_RNG with (8 * 4, 8 * 2).
  change (byte_lo HopField_MAC_RNG) with 6.
  rewrite (w_aligned 0 1 _ buf) by (first [lia | (apply (be_lt v 0 1 Hok); lia)]).
  rewrite (be_bytes_sl v 0 1 Hok) by lia.
  destruct (put_slice_step v buf 0 1 ltac:(lia) ltac:(reflexivity) ltac:(lia)) as [L1 P1]. change (0 + 1) with 1 in P1.
  set (b1 := put 0 (sl v 0 1) buf) in *.
  rewrite (w_aligned 1 1 _ b1) by (first [lia | (apply (be_lt v 1 1 Hok); lia)]).
  rewrite (be_bytes_sl v 1 1 Hok) by lia.
  destruct (put_slice_step v b1 1 1 L1 P1 ltac:(lia)) as [L2 P2]. change (1 + 1) with 2 in P2.
  set (b2 := put 1 (sl v 1 1) b1) in *.
  rewrite (w_aligned 2 2 _ b2) by (first [lia | (apply (be_lt v 2 2 Hok); lia)]).
  rewrite (be_bytes_sl v 2 2 Hok) by lia.
  destruct (put_slice_step v b2 2 2 L2 P2 ltac:(lia)) as [L3 P3]. change (2 + 2) with 4 in P3.
  set (b3 := put 2 (sl v 2 2) b2) in *.
  rewrite (w_aligned 4 2 _ b3) by (first [lia | (apply (be_lt v 4 2 Hok); lia)]).
  rewrite (be_bytes_sl v 4 2 Hok) by lia.
  destruct (put_slice_step v b3 4 2 L3 P3 ltac:(lia)) as [L4 P4]. change (4 + 2) with 6 in P4.
  set (b4 := put 4 (sl v 4 2) b3) in *.
  destruct (put_slice_step v b4 6 6 L4 P4 ltac:(lia)) as [L5 P5]. change (6 + 6) with 12 in P5.
  apply sub_whole_eq; [exact L5|]. rewrite Lv. exact P5.
Qed.

(** * one-hop path: info field + two hop fields *)
Lemma encode_decode_onehop v p buf :
  bytes_ok v = true -> blen v = 32 -> be v 1 1 = 0 -> decode_onehop v = Ok p ->
  blen buf = 32 -> encode_path p buf = v.
Proof.
  intros Hok Lv Hr Hd Lb. unfold decode_onehop in Hd.
  change (byte_lo OneHopPath_INFO_FIELD) with 0 in Hd. change (byte_hi OneHopPath_INFO_FIELD) with 8 in Hd.
  change (byte_lo OneHopPath_HOP_FIELD_1) with 8 in Hd. change (byte_hi OneHopPath_HOP_FIELD_1) with 20 in Hd.
  change (byte_lo OneHopPath_HOP_FIELD_2) with 20 in Hd. change (byte_hi OneHopPath_HOP_FIELD_2) with 32 in Hd.
  rewrite !index_range_ok in Hd by lia. cbn [obind] in Hd.
  destruct (decode_info (sub v 0 8)) as [i| |] eqn:Di; cbn [obind] in Hd; try discriminate.
  destruct (decode_hop (sub v 8 20)) as [h1| |] eqn:D1; cbn [obind] in Hd; try discriminate.
  destruct (decode_hop (sub v 20 32)) as [h2| |] eqn:D2; cbn [obind] in Hd; try discriminate.
  inversion Hd; subst p. clear Hd. cbn [encode_path].
  change (byte_lo OneHopPath_INFO_FIELD) with 0. change (byte_hi OneHopPath_INFO_FIELD) with 8.
  change (byte_lo OneHopPath_HOP_FIELD_1) with 8. change (byte_hi OneHopPath_HOP_FIELD_1) with 20.
  change (byte_lo OneHopPath_HOP_FIELD_2) with 20. change (byte_hi OneHopPath_HOP_FIELD_2) with 32.
  unfold on_sub.
  assert (S0 : forall (b : bytes), blen b = 32 -> blen (sub b 0 8) = 8) by (intros b Hb; rewrite blen_sub by lia; lia).
  assert (S1 : forall (b : bytes), blen b = 32 -> blen (sub b 8 20) = 12) by (intros b Hb; rewrite blen_sub by lia; lia).
  assert (S2 : forall (b : bytes), blen b = 32 -> blen (sub b 20 32) = 12) by (intros b Hb; rewrite blen_sub by lia; lia).
  assert (R0 : be (sub v 0 8) 1 1 = 0) by (rewrite be_sub by lia; exact Hr).
  rewrite (encode_decode_info (sub v 0 8) i (sub buf 0 8) (bytes_ok_sub v 0 8 Hok) (S0 v Lv) R0 Di (S0 buf Lb)).
  replace (sub v 0 8) with (sl v 0 8) by (apply sl_sub).
  destruct (put_slice_step v buf 0 8 ltac:(lia) ltac:(reflexivity) ltac:(lia)) as [L1 P1]. change (0 + 8) with 8 in P1.
  set (b1 := put 0 (sl v 0 8) buf) in *.
  rewrite (encode_decode_hop (sub v 8 20) h1 (sub b1 8 20) (bytes_ok_sub v 8 20 Hok) (S1 v Lv) D1 (S1 b1 ltac:(lia))).
  replace (sub v 8 20) with (sl v 8 12) by (apply sl_sub).
  destruct (put_slice_step v b1 8 12 L1 P1 ltac:(lia)) as [L2 P2]. change (8 + 12) with 20 in P2.
  set (b2 := put 8 (sl v 8 12) b1) in *.
  rewrite (encode_decode_hop (sub v 20 32) h2 (sub b2 20 32) (bytes_ok_sub v 20 32 Hok) (S2 v Lv) D2 (S2 b2 ltac:(lia))).
  replace (sub v 20 32) with (sl v 20 12) by (apply sl_sub).
  destruct (put_slice_step v b2 20 12 L2 P2 ltac:(lia)) as [L3 P3]. change (20 + 12) with 32 in P3.
  apply sub_whole_eq; [exact L3|]. rewrite Lv. exact P3.
Qed.

(** * layers with bit fields: round trip + agreement with the literal reader + injectivity.
    If [v] is canonical and [v2] is the encoding of the fields decoded from [v], then [v2] decodes
    to the same fields (round-trip lemma) with the reserved bits zero; both are read by the
    literal-offset reader as functions of their big-endian chunk values, the fields determine
    those values, and [be_bytes] rebuilds the bytes from them. *)
Lemma whole_is_chunk (v : bytes) n : blen v = n -> sl v 0 n = v.
Proof. intros H. rewrite sl_sub. rewrite N.add_0_l, <- H. apply sub_all. Qed.

Lemma same_be_same_bytes (v v2 : bytes) n :
  bytes_ok v = true -> bytes_ok v2 = true -> blen v = n -> blen v2 = n -> be v 0 n = be v2 0 n -> v2 = v.
Proof.
  intros O1 O2 L1 L2 E.
  rewrite <- (whole_is_chunk v n L1), <- (whole_is_chunk v2 n L2).
  rewrite <- (be_bytes_sl v 0 n O1) by lia. rewrite <- (be_bytes_sl v2 0 n O2) by lia. rewrite E. reflexivity.
Qed.

Lemma chain6 x : exists q1 q2 q3 q4,
  x = 64 * q1 + x mod 64 /\ q1 = 64 * q2 + (x / 64) mod 64 /\ q2 = 64 * q3 + (x / 4096) mod 64
  /\ q3 = 64 * q4 + (x / 262144) mod 64 /\ q4 = 64 * (x / 1073741824) + (x / 16777216) mod 64.
Proof.
  exists (x / 64), (x / 4096), (x / 262144), (x / 16777216).
  refine (conj (N.div_mod' x 64) (conj _ (conj _ (conj _ _)))).
  - rewrite (N.div_mod' (x / 64) 64) at 1. rewrite N.div_div by discriminate. reflexivity.
  - rewrite (N.div_mod' (x / 4096) 64) at 1. rewrite N.div_div by discriminate. reflexivity.
  - rewrite (N.div_mod' (x / 262144) 64) at 1. rewrite N.div_div by discriminate. reflexivity.
  - rewrite (N.div_mod' (x / 16777216) 64) at 1. rewrite N.div_div by discriminate. reflexivity.
Qed.

(** standard path meta header (4 bytes: CurrINF 2, CurrHF 6, RSV 6, SegLen 3 x 6 bits) *)
Lemma encode_decode_meta (v buf : bytes) :
  bytes_ok v = true -> blen v = 4 -> bytes_ok buf = true -> blen buf = 4 ->
  let m := be v 0 4 in
  (m / 2 ^ 18) mod 64 = 0 ->
  apply_writes (meta_writes (m / 2 ^ 30) ((m / 2 ^ 24) mod 64) ((m / 2 ^ 12) mod 64) ((m / 2 ^ 6) mod 64) (m mod 64)) buf = v.
Proof.
  intros Hok Lv Hob Lb m Hr.
  assert (Lm : m < 4294967296) by (apply (be_lt v 0 4 Hok); lia).
  destruct (path_meta_roundtrip_lemma (m / 2 ^ 30) ((m / 2 ^ 24) mod 64) ((m / 2 ^ 12) mod 64) ((m / 2 ^ 6) mod 64) (m mod 64) buf Hob
              ltac:(rewrite Lb; unfold StdPathMeta_SIZE_BYTES; lia) ltac:(change (2 ^ 30) with 1073741824; lia)
              ltac:(lia) ltac:(lia) ltac:(lia) ltac:(lia)) as (O2 & L2 & Rci & Rch & Rsegs & Rrsv & _).
  set (v2 := apply_writes (meta_writes (m / 2 ^ 30) ((m / 2 ^ 24) mod 64) ((m / 2 ^ 12) mod 64) ((m / 2 ^ 6) mod 64) (m mod 64)) buf) in *.
  destruct (spec_meta_agrees v2 O2 ltac:(rewrite L2, Lb; unfold StdPathMeta_SIZE_BYTES; lia)) as (A1 & A2 & A3 & A4 & A5 & A6).
  set (m2 := be v2 0 4) in *.
  assert (Lm2 : m2 < 4294967296) by (apply (be_lt v2 0 4 O2); rewrite L2, Lb; lia).
  rewrite Rci in A1. rewrite Rch in A2. rewrite Rrsv in A3.
  unfold sp_segs in Rsegs. rewrite A4, A5, A6 in Rsegs. cbn [obind] in Rsegs.
  inversion A1 as [B1]. inversion A2 as [B2]. inversion A3 as [B3]. inversion Rsegs as [[B4 B5 B6]].
  apply (same_be_same_bytes v v2 4 Hok O2 Lv ltac:(rewrite L2; exact Lb)).
  fold m m2.
  change (2 ^ 30) with 1073741824 in *. change (2 ^ 24) with 16777216 in *. change (2 ^ 18) with 262144 in *.
  change (2 ^ 12) with 4096 in *. change (2 ^ 6) with 64 in *.
  destruct (chain6 m) as (q1 & q2 & q3 & q4 & C1 & C2 & C3 & C4 & C5).
  destruct (chain6 m2) as (p1 & p2 & p3 & p4 & D1 & D2 & D3 & D4 & D5).
  rewrite B6 in D1. rewrite B5 in D2. rewrite B4 in D3. rewrite <- B3 in D4. rewrite <- B2, <- B1 in D5. rewrite Hr in C4.
  clear - C1 C2 C3 C4 C5 D1 D2 D3 D4 D5.
  remember (m mod 64) as t1. remember ((m / 64) mod 64) as t2. remember ((m / 4096) mod 64) as t3.
  remember ((m / 16777216) mod 64) as t5. remember (m / 1073741824) as t6.
  clear Heqt1 Heqt2 Heqt3 Heqt5 Heqt6. lia.
Qed.

(** * common header (12 bytes; version 4, traffic class 8, flow id 20 bits, two 4-bit address nibbles) *)
Lemma chunk_ext (v v2 : bytes) o k :
  bytes_ok v = true -> bytes_ok v2 = true -> o + k <= blen v -> o + k <= blen v2 ->
  sub v2 0 o = sub v 0 o -> be v2 o k = be v o k -> sub v2 0 (o + k) = sub v 0 (o + k).
Proof.
  intros O1 O2 L1 L2 Hp Hb.
  assert (E : sl v2 o k = sl v o k) by (rewrite <- (be_bytes_sl v o k O1 L1), <- (be_bytes_sl v2 o k O2 L2), Hb; reflexivity).
  unfold sub in *. rewrite N.sub_0_r in *. cbn [N.to_nat skipn] in *.
  rewrite N2Nat.inj_add, !firstn_sum_split. rewrite Hp. f_equal. exact E.
Qed.

Lemma encode_decode_common (v buf : bytes) h units psize :
  bytes_ok v = true -> blen v = 12 -> bytes_ok buf = true -> blen buf = 12 ->
  h_tc h < 256 -> h_flow h < 2 ^ 20 -> h_nh h < 256 -> units < 256 -> psize < 65536 ->
  path_type_num (h_path h) < 256 -> host_nibble (h_dst_host h) < 16 -> host_nibble (h_src_host h) < 16 ->
  hv_version v = Ok 0 -> rd v CommonHeader_RSV_RNG 16 = Ok 0 ->
  hv_traffic_class v = Ok (h_tc h) -> hv_flow_id v = Ok (h_flow h) -> hv_next_header v = Ok (h_nh h) ->
  hv_header_len v = Ok (units * 4) -> hv_payload_len v = Ok psize -> hv_path_type v = Ok (path_type_num (h_path h)) ->
  hv_dst_addr_type v = Ok (host_nibble (h_dst_host h)) -> hv_src_addr_type v = Ok (host_nibble (h_src_host h)) ->
  encode_common h units psize buf = v.
Proof.
  intros Hok Lv Hob Lb Htc Hfl Hnh Hun Hps Hpt Hdn Hsn Rv Rr Rtc Rfl Rnh Rhl Rpl Rpt Rd Rs.
  destruct (common_header_roundtrip_lemma h units psize buf Hob ltac:(rewrite Lb; unfold CommonHeader_SIZE_BYTES; lia)
              Htc Hfl Hnh Hun Hps Hpt Hdn Hsn) as (O2 & L2 & Qv & Qtc & Qfl & Qnh & Qhl & Qpl & Qpt & Qd & Qs & Qr & _).
  set (v2 := encode_common h units psize buf) in *. rewrite Lb in L2.
  pose proof (spec_common_agrees v Hok ltac:(rewrite Lv; unfold CommonHeader_SIZE_BYTES; lia)) as A. cbv zeta in A.
  destruct A as (A1 & A2 & A3 & A4 & A5 & A6 & A7 & A8 & A9 & A10).
  pose proof (spec_common_agrees v2 O2 ltac:(rewrite L2; unfold CommonHeader_SIZE_BYTES; lia)) as B. cbv zeta in B.
  destruct B as (B1 & B2 & B3 & B4 & B5 & B6 & B7 & B8 & B9 & B10).
  rewrite Rv in A1. rewrite Rtc in A2. rewrite Rfl in A3. rewrite Rnh in A4. rewrite Rhl in A5. rewrite Rpl in A6.
  rewrite Rpt in A7. rewrite Rd in A8. rewrite Rs in A9. rewrite Rr in A10.
  rewrite Qv in B1. rewrite Qtc in B2. rewrite Qfl in B3. rewrite Qnh in B4. rewrite Qhl in B5. rewrite Qpl in B6.
  rewrite Qpt in B7. rewrite Qd in B8. rewrite Qs in B9. rewrite Qr in B10.
  inversion A1 as [a1]. inversion A2 as [a2]. inversion A3 as [a3]. inversion A4 as [a4]. inversion A5 as [a5]. inversion A6 as [a6].
  inversion A7 as [a7]. inversion A8 as [a8]. inversion A9 as [a9]. inversion A10 as [a10].
  inversion B1 as [b1]. inversion B2 as [b2]. inversion B3 as [b3]. inversion B4 as [b4]. inversion B5 as [b5]. inversion B6 as [b6].
  inversion B7 as [b7]. inversion B8 as [b8]. inversion B9 as [b9]. inversion B10 as [b10].
  assert (X0 : be v 0 1 < 256) by (apply (be_lt v 0 1 Hok); lia). assert (Y0 : be v2 0 1 < 256) by (apply (be_lt v2 0 1 O2); lia).
  assert (X1 : be v 1 1 < 256) by (apply (be_lt v 1 1 Hok); lia). assert (Y1 : be v2 1 1 < 256) by (apply (be_lt v2 1 1 O2); lia).
  assert (X2 : be v 2 2 < 65536) by (apply (be_lt v 2 2 Hok); lia). assert (Y2 : be v2 2 2 < 65536) by (apply (be_lt v2 2 2 O2); lia).
  assert (X9 : be v 9 1 < 256) by (apply (be_lt v 9 1 Hok); lia). assert (Y9 : be v2 9 1 < 256) by (apply (be_lt v2 9 1 O2); lia).
  assert (E0 : be v2 0 1 = be v 0 1) by (clear - a1 a2 b1 b2 X0 Y0 X1 Y1; lia).
  assert (E1 : be v2 1 1 = be v 1 1) by (clear - a2 a3 b2 b3 X0 Y0 X1 Y1 X2 Y2 E0; lia).
  assert (E2 : be v2 2 2 = be v 2 2) by (clear - a3 b3 E1 X2 Y2; lia).
  assert (E4 : be v2 4 1 = be v 4 1) by congruence.
  assert (E5 : be v2 5 1 = be v 5 1) by (clear - a5 b5; lia).
  assert (E6 : be v2 6 2 = be v 6 2) by congruence.
  assert (E8 : be v2 8 1 = be v 8 1) by congruence.
  assert (E9 : be v2 9 1 = be v 9 1) by (clear - a8 a9 b8 b9 X9 Y9; lia).
  assert (E10 : be v2 10 2 = be v 10 2) by congruence.
  assert (S0 : sub v2 0 0 = sub v 0 0) by reflexivity.
  pose proof (chunk_ext v v2 0 1 Hok O2 ltac:(lia) ltac:(lia) S0 E0) as S1. change (0 + 1) with 1 in S1.
  pose proof (chunk_ext v v2 1 1 Hok O2 ltac:(lia) ltac:(lia) S1 E1) as S2. change (1 + 1) with 2 in S2.
  pose proof (chunk_ext v v2 2 2 Hok O2 ltac:(lia) ltac:(lia) S2 E2) as S4. change (2 + 2) with 4 in S4.
  pose proof (chunk_ext v v2 4 1 Hok O2 ltac:(lia) ltac:(lia) S4 E4) as S5. change (4 + 1) with 5 in S5.
  pose proof (chunk_ext v v2 5 1 Hok O2 ltac:(lia) ltac:(lia) S5 E5) as S6. change (5 + 1) with 6 in S6.
  pose proof (chunk_ext v v2 6 2 Hok O2 ltac:(lia) ltac:(lia) S6 E6) as S8. change (6 + 2) with 8 in S8.
  pose proof (chunk_ext v v2 8 1 Hok O2 ltac:(lia) ltac:(lia) S8 E8) as S9. change (8 + 1) with 9 in S9.
  pose proof (chunk_ext v v2 9 1 Hok O2 ltac:(lia) ltac:(lia) S9 E9) as S10. change (9 + 1) with 10 in S10.
  pose proof (chunk_ext v v2 10 2 Hok O2 ltac:(lia) ltac:(lia) S10 E10) as S12. change (10 + 2) with 12 in S12.
  apply sub_whole_eq; [lia|]. rewrite Lv. exact S12.
Qed.
