(** Model of the sciparse encoders and decoders (C03).

    [wire_valid_*] / [size_*] / [encode_*] follow [WireEncode] / [PayloadEncode] of the packet,
    header, address, path, UDP and SCMP models: the same checks in the same order, the same
    field writes in the same order ([w] = [unchecked_bit_range_be_write]), every [as uN]
    conversion written as [trunc N].  [decode_*] follow the views' accessors + [from_view].
    [ChecksumDigest] is modelled word by word for a little-endian target (the byte order of the
    16-bit loads in [add_slice] is written out), with the memory alignment of each slice as a
    parameter.  Definitions only. *)
From Sci Require Export Wire.Model.
Local Open Scope N_scope.

Definition zeros (n : N) : bytes := repeat 0 (N.to_nat n).
Definition w (r : rng) (v : N) (b : bytes) : bytes := lane_write b r v.
(* dst[lo .. lo+len x].copy_from_slice(x) *)
Definition put (lo : N) (x b : bytes) : bytes :=
  firstn (N.to_nat lo) b ++ x ++ skipn (N.to_nat lo + length x) b.
(* run an encoder on the sub-slice b[lo..hi] *)
Definition on_sub (lo hi : N) (f : bytes -> bytes) (b : bytes) : bytes := put lo (f (sub b lo hi)) b.
(* ... on the suffix b[lo..] *)
Definition on_suffix (lo : N) (f : bytes -> bytes) (b : bytes) : bytes :=
  firstn (N.to_nat lo) b ++ f (skipn (N.to_nat lo) b).

(** * Host addresses (scion/address/host_addr.rs) *)
Definition host_size (h : host_addr) : N :=
  match h with HA_V4 _ => 4 | HA_V6 _ => 16 | HA_Svc _ => 4 | HA_Unknown _ b => blen b end.
(* u8::from(addr_type()) *)
Definition host_nibble (h : host_addr) : N :=
  match h with
  | HA_V4 _ => HAT_IPV4 | HA_V6 _ => HAT_IPV6 | HA_Svc _ => HAT_SERVICE
  | HA_Unknown id b => hat_unknown_nibble id (trunc 8 (blen b))
  end.
Definition host_bytes (h : host_addr) : bytes :=
  match h with
  | HA_V4 b => b | HA_V6 b => b | HA_Svc s => be_bytes 2 s ++ [0; 0] | HA_Unknown _ b => b
  end.
Definition host_wire_valid (h : host_addr) : bool :=
  match h with
  | HA_Unknown id b =>
    negb (blen b =? 0) && (blen b mod 4 =? 0) &&
    (let nib := host_nibble h in
     (nib <=? 15) && negb (hat_is_known nib) && (hat_unknown_id nib =? id) && (hat_size nib =? trunc 8 (blen b)))
  | _ => true
  end.

(** * Paths *)
Definition seg_len8 (segs : list segment) (i : nat) : N :=
  match nth_error segs i with Some s => trunc 8 (N.of_nat (length (s_hops s))) | None => 0 end.
Definition std_hops (segs : list segment) : list hop_f := flat_map s_hops segs.
Definition std_hop_count (segs : list segment) : N := N.of_nat (length (std_hops segs)).

Definition path_size (p : dp_path) : N :=
  match p with
  | DP_Std _ _ segs => StdPathMeta_SIZE_BYTES + std_data_size (seg_len8 segs 0) (seg_len8 segs 1) (seg_len8 segs 2)
  | DP_OneHop _ _ _ => OneHopPath_SIZE_BYTES
  | DP_Empty => 0
  | DP_Unsupported _ d => blen d
  end.
Definition path_type_num (p : dp_path) : N :=
  match p with DP_Std _ _ _ => PT_SCION | DP_OneHop _ _ _ => PT_ONEHOP | DP_Empty => PT_EMPTY | DP_Unsupported pt _ => pt end.

Definition std_wire_valid (ci ch : N) (segs : list segment) : bool :=
  negb (ScionHeaderPath_MAX_SIZE_BYTES <? path_size (DP_Std ci ch segs))
  && negb (StdPathMeta_MAX_SEGMENTS <? N.of_nat (length segs))
  && negb (match segs with [] => true | _ => false end)
  && negb (std_hop_count segs <=? ch)
  && negb (63 <? ch)                               (* C03 repair: CurrHF is 6 bits wide *)
  && negb (N.of_nat (length segs) <=? ci)
  && forallb (fun s => negb (StdPathMeta_MAX_SEGMENT_HOPS <? N.of_nat (length (s_hops s)))
                       && negb (match s_hops s with [] => true | _ => false end)) segs.

Definition path_wire_valid (p : dp_path) : bool :=
  negb (ScionHeaderPath_MAX_SIZE_BYTES <? path_size p) &&
  match p with
  | DP_Std ci ch segs => std_wire_valid ci ch segs
  | DP_OneHop _ _ _ => true
  | DP_Empty => true
  | DP_Unsupported pt d =>
    (* C03 repair: a supported type number would read back as that path kind *)
    negb ((pt =? PT_EMPTY) || (pt =? PT_SCION) || (pt =? PT_ONEHOP)) && (blen d mod 4 =? 0)
  end.

(** * Header *)
Definition addr_size (h : pkt_hdr) : N :=
  addr_hdr_size (trunc 8 (host_size (h_dst_host h))) (trunc 8 (host_size (h_src_host h))).
Definition header_size (h : pkt_hdr) : N := CommonHeader_SIZE_BYTES + addr_size h + path_size (h_path h).

Definition header_wire_valid (h : pkt_hdr) : bool :=
  (header_size h mod 4 =? 0)
  && negb (ScionHeader_MAX_SIZE_BYTES <? header_size h)
  && negb (N.ones (r_width CommonHeader_FLOW_ID_RNG) <? h_flow h)
  && host_wire_valid (h_dst_host h) && host_wire_valid (h_src_host h)
  && path_wire_valid (h_path h).

(** * Payloads *)
Definition SCMP_BUDGET (hs : N) : N := SCMP_ERROR_MAX_PACKET_SIZE - hs.     (* saturating_sub *)
Definition scmp_error_size (hdr : N) (qlen hs : N) : N := hdr + N.min qlen (SCMP_BUDGET hs - hdr).

Definition scmp_type_of (m : scmp_msg) : N :=
  match m with
  | SM_DestUnreach _ _ => SCMP_T_DestinationUnreachable | SM_PktTooBig _ _ => SCMP_T_PacketTooBig
  | SM_ParamProblem _ _ _ => SCMP_T_ParameterProblem | SM_ExtIfDown _ _ _ => SCMP_T_ExternalInterfaceDown
  | SM_IntConnDown _ _ _ _ => SCMP_T_InternalConnectivityDown | SM_EchoReq _ _ _ => SCMP_T_EchoRequest
  | SM_EchoRep _ _ _ => SCMP_T_EchoReply | SM_TrReq _ _ => SCMP_T_TracerouteRequest
  | SM_TrRep _ _ _ _ => SCMP_T_TracerouteReply | SM_Unknown ty _ _ => ty
  end.
Definition scmp_quote (m : scmp_msg) : bytes :=
  match m with
  | SM_DestUnreach _ q | SM_PktTooBig _ q | SM_ParamProblem _ _ q | SM_ExtIfDown _ _ q | SM_IntConnDown _ _ _ q => q
  | SM_EchoReq _ _ d | SM_EchoRep _ _ d | SM_Unknown _ _ d => d
  | _ => []
  end.
Definition scmp_size (m : scmp_msg) (hs : N) : N :=
  match m with
  | SM_DestUnreach _ q | SM_PktTooBig _ q | SM_ParamProblem _ _ q | SM_ExtIfDown _ _ q | SM_IntConnDown _ _ _ q =>
    scmp_error_size (scmp_header_size (scmp_type_of m)) (blen q) hs
  | SM_EchoReq _ _ d => blen d + ScmpEchoRequest_HEADER_SIZE_BYTES
  | SM_EchoRep _ _ d => blen d + ScmpEchoReply_HEADER_SIZE_BYTES
  | SM_TrReq _ _ => ScmpTracerouteRequest_HEADER_SIZE_BYTES
  | SM_TrRep _ _ _ _ => ScmpTracerouteReply_HEADER_SIZE_BYTES
  | SM_Unknown _ _ d => blen d + ScmpUnknownMessage_HEADER_SIZE_BYTES
  end.

Definition payload_size (p : payload) (hs : N) : N :=
  match p with
  | PL_Raw b => blen b
  | PL_Udp _ _ d => UdpDatagram_HEADER_SIZE_BYTES + blen d
  | PL_Scmp m => scmp_size m hs
  end.
Definition U16_MAX : N := 65535.
Definition payload_wire_valid (p : payload) : bool :=
  match p with
  | PL_Udp _ _ d => negb (U16_MAX <? UdpDatagram_HEADER_SIZE_BYTES + blen d)   (* C03 repair *)
  | PL_Scmp (SM_Unknown ty _ _) => negb (scmp_is_known ty)                     (* C03 repair *)
  | _ => true
  end.

Definition packet_size (p : packet) : N := header_size (p_hdr p) + payload_size (p_pl p) (header_size (p_hdr p)).
Definition packet_wire_valid (p : packet) : bool :=
  header_wire_valid (p_hdr p) && payload_wire_valid (p_pl p)
  && negb (U16_MAX <? payload_size (p_pl p) (header_size (p_hdr p))).            (* C03 repair *)

(** * Checksum (scion/checksum.rs), little-endian target *)
Definition fold1 (c : N) : N := N.shiftr c 16 + N.land c 65535.
Definition fold_checksum (c : N) : N := fold1 (fold1 c).
Definition swap16 (x : N) : N := (x mod 256) * 256 + (x / 256) mod 256.
Definition add_u64 (v acc : N) : N :=
  acc + (N.land v 65535 + N.land (N.shiftr v 16) 65535 + N.land (N.shiftr v 32) 65535 + N.land (N.shiftr v 48) 65535).
Definition add_u32 (v acc : N) : N := acc + (N.land v 65535 + N.land (N.shiftr v 16) 65535).
(* native (little-endian) u16 loads of an even-length byte list *)
Fixpoint le_words_sum (d : bytes) (acc : N) : N :=
  match d with
  | a :: b :: r => le_words_sum r (acc + (a + 256 * b))
  | _ => acc
  end.
(* the u32 sum of the 16-bit loads, before folding *)
Definition slice_sum (aligned : bool) (data : bytes) : N :=
  match data with
  | [] => 0
  | d0 :: tl0 =>
    let '(init, d1) := if aligned then (0, data) else (d0 * 256, tl0) in          (* (x as u16).to_be() *)
    let '(init2, d2) :=
      if N.odd (blen d1) then (init + last d1 0, removelast d1) else (init, d1) in (* (x as u16).to_le() *)
    le_words_sum d2 init2
  end.
Definition add_slice (aligned : bool) (data : bytes) (acc : N) : N :=
  match data with
  | [] => acc
  | _ =>
    let s16 := trunc 16 (fold_checksum (slice_sum aligned data)) in
    let s := if aligned then s16 else swap16 s16 in
    acc + swap16 s                                                                (* to_be() *)
  end.
Definition checksum_of (acc : N) : N := 65535 - trunc 16 (fold_checksum acc).    (* !x as u16 *)

(** with_pseudoheader(addr, proto, buf).add_slice(buf).checksum(); [al_host], [al] = memory
    alignment (to 2) of the host address scratch buffer and of the message buffer *)
Definition pseudo_digest (h : pkt_hdr) (proto : N) (msg : bytes) (al_host al : bool) : N :=
  let a0 := add_u64 (h_dst_ia h) 0 in
  let a1 := add_u64 (h_src_ia h) a0 in
  let a2 := add_slice al_host (host_bytes (h_dst_host h)) a1 in
  let a3 := add_slice al_host (host_bytes (h_src_host h)) a2 in
  let a4 := add_u32 (trunc 32 (blen msg)) a3 in
  let a5 := add_u32 proto a4 in
  add_slice al msg a5.
Definition l4_checksum (h : pkt_hdr) (proto : N) (msg : bytes) (al_host al : bool) : N :=
  checksum_of (pseudo_digest h proto msg al_host al).

(** * Encoders *)
Definition encode_info (i : info_f) (buf : bytes) : bytes :=
  w InfoField_TIMESTAMP_RNG (i_ts i) (w InfoField_SEGMENT_ID_RNG (i_segid i)
    (w InfoField_RSV_RNG 0 (w InfoField_FLAGS_RNG (i_flags i) buf))).
Definition encode_hop (h : hop_f) (buf : bytes) : bytes :=
  put (byte_lo HopField_MAC_RNG) (h_mac h)
    (w HopField_CONS_EGRESS_RNG (h_eg h) (w HopField_CONS_INGRESS_RNG (h_in h)
      (w HopField_EXP_TIME_RNG (h_exp h) (w HopField_FLAGS_RNG (h_flags h) buf)))).

Fixpoint encode_infos (l : list info_f) (i : N) (data : bytes) : bytes :=
  match l with
  | [] => data
  | x :: r => let rg := info_field_byte_range i in
              encode_infos r (i + 1) (on_sub (fst rg - StdPathMeta_SIZE_BYTES) (snd rg - StdPathMeta_SIZE_BYTES) (encode_info x) data)
  end.
Fixpoint encode_hops (l : list hop_f) (s0 s1 s2 i : N) (data : bytes) : bytes :=
  match l with
  | [] => data
  | x :: r => let rg := hop_field_byte_range s0 s1 s2 i in
              encode_hops r s0 s1 s2 (i + 1) (on_sub (fst rg - StdPathMeta_SIZE_BYTES) (snd rg - StdPathMeta_SIZE_BYTES) (encode_hop x) data)
  end.

Definition encode_path (p : dp_path) (buf : bytes) : bytes :=
  match p with
  | DP_Std ci ch segs =>
    let s0 := seg_len8 segs 0 in let s1 := seg_len8 segs 1 in let s2 := seg_len8 segs 2 in
    let meta := w StdPathMeta_SEG2_LEN_RNG s2 (w StdPathMeta_SEG1_LEN_RNG s1 (w StdPathMeta_SEG0_LEN_RNG s0
                  (w StdPathMeta_RSV_RNG 0      (* C03 repair: reserved bits written *)
                  (w StdPathMeta_CURR_HOP_FIELD_RNG ch (w StdPathMeta_CURR_INFO_FIELD_RNG ci buf))))) in
    on_suffix StdPathMeta_SIZE_BYTES
      (fun data => encode_hops (std_hops segs) s0 s1 s2 0 (encode_infos (map s_info segs) 0 data)) meta
  | DP_OneHop i h1 h2 =>
    on_sub (byte_lo OneHopPath_HOP_FIELD_2) (byte_hi OneHopPath_HOP_FIELD_2) (encode_hop h2)
      (on_sub (byte_lo OneHopPath_HOP_FIELD_1) (byte_hi OneHopPath_HOP_FIELD_1) (encode_hop h1)
        (on_sub (byte_lo OneHopPath_INFO_FIELD) (byte_hi OneHopPath_INFO_FIELD) (encode_info i) buf))
  | DP_Empty => buf
  | DP_Unsupported _ d => put 0 d buf
  end.

Definition ASN_MASK : N := 281474976710655.   (* 0xffff_ffff_ffff *)
Definition encode_addr (h : pkt_hdr) (buf : bytes) : bytes :=
  let dl := trunc 8 (host_size (h_dst_host h)) in
  let sl := trunc 8 (host_size (h_src_host h)) in
  let b1 := w AddressHeader_SRC_AS_RNG (N.land (h_src_ia h) ASN_MASK) (w AddressHeader_SRC_ISD_RNG (trunc 16 (N.shiftr (h_src_ia h) 48))
           (w AddressHeader_DST_AS_RNG (N.land (h_dst_ia h) ASN_MASK) (w AddressHeader_DST_ISD_RNG (trunc 16 (N.shiftr (h_dst_ia h) 48)) buf))) in
  let dlo := AddressHeader_FIXED_SIZE_BITS / 8 in
  put (dlo + dl) (host_bytes (h_src_host h)) (put dlo (host_bytes (h_dst_host h)) b1).

Definition encode_common (h : pkt_hdr) (units psize : N) (buf : bytes) : bytes :=
  w CommonHeader_RSV_RNG 0
  (w CommonHeader_SRC_ADDR_INFO_RNG (host_nibble (h_src_host h))
  (w CommonHeader_DST_ADDR_INFO_RNG (host_nibble (h_dst_host h))
  (w CommonHeader_PATH_TYPE_RNG (path_type_num (h_path h))
  (w CommonHeader_PAYLOAD_LEN_RNG psize
  (w CommonHeader_HEADER_LEN_RNG units
  (w CommonHeader_NEXT_HEADER_RNG (h_nh h)
  (w CommonHeader_FLOW_ID_RNG (h_flow h)
  (w CommonHeader_TRAFFIC_CLASS_RNG (h_tc h)
  (w CommonHeader_VERSION_RNG 0 buf))))))))).

(** ScionPacketHeader::encode_unchecked(buf, payload_size as u16) *)
Definition encode_header (h : pkt_hdr) (psize16 : N) (buf : bytes) : bytes :=
  let units := trunc 8 (header_size h / 4) in
  let b1 := encode_common h units psize16 buf in
  let b2 := on_suffix CommonHeader_SIZE_BYTES (encode_addr h) b1 in
  on_suffix (CommonHeader_SIZE_BYTES + addr_size h) (encode_path (h_path h)) b2.

Definition scmp_hdr_fields (m : scmp_msg) : list (rng * N) :=
  match m with
  | SM_DestUnreach c _ => [(ScmpDestinationUnreachable_CODE_RNG, c); (ScmpDestinationUnreachable_CHECKSUM_RNG, 0); (ScmpDestinationUnreachable_RESERVED_RNG, 0)]
  | SM_PktTooBig mtu _ => [(ScmpPacketTooBig_CODE_RNG, 0); (ScmpPacketTooBig_CHECKSUM_RNG, 0); (ScmpPacketTooBig_RESERVED_RNG, 0); (ScmpPacketTooBig_MTU_RNG, mtu)]
  | SM_ParamProblem c p _ => [(ScmpParameterProblem_CODE_RNG, c); (ScmpParameterProblem_CHECKSUM_RNG, 0); (ScmpParameterProblem_RESERVED_RNG, 0); (ScmpParameterProblem_POINTER_RNG, p)]
  | SM_ExtIfDown ia f _ => [(ScmpExternalInterfaceDown_CODE_RNG, 0); (ScmpExternalInterfaceDown_CHECKSUM_RNG, 0); (ScmpExternalInterfaceDown_ISD_AS_RNG, ia); (ScmpExternalInterfaceDown_INTERFACE_ID_RNG, f)]
  | SM_IntConnDown ia i e _ => [(ScmpInternalConnectivityDown_CODE_RNG, 0); (ScmpInternalConnectivityDown_CHECKSUM_RNG, 0); (ScmpInternalConnectivityDown_ISD_AS_RNG, ia);
                                (ScmpInternalConnectivityDown_INGRESS_INTERFACE_ID_RNG, i); (ScmpInternalConnectivityDown_EGRESS_INTERFACE_ID_RNG, e)]
  | SM_EchoReq i s _ => [(ScmpEchoRequest_CODE_RNG, 0); (ScmpEchoRequest_CHECKSUM_RNG, 0); (ScmpEchoRequest_IDENTIFIER_RNG, i); (ScmpEchoRequest_SEQUENCE_NUMBER_RNG, s)]
  | SM_EchoRep i s _ => [(ScmpEchoReply_CODE_RNG, 0); (ScmpEchoReply_CHECKSUM_RNG, 0); (ScmpEchoReply_IDENTIFIER_RNG, i); (ScmpEchoReply_SEQUENCE_NUMBER_RNG, s)]
  | SM_TrReq i s => [(ScmpTracerouteRequest_CODE_RNG, 0); (ScmpTracerouteRequest_CHECKSUM_RNG, 0); (ScmpTracerouteRequest_IDENTIFIER_RNG, i); (ScmpTracerouteRequest_SEQUENCE_NUMBER_RNG, s);
                     (ScmpTracerouteRequest_ISD_AS_RNG, 0); (ScmpTracerouteRequest_INTERFACE_ID_RNG, 0)]
  | SM_TrRep i s ia f => [(ScmpTracerouteReply_CODE_RNG, 0); (ScmpTracerouteReply_CHECKSUM_RNG, 0); (ScmpTracerouteReply_IDENTIFIER_RNG, i); (ScmpTracerouteReply_SEQUENCE_NUMBER_RNG, s);
                          (ScmpTracerouteReply_ISD_AS_RNG, ia); (ScmpTracerouteReply_INTERFACE_ID_RNG, f)]
  | SM_Unknown _ c _ => [(ScmpUnknownMessage_CODE_RNG, c); (ScmpUnknownMessage_CHECKSUM_RNG, 0)]
  end.

(** the part of an encoded message before the checksum is filled in *)
Definition encode_scmp_body (m : scmp_msg) (hs : N) (buf : bytes) : bytes :=
  let ty := scmp_type_of m in
  let b1 := fold_left (fun b f => w (fst f) (snd f) b) (scmp_hdr_fields m) (w ScmpMessage_TYPE_RNG ty buf) in
  let hdr := scmp_header_size ty in
  let n := scmp_size m hs in
  (* C03 repair: an unknown message's bytes between checksum and data are zeroed *)
  let b2 := match m with SM_Unknown _ _ _ => put (byte_hi ScmpUnknownMessage_CHECKSUM_RNG) (zeros (hdr - byte_hi ScmpUnknownMessage_CHECKSUM_RNG)) b1 | _ => b1 end in
  if scmp_fixed_size ty then b2 else put hdr (firstn (N.to_nat (n - hdr)) (scmp_quote m)) b2.

Definition encode_payload (h : pkt_hdr) (p : payload) (hs : N) (al_host al : bool) (buf : bytes) : bytes :=
  match p with
  | PL_Raw b => put 0 b buf
  | PL_Udp sp dp d =>
    let n := UdpDatagram_HEADER_SIZE_BYTES + blen d in
    let b1 := put UdpDatagram_HEADER_SIZE_BYTES d
               (w UdpDatagram_CHECKSUM_RNG 0 (w UdpDatagram_LENGTH_RNG (trunc 16 n)
                 (w UdpDatagram_DST_PORT_RNG dp (w UdpDatagram_SRC_PORT_RNG sp buf)))) in
    w UdpDatagram_CHECKSUM_RNG (l4_checksum h PROTO_UDP (sub b1 0 n) al_host al) b1
  | PL_Scmp m =>
    let n := scmp_size m hs in
    let b1 := encode_scmp_body m hs buf in
    w ScmpMessage_CHECKSUM_RNG (l4_checksum h PROTO_SCMP (sub b1 0 n) al_host al) b1
  end.

(** ScionPacket::encode_unchecked on a zeroed buffer of [packet_size] bytes (try_encode_to_vec) *)
Definition encode_packet_al (p : packet) (al_host al : bool) : bytes :=
  let h := p_hdr p in
  let hs := header_size h in
  let ps := payload_size (p_pl p) hs in
  encode_header h (trunc 16 ps) (zeros hs) ++ encode_payload h (p_pl p) hs al_host al (zeros ps).
Definition encode_packet (p : packet) : bytes := encode_packet_al p true true.

(** WireEncode::try_encode_to_vec *)
Definition try_encode (p : packet) : option bytes :=
  if packet_wire_valid p then Some (encode_packet p) else None.

(** * Decoders (views + from_view) *)
Definition decode_info (v : bytes) : res info_f :=
  f <- if_flags v ;; s <- if_segment_id v ;; t <- if_timestamp v ;; Ok (mkIF f s t).
Definition decode_hop (v : bytes) : res hop_f :=
  f <- hf_flags v ;; e <- hf_exp_time v ;; i <- hf_cons_ingress v ;; g <- hf_cons_egress v ;; m <- hf_mac v ;;
  Ok (mkHF f e i g m).

Fixpoint decode_seq {A} (dec : bytes -> res A) (v : bytes) (lo size : N) (n : nat) : res (list A) :=
  match n with
  | O => Ok []
  | S k => x <- get_unchecked v lo (lo + size) ;; a <- dec x ;; r <- decode_seq dec v (lo + size) size k ;; Ok (a :: r)
  end.

(* zip info fields with [s0;s1;s2], each segment taking its hops from the shared iterator *)
Fixpoint build_segments (infos : list info_f) (sizes : list N) (hops : list hop_f) : list segment :=
  match infos, sizes with
  | i :: ir, s :: sr => mkSeg i (firstn (N.to_nat s) hops) :: build_segments ir sr (skipn (N.to_nat s) hops)
  | _, _ => []
  end.

Definition decode_stdpath (v : bytes) : res dp_path :=
  ci <- sp_curr_info v ;; ch <- sp_curr_hop v ;;
  s <- sp_segs v ;; let '(s0, s1, s2) := s in
  ir <- sp_info_fields_range v ;; hr <- sp_hop_fields_range v ;;
  infos <- decode_seq decode_info v (fst ir) InfoField_SIZE_BYTES (N.to_nat (info_field_count s0 s1 s2)) ;;
  hops <- decode_seq decode_hop v (fst hr) HopField_SIZE_BYTES (N.to_nat (hop_field_count s0 s1 s2)) ;;
  Ok (DP_Std ci ch (build_segments infos [s0; s1; s2] hops)).

Definition decode_onehop (v : bytes) : res dp_path :=
  i <- index_range v (byte_lo OneHopPath_INFO_FIELD) (byte_hi OneHopPath_INFO_FIELD) ;;
  a <- index_range v (byte_lo OneHopPath_HOP_FIELD_1) (byte_hi OneHopPath_HOP_FIELD_1) ;;
  b <- index_range v (byte_lo OneHopPath_HOP_FIELD_2) (byte_hi OneHopPath_HOP_FIELD_2) ;;
  i' <- decode_info i ;; a' <- decode_hop a ;; b' <- decode_hop b ;; Ok (DP_OneHop i' a' b').

(** ScionPacketHeader::try_from_view *)
Definition decode_header (hv : bytes) : res pkt_hdr :=
  tc <- hv_traffic_class hv ;; fl <- hv_flow_id hv ;; nh <- hv_next_header hv ;;
  dia <- hv_dst_ia hv ;; sia <- hv_src_ia hv ;;
  dh <- hv_dst_host hv ;;
  match dh with None => Err (VOther E_DST_HOST) | Some dh' =>
  sh <- hv_src_host hv ;;
  match sh with None => Err (VOther E_SRC_HOST) | Some sh' =>
  p <- hv_path_range hv ;; let '(pt, lo, hi) := p in
  path <- (if pt =? PT_EMPTY then Ok DP_Empty
           else if pt =? PT_SCION then x <- get_unchecked hv lo hi ;; decode_stdpath x
           else if pt =? PT_ONEHOP then x <- get_unchecked hv lo hi ;; decode_onehop x
           else x <- get_unchecked hv lo hi ;; Ok (DP_Unsupported pt x)) ;;
  Ok (mkH tc fl nh dia sia dh' sh' path)
  end end.

Definition decode_udp (uv : bytes) : res payload :=
  sp <- udp_src_port uv ;; dp <- udp_dst_port uv ;; r <- udp_payload_range uv ;;
  Ok (PL_Udp sp dp (sub uv (fst r) (snd r))).

Definition decode_scmp (sv : bytes) : res payload :=
  ty <- scmp_type sv ;;
  let fld (r : rng) (bits : N) := rd sv r bits in
  let tail := r <- scmp_tail_range ty sv ;; Ok (sub sv (fst r) (snd r)) in
  if ty =? SCMP_T_DestinationUnreachable then c <- scmp_code sv ;; q <- tail ;; Ok (PL_Scmp (SM_DestUnreach c q))
  else if ty =? SCMP_T_PacketTooBig then m <- fld ScmpPacketTooBig_MTU_RNG 16 ;; q <- tail ;; Ok (PL_Scmp (SM_PktTooBig m q))
  else if ty =? SCMP_T_ParameterProblem then c <- scmp_code sv ;; p <- fld ScmpParameterProblem_POINTER_RNG 16 ;; q <- tail ;; Ok (PL_Scmp (SM_ParamProblem c p q))
  else if ty =? SCMP_T_ExternalInterfaceDown then
    ia <- fld ScmpExternalInterfaceDown_ISD_AS_RNG 64 ;; f <- fld ScmpExternalInterfaceDown_INTERFACE_ID_RNG 64 ;; q <- tail ;;
    Ok (PL_Scmp (SM_ExtIfDown ia (trunc 16 f) q))
  else if ty =? SCMP_T_InternalConnectivityDown then
    ia <- fld ScmpInternalConnectivityDown_ISD_AS_RNG 64 ;; i <- fld ScmpInternalConnectivityDown_INGRESS_INTERFACE_ID_RNG 64 ;;
    e <- fld ScmpInternalConnectivityDown_EGRESS_INTERFACE_ID_RNG 64 ;; q <- tail ;;
    Ok (PL_Scmp (SM_IntConnDown ia (trunc 16 i) (trunc 16 e) q))
  else if ty =? SCMP_T_EchoRequest then
    i <- fld ScmpEchoRequest_IDENTIFIER_RNG 16 ;; s <- fld ScmpEchoRequest_SEQUENCE_NUMBER_RNG 16 ;; d <- tail ;; Ok (PL_Scmp (SM_EchoReq i s d))
  else if ty =? SCMP_T_EchoReply then
    i <- fld ScmpEchoReply_IDENTIFIER_RNG 16 ;; s <- fld ScmpEchoReply_SEQUENCE_NUMBER_RNG 16 ;; d <- tail ;; Ok (PL_Scmp (SM_EchoRep i s d))
  else if ty =? SCMP_T_TracerouteRequest then
    i <- fld ScmpTracerouteRequest_IDENTIFIER_RNG 16 ;; s <- fld ScmpTracerouteRequest_SEQUENCE_NUMBER_RNG 16 ;; Ok (PL_Scmp (SM_TrReq i s))
  else if ty =? SCMP_T_TracerouteReply then
    i <- fld ScmpTracerouteReply_IDENTIFIER_RNG 16 ;; s <- fld ScmpTracerouteReply_SEQUENCE_NUMBER_RNG 16 ;;
    ia <- fld ScmpTracerouteReply_ISD_AS_RNG 64 ;; f <- fld ScmpTracerouteReply_INTERFACE_ID_RNG 64 ;; Ok (PL_Scmp (SM_TrRep i s ia (trunc 16 f)))
  else c <- scmp_code sv ;; d <- tail ;; Ok (PL_Scmp (SM_Unknown ty c d)).

(** kind: 0 = ScionRawPacket, 1 = ScionUdpPacket, 2 = ScionScmpPacket ::try_from_slice *)
Definition decode_packet (kind : N) (b : bytes) : res (packet * bytes) :=
  let k := match kind with 0 => KRaw | 1 => KUdpPkt | _ => KScmpPkt end in
  vr <- try_from_slice k b ;; let '(v, rest) := vr in
  hv <- pkt_header v ;; h <- decode_header hv ;;
  pl <- pkt_payload v ;;
  p <- match kind with
       | 0 => Ok (PL_Raw pl)
       | 1 => match try_from_slice KUdp pl with
              | Ok (uv, _) => decode_udp uv | Err _ => Panic P_UDP_EXPECT | Panic s => Panic s end
       | _ => match try_from_slice KScmp pl with
              | Ok (sv, _) => decode_scmp sv | Err _ => Panic P_SCMP_EXPECT | Panic s => Panic s end
       end ;;
  Ok (mkP h p, rest).

(** * Rust typing of the model (every field within its integer type, fixed-size arrays) *)
Definition host_wf (h : host_addr) : bool :=
  match h with
  | HA_V4 b => (blen b =? 4) && bytes_ok b | HA_V6 b => (blen b =? 16) && bytes_ok b
  | HA_Svc s => s <? 65536 | HA_Unknown id b => (id <? 256) && (blen b <=? 16) && bytes_ok b
  end.
Definition info_wf (i : info_f) : bool := (i_flags i <? 256) && (i_segid i <? 65536) && (i_ts i <? 4294967296).
Definition hop_wf (h : hop_f) : bool :=
  (h_flags h <? 256) && (h_exp h <? 256) && (h_in h <? 65536) && (h_eg h <? 65536) && (blen (h_mac h) =? 6) && bytes_ok (h_mac h).
Definition path_wf (p : dp_path) : bool :=
  match p with
  | DP_Std ci ch segs => (ci <? 256) && (ch <? 256) && (N.of_nat (length segs) <=? 3)
                         && forallb (fun s => info_wf (s_info s) && forallb hop_wf (s_hops s)) segs
  | DP_OneHop i a b => info_wf i && hop_wf a && hop_wf b
  | DP_Empty => true
  | DP_Unsupported pt d => (pt <? 256) && bytes_ok d
  end.
Definition header_wf (h : pkt_hdr) : bool :=
  (h_tc h <? 256) && (h_flow h <? 4294967296) && (h_nh h <? 256) && (h_dst_ia h <? 2 ^ 64) && (h_src_ia h <? 2 ^ 64)
  && host_wf (h_dst_host h) && host_wf (h_src_host h) && path_wf (h_path h).
Definition scmp_wf (m : scmp_msg) : bool :=
  match m with
  | SM_DestUnreach c q => (c <? 256) && bytes_ok q
  | SM_PktTooBig mtu q => (mtu <? 65536) && bytes_ok q
  | SM_ParamProblem c p q => (c <? 256) && (p <? 65536) && bytes_ok q
  | SM_ExtIfDown ia f q => (ia <? 2 ^ 64) && (f <? 65536) && bytes_ok q
  | SM_IntConnDown ia i e q => (ia <? 2 ^ 64) && (i <? 65536) && (e <? 65536) && bytes_ok q
  | SM_EchoReq i s d | SM_EchoRep i s d => (i <? 65536) && (s <? 65536) && bytes_ok d
  | SM_TrReq i s => (i <? 65536) && (s <? 65536)
  | SM_TrRep i s ia f => (i <? 65536) && (s <? 65536) && (ia <? 2 ^ 64) && (f <? 65536)
  | SM_Unknown t c d => (t <? 256) && (c <? 256) && bytes_ok d
  end.
Definition payload_wf (p : payload) : bool :=
  match p with
  | PL_Raw b => bytes_ok b
  | PL_Udp s d x => (s <? 65536) && (d <? 65536) && bytes_ok x
  | PL_Scmp m => scmp_wf m
  end.
Definition model_wf (p : packet) : bool := header_wf (p_hdr p) && payload_wf (p_pl p).
