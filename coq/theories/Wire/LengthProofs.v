(** The length fields of an encoded packet, read back from the encoded bytes. *)
From Coq Require Import Lia ZifyBool ZifyNat ZifyN.
From Sci Require Import Wire.Codec Wire.Spec_C03 Wire.BitFieldProofs Wire.Proofs_C03 Wire.RoundTripProofs Wire.ChecksumVerify.
Local Open Scope N_scope.
Ltac Zify.zify_post_hook ::= Z.div_mod_to_equations.
Arguments N.add : simpl never. Arguments N.sub : simpl never. Arguments N.mul : simpl never.
Arguments N.div : simpl never. Arguments N.modulo : simpl never. Arguments N.pow : simpl never.
Arguments N.ltb : simpl never. Arguments N.leb : simpl never. Arguments N.eqb : simpl never.
Ltac closed_le := apply N.leb_le; vm_compute; reflexivity.

(** * the length fields of an encoded packet, read back from the bytes *)
Lemma on_suffix_read_below lo f (b : bytes) r : byte_hi r <= lo -> lo <= blen b ->
  lane_read (on_suffix lo f b) r = lane_read b r /\ lo <= blen (on_suffix lo f b).
Proof.
  intros H1 H2. split.
  - apply lane_read_local_eq. unfold on_suffix.
    rewrite <- (app_nil_r (f (skipn (N.to_nat lo) b))) at 1.
    rewrite sub_below by (unfold blen in *; rewrite firstn_length; lia).
    unfold sub. rewrite skipn_firstn_comm, firstn_firstn. f_equal.
    assert (byte_lo r <= byte_hi r) by (unfold byte_lo, byte_hi, r_end, r_start; lia). lia.
  - unfold on_suffix, blen in *. rewrite app_length, firstn_length. lia.
Qed.

Lemma rd_on_suffix lo f b r bits : byte_hi r <= lo -> lo <= blen b -> rd b r bits = rd (on_suffix lo f b) r bits \/ True.
Proof. intros. right. exact I. Qed.

Lemma host_nibble_lt h : host_wire_valid h = true -> host_nibble h < 16.
Proof.
  destruct h as [b|b|s|id b]; cbn [host_wire_valid host_nibble]; intros V; try (vm_compute; reflexivity).
  apply Bool.andb_true_iff in V. destruct V as [_ V].
  repeat (apply Bool.andb_true_iff in V; let X := fresh "V" in destruct V as [V X]).
  apply N.leb_le in V. cbn [host_nibble] in V. lia.
Qed.
Lemma path_type_num_lt p : path_wf p = true -> path_type_num p < 256.
Proof.
  destruct p as [ci ch segs| | |pt d]; cbn [path_wf path_type_num]; intros W; try (vm_compute; reflexivity).
  apply Bool.andb_true_iff in W. destruct W as [W _]. apply N.ltb_lt in W. exact W.
Qed.

Lemma encoded_header_lengths p :
  model_wf p = true -> packet_wire_valid p = true ->
  let h := p_hdr p in
  let hs := header_size h in
  let ps := payload_size (p_pl p) hs in
  let hb := encode_header h (trunc 16 ps) (zeros hs) in
  hv_header_len hb = Ok hs /\ hv_payload_len hb = Ok ps /\ hv_version hb = Ok 0.
Proof.
  intros W V h hs ps hb.
  destruct (Proofs_C03.written_lengths_exact p V) as (Eu & Hu & Eps & Hps & _). fold h hs ps in Eu, Hu, Eps, Hps.
  unfold model_wf, header_wf in W. fold h in W.
  apply Bool.andb_true_iff in W. destruct W as [W _].
  repeat (apply Bool.andb_true_iff in W; let X := fresh "W" in destruct W as [W X]).
  unfold packet_wire_valid, header_wire_valid in V. fold h in V.
  apply Bool.andb_true_iff in V. destruct V as [V _]. apply Bool.andb_true_iff in V. destruct V as [V _].
  repeat (apply Bool.andb_true_iff in V; let X := fresh "V" in destruct V as [V X]).
  apply N.ltb_lt in W, W5, W4.
  apply Bool.negb_true_iff in V3. apply N.ltb_ge in V3.
  change (N.ones (r_width CommonHeader_FLOW_ID_RNG)) with 1048575 in V3.
  destruct (ChecksumVerify.zeros_ok hs) as [Zok Zlen].
  assert (H12 : CommonHeader_SIZE_BYTES <= blen (zeros hs)).
  { rewrite Zlen. unfold hs, header_size. lia. }
  change (2 ^ r_width CommonHeader_HEADER_LEN_RNG) with 256 in Hu.
  change (2 ^ r_width CommonHeader_PAYLOAD_LEN_RNG) with 65536 in Hps.
  destruct (common_header_roundtrip_lemma h (trunc 8 (hs / 4)) (trunc 16 ps) (zeros hs) Zok H12 W
              ltac:(change (2 ^ 20) with 1048576; lia) W5 Hu ltac:(rewrite Eps; exact Hps)
              (path_type_num_lt _ W0) (host_nibble_lt _ V2) (host_nibble_lt _ V1))
    as (Ok1 & Len1 & Rv & _ & _ & _ & Rhl & Rpl & _).
  unfold hb, encode_header. fold hs.
  set (b1 := encode_common h (trunc 8 (hs / 4)) (trunc 16 ps) (zeros hs)) in *.
  set (b2 := on_suffix CommonHeader_SIZE_BYTES (encode_addr h) b1).
  assert (L1 : CommonHeader_SIZE_BYTES <= blen b1) by (rewrite Len1; exact H12).
  assert (L2 : CommonHeader_SIZE_BYTES + addr_size h <= blen b2 -> True) by tauto.
  (* reads inside the first 12 bytes are not affected by the address and path encoders *)
  assert (Fr : forall r bits, byte_hi r <= CommonHeader_SIZE_BYTES ->
               rd (on_suffix (CommonHeader_SIZE_BYTES + addr_size h) (encode_path (h_path h)) b2) r bits = rd b1 r bits).
  { intros r bits Hr.
    assert (A16 : 16 <= addr_size h) by (unfold addr_size, addr_hdr_size, AddressHeader_FIXED_SIZE_BITS; lia).
    assert (Lb2 : blen b2 = CommonHeader_SIZE_BYTES + blen (encode_addr h (skipn (N.to_nat CommonHeader_SIZE_BYTES) b1))).
    { unfold b2, on_suffix, blen in *. rewrite app_length, firstn_length. lia. }
    unfold rd. destruct (negb (size_bytes r <=? LANE_BYTES)); [reflexivity|].
    (* both buffers are at least 12 bytes long and agree on the first 12 bytes *)
    assert (E1 : lane_read b2 r = lane_read b1 r) by (apply on_suffix_read_below; assumption).
    destruct (N.le_gt_cases (CommonHeader_SIZE_BYTES + addr_size h) (blen b2)) as [Big|Small].
    - destruct (on_suffix_read_below (CommonHeader_SIZE_BYTES + addr_size h) (encode_path (h_path h)) b2 r ltac:(lia) Big) as [E2 L3].
      rewrite E2, E1.
      destruct (byte_hi r <=? blen (on_suffix _ _ b2)) eqn:C1; destruct (byte_hi r <=? blen b1) eqn:C2; try reflexivity;
        [apply N.leb_gt in C2; lia|apply N.leb_gt in C1; lia].
    - (* the buffer is shorter than the address header: on_suffix keeps all of it *)
      unfold on_suffix. rewrite firstn_all2 by (unfold blen in Small; lia).
      rewrite skipn_all2 by (unfold blen in Small; lia).
      assert (E3 : lane_read (b2 ++ encode_path (h_path h) []) r = lane_read b2 r).
      { apply lane_read_local_eq.
        replace (b2 ++ encode_path (h_path h) []) with (b2 ++ encode_path (h_path h) [] ++ []) by (rewrite app_nil_r; reflexivity).
        apply sub_below. rewrite Lb2. lia. }
      rewrite E3, E1.
      assert (blen b2 <= blen (b2 ++ encode_path (h_path h) [])) by (unfold blen; rewrite app_length; lia).
      destruct (byte_hi r <=? blen (b2 ++ _)) eqn:C1; destruct (byte_hi r <=? blen b1) eqn:C2; try reflexivity;
        [apply N.leb_gt in C2; lia|apply N.leb_gt in C1; rewrite Lb2 in *; lia]. }
  unfold hv_header_len, hv_payload_len, hv_version in *.
  rewrite !Fr by closed_le.
  refine (conj _ (conj _ Rv)).
  - rewrite Rhl. f_equal. exact Eu.
  - rewrite Rpl. f_equal. exact Eps.
Qed.
