(** Composition of the layers: the whole SCION header written by [encode_header] decodes back to
    the model (paths without hop-field loops: empty, one-hop, unsupported). *)
From Coq Require Import Lia ZifyBool ZifyNat ZifyN.
From Sci Require Import Wire.Codec Wire.Spec_C03 Wire.BitFieldProofs Wire.Proofs_C03 Wire.RoundTripProofs Wire.ChecksumProofs
  Wire.ChecksumVerify Wire.LengthProofs Wire.EncodeLengthProofs Wire.AddrRoundTrip.
Local Open Scope N_scope.
Ltac Zify.zify_post_hook ::= Z.div_mod_to_equations.
Arguments N.add : simpl never. Arguments N.sub : simpl never. Arguments N.mul : simpl never.
Arguments N.div : simpl never. Arguments N.modulo : simpl never. Arguments N.pow : simpl never.
Arguments N.ltb : simpl never. Arguments N.leb : simpl never. Arguments N.eqb : simpl never.
Ltac closed_le := apply N.leb_le; vm_compute; reflexivity.

(** reading inside the part an [on_suffix] encoder produced *)
Lemma on_suffix_is_app lo f (b : bytes) : lo <= blen b ->
  on_suffix lo f b = firstn (N.to_nat lo) b ++ f (skipn (N.to_nat lo) b) /\ blen (firstn (N.to_nat lo) b) = lo.
Proof. intros H. split; [reflexivity|]. unfold blen in *. rewrite firstn_length. lia. Qed.

Lemma sub_app_r (p x : bytes) lo hi : sub (p ++ x) (blen p + lo) (blen p + hi) = sub x lo hi.
Proof.
  unfold sub, blen. rewrite skipn_app. rewrite skipn_all2 by lia. cbn [app].
  replace (N.to_nat (N.of_nat (length p) + lo) - length p)%nat with (N.to_nat lo) by lia.
  f_equal. lia.
Qed.

Lemma rd_app_r (p x : bytes) r bits : rd (p ++ x) (rshift r (blen p)) bits = rd x r bits.
Proof.
  unfold rd. unfold size_bytes, rshift, byte_lo, byte_hi, r_end, r_start, r_width. cbn [fst snd].
  replace ((fst r + blen p * 8 + snd r + 7) / 8 - (fst r + blen p * 8) / 8) with ((fst r + snd r + 7) / 8 - fst r / 8) by lia.
  destruct (negb ((fst r + snd r + 7) / 8 - fst r / 8 <=? LANE_BYTES)); [reflexivity|].
  assert (Lb : blen (p ++ x) = blen p + blen x) by (unfold blen; rewrite app_length; lia).
  rewrite Lb.
  destruct ((fst r + snd r + 7) / 8 <=? blen x) eqn:C1; destruct ((fst r + blen p * 8 + snd r + 7) / 8 <=? blen p + blen x) eqn:C2;
    cbn [negb]; try reflexivity; try (apply N.leb_le in C1; apply N.leb_gt in C2; lia); try (apply N.leb_gt in C1; apply N.leb_le in C2; lia).
  f_equal. f_equal. unfold lane_read, byte_lo, byte_hi, r_end, r_start, r_width. cbn [fst snd].
  replace ((fst r + blen p * 8) / 8) with (blen p + fst r / 8) by lia.
  replace ((fst r + blen p * 8 + snd r + 7) / 8) with (blen p + (fst r + snd r + 7) / 8) by lia.
  rewrite sub_app_r. f_equal. f_equal. lia.
Qed.

Lemma rshift_hi r a : byte_hi (rshift r a) = byte_hi r + a.
Proof. unfold rshift, byte_hi, r_end, r_start. cbn [fst snd]. lia. Qed.

Lemma hat_size_nibble h : host_wf h = true -> host_wire_valid h = true -> hat_size (host_nibble h) = host_size h.
Proof.
  destruct h as [b|b|s|id b]; cbn [host_wf host_wire_valid host_nibble host_size]; intros W V; try reflexivity.
  apply Bool.andb_true_iff in W. destruct W as [W _]. apply Bool.andb_true_iff in W. destruct W as [_ Wl]. apply N.leb_le in Wl.
  apply Bool.andb_true_iff in V. destruct V as [_ V]. cbn [host_nibble] in V.
  repeat (apply Bool.andb_true_iff in V; let X := fresh "V" in destruct V as [V X]).
  apply N.eqb_eq in V0. rewrite V0. apply trunc8_small. exact Wl.
Qed.

Lemma rd_on_suffix_below lo f (b : bytes) r bits : byte_hi r <= lo -> lo <= blen b ->
  rd (on_suffix lo f b) r bits = rd b r bits.
Proof.
  intros H1 H2. destruct (on_suffix_read_below lo f b r H1 H2) as [E L]. unfold rd. rewrite E.
  destruct (negb (size_bytes r <=? LANE_BYTES)); [reflexivity|].
  destruct (byte_hi r <=? blen (on_suffix lo f b)) eqn:C1; destruct (byte_hi r <=? blen b) eqn:C2; try reflexivity;
    [apply N.leb_gt in C2; lia|apply N.leb_gt in C1; lia].
Qed.

Lemma skipn_ok n (b : bytes) : bytes_ok b = true -> bytes_ok (skipn n b) = true.
Proof. apply bytes_ok_skipn. Qed.

Lemma encode_addr_ok h buf : host_wf (h_dst_host h) = true -> host_wf (h_src_host h) = true ->
  bytes_ok buf = true -> 16 <= blen buf -> bytes_ok (encode_addr h buf) = true.
Proof.
  intros Wd Ws Hok Hb. unfold encode_addr. cbv zeta.
  apply put_bytes_ok; [apply (proj1 (host_bytes_ok _ Ws))|].
  apply put_bytes_ok; [apply (proj1 (host_bytes_ok _ Wd))|].
  match goal with |- bytes_ok (w ?r1 ?v1 (w ?r2 ?v2 (w ?r3 ?v3 (w ?r4 ?v4 ?b)))) = true =>
    change (w r1 v1 (w r2 v2 (w r3 v3 (w r4 v4 b)))) with (apply_writes [(r4, v4); (r3, v3); (r2, v2); (r1, v1)] b);
    apply (apply_writes_spec [(r4, v4); (r3, v3); (r2, v2); (r1, v1)] b Hok);
      [apply (writes_hi_ok _ 16); [vm_compute; reflexivity|lia]|vm_compute; reflexivity]
  end.
Qed.

(** the part of [decode_header] that does not depend on the path kind *)
Section Header.
Variable h : pkt_hdr.
Variable psize : N.
Hypothesis Wh : header_wf h = true.
Hypothesis Vh : header_wire_valid h = true.
Hypothesis Hps : psize < 65536.

Let hs := header_size h.
Let units := trunc 8 (hs / 4).
Let b1 := encode_common h units psize (zeros hs).
Let X := encode_addr h (skipn (N.to_nat CommonHeader_SIZE_BYTES) b1).
Let b2 := on_suffix CommonHeader_SIZE_BYTES (encode_addr h) b1.
Let dl := host_size (h_dst_host h).
Let sl := host_size (h_src_host h).

Lemma header_prefix_facts :
  blen b2 = hs /\ bytes_ok b2 = true /\ hs = CommonHeader_SIZE_BYTES + (16 + dl + sl) + path_size (h_path h)
  /\ units * 4 = hs
  /\ (forall g, let b3 := on_suffix (CommonHeader_SIZE_BYTES + addr_size h) g b2 in
        hv_traffic_class b3 = Ok (h_tc h) /\ hv_flow_id b3 = Ok (h_flow h) /\ hv_next_header b3 = Ok (h_nh h)
        /\ hv_dst_ia b3 = Ok (h_dst_ia h) /\ hv_src_ia b3 = Ok (h_src_ia h)
        /\ hv_dst_host b3 = Ok (Some (h_dst_host h)) /\ hv_src_host b3 = Ok (Some (h_src_host h))
        /\ hv_dst_addr_type b3 = Ok (host_nibble (h_dst_host h)) /\ hv_src_addr_type b3 = Ok (host_nibble (h_src_host h))
        /\ hv_header_len b3 = Ok hs /\ hv_path_type b3 = Ok (path_type_num (h_path h))
        /\ hv_payload_len b3 = Ok psize /\ hv_version b3 = Ok 0).
Proof.
  unfold header_wf in Wh. pose proof Wh as W.
  repeat (apply Bool.andb_true_iff in W; let X := fresh "W" in destruct W as [W X]).
  unfold header_wire_valid in Vh. pose proof Vh as V.
  repeat (apply Bool.andb_true_iff in V; let X := fresh "V" in destruct V as [V X]).
  apply N.ltb_lt in W, W5, W4, W3. apply N.eqb_eq in V.
  apply Bool.negb_true_iff in V4. apply N.ltb_ge in V4. unfold ScionHeader_MAX_SIZE_BYTES in V4.
  apply Bool.negb_true_iff in V3. apply N.ltb_ge in V3. change (N.ones (r_width CommonHeader_FLOW_ID_RNG)) with 1048575 in V3.
  destruct (zeros_ok hs) as [Zok Zlen].
  assert (A : addr_size h = 16 + dl + sl) by (apply addr_size_eq; assumption).
  assert (Hhs : hs = CommonHeader_SIZE_BYTES + (16 + dl + sl) + path_size (h_path h)) by (unfold hs, header_size; rewrite A; reflexivity).
  assert (Hu : units * 4 = hs /\ units < 256).
  { unfold units, trunc. change (2 ^ 8) with 256. fold hs in V, V4. split; lia. }
  destruct Hu as [Hu Hu256].
  assert (H12 : CommonHeader_SIZE_BYTES <= blen (zeros hs)) by (rewrite Zlen, Hhs; lia).
  destruct (common_header_roundtrip_lemma h units psize (zeros hs) Zok H12 W ltac:(change (2 ^ 20) with 1048576; lia) W5 Hu256 Hps
              (path_type_num_lt _ W0) (host_nibble_lt _ V2) (host_nibble_lt _ V1))
    as (Ok1 & Len1 & Rv & Rtc & Rfl & Rnh & Rhl & Rpl & Rpt & Rdn & Rsn & _).
  fold b1 in Ok1, Len1, Rv, Rtc, Rfl, Rnh, Rhl, Rpl, Rpt, Rdn, Rsn.
  rewrite Zlen in Len1.
  assert (L12 : CommonHeader_SIZE_BYTES <= blen b1) by (rewrite Len1, Hhs; lia).
  (* the address part *)
  assert (OkS : bytes_ok (skipn (N.to_nat CommonHeader_SIZE_BYTES) b1) = true) by (apply bytes_ok_skipn; exact Ok1).
  assert (LS : addr_size h <= blen (skipn (N.to_nat CommonHeader_SIZE_BYTES) b1)) by (rewrite skipn_blen, Len1, A, Hhs; lia).
  destruct (address_header_roundtrip_lemma h _ W4 W3 W2 W1 V2 V1 OkS LS) as (LX & Rdia & Rsia & Rdh & Rsh).
  fold X dl sl in LX, Rdia, Rsia, Rdh, Rsh. rewrite skipn_blen, Len1 in LX.
  destruct (on_suffix_is_app CommonHeader_SIZE_BYTES (encode_addr h) b1 L12) as [E2 Lp]. fold b2 X in E2.
  set (pfx := firstn (N.to_nat CommonHeader_SIZE_BYTES) b1) in *.
  assert (L2 : blen b2 = hs) by (rewrite E2; unfold blen in *; rewrite app_length; lia).
  assert (Ok2 : bytes_ok b2 = true).
  { rewrite E2, bytes_ok_app. unfold pfx. rewrite bytes_ok_firstn by exact Ok1. cbn [andb].
    unfold X. apply encode_addr_ok; try assumption. rewrite skipn_blen, Len1, Hhs. unfold CommonHeader_SIZE_BYTES. lia. }
  refine (conj L2 (conj Ok2 (conj Hhs (conj Hu _)))).
  intros g b3.
  assert (Lo : CommonHeader_SIZE_BYTES + addr_size h <= blen b2) by (rewrite L2, A, Hhs; lia).
  (* reads in the first 12 bytes *)
  assert (Fr : forall r bits, byte_hi r <= CommonHeader_SIZE_BYTES -> rd b3 r bits = rd b1 r bits).
  { intros r bits Hr. unfold b3. rewrite rd_on_suffix_below by (first [exact Lo|lia]).
    unfold b2. apply rd_on_suffix_below; [exact Hr|exact L12]. }
  (* reads and slices inside the address header *)
  assert (FrA : forall r bits, byte_hi r <= addr_size h -> rd b3 (rshift r CommonHeader_SIZE_BYTES) bits = rd X r bits).
  { intros r bits Hr. unfold b3. rewrite rd_on_suffix_below; [|rewrite rshift_hi; lia|exact Lo].
    rewrite E2. rewrite <- Lp. apply rd_app_r. }
  assert (SubA : forall lo hi, hi <= addr_size h -> sub b3 (CommonHeader_SIZE_BYTES + lo) (CommonHeader_SIZE_BYTES + hi) = sub X lo hi).
  { intros lo hi Hhi. unfold b3.
    destruct (on_suffix_is_app (CommonHeader_SIZE_BYTES + addr_size h) g b2 Lo) as [E3 Lp3]. rewrite E3.
    replace (firstn (N.to_nat (CommonHeader_SIZE_BYTES + addr_size h)) b2 ++ g (skipn (N.to_nat (CommonHeader_SIZE_BYTES + addr_size h)) b2))
      with (firstn (N.to_nat (CommonHeader_SIZE_BYTES + addr_size h)) b2 ++ g (skipn (N.to_nat (CommonHeader_SIZE_BYTES + addr_size h)) b2) ++ []) by (rewrite app_nil_r; reflexivity).
    rewrite sub_below by (rewrite Lp3; lia).
    unfold sub at 1. rewrite skipn_firstn_comm, firstn_firstn.
    replace (Nat.min (N.to_nat (CommonHeader_SIZE_BYTES + hi - (CommonHeader_SIZE_BYTES + lo))) (N.to_nat (CommonHeader_SIZE_BYTES + addr_size h) - N.to_nat (CommonHeader_SIZE_BYTES + lo)))
      with (N.to_nat (CommonHeader_SIZE_BYTES + hi - (CommonHeader_SIZE_BYTES + lo))) by lia.
    fold (sub b2 (CommonHeader_SIZE_BYTES + lo) (CommonHeader_SIZE_BYTES + hi)).
    rewrite E2. rewrite <- Lp. apply sub_app_r. }
  assert (Lb3 : CommonHeader_SIZE_BYTES + (16 + dl + sl) <= blen b3).
  { unfold b3. rewrite on_suffix_blen by exact Lo. rewrite A. lia. }
  unfold hv_traffic_class, hv_flow_id, hv_next_header, hv_dst_ia, hv_src_ia, hv_dst_addr_type, hv_src_addr_type, hv_header_len,
    hv_path_type, hv_payload_len, hv_version in *.
  rewrite (Fr CommonHeader_TRAFFIC_CLASS_RNG 8), (Fr CommonHeader_FLOW_ID_RNG 32), (Fr CommonHeader_NEXT_HEADER_RNG 8),
    (Fr CommonHeader_DST_ADDR_INFO_RNG 8), (Fr CommonHeader_SRC_ADDR_INFO_RNG 8), (Fr CommonHeader_HEADER_LEN_RNG 8),
    (Fr CommonHeader_PATH_TYPE_RNG 8), (Fr CommonHeader_PAYLOAD_LEN_RNG 16), (Fr CommonHeader_VERSION_RNG 8) by closed_le.
  rewrite !FrA by (first [(rewrite A; change (byte_hi AddressHeader_DST_IA_RNG) with 8; lia)|(rewrite A; change (byte_hi AddressHeader_SRC_IA_RNG) with 16; lia)]).
  refine (conj Rtc (conj Rfl (conj Rnh (conj Rdia (conj Rsia (conj _ (conj _ (conj Rdn (conj Rsn (conj _ (conj Rpt (conj Rpl Rv)))))))))))).
  - unfold hv_dst_host, hv_dst_host_raw, hv_src_addr_type, hv_dst_addr_type.
    rewrite (Fr CommonHeader_DST_ADDR_INFO_RNG 8), (Fr CommonHeader_SRC_ADDR_INFO_RNG 8) by closed_le. rewrite Rsn, Rdn. cbn [obind fst snd].
    rewrite !hat_size_nibble by assumption. fold dl sl.
    assert (Er : byte_lo (dst_host_rng sl dl) = CommonHeader_SIZE_BYTES + 16 /\ byte_hi (dst_host_rng sl dl) = CommonHeader_SIZE_BYTES + (16 + dl)).
    { unfold dst_host_rng, rng_of_range, rshift, byte_lo, byte_hi, r_end, r_start, AddressHeader_FIXED_SIZE_BITS, CommonHeader_SIZE_BYTES. cbn [fst snd]. split; lia. }
    destruct Er as [-> ->].
    unfold get_unchecked.
    destruct ((CommonHeader_SIZE_BYTES + 16 <=? CommonHeader_SIZE_BYTES + (16 + dl)) && (CommonHeader_SIZE_BYTES + (16 + dl) <=? blen b3)) eqn:C.
    + cbn [obind fst snd]. rewrite SubA by (rewrite A; lia). rewrite Rdh. reflexivity.
    + apply Bool.andb_false_iff in C. destruct C as [C|C]; apply N.leb_gt in C; lia.
  - unfold hv_src_host, hv_src_host_raw, hv_src_addr_type, hv_dst_addr_type.
    rewrite (Fr CommonHeader_DST_ADDR_INFO_RNG 8), (Fr CommonHeader_SRC_ADDR_INFO_RNG 8) by closed_le. rewrite Rsn, Rdn. cbn [obind fst snd].
    rewrite !hat_size_nibble by assumption. fold dl sl.
    assert (Er : byte_lo (src_host_rng sl dl) = CommonHeader_SIZE_BYTES + (16 + dl) /\ byte_hi (src_host_rng sl dl) = CommonHeader_SIZE_BYTES + (16 + dl + sl)).
    { unfold src_host_rng, rng_of_range, rshift, byte_lo, byte_hi, r_end, r_start, AddressHeader_FIXED_SIZE_BITS, CommonHeader_SIZE_BYTES. cbn [fst snd]. split; lia. }
    destruct Er as [-> ->].
    unfold get_unchecked.
    destruct ((CommonHeader_SIZE_BYTES + (16 + dl) <=? CommonHeader_SIZE_BYTES + (16 + dl + sl)) && (CommonHeader_SIZE_BYTES + (16 + dl + sl) <=? blen b3)) eqn:C.
    + cbn [obind fst snd]. rewrite SubA by (rewrite A; lia). rewrite Rsh. reflexivity.
    + apply Bool.andb_false_iff in C. destruct C as [C|C]; apply N.leb_gt in C; lia.
  - rewrite Rhl. rewrite Hu. reflexivity.
Qed.
End Header.

Lemma get_unchecked_ok' v lo hi : lo <= hi /\ hi <= blen v -> get_unchecked v lo hi = Ok (sub v lo hi).
Proof.
  intros [H1 H2]. unfold get_unchecked. destruct (lo <=? hi) eqn:A; [|apply N.leb_gt in A; lia].
  destruct (hi <=? blen v) eqn:B; [|apply N.leb_gt in B; lia]. reflexivity.
Qed.

Lemma blen_app (x y : bytes) : blen (x ++ y) = blen x + blen y.
Proof. unfold blen. rewrite app_length. lia. Qed.

Lemma encode_header_shape h psize buf :
  encode_header h psize buf =
  on_suffix (CommonHeader_SIZE_BYTES + addr_size h) (encode_path (h_path h))
    (on_suffix CommonHeader_SIZE_BYTES (encode_addr h) (encode_common h (trunc 8 (header_size h / 4)) psize buf)).
Proof. reflexivity. Qed.

(** header round trip for the paths without per-hop loops *)
Lemma header_roundtrip_simple_paths h psize :
  header_wf h = true -> header_wire_valid h = true -> psize < 65536 ->
  (match h_path h with DP_Empty | DP_Unsupported _ _ => True | _ => False end) ->
  decode_header (encode_header h psize (zeros (header_size h))) = Ok h.
Proof.
  intros Wh Vh Hps Hp. rewrite encode_header_shape.
  destruct (header_prefix_facts h psize Wh Vh Hps) as (L2 & Ok2 & Hhs & Hu & F).
  specialize (F (encode_path (h_path h))). cbv zeta in F.
  set (b2 := on_suffix CommonHeader_SIZE_BYTES (encode_addr h) (encode_common h (trunc 8 (header_size h / 4)) psize (zeros (header_size h)))) in *.
  set (b3 := on_suffix (CommonHeader_SIZE_BYTES + addr_size h) (encode_path (h_path h)) b2) in *.
  destruct F as (Rtc & Rfl & Rnh & Rdia & Rsia & Rdh & Rsh & Rdn & Rsn & Rhl & Rpt & _ & _).
  pose proof Wh as W. unfold header_wf in W. repeat (apply Bool.andb_true_iff in W; let X := fresh "W" in destruct W as [W X]).
  pose proof Vh as V. unfold header_wire_valid in V. repeat (apply Bool.andb_true_iff in V; let X := fresh "V" in destruct V as [V X]).
  assert (A : addr_size h = 16 + host_size (h_dst_host h) + host_size (h_src_host h)) by (apply addr_size_eq; assumption).
  unfold decode_header. rewrite Rtc, Rfl, Rnh, Rdia, Rsia, Rdh. cbn [obind]. rewrite Rsh. cbn [obind].
  unfold hv_path_range. rewrite Rdn, Rsn, Rhl, Rpt. cbn [obind].
  rewrite !hat_size_nibble by assumption.
  replace (addr_hdr_size (host_size (h_dst_host h)) (host_size (h_src_host h))) with (addr_size h)
    by (rewrite A; unfold addr_hdr_size, AddressHeader_FIXED_SIZE_BITS; lia).
  destruct h as [tc fl nh dia sia dh sh path]. cbn [h_path h_tc h_flow h_nh h_dst_ia h_src_ia h_dst_host h_src_host] in *.
  destruct path as [ci ch segs|i h1 h2| |pt d]; try destruct Hp; cbn [path_type_num].
  - (* empty *) change (PT_EMPTY =? PT_EMPTY) with true. cbn iota. cbn [obind]. reflexivity.
  - (* unsupported *)
    cbn [path_wire_valid] in V0. apply Bool.andb_true_iff in V0. destruct V0 as [_ V0]. apply Bool.andb_true_iff in V0. destruct V0 as [Vt _].
    apply Bool.negb_true_iff in Vt. apply Bool.orb_false_iff in Vt. destruct Vt as [Vt V2']. apply Bool.orb_false_iff in Vt. destruct Vt as [Ve Vs].
    rewrite Ve, V2'. cbn iota.
    cbn [path_size] in Hhs.
    assert (Lo : CommonHeader_SIZE_BYTES + addr_size (mkH tc fl nh dia sia dh sh (DP_Unsupported pt d)) <= blen b2) by (rewrite L2, Hhs, A; cbn [h_dst_host h_src_host]; lia).
    set (off := CommonHeader_SIZE_BYTES + addr_size (mkH tc fl nh dia sia dh sh (DP_Unsupported pt d))) in *.
    destruct (on_suffix_is_app off (encode_path (DP_Unsupported pt d)) b2 Lo) as [E3 Lp3]. fold b3 in E3.
    cbn [encode_path] in E3.
    assert (Ls : blen (skipn (N.to_nat off) b2) = blen d) by (rewrite skipn_blen, L2, Hhs; unfold off; rewrite A; cbn [h_dst_host h_src_host]; lia).
    assert (Epd : put 0 d (skipn (N.to_nat off) b2) = d).
    { unfold put. cbn [N.to_nat firstn app Nat.add]. rewrite skipn_all2 by (unfold blen in Ls; lia). apply app_nil_r. }
    rewrite Epd in E3.
    assert (Lb3 : blen b3 = header_size (mkH tc fl nh dia sia dh sh (DP_Unsupported pt d))).
    { rewrite E3, blen_app, Lp3, Hhs. unfold off. rewrite A. cbn [h_dst_host h_src_host]. lia. }
    rewrite get_unchecked_ok' by (rewrite Lb3, Hhs; unfold off; rewrite A; cbn [h_dst_host h_src_host]; split; lia).
    cbn [obind]. rewrite ?Ve, ?Vs, ?V2'. cbn iota.
    rewrite ?get_unchecked_ok' by (rewrite Lb3, Hhs; unfold off; rewrite A; cbn [h_dst_host h_src_host]; split; lia).
    cbn [obind]. rewrite ?Ve, ?Vs, ?V2'. cbn iota. f_equal. f_equal. f_equal.
    assert (Ehs : header_size (mkH tc fl nh dia sia dh sh (DP_Unsupported pt d)) = off + blen d)
      by (rewrite Hhs; unfold off; rewrite A; cbn [h_dst_host h_src_host]; lia).
    rewrite Ehs, E3. set (p3 := firstn (N.to_nat off) b2) in *. rewrite <- Lp3.
    replace (blen p3) with (blen p3 + 0) at 1 by lia. rewrite sub_app_r. apply sub_full.
Qed.
