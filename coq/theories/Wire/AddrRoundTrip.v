(** Address header layer: ISD-AS numbers written as two fields (ISD 16 bits, AS 48 bits) and
    read back as one 64-bit field; host addresses copied in and decoded by their type nibble. *)
From Coq Require Import Lia ZifyBool ZifyNat ZifyN.
From Sci Require Import Wire.Codec Wire.Spec_C03 Wire.BitFieldProofs Wire.RoundTripProofs Wire.EncodeLengthProofs.
Local Open Scope N_scope.
Ltac Zify.zify_post_hook ::= Z.div_mod_to_equations.
Arguments N.add : simpl never. Arguments N.sub : simpl never. Arguments N.mul : simpl never.
Arguments N.div : simpl never. Arguments N.modulo : simpl never. Arguments N.pow : simpl never.
Arguments N.ltb : simpl never. Arguments N.leb : simpl never. Arguments N.eqb : simpl never.
Arguments N.shiftr : simpl never. Arguments N.land : simpl never. Arguments N.shiftl : simpl never. Arguments N.lor : simpl never.
Ltac closed_le := apply N.leb_le; vm_compute; reflexivity.

(** two adjacent fields read as one *)
Lemma bf_get_concat b s w1 w2 : s + w1 + w2 <= 8 * blen b ->
  bf_get b (s, w1 + w2) = bf_get b (s, w1) * 2 ^ w2 + bf_get b (s + w1, w2).
Proof.
  intros H. unfold bf_get, r_end, r_width. cbn [fst snd].
  set (B := be_val 0 b). set (t := 8 * blen b - (s + (w1 + w2))).
  replace (8 * blen b - (s + w1)) with (t + w2) by (unfold t; lia).
  replace (8 * blen b - (s + w1 + w2)) with t by (unfold t; lia).
  rewrite (N.pow_add_r 2 t w2). rewrite <- N.div_div by (apply N.pow_nonzero; discriminate).
  set (Y := B / 2 ^ t).
  rewrite (N.pow_add_r 2 w1 w2), (N.mul_comm (2 ^ w1) (2 ^ w2)).
  rewrite N.mod_mul_r by (apply N.pow_nonzero; discriminate). lia.
Qed.

Lemma lane_read_concat b s w1 w2 : bytes_ok b = true -> (s + w1 + w2 + 7) / 8 <= blen b ->
  lane_read b (s, w1 + w2) = lane_read b (s, w1) * 2 ^ w2 + lane_read b (s + w1, w2).
Proof.
  intros Hok H.
  rewrite !lane_read_is_bf_get; try assumption;
    try (unfold byte_hi, r_end, r_start; cbn [fst snd]; lia).
  apply bf_get_concat. lia.
Qed.

(** an ISD-AS number split into ISD and AS and put together again *)
Lemma ia_split_join ia : ia < 2 ^ 64 -> (trunc 16 (N.shiftr ia 48)) * 2 ^ 48 + N.land ia ASN_MASK = ia.
Proof.
  intros H. unfold trunc, ASN_MASK. rewrite N.shiftr_div_pow2. change 281474976710655 with (N.ones 48). rewrite N.land_ones.
  change (2 ^ 64) with 18446744073709551616 in H. change (2 ^ 48) with 281474976710656. change (2 ^ 16) with 65536. lia.
Qed.

(** * host addresses: decode (bytes, nibble) of an accepted address gives it back *)
Lemma host_decode_encode h : host_wf h = true -> host_wire_valid h = true ->
  host_addr_decode (host_nibble h) (host_bytes h) = Some h.
Proof.
  destruct h as [b|b|s|id b]; cbn [host_wf host_wire_valid host_nibble host_bytes]; intros W V.
  - apply Bool.andb_true_iff in W. destruct W as [L _]. unfold host_addr_decode. rewrite N.eqb_refl, L. reflexivity.
  - apply Bool.andb_true_iff in W. destruct W as [L _]. unfold host_addr_decode.
    change (HAT_IPV6 =? HAT_IPV4) with false. rewrite N.eqb_refl, L. reflexivity.
  - apply N.ltb_lt in W. unfold host_addr_decode.
    change (HAT_SERVICE =? HAT_IPV4) with false. change (HAT_SERVICE =? HAT_IPV6) with false. rewrite N.eqb_refl.
    cbn [be_bytes app]. change (blen [(s / 256) mod 256; s mod 256; 0; 0] =? 4) with true. cbn iota.
    change (sub [(s / 256) mod 256; s mod 256; 0; 0] 0 2) with [(s / 256) mod 256; s mod 256]. cbn [be_val].
    change (HAT_SERVICE =? HAT_SERVICE) with true. cbn iota. f_equal. f_equal. lia.
  - apply Bool.andb_true_iff in W. destruct W as [W Wok]. apply Bool.andb_true_iff in W. destruct W as [Wid Wl].
    apply N.leb_le in Wl.
    apply Bool.andb_true_iff in V. destruct V as [_ V]. cbn [host_nibble] in V.
    set (nib := hat_unknown_nibble id (trunc 8 (blen b))) in *.
    repeat (apply Bool.andb_true_iff in V; let X := fresh "V" in destruct V as [V X]).
    apply Bool.negb_true_iff in V2. apply N.eqb_eq in V1.
    unfold hat_is_known, host_addr_type_known in V2. cbn [existsb] in V2.
    repeat (apply Bool.orb_false_iff in V2; let X := fresh "K" in destruct V2 as [X V2]).
    unfold host_addr_decode, HAT_IPV4, HAT_IPV6, HAT_SERVICE. rewrite K, K0, K1.
    destruct (blen b <=? 16) eqn:C; [|apply N.leb_gt in C; lia]. rewrite V1. reflexivity.
Qed.

Lemma put_sub_below lo x (b : bytes) lo2 hi2 : hi2 <= lo -> lo <= blen b -> sub (put lo x b) lo2 hi2 = sub b lo2 hi2.
Proof.
  intros H1 H2. unfold put. rewrite sub_below by (unfold blen in *; rewrite firstn_length; lia).
  unfold sub. rewrite skipn_firstn_comm, firstn_firstn. f_equal. lia.
Qed.

(** the address header written by the encoder, read back: ISD-AS numbers as 64-bit fields,
    host address bytes at their offsets, decoded by their type nibble to the model's addresses *)
Lemma address_header_roundtrip_lemma h buf :
  h_dst_ia h < 2 ^ 64 -> h_src_ia h < 2 ^ 64 ->
  host_wf (h_dst_host h) = true -> host_wf (h_src_host h) = true ->
  host_wire_valid (h_dst_host h) = true -> host_wire_valid (h_src_host h) = true ->
  bytes_ok buf = true -> addr_size h <= blen buf ->
  let b' := encode_addr h buf in
  let dl := host_size (h_dst_host h) in let sl := host_size (h_src_host h) in
  blen b' = blen buf
  /\ rd b' AddressHeader_DST_IA_RNG 64 = Ok (h_dst_ia h) /\ rd b' AddressHeader_SRC_IA_RNG 64 = Ok (h_src_ia h)
  /\ host_addr_decode (host_nibble (h_dst_host h)) (sub b' 16 (16 + dl)) = Some (h_dst_host h)
  /\ host_addr_decode (host_nibble (h_src_host h)) (sub b' (16 + dl) (16 + dl + sl)) = Some (h_src_host h).
Proof.
  intros Hd Hs Wd Ws Vd Vs Hok Hb b' dl sl.
  pose proof (encode_addr_blen h buf Wd Ws Hb) as Lb.
  rewrite (addr_size_eq h Wd Ws) in Hb. fold dl sl in Hb.
  destruct (host_bytes_blen _ Wd) as [Bd Ld]. destruct (host_bytes_blen _ Ws) as [Bs Ls]. fold dl in Bd, Ld. fold sl in Bs, Ls.
  unfold b', encode_addr. rewrite !trunc8_small by assumption. fold dl sl.
  change (AddressHeader_FIXED_SIZE_BITS / 8) with 16.
  set (ws := [(AddressHeader_DST_ISD_RNG, trunc 16 (N.shiftr (h_dst_ia h) 48)); (AddressHeader_DST_AS_RNG, N.land (h_dst_ia h) ASN_MASK);
              (AddressHeader_SRC_ISD_RNG, trunc 16 (N.shiftr (h_src_ia h) 48)); (AddressHeader_SRC_AS_RNG, N.land (h_src_ia h) ASN_MASK)]).
  change (w AddressHeader_SRC_AS_RNG (N.land (h_src_ia h) ASN_MASK) (w AddressHeader_SRC_ISD_RNG (trunc 16 (N.shiftr (h_src_ia h) 48))
           (w AddressHeader_DST_AS_RNG (N.land (h_dst_ia h) ASN_MASK) (w AddressHeader_DST_ISD_RNG (trunc 16 (N.shiftr (h_dst_ia h) 48)) buf))))
    with (apply_writes ws buf).
  assert (Hhi : forall x, In x ws -> byte_hi (fst x) <= blen buf) by (apply (writes_hi_ok _ 16); [vm_compute; reflexivity|lia]).
  assert (Hdj : pairwise_disjoint (map fst ws) = true) by (vm_compute; reflexivity).
  destruct (apply_writes_spec ws buf Hok Hhi Hdj) as (Ok1 & Len1 & Rd & _).
  set (b1 := apply_writes ws buf) in *.
  set (b2 := put 16 (host_bytes (h_dst_host h)) b1).
  assert (L2 : blen b2 = blen buf) by (unfold b2; rewrite put_blen; [exact Len1|rewrite Len1, Bd; lia]).
  assert (Ok2 : bytes_ok b2 = true) by (apply put_bytes_ok; [apply (proj1 (ChecksumProofs.host_bytes_ok _ Wd))|exact Ok1]).
  set (b3 := put (16 + dl) (host_bytes (h_src_host h)) b2).
  assert (L3 : blen b3 = blen buf) by (unfold b3; rewrite put_blen; [exact L2|rewrite L2, Bs; lia]).
  assert (Ok3 : bytes_ok b3 = true) by (apply put_bytes_ok; [apply (proj1 (ChecksumProofs.host_bytes_ok _ Ws))|exact Ok2]).
  (* reads below byte 16 see b1 *)
  assert (Low : forall r, byte_hi r <= 16 -> lane_read b3 r = lane_read b1 r).
  { intros r Hr. unfold b3. rewrite put_read_below by (first [lia|rewrite L2; lia]).
    unfold b2. apply put_read_below; [exact Hr|rewrite Len1; lia]. }
  (* the four fields *)
  pose proof (Rd (AddressHeader_DST_ISD_RNG, _) ltac:(unfold ws; cbn [In]; tauto)) as R1.
  pose proof (Rd (AddressHeader_DST_AS_RNG, _) ltac:(unfold ws; cbn [In]; tauto)) as R2.
  pose proof (Rd (AddressHeader_SRC_ISD_RNG, _) ltac:(unfold ws; cbn [In]; tauto)) as R3.
  pose proof (Rd (AddressHeader_SRC_AS_RNG, _) ltac:(unfold ws; cbn [In]; tauto)) as R4.
  cbn [fst snd] in R1, R2, R3, R4.
  assert (T16 : forall x, trunc 16 x mod 2 ^ r_width AddressHeader_DST_ISD_RNG = trunc 16 x).
  { intros x. unfold trunc. change (2 ^ r_width AddressHeader_DST_ISD_RNG) with (2 ^ 16). apply N.mod_mod. discriminate. }
  assert (M48 : forall x, N.land x ASN_MASK mod 2 ^ 48 = N.land x ASN_MASK).
  { intros x. unfold ASN_MASK. change 281474976710655 with (N.ones 48). rewrite N.land_ones. apply N.mod_mod. discriminate. }
  change (2 ^ r_width AddressHeader_SRC_ISD_RNG) with (2 ^ r_width AddressHeader_DST_ISD_RNG) in R3.
  change (2 ^ r_width AddressHeader_DST_AS_RNG) with (2 ^ 48) in R2. change (2 ^ r_width AddressHeader_SRC_AS_RNG) with (2 ^ 48) in R4.
  rewrite T16 in R1, R3. rewrite M48 in R2, R4.
  refine (conj L3 (conj _ (conj _ (conj _ _)))).
  - unfold rd. change (negb (size_bytes AddressHeader_DST_IA_RNG <=? LANE_BYTES)) with false. cbn iota.
    destruct (byte_hi AddressHeader_DST_IA_RNG <=? blen b3) eqn:C; [|apply N.leb_gt in C; rewrite L3 in C; change (byte_hi AddressHeader_DST_IA_RNG) with 8 in C; lia].
    cbn [negb]. f_equal. change AddressHeader_DST_IA_RNG with (0, 16 + 48).
    rewrite lane_read_concat by (first [exact Ok3|(rewrite L3; change ((0 + 16 + 48 + 7) / 8) with 8; lia)]).
    change (0, 16) with AddressHeader_DST_ISD_RNG. change (0 + 16, 48) with AddressHeader_DST_AS_RNG.
    rewrite !Low by closed_le. rewrite R1, R2. rewrite ia_split_join by exact Hd.
    apply trunc_id. exact Hd.
  - unfold rd. change (negb (size_bytes AddressHeader_SRC_IA_RNG <=? LANE_BYTES)) with false. cbn iota.
    destruct (byte_hi AddressHeader_SRC_IA_RNG <=? blen b3) eqn:C; [|apply N.leb_gt in C; rewrite L3 in C; change (byte_hi AddressHeader_SRC_IA_RNG) with 16 in C; lia].
    cbn [negb]. f_equal. change AddressHeader_SRC_IA_RNG with (64, 16 + 48).
    rewrite lane_read_concat by (first [exact Ok3|(rewrite L3; change ((64 + 16 + 48 + 7) / 8) with 16; lia)]).
    change (64, 16) with AddressHeader_SRC_ISD_RNG. change (64 + 16, 48) with AddressHeader_SRC_AS_RNG.
    rewrite !Low by closed_le. rewrite R3, R4. rewrite ia_split_join by exact Hs.
    apply trunc_id. exact Hs.
  - unfold b3. rewrite put_sub_below by (first [lia|rewrite L2; lia]).
    unfold b2. rewrite <- Bd. rewrite put_sub_exact by (rewrite Len1, Bd; lia).
    apply host_decode_encode; assumption.
  - unfold b3. rewrite <- Bs. replace (16 + dl + blen (host_bytes (h_src_host h))) with ((16 + dl) + blen (host_bytes (h_src_host h))) by lia.
    rewrite put_sub_exact by (rewrite L2, Bs; lia).
    apply host_decode_encode; assumption.
Qed.
