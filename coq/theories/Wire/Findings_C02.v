(** Witnesses, by computation on the model, for the two C02 defects of the unrepaired tree
    (both repaired in /repo: the two mutators are [unsafe fn]s now; known_findings/C02.json,
    section "fixed"). *)
From Sci Require Import Wire.Views Wire.Cases_C02.
Local Open Scope N_scope.

(** a 48-byte SCION/UDP packet: empty path, IPv4 addresses, UDP datagram with 4 payload bytes *)
Definition udp_pkt : bytes :=
  [10;188;222;241;17;9;0;12;0;0;0;0] ++ [16;17;18;19;20;21;22;23;24;25;26;27;28;29;30;31]
  ++ [208;209;210;211;80;81;82;83] ++ [48;57;1;187;0;12;18;52;7;7;7;7].

Lemma udp_pkt_is_a_view : required_size KUdpPkt udp_pkt = Ok 48.
Proof. vm_compute. reflexivity. Qed.

(** ScionUdpPacketView::as_raw_mut() was a safe fn: zeroing the UDP length through
    payload_mut() keeps every byte inside the view, but the next udp() call hits
    expect("udp payload is not large enough for a UDP header") *)
Lemma udp_as_raw_mut_then_udp_panics :
  (v1 <- legacy_udp_pkt_payload_poke 4 0 udp_pkt ;;
   v2 <- legacy_udp_pkt_payload_poke 5 0 v1 ;;
   run_acc KUdpPkt 10 0 v2) = Panic P_UDP_EXPECT.
Proof. vm_compute. reflexivity. Qed.

(** the mutated bytes are no longer accepted by the constructor: a safe mutator changed
    [required_size] *)
Lemma udp_as_raw_mut_changes_required_size :
  (v1 <- legacy_udp_pkt_payload_poke 4 0 udp_pkt ;; v2 <- legacy_udp_pkt_payload_poke 5 0 v1 ;;
   required_size KUdpPkt v2) = Err (VOther E_UDPLEN).
Proof. vm_compute. reflexivity. Qed.

(** ScmpUnknownMessageView::set_message_type was a safe fn reachable through
    ScmpPayloadView::message_mut(): on an 8-byte unknown message, setting the type to
    TracerouteRequest makes message().interface_id() read bytes 16..24 of an 8-byte view *)
Definition scmp_unknown8 : bytes := [200;3;171;205;4;5;6;7].
Lemma scmp_unknown8_is_a_view : required_size KScmp scmp_unknown8 = Ok 8.
Proof. vm_compute. reflexivity. Qed.
Lemma scmp_unknown_set_type_then_read_out_of_bounds :
  (v1 <- legacy_scmp_unknown_set_type 130 scmp_unknown8 ;; run_acc KScmp 17 0 v1) = Panic P_OOB.
Proof. vm_compute. reflexivity. Qed.

(** The two safe setters that are NOT layout preserving (excluded from
    safe_setters_preserve_layout) -- deliberate in the code, no finding: they rewrite a
    field the constructor checks, but no accessor derives an extent from it. *)
(* ScionHeaderView::set_version(1): the bytes would no longer be accepted (UnsupportedVersion),
   every accessor of the existing view still stays inside it *)
Lemma set_version_changes_revalidation_only :
  (v1 <- run_mut KUdpPkt 1000 0 1 udp_pkt ;; Ok (required_size KUdpPkt v1)) = Ok (Err (VOther E_VERSION))
  /\ (v1 <- run_mut KUdpPkt 1000 0 1 udp_pkt ;; run_acc KUdpPkt 10 0 v1) = Ok (VL [36; 48]).
Proof. vm_compute. split; reflexivity. Qed.
(* UdpDatagramView::set_length(3) on a datagram view: re-validation fails, payload() unchanged *)
Definition udp_dgram : bytes := [48; 57; 1; 187; 0; 12; 18; 52; 7; 7; 7; 7].
Lemma set_length_changes_revalidation_only :
  (v1 <- run_mut KUdp 2 0 3 udp_dgram ;; Ok (required_size KUdp v1)) = Ok (Err (VOther E_UDPLEN))
  /\ (v1 <- run_mut KUdp 2 0 3 udp_dgram ;; run_acc KUdp 4 0 v1) = Ok (VL [8; 12]).
Proof. vm_compute. split; reflexivity. Qed.
