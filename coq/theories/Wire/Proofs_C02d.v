(** C02, fourth part: the packet views' header_mut() scalar setters and the raw view's
    payload_mut() keep the size the constructor computes. *)
From Coq Require Import Lia ZifyBool ZifyNat ZifyN.
From Sci Require Import Wire.Views Wire.Spec_C02 Wire.Proofs_C02 Wire.BitFieldProofs Wire.Proofs_C02b Wire.Proofs_C02c.
Local Open Scope N_scope.
Ltac Zify.zify_post_hook ::= Z.div_mod_to_equations.
Arguments N.add : simpl never. Arguments N.sub : simpl never. Arguments N.mul : simpl never.
Arguments N.div : simpl never. Arguments N.modulo : simpl never. Arguments N.eqb : simpl never.
Arguments N.ltb : simpl never. Arguments N.leb : simpl never. Arguments N.min : simpl never.
Arguments N.pow : simpl never.

(** writing into the header sub-view and splicing it back = writing into the packet *)
Lemma lane_write_app (x t : bytes) r val : byte_hi r <= blen x -> lane_write (x ++ t) r val = lane_write x r val ++ t.
Proof.
  intros H. assert (Hlo : byte_lo r <= byte_hi r) by (unfold byte_lo, byte_hi, r_end, r_start; lia).
  unfold lane_write.
  replace (sub (x ++ t) (byte_lo r) (byte_hi r)) with (sub x (byte_lo r) (byte_hi r)).
  2: { symmetry. replace (x ++ t) with (x ++ t ++ []) by (rewrite app_nil_r; reflexivity). apply sub_below. exact H. }
  rewrite firstn_app. unfold blen in H. replace (N.to_nat (byte_lo r) - length x)%nat with 0%nat by lia. cbn [firstn]. rewrite app_nil_r.
  rewrite skipn_app. replace (N.to_nat (byte_hi r) - length x)%nat with 0%nat by lia. cbn [skipn].
  rewrite <- !app_assoc. reflexivity.
Qed.

Lemma lane_write_prefix (v : bytes) len r val : byte_hi r <= len -> len <= blen v ->
  splice v 0 (lane_write (sub v 0 len) r val) = lane_write v r val.
Proof.
  intros Hr Hl.
  assert (Ex : sub v 0 len = firstn (N.to_nat len) v) by (unfold sub; rewrite N.sub_0_r; reflexivity).
  rewrite Ex. set (x := firstn (N.to_nat len) v). set (t := skipn (N.to_nat len) v).
  assert (Ev : v = x ++ t) by (unfold x, t; symmetry; apply firstn_skipn).
  assert (Lx : blen x = len) by (unfold x, blen in *; rewrite firstn_length; lia).
  rewrite Ev at 2. rewrite lane_write_app by (rewrite Lx; exact Hr).
  unfold splice. cbn [N.to_nat firstn app Nat.add]. f_equal.
  assert (Ly : length (lane_write x r val) = N.to_nat len).
  { pose proof (lane_write_blen x r val ltac:(rewrite Lx; exact Hr)) as L. unfold blen in *. lia. }
  rewrite Ly. reflexivity.
Qed.

Lemma in_sub_prefix_wr v len r val v' : in_sub v (0, len) (fun x => wr x r val) = Ok v' -> wr v r val = Ok v'.
Proof.
  unfold in_sub. cbn [fst snd]. intros H. inv_bind H. inversion H; subst; clear H.
  apply get_unchecked_some in E. destruct E as (-> & _ & Hl).
  unfold wr in *. destruct (negb (size_bytes r <=? LANE_BYTES)); [discriminate|].
  rewrite blen_sub in E0 by exact Hl. rewrite N.sub_0_r in E0.
  destruct (byte_hi r <=? len) eqn:B; cbn [negb] in E0; [|discriminate]. apply N.leb_le in B.
  inversion E0; subst a0.
  destruct (byte_hi r <=? blen v) eqn:B2; [|apply N.leb_gt in B2; lia]. cbn [negb]. f_equal.
  symmetry. apply lane_write_prefix; assumption.
Qed.

(** header_mut().set_* (scalar setters except set_version) on any packet view *)
Lemma mut_pkt_header_scalar k id arg val v v' : bytes_ok v = true -> 1001 <= id <= 1007 ->
  mut_pkt k id arg val v = Ok v' ->
  exists r, header_scalar_ok r = true /\ wr v r val = Ok v'.
Proof.
  intros Hok Hid H. unfold mut_pkt in H.
  assert (C : id = 1001 \/ id = 1002 \/ id = 1003 \/ id = 1004 \/ id = 1005 \/ id = 1006 \/ id = 1007) by lia.
  pose proof header_safe_scalar_ranges as T. cbn [forallb] in T.
  repeat (apply Bool.andb_true_iff in T; let X := fresh "T" in destruct T as [X T]).
  destruct C as [->|[->|[->|[->|[->|[->| ->]]]]]]; cbn iota in H;
    change (1000 <=? _) with true in H; cbn iota in H; inv_bind H;
    match type of H with in_sub v (0, ?len) (mut_header ?j arg val) = _ =>
      let r := eval cbv beta iota delta [mut_header] in (mut_header j arg val) in idtac end;
    (eexists; split; [|eapply in_sub_prefix_wr; exact H]); assumption.
Qed.

Lemma lane_write_sub_above' b r v lo2 hi2 : byte_hi r <= blen b -> byte_hi r <= lo2 ->
  sub (lane_write b r v) lo2 hi2 = sub b lo2 hi2.
Proof.
  intros Hb H. destruct (lane_write_shape b r v Hb) as (x & Lx & ->).
  assert (Hlo : byte_lo r <= byte_hi r) by (unfold byte_lo, byte_hi, r_end, r_start; lia).
  assert (Lp : blen (firstn (N.to_nat (byte_lo r)) b) = byte_lo r) by (unfold blen in *; rewrite firstn_length; lia).
  assert (Lxx : blen x = byte_hi r - byte_lo r) by (unfold blen; lia).
  rewrite sub_above by (rewrite Lp, Lxx; lia). rewrite Lp, Lxx.
  unfold sub. rewrite skipn_skipn'. f_equal; [lia|]. f_equal. lia.
Qed.

(** a scalar header write on a valid packet view keeps the constructor's result *)
Lemma wr_scalar_preserves_pkt k v r val v' :
  (k = KRaw \/ k = KUdpPkt \/ k = KScmpPkt) -> bytes_ok v = true -> required_size k v = Ok (blen v) ->
  header_scalar_ok r = true -> wr v r val = Ok v' -> required_size k v' = required_size k v.
Proof.
  intros Hk Hok Hv Hr Hw.
  pose proof (wr_header_scalar_preserves v r val v' Hok Hr Hw) as HL.
  destruct (wr_bytes_ok v r val v' Hok Hw) as [_ L].
  assert (Raw : required_size_raw v' = required_size_raw v) by (unfold required_size_raw; rewrite HL, L; reflexivity).
  destruct Hk as [->|Hk]; [exact Raw|].
  (* the typed packet views also look at the payload *)
  assert (Hrv : exists l, header_layout v = Ok l).
  { destruct Hk as [-> | ->]; cbn [required_size] in Hv; [unfold required_size_udp_pkt in Hv|unfold required_size_scmp_pkt in Hv];
      unfold required_size_raw in Hv; destruct (header_layout v) as [l| |]; cbn [obind] in Hv; try discriminate; eauto. }
  destruct Hrv as [l Hl].
  pose proof (pkt_payload_range_ok v l Hl) as Pv. rewrite <- HL in Hl. pose proof (pkt_payload_range_ok v' l Hl) as Pv'. rewrite L in Pv'.
  assert (Epay : pkt_payload v' = pkt_payload v).
  { unfold pkt_payload. rewrite Pv, Pv'. cbn [obind fst snd]. f_equal.
    unfold wr in Hw. destruct (negb (size_bytes r <=? LANE_BYTES)); [discriminate|].
    destruct (byte_hi r <=? blen v) eqn:B; cbn [negb] in Hw; [|discriminate]. inversion Hw; subst v'. apply N.leb_le in B.
    apply lane_write_sub_above'; [exact B|].
    unfold header_scalar_ok in Hr. apply Bool.andb_true_iff in Hr. destruct Hr as [He _]. apply N.leb_le in He.
    rewrite HL in Hl. pose proof (header_layout_min v l Hl). unfold byte_hi. lia. }
  destruct Hk as [-> | ->]; cbn [required_size]; [unfold required_size_udp_pkt|unfold required_size_scmp_pkt]; rewrite Raw, Epay; reflexivity.
Qed.

Lemma mut_pkt_scalar_preserves k id arg val v v' :
  (k = KRaw \/ k = KUdpPkt \/ k = KScmpPkt) -> bytes_ok v = true -> required_size k v = Ok (blen v) -> 1001 <= id <= 1007 ->
  mut_pkt k id arg val v = Ok v' -> required_size k v' = required_size k v /\ bytes_ok v' = true.
Proof.
  intros Hk Hok Hv Hid H. destruct (mut_pkt_header_scalar k id arg val v v' Hok Hid H) as (r & Hr & Hw).
  split; [eapply wr_scalar_preserves_pkt; eassumption|eapply wr_bytes_ok; eassumption].
Qed.

(** * all covered operations *)
Definition is_pkt (k : vkind) : bool := match k with KRaw | KUdpPkt | KScmpPkt => true | _ => false end.
Definition layout_preserving_op_all (k : vkind) (id : N) : bool :=
  layout_preserving_op k id || (is_pkt k && (1001 <=? id) && (id <=? 1007)).

Lemma run_mut_preserves_all k id arg val v v' :
  layout_preserving_op_all k id = true -> bytes_ok v = true -> required_size k v = Ok (blen v) ->
  run_mut k id arg val v = Ok v' -> required_size k v' = required_size k v /\ bytes_ok v' = true.
Proof.
  intros Hop Hok Hv H. unfold layout_preserving_op_all in Hop. apply Bool.orb_true_iff in Hop. destruct Hop as [Hop|Hop].
  - split; [eapply run_mut_preserves_required_size; eassumption|eapply run_mut_ok; eassumption].
  - apply Bool.andb_true_iff in Hop. destruct Hop as [Hop H7]. apply Bool.andb_true_iff in Hop. destruct Hop as [Hp H1].
    apply N.leb_le in H1. apply N.leb_le in H7.
    assert (Hk : k = KRaw \/ k = KUdpPkt \/ k = KScmpPkt) by (destruct k; try discriminate Hp; tauto).
    assert (Hm : mut_pkt k id arg val v = Ok v') by (destruct Hk as [->|[->| ->]]; exact H).
    eapply mut_pkt_scalar_preserves; try eassumption. split; assumption.
Qed.

Lemma run_muts_preserve_all k ms : forall v v',
  forallb (fun m => layout_preserving_op_all k (fst (fst m))) ms = true ->
  bytes_ok v = true -> required_size k v = Ok (blen v) -> run_muts k ms v = Ok v' ->
  required_size k v' = Ok (blen v') /\ blen v' = blen v /\ bytes_ok v' = true.
Proof.
  induction ms as [|[[id arg] val] r IH]; intros v v' Hall Hok Hv H; cbn [run_muts] in H.
  - inversion H; subst. auto.
  - cbn [forallb fst] in Hall. apply Bool.andb_true_iff in Hall. destruct Hall as [Hop Hall].
    inv_bind H.
    destruct (run_mut_preserves_all k id arg val v a Hop Hok Hv E) as [P O].
    pose proof (run_mut_length k id arg val v a E) as L. apply blen_length in L.
    assert (Hva : required_size k a = Ok (blen a)) by (rewrite P, L; exact Hv).
    destruct (IH a v' Hall O Hva H) as (R1 & R2 & R3). refine (conj R1 (conj _ R3)). lia.
Qed.
