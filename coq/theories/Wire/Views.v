(** Safe accessors and safe mutators of every view type, as two interpreters over the view's
    bytes: [run_acc k id arg v] and [run_mut k id arg val v].  Each clause computes the byte
    range with the same arithmetic as the Rust accessor and goes through the bounds-checked
    stand-ins of [Wire.Model] ([rd], [wr], [get_unchecked], [index_range]): a result
    [Panic _] means the Rust accessor would read / write outside the view (or hit an
    [expect]).  The numbering is shared with harness/hc_wire/src/bin/h_wire_views.rs.
    Definitions only. *)
From Sci Require Export Wire.Model.
Local Open Scope N_scope.

Inductive aval := VN (n : N) | VL (l : list N) | VNone.

Definition aval_eqb (a b : aval) : bool :=
  match a, b with
  | VN x, VN y => x =? y
  | VL x, VL y => list_eqb N.eqb x y
  | VNone, VNone => true
  | _, _ => false
  end.

Definition vn (r : res N) : res aval := x <- r ;; Ok (VN x).
Definition vrange (r : res (N * N)) : res aval := x <- r ;; Ok (VL [fst x; snd x]).
Definition vorange (r : res (option (N * N))) : res aval :=
  x <- r ;; Ok (match x with Some p => VL [fst p; snd p] | None => VNone end).

(** InfoFieldView *)
Definition acc_info (id : N) (v : bytes) : res aval :=
  match id with
  | 0 => vn (if_flags v) | 1 => vn (if_segment_id v) | 2 => vn (if_timestamp v)
  | _ => Ok VNone
  end.
(** HopFieldView *)
Definition acc_hop (id : N) (v : bytes) : res aval :=
  match id with
  | 0 => vn (hf_flags v) | 1 => vn (hf_exp_time v) | 2 => vn (hf_cons_ingress v)
  | 3 => vn (hf_cons_egress v) | 4 => m <- hf_mac v ;; Ok (VL m)
  | _ => Ok VNone
  end.

(** exp_time_to_duration(e).as_secs(): 337.5 s units *)
Definition exp_secs (e : N) : N := 675 * (e + 1) / 2.
Definition U32_MAX : N := 4294967295.
Definition sat_add_u32 (a b : N) : N := N.min (a + b) U32_MAX.

Definition sub_view (v : bytes) (r : N * N) : res bytes := get_unchecked v (fst r) (snd r).

(** SegmentIterator: (info index, first hop index, hop count) per yielded segment *)
Definition sp_segments (v : bytes) : res (list (N * N * N)) :=
  s <- sp_segs v ;; let '(s0, s1, s2) := s in
  _ <- sp_hop_fields_range v ;; _ <- sp_info_fields_range v ;;
  let total := if s0 =? 0 then 0 else if s1 =? 0 then 1 else if s2 =? 0 then 2 else 3 in
  let nh := hop_field_count s0 s1 s2 in
  let ni := info_field_count s0 s1 s2 in
  (* &hop_fields[hop_idx .. hop_idx + len]: checked slice *)
  let seg (i start len : N) : res (list (N * N * N)) :=
    if ni <=? i then Ok [] else if nh <? start + len then Panic P_SLICE else Ok [(i, start, len)] in
  a <- (if 0 <? total then seg 0 0 s0 else Ok []) ;;
  b <- (if 1 <? total then seg 1 s0 s1 else Ok []) ;;
  c <- (if 2 <? total then seg 2 (s0 + s1) s2 else Ok []) ;;
  Ok (a ++ b ++ c).

Definition sp_hop_view (v : bytes) (i : N) : res (option bytes) :=
  r <- sp_hop_field_range v i ;;
  match r with Some p => x <- sub_view v p ;; Ok (Some x) | None => Ok None end.
Definition sp_info_view (v : bytes) (i : N) : res (option bytes) :=
  r <- sp_info_field_range v i ;;
  match r with Some p => x <- sub_view v p ;; Ok (Some x) | None => Ok None end.

(* hop fields are read through the &[HopFieldView] slice: index k of hop_fields() *)
Definition sp_hop_of_slice (v : bytes) (k : N) : res bytes :=
  r <- sp_hop_fields_range v ;;
  get_unchecked v (fst r + k * HopField_SIZE_BYTES) (fst r + (k + 1) * HopField_SIZE_BYTES).
Definition sp_info_of_slice (v : bytes) (k : N) : res bytes :=
  r <- sp_info_fields_range v ;;
  get_unchecked v (fst r + k * InfoField_SIZE_BYTES) (fst r + (k + 1) * InfoField_SIZE_BYTES).

Fixpoint min_exp (v : bytes) (start : N) (n : nat) (acc : N) : res N :=
  match n with
  | O => Ok acc
  | S n' => h <- sp_hop_of_slice v start ;; e <- hf_exp_time h ;; min_exp v (start + 1) n' (N.min acc e)
  end.

Fixpoint sp_expiration_loop (v : bytes) (segs : list (N * N * N)) (expiry : N) : res N :=
  match segs with
  | [] => Ok expiry
  | (i, start, len) :: rest =>
    e <- min_exp v start (N.to_nat len) 255 ;;
    inf <- sp_info_of_slice v i ;;
    ts <- if_timestamp inf ;;
    sp_expiration_loop v rest (N.min expiry (sat_add_u32 ts (exp_secs e)))
  end.
Definition sp_expiration (v : bytes) : res N :=
  segs <- sp_segments v ;;
  match segs with [] => Ok 0 | _ => sp_expiration_loop v segs U32_MAX end.

(* _calculate_segment_index *)
Definition calc_seg_index (i s0 s1 s2 : N) : option (N * N * N) :=
  let b2n (b : bool) : N := if b then 1 else 0 in
  if i <? s0 then Some (0, b2n (i =? 0), b2n (i + 1 =? s0))
  else if i <? s0 + s1 then Some (1, b2n (i =? s0), b2n (i + 1 =? s0 + s1))
  else if i <? s0 + s1 + s2 then Some (2, b2n (i =? s0 + s1), b2n (i + 1 =? s0 + s1 + s2))
  else None.

(** StandardPathView *)
Definition acc_stdpath (id arg : N) (v : bytes) : res aval :=
  match id with
  | 0 => vn (sp_curr_info v) | 1 => vn (sp_curr_hop v)
  | 2 => vn (sp_seg0 v) | 3 => vn (sp_seg1 v) | 4 => vn (sp_seg2 v)
  | 5 => s <- sp_segs v ;; let '(a, b, c) := s in Ok (VN (info_field_count a b c))
  | 6 => s <- sp_segs v ;; let '(a, b, c) := s in Ok (VN (trunc 8 (hop_field_count a b c)))
  | 7 => vorange (sp_info_field_range v arg)
  | 8 => vorange (sp_hop_field_range v arg)
  | 9 => vrange (sp_info_fields_range v)
  | 10 => vrange (sp_hop_fields_range v)
  | 11 => i <- sp_curr_info v ;; vorange (sp_info_field_range v i)
  | 12 => i <- sp_curr_hop v ;; vorange (sp_hop_field_range v i)
  | 13 => (* curr_egress_interface *)
    ih <- sp_curr_hop v ;; h <- sp_hop_view v ih ;;
    match h with None => Ok VNone | Some hv =>
      ii <- sp_curr_info v ;; inf <- sp_info_view v ii ;;
      match inf with None => Ok VNone | Some iv =>
        fl <- if_flags iv ;;
        if N.testbit fl 0 then vn (hf_cons_egress hv) else vn (hf_cons_ingress hv)
      end
    end
  | 14 => vn (sp_expiration v)
  | 15 => s <- sp_segs v ;; let '(a, b, c) := s in
          Ok (match calc_seg_index arg a b c with Some (x, y, z) => VL [x; y; z] | None => VNone end)
  | 16 => segs <- sp_segments v ;; Ok (VL (map (fun '(_, _, n) => n) segs))
  | _ =>
    if (20 <=? id) && (id <? 30) then
      x <- sp_info_view v arg ;; match x with Some iv => acc_info (id - 20) iv | None => Ok VNone end
    else if (30 <=? id) && (id <? 40) then
      x <- sp_hop_view v arg ;; match x with Some hv => acc_hop (id - 30) hv | None => Ok VNone end
    else Ok VNone
  end.

(** OneHopPathView: &self.0[range] on a fixed-size array *)
Definition oh_info (v : bytes) := index_range v (byte_lo OneHopPath_INFO_FIELD) (byte_hi OneHopPath_INFO_FIELD).
Definition oh_hop1 (v : bytes) := index_range v (byte_lo OneHopPath_HOP_FIELD_1) (byte_hi OneHopPath_HOP_FIELD_1).
Definition oh_hop2 (v : bytes) := index_range v (byte_lo OneHopPath_HOP_FIELD_2) (byte_hi OneHopPath_HOP_FIELD_2).
Definition acc_onehop (id : N) (v : bytes) : res aval :=
  match id with
  | 0 => _ <- oh_info v ;; Ok (VL [byte_lo OneHopPath_INFO_FIELD; byte_hi OneHopPath_INFO_FIELD])
  | 1 => _ <- oh_hop1 v ;; _ <- oh_hop2 v ;;
         Ok (VL [byte_lo OneHopPath_HOP_FIELD_1; byte_hi OneHopPath_HOP_FIELD_1;
                 byte_lo OneHopPath_HOP_FIELD_2; byte_hi OneHopPath_HOP_FIELD_2])
  | _ =>
    if (10 <=? id) && (id <? 20) then x <- oh_info v ;; acc_info (id - 10) x
    else if (20 <=? id) && (id <? 30) then x <- oh_hop1 v ;; acc_hop (id - 20) x
    else if (30 <=? id) && (id <? 40) then x <- oh_hop2 v ;; acc_hop (id - 30) x
    else Ok VNone
  end.

Definition host_aval (h : option host_addr) : aval :=
  match h with
  | None => VNone
  | Some (HA_V4 b) => VL (0 :: b) | Some (HA_V6 b) => VL (1 :: b)
  | Some (HA_Svc s) => VL [2; s] | Some (HA_Unknown id b) => VL (3 :: id :: b)
  end.

(** ScionHeaderView *)
Definition acc_header (id arg : N) (v : bytes) : res aval :=
  match id with
  | 0 => vn (hv_version v) | 1 => vn (hv_traffic_class v) | 2 => vn (hv_flow_id v)
  | 3 => vn (hv_next_header v) | 4 => vn (hv_payload_len v) | 5 => vn (hv_header_len v)
  | 6 => vn (hv_path_type v) | 7 => vn (hv_dst_addr_type v) | 8 => vn (hv_src_addr_type v)
  | 9 => vn (hv_dst_isd v) | 10 => vn (hv_dst_as v) | 11 => vn (hv_src_isd v) | 12 => vn (hv_src_as v)
  | 13 => vn (hv_dst_ia v) | 14 => vn (hv_src_ia v)
  | 15 => h <- hv_dst_host v ;; Ok (host_aval h)
  | 16 => h <- hv_src_host v ;; Ok (host_aval h)
  | 17 => p <- hv_path_range v ;; let '(pt, lo, hi) := p in Ok (if pt =? PT_EMPTY then VL [pt] else VL [pt; lo; hi])
  | _ =>
    if (100 <=? id) && (id <? 200) then
      p <- hv_path_range v ;; let '(pt, lo, hi) := p in
      if pt =? PT_SCION then x <- get_unchecked v lo hi ;; acc_stdpath (id - 100) arg x else Ok VNone
    else if (200 <=? id) && (id <? 300) then
      p <- hv_path_range v ;; let '(pt, lo, hi) := p in
      if pt =? PT_ONEHOP then x <- get_unchecked v lo hi ;; acc_onehop (id - 200) x else Ok VNone
    else Ok VNone
  end.

(** UdpDatagramView *)
Definition acc_udp (id : N) (v : bytes) : res aval :=
  match id with
  | 0 => vn (udp_src_port v) | 1 => vn (udp_dst_port v) | 2 => vn (udp_length v)
  | 3 => vn (udp_checksum v) | 4 => vrange (udp_payload_range v)
  | _ => Ok VNone
  end.

(** typed SCMP message views; [ty] = the view type (not re-read from the bytes) *)
Definition scmp_fields (ty : N) : list (rng * N) :=
  if ty =? SCMP_T_DestinationUnreachable then [(ScmpDestinationUnreachable_RESERVED_RNG, 32)]
  else if ty =? SCMP_T_PacketTooBig then [(ScmpPacketTooBig_RESERVED_RNG, 16); (ScmpPacketTooBig_MTU_RNG, 16)]
  else if ty =? SCMP_T_ParameterProblem then [(ScmpParameterProblem_RESERVED_RNG, 16); (ScmpParameterProblem_POINTER_RNG, 16)]
  else if ty =? SCMP_T_ExternalInterfaceDown then
    [(ScmpExternalInterfaceDown_ISD_AS_RNG, 64); (ScmpExternalInterfaceDown_INTERFACE_ID_RNG, 64)]
  else if ty =? SCMP_T_InternalConnectivityDown then
    [(ScmpInternalConnectivityDown_ISD_AS_RNG, 64); (ScmpInternalConnectivityDown_INGRESS_INTERFACE_ID_RNG, 64);
     (ScmpInternalConnectivityDown_EGRESS_INTERFACE_ID_RNG, 64)]
  else if ty =? SCMP_T_EchoRequest then [(ScmpEchoRequest_IDENTIFIER_RNG, 16); (ScmpEchoRequest_SEQUENCE_NUMBER_RNG, 16)]
  else if ty =? SCMP_T_EchoReply then [(ScmpEchoReply_IDENTIFIER_RNG, 16); (ScmpEchoReply_SEQUENCE_NUMBER_RNG, 16)]
  else if ty =? SCMP_T_TracerouteRequest then
    [(ScmpTracerouteRequest_IDENTIFIER_RNG, 16); (ScmpTracerouteRequest_SEQUENCE_NUMBER_RNG, 16);
     (ScmpTracerouteRequest_ISD_AS_RNG, 64); (ScmpTracerouteRequest_INTERFACE_ID_RNG, 64)]
  else if ty =? SCMP_T_TracerouteReply then
    [(ScmpTracerouteReply_IDENTIFIER_RNG, 16); (ScmpTracerouteReply_SEQUENCE_NUMBER_RNG, 16);
     (ScmpTracerouteReply_ISD_AS_RNG, 64); (ScmpTracerouteReply_INTERFACE_ID_RNG, 64)]
  else [].

Definition acc_scmp_msg (ty id : N) (v : bytes) : res aval :=
  match id with
  | 0 => vn (scmp_type v) | 1 => vn (scmp_code v) | 2 => vn (scmp_checksum v)
  | 3 => if scmp_fixed_size ty then Ok VNone else vrange (scmp_tail_range ty v)
  | _ => match nth_error (scmp_fields ty) (N.to_nat (id - 4)) with
         | Some (r, bits) => vn (rd v r bits)
         | None => Ok VNone
         end
  end.

(** ScmpPayloadView::dst_port: for error messages parse the quoted packet *)
Definition scmp_is_error (ty : N) : bool :=
  (ty =? SCMP_T_DestinationUnreachable) || (ty =? SCMP_T_PacketTooBig) || (ty =? SCMP_T_ParameterProblem)
  || (ty =? SCMP_T_ExternalInterfaceDown) || (ty =? SCMP_T_InternalConnectivityDown).
Definition scmp_is_info (ty : N) : bool :=
  (ty =? SCMP_T_EchoRequest) || (ty =? SCMP_T_EchoReply) || (ty =? SCMP_T_TracerouteRequest) || (ty =? SCMP_T_TracerouteReply).

(* .ok()? on a conversion: Err -> None, Panic stays *)
Definition ok_opt {A} (r : res A) : res (option A) :=
  match r with Ok a => Ok (Some a) | Err _ => Ok None | Panic s => Panic s end.

Definition udp_src_port_of_quote (q : bytes) : res aval :=
  o <- ok_opt (try_from_slice KRaw q) ;;
  match o with None => Ok VNone | Some (inner, _) =>
    h <- pkt_header inner ;; nh <- hv_next_header h ;;
    if negb (nh =? PROTO_UDP) then Ok VNone else
    p <- pkt_payload inner ;;
    u <- ok_opt (try_from_slice KUdp p) ;;
    match u with None => Ok VNone | Some (uv, _) => vn (udp_src_port uv) end
  end.

Definition scmp_dst_port (v : bytes) : res aval :=
  ty <- scmp_type v ;;
  if scmp_is_info ty then vn (rd v ScmpEchoRequest_IDENTIFIER_RNG 16)
  else if scmp_is_error ty then
    r <- scmp_tail_range ty v ;; q <- sub_view v r ;; udp_src_port_of_quote q
  else Ok VNone.

(** ScmpPayloadView; message() re-reads the type and reinterprets the SAME bytes *)
Definition acc_scmp (id : N) (v : bytes) : res aval :=
  match id with
  | 0 => vn (scmp_type v) | 1 => vn (scmp_code v) | 2 => vn (scmp_checksum v)
  | 3 => ty <- scmp_type v ;; Ok (VN (if scmp_is_known ty then ty else 256))
  | 4 => scmp_dst_port v
  | _ => if (10 <=? id) && (id <? 30) then ty <- scmp_type v ;; acc_scmp_msg ty (id - 10) v else Ok VNone
  end.

Definition err_aval (e : verr) : aval :=
  match e with BufTooSmall a r c => VL [0; 1; a; r; c] | VOther c => VL [0; 2; c] end.
(* Result<&View, _> observed as Ok(len) / Err *)
Definition conv_aval (r : res (bytes * bytes)) : res aval :=
  match r with
  | Ok (x, _) => Ok (VL [1; blen x]) | Err e => Ok (err_aval e) | Panic s => Panic s
  end.

Definition host_is_known (h : option host_addr) : N :=
  match h with Some (HA_Unknown _ _) | None => 0 | Some _ => 1 end.

(** ScionPacketView<T> *)
Definition acc_pkt (k : vkind) (id arg : N) (v : bytes) : res aval :=
  match id with
  | 0 => h <- pkt_header v ;; Ok (VL [0; blen h])
  | 1 => vrange (pkt_payload_range v)
  | 2 => h <- pkt_header v ;; a <- hv_src_host h ;; Ok (VN (host_is_known a))
  | 3 => h <- pkt_header v ;; a <- hv_dst_host h ;; Ok (VN (host_is_known a))
  | 4 => (* try_as_udp / try_classify on a raw packet *)
    match k with KRaw =>
      h <- pkt_header v ;; nh <- hv_next_header h ;;
      if negb (nh =? PROTO_UDP) then Ok (err_aval (VOther E_NOT_UDP)) else conv_aval (try_from_slice KUdpPkt v)
    | _ => Ok VNone end
  | 5 =>
    match k with KRaw =>
      h <- pkt_header v ;; nh <- hv_next_header h ;;
      if negb (nh =? PROTO_SCMP) then Ok (err_aval (VOther E_NOT_SCMP)) else conv_aval (try_from_slice KScmpPkt v)
    | _ => Ok VNone end
  | 10 =>
    match k with
    | KUdpPkt => (* udp(): try_from_slice(self.payload()).expect(..) *)
      r <- pkt_payload_range v ;; p <- sub_view v r ;;
      match try_from_slice KUdp p with
      | Ok (u, _) => Ok (VL [fst r; fst r + blen u]) | Err _ => Panic P_UDP_EXPECT | Panic s => Panic s end
    | KScmpPkt =>
      r <- pkt_payload_range v ;; p <- sub_view v r ;;
      match try_from_slice KScmp p with
      | Ok (u, _) => Ok (VL [fst r; fst r + blen u]) | Err _ => Panic P_SCMP_EXPECT | Panic s => Panic s end
    | _ => Ok VNone
    end
  | _ =>
    if (50 <=? id) && (id <? 100) then
      match k with
      | KUdpPkt =>
        p <- pkt_payload v ;;
        match try_from_slice KUdp p with
        | Ok (u, _) => acc_udp (id - 50) u | Err _ => Panic P_UDP_EXPECT | Panic s => Panic s end
      | KScmpPkt =>
        p <- pkt_payload v ;;
        match try_from_slice KScmp p with
        | Ok (u, _) => acc_scmp (id - 50) u | Err _ => Panic P_SCMP_EXPECT | Panic s => Panic s end
      | _ => Ok VNone
      end
    else if 1000 <=? id then h <- pkt_header v ;; acc_header (id - 1000) arg h
    else Ok VNone
  end.

Definition run_acc (k : vkind) (id arg : N) (v : bytes) : res aval :=
  match k with
  | KHeader => acc_header id arg v
  | KStdPath => acc_stdpath id arg v
  | KOneHop => acc_onehop id v
  | KInfo => acc_info id v
  | KHop => acc_hop id v
  | KRaw | KUdpPkt | KScmpPkt => acc_pkt k id arg v
  | KUdp => acc_udp id v
  | KScmp => acc_scmp id v
  | KScmpMsg ty => acc_scmp_msg ty id v
  end.

(** * Safe mutators *)

(* write into a sub-view and put it back: the Rust code hands out &mut sub-slices *)
Definition splice (v : bytes) (lo : N) (x : bytes) : bytes :=
  firstn (N.to_nat lo) v ++ x ++ skipn (N.to_nat lo + length x) v.
Definition in_sub (v : bytes) (r : N * N) (f : bytes -> res bytes) : res bytes :=
  x <- get_unchecked v (fst r) (snd r) ;; y <- f x ;; Ok (splice v (fst r) y).
(* slice[arg] = val on a &mut [u8] handed out by a *_mut accessor (harness guards arg < len) *)
Definition poke (v : bytes) (r : N * N) (arg val : N) : res bytes :=
  if fst r + arg <? snd r then Ok (splice v (fst r + arg) [trunc 8 val]) else Ok v.

Definition mut_info (id val : N) (v : bytes) : res bytes :=
  match id with
  | 0 => wr v InfoField_FLAGS_RNG val | 1 => wr v InfoField_SEGMENT_ID_RNG val
  | 2 => wr v InfoField_TIMESTAMP_RNG val | _ => Ok v
  end.
Definition mut_hop (id val : N) (v : bytes) : res bytes :=
  match id with
  | 0 => wr v HopField_FLAGS_RNG val | 1 => wr v HopField_EXP_TIME_RNG val
  | 2 => wr v HopField_CONS_INGRESS_RNG val | 3 => wr v HopField_CONS_EGRESS_RNG val
  | 4 => (* set_mac: get_unchecked_mut(MAC range).copy_from_slice(6 bytes) *)
    _ <- get_unchecked v (byte_lo HopField_MAC_RNG) (byte_hi HopField_MAC_RNG) ;;
    Ok (splice v (byte_lo HopField_MAC_RNG) (be_bytes 6 val))
  | _ => Ok v
  end.

Definition mut_stdpath (id arg val : N) (v : bytes) : res bytes :=
  match id with
  | 0 => wr v StdPathMeta_CURR_INFO_FIELD_RNG val
  | 1 => wr v StdPathMeta_CURR_HOP_FIELD_RNG val
  | _ =>
    if (20 <=? id) && (id <? 30) then
      r <- sp_info_field_range v arg ;;
      match r with Some p => in_sub v p (mut_info (id - 20) val) | None => Ok v end
    else if (30 <=? id) && (id <? 40) then
      r <- sp_hop_field_range v arg ;;
      match r with Some p => in_sub v p (mut_hop (id - 30) val) | None => Ok v end
    else Ok v
  end.

Definition rng_bytes (r : rng) : N * N := (byte_lo r, byte_hi r).
Definition mut_onehop (id val : N) (v : bytes) : res bytes :=
  if (10 <=? id) && (id <? 20) then _ <- oh_info v ;; in_sub v (rng_bytes OneHopPath_INFO_FIELD) (mut_info (id - 10) val)
  else if (20 <=? id) && (id <? 30) then _ <- oh_hop1 v ;; in_sub v (rng_bytes OneHopPath_HOP_FIELD_1) (mut_hop (id - 20) val)
  else if (30 <=? id) && (id <? 40) then _ <- oh_hop2 v ;; in_sub v (rng_bytes OneHopPath_HOP_FIELD_2) (mut_hop (id - 30) val)
  else Ok v.

Definition mut_header (id arg val : N) (v : bytes) : res bytes :=
  match id with
  | 0 => wr v CommonHeader_VERSION_RNG val
  | 1 => wr v CommonHeader_TRAFFIC_CLASS_RNG val
  | 2 => wr v CommonHeader_FLOW_ID_RNG val
  | 3 => wr v CommonHeader_NEXT_HEADER_RNG val
  | 4 => wr v (rshift AddressHeader_SRC_ISD_RNG CommonHeader_SIZE_BYTES) val
  | 5 => wr v (rshift AddressHeader_SRC_AS_RNG CommonHeader_SIZE_BYTES) val
  | 6 => wr v (rshift AddressHeader_DST_ISD_RNG CommonHeader_SIZE_BYTES) val
  | 7 => wr v (rshift AddressHeader_DST_AS_RNG CommonHeader_SIZE_BYTES) val
  | _ =>
    if (100 <=? id) && (id <? 200) then
      p <- hv_path_range v ;; let '(pt, lo, hi) := p in
      if pt =? PT_SCION then in_sub v (lo, hi) (mut_stdpath (id - 100) arg val) else Ok v
    else if (200 <=? id) && (id <? 300) then
      p <- hv_path_range v ;; let '(pt, lo, hi) := p in
      if pt =? PT_ONEHOP then in_sub v (lo, hi) (mut_onehop (id - 200) val) else Ok v
    else Ok v
  end.

Definition mut_udp (id arg val : N) (v : bytes) : res bytes :=
  match id with
  | 0 => wr v UdpDatagram_SRC_PORT_RNG val | 1 => wr v UdpDatagram_DST_PORT_RNG val
  | 2 => wr v UdpDatagram_LENGTH_RNG val | 3 => wr v UdpDatagram_CHECKSUM_RNG val
  | 4 => r <- udp_payload_range v ;; poke v r arg val
  | _ => Ok v
  end.

(** typed SCMP message views (through ScmpPayloadView::message_mut, type re-read).
    set_message_type is an unsafe fn on every kind (the Unknown kind since the C02 repair). *)
Definition mut_scmp_msg (ty id arg val : N) (v : bytes) : res bytes :=
  match id with
  | 0 => wr v ScmpUnknownMessage_CODE_RNG val
  | 1 => wr v ScmpUnknownMessage_CHECKSUM_RNG val
  | 2 => if scmp_fixed_size ty then Ok v else r <- scmp_tail_range ty v ;; poke v r arg val
  | _ => match nth_error (scmp_fields ty) (N.to_nat (id - 3)) with
         | Some (r, _) => wr v r val
         | None => Ok v
         end
  end.
Definition mut_scmp (id arg val : N) (v : bytes) : res bytes :=
  match id with
  | 0 => wr v ScmpUnknownMessage_CODE_RNG val
  | 1 => wr v ScmpUnknownMessage_CHECKSUM_RNG val
  | _ => if (10 <=? id) && (id <? 30) then ty <- scmp_type v ;; mut_scmp_msg ty (id - 10) arg val v else Ok v
  end.

(** ScionPacketView<T>: header_mut() for all kinds; payload_mut() only on the raw view
    (as_raw_mut of the typed packet views is an unsafe fn -- the UDP one since the C02 repair) *)
Definition mut_pkt (k : vkind) (id arg val : N) (v : bytes) : res bytes :=
  match id with
  | 1 => match k with KRaw => r <- pkt_payload_range v ;; poke v r arg val | _ => Ok v end
  | _ =>
    if 1000 <=? id then
      len <- hv_header_len v ;; in_sub v (0, len) (mut_header (id - 1000) arg val)
    else Ok v
  end.

Definition run_mut (k : vkind) (id arg val : N) (v : bytes) : res bytes :=
  match k with
  | KHeader => mut_header id arg val v
  | KStdPath => mut_stdpath id arg val v
  | KOneHop => mut_onehop id val v
  | KInfo => mut_info id val v
  | KHop => mut_hop id val v
  | KRaw | KUdpPkt | KScmpPkt => mut_pkt k id arg val v
  | KUdp => mut_udp id arg val v
  | KScmp => mut_scmp id arg val v
  | KScmpMsg ty => mut_scmp_msg ty id arg val v
  end.

(** the two mutators that the unrepaired tree offered as SAFE fns (C02 findings, now unsafe) *)
(* ScionUdpPacketView::as_raw_mut().payload_mut()[arg] = val *)
Definition legacy_udp_pkt_payload_poke (arg val : N) (v : bytes) : res bytes :=
  r <- pkt_payload_range v ;; poke v r arg val.
(* ScmpPayloadView::message_mut() -> Unknown(u) -> u.set_message_type(val) *)
Definition legacy_scmp_unknown_set_type (val : N) (v : bytes) : res bytes :=
  wr v ScmpUnknownMessage_TYPE_RNG val.

(** * Constructor families of [View] (core/view.rs defaults; no view type overrides them) and the
    owned packet conversions, in the observation format of the harness: (1, numbers) | (0, error)
    | (99, []) *)
Definition AT_BUF := 13.     (* copy_to_slice: BufferTooSmall { at: "buf" } *)
Definition enc_err (e : verr) : N * list N :=
  match e with BufTooSmall a r c => (0, [1; a; r; c]) | VOther c => (0, [2; c]) end.
Definition enc_ctor {A} (r : res A) (f : A -> N * list N) : N * list N :=
  match r with Ok x => f x | Err e => enc_err e | Panic _ => (99, []) end.
Definition owned_lens (v : bytes) : N * list N := (1, [blen v; blen v]).
(* Box<ScionRawPacketView>::try_into_udp / try_into_scmp = the check of try_as_udp / try_as_scmp
   (accessors 4 / 5), then try_from_boxed of the same bytes *)
Definition into_typed (acc_id : N) (v : bytes) : N * list N :=
  match acc_pkt KRaw acc_id 0 v with
  | Ok (VL [1; l]) => (1, [l; l])
  | Ok (VL (0 :: e)) => (0, e)
  | _ => (99, [])
  end.
Definition run_ctor (k : vkind) (fam arg : N) (b : bytes) : N * list N :=
  match fam with
  | 0 | 1 => enc_ctor (try_from_slice k b) (fun vr => (1, [blen (fst vr); blen (snd vr); 0; blen (fst vr)]))
  | 2 | 7 => enc_ctor (try_from_boxed k b) owned_lens
  | 3 => enc_ctor (try_from_slice k b) (fun vr => owned_lens (fst vr))
  | 4 => enc_ctor (try_from_slice k b) (fun vr =>
           let n := blen (fst vr) in
           if arg <? n then (0, [1; AT_BUF; n; arg]) else (1, [n; arg - n; 1]))
  | 5 => enc_ctor (try_from_boxed KRaw b) (into_typed 4)
  | 6 => enc_ctor (try_from_boxed KRaw b) (into_typed 5)
  | _ => (99, [])
  end.
