(** Lemmas for C03. *)
From Coq Require Import Lia ZifyBool ZifyNat ZifyN.
From Sci Require Import Wire.Codec Wire.Spec_C03.
Local Open Scope N_scope.
Ltac Zify.zify_post_hook ::= Z.div_mod_to_equations.
Arguments N.add : simpl never. Arguments N.sub : simpl never. Arguments N.mul : simpl never.
Arguments N.div : simpl never. Arguments N.modulo : simpl never. Arguments N.eqb : simpl never.
Arguments N.ltb : simpl never. Arguments N.leb : simpl never. Arguments N.min : simpl never.
Arguments N.pow : simpl never. Arguments N.ones : simpl never.

Ltac clean_bools :=
  repeat match goal with
  | H : (_ && _) = true |- _ => apply Bool.andb_true_iff in H; destruct H
  | H : (_ <? _) = false |- _ => apply N.ltb_ge in H
  | H : (_ <? _) = true |- _ => apply N.ltb_lt in H
  | H : (_ <=? _) = true |- _ => apply N.leb_le in H
  | H : (_ <=? _) = false |- _ => apply N.leb_gt in H
  | H : negb _ = false |- _ => apply Bool.negb_false_iff in H
  | H : negb _ = true |- _ => apply Bool.negb_true_iff in H
  | H : (_ =? _) = true |- _ => apply N.eqb_eq in H
  | H : (_ =? _) = false |- _ => apply N.eqb_neq in H
  end.

(** * representability of accepted models *)

(* unknown host address types: the acceptance test depends on (id, length) only; the Rust
   types bound both (u8 id, at most 16 bytes), so the implication is a finite table *)
Definition unk_valid (id len : N) : bool :=
  negb (len =? 0) && (len mod 4 =? 0) &&
  (let nib := hat_unknown_nibble id (trunc 8 len) in
   (nib <=? 15) && negb (hat_is_known nib) && (hat_unknown_id nib =? id) && (hat_size nib =? trunc 8 len)).
Definition unk_repr (id len : N) : bool :=
  (id <? 4) && (0 <? len) && (len <=? 16) && (len mod 4 =? 0)
  && negb ((id =? 0) && (len =? 4)) && negb ((id =? 0) && (len =? 16)) && negb ((id =? 1) && (len =? 4)).
Definition nrange (n : nat) : list N := map N.of_nat (seq 0 n).

Lemma unk_table : forallb (fun id => forallb (fun len => implb (unk_valid id len) (unk_repr id len)) (nrange 17)) (nrange 256) = true.
Proof. vm_compute. reflexivity. Qed.

Lemma in_nrange n x : x < N.of_nat n -> In x (nrange n).
Proof.
  intros H. unfold nrange. apply in_map_iff. exists (N.to_nat x). split; [lia|]. apply in_seq. lia.
Qed.

Lemma unk_valid_repr id len : id < 256 -> len <= 16 -> unk_valid id len = true -> unk_repr id len = true.
Proof.
  intros Hi Hl Hv. pose proof unk_table as T. rewrite forallb_forall in T.
  specialize (T id (in_nrange 256 id ltac:(lia))). rewrite forallb_forall in T.
  specialize (T len (in_nrange 17 len ltac:(lia))). rewrite Hv in T. exact T.
Qed.

Lemma host_valid_representable h : host_wf h = true -> host_wire_valid h = true -> host_representable h = true.
Proof.
  destruct h as [b|b|s|id b]; cbn [host_wf host_wire_valid host_representable]; intros W V.
  - clean_bools. unfold len_, blen in *. apply N.eqb_eq. lia.
  - clean_bools. unfold len_, blen in *. apply N.eqb_eq. lia.
  - exact W.
  - apply Bool.andb_true_iff in W. destruct W as [W Wb]. apply Bool.andb_true_iff in W. destruct W as [W1 W2].
    apply N.ltb_lt in W1. apply N.leb_le in W2.
    exact (unk_valid_repr id (blen b) W1 W2 V).
Qed.

Lemma path_valid_representable p : path_wf p = true -> path_wire_valid p = true -> path_representable p = true.
Proof.
  destruct p as [ci ch segs| | |pt d]; cbn [path_wf path_wire_valid path_representable]; intros W V; try reflexivity.
  - apply Bool.andb_true_iff in V. destruct V as [_ V]. unfold std_wire_valid in V.
    repeat (apply Bool.andb_true_iff in V; let X := fresh "V" in destruct V as [V X]).
    clean_bools.
    repeat (apply Bool.andb_true_iff; split).
    + apply N.ltb_lt. unfold StdPathMeta_MAX_SEGMENTS in *. lia.
    + apply N.ltb_lt. lia.
    + apply N.ltb_lt. destruct segs; [discriminate|cbn [length]; lia].
    + apply N.leb_le. unfold StdPathMeta_MAX_SEGMENTS in *. lia.
    + apply forallb_forall. intros s Hs. rewrite forallb_forall in V0. specialize (V0 s Hs).
      clean_bools. apply Bool.andb_true_iff. split.
      * apply N.ltb_lt. destruct (s_hops s); [discriminate|cbn [length]; lia].
      * apply N.ltb_lt. unfold StdPathMeta_MAX_SEGMENT_HOPS in *. lia.
  - apply Bool.andb_true_iff in V. destruct V as [_ V]. apply Bool.andb_true_iff in V. destruct V as [Vt Vm].
    apply Bool.negb_true_iff in Vt. apply Bool.orb_false_iff in Vt. destruct Vt as [Vt V2].
    apply Bool.orb_false_iff in Vt. destruct Vt as [V0 V1].
    apply N.eqb_neq in V0. apply N.eqb_neq in V1. apply N.eqb_neq in V2. apply N.eqb_eq in Vm.
    apply Bool.andb_true_iff in W. destruct W as [W _]. apply N.ltb_lt in W.
    unfold PT_EMPTY, PT_SCION, PT_ONEHOP in *.
    repeat (apply Bool.andb_true_iff; split).
    + apply N.ltb_lt. lia.
    + apply N.ltb_lt. lia.
    + apply N.eqb_eq. unfold len_, blen in *. lia.
Qed.

Lemma wire_valid_representable p : model_wf p = true -> packet_wire_valid p = true -> representable p = true.
Proof.
  unfold model_wf, packet_wire_valid, representable, header_wf, header_wire_valid. intros W V.
  repeat (apply Bool.andb_true_iff in W; let X := fresh "W" in destruct W as [W X]).
  repeat (apply Bool.andb_true_iff in V; let X := fresh "V" in destruct V as [V X]).
  repeat (apply Bool.andb_true_iff; split).
  - clean_bools. apply N.ltb_lt. change (N.ones (r_width CommonHeader_FLOW_ID_RNG)) with 1048575 in *. change (2 ^ 20) with 1048576. lia.
  - apply host_valid_representable; assumption.
  - apply host_valid_representable; assumption.
  - apply path_valid_representable; assumption.
  - clean_bools. apply N.ltb_lt. unfold U16_MAX in *.
    destruct (p_pl p) as [b|sp dp d|m]; cbn [l4_len payload_size payload_wire_valid] in *.
    + unfold len_, blen in *. lia.
    + clean_bools. unfold UdpDatagram_HEADER_SIZE_BYTES, len_, blen in *. lia.
    + destruct m; cbn [scmp_size] in *; try lia;
        unfold ScmpEchoRequest_HEADER_SIZE_BYTES, ScmpEchoReply_HEADER_SIZE_BYTES, ScmpUnknownMessage_HEADER_SIZE_BYTES, len_, blen in *; lia.
Qed.

(** * the numbers written into the length fields are the true sizes (no [as uN] cut) *)
Lemma written_lengths_exact p :
  packet_wire_valid p = true ->
  let hs := header_size (p_hdr p) in
  let ps := payload_size (p_pl p) hs in
  trunc 8 (hs / 4) * 4 = hs /\ trunc 8 (hs / 4) < 2 ^ r_width CommonHeader_HEADER_LEN_RNG
  /\ trunc 16 ps = ps /\ ps < 2 ^ r_width CommonHeader_PAYLOAD_LEN_RNG
  /\ match p_pl p with
     | PL_Udp _ _ d => trunc 16 (UdpDatagram_HEADER_SIZE_BYTES + blen d) = 8 + blen d /\ 8 + blen d = ps
     | _ => True
     end.
Proof.
  destruct p as [h pl]. intros V hs ps. cbn [p_hdr p_pl] in *. unfold packet_wire_valid, header_wire_valid in V. cbn [p_hdr p_pl] in V.
  repeat (apply Bool.andb_true_iff in V; let X := fresh "V" in destruct V as [V X]).
  clean_bools. subst ps hs. unfold U16_MAX, ScionHeader_MAX_SIZE_BYTES in *.
  change (2 ^ r_width CommonHeader_HEADER_LEN_RNG) with 256. change (2 ^ r_width CommonHeader_PAYLOAD_LEN_RNG) with 65536.
  unfold trunc. change (2 ^ 8) with 256. change (2 ^ 16) with 65536.
  refine (conj _ (conj _ (conj _ (conj _ _)))); try lia.
  destruct pl as [b|sp dp d|m]; try exact I.
  cbn [payload_size] in *. unfold UdpDatagram_HEADER_SIZE_BYTES in *. lia.
Qed.
