(** C03 -- wire codec lossless, matches the SCION format, never truncates silently:
    property theorems only. *)
From Sci Require Import Wire.Codec Wire.Spec_C03 Wire.Proofs_C03 Wire.BitFieldProofs Wire.ChecksumProofs Wire.RoundTripProofs Wire.ChecksumVerify Wire.LengthProofs Wire.SpecAgreeProofs Wire.EncodeLengthProofs Wire.AddrRoundTrip Wire.HeaderRoundTrip Wire.PacketRoundTrip Wire.StdPathRoundTrip Wire.PacketRoundTripStd Wire.ScmpRoundTrip Wire.PacketRoundTripAll Wire.SpecDecodeAgree Wire.EncodeOk Wire.CanonicalLayers Wire.CanonicalPacket.
Local Open Scope N_scope.

(** A model that cannot be represented on the wire is rejected: whenever the encoder's gate
    [wire_valid] accepts a (Rust-typed) packet model, every numeric field fits its wire width
    (flow id 20 bits, CurrINF 2 / CurrHF 6 bits, segment lengths 6 bits, L4 length 16 bits) and
    every tagged value reads back as the same tag (unknown host address types with id < 4 that
    do not alias IPv4 / IPv6 / service, unsupported path types that are not 0 / 1 / 2). *)
Theorem unrepresentable_rejected :
  forall p : packet, model_wf p = true -> packet_wire_valid p = true -> representable p = true.
Proof. exact wire_valid_representable. Qed.
Print Assumptions unrepresentable_rejected.

(** The numbers handed to the three length-field writers are the TRUE sizes -- header size in
    4-byte units, payload size, UDP length -- as numbers: the [as u8] / [as u16] conversions
    of the encoder do not cut anything and each value fits its field.
    (The statement about the bits read back from the encoded buffer is [length_fields_truthful].) *)
Theorem written_length_values_exact :
  forall p : packet, packet_wire_valid p = true ->
    let hs := header_size (p_hdr p) in
    let ps := payload_size (p_pl p) hs in
    trunc 8 (hs / 4) * 4 = hs /\ trunc 8 (hs / 4) < 2 ^ r_width CommonHeader_HEADER_LEN_RNG
    /\ trunc 16 ps = ps /\ ps < 2 ^ r_width CommonHeader_PAYLOAD_LEN_RNG
    /\ match p_pl p with
       | PL_Udp _ _ d => trunc 16 (UdpDatagram_HEADER_SIZE_BYTES + blen d) = 8 + blen d /\ 8 + blen d = ps
       | _ => True
       end.
Proof. exact written_lengths_exact. Qed.
Print Assumptions written_length_values_exact.

(** The bit-field read of core/read.rs (copy the containing bytes right-aligned into the
    128-bit lane, shift by ceil8(end) - end, mask) IS the mathematical bit field of the
    buffer read as one big-endian number, for every byte buffer and every range inside it. *)
Theorem lane_read_spec :
  forall (b : bytes) (r : rng), bytes_ok b = true -> byte_hi r <= blen b ->
    lane_read b r = bf_get b r /\ lane_read b r < 2 ^ r_width r.
Proof.
  intros b r H1 H2. split; [exact (BitFieldProofs.lane_read_is_bf_get b r H1 H2)|].
  rewrite (BitFieldProofs.lane_read_is_bf_get b r H1 H2). apply BitFieldProofs.bf_get_lt.
Qed.
Print Assumptions lane_read_spec.

(** The read-modify-write of core/write.rs (load the containing bytes into the lane, clear
    the field with the shifted mask, or in the truncated value, store the bytes back) changes
    the big-endian value of the buffer exactly by replacing the field: all bits above ([H])
    and below ([L]) stay, the field becomes [v mod 2^width]; the result is again a byte string
    of the same length.  For every buffer, range and value. *)
Theorem lane_write_spec :
  forall (b : bytes) (r : rng) (v : N), bytes_ok b = true -> byte_hi r <= blen b ->
    let s := 8 * blen b - r_end r in
    exists H L, L < 2 ^ s
      /\ be_val 0 b = (H * 2 ^ r_width r + bf_get b r) * 2 ^ s + L
      /\ be_val 0 (lane_write b r v) = (H * 2 ^ r_width r + v mod 2 ^ r_width r) * 2 ^ s + L
      /\ bytes_ok (lane_write b r v) = true /\ blen (lane_write b r v) = blen b.
Proof. exact BitFieldProofs.lane_write_value. Qed.
Print Assumptions lane_write_spec.

(** read after write, same field: the value truncated to the field width -- a value that does
    not fit is cut, which is why the encoder's gate must check ranges (unrepresentable_rejected) *)
Theorem read_write_same :
  forall (b : bytes) (r : rng) (v : N), bytes_ok b = true -> byte_hi r <= blen b ->
    lane_read (lane_write b r v) r = v mod 2 ^ r_width r.
Proof. exact BitFieldProofs.read_write_same_lemma. Qed.
Print Assumptions read_write_same.

(** read after write, any field whose BITS do not overlap the written range (fields sharing a
    byte included: version / traffic class / flow id, CurrINF / CurrHF, the segment lengths) *)
Theorem read_write_disjoint :
  forall (b : bytes) (r : rng) (v : N) (r2 : rng),
    bytes_ok b = true -> byte_hi r <= blen b -> byte_hi r2 <= blen b -> rng_disjoint r r2 = true ->
    lane_read (lane_write b r v) r2 = lane_read b r2.
Proof. exact BitFieldProofs.read_write_disjoint_lemma. Qed.
Print Assumptions read_write_disjoint.

(** The model of ChecksumDigest -- add_u64 / add_u32 limb sums, add_slice with its handling of
    an odd start address (first byte taken as the low half of a big-endian word, byte swap of
    the folded sum), of an odd length (last byte zero padded), native little-endian 16-bit
    loads, double fold, final complement -- computes exactly the RFC 1071 checksum (literal
    definition [Spec_C03.rfc1071]) of SCION pseudo header ++ message, for BOTH memory
    alignments of the host-address scratch buffer and of the message, for every address header
    the encoder accepts and every message of at most 2^17 bytes.  The bound is stated because
    it is where the implementation's u32 accumulators could overflow: under it the digest and
    the inner sum of add_slice stay below 2^32, so the model's unbounded arithmetic coincides
    with the u32 arithmetic of the code. *)
Theorem checksum_model_is_rfc1071 :
  forall (h : pkt_hdr) (proto : N) (msg : bytes) (al_host al : bool),
    addr_ok h -> 0 < proto < 256 -> bytes_ok msg = true -> blen msg <= 131072 ->
    l4_checksum h proto msg al_host al = rfc1071 (pseudo_header h proto (blen msg) ++ msg)
    /\ pseudo_digest h proto msg al_host al < 2 ^ 32 /\ slice_sum al msg < 2 ^ 32.
Proof. exact l4_checksum_is_rfc1071. Qed.
Print Assumptions checksum_model_is_rfc1071.

(** The UDP datagram the (repaired) encoder produces carries a checksum that VERIFIES by the
    literal RFC 1071 definition over the SCION pseudo header of the packet's address header:
    for every address header the gate accepts, all ports, every payload up to the 16-bit limit,
    both memory alignments. *)
Theorem encoded_checksum_verifies :
  forall (h : pkt_hdr) (sp dp : N) (d : bytes) (hs : N) (al_host al : bool),
    addr_ok h -> bytes_ok d = true -> UdpDatagram_HEADER_SIZE_BYTES + blen d <= 65535 ->
    checksum_verifies h 17
      (encode_payload h (PL_Udp sp dp d) hs al_host al (zeros (UdpDatagram_HEADER_SIZE_BYTES + blen d))) = true.
Proof. exact udp_checksum_verifies. Qed.
Print Assumptions encoded_checksum_verifies.

(** ... and more generally: whatever message with a zero checksum field at an even byte offset
    [o] (UDP: 6, SCMP: 2) the encoder hands to [l4_checksum], writing the result into that
    field makes the message verify. *)
Theorem filled_checksum_verifies :
  forall (h : pkt_hdr) (proto : N) (m : bytes) (o : N) (al_host al : bool),
    addr_ok h -> 0 < proto < 256 -> bytes_ok m = true -> blen m <= 131072 ->
    N.even o = true -> o + 2 <= blen m -> lane_read m (csum_rng o) = 0 ->
    checksum_verifies h proto (lane_write m (csum_rng o) (l4_checksum h proto m al_host al)) = true.
Proof. exact fill_checksum_verifies. Qed.
Print Assumptions filled_checksum_verifies.

(** * decode (encode m) = m, layer by layer

    Each layer: the encoder's field writes (in its write order, into ANY well-formed buffer of
    the layer's size, zeroed or not) followed by the decoder's view accessors give back the
    model, and the buffer keeps its length.  The composed statements are [decode_encode_header] and [decode_encode] (whole packets);
    in the layer lemmas themselves what is left out is the placement of the layers inside the header
    buffer (on_suffix / on_sub offsets of address header, path meta, info and hop fields),
    the address header (ISD-AS split into two writes, host address copies) and the SCMP
    messages; these are decided by the correspondence check (model bytes = implementation
    bytes, independent reader on every encoding). *)
Theorem decode_encode_info_layer :
  forall (i : info_f) (buf : bytes), info_wf i = true -> bytes_ok buf = true -> blen buf = InfoField_SIZE_BYTES ->
    decode_info (encode_info i buf) = Ok i /\ bytes_ok (encode_info i buf) = true /\ blen (encode_info i buf) = blen buf.
Proof. exact info_roundtrip. Qed.
Print Assumptions decode_encode_info_layer.

Theorem decode_encode_hop_layer :
  forall (h : hop_f) (buf : bytes), hop_wf h = true -> bytes_ok buf = true -> blen buf = HopField_SIZE_BYTES ->
    decode_hop (encode_hop h buf) = Ok h /\ bytes_ok (encode_hop h buf) = true /\ blen (encode_hop h buf) = blen buf.
Proof. exact hop_roundtrip. Qed.
Print Assumptions decode_encode_hop_layer.

Theorem decode_encode_common_header_layer :
  forall (h : pkt_hdr) (units psize : N) (buf : bytes),
    bytes_ok buf = true -> CommonHeader_SIZE_BYTES <= blen buf ->
    h_tc h < 256 -> h_flow h < 2 ^ 20 -> h_nh h < 256 -> units < 256 -> psize < 65536 ->
    path_type_num (h_path h) < 256 -> host_nibble (h_dst_host h) < 16 -> host_nibble (h_src_host h) < 16 ->
    let b' := encode_common h units psize buf in
    bytes_ok b' = true /\ blen b' = blen buf
    /\ hv_version b' = Ok 0 /\ hv_traffic_class b' = Ok (h_tc h) /\ hv_flow_id b' = Ok (h_flow h)
    /\ hv_next_header b' = Ok (h_nh h) /\ hv_header_len b' = Ok (units * 4) /\ hv_payload_len b' = Ok psize
    /\ hv_path_type b' = Ok (path_type_num (h_path h))
    /\ hv_dst_addr_type b' = Ok (host_nibble (h_dst_host h)) /\ hv_src_addr_type b' = Ok (host_nibble (h_src_host h))
    /\ rd b' CommonHeader_RSV_RNG 16 = Ok 0
    /\ (forall r2, byte_hi r2 <= blen buf -> CommonHeader_SIZE_BYTES * 8 <= r_start r2 -> lane_read b' r2 = lane_read buf r2).
Proof. exact common_header_roundtrip_lemma. Qed.
Print Assumptions decode_encode_common_header_layer.

Theorem decode_encode_path_meta_layer :
  forall (ci ch s0 s1 s2 : N) (buf : bytes),
    bytes_ok buf = true -> StdPathMeta_SIZE_BYTES <= blen buf -> ci < 4 -> ch < 64 -> s0 < 64 -> s1 < 64 -> s2 < 64 ->
    let b' := apply_writes (meta_writes ci ch s0 s1 s2) buf in
    bytes_ok b' = true /\ blen b' = blen buf
    /\ sp_curr_info b' = Ok ci /\ sp_curr_hop b' = Ok ch /\ sp_segs b' = Ok (s0, s1, s2)
    /\ rd b' StdPathMeta_RSV_RNG 8 = Ok 0
    /\ (forall r2, byte_hi r2 <= blen buf -> StdPathMeta_SIZE_BYTES * 8 <= r_start r2 -> lane_read b' r2 = lane_read buf r2).
Proof. exact path_meta_roundtrip_lemma. Qed.
Print Assumptions decode_encode_path_meta_layer.

(** UDP: the whole L4 layer -- the encoded datagram is accepted by the datagram view with the
    size it has, its Length field is the TRUE length as a number, and it decodes to the model *)
Theorem decode_encode_udp_layer :
  forall (h : pkt_hdr) (sp dp : N) (d : bytes) (hs : N) (al_host al : bool) (buf : bytes),
    bytes_ok buf = true -> bytes_ok d = true -> blen buf = UdpDatagram_HEADER_SIZE_BYTES + blen d ->
    sp < 65536 -> dp < 65536 -> UdpDatagram_HEADER_SIZE_BYTES + blen d <= 65535 ->
    let b' := encode_payload h (PL_Udp sp dp d) hs al_host al buf in
    blen b' = blen buf /\ bytes_ok b' = true
    /\ required_size_udp b' = Ok (blen b')
    /\ udp_length b' = Ok (UdpDatagram_HEADER_SIZE_BYTES + blen d)
    /\ decode_udp b' = Ok (PL_Udp sp dp d).
Proof. exact udp_roundtrip_lemma. Qed.
Print Assumptions decode_encode_udp_layer.

(** The length fields READ BACK from the bytes of an encoded packet are truthful, as numbers:
    HdrLen * 4 is the header size, PayloadLen is the number of payload bytes, and for UDP the
    Length field equals PayloadLen = 8 + data length.  [encode_packet p] is exactly
    [hb ++ encode_payload ...] for the two buffers below.  For every accepted model; a value
    written through [mod 2^16] would make this fail (it did for payloads above 65527 bytes
    before the repair, Findings_C03.big_udp_length_would_wrap). *)
Theorem length_fields_truthful :
  forall (p : packet) (al_host al : bool), model_wf p = true -> packet_wire_valid p = true ->
    let h := p_hdr p in
    let hs := header_size h in
    let ps := payload_size (p_pl p) hs in
    let hb := encode_header h (trunc 16 ps) (zeros hs) in
    encode_packet_al p al_host al = hb ++ encode_payload h (p_pl p) hs al_host al (zeros ps)
    /\ hv_header_len hb = Ok hs /\ hv_payload_len hb = Ok ps
    /\ match p_pl p with
       | PL_Udp sp dp d => udp_length (encode_payload h (PL_Udp sp dp d) hs al_host al (zeros ps)) = Ok ps
       | _ => True
       end.
Proof.
  intros p alh al W V h hs ps hb.
  destruct (encoded_header_lengths p W V) as (E1 & E2 & _). fold h hs ps hb in E1, E2.
  refine (conj eq_refl (conj E1 (conj E2 _))).
  destruct (p_pl p) as [b|sp dp d|m] eqn:Epl; try exact I.
  destruct (written_lengths_exact p V) as (_ & _ & _ & _ & Hu). rewrite Epl in Hu. destruct Hu as [_ Hps].
  fold h hs in Hps. cbn [payload_size] in ps.
  unfold model_wf in W. apply Bool.andb_true_iff in W. destruct W as [_ W]. rewrite Epl in W. cbn [payload_wf] in W.
  apply Bool.andb_true_iff in W. destruct W as [W Wd]. apply Bool.andb_true_iff in W. destruct W as [Wsp Wdp].
  apply N.ltb_lt in Wsp. apply N.ltb_lt in Wdp.
  unfold packet_wire_valid in V. apply Bool.andb_true_iff in V. destruct V as [V Vsz].
  apply Bool.andb_true_iff in V. destruct V as [_ Vp]. rewrite Epl in Vp. cbn [payload_wire_valid] in Vp.
  apply Bool.negb_true_iff in Vp. apply N.ltb_ge in Vp. unfold U16_MAX in Vp.
  destruct (ChecksumVerify.zeros_ok ps) as [Zok Zlen].
  destruct (udp_roundtrip_lemma h sp dp d hs alh al (zeros ps) Zok Wd Zlen Wsp Wdp Vp) as (_ & _ & _ & Rl & _).
  exact Rl.
Qed.
Print Assumptions length_fields_truthful.

(** The independent STRICT reader of [Spec_C03] (literal byte offsets from the SCION header
    specification, div / mod; imports no generated table) and the model of the implementation's
    decoder agree on WHOLE PACKETS, for EVERY byte string and every packet kind (raw / UDP /
    SCMP, all ten SCMP kinds), every address kind and every path kind (empty / one-hop /
    standard / unsupported):
    (1) whatever bytes the strict reader accepts, the decoder accepts as well, consumes all of
        them and returns the SAME model -- header layout recomputed from the bytes, address
        header, hosts, path with its info / hop field loops and segment split, payload, L4 header;
    (2) hence on bytes that both accept, the two models are equal and the decoder leaves no rest;
    (3) field by field on every byte string: the right-hand sides are literally the expressions of
        [Spec_C03], the left-hand sides the view accessors driven by the generated bit-range tables.
    A change of a bit range, an offset or a size in the Rust tables breaks this proof. *)
Theorem spec_decode_agrees :
  (forall (kind : N) (b : bytes) (m : packet),
     bytes_ok b = true -> spec_decode kind b = Some m -> decode_packet kind b = Ok (m, []))
  /\ (forall (kind : N) (b : bytes) (m m' : packet) (rest : bytes),
        bytes_ok b = true -> decode_packet kind b = Ok (m, rest) -> spec_decode kind b = Some m' -> m' = m /\ rest = [])
  /\ ((forall b, bytes_ok b = true -> CommonHeader_SIZE_BYTES <= blen b ->
     let b0 := be b 0 1 in let b1 := be b 1 1 in
     hv_version b = Ok (b0 / 16) /\ hv_traffic_class b = Ok ((b0 mod 16) * 16 + b1 / 16)
     /\ hv_flow_id b = Ok ((b1 mod 16) * 65536 + be b 2 2) /\ hv_next_header b = Ok (be b 4 1)
     /\ hv_header_len b = Ok (be b 5 1 * 4) /\ hv_payload_len b = Ok (be b 6 2) /\ hv_path_type b = Ok (be b 8 1)
     /\ hv_dst_addr_type b = Ok (be b 9 1 / 16) /\ hv_src_addr_type b = Ok (be b 9 1 mod 16)
     /\ rd b CommonHeader_RSV_RNG 16 = Ok (be b 10 2))
  /\ (forall p, bytes_ok p = true -> StdPathMeta_SIZE_BYTES <= blen p ->
     let m := be p 0 4 in
     sp_curr_info p = Ok (m / 2 ^ 30) /\ sp_curr_hop p = Ok ((m / 2 ^ 24) mod 64)
     /\ rd p StdPathMeta_RSV_RNG 8 = Ok ((m / 2 ^ 18) mod 64)
     /\ sp_seg0 p = Ok ((m / 2 ^ 12) mod 64) /\ sp_seg1 p = Ok ((m / 2 ^ 6) mod 64) /\ sp_seg2 p = Ok (m mod 64))
  /\ (forall v, bytes_ok v = true -> InfoField_SIZE_BYTES <= blen v ->
     if_flags v = Ok (be v 0 1) /\ if_segment_id v = Ok (be v 2 2) /\ if_timestamp v = Ok (be v 4 4)
     /\ rd v InfoField_RSV_RNG 8 = Ok (be v 1 1))
  /\ (forall v, bytes_ok v = true -> HopField_SIZE_BYTES <= blen v ->
     hf_flags v = Ok (be v 0 1) /\ hf_exp_time v = Ok (be v 1 1) /\ hf_cons_ingress v = Ok (be v 2 2)
     /\ hf_cons_egress v = Ok (be v 4 2) /\ hf_mac v = Ok (sl v 6 6))
  /\ (forall v, bytes_ok v = true -> UdpDatagram_HEADER_SIZE_BYTES <= blen v ->
     udp_src_port v = Ok (be v 0 2) /\ udp_dst_port v = Ok (be v 2 2) /\ udp_length v = Ok (be v 4 2) /\ udp_checksum v = Ok (be v 6 2))).
Proof.
  refine (conj spec_decode_dec (conj _ (conj spec_common_agrees (conj spec_meta_agrees (conj spec_info_agrees (conj spec_hop_agrees spec_udp_agrees)))))).
  intros kind b m m' rest Hok Hd Hs. rewrite (spec_decode_dec kind b m' Hok Hs) in Hd. inversion Hd. split; reflexivity.
Qed.
Print Assumptions spec_decode_agrees.

(** The strict reader applied to the ENCODER's output can only read back the encoded model: for
    every accepted Rust-typed packet model (every address, path and payload kind), every element of
    the encoder's output is a byte, and if [spec_decode] accepts that output then the model it
    returns is exactly the encoded one ([canon] = identity except the documented cut of an SCMP
    error quote).  Composition of [decode_encode] with [spec_decode_agrees] over the whole packet.
    PARTIAL with respect to [spec_decode kind (encode m) = Some (canon m)]: the missing step is that
    the strict reader ACCEPTS the encoder's output, i.e. that the fields the decoder does not look
    at read back as the strict reader demands -- common-header / path-meta / info-field reserved
    bits and SCMP reserved fields zero, service-address padding zero, next-header number matching
    the payload kind.  That step is evaluated on the implementation's bytes by the check (oracle
    [o_spec] of Cases_C03 on every encoder case, incl. the kind x path matrix). *)
Theorem spec_decode_encode_partial :
  forall (p : packet) (al_host al : bool),
    model_wf p = true -> packet_wire_valid p = true ->
    let kind := match p_pl p with PL_Raw _ => 0 | PL_Udp _ _ _ => 1 | PL_Scmp _ => 2 end in
    let b := encode_packet_al p al_host al in
    bytes_ok b = true
    /\ forall m', spec_decode kind b = Some m' -> m' = canon p (header_size (p_hdr p)).
Proof.
  intros p alh al W V kind b.
  pose proof (encode_packet_ok p alh al W V) as Hok. fold b in Hok. split; [exact Hok|].
  intros m' Hs.
  pose proof (spec_decode_dec kind b m' Hok Hs) as D.
  pose proof (packet_roundtrip_full p alh al W V) as R. cbv zeta in R. fold kind b in R.
  rewrite R in D. inversion D. reflexivity.
Qed.
Print Assumptions spec_decode_encode_partial.

(** Every packet model the encoder accepts -- every address kind, empty / one-hop / standard
    (1..3 segments, 1..63 hops each) / unsupported path, raw / UDP / all ten SCMP payload
    kinds -- encodes to EXACTLY the announced number of bytes ([required_size]); for both
    memory alignments of the checksummed data. *)
Theorem encode_length :
  forall (p : packet) (al_host al : bool), model_wf p = true -> packet_wire_valid p = true ->
    blen (encode_packet_al p al_host al) = packet_size p.
Proof. intros p alh al. exact (encode_packet_blen_all p alh al). Qed.
Print Assumptions encode_length.

(** The SCMP message (any of the ten kinds) produced by the repaired encoder carries a checksum
    that verifies by RFC 1071 over the SCION pseudo header. *)
Theorem encoded_scmp_checksum_verifies :
  forall (h : pkt_hdr) (m : scmp_msg) (hs : N) (al_host al : bool),
    addr_ok h -> scmp_wf m = true -> payload_wire_valid (PL_Scmp m) = true -> scmp_size m hs <= 65535 ->
    checksum_verifies h 202 (encode_payload h (PL_Scmp m) hs al_host al (zeros (scmp_size m hs))) = true.
Proof. exact scmp_checksum_verifies. Qed.
Print Assumptions encoded_scmp_checksum_verifies.

(** Address header layer of the round trip: the two ISD-AS numbers (written as ISD 16 bits + AS
    48 bits, read back as one 64-bit field) and the two host addresses (copied at offsets 16 and
    16 + dst length, decoded by the type/length nibble the common header carries) come back as
    the model's values -- every accepted address kind: IPv4, IPv6, service, unknown types with
    4/8/12/16 bytes. *)
Theorem decode_encode_address_header_layer :
  forall (h : pkt_hdr) (buf : bytes),
    h_dst_ia h < 2 ^ 64 -> h_src_ia h < 2 ^ 64 ->
    host_wf (h_dst_host h) = true -> host_wf (h_src_host h) = true ->
    host_wire_valid (h_dst_host h) = true -> host_wire_valid (h_src_host h) = true ->
    bytes_ok buf = true -> addr_size h <= blen buf ->
    let b' := encode_addr h buf in
    let dl := host_size (h_dst_host h) in let sl := host_size (h_src_host h) in
    blen b' = blen buf
    /\ rd b' AddressHeader_DST_IA_RNG 64 = Ok (h_dst_ia h) /\ rd b' AddressHeader_SRC_IA_RNG 64 = Ok (h_src_ia h)
    /\ host_addr_decode (host_nibble (h_dst_host h)) (sub b' 16 (16 + dl)) = Some (h_dst_host h)
    /\ host_addr_decode (host_nibble (h_src_host h)) (sub b' (16 + dl) (16 + dl + sl)) = Some (h_src_host h).
Proof. exact address_header_roundtrip_lemma. Qed.
Print Assumptions decode_encode_address_header_layer.

(** Composition, header: the whole SCION header written by [encode_header] -- common header,
    address header (every accepted address kind), path (standard with 1..3 segments and every
    accepted hop count, one-hop, empty, unsupported types) -- decodes back to the model. *)
Theorem decode_encode_header :
  forall (h : pkt_hdr) (psize : N),
    header_wf h = true -> header_wire_valid h = true -> psize < 65536 ->
    decode_header (encode_header h psize (zeros (header_size h))) = Ok h.
Proof. exact header_roundtrip_all. Qed.
Print Assumptions decode_encode_header.

(** THE ROUND TRIP of the property: for EVERY packet model the encoder accepts (Rust-typed
    fields; every address kind; standard / one-hop / empty / unsupported path; raw, UDP and all
    ten SCMP payload kinds; both memory alignments of the checksummed data) the decoder applied
    to the encoder's bytes returns the model and no trailing bytes: constructor (header layout
    recomputed from the bytes, sizes), header, path loops, payload, L4 header with its length
    and checksum fields.  [canon] is the identity except that an SCMP error's quote is cut to
    the 1232-byte budget (documented behaviour). *)
Theorem decode_encode :
  forall (p : packet) (al_host al : bool),
    model_wf p = true -> packet_wire_valid p = true ->
    let kind := match p_pl p with PL_Raw _ => 0 | PL_Udp _ _ _ => 1 | PL_Scmp _ => 2 end in
    decode_packet kind (encode_packet_al p al_host al) = Ok (canon p (header_size (p_hdr p)), []).
Proof. exact packet_roundtrip_full. Qed.
Print Assumptions decode_encode.

(** CANONICAL BYTES RE-ENCODE TO THEMSELVES, layer by layer ("encode (decode b) = b"): for every
    byte string [v] of the layer's size that is canonical -- the reserved bits the decoder does not
    look at are zero, version 0 -- decoding [v] and encoding the decoded fields into ANY buffer of
    that size (dirty or zeroed) returns exactly [v]:
    (1) info field (8 bytes; canonical = reserved byte zero), (2) hop field (12 bytes; every byte
    is a field), (3) the whole ONE-HOP PATH (32 bytes = info field + two hop fields),
    (4) the standard path meta header (CurrINF / CurrHF / RSV / three segment lengths: bit fields;
    canonical = RSV zero), (5) the common header (12 bytes: version, traffic class, flow id, next
    header, HdrLen, PayloadLen, path type, the two address nibbles, RSV; canonical = version 0 and
    RSV zero; the fields are given as the values the accessors read from [v]), (6) the UDP
    datagram (ports, Length, Checksum, data; canonical = Length is the datagram's length and the
    checksum field is the checksum the encoder computes over the datagram with a zeroed field),
    (7) a raw payload, (8) the data of an unsupported path and the empty path, (9) the address
    header (two ISD-AS numbers, each written as ISD + AS, and the two host addresses), (10) a
    decoded host address re-encodes to the bytes it was read from (canonical = a service address's
    padding is zero), (11) the WHOLE STANDARD PATH -- meta header, info field array and hop field
    array through the encoder's loops -- given that the model's segments are, element by element,
    what the field decoders read from [V] (canonical = meta RSV and every info field's reserved
    byte zero, length exact), and (12) the COMPOSITION along the packet layout: if the common header,
    the address header, the path and the payload of a model each re-encode (into any buffer of their
    size) to the corresponding slice of a byte string, the encoder's output for the whole packet IS
    that byte string (the layers write disjoint regions of the zeroed buffer in order).
    These are the layers from which [encode_decode_canonical_partial] below is composed; the SCMP
    message layer is not among them. *)
Theorem encode_decode_canonical_layers :
  (forall (v : bytes) (i : info_f) (buf : bytes),
     bytes_ok v = true -> blen v = 8 -> be v 1 1 = 0 -> decode_info v = Ok i -> blen buf = 8 -> encode_info i buf = v)
  /\ (forall (v : bytes) (h : hop_f) (buf : bytes),
        bytes_ok v = true -> blen v = 12 -> decode_hop v = Ok h -> blen buf = 12 -> encode_hop h buf = v)
  /\ (forall (v : bytes) (p : dp_path) (buf : bytes),
        bytes_ok v = true -> blen v = 32 -> be v 1 1 = 0 -> decode_onehop v = Ok p -> blen buf = 32 -> encode_path p buf = v)
  /\ (forall (v buf : bytes),
        bytes_ok v = true -> blen v = 4 -> bytes_ok buf = true -> blen buf = 4 ->
        let m := be v 0 4 in (m / 2 ^ 18) mod 64 = 0 ->
        apply_writes (meta_writes (m / 2 ^ 30) ((m / 2 ^ 24) mod 64) ((m / 2 ^ 12) mod 64) ((m / 2 ^ 6) mod 64) (m mod 64)) buf = v)
  /\ (forall (v buf : bytes) (h : pkt_hdr) (units psize : N),
        bytes_ok v = true -> blen v = 12 -> bytes_ok buf = true -> blen buf = 12 ->
        h_tc h < 256 -> h_flow h < 2 ^ 20 -> h_nh h < 256 -> units < 256 -> psize < 65536 ->
        path_type_num (h_path h) < 256 -> host_nibble (h_dst_host h) < 16 -> host_nibble (h_src_host h) < 16 ->
        hv_version v = Ok 0 -> rd v CommonHeader_RSV_RNG 16 = Ok 0 ->
        hv_traffic_class v = Ok (h_tc h) -> hv_flow_id v = Ok (h_flow h) -> hv_next_header v = Ok (h_nh h) ->
        hv_header_len v = Ok (units * 4) -> hv_payload_len v = Ok psize -> hv_path_type v = Ok (path_type_num (h_path h)) ->
        hv_dst_addr_type v = Ok (host_nibble (h_dst_host h)) -> hv_src_addr_type v = Ok (host_nibble (h_src_host h)) ->
        encode_common h units psize buf = v)
  /\ (forall (h : pkt_hdr) (v buf : bytes) (sp dp : N) (d : bytes) (hs : N) (al_host al : bool),
        bytes_ok v = true -> 8 <= blen v -> blen v <= 65535 -> be v 4 2 = blen v ->
        decode_udp v = Ok (PL_Udp sp dp d) -> blen buf = blen v ->
        be v 6 2 = l4_checksum h PROTO_UDP (put 6 [0; 0] v) al_host al ->
        encode_payload h (PL_Udp sp dp d) hs al_host al buf = v)
  /\ (forall (h : pkt_hdr) (v buf : bytes) (hs : N) (al_host al : bool),
        blen buf = blen v -> encode_payload h (PL_Raw v) hs al_host al buf = v)
  /\ (forall (v buf : bytes) (pt : N), blen buf = blen v ->
        encode_path (DP_Unsupported pt v) buf = v /\ (blen v = 0 -> encode_path DP_Empty buf = v))
  /\ (forall (v buf : bytes) (h : pkt_hdr),
        bytes_ok v = true ->
        let dl := host_size (h_dst_host h) in let sl_ := host_size (h_src_host h) in
        dl <= 16 -> sl_ <= 16 -> blen v = 16 + dl + sl_ -> blen buf = blen v ->
        h_dst_ia h = be v 0 8 -> h_src_ia h = be v 8 8 ->
        host_bytes (h_dst_host h) = sl v 16 dl -> host_bytes (h_src_host h) = sl v (16 + dl) sl_ ->
        encode_addr h buf = v)
  /\ (forall (nib : N) (raw : bytes) (x : host_addr),
        bytes_ok raw = true -> host_addr_decode nib raw = Some x ->
        (forall s, x = HA_Svc s -> sl raw 2 2 = [0; 0]) -> host_bytes x = raw)
  /\ (forall (V buf : bytes) (ci ch : N) (segs : list segment),
        bytes_ok V = true -> bytes_ok buf = true -> blen buf = blen V ->
        let m := be V 0 4 in
        let s0 := seg_len8 segs 0 in let s1 := seg_len8 segs 1 in let s2 := seg_len8 segs 2 in
        let ni := info_field_count s0 s1 s2 in let nh := hop_field_count s0 s1 s2 in
        blen V = 4 + ni * 8 + nh * 12 ->
        (m / 2 ^ 18) mod 64 = 0 -> ci = m / 2 ^ 30 -> ch = (m / 2 ^ 24) mod 64 ->
        s0 = (m / 2 ^ 12) mod 64 -> s1 = (m / 2 ^ 6) mod 64 -> s2 = m mod 64 ->
        N.of_nat (length (map s_info segs)) = ni -> N.of_nat (length (std_hops segs)) = nh ->
        (forall k x, nth_error (map s_info segs) k = Some x ->
           decode_info (sub V (4 + N.of_nat k * 8) (4 + N.of_nat k * 8 + 8)) = Ok x /\ be V (4 + N.of_nat k * 8 + 1) 1 = 0) ->
        (forall k x, nth_error (std_hops segs) k = Some x ->
           decode_hop (sub V (4 + ni * 8 + N.of_nat k * 12) (4 + ni * 8 + N.of_nat k * 12 + 12)) = Ok x) ->
        encode_path (DP_Std ci ch segs) buf = V)
  /\ (forall (p : packet) (al_host al : bool) (cv av xv pv : bytes),
        let h := p_hdr p in let hs := header_size h in let ps := payload_size (p_pl p) hs in
        addr_size h = 16 + host_size (h_dst_host h) + host_size (h_src_host h) -> host_size (h_dst_host h) <= 16 ->
        blen (host_bytes (h_dst_host h)) = host_size (h_dst_host h) -> blen (host_bytes (h_src_host h)) = host_size (h_src_host h) ->
        blen cv = 12 -> blen av = addr_size h -> blen xv = path_size (h_path h) -> blen pv = ps ->
        (forall B, bytes_ok B = true -> blen B = 12 -> encode_common h (trunc 8 (hs / 4)) (trunc 16 ps) B = cv) ->
        (forall B, bytes_ok B = true -> blen B = blen av -> encode_addr h B = av) ->
        (forall B, bytes_ok B = true -> blen B = blen xv -> encode_path (h_path h) B = xv) ->
        (forall B, bytes_ok B = true -> blen B = blen pv -> encode_payload h (p_pl p) hs al_host al B = pv) ->
        encode_packet_al p al_host al = cv ++ av ++ xv ++ pv).
Proof.
  refine (conj encode_decode_info (conj encode_decode_hop (conj encode_decode_onehop (conj encode_decode_meta
        (conj encode_decode_common (conj encode_decode_udp (conj encode_decode_raw_payload (conj encode_decode_plain_paths
        (conj encode_decode_addr (conj host_bytes_of_decoded (conj encode_decode_stdpath compose_packet))))))))))).
Qed.
Print Assumptions encode_decode_canonical_layers.

(** CANONICAL BYTES RE-ENCODE TO THEMSELVES, whole packets: for every byte string [b] of packet
    kind 0 (raw) or 1 (UDP) -- every address kind, EVERY path kind (empty, one-hop, standard with
    1..3 segments, unsupported) -- if the decoder accepts [b] as model [m] and [b] is canonical,
    then the decoder left no rest and the encoder's output for [m] (into a zeroed buffer, i.e.
    [encode_unchecked]) is exactly [b]; and whenever the encoder's gate accepts [m], [try_encode m]
    returns [b].
    [canonical_bytes k b] = the precondition that makes the statement true: [b] is accepted by the
    strict reader [spec_decode k] (consistent HdrLen / PayloadLen / UDP Length, no trailing bytes,
    version 0, all reserved bits and the service-address padding zero, segment lengths a non-zero
    prefix), and for UDP the checksum field is the checksum the encoder computes over the datagram
    with a zeroed field (a verifying checksum has two representations of zero).
    The two open classes: (a) C03-decoder-accepts-unencodable-path-index -- the bytes still re-encode
    to themselves through [encode_packet_al], but the gate [packet_wire_valid m] refuses such a model,
    which is why the [try_encode] conclusion carries the gate as a hypothesis; (b)
    C03-noncanonical-enum-tag does not arise in this direction (the decoder never produces a
    catch-all variant for a known number).
    PARTIAL: packet kind 2 (SCMP) is not covered -- the SCMP message layer (type-specific header,
    reserved fields, quote budget) has no re-encoding lemma yet; SCMP packets are covered by the
    decoder stream of the check (every canonical byte string must re-encode to itself). *)
Theorem encode_decode_canonical_partial :
  forall (kind : N) (b : bytes) (m : packet) (rest : bytes) (al_host al : bool),
    bytes_ok b = true -> decode_packet kind b = Ok (m, rest) -> canonical_bytes kind b al_host al ->
    rest = [] /\ encode_packet_al m al_host al = b
    /\ (packet_wire_valid m = true -> al_host = true -> al = true -> try_encode m = Some b).
Proof. exact decode_canonical_reencode. Qed.
Print Assumptions encode_decode_canonical_partial.

(** non-vacuity: a UDP packet over a two-segment standard path between an IPv4 and a service address *)
Example decode_encode_example :
  let hop := mkHF 1 63 2 5 [1; 2; 3; 4; 5; 6] in
  let p := mkP (mkH 184 703710 17 281105609588992 844424930131969 (HA_V4 [10; 0; 0; 1]) (HA_Svc 2)
                    (DP_Std 1 2 [mkSeg (mkIF 1 77 1700000000) [hop; hop]; mkSeg (mkIF 0 78 1700000001) [hop]]))
               (PL_Udp 30041 53 [1; 2; 3; 4; 5]) in
  model_wf p = true /\ packet_wire_valid p = true /\ decode_packet 1 (encode_packet p) = Ok (p, [])
  /\ spec_decode 1 (encode_packet p) = Some p /\ spec_checksum_ok 1 (encode_packet p) = true.
Proof. vm_compute. repeat split; reflexivity. Qed.

(** non-vacuity of [encode_decode_canonical_partial]: the encoder's output for the packet above is
    canonical (accepted by the strict reader, computed checksum), so the theorem applies to it *)
Example encode_decode_canonical_example :
  let hop := mkHF 1 63 2 5 [1; 2; 3; 4; 5; 6] in
  let p := mkP (mkH 184 703710 17 281105609588992 844424930131969 (HA_V4 [10; 0; 0; 1]) (HA_Svc 2)
                    (DP_Std 1 2 [mkSeg (mkIF 1 77 1700000000) [hop; hop]; mkSeg (mkIF 0 78 1700000001) [hop]]))
               (PL_Udp 30041 53 [1; 2; 3; 4; 5]) in
  let b := encode_packet p in
  bytes_ok b = true /\ canonical_bytes 1 b true true /\ try_encode p = Some b.
Proof.
  cbv zeta. split; [vm_compute; reflexivity|]. split; [|vm_compute; reflexivity].
  split; [eexists; vm_compute; reflexivity|]. right. split; [reflexivity|].
  intros h hl pl Hh. vm_compute in Hh. inversion Hh; subst h hl pl. vm_compute. reflexivity.
Qed.
