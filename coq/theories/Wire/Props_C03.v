(** C03 -- wire codec lossless, matches the SCION format, never truncates silently:
    property theorems only. *)
From Sci Require Import Wire.Codec Wire.Spec_C03 Wire.Proofs_C03 Wire.BitFieldProofs Wire.ChecksumProofs.
Local Open Scope N_scope.

(** A model that cannot be represented on the wire is rejected: whenever the encoder's gate
    [wire_valid] accepts a (Rust-typed) packet model, every numeric field fits its wire width
    (flow id 20 bits, CurrINF 2 / CurrHF 6 bits, segment lengths 6 bits, L4 length 16 bits) and
    every tagged value reads back as the same tag (unknown host address types with id < 4 that
    do not alias IPv4 / IPv6 / service, unsupported path types that are not 0 / 1 / 2). *)
Theorem unrepresentable_rejected :
  forall p : packet, model_wf p = true -> packet_wire_valid p = true -> representable p = true.
Proof. exact wire_valid_representable. Qed.
Print Assumptions unrepresentable_rejected.

(** The numbers handed to the three length-field writers are the TRUE sizes -- header size in
    4-byte units, payload size, UDP length -- as numbers: the [as u8] / [as u16] conversions
    of the encoder do not cut anything and each value fits its field.
    PARTIAL: the statement is about the values written; that the bits read back from the
    encoded buffer are these values needs [lane_write_spec] (Wire.BitFieldProofs), covered by
    the correspondence check (strict independent reader [spec_decode] on every encoding). *)
Theorem length_fields_truthful_partial :
  forall p : packet, packet_wire_valid p = true ->
    let hs := header_size (p_hdr p) in
    let ps := payload_size (p_pl p) hs in
    trunc 8 (hs / 4) * 4 = hs /\ trunc 8 (hs / 4) < 2 ^ r_width CommonHeader_HEADER_LEN_RNG
    /\ trunc 16 ps = ps /\ ps < 2 ^ r_width CommonHeader_PAYLOAD_LEN_RNG
    /\ match p_pl p with
       | PL_Udp _ _ d => trunc 16 (UdpDatagram_HEADER_SIZE_BYTES + blen d) = 8 + blen d /\ 8 + blen d = ps
       | _ => True
       end.
Proof. exact written_lengths_exact. Qed.
Print Assumptions length_fields_truthful_partial.

(** The bit-field read of core/read.rs (copy the containing bytes right-aligned into the
    128-bit lane, shift by ceil8(end) - end, mask) IS the mathematical bit field of the
    buffer read as one big-endian number, for every byte buffer and every range inside it. *)
Theorem lane_read_spec :
  forall (b : bytes) (r : rng), bytes_ok b = true -> byte_hi r <= blen b ->
    lane_read b r = bf_get b r /\ lane_read b r < 2 ^ r_width r.
Proof.
  intros b r H1 H2. split; [exact (BitFieldProofs.lane_read_is_bf_get b r H1 H2)|].
  rewrite (BitFieldProofs.lane_read_is_bf_get b r H1 H2). apply BitFieldProofs.bf_get_lt.
Qed.
Print Assumptions lane_read_spec.

(** A field write leaves every field whose bytes do not overlap the written byte range as it
    was.  PARTIAL with respect to read_write_disjoint (fields sharing a byte, e.g. version /
    traffic class or the three segment lengths, need the bit-level lemma) and
    read_write_same: both are exercised on every encoding by the independent reader. *)
Theorem read_write_disjoint_bytes_partial :
  forall (b : bytes) (r r2 : rng) (v : N),
    byte_hi r <= blen b ->
    byte_hi r2 <= byte_lo r \/ byte_hi r <= byte_lo r2 ->
    lane_read (lane_write b r v) r2 = lane_read b r2.
Proof. intros b r r2 v. exact (BitFieldProofs.read_after_write_other_bytes b r v r2). Qed.
Print Assumptions read_write_disjoint_bytes_partial.

(** The model of ChecksumDigest -- add_u64 / add_u32 limb sums, add_slice with its handling of
    an odd start address (first byte taken as the low half of a big-endian word, byte swap of
    the folded sum), of an odd length (last byte zero padded), native little-endian 16-bit
    loads, double fold, final complement -- computes exactly the RFC 1071 checksum (literal
    definition [Spec_C03.rfc1071]) of SCION pseudo header ++ message, for BOTH memory
    alignments of the host-address scratch buffer and of the message, for every address header
    the encoder accepts and every message of at most 2^17 bytes.  The bound is stated because
    it is where the implementation's u32 accumulators could overflow: under it the digest and
    the inner sum of add_slice stay below 2^32, so the model's unbounded arithmetic coincides
    with the u32 arithmetic of the code. *)
Theorem checksum_model_is_rfc1071 :
  forall (h : pkt_hdr) (proto : N) (msg : bytes) (al_host al : bool),
    addr_ok h -> 0 < proto < 256 -> bytes_ok msg = true -> blen msg <= 131072 ->
    l4_checksum h proto msg al_host al = rfc1071 (pseudo_header h proto (blen msg) ++ msg)
    /\ pseudo_digest h proto msg al_host al < 2 ^ 32 /\ slice_sum al msg < 2 ^ 32.
Proof. exact l4_checksum_is_rfc1071. Qed.
Print Assumptions checksum_model_is_rfc1071.
