(** C03 -- wire codec lossless, matches the SCION format, never truncates silently:
    property theorems only. *)
From Sci Require Import Wire.Codec Wire.Spec_C03 Wire.Proofs_C03.
Local Open Scope N_scope.

(** A model that cannot be represented on the wire is rejected: whenever the encoder's gate
    [wire_valid] accepts a (Rust-typed) packet model, every numeric field fits its wire width
    (flow id 20 bits, CurrINF 2 / CurrHF 6 bits, segment lengths 6 bits, L4 length 16 bits) and
    every tagged value reads back as the same tag (unknown host address types with id < 4 that
    do not alias IPv4 / IPv6 / service, unsupported path types that are not 0 / 1 / 2). *)
Theorem unrepresentable_rejected :
  forall p : packet, model_wf p = true -> packet_wire_valid p = true -> representable p = true.
Proof. exact wire_valid_representable. Qed.
Print Assumptions unrepresentable_rejected.

(** The numbers handed to the three length-field writers are the TRUE sizes -- header size in
    4-byte units, payload size, UDP length -- as numbers: the [as u8] / [as u16] conversions
    of the encoder do not cut anything and each value fits its field.
    PARTIAL: the statement is about the values written; that the bits read back from the
    encoded buffer are these values needs [lane_write_spec] (Wire.BitFieldProofs), covered by
    the correspondence check (strict independent reader [spec_decode] on every encoding). *)
Theorem length_fields_truthful_partial :
  forall p : packet, packet_wire_valid p = true ->
    let hs := header_size (p_hdr p) in
    let ps := payload_size (p_pl p) hs in
    trunc 8 (hs / 4) * 4 = hs /\ trunc 8 (hs / 4) < 2 ^ r_width CommonHeader_HEADER_LEN_RNG
    /\ trunc 16 ps = ps /\ ps < 2 ^ r_width CommonHeader_PAYLOAD_LEN_RNG
    /\ match p_pl p with
       | PL_Udp _ _ d => trunc 16 (UdpDatagram_HEADER_SIZE_BYTES + blen d) = 8 + blen d /\ 8 + blen d = ps
       | _ => True
       end.
Proof. exact written_lengths_exact. Qed.
Print Assumptions length_fields_truthful_partial.
