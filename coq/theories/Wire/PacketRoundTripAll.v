(** decode_packet (encode_packet p) = Ok (canon p, []) for every accepted packet: all path kinds,
    raw / UDP / all SCMP payload kinds. *)
From Coq Require Import Lia ZifyBool ZifyNat ZifyN.
From Sci Require Import Wire.Codec Wire.Spec_C03 Wire.BitFieldProofs Wire.Proofs_C03 Wire.RoundTripProofs Wire.ChecksumProofs
  Wire.ChecksumVerify Wire.LengthProofs Wire.EncodeLengthProofs Wire.AddrRoundTrip Wire.HeaderRoundTrip Wire.PacketRoundTrip
  Wire.StdPathRoundTrip Wire.PacketRoundTripStd Wire.ScmpRoundTrip.
From Sci Require Import Wire.Proofs_C02 Wire.Proofs_C02b.
Local Open Scope N_scope.
Ltac Zify.zify_post_hook ::= Z.div_mod_to_equations.
Arguments N.add : simpl never. Arguments N.sub : simpl never. Arguments N.mul : simpl never.
Arguments N.div : simpl never. Arguments N.modulo : simpl never. Arguments N.pow : simpl never.
Arguments N.ltb : simpl never. Arguments N.leb : simpl never. Arguments N.eqb : simpl never. Arguments N.min : simpl never.
Ltac closed_le := apply N.leb_le; vm_compute; reflexivity.

Lemma packet_pieces p alh al :
  model_wf p = true -> packet_wire_valid p = true ->
  (exists l, header_layout (encode_packet_al p alh al) = Ok l /\ hl_header_len l = header_size (p_hdr p)
             /\ hl_payload_len l = payload_size (p_pl p) (header_size (p_hdr p))) ->
  let h := p_hdr p in let hs := header_size h in let ps := payload_size (p_pl p) hs in
  let b := encode_packet_al p alh al in
  let hb := encode_header h (trunc 16 ps) (zeros hs) in
  let pb := encode_payload h (p_pl p) hs alh al (zeros ps) in
  pkt_header b = Ok hb /\ pkt_payload b = Ok pb /\ required_size_raw b = Ok (blen b) /\ blen pb = ps
  /\ sub b (blen b) (blen b) = [].
Proof.
  intros W V (l & HLb & Hhl & Hpl).
  pose proof W as W'. unfold model_wf in W'. apply Bool.andb_true_iff in W'. destruct W' as [Wh Wp].
  pose proof V as V'. unfold packet_wire_valid in V'. apply Bool.andb_true_iff in V'. destruct V' as [V' Vsz].
  apply Bool.andb_true_iff in V'. destruct V' as [Vh Vp].
  apply Bool.negb_true_iff in Vsz. apply N.ltb_ge in Vsz. unfold U16_MAX in Vsz.
  set (h := p_hdr p) in *. set (hs := header_size h) in *. set (ps := payload_size (p_pl p) hs) in *.
  assert (Hps : trunc 16 ps < 65536) by (unfold trunc; change (2 ^ 16) with 65536; lia).
  pose proof (encode_header_blen h (trunc 16 ps) (zeros hs) Wh Vh (proj2 (zeros_ok hs))) as Lhb. fold hs in Lhb.
  destruct (encoded_header_lengths p W V) as (Rhl & _ & _). fold h hs ps in Rhl.
  unfold encode_packet_al in *. fold h hs ps in HLb |- *.
  set (hb := encode_header h (trunc 16 ps) (zeros hs)) in *.
  set (pb := encode_payload h (p_pl p) hs alh al (zeros ps)) in *.
  assert (Lpb : blen pb = ps).
  { pose proof (encode_packet_blen_all p alh al W V) as Lall. unfold encode_packet_al, packet_size in Lall. fold h hs ps hb pb in Lall.
    rewrite blen_app, Lhb in Lall. lia. }
  set (b := hb ++ pb) in *.
  assert (Lb : blen b = hs + ps) by (unfold b; rewrite blen_app, Lhb, Lpb; reflexivity).
  (* the pieces the decoder extracts *)
  assert (Ehdr : pkt_header b = Ok hb).
  { unfold pkt_header. unfold hv_header_len in *. unfold b at 1. rewrite rd_app_l by (rewrite Lhb; change (byte_hi CommonHeader_HEADER_LEN_RNG) with 6;
      pose proof (header_layout_min _ _ HLb) as M; rewrite Hhl in M; lia).
    destruct (rd hb CommonHeader_HEADER_LEN_RNG 8) as [u| |]; cbn [obind] in Rhl |- *; try discriminate. inversion Rhl as [E]. rewrite E.
    rewrite get_unchecked_ok' by (rewrite Lb; lia). f_equal. unfold b. rewrite <- Lhb. apply sub_app_l. }
  assert (Epay : pkt_payload b = Ok pb).
  { unfold pkt_payload. rewrite (pkt_payload_range_ok b l HLb). cbn [obind fst snd]. rewrite Hhl, Hpl, Lb.
    replace (N.min ps (hs + ps - hs)) with ps by lia. f_equal. unfold b. rewrite <- Lhb, <- Lpb. apply sub_app_tail. }
  assert (Eraw : required_size_raw b = Ok (blen b)).
  { unfold required_size_raw. rewrite HLb. cbn [obind]. rewrite Hhl, Hpl, Lb. f_equal. lia. }
  assert (Rest : sub b (blen b) (blen b) = []).
  { unfold sub. replace (N.to_nat (blen b - blen b)) with 0%nat by lia. reflexivity. }
  cbv zeta. fold h hs ps. unfold encode_packet_al. fold h hs ps hb pb b.
  refine (conj Ehdr (conj Epay (conj Eraw (conj Lpb Rest)))).
Qed.

Lemma encoded_layout_all p alh al : model_wf p = true -> packet_wire_valid p = true ->
  exists l, header_layout (encode_packet_al p alh al) = Ok l /\ hl_header_len l = header_size (p_hdr p)
            /\ hl_payload_len l = payload_size (p_pl p) (header_size (p_hdr p)).
Proof.
  intros W V. destruct (h_path (p_hdr p)) as [ci ch segs|i a b| |pt d] eqn:E.
  - exact (encoded_layout_std p alh al ci ch segs W V E).
  - apply (encoded_layout p alh al W V). rewrite E. exact I.
  - apply (encoded_layout p alh al W V). rewrite E. exact I.
  - apply (encoded_layout p alh al W V). rewrite E. exact I.
Qed.

(** the round trip of the property, for every accepted packet *)
Lemma packet_roundtrip_full p alh al : model_wf p = true -> packet_wire_valid p = true ->
  let kind := match p_pl p with PL_Raw _ => 0 | PL_Udp _ _ _ => 1 | PL_Scmp _ => 2 end in
  decode_packet kind (encode_packet_al p alh al) = Ok (canon p (header_size (p_hdr p)), []).
Proof.
  intros W V kind. unfold kind.
  destruct (p_pl p) as [x|sp dp d|m] eqn:Epl.
  - pose proof (packet_roundtrip_all p alh al W V) as R. rewrite Epl in R. rewrite R. unfold canon. rewrite Epl. reflexivity.
  - pose proof (packet_roundtrip_all p alh al W V) as R. rewrite Epl in R. rewrite R. unfold canon. rewrite Epl. reflexivity.
  - destruct (packet_pieces p alh al W V (encoded_layout_all p alh al W V)) as (Ehdr & Epay & Eraw & Lpb & Rest).
    pose proof W as W'. unfold model_wf in W'. apply Bool.andb_true_iff in W'. destruct W' as [Wh Wp].
    pose proof V as V'. unfold packet_wire_valid in V'. apply Bool.andb_true_iff in V'. destruct V' as [V' Vsz].
    apply Bool.andb_true_iff in V'. destruct V' as [Vh Vp].
    apply Bool.negb_true_iff in Vsz. apply N.ltb_ge in Vsz. unfold U16_MAX in Vsz.
    rewrite Epl in *. cbn [payload_wf payload_size] in *.
    set (h := p_hdr p) in *. set (hs := header_size h) in *.
    destruct (scmp_roundtrip h m hs alh al Wp Vp) as (Rs & Ls & Ds). cbv zeta in Rs, Ls, Ds.
    assert (Dh : decode_header (encode_header h (trunc 16 (scmp_size m hs)) (zeros hs)) = Ok h).
    { apply header_roundtrip_all; try assumption. unfold trunc. change (2 ^ 16) with 65536. lia. }
    set (b := encode_packet_al p alh al) in *.
    set (pb := encode_payload h (PL_Scmp m) hs alh al (zeros (scmp_size m hs))) in *.
    unfold decode_packet. unfold try_from_slice at 1. cbn [required_size]. unfold required_size_scmp_pkt.
    rewrite Eraw. cbn [obind]. rewrite Epay. cbn [obind]. rewrite Rs. cbn [obind].
    destruct (blen b <? blen b) eqn:C; [apply N.ltb_lt in C; lia|]. rewrite sub_full, Rest. cbn [obind].
    rewrite Ehdr. cbn [obind]. rewrite Dh. cbn [obind]. rewrite Epay. cbn [obind].
    unfold try_from_slice. cbn [required_size]. rewrite Rs. cbn [obind].
    destruct (blen pb <? blen pb) eqn:C2; [apply N.ltb_lt in C2; lia|]. rewrite sub_full. rewrite Ds. cbn [obind].
    unfold canon. rewrite Epl. reflexivity.
Qed.
