(** C02, third part: variable-offset accessors stay inside the view. *)
From Coq Require Import Lia ZifyBool ZifyNat ZifyN.
From Sci Require Import Wire.Views Wire.Spec_C02 Wire.Proofs_C02 Wire.BitFieldProofs Wire.Proofs_C02b.
Local Open Scope N_scope.
Ltac Zify.zify_post_hook ::= Z.div_mod_to_equations.
Arguments N.add : simpl never. Arguments N.sub : simpl never. Arguments N.mul : simpl never.
Arguments N.div : simpl never. Arguments N.modulo : simpl never. Arguments N.eqb : simpl never.
Arguments N.ltb : simpl never. Arguments N.leb : simpl never. Arguments N.min : simpl never.
Arguments N.pow : simpl never.

(** * standard path view *)
Lemma std_view_facts v : required_size_stdpath v = Ok (blen v) ->
  exists s0 s1 s2, sp_segs v = Ok (s0, s1, s2) /\ blen v = StdPathMeta_SIZE_BYTES + std_data_size s0 s1 s2.
Proof.
  rewrite required_size_stdpath_reads. intros H. inv_bind H. inversion H; subst; clear H.
  exists a, a0, a1. unfold sp_segs, sp_seg0, sp_seg1, sp_seg2.
  rewrite E, E0, E1. cbn [obind]. split; [reflexivity|]. lia.
Qed.

Lemma hop_range_arith s0 s1 s2 i :
  hop_field_byte_range s0 s1 s2 i =
  (StdPathMeta_SIZE_BYTES + info_field_count s0 s1 s2 * 8 + i * 12, StdPathMeta_SIZE_BYTES + info_field_count s0 s1 s2 * 8 + i * 12 + 12).
Proof.
  unfold hop_field_byte_range, size_bytes, rshift, byte_lo, byte_hi, r_end, r_start, HopField_TOTAL_RNG, HopField_SIZE_BYTES,
    InfoField_SIZE_BYTES, StdPathMeta_SIZE_BYTES. cbn [fst snd].
  set (ni := info_field_count s0 s1 s2). f_equal; lia.
Qed.
Lemma info_range_arith i : info_field_byte_range i = (StdPathMeta_SIZE_BYTES + i * 8, StdPathMeta_SIZE_BYTES + i * 8 + 8).
Proof.
  unfold info_field_byte_range, rshift, byte_lo, byte_hi, r_end, r_start, InfoField_TOTAL_RNG, InfoField_SIZE_BYTES, StdPathMeta_SIZE_BYTES.
  cbn [fst snd]. f_equal; lia.
Qed.
Lemma info_fields_range_arith s0 s1 s2 :
  info_fields_byte_range s0 s1 s2 = (StdPathMeta_SIZE_BYTES, StdPathMeta_SIZE_BYTES + info_field_count s0 s1 s2 * 8).
Proof.
  unfold info_fields_byte_range, rshift, byte_lo, byte_hi, r_end, r_start, InfoField_SIZE_BYTES, StdPathMeta_SIZE_BYTES.
  cbn [fst snd]. set (ni := info_field_count s0 s1 s2). f_equal; lia.
Qed.
Lemma hop_fields_range_arith s0 s1 s2 :
  hop_fields_byte_range s0 s1 s2 =
  (StdPathMeta_SIZE_BYTES + info_field_count s0 s1 s2 * 8, StdPathMeta_SIZE_BYTES + info_field_count s0 s1 s2 * 8 + hop_field_count s0 s1 s2 * 12).
Proof.
  unfold hop_fields_byte_range, rng_of_range, rshift, byte_lo, byte_hi, r_end, r_start, InfoField_SIZE_BYTES, HopField_SIZE_BYTES, StdPathMeta_SIZE_BYTES.
  cbn [fst snd]. set (ni := info_field_count s0 s1 s2). set (nh := hop_field_count s0 s1 s2). f_equal; lia.
Qed.

Lemma std_data_size_arith s0 s1 s2 : std_data_size s0 s1 s2 = info_field_count s0 s1 s2 * 8 + hop_field_count s0 s1 s2 * 12.
Proof. reflexivity. Qed.

(** checked_hop_field_range / checked_info_field_range / info_fields / hop_fields *)
Lemma sp_ranges_in_view v : required_size_stdpath v = Ok (blen v) ->
  (forall i, exists o, sp_hop_field_range v i = Ok o /\ match o with Some p => fst p <= snd p /\ snd p <= blen v /\ snd p - fst p = 12 | None => True end)
  /\ (forall i, exists o, sp_info_field_range v i = Ok o /\ match o with Some p => fst p <= snd p /\ snd p <= blen v /\ snd p - fst p = 8 | None => True end)
  /\ (exists p, sp_info_fields_range v = Ok p /\ snd p <= blen v)
  /\ (exists p, sp_hop_fields_range v = Ok p /\ snd p <= blen v).
Proof.
  intros Hv. destruct (std_view_facts v Hv) as (s0 & s1 & s2 & Es & Hl).
  rewrite std_data_size_arith in Hl.
  set (ni := info_field_count s0 s1 s2) in *. set (nh := hop_field_count s0 s1 s2) in *.
  refine (conj _ (conj _ (conj _ _))).
  - intros i. unfold sp_hop_field_range. rewrite Es. cbn [obind]. fold nh.
    destruct (trunc 8 nh <=? i) eqn:C; [exists None; split; [reflexivity|exact I]|].
    apply N.leb_gt in C. assert (i < nh) by (unfold trunc in C; change (2 ^ 8) with 256 in C; lia).
    rewrite hop_range_arith. fold ni. cbn [fst snd].
    rewrite get_unchecked_ok by lia. cbn [obind]. eexists. split; [reflexivity|]. cbn [fst snd]. lia.
  - intros i. unfold sp_info_field_range. rewrite Es. cbn [obind]. fold ni.
    destruct (ni <=? i) eqn:C; [exists None; split; [reflexivity|exact I]|].
    apply N.leb_gt in C. rewrite info_range_arith. cbn [fst snd].
    rewrite get_unchecked_ok by lia. cbn [obind]. eexists. split; [reflexivity|]. cbn [fst snd]. lia.
  - unfold sp_info_fields_range. rewrite Es. cbn [obind]. rewrite info_fields_range_arith. fold ni. cbn [fst snd].
    rewrite get_unchecked_ok by lia. cbn [obind]. eexists. split; [reflexivity|]. cbn [snd]. lia.
  - unfold sp_hop_fields_range. rewrite Es. cbn [obind]. rewrite hop_fields_range_arith. fold ni nh. cbn [fst snd].
    rewrite get_unchecked_ok by lia. cbn [obind]. eexists. split; [reflexivity|]. cbn [snd]. lia.
Qed.

(** the accessors built on them *)
Lemma acc_stdpath_ranges_np v id arg : required_size_stdpath v = Ok (blen v) ->
  In id [7; 8; 9; 10; 11; 12; 5; 6; 15] -> is_panic (acc_stdpath id arg v) = false.
Proof.
  intros Hv Hid. destruct (sp_ranges_in_view v Hv) as (Hh & Hi & (pi & Ei & _) & (ph & Eh & _)).
  destruct (std_view_facts v Hv) as (s0 & s1 & s2 & Es & Hl).
  assert (R4 : 4 <= blen v) by (unfold StdPathMeta_SIZE_BYTES in Hl; lia).
  assert (Rci : exists x, sp_curr_info v = Ok x) by (unfold sp_curr_info; rewrite rd_ok by (first [closed_le|(change (byte_hi StdPathMeta_CURR_INFO_FIELD_RNG) with 1; lia)]); eauto).
  assert (Rch : exists x, sp_curr_hop v = Ok x) by (unfold sp_curr_hop; rewrite rd_ok by (first [closed_le|(change (byte_hi StdPathMeta_CURR_HOP_FIELD_RNG) with 1; lia)]); eauto).
  destruct Rci as [ci Eci]. destruct Rch as [ch Ech].
  cbn [In] in Hid.
  repeat (destruct Hid as [<-|Hid]); try destruct Hid; unfold acc_stdpath; cbn iota.
  - destruct (Hi arg) as (o & -> & _). unfold vorange. cbn [obind]. destruct o; reflexivity.
  - destruct (Hh arg) as (o & -> & _). unfold vorange. cbn [obind]. destruct o; reflexivity.
  - unfold vrange. rewrite Ei. reflexivity.
  - unfold vrange. rewrite Eh. reflexivity.
  - rewrite Eci. cbn [obind]. destruct (Hi ci) as (o & -> & _). unfold vorange. cbn [obind]. destruct o; reflexivity.
  - rewrite Ech. cbn [obind]. destruct (Hh ch) as (o & -> & _). unfold vorange. cbn [obind]. destruct o; reflexivity.
  - rewrite Es. reflexivity.
  - rewrite Es. reflexivity.
  - rewrite Es. cbn [obind]. destruct (calc_seg_index arg s0 s1 s2) as [[[x y] z]|]; reflexivity.
Qed.

(** * header view: the view re-validates to itself (prefix invariance of the layout) *)
Lemma HL_prefix b l n : HL b = Ok l -> hl_header_len l <= n -> n <= blen b -> HL (sub b 0 n) = Ok l.
Proof.
  intros H Hn Hb. pose proof H as H0. rewrite <- header_layout_HL in H0.
  destruct (header_layout_sound b l H0) as [_ H12]. pose proof (header_layout_min b l H0) as H28.
  unfold HL in H |- *. rewrite blen_sub by exact Hb. rewrite N.sub_0_r.
  destruct (blen b <? CommonHeader_SIZE_BYTES) eqn:C0; [discriminate|].
  destruct (n <? CommonHeader_SIZE_BYTES) eqn:C1; [apply N.ltb_lt in C1; lia|].
  rewrite !(rd_prefix b n) by (first [exact Hb | (eapply N.le_trans; [|exact Hn]; eapply N.le_trans; [|exact H28]; closed_le)]).
  destruct (rd b CommonHeader_VERSION_RNG 8) as [ver| |]; cbn [obind] in *; try discriminate.
  destruct (negb (ver =? 0)); [discriminate|].
  destruct (rd b CommonHeader_PATH_TYPE_RNG 8) as [pt| |]; cbn [obind] in *; try discriminate.
  destruct (rd b CommonHeader_SRC_ADDR_INFO_RNG 8) as [sn| |]; cbn [obind] in *; try discriminate.
  destruct (rd b CommonHeader_DST_ADDR_INFO_RNG 8) as [dn| |]; cbn [obind] in *; try discriminate.
  destruct (rd b CommonHeader_HEADER_LEN_RNG 8) as [u| |]; cbn [obind] in *; try discriminate.
  destruct (rd b CommonHeader_PAYLOAD_LEN_RNG 16) as [pl| |]; cbn [obind] in *; try discriminate.
  remember (CommonHeader_SIZE_BYTES + addr_hdr_size (hat_size sn) (hat_size dn)) as ae eqn:Eae.
  destruct (blen b <? ae) eqn:C2; [discriminate|]. apply N.ltb_ge in C2.
  (* the path part *)
  destruct (pt =? PT_SCION) eqn:Ps.
  - destruct (blen b - ae <? StdPathMeta_SIZE_BYTES) eqn:C3; [discriminate|]. apply N.ltb_ge in C3.
    destruct (rd b (rshift StdPathMeta_SEG0_LEN_RNG ae) 8) as [s0| |] eqn:R0; cbn [obind] in H; try discriminate.
    destruct (rd b (rshift StdPathMeta_SEG1_LEN_RNG ae) 8) as [s1| |] eqn:R1; cbn [obind] in H; try discriminate.
    destruct (rd b (rshift StdPathMeta_SEG2_LEN_RNG ae) 8) as [s2| |] eqn:R2; cbn [obind] in H; try discriminate.
    cbn [path_layout_size] in H.
    destruct (blen b <? ae + (StdPathMeta_SIZE_BYTES + std_data_size s0 s1 s2)) eqn:C4; [discriminate|].
    destruct (negb (ae + (StdPathMeta_SIZE_BYTES + std_data_size s0 s1 s2) =? u * 4)) eqn:C5; [discriminate|].
    apply Bool.negb_false_iff in C5. apply N.eqb_eq in C5.
    inversion H; subst l; clear H. cbn [hl_header_len] in *.
    assert (A4 : ae + 4 <= n) by (unfold StdPathMeta_SIZE_BYTES in *; lia).
    destruct (n <? ae) eqn:D1; [apply N.ltb_lt in D1; lia|].
    destruct (n - ae <? StdPathMeta_SIZE_BYTES) eqn:D2; [apply N.ltb_lt in D2; unfold StdPathMeta_SIZE_BYTES in *; lia|].
    rewrite !(rd_prefix b n) by (first [exact Hb | (destruct (rshift_bytes StdPathMeta_SEG0_LEN_RNG ae) as (_ & -> & _); change (byte_hi StdPathMeta_SEG0_LEN_RNG) with 3; lia)
                                     | (destruct (rshift_bytes StdPathMeta_SEG1_LEN_RNG ae) as (_ & -> & _); change (byte_hi StdPathMeta_SEG1_LEN_RNG) with 4; lia)
                                     | (destruct (rshift_bytes StdPathMeta_SEG2_LEN_RNG ae) as (_ & -> & _); change (byte_hi StdPathMeta_SEG2_LEN_RNG) with 4; lia)]).
    rewrite R0, R1, R2. cbn [obind path_layout_size].
    destruct (n <? ae + (StdPathMeta_SIZE_BYTES + std_data_size s0 s1 s2)) eqn:D3; [apply N.ltb_lt in D3; lia|].
    rewrite C5, N.eqb_refl. reflexivity.
  - (* the other path kinds do not read the path *)
    destruct (n <? ae) eqn:D1.
    + exfalso. apply N.ltb_lt in D1.
      repeat match type of H with
      | obind (if ?c then _ else _) _ = _ => destruct c; cbn [obind] in H; try discriminate H
      | (if ?c then _ else _) = _ => destruct c eqn:?; try discriminate H
      end; inversion H; subst l; cbn [hl_header_len] in *; clean_bools; lia.
    + repeat match type of H with
      | obind (if ?c then _ else _) _ = _ => destruct c; cbn [obind] in H |- *; try discriminate H
      end;
      cbn [path_layout_size obind] in H |- *;
      match type of H with (if blen b <? ?c then _ else _) = _ =>
        destruct (blen b <? c) eqn:C4; [discriminate H|];
        destruct (negb (c =? u * 4)) eqn:C5; [discriminate H|];
        apply Bool.negb_false_iff in C5; apply N.eqb_eq in C5;
        inversion H; subst l; cbn [hl_header_len] in *;
        destruct (n <? c) eqn:D3; [apply N.ltb_lt in D3; lia|]; reflexivity
      end.
Qed.

Lemma header_view_valid b n : required_size_header b = Ok n ->
  exists l, header_layout (sub b 0 n) = Ok l /\ header_layout b = Ok l /\ hl_header_len l = n /\ blen (sub b 0 n) = n /\ n <= blen b.
Proof.
  unfold required_size_header. intros H. inv_bind H. inversion H; subst; clear H.
  destruct (header_layout_sound b a E) as [Hle _].
  exists a. rewrite header_layout_HL. rewrite header_layout_HL in E.
  rewrite (HL_prefix b a _ E (N.le_refl _) Hle). rewrite blen_sub by exact Hle.
  repeat split; try reflexivity; try assumption. lia.
Qed.

(** * packet views *)
Lemma raw_view_valid b n : required_size_raw b = Ok n ->
  exists l, header_layout (sub b 0 n) = Ok l /\ header_layout b = Ok l
            /\ n = N.min (hl_header_len l + hl_payload_len l) (blen b) /\ blen (sub b 0 n) = n /\ hl_header_len l <= n.
Proof.
  unfold required_size_raw. intros H. inv_bind H. inversion H; subst; clear H.
  destruct (header_layout_sound b a E) as [Hle _].
  exists a. rewrite header_layout_HL. rewrite header_layout_HL in E.
  rewrite (HL_prefix b a (N.min (hl_header_len a + hl_payload_len a) (blen b)) E ltac:(lia) ltac:(lia)). rewrite blen_sub by lia.
  repeat split; try reflexivity; try assumption; lia.
Qed.

Lemma pkt_view_payload b n l :
  header_layout (sub b 0 n) = Ok l -> header_layout b = Ok l -> n = N.min (hl_header_len l + hl_payload_len l) (blen b) ->
  blen (sub b 0 n) = n ->
  pkt_payload_range (sub b 0 n) = pkt_payload_range b /\ pkt_payload (sub b 0 n) = pkt_payload b.
Proof.
  intros Hv Hb Hn Hl.
  pose proof (pkt_payload_range_ok _ _ Hv) as Rv. pose proof (pkt_payload_range_ok _ _ Hb) as Rb.
  destruct (header_layout_sound b l Hb) as [Hle _].
  assert (E : N.min (hl_payload_len l) (blen (sub b 0 n) - hl_header_len l) = N.min (hl_payload_len l) (blen b - hl_header_len l)) by (rewrite Hl; lia).
  rewrite E in Rv. split; [congruence|].
  unfold pkt_payload. rewrite Rv, Rb. cbn [obind fst snd]. f_equal. apply sub_sub_prefix. lia.
Qed.

Lemma pkt_common_acc_np k b n id arg :
  (k = KRaw \/ k = KUdpPkt \/ k = KScmpPkt) -> required_size k b = Ok n -> (id = 0 \/ id = 1) ->
  is_panic (acc_pkt k id arg (sub b 0 n)) = false.
Proof.
  intros Hk Hs Hid.
  assert (Hr : required_size_raw b = Ok n).
  { destruct Hk as [->|[->| ->]]; cbn [required_size] in Hs; [exact Hs| |].
    - unfold required_size_udp_pkt in Hs. destruct (required_size_raw b); cbn [obind] in Hs; try discriminate. inv_bind Hs. exact Hs.
    - unfold required_size_scmp_pkt in Hs. destruct (required_size_raw b); cbn [obind] in Hs; try discriminate. inv_bind Hs. exact Hs. }
  destruct (raw_view_valid b n Hr) as (l & Hv & Hb & Hn & Hl & Hh).
  destruct (header_layout_fields _ _ Hv) as (Eh & Hm & _).
  destruct Hid as [-> | ->]; unfold acc_pkt; cbn iota.
  - unfold pkt_header, hv_header_len. rewrite Eh. cbn [obind].
    replace (hl_header_len l / 4 * 4) with (hl_header_len l) by lia.
    rewrite get_unchecked_ok by lia. reflexivity.
  - unfold vrange. rewrite (pkt_payload_range_ok _ _ Hv). reflexivity.
Qed.

(** udp() / scmp() on the typed packet views: the expect() cannot fail on a constructed view *)
Lemma udp_pkt_udp_np b n : required_size KUdpPkt b = Ok n -> is_panic (acc_pkt KUdpPkt 10 0 (sub b 0 n)) = false.
Proof.
  cbn [required_size]. intros Hs. unfold required_size_udp_pkt in Hs.
  destruct (required_size_raw b) as [m| |] eqn:Hr; cbn [obind] in Hs; try discriminate.
  destruct (pkt_payload b) as [p| |] eqn:Ep; cbn [obind] in Hs; try discriminate.
  destruct (required_size_udp p) as [u| |] eqn:Eu; cbn [obind] in Hs; try discriminate. inversion Hs; subst m.
  destruct (raw_view_valid b n Hr) as (l & Hv & Hb & Hn & Hl & Hh).
  destruct (pkt_view_payload b n l Hv Hb Hn Hl) as [Er Epv].
  unfold acc_pkt; cbn iota.
  rewrite (pkt_payload_range_ok _ _ Hv). cbn [obind].
  unfold pkt_payload in Epv, Ep. rewrite (pkt_payload_range_ok _ _ Hv) in Epv. cbn [obind] in Epv.
  unfold sub_view. cbn [fst snd].
  rewrite (pkt_payload_range_ok _ _ Hb) in Ep, Epv. cbn [obind fst snd] in Ep, Epv. inversion Epv as [Eq].
  rewrite get_unchecked_ok by (rewrite Hl; lia). cbn [obind]. rewrite Eq. inversion Ep; subst p.
  unfold try_from_slice. cbn [required_size]. rewrite Eu. cbn [obind].
  pose proof (required_size_udp_sound _ _ Eu) as Su.
  destruct (blen _ <? u) eqn:C; [apply N.ltb_lt in C; lia|]. reflexivity.
Qed.

Lemma scmp_pkt_scmp_np b n : required_size KScmpPkt b = Ok n -> is_panic (acc_pkt KScmpPkt 10 0 (sub b 0 n)) = false.
Proof.
  cbn [required_size]. intros Hs. unfold required_size_scmp_pkt in Hs.
  destruct (required_size_raw b) as [m| |] eqn:Hr; cbn [obind] in Hs; try discriminate.
  destruct (pkt_payload b) as [p| |] eqn:Ep; cbn [obind] in Hs; try discriminate.
  destruct (required_size_scmp p) as [u| |] eqn:Eu; cbn [obind] in Hs; try discriminate. inversion Hs; subst m.
  destruct (raw_view_valid b n Hr) as (l & Hv & Hb & Hn & Hl & Hh).
  destruct (pkt_view_payload b n l Hv Hb Hn Hl) as [Er Epv].
  unfold acc_pkt; cbn iota.
  rewrite (pkt_payload_range_ok _ _ Hv). cbn [obind].
  unfold pkt_payload in Epv, Ep. rewrite (pkt_payload_range_ok _ _ Hv) in Epv. cbn [obind] in Epv.
  unfold sub_view. cbn [fst snd].
  rewrite (pkt_payload_range_ok _ _ Hb) in Ep, Epv. cbn [obind fst snd] in Ep, Epv. inversion Epv as [Eq].
  rewrite get_unchecked_ok by (rewrite Hl; lia). cbn [obind]. rewrite Eq. inversion Ep; subst p.
  unfold try_from_slice. cbn [required_size]. rewrite Eu. cbn [obind].
  pose proof (required_size_scmp_sound _ _ Eu) as Su.
  destruct (blen _ <? u) eqn:C; [apply N.ltb_lt in C; lia|]. reflexivity.
Qed.

(** * header view: host addresses and path *)
Lemma addr_hdr_size_sym a b : addr_hdr_size a b = addr_hdr_size b a.
Proof. unfold addr_hdr_size. f_equal. lia. Qed.

Lemma HL_facts v l : HL v = Ok l ->
  exists pt sn dn, rd v CommonHeader_PATH_TYPE_RNG 8 = Ok pt /\ rd v CommonHeader_SRC_ADDR_INFO_RNG 8 = Ok sn
    /\ rd v CommonHeader_DST_ADDR_INFO_RNG 8 = Ok dn
    /\ hl_header_len l = CommonHeader_SIZE_BYTES + addr_hdr_size (hat_size sn) (hat_size dn) + path_layout_size (hl_path l)
    /\ hl_header_len l <= blen v
    /\ (pt =? PT_SCION = false -> pt =? PT_ONEHOP = true -> hl_path l = PL_OneHop).
Proof.
  unfold HL. intros H.
  destruct (blen v <? CommonHeader_SIZE_BYTES); [discriminate|].
  destruct (rd v CommonHeader_VERSION_RNG 8) as [ver| |]; cbn [obind] in *; try discriminate.
  destruct (negb (ver =? 0)); [discriminate|].
  destruct (rd v CommonHeader_PATH_TYPE_RNG 8) as [pt| |]; cbn [obind] in *; try discriminate.
  destruct (rd v CommonHeader_SRC_ADDR_INFO_RNG 8) as [sn| |]; cbn [obind] in *; try discriminate.
  destruct (rd v CommonHeader_DST_ADDR_INFO_RNG 8) as [dn| |]; cbn [obind] in *; try discriminate.
  destruct (rd v CommonHeader_HEADER_LEN_RNG 8) as [u| |]; cbn [obind] in *; try discriminate.
  destruct (rd v CommonHeader_PAYLOAD_LEN_RNG 16) as [pl| |]; cbn [obind] in *; try discriminate.
  exists pt, sn, dn. refine (conj eq_refl (conj eq_refl (conj eq_refl _))).
  match type of H with (if ?c then _ else _) = _ => destruct c; [discriminate|] end.
  match type of H with obind ?x _ = _ => destruct x as [path| |] eqn:Ep; cbn [obind] in H; try discriminate end.
  match type of H with (if ?c then _ else _) = _ => destruct c eqn:C4; [discriminate|] end.
  match type of H with (if negb ?c then _ else _) = _ => destruct c eqn:C5; cbn [negb] in H; [|discriminate] end.
  inversion H; subst l; clear H. cbn [hl_header_len hl_path]. apply N.ltb_ge in C4. apply N.eqb_eq in C5.
  refine (conj _ (conj _ _)); [lia|lia|].
  intros Ps Po. rewrite Ps, Po in Ep. inversion Ep. reflexivity.
Qed.

Lemma header_host_path_np b n id arg : required_size_header b = Ok n -> In id [15; 16; 17; 5] ->
  is_panic (acc_header id arg (sub b 0 n)) = false.
Proof.
  intros Hs Hid. destruct (header_view_valid b n Hs) as (l & Hv & _ & Hn & Hl & _).
  destruct (header_layout_fields _ _ Hv) as (Eh & Hm & _).
  rewrite header_layout_HL in Hv. destruct (HL_facts _ _ Hv) as (pt & sn & dn & Ept & Esn & Edn & Hsz & Hle & Hoh).
  set (v := sub b 0 n) in *. rewrite Hn in *.
  pose proof (addr_hdr_size_ge (hat_size sn) (hat_size dn)) as G.
  assert (Ha : addr_hdr_size (hat_size sn) (hat_size dn) = 16 + hat_size dn + hat_size sn)
    by (unfold addr_hdr_size, AddressHeader_FIXED_SIZE_BITS; lia).
  cbn [In] in Hid. repeat (destruct Hid as [<-|Hid]); try destruct Hid; unfold acc_header; cbn iota.
  - (* dst host *)
    unfold hv_dst_host, hv_dst_host_raw, hv_src_addr_type, hv_dst_addr_type. rewrite Esn, Edn. cbn [obind].
    assert (Er : byte_lo (dst_host_rng (hat_size sn) (hat_size dn)) = 28 /\ byte_hi (dst_host_rng (hat_size sn) (hat_size dn)) = 28 + hat_size dn).
    { unfold dst_host_rng, rng_of_range, rshift, byte_lo, byte_hi, r_end, r_start, AddressHeader_FIXED_SIZE_BITS, CommonHeader_SIZE_BYTES. cbn [fst snd]. split; lia. }
    destruct Er as [-> ->]. rewrite get_unchecked_ok by (unfold CommonHeader_SIZE_BYTES in *; lia). reflexivity.
  - unfold hv_src_host, hv_src_host_raw, hv_src_addr_type, hv_dst_addr_type. rewrite Esn, Edn. cbn [obind].
    assert (Er : byte_lo (src_host_rng (hat_size sn) (hat_size dn)) = 28 + hat_size dn /\ byte_hi (src_host_rng (hat_size sn) (hat_size dn)) = 28 + hat_size dn + hat_size sn).
    { unfold src_host_rng, rng_of_range, rshift, byte_lo, byte_hi, r_end, r_start, AddressHeader_FIXED_SIZE_BITS, CommonHeader_SIZE_BYTES. cbn [fst snd]. split; lia. }
    destruct Er as [-> ->]. rewrite get_unchecked_ok by (unfold CommonHeader_SIZE_BYTES in *; lia). reflexivity.
  - (* path() *)
    unfold hv_path_range, hv_dst_addr_type, hv_src_addr_type, hv_header_len, hv_path_type. rewrite Edn, Esn, Eh, Ept. cbn [obind].
    rewrite (addr_hdr_size_sym (hat_size dn) (hat_size sn)).
    replace (hl_header_len l / 4 * 4) with (hl_header_len l) by lia.
    destruct (pt =? PT_EMPTY) eqn:Pe; [reflexivity|].
    destruct (pt =? PT_ONEHOP) eqn:Po.
    + assert (Ps : (pt =? PT_SCION) = false).
      { apply N.eqb_eq in Po. subst pt. vm_compute. reflexivity. }
      rewrite (Hoh Ps eq_refl) in Hsz. cbn [path_layout_size] in Hsz.
      rewrite get_unchecked_ok by lia. reflexivity.
    + rewrite get_unchecked_ok by lia. reflexivity.
  - unfold vn, hv_header_len. rewrite Eh. reflexivity.
Qed.
