(** Model of sciparse view construction: for every view type the computation of
    [View::has_required_size] (and the [*Layout::try_from_slice] behind it), statement by
    statement, including WHICH sub-slice each field is read from and which length check
    precedes it.  Every read goes through [rd], which returns [Panic P_OOB] where the Rust code
    (unchecked reads) would trip its debug assertion / read out of bounds in a release build.
    "The decoder never reads outside the bytes already checked" is therefore the theorem that
    these functions never return [Panic] (Wire.Props_C02).

    Definitions only.  Bit ranges and constants come from [Gen.Layout] / [Gen.Tables]
    (regenerated from /repo on every run).  This file is also the base of C08 and C14:
    exported names are listed in Wire/README.md. *)
From Sci Require Export Wire.BitField Wire.Types Gen.Layout Gen.Tables.
Local Open Scope N_scope.

(** * Errors *)
Inductive verr :=
| BufTooSmall (at_ required actual : N)     (* ViewConversionError::BufferTooSmall *)
| VOther (code : N).                        (* ViewConversionError::Other(msg) *)

(* [at] strings of BufferTooSmall *)
Definition AT_COMMON := 1.  Definition AT_ADDR := 2.  Definition AT_PATHMETA := 3.
Definition AT_PATH := 4.    Definition AT_TOTAL := 5. Definition AT_STDMETA := 6.
Definition AT_STDDATA := 7. Definition AT_ONEHOP := 8. Definition AT_INFO := 9.
Definition AT_HOP := 10.    Definition AT_UDP := 11.  Definition AT_SCMPHDR := 12.
Definition AT_SCMP_KIND (ty : N) := 100 + ty.   (* "ScmpEchoRequest", ...; 100+255+1 = unknown *)
Definition AT_SCMP_UNKNOWN := 400.
(* Other(msg) *)
Definition E_HDRLEN := 1.      (* InvalidHeaderLength *)
Definition E_VERSION := 2.     (* UnsupportedVersion *)
Definition E_UDPLEN := 3.      (* "UDP length field smaller than minimum header size" *)
Definition E_NOT_UDP := 4.     (* "next header not UDP" *)
Definition E_NOT_SCMP := 5.    (* "next header not SCMP" *)
Definition E_BOXED := 6.       (* "Boxed buffer size does not match view size" *)
Definition E_DST_HOST := 7.    (* "invalid dst_host_addr" *)
Definition E_SRC_HOST := 8.    (* "invalid src_host_addr" *)

(* panic sites *)
Definition P_OOB := 1.         (* unchecked read/write/slice outside the slice at hand *)
Definition P_SLICE := 2.       (* checked slice index [a..b] out of range *)
Definition P_UDP_EXPECT := 3.  (* ScionUdpPacketView::udp: expect("udp payload is not large enough ...") *)
Definition P_SCMP_EXPECT := 4. (* ScionScmpPacketView::scmp: expect("scmp payload is not large enough ...") *)
Definition P_OVERFLOW := 5.    (* arithmetic overflow (debug build) *)
Definition P_LANE := 6.        (* BitRange wider than the 128-bit lane *)

Definition res (A : Type) := outcome A verr.

(** * Checked stand-ins for the unchecked primitives *)

(** unchecked_bit_range_be_read::<uN>(v, r) *)
Definition rd (v : bytes) (r : rng) (bits : N) : res N :=
  if negb (size_bytes r <=? LANE_BYTES) then Panic P_LANE
  else if negb (byte_hi r <=? blen v) then Panic P_OOB
  else Ok (trunc bits (lane_read v r)).

(** unchecked_bit_range_be_write::<uN>(v, r, val); val < 2^bits is the Rust type *)
Definition wr (v : bytes) (r : rng) (val : N) : res bytes :=
  if negb (size_bytes r <=? LANE_BYTES) then Panic P_LANE
  else if negb (byte_hi r <=? blen v) then Panic P_OOB
  else Ok (lane_write v r val).

(** v.get_unchecked(lo..hi) *)
Definition get_unchecked (v : bytes) (lo hi : N) : res bytes :=
  if (lo <=? hi) && (hi <=? blen v) then Ok (sub v lo hi) else Panic P_OOB.
(** &v[lo..hi] *)
Definition index_range (v : bytes) (lo hi : N) : res bytes :=
  if (lo <=? hi) && (hi <=? blen v) then Ok (sub v lo hi) else Panic P_SLICE.
(** split_at_checked(n).0 *)
Definition split_off_checked (v : bytes) (n : N) : option bytes :=
  if n <=? blen v then Some (sub v 0 n) else None.

(** * Tagged numbers *)

(** WireHostAddrType::from(u8).size() *)
Definition hat_size (nib : N) : N :=
  if nib =? HAT_IPV4 then HAT_IPV4_SIZE
  else if nib =? HAT_IPV6 then HAT_IPV6_SIZE
  else if nib =? HAT_SERVICE then HAT_SERVICE_SIZE
  else ((N.land nib 3) + 1) * 4.
(** id of WireHostAddrType::Unknown *)
Definition hat_unknown_id (nib : N) : N := N.shiftr nib 2.
Definition hat_is_known (nib : N) : bool := existsb (N.eqb nib) host_addr_type_known.

(** u8::from(WireHostAddrType::Unknown { id, size }): (id << 2) | (size/4).saturating_sub(1), as u8 *)
Definition hat_unknown_nibble (id size : N) : N :=
  N.lor (trunc 8 (N.shiftl id 2)) (size / 4 - 1).

(** * Header layout *)

Inductive path_layout :=
| PL_Std (s0 s1 s2 : N)
| PL_OneHop
| PL_Empty
| PL_Unknown (pt lo_bits hi_bits : N).

Record hdr_layout := mkHL {
  hl_src_len : N; hl_dst_len : N; hl_path : path_layout;
  hl_header_len : N; hl_payload_len : N }.

(* AddressHeaderLayout::size_bytes = total_range().end / 8 *)
Definition addr_hdr_size (src_len dst_len : N) : N :=
  (AddressHeader_FIXED_SIZE_BITS + dst_len * 8 + src_len * 8) / 8.

(* StdPathDataLayout *)
Definition nz (x : N) : N := if 0 <? x then 1 else 0.
Definition info_field_count (s0 s1 s2 : N) : N := nz s0 + nz s1 + nz s2.
Definition hop_field_count (s0 s1 s2 : N) : N := s0 + s1 + s2.
Definition std_data_size (s0 s1 s2 : N) : N :=
  info_field_count s0 s1 s2 * InfoField_SIZE_BYTES + hop_field_count s0 s1 s2 * HopField_SIZE_BYTES.

Definition path_layout_size (p : path_layout) : N :=
  match p with
  | PL_Std s0 s1 s2 => StdPathMeta_SIZE_BYTES + std_data_size s0 s1 s2
  | PL_OneHop => OneHopPath_SIZE_BYTES
  | PL_Empty => 0
  | PL_Unknown _ lo hi => size_bytes (rng_of_range lo hi)
  end.

(** ScionHeaderLayout::try_from_slice *)
Definition header_layout (b : bytes) : res hdr_layout :=
  let len := blen b in
  match split_off_checked b CommonHeader_SIZE_BYTES with
  | None => Err (BufTooSmall AT_COMMON CommonHeader_SIZE_BYTES len)
  | Some cb =>
    ver <- rd cb CommonHeader_VERSION_RNG 8 ;;
    if negb (ver =? 0) then Err (VOther E_VERSION) else
    pt <- rd cb CommonHeader_PATH_TYPE_RNG 8 ;;
    src_nib <- rd cb CommonHeader_SRC_ADDR_INFO_RNG 8 ;;
    dst_nib <- rd cb CommonHeader_DST_ADDR_INFO_RNG 8 ;;
    let src_len := hat_size src_nib in
    let dst_len := hat_size dst_nib in
    hl_units <- rd cb CommonHeader_HEADER_LEN_RNG 8 ;;
    let total := hl_units * 4 in             (* u8 as u16 * 4 <= 1020 *)
    payload <- rd cb CommonHeader_PAYLOAD_LEN_RNG 16 ;;
    let addr_end := CommonHeader_SIZE_BYTES + addr_hdr_size src_len dst_len in
    if len <? addr_end then Err (BufTooSmall AT_ADDR addr_end len) else
    path <-
      (if pt =? PT_SCION then
         rest <- index_range b addr_end len ;;
         match split_off_checked rest StdPathMeta_SIZE_BYTES with
         | None => Err (BufTooSmall AT_PATHMETA StdPathMeta_SIZE_BYTES (len - addr_end))
         | Some mb =>
           s0 <- rd mb StdPathMeta_SEG0_LEN_RNG 8 ;;
           s1 <- rd mb StdPathMeta_SEG1_LEN_RNG 8 ;;
           s2 <- rd mb StdPathMeta_SEG2_LEN_RNG 8 ;;
           Ok (PL_Std s0 s1 s2)
         end
       else if pt =? PT_ONEHOP then Ok PL_OneHop
       else if pt =? PT_EMPTY then Ok PL_Empty
       else if total <? addr_end then Err (BufTooSmall AT_PATH (addr_end * 8) (total * 8))
       else Ok (PL_Unknown pt (addr_end * 8) (total * 8))) ;;
    let calc := CommonHeader_SIZE_BYTES + addr_hdr_size src_len dst_len + path_layout_size path in
    if len <? calc then Err (BufTooSmall AT_TOTAL calc len) else
    if negb (calc =? total) then Err (VOther E_HDRLEN) else
    Ok (mkHL src_len dst_len path total payload)
  end.

(** * required_size of every view type (View::has_required_size) *)

Definition required_size_header (b : bytes) : res N :=
  l <- header_layout b ;; Ok (hl_header_len l).

(** StdPathLayout::try_from_slice *)
Definition required_size_stdpath (b : bytes) : res N :=
  match split_off_checked b StdPathMeta_SIZE_BYTES with
  | None => Err (BufTooSmall AT_STDMETA StdPathMeta_SIZE_BYTES (blen b))
  | Some mb =>
    s0 <- rd mb StdPathMeta_SEG0_LEN_RNG 8 ;;
    s1 <- rd mb StdPathMeta_SEG1_LEN_RNG 8 ;;
    s2 <- rd mb StdPathMeta_SEG2_LEN_RNG 8 ;;
    let required := StdPathMeta_SIZE_BYTES + std_data_size s0 s1 s2 in
    if blen b <? required then Err (BufTooSmall AT_STDDATA required (blen b)) else Ok required
  end.

Definition fixed_size (at_ size : N) (b : bytes) : res N :=
  if blen b <? size then Err (BufTooSmall at_ size (blen b)) else Ok size.
Definition required_size_onehop := fixed_size AT_ONEHOP OneHopPath_SIZE_BYTES.
Definition required_size_info := fixed_size AT_INFO InfoField_SIZE_BYTES.
Definition required_size_hop := fixed_size AT_HOP HopField_SIZE_BYTES.

(** ScionRawPacketView::has_required_size *)
Definition required_size_raw (b : bytes) : res N :=
  l <- header_layout b ;; Ok (N.min (hl_header_len l + hl_payload_len l) (blen b)).

(** UdpDatagramView::has_required_size *)
Definition required_size_udp (b : bytes) : res N :=
  if blen b <? UdpDatagram_HEADER_SIZE_BYTES then Err (BufTooSmall AT_UDP UdpDatagram_HEADER_SIZE_BYTES (blen b)) else
  l <- rd b UdpDatagram_LENGTH_RNG 16 ;;
  if l <? UdpDatagram_HEADER_SIZE_BYTES then Err (VOther E_UDPLEN) else
  Ok (N.min (blen b) l).

(** per-kind SCMP layouts: Scmp*Layout::try_from_slice = "len >= HEADER_SIZE_BYTES -> len" *)
Definition scmp_header_size (ty : N) : N :=
  if ty =? SCMP_T_DestinationUnreachable then ScmpDestinationUnreachable_HEADER_SIZE_BYTES
  else if ty =? SCMP_T_PacketTooBig then ScmpPacketTooBig_HEADER_SIZE_BYTES
  else if ty =? SCMP_T_ParameterProblem then ScmpParameterProblem_HEADER_SIZE_BYTES
  else if ty =? SCMP_T_ExternalInterfaceDown then ScmpExternalInterfaceDown_HEADER_SIZE_BYTES
  else if ty =? SCMP_T_InternalConnectivityDown then ScmpInternalConnectivityDown_HEADER_SIZE_BYTES
  else if ty =? SCMP_T_EchoRequest then ScmpEchoRequest_HEADER_SIZE_BYTES
  else if ty =? SCMP_T_EchoReply then ScmpEchoReply_HEADER_SIZE_BYTES
  else if ty =? SCMP_T_TracerouteRequest then ScmpTracerouteRequest_HEADER_SIZE_BYTES
  else if ty =? SCMP_T_TracerouteReply then ScmpTracerouteReply_HEADER_SIZE_BYTES
  else ScmpUnknownMessage_HEADER_SIZE_BYTES.
Definition scmp_is_known (ty : N) : bool := existsb (N.eqb ty) scmp_type_known.
Definition scmp_at (ty : N) : N := if scmp_is_known ty then AT_SCMP_KIND ty else AT_SCMP_UNKNOWN.

(* the traceroute layouts are unit structs: size_bytes = HEADER_SIZE_BYTES; every other kind
   keeps the whole buffer (payload_length = buf.len()) *)
Definition scmp_fixed_size (ty : N) : bool := (ty =? SCMP_T_TracerouteRequest) || (ty =? SCMP_T_TracerouteReply).

(** typed message view of kind [ty] (ty outside the known list = ScmpUnknownMessageView) *)
Definition required_size_scmp_msg (ty : N) (b : bytes) : res N :=
  if blen b <? scmp_header_size ty then Err (BufTooSmall (scmp_at ty) (scmp_header_size ty) (blen b))
  else Ok (if scmp_fixed_size ty then scmp_header_size ty else blen b).

(** ScmpMessageLayout::try_from_slice (ScmpPayloadView) *)
Definition required_size_scmp (b : bytes) : res N :=
  match required_size_scmp_msg 256 b with      (* ScmpUnknownMessageView::try_from_slice, error renamed *)
  | Err (BufTooSmall _ r a) => Err (BufTooSmall AT_SCMPHDR r a)
  | Err e => Err e
  | Panic s => Panic s
  | Ok n =>
    v <- get_unchecked b 0 n ;;
    ty <- rd v ScmpUnknownMessage_TYPE_RNG 8 ;;
    required_size_scmp_msg ty b
  end.

(** ScionPacketView::payload (all three packet kinds): header_len and payload_len re-read from
    the buffer, truncated to what is there *)
Definition pkt_payload_range (v : bytes) : res (N * N) :=
  hl_units <- rd v CommonHeader_HEADER_LEN_RNG 8 ;;
  let header_len := hl_units * 4 in
  (* header(): self.1.get_unchecked(..header_len) *)
  hv <- get_unchecked v 0 header_len ;;
  pl <- rd hv CommonHeader_PAYLOAD_LEN_RNG 16 ;;
  let tail := blen v - header_len in          (* saturating_sub *)
  let n := N.min pl tail in
  _ <- get_unchecked v header_len (header_len + n) ;;
  Ok (header_len, header_len + n).
Definition pkt_payload (v : bytes) : res bytes :=
  r <- pkt_payload_range v ;; Ok (sub v (fst r) (snd r)).

(** ScionUdpPacketView / ScionScmpPacketView::has_required_size *)
Definition required_size_udp_pkt (b : bytes) : res N :=
  n <- required_size_raw b ;;
  p <- pkt_payload b ;;          (* view over the WHOLE buf: from_slice_unchecked(buf) *)
  _ <- required_size_udp p ;;
  Ok n.
Definition required_size_scmp_pkt (b : bytes) : res N :=
  n <- required_size_raw b ;;
  p <- pkt_payload b ;;
  _ <- required_size_scmp p ;;
  Ok n.

(** view kinds *)
Inductive vkind :=
| KHeader | KStdPath | KOneHop | KInfo | KHop | KRaw | KUdpPkt | KScmpPkt | KUdp | KScmp
| KScmpMsg (ty : N).

Definition required_size (k : vkind) : bytes -> res N :=
  match k with
  | KHeader => required_size_header | KStdPath => required_size_stdpath
  | KOneHop => required_size_onehop | KInfo => required_size_info | KHop => required_size_hop
  | KRaw => required_size_raw | KUdpPkt => required_size_udp_pkt | KScmpPkt => required_size_scmp_pkt
  | KUdp => required_size_udp | KScmp => required_size_scmp
  | KScmpMsg ty => required_size_scmp_msg ty
  end.

(** View::try_from_slice: the view is the first [n] bytes *)
Definition try_from_slice (k : vkind) (b : bytes) : res (bytes * bytes) :=
  n <- required_size k b ;;
  if blen b <? n then Panic P_OOB else Ok (sub b 0 n, sub b n (blen b)).
(** View::try_from_boxed *)
Definition try_from_boxed (k : vkind) (b : bytes) : res bytes :=
  n <- required_size k b ;;
  if negb (blen b =? n) then Err (VOther E_BOXED) else Ok b.

(** * Field readers of ScionHeaderView (on the view's bytes) *)
Definition hv_version v := rd v CommonHeader_VERSION_RNG 8.
Definition hv_traffic_class v := rd v CommonHeader_TRAFFIC_CLASS_RNG 8.
Definition hv_flow_id v := rd v CommonHeader_FLOW_ID_RNG 32.
Definition hv_next_header v := rd v CommonHeader_NEXT_HEADER_RNG 8.
Definition hv_payload_len v := rd v CommonHeader_PAYLOAD_LEN_RNG 16.
Definition hv_header_len v : res N := u <- rd v CommonHeader_HEADER_LEN_RNG 8 ;; Ok (u * 4).
Definition hv_path_type v := rd v CommonHeader_PATH_TYPE_RNG 8.
Definition hv_dst_addr_type v := rd v CommonHeader_DST_ADDR_INFO_RNG 8.
Definition hv_src_addr_type v := rd v CommonHeader_SRC_ADDR_INFO_RNG 8.
Definition hv_dst_ia v := rd v (rshift AddressHeader_DST_IA_RNG CommonHeader_SIZE_BYTES) 64.
Definition hv_dst_isd v := rd v (rshift AddressHeader_DST_ISD_RNG CommonHeader_SIZE_BYTES) 16.
Definition hv_dst_as v := rd v (rshift AddressHeader_DST_AS_RNG CommonHeader_SIZE_BYTES) 64.
Definition hv_src_ia v := rd v (rshift AddressHeader_SRC_IA_RNG CommonHeader_SIZE_BYTES) 64.
Definition hv_src_isd v := rd v (rshift AddressHeader_SRC_ISD_RNG CommonHeader_SIZE_BYTES) 16.
Definition hv_src_as v := rd v (rshift AddressHeader_SRC_AS_RNG CommonHeader_SIZE_BYTES) 64.

(* AddressHeaderLayout::{dst,src}_host_addr_range, shifted by the common header *)
Definition dst_host_rng (src_len dst_len : N) : rng :=
  rshift (rng_of_range AddressHeader_FIXED_SIZE_BITS (AddressHeader_FIXED_SIZE_BITS + dst_len * 8)) CommonHeader_SIZE_BYTES.
Definition src_host_rng (src_len dst_len : N) : rng :=
  let start := AddressHeader_FIXED_SIZE_BITS + dst_len * 8 in
  rshift (rng_of_range start (start + src_len * 8)) CommonHeader_SIZE_BYTES.

(** * Address decoding: WireHostAddr::try_from_parts *)
(* [host_addr] is defined in Wire.Types *)
(* the Err case (size mismatch) carries expected/actual size *)
Definition host_addr_decode (nib : N) (raw : bytes) : option host_addr :=
  if nib =? HAT_IPV4 then (if blen raw =? 4 then Some (HA_V4 raw) else None)
  else if nib =? HAT_IPV6 then (if blen raw =? 16 then Some (HA_V6 raw) else None)
  else if nib =? HAT_SERVICE then (if blen raw =? 4 then Some (HA_Svc (be_val 0 (sub raw 0 2))) else None)
  else (if blen raw <=? 16 then Some (HA_Unknown (hat_unknown_id nib) raw) else None).

Definition hv_dst_host_raw v : res (N * bytes) :=
  s <- hv_src_addr_type v ;; d <- hv_dst_addr_type v ;;
  let r := dst_host_rng (hat_size s) (hat_size d) in
  raw <- get_unchecked v (byte_lo r) (byte_hi r) ;; Ok (d, raw).
Definition hv_src_host_raw v : res (N * bytes) :=
  s <- hv_src_addr_type v ;; d <- hv_dst_addr_type v ;;
  let r := src_host_rng (hat_size s) (hat_size d) in
  raw <- get_unchecked v (byte_lo r) (byte_hi r) ;; Ok (s, raw).
Definition hv_dst_host v : res (option host_addr) :=
  x <- hv_dst_host_raw v ;; Ok (host_addr_decode (fst x) (snd x)).
Definition hv_src_host v : res (option host_addr) :=
  x <- hv_src_host_raw v ;; Ok (host_addr_decode (fst x) (snd x)).

(** ScionHeaderView::path: (path type, byte range of the path inside the header view) *)
Definition hv_path_range v : res (N * N * N) :=
  d <- hv_dst_addr_type v ;; s <- hv_src_addr_type v ;;
  let off := CommonHeader_SIZE_BYTES + addr_hdr_size (hat_size d) (hat_size s) in
  len <- hv_header_len v ;;
  pt <- hv_path_type v ;;
  if pt =? PT_EMPTY then Ok (pt, off, off)
  else if pt =? PT_ONEHOP then
    _ <- get_unchecked v off (off + OneHopPath_SIZE_BYTES) ;; Ok (pt, off, off + OneHopPath_SIZE_BYTES)
  else
    _ <- get_unchecked v off len ;; Ok (pt, off, len).

(** ScionPacketView::header: the header view's bytes *)
Definition pkt_header (v : bytes) : res bytes :=
  len <- hv_header_len v ;; get_unchecked v 0 len.

(** * Standard path view *)
Definition sp_curr_info v := rd v StdPathMeta_CURR_INFO_FIELD_RNG 8.
Definition sp_curr_hop v := rd v StdPathMeta_CURR_HOP_FIELD_RNG 8.
Definition sp_seg0 v := rd v StdPathMeta_SEG0_LEN_RNG 8.
Definition sp_seg1 v := rd v StdPathMeta_SEG1_LEN_RNG 8.
Definition sp_seg2 v := rd v StdPathMeta_SEG2_LEN_RNG 8.
Definition sp_segs v : res (N * N * N) :=
  a <- sp_seg0 v ;; b <- sp_seg1 v ;; c <- sp_seg2 v ;; Ok (a, b, c).

(* checked_info_field_range / checked_hop_field_range: byte range inside the path view *)
Definition info_field_byte_range (i : N) : N * N :=
  let r := rshift (rshift InfoField_TOTAL_RNG (i * InfoField_SIZE_BYTES)) StdPathMeta_SIZE_BYTES in
  (byte_lo r, byte_hi r).
Definition hop_field_byte_range (s0 s1 s2 i : N) : N * N :=
  let base := size_bytes (0, info_field_count s0 s1 s2 * (InfoField_SIZE_BYTES * 8)) in
  let r := rshift (rshift HopField_TOTAL_RNG (base + i * HopField_SIZE_BYTES)) StdPathMeta_SIZE_BYTES in
  (byte_lo r, byte_hi r).
Definition info_fields_byte_range (s0 s1 s2 : N) : N * N :=
  let r := rshift (0, info_field_count s0 s1 s2 * (InfoField_SIZE_BYTES * 8)) StdPathMeta_SIZE_BYTES in
  (byte_lo r, byte_hi r).
Definition hop_fields_byte_range (s0 s1 s2 : N) : N * N :=
  let ie := info_field_count s0 s1 s2 * (InfoField_SIZE_BYTES * 8) in
  let r := rshift (rng_of_range ie (ie + hop_field_count s0 s1 s2 * (HopField_SIZE_BYTES * 8))) StdPathMeta_SIZE_BYTES in
  (byte_lo r, byte_hi r).

Definition sp_info_field_range v (i : N) : res (option (N * N)) :=
  s <- sp_segs v ;; let '(s0, s1, s2) := s in
  if info_field_count s0 s1 s2 <=? i then Ok None else
  let r := info_field_byte_range i in
  _ <- get_unchecked v (fst r) (snd r) ;; Ok (Some r).
Definition sp_hop_field_range v (i : N) : res (option (N * N)) :=
  s <- sp_segs v ;; let '(s0, s1, s2) := s in
  if trunc 8 (hop_field_count s0 s1 s2) <=? i then Ok None else
  let r := hop_field_byte_range s0 s1 s2 i in
  _ <- get_unchecked v (fst r) (snd r) ;; Ok (Some r).
Definition sp_info_fields_range v : res (N * N) :=
  s <- sp_segs v ;; let '(s0, s1, s2) := s in
  let r := info_fields_byte_range s0 s1 s2 in
  _ <- get_unchecked v (fst r) (snd r) ;; Ok r.
Definition sp_hop_fields_range v : res (N * N) :=
  s <- sp_segs v ;; let '(s0, s1, s2) := s in
  let r := hop_fields_byte_range s0 s1 s2 in
  _ <- get_unchecked v (fst r) (snd r) ;; Ok r.

(** info / hop field views (fixed-size arrays) *)
Definition if_flags v := rd v InfoField_FLAGS_RNG 8.
Definition if_segment_id v := rd v InfoField_SEGMENT_ID_RNG 16.
Definition if_timestamp v := rd v InfoField_TIMESTAMP_RNG 32.
Definition hf_flags v := rd v HopField_FLAGS_RNG 8.
Definition hf_exp_time v := rd v HopField_EXP_TIME_RNG 8.
Definition hf_cons_ingress v := rd v HopField_CONS_INGRESS_RNG 16.
Definition hf_cons_egress v := rd v HopField_CONS_EGRESS_RNG 16.
Definition hf_mac v := get_unchecked v (byte_lo HopField_MAC_RNG) (byte_hi HopField_MAC_RNG).

(** UDP datagram view *)
Definition udp_src_port v := rd v UdpDatagram_SRC_PORT_RNG 16.
Definition udp_dst_port v := rd v UdpDatagram_DST_PORT_RNG 16.
Definition udp_length v := rd v UdpDatagram_LENGTH_RNG 16.
Definition udp_checksum v := rd v UdpDatagram_CHECKSUM_RNG 16.
Definition udp_payload_range (v : bytes) : res (N * N) :=
  _ <- get_unchecked v UdpDatagram_HEADER_SIZE_BYTES (blen v) ;; Ok (UdpDatagram_HEADER_SIZE_BYTES, blen v).

(** SCMP payload view *)
Definition scmp_type v := rd v ScmpUnknownMessage_TYPE_RNG 8.
Definition scmp_code v := rd v ScmpUnknownMessage_CODE_RNG 8.
Definition scmp_checksum v := rd v ScmpUnknownMessage_CHECKSUM_RNG 16.
(* offending_packet / data / message_specific_data: &self.0[HEADER_SIZE .. len] (checked index) *)
Definition scmp_tail_range (ty : N) (v : bytes) : res (N * N) :=
  let h := scmp_header_size ty in
  let r : rng := (h * 8, (blen v - h) * 8) in       (* saturating_sub *)
  _ <- index_range v (byte_lo r) (byte_hi r) ;; Ok (byte_lo r, byte_hi r).
