(** Whole packets: bytes accepted by the strict reader re-encode to themselves (C03,
    [decode b = Ok (m, []) -> canonical b -> encode m = b]), for every address kind, the empty /
    one-hop / unsupported path kinds and raw / UDP payloads.  Composition of the per-layer lemmas
    of [CanonicalLayers] along the layout that the strict reader has checked. *)
From Coq Require Import Lia ZifyBool ZifyNat ZifyN.
From Sci Require Import Wire.Codec Wire.Spec_C03 Wire.BitFieldProofs Wire.Proofs_C02 Wire.RoundTripProofs
  Wire.SpecAgreeProofs Wire.SpecDecodeAgree Wire.StdPathRoundTrip Wire.CanonicalLayers.
Local Open Scope N_scope.
Ltac Zify.zify_post_hook ::= Z.div_mod_to_equations.
Arguments N.add : simpl never. Arguments N.sub : simpl never. Arguments N.mul : simpl never.
Arguments N.div : simpl never. Arguments N.modulo : simpl never. Arguments N.pow : simpl never.
Arguments N.shiftr : simpl never. Arguments N.land : simpl never. Arguments N.ltb : simpl never.
Arguments N.leb : simpl never. Arguments N.eqb : simpl never.

(** * a host address accepted by the strict reader: nibble, size and bytes of the model *)
Lemma spec_host_model nib (raw : bytes) x :
  nib < 16 -> blen raw = (nib mod 4 + 1) * 4 -> bytes_ok raw = true -> spec_host nib raw = Some x ->
  host_nibble x = nib /\ host_size x = blen raw /\ host_bytes x = raw.
Proof.
  intros Hn Hl Hok H.
  assert (Hd : host_addr_decode nib raw = Some x) by (apply host_agree; assumption).
  assert (Hb : host_bytes x = raw).
  { apply (host_bytes_of_decoded nib raw x Hok Hd). intros s ->. unfold spec_host in H.
    destruct ((nib / 4 =? 0) && (nib mod 4 =? 0)); [discriminate|].
    destruct ((nib / 4 =? 0) && (nib mod 4 =? 3)); [discriminate|].
    destruct ((nib / 4 =? 1) && (nib mod 4 =? 0)) eqn:C; [|discriminate].
    destruct (all_zero (sl raw 2 2)) eqn:Z; [|discriminate].
    assert (L2 : length (sl raw 2 2) = 2%nat).
    { pose proof (sl_blen raw 2 2 ltac:(lia)) as E. unfold blen in E. lia. }
    destruct (sl raw 2 2) as [|a [|b0 [|c r]]]; cbn [length] in L2; try lia.
    unfold all_zero in Z. cbn [forallb] in Z. apply Bool.andb_true_iff in Z. destruct Z as [Za Z].
    apply Bool.andb_true_iff in Z. destruct Z as [Zb _]. apply N.eqb_eq in Za, Zb. subst. reflexivity. }
  refine (conj _ (conj _ Hb)).
  - (* the nibble: finite check over the 16 nibbles x the shape of x *)
    unfold spec_host in H. cbv zeta in H.
    assert (E : nib = 0 \/ nib = 1 \/ nib = 2 \/ nib = 3 \/ nib = 4 \/ nib = 5 \/ nib = 6 \/ nib = 7 \/ nib = 8 \/ nib = 9
                \/ nib = 10 \/ nib = 11 \/ nib = 12 \/ nib = 13 \/ nib = 14 \/ nib = 15) by lia.
    repeat (destruct E as [->|E]);
      try subst nib;
      repeat match type of H with
      | (if (?a && ?b) then _ else _) = _ => let v := eval vm_compute in (a && b) in change (a && b) with v in H; cbv iota in H
      end;
      try (destruct (all_zero (sl raw 2 2)); [|discriminate]);
      inversion H; try subst x; cbn [host_nibble]; try reflexivity;
      try (rewrite Hl; vm_compute; reflexivity).
  - rewrite <- Hb. unfold host_addr_decode in Hd.
    repeat match type of Hd with (if ?c then _ else _) = _ => destruct c eqn:? end;
      inversion Hd; try subst x; cbn [host_size host_bytes];
      try match goal with Q : (blen raw =? _) = true |- _ => apply N.eqb_eq in Q; rewrite Q; reflexivity end;
      try reflexivity.
Qed.

(** * standard paths accepted by the strict reader *)
Lemma spec_infos_nth (x : bytes) n : forall o infos, spec_infos x o n = Some infos ->
  length infos = n /\ forall k y, nth_error infos k = Some y -> spec_info x (o + 8 * N.of_nat k) = Some y.
Proof.
  induction n as [|n IH]; intros o infos H; cbn [spec_infos] in H.
  - inversion H. split; [reflexivity|]. intros k y Hk. destruct k; discriminate.
  - destruct (spec_info x o) as [i|] eqn:Ei; [|discriminate].
    destruct (spec_infos x (o + 8) n) as [r|] eqn:Er; [|discriminate]. inversion H; subst infos.
    destruct (IH _ _ Er) as [Lr Hr]. split; [cbn [length]; rewrite Lr; reflexivity|].
    intros k y Hk. destruct k as [|k]; cbn [nth_error] in Hk.
    + inversion Hk; subst y. change (N.of_nat 0) with 0. rewrite N.mul_0_r, N.add_0_r. exact Ei.
    + rewrite Nat2N.inj_succ. replace (o + 8 * N.succ (N.of_nat k)) with (o + 8 + 8 * N.of_nat k) by lia. apply Hr. exact Hk.
Qed.

Lemma spec_hops_nth (x : bytes) n : forall o,
  length (spec_hops x o n) = n /\ forall k y, nth_error (spec_hops x o n) k = Some y -> y = spec_hop x (o + 12 * N.of_nat k).
Proof.
  induction n as [|n IH]; intros o; cbn [spec_hops].
  - split; [reflexivity|]. intros k y Hk. destruct k; discriminate.
  - destruct (IH (o + 12)) as [Lr Hr]. split; [cbn [length]; rewrite Lr; reflexivity|].
    intros k y Hk. destruct k as [|k]; cbn [nth_error] in Hk.
    + inversion Hk. change (N.of_nat 0) with 0. rewrite N.mul_0_r, N.add_0_r. reflexivity.
    + rewrite Nat2N.inj_succ. replace (o + 12 * N.succ (N.of_nat k)) with (o + 12 + 12 * N.of_nat k) by lia. apply Hr. exact Hk.
Qed.

Lemma seg_len8_of (segs : list segment) i s (n : N) : nth_error segs i = Some s -> N.of_nat (length (s_hops s)) = n -> n < 256 ->
  seg_len8 segs i = n.
Proof. intros H L B. unfold seg_len8. rewrite H, L. unfold trunc. change (2 ^ 8) with 256. apply N.mod_small. exact B. Qed.

Lemma firstn_len_N {A} (l : list A) (n : N) : n <= N.of_nat (length l) -> N.of_nat (length (firstn (N.to_nat n) l)) = n.
Proof. intros H. rewrite firstn_length. lia. Qed.

Lemma spec_std_model (x : bytes) p : bytes_ok x = true -> spec_std x = Some p ->
  path_type_num p = 1 /\ path_size p = blen x /\ (forall B, bytes_ok B = true -> blen B = blen x -> encode_path p B = x).
Proof.
  intros Hok H. unfold spec_std in H. rewrite len_blen in H.
  destruct (blen x <? 4) eqn:L4; [discriminate|]. apply N.ltb_ge in L4. cbv zeta in H.
  remember (be x 0 4) as m eqn:Hm.
  remember ((m / 2 ^ 12) mod 64) as s0 eqn:Hs0. remember ((m / 2 ^ 6) mod 64) as s1 eqn:Hs1. remember (m mod 64) as s2 eqn:Hs2.
  assert (B0 : s0 < 64) by (rewrite Hs0; apply N.mod_lt; discriminate).
  assert (B1 : s1 < 64) by (rewrite Hs1; apply N.mod_lt; discriminate).
  assert (B2 : s2 < 64) by (rewrite Hs2; apply N.mod_lt; discriminate).
  remember ((if 0 <? s0 then 1 else 0) + (if 0 <? s1 then 1 else 0) + (if 0 <? s2 then 1 else 0)) as ni eqn:Hni.
  match type of H with (if negb ?c then _ else _) = _ => destruct c eqn:C; cbn [negb] in H; [|discriminate] end.
  apply Bool.andb_true_iff in C. destruct C as [C CL]. apply Bool.andb_true_iff in C. destruct C as [CR CP].
  apply N.eqb_eq in CL, CR. apply Bool.andb_true_iff in CP. destruct CP as [P0 P1].
  destruct (spec_infos x 4 (N.to_nat ni)) as [infos|] eqn:EI; [|discriminate].
  destruct (spec_infos_nth x _ _ _ EI) as [Linf Ninf].
  destruct (spec_hops_nth x (N.to_nat (s0 + s1 + s2)) (4 + 8 * ni)) as [Lhop Nhop].
  remember (spec_hops x (4 + 8 * ni) (N.to_nat (s0 + s1 + s2))) as hops eqn:Hhops.
  (* the three shapes of the segment list *)
  assert (Shape : exists segs, p = DP_Std (m / 2 ^ 30) ((m / 2 ^ 24) mod 64) segs
                   /\ seg_len8 segs 0 = s0 /\ seg_len8 segs 1 = s1 /\ seg_len8 segs 2 = s2
                   /\ map s_info segs = infos /\ std_hops segs = hops).
  { rewrite P0 in *. apply N.ltb_lt in P0.
    destruct (0 <? s1) eqn:Q1.
    - apply N.ltb_lt in Q1. destruct (0 <? s2) eqn:Q2.
      + apply N.ltb_lt in Q2. subst ni. change (N.to_nat (1 + 1 + 1)) with 3%nat in *.
        destruct infos as [|i0 [|i1 [|i2 [|i3 r]]]]; cbn [length] in Linf; try lia.
        cbn [nth_error app] in H. inversion H; subst p. eexists. split; [reflexivity|].
        assert (E01 : N.to_nat (s0 + s1) = (N.to_nat s0 + N.to_nat s1)%nat) by lia.
        refine (conj _ (conj _ (conj _ (conj eq_refl _)))).
        * eapply seg_len8_of; [reflexivity|cbn [s_hops]; apply firstn_len_N; cbn [skipn]; rewrite Lhop; lia|lia].
        * eapply seg_len8_of; [reflexivity|cbn [s_hops]; apply firstn_len_N; rewrite skipn_length, Lhop; lia|lia].
        * eapply seg_len8_of; [reflexivity|cbn [s_hops]; apply firstn_len_N; rewrite skipn_length, Lhop; lia|lia].
        * unfold std_hops. cbn [flat_map s_hops app skipn]. rewrite app_nil_r.
          rewrite E01. rewrite <- (skipn_skipn' (N.to_nat s1) (N.to_nat s0) hops).
          rewrite (firstn_all2 (n := N.to_nat s2)) by (rewrite !skipn_length, Lhop; lia).
          rewrite firstn_skipn. apply firstn_skipn.
      + subst ni. change (N.to_nat (1 + 1 + 0)) with 2%nat in *.
        destruct infos as [|i0 [|i1 [|i2 r]]]; cbn [length] in Linf; try lia.
        cbn [nth_error app] in H. inversion H; subst p. eexists. split; [reflexivity|].
        apply N.ltb_ge in Q2. assert (Z2 : s2 = 0) by lia.
        refine (conj _ (conj _ (conj _ (conj eq_refl _)))).
        * eapply seg_len8_of; [reflexivity|cbn [s_hops]; apply firstn_len_N; cbn [skipn]; rewrite Lhop; lia|lia].
        * eapply seg_len8_of; [reflexivity|cbn [s_hops]; apply firstn_len_N; rewrite skipn_length, Lhop; lia|lia].
        * rewrite Z2. reflexivity.
        * unfold std_hops. cbn [flat_map s_hops app skipn]. rewrite app_nil_r.
          rewrite (firstn_all2 (n := N.to_nat s1)) by (rewrite skipn_length, Lhop; lia). apply firstn_skipn.
    - cbn [orb] in P1. apply N.eqb_eq in P1. apply N.ltb_ge in Q1. assert (Z1 : s1 = 0) by lia.
      assert (Q2 : (0 <? s2) = false) by (apply N.ltb_ge; lia). rewrite Q2 in *.
      subst ni. change (N.to_nat (1 + 0 + 0)) with 1%nat in *.
      destruct infos as [|i0 [|i1 r]]; cbn [length] in Linf; try lia.
      cbn [nth_error app] in H. inversion H; subst p. eexists. split; [reflexivity|].
      refine (conj _ (conj _ (conj _ (conj eq_refl _)))).
      + eapply seg_len8_of; [reflexivity|cbn [s_hops]; apply firstn_len_N; cbn [skipn]; rewrite Lhop; lia|lia].
      + rewrite Z1. reflexivity.
      + rewrite P1. reflexivity.
      + unfold std_hops. cbn [flat_map s_hops app skipn]. rewrite app_nil_r. apply firstn_all2. rewrite Lhop. lia. }
  destruct Shape as (segs & -> & S0 & S1 & S2 & Einf & Ehop).
  assert (Eni : info_field_count s0 s1 s2 = ni) by (rewrite Hni; reflexivity).
  refine (conj eq_refl (conj _ _)).
  - cbn [path_size]. rewrite S0, S1, S2. unfold std_data_size, hop_field_count. rewrite Eni.
    change StdPathMeta_SIZE_BYTES with 4. change InfoField_SIZE_BYTES with 8. change HopField_SIZE_BYTES with 12. rewrite CL. lia.
  - intros B HB LB.
    apply (encode_decode_stdpath x B _ _ segs Hok HB LB); cbv zeta; rewrite ?S0, ?S1, ?S2, ?Eni; unfold hop_field_count; rewrite <- ?Hm.
    + rewrite CL. lia.
    + exact CR.
    + reflexivity.
    + reflexivity.
    + exact Hs0.
    + exact Hs1.
    + exact Hs2.
    + rewrite Einf, Linf. lia.
    + rewrite Ehop, Lhop. lia.
    + intros k y Hy. rewrite Einf in Hy. pose proof (Ninf k y Hy) as Sy.
      assert (Kl : N.of_nat k < ni) by (apply nth_error_Some_lt in Hy; lia).
      replace (4 + N.of_nat k * 8) with (4 + 8 * N.of_nat k) by lia.
      split.
      * apply decode_info_at; [exact Hok|rewrite CL; lia|exact Sy].
      * unfold spec_info in Sy. destruct (be x (4 + 8 * N.of_nat k + 1) 1 =? 0) eqn:Z; [|discriminate]. apply N.eqb_eq in Z. exact Z.
    + intros k y Hy. rewrite Ehop in Hy. pose proof (Nhop k y Hy) as Sy. subst y.
      assert (Kl : N.of_nat k < s0 + s1 + s2) by (apply nth_error_Some_lt in Hy; lia).
      replace (4 + ni * 8 + N.of_nat k * 12) with (4 + 8 * ni + 12 * N.of_nat k) by lia.
      apply decode_hop_at; [exact Hok|rewrite CL; lia].
Qed.

(** * any path accepted by the strict reader *)
Lemma spec_path_model pt (x : bytes) p : bytes_ok x = true -> spec_path pt x = Some p ->
  path_type_num p = pt /\ path_size p = blen x /\ (forall B, bytes_ok B = true -> blen B = blen x -> encode_path p B = x).
Proof.
  intros Hok H. pose proof H as H0. unfold spec_path in H.
  destruct (pt =? 0) eqn:P0.
  { apply N.eqb_eq in P0. subst pt. rewrite len_blen in H. destruct (blen x =? 0) eqn:L; [|discriminate]. apply N.eqb_eq in L.
    inversion H; subst p. refine (conj eq_refl (conj (eq_sym L) _)). intros B _ HB.
    destruct (encode_decode_plain_paths x B 0 HB) as [_ E]. apply E. exact L. }
  destruct (pt =? 1) eqn:P1; [apply N.eqb_eq in P1; subst pt; apply spec_std_model; assumption|].
  destruct (pt =? 2) eqn:P2.
  { apply N.eqb_eq in P2. subst pt. rewrite len_blen in H. destruct (blen x =? 32) eqn:L; [|discriminate]. apply N.eqb_eq in L.
    destruct (spec_info x 0) as [i|] eqn:Ei; [|discriminate]. inversion H; subst p.
    refine (conj eq_refl (conj (eq_sym L) _)). intros B _ HB.
    assert (R : be x 1 1 = 0).
    { unfold spec_info in Ei. change (0 + 1) with 1 in Ei. destruct (be x 1 1 =? 0) eqn:Z; [|discriminate]. apply N.eqb_eq in Z. exact Z. }
    apply (encode_decode_onehop x _ B Hok L R); [|lia]. apply onehop_agree; assumption. }
  inversion H; subst p. refine (conj eq_refl (conj eq_refl _)). intros B _ HB.
  destruct (encode_decode_plain_paths x B pt HB) as [E _]. exact E.
Qed.

Lemma sub_concat (b : bytes) a c e : a <= c -> c <= e -> e <= blen b -> sub b a c ++ sub b c e = sub b a e.
Proof.
  intros H1 H2 H3. unfold sub, blen in *.
  replace (N.to_nat (e - a)) with (N.to_nat (c - a) + N.to_nat (e - c))%nat by lia.
  rewrite firstn_sum_split. f_equal. rewrite skipn_skipn'. do 2 f_equal. lia.
Qed.

Lemma sl_of_sub (b : bytes) a c o k : a + o + k <= c -> c <= blen b -> sl (sub b a c) o k = sl b (a + o) k.
Proof. intros H1 H2. rewrite !sl_sub. rewrite sub_sub by lia. f_equal. lia. Qed.

(** * whole packets *)
Theorem canonical_reencode kind (b : bytes) m alh al :
  bytes_ok b = true -> spec_decode kind b = Some m ->
  (kind = 0 \/ (kind = 1 /\ forall h hl pl, spec_header b = Some (h, hl, pl) ->
                   be (sl b hl pl) 6 2 = l4_checksum h PROTO_UDP (put 6 [0; 0] (sl b hl pl)) alh al)) ->
  encode_packet_al m alh al = b.
Proof.
  intros Hok H Hkind. unfold spec_decode in H.
  destruct (spec_header b) as [[[h hl] pl]|] eqn:Hh; [|discriminate].
  rewrite len_blen in H. destruct (blen b =? hl + pl) eqn:EL; cbn [negb] in H; [|discriminate]. apply N.eqb_eq in EL.
  pose proof Hh as Hh0.
  (* the facts the strict reader has checked *)
  unfold spec_header in Hh. rewrite len_blen in Hh.
  destruct (blen b <? 12) eqn:L12; [discriminate|]. apply N.ltb_ge in L12. cbv zeta in Hh.
  assert (X0 : be b 0 1 < 256) by (apply (be_lt b 0 1 Hok); lia).
  assert (X1 : be b 1 1 < 256) by (apply (be_lt b 1 1 Hok); lia).
  assert (X2 : be b 2 2 < 65536) by (apply (be_lt b 2 2 Hok); lia).
  assert (X4 : be b 4 1 < 256) by (apply (be_lt b 4 1 Hok); lia).
  assert (X5 : be b 5 1 < 256) by (apply (be_lt b 5 1 Hok); lia).
  assert (X6 : be b 6 2 < 65536) by (apply (be_lt b 6 2 Hok); lia).
  assert (X8 : be b 8 1 < 256) by (apply (be_lt b 8 1 Hok); lia).
  assert (L9 : be b 9 1 < 256) by (apply (be_lt b 9 1 Hok); lia).
  remember (be b 9 1 / 16) as nd eqn:Hnd. remember (be b 9 1 mod 16) as ns eqn:Hns.
  assert (Ld : nd < 16) by lia. assert (Ls : ns < 16) by lia.
  remember ((nd mod 4 + 1) * 4) as dl eqn:Hdl. remember ((ns mod 4 + 1) * 4) as sl_ eqn:Hsl.
  remember (be b 5 1 * 4) as hl0 eqn:Hhl0. remember (be b 8 1) as pt eqn:Hptq.
  remember (12 + 16 + dl + sl_) as po eqn:Hpo.
  assert (Bdl : dl <= 16) by (clear - Hdl; lia). assert (Bsl : sl_ <= 16) by (clear - Hsl; lia).
  assert (Bdl4 : 4 <= dl) by (clear - Hdl; lia). assert (Bsl4 : 4 <= sl_) by (clear - Hsl; lia).
  match type of Hh with (if negb ?c then _ else _) = _ => destruct c eqn:C; cbn [negb] in Hh; [|discriminate] end.
  apply Bool.andb_true_iff in C. destruct C as [C C4]. apply Bool.andb_true_iff in C. destruct C as [C C3].
  apply Bool.andb_true_iff in C. destruct C as [C1 C2]. apply N.leb_le in C3, C4. apply N.eqb_eq in C1, C2.
  destruct (spec_host nd (sl b 28 dl)) as [dh|] eqn:Hdh; [|discriminate].
  destruct (spec_host ns (sl b (28 + dl) sl_)) as [sh|] eqn:Hsh; [|discriminate].
  destruct (spec_path pt (sl b po (hl0 - po))) as [pth|] eqn:Hp; [|discriminate].
  inversion Hh; subst h hl pl. clear Hh.
  set (h := mkH ((be b 0 1 mod 16) * 16 + be b 1 1 / 16) ((be b 1 1 mod 16) * 65536 + be b 2 2) (be b 4 1) (be b 12 8) (be b 20 8) dh sh pth) in *.
  remember (be b 6 2) as pl0 eqn:Hpl0.
  (* model facts *)
  assert (B1 : blen (sl b 28 dl) = (nd mod 4 + 1) * 4) by (rewrite sl_blen by (clear - Hpo C3 C4; lia); exact Hdl).
  assert (B2 : blen (sl b (28 + dl) sl_) = (ns mod 4 + 1) * 4) by (rewrite sl_blen by (clear - Hpo C3 C4; lia); exact Hsl).
  destruct (spec_host_model nd _ dh Ld B1 (bytes_ok_sl b 28 dl Hok) Hdh) as (Dn & Dsz & Db).
  destruct (spec_host_model ns _ sh Ls B2 (bytes_ok_sl b (28 + dl) sl_ Hok) Hsh) as (Sn & Ssz & Sb).
  rewrite B1, <- Hdl in Dsz. rewrite B2, <- Hsl in Ssz.
  assert (Lx : blen (sl b po (hl0 - po)) = hl0 - po) by (apply sl_blen; clear - C3 C4; lia).
  destruct (spec_path_model pt _ pth (bytes_ok_sl b po (hl0 - po) Hok) Hp) as (Pn & Psz & Penc). rewrite Lx in Psz, Penc.
  assert (Tdl : trunc 8 dl = dl) by (unfold trunc; change (2 ^ 8) with 256; apply N.mod_small; clear - Bdl; lia).
  assert (Tsl : trunc 8 sl_ = sl_) by (unfold trunc; change (2 ^ 8) with 256; apply N.mod_small; clear - Bsl; lia).
  assert (Asz : addr_size h = 16 + dl + sl_).
  { unfold addr_size. cbn [h_dst_host h_src_host h]. rewrite Dsz, Ssz, Tdl, Tsl. rewrite addr_size_sum. clear; lia. }
  assert (Hsz : header_size h = hl0).
  { unfold header_size. rewrite Asz. cbn [h_path h]. rewrite Psz. unfold CommonHeader_SIZE_BYTES. clear - Hpo C3; lia. }
  (* the slices *)
  set (cv := sub b 0 12). set (av := sub b 12 po). set (xv := sl b po (hl0 - po)). set (pv := sl b hl0 pl0).
  assert (Lcv : blen cv = 12) by (unfold cv; rewrite blen_sub by (clear - L12; lia); reflexivity).
  assert (Lav : blen av = 16 + dl + sl_) by (unfold av; rewrite blen_sub by (clear - C3 C4; lia); clear - Hpo; lia).
  assert (Lpv : blen pv = pl0) by (unfold pv; apply sl_blen; clear - EL; lia).
  assert (Eb : b = cv ++ av ++ xv ++ pv).
  { unfold cv, av, xv, pv. rewrite !sl_sub.
    replace (po + (hl0 - po)) with hl0 by (clear - C3; lia). replace (hl0 + pl0) with (blen b) by (clear - EL; lia).
    rewrite (sub_concat b po hl0 (blen b)) by (clear - C3 C4; lia).
    rewrite (sub_concat b 12 po (blen b)) by (clear - C3 C4 Hpo; lia).
    rewrite (sub_concat b 0 12 (blen b)) by (clear - L12; lia). symmetry. apply sub_all. }
  (* the payload *)
  assert (Pay : exists pl_, p_pl m = pl_ /\ p_hdr m = h /\ payload_size pl_ hl0 = pl0
                /\ (forall B, bytes_ok B = true -> blen B = blen pv -> encode_payload h pl_ hl0 alh al B = pv)).
  { destruct Hkind as [->|[-> Hcs]].
    - inversion H; subst m. eexists. refine (conj eq_refl (conj eq_refl (conj _ _))).
      + cbn [payload_size]. exact Lpv.
      + intros B _ HB. apply encode_decode_raw_payload. exact HB.
    - destruct (h_nh h =? 17); [|discriminate].
      destruct (spec_udp (sl b hl0 pl0)) as [x|] eqn:Eu; [|discriminate]. inversion H; subst m. fold pv in Eu.
      destruct (udp_agree pv x (bytes_ok_sl b hl0 pl0 Hok) Eu) as (_ & _ & Du).
      unfold spec_udp in Eu. rewrite len_blen in Eu.
      destruct (blen pv <? 8) eqn:L8; [discriminate|]. apply N.ltb_ge in L8.
      destruct (be pv 4 2 =? blen pv) eqn:El; cbn [negb] in Eu; [|discriminate]. apply N.eqb_eq in El.
      inversion Eu; subst x. clear Eu.
      eexists. refine (conj eq_refl (conj eq_refl (conj _ _))).
      + cbn [p_pl payload_size]. change UdpDatagram_HEADER_SIZE_BYTES with 8. rewrite sl_blen by (clear - L8; lia). clear - L8 Lpv; lia.
      + intros B _ HB. apply (encode_decode_udp h pv B _ _ _ hl0 alh al (bytes_ok_sl b hl0 pl0 Hok) L8 ltac:(rewrite Lpv; clear - X6 Hpl0; lia) El Du HB).
        apply (Hcs h hl0 pl0). first [reflexivity | exact Hh0]. }
  destruct Pay as (pl_ & Epl & Ehd & Eps & Fp).
  transitivity (cv ++ av ++ xv ++ pv); [|symmetry; exact Eb].
  pose proof (compose_packet m alh al cv av xv pv) as CP. cbv zeta in CP. rewrite Ehd, Epl, Hsz, Eps in CP.
  apply CP; clear CP.
  - rewrite Asz. cbn [h_dst_host h_src_host h]. rewrite Dsz, Ssz. reflexivity.
  - cbn [h_dst_host h]. rewrite Dsz. exact Bdl.
  - cbn [h_dst_host h]. rewrite Db, Dsz. rewrite sl_blen by (clear - Hpo C3 C4; lia). reflexivity.
  - cbn [h_src_host h]. rewrite Sb, Ssz. rewrite sl_blen by (clear - Hpo C3 C4; lia). reflexivity.
  - exact Lcv.
  - rewrite Asz. exact Lav.
  - cbn [h_path h]. rewrite Psz. exact Lx.
  - exact Lpv.
  - (* common header *)
    intros B HB LB.
    pose proof (spec_common_agrees b Hok ltac:(unfold CommonHeader_SIZE_BYTES; exact L12)) as CA. cbv zeta in CA.
    destruct CA as (Ev & Etc & Efl & Enh & Ehl & Epl' & Ept & Edn & Esn & Ersv).
    assert (RP : forall r bits, byte_hi r <= 12 -> rd cv r bits = rd b r bits) by (intros r bits Hr; unfold cv; apply rd_prefix; [exact Hr|exact L12]).
    assert (Tu : trunc 8 (hl0 / 4) = be b 5 1) by (unfold trunc; change (2 ^ 8) with 256; rewrite Hhl0; clear - X5; lia).
    assert (Tp : trunc 16 pl0 = pl0) by (unfold trunc; change (2 ^ 16) with 65536; apply N.mod_small; clear - X6 Hpl0; lia).
    rewrite Tu, Tp.
    apply (encode_decode_common cv B h (be b 5 1) pl0 (bytes_ok_sub b 0 12 Hok) Lcv HB LB).
    + cbn [h_tc h]. clear - X0 X1; lia.
    + cbn [h_flow h]. change (2 ^ 20) with 1048576. clear - X1 X2; lia.
    + cbn [h_nh h]. exact X4.
    + exact X5.
    + clear - X6 Hpl0; lia.
    + cbn [h_path h]. rewrite Pn. clear - X8 Hptq; lia.
    + cbn [h_dst_host h]. rewrite Dn. exact Ld.
    + cbn [h_src_host h]. rewrite Sn. exact Ls.
    + unfold hv_version in *. rewrite RP by (apply N.leb_le; vm_compute; reflexivity). rewrite Ev, C1. reflexivity.
    + rewrite RP by (apply N.leb_le; vm_compute; reflexivity). rewrite Ersv, C2. reflexivity.
    + unfold hv_traffic_class in *. rewrite RP by (apply N.leb_le; vm_compute; reflexivity). exact Etc.
    + unfold hv_flow_id in *. rewrite RP by (apply N.leb_le; vm_compute; reflexivity). exact Efl.
    + unfold hv_next_header in *. rewrite RP by (apply N.leb_le; vm_compute; reflexivity). exact Enh.
    + unfold hv_header_len in *. rewrite RP by (apply N.leb_le; vm_compute; reflexivity). exact Ehl.
    + unfold hv_payload_len in *. rewrite RP by (apply N.leb_le; vm_compute; reflexivity). rewrite Epl', Hpl0. reflexivity.
    + unfold hv_path_type in *. rewrite RP by (apply N.leb_le; vm_compute; reflexivity). cbn [h_path h]. rewrite Pn, Ept, Hptq. reflexivity.
    + unfold hv_dst_addr_type in *. rewrite RP by (apply N.leb_le; vm_compute; reflexivity). cbn [h_dst_host h]. rewrite Dn, Edn, Hnd. reflexivity.
    + unfold hv_src_addr_type in *. rewrite RP by (apply N.leb_le; vm_compute; reflexivity). cbn [h_src_host h]. rewrite Sn, Esn, Hns. reflexivity.
  - (* address header *)
    intros B HB LB.
    apply (encode_decode_addr av B h (bytes_ok_sub b 12 po Hok)); cbn [h_dst_host h_src_host h_dst_ia h_src_ia h]; rewrite ?Dsz, ?Ssz.
    + exact Bdl.
    + exact Bsl.
    + exact Lav.
    + exact LB.
    + unfold av. rewrite be_sub by (clear - Hpo C3 C4 Bdl4 Bsl4; lia). reflexivity.
    + unfold av. rewrite be_sub by (clear - Hpo C3 C4 Bdl4 Bsl4; lia). reflexivity.
    + rewrite Db. unfold av. rewrite sl_of_sub by (clear - Hpo C3 C4; lia). reflexivity.
    + rewrite Sb. unfold av. rewrite sl_of_sub by (clear - Hpo C3 C4; lia). f_equal. clear; lia.
  - (* path *)
    intros B HB LB. cbn [h_path h]. apply Penc; [exact HB|]. fold xv in Lx. rewrite LB. exact Lx.
  - exact Fp.
Qed.


(** * the statement in terms of the decoder *)
(** canonical bytes of packet kind 0 (raw) / 1 (UDP): accepted by the strict reader -- consistent
    HdrLen / PayloadLen / UDP Length, no trailing bytes, all reserved bits and the service-address
    padding zero, segment lengths a non-zero prefix -- and, for UDP, the checksum field is the
    checksum the encoder computes (over the datagram with a zeroed field) *)
Definition udp_checksum_canonical (b : bytes) (alh al : bool) : Prop :=
  forall h hl pl, spec_header b = Some (h, hl, pl) ->
    be (sl b hl pl) 6 2 = l4_checksum h PROTO_UDP (put 6 [0; 0] (sl b hl pl)) alh al.
Definition canonical_bytes (kind : N) (b : bytes) (alh al : bool) : Prop :=
  (exists m, spec_decode kind b = Some m) /\ (kind = 0 \/ (kind = 1 /\ udp_checksum_canonical b alh al)).

Theorem decode_canonical_reencode kind (b : bytes) m rest alh al :
  bytes_ok b = true -> decode_packet kind b = Ok (m, rest) -> canonical_bytes kind b alh al ->
  rest = [] /\ encode_packet_al m alh al = b
  /\ (packet_wire_valid m = true -> alh = true -> al = true -> try_encode m = Some b).
Proof.
  intros Hok Hd [[m' Hs] Hk].
  pose proof (spec_decode_dec kind b m' Hok Hs) as D. rewrite D in Hd. inversion Hd; subst m' rest. clear Hd.
  pose proof (canonical_reencode kind b m alh al Hok Hs Hk) as E.
  refine (conj eq_refl (conj E _)). intros V -> ->. unfold try_encode, encode_packet. rewrite V, E. reflexivity.
Qed.
