(** C02 -- parsing untrusted bytes is total and memory-safe: property theorems only.
    Each theorem is closed by [exact]/short glue from lemmas of [Proofs_C02], and followed by
    [Print Assumptions]. *)
From Sci Require Import Wire.Views Wire.Spec_C02 Wire.Proofs_C02.
Local Open Scope N_scope.

(** For every view type and EVERY byte string: the size a view constructor reports as the
    view's own never exceeds the input. *)
Theorem required_size_sound :
  forall (k : vkind) (b : bytes) (n : N), required_size k b = Ok n -> size_within n (blen b) = true.
Proof. intros k b n H. unfold size_within. apply N.leb_le. exact (required_size_sound_all k b n H). Qed.
Print Assumptions required_size_sound.

(** Every bit range of the generated layout tables that is read or written through the
    128-bit lane fits the lane (<= 16 bytes, value <= 64 bits), and a lane read looks at no
    byte outside the range's containing byte range.  (finite table: by computation) *)
Theorem lane_read_in_range :
  forallb (fun r => (size_bytes r <=? LANE_BYTES) && (r_width r <=? 64)) lane_ranges = true
  /\ forall b b' r, sub b (byte_lo r) (byte_hi r) = sub b' (byte_lo r) (byte_hi r) -> lane_read b r = lane_read b' r.
Proof. split; [exact lane_ranges_fit_lane|exact lane_read_local]. Qed.
Print Assumptions lane_read_in_range.
