(** C02 -- parsing untrusted bytes is total and memory-safe: property theorems only.
    Each theorem is closed by [exact]/short glue from lemmas of [Proofs_C02], and followed by
    [Print Assumptions]. *)
From Sci Require Import Wire.Views Wire.Spec_C02 Wire.Proofs_C02 Wire.Proofs_C02b Wire.Proofs_C02c Wire.Proofs_C02d Wire.Proofs_C02e Wire.Proofs_C02f.
Local Open Scope N_scope.

(** For every view type and EVERY byte string: the size a view constructor reports as the
    view's own never exceeds the input. *)
Theorem required_size_sound :
  forall (k : vkind) (b : bytes) (n : N), required_size k b = Ok n -> size_within n (blen b) = true.
Proof. intros k b n H. unfold size_within. apply N.leb_le. exact (required_size_sound_all k b n H). Qed.
Print Assumptions required_size_sound.

(** Every bit range of the generated layout tables that is read or written through the
    128-bit lane fits the lane (<= 16 bytes, value <= 64 bits), and a lane read looks at no
    byte outside the range's containing byte range.  (finite table: by computation) *)
Theorem lane_read_in_range :
  forallb (fun r => (size_bytes r <=? LANE_BYTES) && (r_width r <=? 64)) lane_ranges = true
  /\ forall b b' r, sub b (byte_lo r) (byte_hi r) = sub b' (byte_lo r) (byte_hi r) -> lane_read b r = lane_read b' r.
Proof. split; [exact lane_ranges_fit_lane|exact lane_read_local]. Qed.
Print Assumptions lane_read_in_range.

(** No input makes a view constructor panic, i.e. (in the model, where every read is
    bounds-checked against the sub-slice at hand) no constructor reads a byte beyond the
    length it has already checked: [has_required_size] and [try_from_slice] of all eleven
    view kinds, for every byte string. *)
Theorem constructors_never_panic :
  forall (k : vkind) (b : bytes),
    is_panic (required_size k b) = false /\ is_panic (try_from_slice k b) = false.
Proof. intros k b. split; [apply required_size_np|apply try_from_slice_np]. Qed.
Print Assumptions constructors_never_panic.

(** Every accessor that reads one field at a fixed offset (33 accessors of header, standard
    path meta header, info field, hop field, UDP datagram and SCMP payload views) stays
    inside the view, for every accepted byte string.
    PARTIAL with respect to "every safe accessor": the accessors whose offset is computed
    from fields (host addresses, path / hop field / info field sub-views, payload, udp(),
    scmp(), offending packet, dst_port) are modelled in [Wire.Views.run_acc] and covered by
    the correspondence check (observed slice ranges inside the view, no panic), not by a
    theorem. *)
Theorem accessor_in_bounds_partial :
  forall k id r bits arg (b : bytes) (n : N),
    In (k, id, r, bits) fixed_accessors -> required_size k b = Ok n ->
    is_panic (run_acc k id arg (sub b 0 n)) = false /\ Spec_C02.lane_within n (fst r) (snd r) = true.
Proof.
  intros k id r bits arg b n Hin Hs. split; [eapply fixed_accessor_in_bounds; eauto|].
  pose proof fixed_accessors_fit as F. rewrite forallb_forall in F. specialize (F _ Hin). cbn beta iota in F.
  apply Bool.andb_true_iff in F. destruct F as [F1 F2].
  pose proof (required_size_min k b n Hs) as M.
  unfold Spec_C02.lane_within. apply Bool.andb_true_iff. split.
  - exact F1.
  - apply N.leb_le. apply N.leb_le in F2. unfold byte_hi, r_end in F2. lia.
Qed.
Print Assumptions accessor_in_bounds_partial.

(** Every safe mutator -- ALL of them, including the two deliberate exceptions of
    [safe_setters_preserve_layout] (set_version, UdpDatagramView::set_length) -- and by induction
    every sequence of safe mutators leaves the extent of the view unchanged and writes only
    through bounds-checked ranges: if the model does not report a Panic the result has exactly the
    length of the view.  (That the mutated bytes are also re-validated to the same size is
    [safe_setters_preserve_layout] below.) *)
Theorem safe_mutators_preserve_extent :
  forall (k : vkind) (ms : list (N * N * N)) (v v' : bytes),
    run_muts k ms v = Ok v' -> length v' = length v.
Proof. exact run_muts_length. Qed.
Print Assumptions safe_mutators_preserve_extent.

(** The setters of size-determining fields are exactly the [unsafe fn]s (generated from the
    view sources): no range written by a SAFE generated setter overlaps a field that
    [has_required_size] of the same view reads, the typed packet views' [as_raw_mut] are
    unsafe and there is no safe conversion [&mut ScionUdpPacketView -> &mut ScionRawPacketView]. *)
Definition header_size_fields : list rng :=
  [CommonHeader_HEADER_LEN_RNG; CommonHeader_PAYLOAD_LEN_RNG; CommonHeader_PATH_TYPE_RNG;
   CommonHeader_DST_ADDR_INFO_RNG; CommonHeader_SRC_ADDR_INFO_RNG].
Definition stdpath_size_fields : list rng := [StdPathMeta_SEG0_LEN_RNG; StdPathMeta_SEG1_LEN_RNG; StdPathMeta_SEG2_LEN_RNG].
Definition disjoint_from (fields safe : list rng) : bool := forallb (fun s => forallb (rng_disjoint s) fields) safe.
Theorem size_determining_setters_are_unsafe :
  udp_as_raw_mut_is_unsafe = true /\ scmp_as_raw_mut_is_unsafe = true /\ udp_mut_into_raw_mut_impl = false
  /\ disjoint_from header_size_fields ScionHeaderView_safe_writes = true
  /\ disjoint_from stdpath_size_fields StandardPathView_safe_writes = true
  /\ disjoint_from [ScmpMessage_TYPE_RNG]
       (ScmpPayloadView_safe_writes ++ ScmpUnknownMessageView_safe_writes ++ ScmpDestinationUnreachableMessageView_safe_writes
        ++ ScmpPacketTooBigMessageView_safe_writes ++ ScmpParameterProblemMessageView_safe_writes
        ++ ScmpExternalInterfaceDownMessageView_safe_writes ++ ScmpInternalConnectivityDownMessageView_safe_writes
        ++ ScmpEchoRequestMessageView_safe_writes ++ ScmpEchoReplyMessageView_safe_writes
        ++ ScmpTracerouteRequestMessageView_safe_writes ++ ScmpTracerouteReplyMessageView_safe_writes) = true.
Proof. vm_compute. repeat split; reflexivity. Qed.
Print Assumptions size_determining_setters_are_unsafe.

(** Re-validation after ANY sequence of safe mutators gives the same size: for a view [v]
    (bytes the constructor accepted with exactly their length) every sequence of mutator calls
    leaves [required_size] at [Ok (length v)], the length unchanged and every element a byte --
    proved at bit level ([read_write_disjoint]): no covered setter touches a bit the constructor
    reads.  For EVERY view kind and EVERY mutator number of [Views.run_mut] (= the harness's
    numbering; numbers that name no mutator are no-ops) except the three deliberate exceptions of
    [is_layout_exception]:
      InfoFieldView, HopFieldView, OneHopPathView, the typed SCMP message views, StandardPathView
      (set_curr_*, info_field_mut(i) / hop_field_mut(i) setters), ScmpPayloadView (set_code,
      set_checksum, every message_mut() setter incl. payload bytes), UdpDatagramView,
      ScionHeaderView's scalar setters and every setter reached through path_mut() (standard and
      one-hop path views applied to the path sub-view and spliced back: no bit of the common
      header, never a segment length), all of these again through header_mut() of the raw, UDP and
      SCMP packet views (the payload's re-validation is preserved as well), and the raw view's
      payload_mut().
    The exceptions -- ScionHeaderView::set_version (directly and through header_mut()) and
    UdpDatagramView::set_length -- are deliberate in the code: they rewrite a field the CONSTRUCTOR
    reads (version check, UDP length) but no accessor re-derives an extent from them (the view is a
    fat pointer); [Findings_C02] has the witnesses, [safe_mutators_preserve_extent] covers
    them for the extent. *)
Theorem safe_setters_preserve_layout :
  forall (k : vkind) (ms : list (N * N * N)) (v v' : bytes),
    forallb (fun m => negb (is_layout_exception k (fst (fst m)))) ms = true ->
    bytes_ok v = true -> required_size k v = Ok (blen v) -> run_muts k ms v = Ok v' ->
    required_size k v' = Ok (blen v') /\ blen v' = blen v /\ bytes_ok v' = true.
Proof. exact run_muts_preserve_any. Qed.
Print Assumptions safe_setters_preserve_layout.

(** Variable-offset accessors stay inside the view, for every accepted byte string:
    StandardPathView's checked_info_field_range / checked_hop_field_range (info_field(i),
    hop_field(i) for EVERY index i, curr_info_field, curr_hop_field), info_fields(),
    hop_fields(), the counts and calculate_segment_index; ScionHeaderView's dst_host_addr,
    src_host_addr, path(), header_len; header() and payload() of the three packet views; and
    udp() / scmp() of the typed packet views -- their expect() cannot fail on a constructed
    view.
    PARTIAL with respect to "every safe accessor": accessors composed of these (fields of a
    hop field reached through header.path(), expiration(), segments(), dst_port()'s parse of
    the quoted packet, try_as_udp / try_as_scmp) are covered by the correspondence check. *)
Theorem variable_offset_accessors_in_bounds_partial :
  (forall v id arg, required_size_stdpath v = Ok (blen v) -> In id [7; 8; 9; 10; 11; 12; 5; 6; 15] ->
     is_panic (acc_stdpath id arg v) = false)
  /\ (forall b n id arg, required_size_header b = Ok n -> In id [15; 16; 17; 5] ->
     is_panic (acc_header id arg (sub b 0 n)) = false)
  /\ (forall k b n id arg, (k = KRaw \/ k = KUdpPkt \/ k = KScmpPkt) -> required_size k b = Ok n -> (id = 0 \/ id = 1) ->
     is_panic (acc_pkt k id arg (sub b 0 n)) = false)
  /\ (forall b n, required_size KUdpPkt b = Ok n -> is_panic (acc_pkt KUdpPkt 10 0 (sub b 0 n)) = false)
  /\ (forall b n, required_size KScmpPkt b = Ok n -> is_panic (acc_pkt KScmpPkt 10 0 (sub b 0 n)) = false).
Proof.
  refine (conj _ (conj _ (conj _ (conj _ _)))).
  - intros; eapply acc_stdpath_ranges_np; eassumption.
  - intros; eapply header_host_path_np; eassumption.
  - intros; eapply pkt_common_acc_np; eassumption.
  - exact udp_pkt_udp_np.
  - exact scmp_pkt_scmp_np.
Qed.
Print Assumptions variable_offset_accessors_in_bounds_partial.

(** the slices these accessors hand out lie inside the view (ranges, not only absence of a
    panic): hop / info field ranges of a standard path view *)
Theorem std_path_field_ranges_in_view :
  forall v, required_size_stdpath v = Ok (blen v) ->
    (forall i, exists o, sp_hop_field_range v i = Ok o /\
       match o with Some p => Spec_C02.range_in_view (blen v) p = true /\ snd p - fst p = 12 | None => True end)
    /\ (forall i, exists o, sp_info_field_range v i = Ok o /\
       match o with Some p => Spec_C02.range_in_view (blen v) p = true /\ snd p - fst p = 8 | None => True end).
Proof.
  intros v Hv. destruct (sp_ranges_in_view v Hv) as (Hh & Hi & _ & _). split; intros i.
  - destruct (Hh i) as (o & E & P). exists o. split; [exact E|]. destruct o as [p|]; [|exact I].
    destruct P as (P1 & P2 & P3). split; [|exact P3]. unfold Spec_C02.range_in_view.
    apply Bool.andb_true_iff. split; apply N.leb_le; assumption.
  - destruct (Hi i) as (o & E & P). exists o. split; [exact E|]. destruct o as [p|]; [|exact I].
    destruct P as (P1 & P2 & P3). split; [|exact P3]. unfold Spec_C02.range_in_view.
    apply Bool.andb_true_iff. split; apply N.leb_le; assumption.
Qed.
Print Assumptions std_path_field_ranges_in_view.

(** non-vacuity: a 48-byte SCION/UDP packet is accepted by the three packet constructors *)
Example accepted_packet :
  let b := [10;188;222;241;17;9;0;12;0;0;0;0;16;17;18;19;20;21;22;23;24;25;26;27;28;29;30;31;208;209;210;211;80;81;82;83;
            48;57;1;187;0;12;18;52;7;7;7;7] in
  required_size KRaw b = Ok 48 /\ required_size KUdpPkt b = Ok 48 /\ required_size KHeader b = Ok 36.
Proof. vm_compute. repeat split; reflexivity. Qed.

(** The owned constructor [View::try_from_boxed] (core/view.rs; no view type overrides it) accepts
    EXACTLY the boxes whose length is exactly the required size, for all eleven view kinds and
    every byte string: an accepted box is the input itself and has the required size; a box of the
    required size is accepted; a box of any other length -- longer by one byte or by many -- is
    refused with "Boxed buffer size does not match view size"; and it never panics.  (With `<`
    instead of `!=` an oversized [Box<[u8]>] would reach [from_boxed_unchecked], which for the
    fixed-size views is [Box<[u8]> -> Box<[u8; N]>] unchecked.) *)
Theorem boxed_constructor_accepts_exactly_required_size :
  forall (k : vkind) (b : bytes),
    (forall v, try_from_boxed k b = Ok v -> v = b /\ required_size k b = Ok (blen b))
    /\ (required_size k b = Ok (blen b) -> try_from_boxed k b = Ok b)
    /\ (forall n, required_size k b = Ok n -> n <> blen b -> try_from_boxed k b = Err (VOther E_BOXED))
    /\ is_panic (try_from_boxed k b) = false.
Proof.
  intros k b. repeat split.
  - apply (try_from_boxed_exact k b v H).
  - apply (try_from_boxed_exact k b v H).
  - apply try_from_boxed_accepts.
  - apply try_from_boxed_rejects.
  - apply try_from_boxed_np.
Qed.
Print Assumptions boxed_constructor_accepts_exactly_required_size.

(** The borrowed constructors [try_from_slice] / [try_from_mut_slice] cut the input at exactly the
    required size: whenever the size function accepts, the view is the first [n] bytes and the rest
    is everything behind them; an accepted view has exactly the required length and view ++ rest is
    the input; a refusal is the size function's refusal. *)
Theorem slice_constructors_cut_at_required_size :
  forall (k : vkind) (b : bytes),
    (forall n, required_size k b = Ok n -> try_from_slice k b = Ok (sub b 0 n, sub b n (blen b)))
    /\ (forall v r, try_from_slice k b = Ok (v, r) ->
          required_size k b = Ok (blen v) /\ blen v + blen r = blen b /\ b = v ++ r)
    /\ (forall e, try_from_slice k b = Err e -> required_size k b = Err e).
Proof.
  intros k b. split; [|split].
  - apply try_from_slice_accepts.
  - intros v r H. destruct (try_from_slice_cut k b v r H) as (n & Hn & L & _ & _ & Hv & Hr & Hb).
    rewrite Hv. repeat split; [exact Hn| |exact Hb]. rewrite Hr. lia.
  - apply try_from_slice_err.
Qed.
Print Assumptions slice_constructors_cut_at_required_size.

(** Every constructor family the check observes -- try_from_slice, try_from_mut_slice,
    try_from_boxed, to_boxed, copy_to_slice, Box<Raw>::try_into_udp / try_into_scmp (on raw packet
    views), Box<typed packet>::into_raw -- satisfies, in the model and for every view kind and byte
    string, the executable exactness oracle [Spec_C02.ctor_obs_ok] that the check evaluates on the
    IMPLEMENTATION's observations: an owned view reports and owns exactly the required size and that
    is the whole input; a borrowed view is the first required-size bytes; nothing is accepted that
    the size function refuses.  The [View]-trait families never panic. *)
Theorem constructor_families_exact :
  (forall (k : vkind) (fam arg : N) (b : bytes),
     (fam = 5 \/ fam = 6 -> k = KRaw) -> fst (run_ctor k fam arg b) <> 99 ->
     ctor_obs_ok (blen b) (match required_size k b with Ok n => Some n | _ => None end) fam arg
                 (run_ctor k fam arg b) = true)
  /\ (forall (k : vkind) (fam arg : N) (b : bytes), fam <= 4 \/ fam = 7 -> fst (run_ctor k fam arg b) <> 99).
Proof.
  split.
  - intros k fam arg b Hk Hnp. exact (run_ctor_obs_ok k fam arg b _ eq_refl Hnp Hk).
  - exact run_ctor_np.
Qed.
Print Assumptions constructor_families_exact.
