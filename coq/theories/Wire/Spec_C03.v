(** Independent reader of the SCION wire format with LITERAL offsets from the SCION header
    specification (12-byte common header; DT/DL and ST/SL nibbles, address length (L+1)*4;
    8-byte ISD-AS numbers; 4-byte path meta header with CurrINF(2) CurrHF(6) RSV(6) and three
    6-bit segment lengths; 8-byte info fields; 12-byte hop fields; 8-byte UDP header; SCMP
    type/code/checksum + per-type info block) and the RFC 1071 internet checksum over the
    SCION pseudo header.  Deliberately imports neither the generated layout tables nor the model of
    the implementation: a change of a bit range in the Rust tables makes the agreement
    theorems and the correspondence check fail.

    [spec_decode] is STRICT: it accepts exactly the canonical encodings (consistent HdrLen,
    PayloadLen = number of bytes after the header, UDP Length = PayloadLen, reserved bits zero,
    no trailing bytes, segment lengths a non-zero prefix), so [spec_decode k b = Some m] states
    at once that the bytes carry model [m] and that their length fields are truthful. *)
From Sci Require Export Wire.Types.
Local Open Scope N_scope.

Definition sl (b : list N) (lo len : N) : list N := firstn (N.to_nat len) (skipn (N.to_nat lo) b).
Definition be (b : list N) (lo len : N) : N := be_val 0 (sl b lo len).
Definition len_ (b : list N) : N := N.of_nat (length b).
Definition all_zero (b : list N) : bool := forallb (N.eqb 0) b.

(** * RFC 1071 *)
Fixpoint words_sum (b : list N) (acc : N) : N :=
  match b with
  | x :: y :: r => words_sum r (acc + x * 256 + y)
  | [x] => acc + x * 256
  | [] => acc
  end.
Fixpoint fold_carry (fuel : nat) (s : N) : N :=
  match fuel with O => s | S k => if s <? 65536 then s else fold_carry k (s / 65536 + s mod 65536) end.
(* the 16-bit one's complement of the one's complement sum of the 16-bit big-endian words *)
Definition rfc1071 (b : list N) : N := 65535 - fold_carry 16 (words_sum b 0).

Definition host_wire (h : host_addr) : list N :=
  match h with
  | HA_V4 b => b | HA_V6 b => b | HA_Svc s => [s / 256; s mod 256; 0; 0] | HA_Unknown _ b => b
  end.
(* SCION pseudo header: DstISD-AS, SrcISD-AS, DstHostAddr, SrcHostAddr, 32-bit upper-layer
   length, 24 zero bits, 8-bit next header *)
Definition pseudo_header (h : pkt_hdr) (proto l4len : N) : list N :=
  be_bytes 8 (h_dst_ia h) ++ be_bytes 8 (h_src_ia h) ++ host_wire (h_dst_host h) ++ host_wire (h_src_host h)
  ++ be_bytes 4 l4len ++ [0; 0; 0; proto].
(* a transmitted L4 message verifies when the sum over pseudo header and message (checksum
   field included) is 0xffff, i.e. its complement is 0 *)
Definition checksum_verifies (h : pkt_hdr) (proto : N) (l4 : list N) : bool :=
  rfc1071 (pseudo_header h proto (len_ l4) ++ l4) =? 0.

(** * Header *)
Definition spec_host (nib : N) (raw : list N) : option host_addr :=
  let t := nib / 4 in let l := nib mod 4 in
  if (t =? 0) && (l =? 0) then Some (HA_V4 raw)
  else if (t =? 0) && (l =? 3) then Some (HA_V6 raw)
  else if (t =? 1) && (l =? 0) then (if all_zero (sl raw 2 2) then Some (HA_Svc (be raw 0 2)) else None)
  else Some (HA_Unknown t raw).

Definition spec_info (p : list N) (o : N) : option info_f :=
  if be p (o + 1) 1 =? 0 then Some (mkIF (be p o 1) (be p (o + 2) 2) (be p (o + 4) 4)) else None.
Definition spec_hop (p : list N) (o : N) : hop_f :=
  mkHF (be p o 1) (be p (o + 1) 1) (be p (o + 2) 2) (be p (o + 4) 2) (sl p (o + 6) 6).

Fixpoint spec_infos (p : list N) (o : N) (n : nat) : option (list info_f) :=
  match n with
  | O => Some []
  | S k => match spec_info p o, spec_infos p (o + 8) k with Some i, Some r => Some (i :: r) | _, _ => None end
  end.
Fixpoint spec_hops (p : list N) (o : N) (n : nat) : list hop_f :=
  match n with O => [] | S k => spec_hop p o :: spec_hops p (o + 12) k end.

Definition spec_std (p : list N) : option dp_path :=
  if len_ p <? 4 then None else
  let m := be p 0 4 in
  let ci := m / 2 ^ 30 in let ch := (m / 2 ^ 24) mod 64 in let rsv := (m / 2 ^ 18) mod 64 in
  let s0 := (m / 2 ^ 12) mod 64 in let s1 := (m / 2 ^ 6) mod 64 in let s2 := m mod 64 in
  (* segment lengths: a non-empty prefix of non-zero lengths *)
  let prefix_ok := (0 <? s0) && ((0 <? s1) || (s2 =? 0)) in
  let ni := (if 0 <? s0 then 1 else 0) + (if 0 <? s1 then 1 else 0) + (if 0 <? s2 then 1 else 0) in
  let nh := s0 + s1 + s2 in
  if negb ((rsv =? 0) && prefix_ok && (len_ p =? 4 + 8 * ni + 12 * nh)) then None else
  match spec_infos p 4 (N.to_nat ni) with
  | None => None
  | Some infos =>
    let hops := spec_hops p (4 + 8 * ni) (N.to_nat nh) in
    let seg (i : nat) (skip n : N) : list segment :=
      match nth_error infos i with Some inf => [mkSeg inf (firstn (N.to_nat n) (skipn (N.to_nat skip) hops))] | None => [] end in
    Some (DP_Std ci ch (seg 0%nat 0 s0 ++ (if 0 <? s1 then seg 1%nat s0 s1 else []) ++ (if 0 <? s2 then seg 2%nat (s0 + s1) s2 else [])))
  end.

Definition spec_path (pt : N) (p : list N) : option dp_path :=
  if pt =? 0 then (if len_ p =? 0 then Some DP_Empty else None)
  else if pt =? 1 then spec_std p
  else if pt =? 2 then
    (if len_ p =? 32 then
       match spec_info p 0 with Some i => Some (DP_OneHop i (spec_hop p 8) (spec_hop p 20)) | None => None end
     else None)
  else Some (DP_Unsupported pt p).

(* returns the header model, the header length and the announced payload length *)
Definition spec_header (b : list N) : option (pkt_hdr * N * N) :=
  if len_ b <? 12 then None else
  let b0 := be b 0 1 in let b1 := be b 1 1 in
  let version := b0 / 16 in
  let tc := (b0 mod 16) * 16 + b1 / 16 in
  let flow := (b1 mod 16) * 65536 + be b 2 2 in
  let nh := be b 4 1 in let hl := be b 5 1 * 4 in let pl := be b 6 2 in let pt := be b 8 1 in
  let dnib := be b 9 1 / 16 in let snib := be b 9 1 mod 16 in
  let rsv := be b 10 2 in
  let dl := (dnib mod 4 + 1) * 4 in let sl_ := (snib mod 4 + 1) * 4 in
  let path_off := 12 + 16 + dl + sl_ in
  if negb ((version =? 0) && (rsv =? 0) && (path_off <=? hl) && (hl <=? len_ b)) then None else
  match spec_host dnib (sl b 28 dl), spec_host snib (sl b (28 + dl) sl_), spec_path pt (sl b path_off (hl - path_off)) with
  | Some dh, Some sh, Some path => Some (mkH tc flow nh (be b 12 8) (be b 20 8) dh sh path, hl, pl)
  | _, _, _ => None
  end.

(** * Payloads *)
Definition spec_udp (p : list N) : option payload :=
  if len_ p <? 8 then None else
  if negb (be p 4 2 =? len_ p) then None else          (* UDP Length = bytes present *)
  Some (PL_Udp (be p 0 2) (be p 2 2) (sl p 8 (len_ p - 8))).

Definition spec_scmp (p : list N) : option payload :=
  if len_ p <? 8 then None else
  let ty := be p 0 1 in let code := be p 1 1 in
  let tail (o : N) := sl p o (len_ p - o) in
  if ty =? 1 then (if be p 4 4 =? 0 then Some (PL_Scmp (SM_DestUnreach code (tail 8))) else None)
  else if ty =? 2 then (if (be p 4 2 =? 0) && (code =? 0) then Some (PL_Scmp (SM_PktTooBig (be p 6 2) (tail 8))) else None)
  else if ty =? 4 then (if be p 4 2 =? 0 then Some (PL_Scmp (SM_ParamProblem code (be p 6 2) (tail 8))) else None)
  else if ty =? 5 then
    (if (20 <=? len_ p) && (code =? 0) && (be p 12 8 <? 65536) then Some (PL_Scmp (SM_ExtIfDown (be p 4 8) (be p 12 8) (tail 20))) else None)
  else if ty =? 6 then
    (if (28 <=? len_ p) && (code =? 0) && (be p 12 8 <? 65536) && (be p 20 8 <? 65536)
     then Some (PL_Scmp (SM_IntConnDown (be p 4 8) (be p 12 8) (be p 20 8) (tail 28))) else None)
  else if ty =? 128 then (if code =? 0 then Some (PL_Scmp (SM_EchoReq (be p 4 2) (be p 6 2) (tail 8))) else None)
  else if ty =? 129 then (if code =? 0 then Some (PL_Scmp (SM_EchoRep (be p 4 2) (be p 6 2) (tail 8))) else None)
  else if ty =? 130 then
    (if (len_ p =? 24) && (code =? 0) && (be p 8 8 =? 0) && (be p 16 8 =? 0) then Some (PL_Scmp (SM_TrReq (be p 4 2) (be p 6 2))) else None)
  else if ty =? 131 then
    (if (len_ p =? 24) && (code =? 0) && (be p 16 8 <? 65536) then Some (PL_Scmp (SM_TrRep (be p 4 2) (be p 6 2) (be p 8 8) (be p 16 8))) else None)
  else (if be p 4 4 =? 0 then Some (PL_Scmp (SM_Unknown ty code (tail 8))) else None).

(** kind: 0 raw, 1 UDP, 2 SCMP *)
Definition spec_decode (kind : N) (b : list N) : option packet :=
  match spec_header b with
  | None => None
  | Some (h, hl, pl) =>
    if negb (len_ b =? hl + pl) then None else            (* PayloadLen truthful, no trailing bytes *)
    let p := sl b hl pl in
    match kind with
    | 0 => Some (mkP h (PL_Raw p))
    | 1 => if h_nh h =? 17 then match spec_udp p with Some x => Some (mkP h x) | None => None end else None
    | _ => if h_nh h =? 202 then match spec_scmp p with Some x => Some (mkP h x) | None => None end else None
    end
  end.

(** the L4 checksum of a packet's bytes verifies (UDP: proto 17, SCMP: proto 202) *)
Definition spec_checksum_ok (kind : N) (b : list N) : bool :=
  match spec_header b with
  | None => false
  | Some (h, hl, pl) =>
    match kind with
    | 0 => true
    | 1 => checksum_verifies h 17 (sl b hl pl)
    | _ => checksum_verifies h 202 (sl b hl pl)
    end
  end.

(** a model is representable when every numeric field fits its wire width and every tagged
    value reads back as the same tag *)
Definition host_representable (h : host_addr) : bool :=
  match h with
  | HA_V4 b => len_ b =? 4 | HA_V6 b => len_ b =? 16 | HA_Svc s => s <? 65536
  | HA_Unknown t b =>
    (t <? 4) && (0 <? len_ b) && (len_ b <=? 16) && (len_ b mod 4 =? 0)
    && negb ((t =? 0) && (len_ b =? 4)) && negb ((t =? 0) && (len_ b =? 16)) && negb ((t =? 1) && (len_ b =? 4))
  end.
Definition path_representable (p : dp_path) : bool :=
  match p with
  | DP_Std ci ch segs =>
    (ci <? 4) && (ch <? 64) && (0 <? N.of_nat (length segs)) && (N.of_nat (length segs) <=? 3)
    && forallb (fun s => (0 <? N.of_nat (length (s_hops s))) && (N.of_nat (length (s_hops s)) <? 64)) segs
  | DP_Unsupported pt d => (2 <? pt) && (pt <? 256) && (len_ d mod 4 =? 0)
  | _ => true
  end.
Definition l4_len (p : payload) : N :=
  match p with
  | PL_Raw b => len_ b
  | PL_Udp _ _ d => 8 + len_ d
  | PL_Scmp (SM_EchoReq _ _ d) | PL_Scmp (SM_EchoRep _ _ d) | PL_Scmp (SM_Unknown _ _ d) => 8 + len_ d
  | PL_Scmp _ => 0      (* error messages are cut to the 1232-byte budget *)
  end.

(** documented canonicalisation: an SCMP error quotes at most what fits the 1232-byte budget
    (header size [hs] of the carrying packet; per-type SCMP header 8 / 20 / 28 bytes) *)
Definition canon_scmp (m : scmp_msg) (hs : N) : scmp_msg :=
  let cut (hdr : N) (q : list N) := firstn (N.to_nat ((1232 - hs) - hdr)) q in
  match m with
  | SM_DestUnreach c q => SM_DestUnreach c (cut 8 q)
  | SM_PktTooBig x q => SM_PktTooBig x (cut 8 q)
  | SM_ParamProblem c x q => SM_ParamProblem c x (cut 8 q)
  | SM_ExtIfDown a f q => SM_ExtIfDown a f (cut 20 q)
  | SM_IntConnDown a i e q => SM_IntConnDown a i e (cut 28 q)
  | _ => m
  end.
Definition canon (p : packet) (hs : N) : packet :=
  match p_pl p with PL_Scmp m => mkP (p_hdr p) (PL_Scmp (canon_scmp m hs)) | _ => p end.
Definition representable (p : packet) : bool :=
  let h := p_hdr p in
  (h_flow h <? 2 ^ 20) && host_representable (h_dst_host h) && host_representable (h_src_host h)
  && path_representable (h_path h) && (l4_len (p_pl p) <? 65536).

(** KNOWN FINDING class C03-decoder-accepts-unencodable-path-index: a standard path whose CurrINF /
    CurrHF point outside the path.  The decoder (views are deliberately non-semantic) accepts such
    bytes; the encoder's gate refuses the decoded model, so decode-then-encode does not give the
    bytes back. *)
Definition path_index_out_of_range (p : packet) : bool :=
  match h_path (p_hdr p) with
  | DP_Std ci ch segs =>
    (N.of_nat (length segs) <=? ci) || (N.of_nat (length (flat_map s_hops segs)) <=? ch)
  | _ => false
  end.

(** The length fields found IN THE BYTES of an encoded packet, compared as numbers with the true
    sizes ([hs] = size of the encoded header, the rest of [b] is the payload): HdrLen (byte 5,
    4-byte units), PayloadLen (bytes 6..8), and for UDP (kind 1) the Length field (bytes 4..6 of the
    datagram).  A length that does not fit its field cannot satisfy this, whatever was written. *)
Definition length_fields_match (kind : N) (b : list N) (hs : N) : bool :=
  let true_payload := len_ b - hs in
  (hs <=? len_ b) && (be b 5 1 * 4 =? hs) && (be b 6 2 =? true_payload)
  && (if kind =? 1 then be b (hs + 4) 2 =? true_payload else true).
