(** C02 -- the constructor families of [View] (core/view.rs): the owned constructor accepts
    exactly the inputs of exactly the required size, the borrowed ones cut the input at the
    required size, and everything [Views.run_ctor] can report satisfies the executable oracle
    [Spec_C02.ctor_obs_ok] that the check evaluates on the implementation's observations. *)
From Sci Require Import Wire.Views Wire.Spec_C02 Wire.Proofs_C02 Wire.Proofs_C02c.
Local Open Scope N_scope.

Lemma try_from_boxed_exact k b v :
  try_from_boxed k b = Ok v -> v = b /\ required_size k b = Ok (blen b).
Proof.
  unfold try_from_boxed. destruct (required_size k b) as [n|e|s]; cbn [obind]; try discriminate.
  destruct (blen b =? n) eqn:Q; cbn [negb]; [|discriminate].
  intros H. inversion H; subst v. apply N.eqb_eq in Q. subst n. split; reflexivity.
Qed.

Lemma try_from_boxed_accepts k b : required_size k b = Ok (blen b) -> try_from_boxed k b = Ok b.
Proof. unfold try_from_boxed. intros ->. cbn [obind]. rewrite N.eqb_refl. reflexivity. Qed.

Lemma try_from_boxed_rejects k b n :
  required_size k b = Ok n -> n <> blen b -> try_from_boxed k b = Err (VOther E_BOXED).
Proof.
  unfold try_from_boxed. intros -> Hn. cbn [obind].
  destruct (blen b =? n) eqn:Q; [apply N.eqb_eq in Q; congruence|reflexivity].
Qed.

Lemma try_from_boxed_err_inv k b e :
  try_from_boxed k b = Err e -> required_size k b = Err e \/ (e = VOther E_BOXED /\ exists n, required_size k b = Ok n /\ n <> blen b).
Proof.
  unfold try_from_boxed. destruct (required_size k b) as [n|e'|s]; cbn [obind]; try discriminate.
  - destruct (blen b =? n) eqn:Q; cbn [negb]; [discriminate|]. intros H. inversion H. right. split; [reflexivity|].
    exists n. split; [reflexivity|]. apply N.eqb_neq in Q. congruence.
  - intros H. inversion H. left. reflexivity.
Qed.

Lemma try_from_boxed_np k b : is_panic (try_from_boxed k b) = false.
Proof.
  unfold try_from_boxed. pose proof (required_size_np k b) as P.
  destruct (required_size k b); cbn [obind]; [|reflexivity|discriminate].
  destruct (negb _); reflexivity.
Qed.

Lemma sub_split (b : bytes) n : n <= blen b -> sub b 0 n ++ sub b n (blen b) = b.
Proof.
  intros H. unfold sub. rewrite N.sub_0_r. change (N.to_nat 0) with 0%nat. cbn [skipn].
  rewrite (firstn_all2 (n := N.to_nat (blen b - n))).
  - apply firstn_skipn.
  - rewrite skipn_length. unfold blen. lia.
Qed.

Lemma try_from_slice_cut k b v r :
  try_from_slice k b = Ok (v, r) ->
  exists n, required_size k b = Ok n /\ n <= blen b /\ v = sub b 0 n /\ r = sub b n (blen b)
            /\ blen v = n /\ blen r = blen b - n /\ b = v ++ r.
Proof.
  unfold try_from_slice. destruct (required_size k b) as [n|e|s] eqn:E; cbn [obind]; try discriminate.
  pose proof (required_size_sound_all k b n E) as L.
  destruct (blen b <? n) eqn:C; [discriminate|]. intros H. inversion H; subst v r. clear H.
  exists n. repeat split; try reflexivity; try assumption.
  - rewrite blen_sub by exact L. lia.
  - rewrite blen_sub by apply N.le_refl. reflexivity.
  - symmetry. apply sub_split. exact L.
Qed.

Lemma try_from_slice_err k b e : try_from_slice k b = Err e -> required_size k b = Err e.
Proof.
  unfold try_from_slice. destruct (required_size k b) as [n|e'|s]; cbn [obind]; try discriminate.
  - destruct (blen b <? n); discriminate.
  - intros H. inversion H. reflexivity.
Qed.

Lemma try_from_slice_accepts k b n :
  required_size k b = Ok n -> try_from_slice k b = Ok (sub b 0 n, sub b n (blen b)).
Proof.
  intros E. unfold try_from_slice. rewrite E. cbn [obind].
  pose proof (required_size_sound_all k b n E) as L. destruct (blen b <? n) eqn:C; [lia|reflexivity].
Qed.

(** a typed packet view has the size of the raw packet view over the same bytes *)
Lemma typed_pkt_size k b n :
  (k = KUdpPkt \/ k = KScmpPkt) -> required_size k b = Ok n -> required_size KRaw b = Ok n.
Proof.
  intros [-> | ->] Hs; cbn [required_size] in *.
  - unfold required_size_udp_pkt in Hs. destruct (required_size_raw b); cbn [obind] in Hs; try discriminate. inv_bind Hs. exact Hs.
  - unfold required_size_scmp_pkt in Hs. destruct (required_size_raw b); cbn [obind] in Hs; try discriminate. inv_bind Hs. exact Hs.
Qed.

(** Box<ScionRawPacketView>::try_into_udp / try_into_scmp on an exactly sized raw packet: an
    accepted conversion owns exactly the packet *)
Lemma into_typed_exact id b l :
  (id = 4 \/ id = 5) -> required_size KRaw b = Ok (blen b) ->
  into_typed id b = (1, l) -> l = [blen b; blen b].
Proof.
  intros Hid Hr. unfold into_typed.
  assert (G : forall k, (k = KUdpPkt \/ k = KScmpPkt) -> forall a, conv_aval (try_from_slice k b) = Ok a ->
              match a with VL [1; x] => x = blen b | VL (0 :: _) => True | _ => False end).
  { intros k Hk a. unfold conv_aval. destruct (try_from_slice k b) as [[v r]|e|s] eqn:T; try discriminate.
    - intros H. inversion H; subst a. destruct (try_from_slice_cut k b v r T) as (n & Hn & _ & _ & _ & Hv & _).
      pose proof (typed_pkt_size k b n Hk Hn) as Hn'. rewrite Hr in Hn'. inversion Hn'. congruence.
    - intros H. inversion H; subst a. destruct e; exact I. }
  destruct Hid as [-> | ->]; unfold acc_pkt; cbn iota.
  - destruct (pkt_header b) as [h|e|s]; cbn [obind]; try discriminate.
    destruct (hv_next_header h) as [nh|e|s]; cbn [obind]; try discriminate.
    destruct (negb (nh =? PROTO_UDP)).
    + cbn. discriminate.
    + destruct (conv_aval (try_from_slice KUdpPkt b)) as [a|e|s] eqn:C; try discriminate.
      pose proof (G KUdpPkt (or_introl eq_refl) a C) as Ga.
      destruct a as [x|lx|]; try discriminate. destruct lx as [|c0 t]; try discriminate.
      destruct c0 as [|p]; [intros H; discriminate H|].
      destruct p; try discriminate. destruct t as [|x1 t]; try discriminate. destruct t; try discriminate.
      intros H. inversion H. subst. reflexivity.
  - destruct (pkt_header b) as [h|e|s]; cbn [obind]; try discriminate.
    destruct (hv_next_header h) as [nh|e|s]; cbn [obind]; try discriminate.
    destruct (negb (nh =? PROTO_SCMP)).
    + cbn. discriminate.
    + destruct (conv_aval (try_from_slice KScmpPkt b)) as [a|e|s] eqn:C; try discriminate.
      pose proof (G KScmpPkt (or_intror eq_refl) a C) as Ga.
      destruct a as [x|lx|]; try discriminate. destruct lx as [|c0 t]; try discriminate.
      destruct c0 as [|p]; [intros H; discriminate H|].
      destruct p; try discriminate. destruct t as [|x1 t]; try discriminate. destruct t; try discriminate.
      intros H. inversion H. subst. reflexivity.
Qed.

Lemma into_typed_class id b :
  fst (into_typed id b) = 0 \/ fst (into_typed id b) = 1 \/ fst (into_typed id b) = 99.
Proof.
  unfold into_typed. destruct (acc_pkt KRaw id 0 b) as [a|e|s]; [|right; right; reflexivity..].
  destruct a as [x|l|]; [right; right; reflexivity| |right; right; reflexivity].
  destruct l as [|c t]; [right; right; reflexivity|].
  destruct c as [|p]; [left; reflexivity|].
  destruct p; try (right; right; reflexivity).
  destruct t as [|x t]; [right; right; reflexivity|]. destruct t; [right; left; reflexivity|right; right; reflexivity].
Qed.

Lemma run_ctor_big k fam arg b : 8 <= fam -> run_ctor k fam arg b = (99, []).
Proof.
  intros H. unfold run_ctor.
  destruct fam as [|[[[p|p|]|[p|p|]|]|[[p|p|]|[p|p|]|]|]]; try (exfalso; lia); reflexivity.
Qed.

Definition req_opt (r : res N) : option N := match r with Ok n => Some n | _ => None end.

(** Whatever a constructor family reports in the model -- acceptance or refusal -- satisfies the
    exactness oracle.  (Families 5 / 6 exist on raw packet views only, family 7 on the typed
    packet views only.) *)
Lemma run_ctor_obs_ok k fam arg b o :
  run_ctor k fam arg b = o -> fst o <> 99 ->
  (fam = 5 \/ fam = 6 -> k = KRaw) ->
  ctor_obs_ok (blen b) (req_opt (required_size k b)) fam arg o = true.
Proof.
  intros Ho Hnp Hk. subst o.
  assert (S01 : forall f : bytes * bytes -> N * list N,
            fst (enc_ctor (try_from_slice k b) f) <> 99 ->
            (exists n, required_size k b = Ok n /\ n <= blen b /\
               enc_ctor (try_from_slice k b) f = f (sub b 0 n, sub b n (blen b)) /\ blen (sub b 0 n) = n /\ blen (sub b n (blen b)) = blen b - n)
            \/ (exists e, required_size k b = Err e /\ enc_ctor (try_from_slice k b) f = enc_err e)).
  { intros f Hf. destruct (try_from_slice k b) as [[v r]|e|s] eqn:T.
    - left. destruct (try_from_slice_cut k b v r T) as (n & Hn & L & -> & -> & Hv & Hr & _).
      exists n. repeat split; assumption.
    - right. exists e. split; [exact (try_from_slice_err k b e T)|reflexivity].
    - exfalso. apply Hf. reflexivity. }
  assert (SB : forall kk, fst (enc_ctor (try_from_boxed kk b) owned_lens) <> 99 ->
            (required_size kk b = Ok (blen b) /\ enc_ctor (try_from_boxed kk b) owned_lens = (1, [blen b; blen b]))
            \/ (exists e, enc_ctor (try_from_boxed kk b) owned_lens = enc_err e)).
  { intros kk Hf. destruct (try_from_boxed kk b) as [v|e|s] eqn:T.
    - left. destruct (try_from_boxed_exact kk b v T) as [-> Hn]. split; [exact Hn|reflexivity].
    - right. exists e. reflexivity.
    - exfalso. apply Hf. reflexivity. }
  assert (EE : forall e f a, ctor_obs_ok (blen b) (req_opt (required_size k b)) f a (enc_err e) = true \/ f = 4).
  { intros e f a. destruct (N.eq_dec f 4) as [->|Hf]; [right; reflexivity|left].
    destruct e; cbn [enc_err ctor_obs_ok]; destruct f as [|p]; try reflexivity;
      destruct (req_opt (required_size k b)); try reflexivity;
      do 3 (try destruct p as [p|p|]; try reflexivity); congruence. }
  destruct (N.le_gt_cases 8 fam) as [Hbig|Hsmall].
  { exfalso. apply Hnp. rewrite (run_ctor_big k fam arg b Hbig). reflexivity. }
  assert (Hc : fam = 7 \/ fam = 5 \/ fam = 3 \/ fam = 6 \/ fam = 2 \/ fam = 4 \/ fam = 1 \/ fam = 0) by lia.
  destruct Hc as [->|[->|[->|[->|[->|[->|[->| ->]]]]]]]; unfold run_ctor in *; cbv beta iota in Hnp |- *.
  - (* 7 *) destruct (SB k Hnp) as [[Hn ->]|[e ->]]; [|destruct (EE e 7 arg) as [H|H]; [exact H|discriminate]].
    rewrite Hn. cbn [req_opt ctor_obs_ok]. unfold owned_exact. rewrite !N.eqb_refl. reflexivity.
  - (* 5 *) rewrite (Hk (or_introl eq_refl)) in *.
    destruct (try_from_boxed KRaw b) as [v|e|s] eqn:T; cbn [enc_ctor] in *.
    + destruct (try_from_boxed_exact KRaw b v T) as [-> Hn]. rewrite Hn. cbn [req_opt].
      destruct (into_typed 4 b) as [c l] eqn:I.
      pose proof (into_typed_class 4 b) as Hc. rewrite I in Hc. cbn [fst] in Hc, Hnp.
      destruct Hc as [->|[->| ->]]; [reflexivity| |exfalso; apply Hnp; reflexivity].
      rewrite (into_typed_exact 4 b l (or_introl eq_refl) Hn I).
        cbn [ctor_obs_ok]. unfold owned_exact. rewrite !N.eqb_refl. reflexivity.
    + destruct (EE e 5 arg) as [H|H]; [exact H|discriminate].
    + exfalso. apply Hnp. reflexivity.
  - (* 3 *) destruct (S01 _ Hnp) as [(n & Hn & L & -> & Hv & Hr)|(e & He & ->)].
    + rewrite Hn. cbn [req_opt fst owned_lens ctor_obs_ok]. rewrite Hv, !N.eqb_refl. reflexivity.
    + destruct (EE e 3 arg) as [H|H]; [exact H|discriminate].
  - (* 6 *) rewrite (Hk (or_intror eq_refl)) in *.
    destruct (try_from_boxed KRaw b) as [v|e|s] eqn:T; cbn [enc_ctor] in *.
    + destruct (try_from_boxed_exact KRaw b v T) as [-> Hn]. rewrite Hn. cbn [req_opt].
      destruct (into_typed 5 b) as [c l] eqn:I.
      pose proof (into_typed_class 5 b) as Hc. rewrite I in Hc. cbn [fst] in Hc, Hnp.
      destruct Hc as [->|[->| ->]]; [reflexivity| |exfalso; apply Hnp; reflexivity].
      rewrite (into_typed_exact 5 b l (or_intror eq_refl) Hn I).
        cbn [ctor_obs_ok]. unfold owned_exact. rewrite !N.eqb_refl. reflexivity.
    + destruct (EE e 6 arg) as [H|H]; [exact H|discriminate].
    + exfalso. apply Hnp. reflexivity.
  - (* 2 *) destruct (SB k Hnp) as [[Hn ->]|[e ->]]; [|destruct (EE e 2 arg) as [H|H]; [exact H|discriminate]].
    rewrite Hn. cbn [req_opt ctor_obs_ok]. unfold owned_exact. rewrite !N.eqb_refl. reflexivity.
  - (* 4 *) destruct (S01 _ Hnp) as [(n & Hn & L & -> & Hv & Hr)|(e & He & ->)].
    + rewrite Hn. cbn [req_opt fst]. rewrite Hv. destruct (arg <? n) eqn:C.
      * cbn [ctor_obs_ok]. exact C.
      * cbn [ctor_obs_ok]. apply N.ltb_ge in C. rewrite N.eqb_refl. cbn [andb].
        replace (n + (arg - n) =? arg) with true by (symmetry; apply N.eqb_eq; lia). reflexivity.
    + rewrite He. destruct e; reflexivity.
  - (* 1 *) destruct (S01 _ Hnp) as [(n & Hn & L & -> & Hv & Hr)|(e & He & ->)].
    + rewrite Hn. cbn [req_opt fst snd ctor_obs_ok]. unfold slice_cut_exact. rewrite Hv, Hr, !N.eqb_refl. cbn [andb].
      apply N.eqb_eq. lia.
    + destruct (EE e 1 arg) as [H|H]; [exact H|discriminate].
  - (* 0 *) destruct (S01 _ Hnp) as [(n & Hn & L & -> & Hv & Hr)|(e & He & ->)].
    + rewrite Hn. cbn [req_opt fst snd ctor_obs_ok]. unfold slice_cut_exact. rewrite Hv, Hr, !N.eqb_refl. cbn [andb].
      apply N.eqb_eq. lia.
    + destruct (EE e 0 arg) as [H|H]; [exact H|discriminate].
Qed.

(** the [View]-trait families never panic *)
Lemma run_ctor_np k fam arg b : (fam <= 4 \/ fam = 7) -> fst (run_ctor k fam arg b) <> 99.
Proof.
  intros Hf. pose proof (try_from_slice_np k b) as P1. pose proof (try_from_boxed_np k b) as P2.
  assert (A : forall f : bytes * bytes -> N * list N, (forall x, fst (f x) <> 99) -> fst (enc_ctor (try_from_slice k b) f) <> 99).
  { intros f Hfx. destruct (try_from_slice k b) as [x|e|s]; cbn [enc_ctor]; [apply Hfx|destruct e; cbn; discriminate|discriminate P1]. }
  assert (B : fst (enc_ctor (try_from_boxed k b) owned_lens) <> 99).
  { destruct (try_from_boxed k b) as [x|e|s]; cbn [enc_ctor]; [cbn; discriminate|destruct e; cbn; discriminate|discriminate P2]. }
  assert (Hc : fam = 0 \/ fam = 1 \/ fam = 2 \/ fam = 3 \/ fam = 4 \/ fam = 7) by lia.
  destruct Hc as [->|[->|[->|[->|[->| ->]]]]]; unfold run_ctor; cbv beta iota.
  - apply A. intros; cbn; discriminate.
  - apply A. intros; cbn; discriminate.
  - exact B.
  - apply A. intros; cbn; discriminate.
  - apply A. intros x. destruct (arg <? blen (fst x)); cbn; discriminate.
  - exact B.
Qed.
