(** Whole-packet agreement of the independent STRICT reader [Spec_C03.spec_decode] with the
    model of the implementation's decoder, for EVERY byte string: whatever bytes the strict
    reader accepts, [decode_packet] accepts too, consumes all of them, and returns the same
    model.  Composition of the per-layer agreement lemmas of [SpecAgreeProofs] along the layout
    arithmetic of the header (address header, path, payload offsets). *)
From Coq Require Import Lia ZifyBool ZifyNat ZifyN.
From Sci Require Import Wire.Codec Wire.Spec_C03 Wire.BitFieldProofs Wire.Proofs_C02 Wire.Proofs_C02b Wire.Proofs_C02c
  Wire.SpecAgreeProofs Wire.EncodeLengthProofs.
Local Open Scope N_scope.
Ltac closed_le := apply N.leb_le; vm_compute; reflexivity.
Ltac Zify.zify_post_hook ::= Z.div_mod_to_equations.
Arguments N.add : simpl never. Arguments N.sub : simpl never. Arguments N.mul : simpl never.
Arguments N.div : simpl never. Arguments N.modulo : simpl never. Arguments N.pow : simpl never.
Arguments N.shiftr : simpl never. Arguments N.land : simpl never. Arguments N.ltb : simpl never.
Arguments N.leb : simpl never. Arguments N.eqb : simpl never.

(** * slices *)
Lemma len_blen (b : bytes) : len_ b = blen b.
Proof. reflexivity. Qed.

Lemma sub_sub (v : bytes) a c x y : a + y <= c -> c <= blen v -> sub (sub v a c) x y = sub v (a + x) (a + y).
Proof.
  intros H1 H2. unfold sub, blen in *. rewrite skipn_firstn_comm, firstn_firstn, skipn_skipn'.
  f_equal; [lia|]. f_equal. lia.
Qed.

Lemma sl_blen (v : bytes) o k : o + k <= blen v -> blen (sl v o k) = k.
Proof. intros H. rewrite sl_sub. rewrite blen_sub by lia. lia. Qed.

Lemma be_sub (v : bytes) a c o k : a + o + k <= c -> c <= blen v -> be (sub v a c) o k = be v (a + o) k.
Proof.
  intros H1 H2. unfold be. rewrite !sl_sub. rewrite sub_sub by lia. f_equal. f_equal. lia.
Qed.

Lemma sl_sl (v : bytes) a n o k : o + k <= n -> a + n <= blen v -> sl (sl v a n) o k = sl v (a + o) k.
Proof.
  intros H1 H2. rewrite !sl_sub. rewrite sub_sub by lia. f_equal. lia.
Qed.

Lemma be_sl (v : bytes) a n o k : o + k <= n -> a + n <= blen v -> be (sl v a n) o k = be v (a + o) k.
Proof. intros H1 H2. unfold be. rewrite sl_sl by assumption. reflexivity. Qed.

Lemma bytes_ok_sub (v : bytes) a c : bytes_ok v = true -> bytes_ok (sub v a c) = true.
Proof. intros H. unfold sub. apply bytes_ok_firstn, bytes_ok_skipn, H. Qed.
Lemma bytes_ok_sl (v : bytes) a n : bytes_ok v = true -> bytes_ok (sl v a n) = true.
Proof. intros H. rewrite sl_sub. apply bytes_ok_sub, H. Qed.

Lemma sub_all (v : bytes) : sub v 0 (blen v) = v.
Proof. unfold sub, blen. rewrite N.sub_0_r, Nat2N.id. cbn [N.to_nat skipn]. apply firstn_all. Qed.
Lemma sub_none (v : bytes) : sub v (blen v) (blen v) = [].
Proof. unfold sub. rewrite N.sub_diag. reflexivity. Qed.

(** * host addresses *)
Lemma hat_size_spec nib : nib < 16 -> hat_size nib = (nib mod 4 + 1) * 4.
Proof.
  intros H.
  assert (C : forallb (fun n => hat_size n =? (n mod 4 + 1) * 4) [0;1;2;3;4;5;6;7;8;9;10;11;12;13;14;15] = true) by (vm_compute; reflexivity).
  rewrite forallb_forall in C. apply N.eqb_eq. apply C.
  assert (E : nib = 0 \/ nib = 1 \/ nib = 2 \/ nib = 3 \/ nib = 4 \/ nib = 5 \/ nib = 6 \/ nib = 7 \/ nib = 8 \/ nib = 9
              \/ nib = 10 \/ nib = 11 \/ nib = 12 \/ nib = 13 \/ nib = 14 \/ nib = 15) by lia.
  cbn [In]. intuition.
Qed.

Lemma host_agree nib raw x :
  nib < 16 -> blen raw = (nib mod 4 + 1) * 4 -> spec_host nib raw = Some x -> host_addr_decode nib raw = Some x.
Proof.
  intros Hn Hl. unfold spec_host, host_addr_decode.
  change HAT_IPV4 with 0. change HAT_IPV6 with 3. change HAT_SERVICE with 4.
  unfold hat_unknown_id. rewrite N.shiftr_div_pow2. change (2 ^ 2) with 4.
  set (t := nib / 4) in *. set (l := nib mod 4) in *.
  assert (Hd : nib = 4 * t + l /\ l < 4) by (unfold t, l; lia).
  destruct Hd as [Hd Hl4].
  destruct ((t =? 0) && (l =? 0)) eqn:C1.
  { assert (nib = 0) by lia. replace (nib =? 0) with true by lia. replace (blen raw =? 4) with true by lia. auto. }
  destruct ((t =? 0) && (l =? 3)) eqn:C2.
  { assert (nib = 3) by lia. replace (nib =? 0) with false by lia. replace (nib =? 3) with true by lia.
    replace (blen raw =? 16) with true by lia. auto. }
  destruct ((t =? 1) && (l =? 0)) eqn:C3.
  { assert (nib = 4) by lia. replace (nib =? 0) with false by lia. replace (nib =? 3) with false by lia.
    replace (nib =? 4) with true by lia. replace (blen raw =? 4) with true by lia.
    destruct (all_zero (sl raw 2 2)); [|discriminate]. unfold be. rewrite sl_sub. auto. }
  replace (nib =? 0) with false by lia. replace (nib =? 3) with false by lia. replace (nib =? 4) with false by lia.
  replace (blen raw <=? 16) with true by lia. auto.
Qed.

(** * info / hop fields at an offset *)
Lemma decode_info_at (x : bytes) o i :
  bytes_ok x = true -> o + 8 <= blen x -> spec_info x o = Some i -> decode_info (sub x o (o + 8)) = Ok i.
Proof.
  intros Hok Hl. unfold spec_info. destruct (be x (o + 1) 1 =? 0); [|discriminate]. intros H. inversion H; subst i. clear H.
  assert (Lv : blen (sub x o (o + 8)) = 8) by (rewrite blen_sub by lia; lia).
  set (v := sub x o (o + 8)) in *.
  destruct (spec_info_agrees v (bytes_ok_sub x _ _ Hok) ltac:(rewrite Lv; unfold InfoField_SIZE_BYTES; lia)) as (E1 & E2 & E3 & _).
  unfold decode_info. rewrite E1, E2, E3. cbn [obind]. unfold v.
  rewrite !be_sub by lia. rewrite N.add_0_r. reflexivity.
Qed.

Lemma decode_hop_at (x : bytes) o :
  bytes_ok x = true -> o + 12 <= blen x -> decode_hop (sub x o (o + 12)) = Ok (spec_hop x o).
Proof.
  intros Hok Hl.
  assert (Lv : blen (sub x o (o + 12)) = 12) by (rewrite blen_sub by lia; lia).
  set (v := sub x o (o + 12)) in *.
  destruct (spec_hop_agrees v (bytes_ok_sub x _ _ Hok) ltac:(rewrite Lv; unfold HopField_SIZE_BYTES; lia)) as (E1 & E2 & E3 & E4 & E5).
  unfold decode_hop. rewrite E1, E2, E3, E4, E5. cbn [obind]. unfold v, spec_hop.
  rewrite !be_sub by lia. rewrite N.add_0_r.
  rewrite sl_sub. rewrite sub_sub by lia. rewrite sl_sub.
  replace (o + (6 + 6)) with (o + 6 + 6) by lia. reflexivity.
Qed.

(** * one-hop path *)
Lemma onehop_agree (x : bytes) pth :
  bytes_ok x = true -> spec_path 2 x = Some pth -> decode_onehop x = Ok pth.
Proof.
  intros Hok. unfold spec_path. change (2 =? 0) with false. change (2 =? 1) with false. change (2 =? 2) with true. cbv iota.
  destruct (len_ x =? 32) eqn:L; [|discriminate]. apply N.eqb_eq in L. rewrite len_blen in L.
  destruct (spec_info x 0) as [i|] eqn:Ei; [|discriminate]. intros H. inversion H; subst pth. clear H.
  unfold decode_onehop.
  change (byte_lo OneHopPath_INFO_FIELD) with 0. change (byte_hi OneHopPath_INFO_FIELD) with (0 + 8).
  change (byte_lo OneHopPath_HOP_FIELD_1) with 8. change (byte_hi OneHopPath_HOP_FIELD_1) with (8 + 12).
  change (byte_lo OneHopPath_HOP_FIELD_2) with 20. change (byte_hi OneHopPath_HOP_FIELD_2) with (20 + 12).
  rewrite !index_range_ok by lia. cbn [obind].
  rewrite (decode_info_at x 0 i Hok ltac:(lia) Ei). cbn [obind].
  rewrite (decode_hop_at x 8 Hok ltac:(lia)). cbn [obind].
  rewrite (decode_hop_at x 20 Hok ltac:(lia)). cbn [obind]. reflexivity.
Qed.

(** * UDP *)
Lemma udp_agree (p : bytes) pl :
  bytes_ok p = true -> spec_udp p = Some pl ->
  required_size_udp p = Ok (blen p) /\ try_from_slice KUdp p = Ok (p, []) /\ decode_udp p = Ok pl.
Proof.
  intros Hok. unfold spec_udp. rewrite len_blen.
  destruct (blen p <? 8) eqn:L8; [discriminate|]. apply N.ltb_ge in L8.
  destruct (be p 4 2 =? blen p) eqn:EL; cbn [negb]; [|discriminate]. apply N.eqb_eq in EL.
  intros H. inversion H; subst pl. clear H.
  destruct (spec_udp_agrees p Hok ltac:(unfold UdpDatagram_HEADER_SIZE_BYTES; lia)) as (E1 & E2 & E3 & _).
  assert (RS : required_size_udp p = Ok (blen p)).
  { unfold required_size_udp. change UdpDatagram_HEADER_SIZE_BYTES with 8.
    replace (blen p <? 8) with false by lia. unfold udp_length in E3. rewrite E3. cbn [obind]. rewrite EL.
    replace (blen p <? 8) with false by lia. rewrite N.min_id. reflexivity. }
  refine (conj RS (conj _ _)).
  - unfold try_from_slice. cbn [required_size]. rewrite RS. cbn [obind]. rewrite N.ltb_irrefl.
    rewrite sub_all, sub_none. reflexivity.
  - unfold decode_udp. rewrite E1, E2. cbn [obind]. unfold udp_payload_range. change UdpDatagram_HEADER_SIZE_BYTES with 8.
    rewrite get_unchecked_ok by lia. cbn [obind fst snd]. rewrite sl_sub.
    replace (8 + (blen p - 8)) with (blen p) by lia. reflexivity.
Qed.

(** * standard path *)
Lemma decode_seq_info (x : bytes) n : forall o infos,
  bytes_ok x = true -> o + 8 * N.of_nat n <= blen x -> spec_infos x o n = Some infos ->
  decode_seq decode_info x o 8 n = Ok infos.
Proof.
  induction n as [|n IH]; intros o infos Hok Hl H; cbn [spec_infos decode_seq] in *.
  - inversion H. reflexivity.
  - destruct (spec_info x o) as [i|] eqn:Ei; [|discriminate].
    destruct (spec_infos x (o + 8) n) as [r|] eqn:Er; [|discriminate]. inversion H; subst infos. clear H.
    rewrite get_unchecked_ok by lia. cbn [obind].
    rewrite (decode_info_at x o i Hok ltac:(lia) Ei). cbn [obind].
    rewrite (IH (o + 8) r Hok ltac:(lia) Er). reflexivity.
Qed.

Lemma decode_seq_hop (x : bytes) n : forall o,
  bytes_ok x = true -> o + 12 * N.of_nat n <= blen x ->
  decode_seq decode_hop x o 12 n = Ok (spec_hops x o n).
Proof.
  induction n as [|n IH]; intros o Hok Hl; cbn [spec_hops decode_seq] in *; [reflexivity|].
  rewrite get_unchecked_ok by lia. cbn [obind].
  rewrite (decode_hop_at x o Hok ltac:(lia)). cbn [obind].
  rewrite (IH (o + 12) Hok ltac:(lia)). reflexivity.
Qed.

Lemma std_ranges ic hc :
  let r := rshift (0, ic * (InfoField_SIZE_BYTES * 8)) StdPathMeta_SIZE_BYTES in
  let ie := ic * (InfoField_SIZE_BYTES * 8) in
  let r2 := rshift (rng_of_range ie (ie + hc * (HopField_SIZE_BYTES * 8))) StdPathMeta_SIZE_BYTES in
  byte_lo r = 4 /\ byte_hi r = 4 + 8 * ic /\ byte_lo r2 = 4 + 8 * ic /\ byte_hi r2 = 4 + 8 * ic + 12 * hc.
Proof.
  unfold rshift, rng_of_range, byte_lo, byte_hi, r_end, r_start, r_width. cbn [fst snd].
  change InfoField_SIZE_BYTES with 8. change HopField_SIZE_BYTES with 12. change StdPathMeta_SIZE_BYTES with 4.
  repeat split; lia.
Qed.

Lemma std_agree (x : bytes) pth : bytes_ok x = true -> spec_std x = Some pth -> decode_stdpath x = Ok pth.
Proof.
  intros Hok. unfold spec_std. rewrite len_blen.
  destruct (blen x <? 4) eqn:L4; [discriminate|]. apply N.ltb_ge in L4.
  destruct (spec_meta_agrees x Hok ltac:(unfold StdPathMeta_SIZE_BYTES; lia)) as (Eci & Ech & _ & E0 & E1 & E2).
  set (m := be x 0 4) in *.
  set (s0 := (m / 2 ^ 12) mod 64) in *. set (s1 := (m / 2 ^ 6) mod 64) in *. set (s2 := m mod 64) in *.
  set (ni := (if 0 <? s0 then 1 else 0) + (if 0 <? s1 then 1 else 0) + (if 0 <? s2 then 1 else 0)).
  destruct (((m / 2 ^ 18) mod 64 =? 0) && ((0 <? s0) && ((0 <? s1) || (s2 =? 0))) && (blen x =? 4 + 8 * ni + 12 * (s0 + s1 + s2))) eqn:C;
    cbn [negb]; [|discriminate].
  apply Bool.andb_true_iff in C. destruct C as [C CL]. apply Bool.andb_true_iff in C. destruct C as [_ CP].
  apply N.eqb_eq in CL.
  destruct (spec_infos x 4 (N.to_nat ni)) as [infos|] eqn:EI; [|discriminate].
  intros H. inversion H; subst pth. clear H.
  unfold decode_stdpath. rewrite Eci, Ech. cbn [obind]. unfold sp_segs. rewrite E0, E1, E2. cbn [obind].
  unfold sp_info_fields_range, sp_hop_fields_range, sp_segs. rewrite E0, E1, E2. cbn [obind].
  unfold info_fields_byte_range, hop_fields_byte_range.
  assert (Eic : info_field_count s0 s1 s2 = ni) by reflexivity.
  assert (Ehc : hop_field_count s0 s1 s2 = s0 + s1 + s2) by reflexivity.
  rewrite Eic, Ehc.
  destruct (std_ranges ni (s0 + s1 + s2)) as (R1 & R2 & R3 & R4). cbv zeta in R1, R2, R3, R4.
  rewrite R1, R2, R3, R4. cbn [fst snd].
  rewrite !get_unchecked_ok by lia. cbn [obind fst snd].
  change InfoField_SIZE_BYTES with 8. change HopField_SIZE_BYTES with 12.
  rewrite (decode_seq_info x (N.to_nat ni) 4 infos Hok ltac:(lia) EI). cbn [obind].
  rewrite (decode_seq_hop x (N.to_nat (s0 + s1 + s2)) (4 + 8 * ni) Hok ltac:(lia)). cbn [obind].
  set (hops := spec_hops x (4 + 8 * ni) (N.to_nat (s0 + s1 + s2))).
  f_equal. f_equal.
  (* the segment list *)
  apply Bool.andb_true_iff in CP. destruct CP as [P0 P1].
  unfold ni in EI. rewrite P0 in *.
  destruct (0 <? s1) eqn:Q1.
  - destruct (0 <? s2) eqn:Q2.
    + change (N.to_nat (1 + 1 + 1)) with 3%nat in EI. cbn [spec_infos] in EI.
      destruct (spec_info x 4) as [i0|]; [|discriminate]. destruct (spec_info x (4 + 8)) as [i1|]; [|discriminate].
      destruct (spec_info x (4 + 8 + 8)) as [i2|]; [|discriminate]. inversion EI; subst infos.
      cbn [build_segments nth_error app]. rewrite skipn_skipn'. rewrite <- N2Nat.inj_add. reflexivity.
    + change (N.to_nat (1 + 1 + 0)) with 2%nat in EI. cbn [spec_infos] in EI.
      destruct (spec_info x 4) as [i0|]; [|discriminate]. destruct (spec_info x (4 + 8)) as [i1|]; [|discriminate].
      inversion EI; subst infos. cbn [build_segments nth_error app]. reflexivity.
  - cbn [orb] in P1. apply N.eqb_eq in P1. replace (0 <? s2) with false in * by lia.
    change (N.to_nat (1 + 0 + 0)) with 1%nat in EI. cbn [spec_infos] in EI.
    destruct (spec_info x 4) as [i0|]; [|discriminate]. inversion EI; subst infos.
    cbn [build_segments nth_error app]. reflexivity.
Qed.

(** * paths *)
Definition decode_path_of (pt : N) (x : bytes) : res dp_path :=
  if pt =? 0 then Ok DP_Empty else if pt =? 1 then decode_stdpath x
  else if pt =? 2 then decode_onehop x else Ok (DP_Unsupported pt x).

Lemma path_agree pt x pth : bytes_ok x = true -> spec_path pt x = Some pth -> decode_path_of pt x = Ok pth.
Proof.
  intros Hok H. pose proof H as H0. unfold decode_path_of. unfold spec_path in H.
  destruct (pt =? 0) eqn:P0. { destruct (len_ x =? 0); inversion H; reflexivity. }
  destruct (pt =? 1) eqn:P1. { apply std_agree; assumption. }
  destruct (pt =? 2) eqn:P2. { apply N.eqb_eq in P2. subst pt. apply onehop_agree; assumption. }
  inversion H. reflexivity.
Qed.

Lemma path_len pt x pth : spec_path pt x = Some pth ->
  (pt = 0 -> blen x = 0) /\ (pt = 2 -> blen x = 32)
  /\ (pt = 1 -> 4 <= blen x /\ blen x = 4 + std_data_size ((be x 0 4 / 2 ^ 12) mod 64) ((be x 0 4 / 2 ^ 6) mod 64) (be x 0 4 mod 64)).
Proof.
  intros H. unfold spec_path in H. refine (conj _ (conj _ _)); intros ->.
  - change (0 =? 0) with true in H. cbv iota in H. rewrite len_blen in H. destruct (blen x =? 0) eqn:E; [|discriminate]. lia.
  - change (2 =? 0) with false in H. change (2 =? 1) with false in H. change (2 =? 2) with true in H. cbv iota in H.
    rewrite len_blen in H. destruct (blen x =? 32) eqn:E; [|discriminate]. lia.
  - change (1 =? 0) with false in H. change (1 =? 1) with true in H. cbv iota in H.
    unfold spec_std in H. rewrite len_blen in H. destruct (blen x <? 4) eqn:L; [discriminate|]. cbv zeta in H.
    match type of H with (if negb ?c then _ else _) = _ => destruct c eqn:C; cbn [negb] in H; [|discriminate] end.
    apply Bool.andb_true_iff in C. destruct C as [_ C]. apply N.eqb_eq in C.
    unfold std_data_size, info_field_count, hop_field_count, nz. change InfoField_SIZE_BYTES with 8. change HopField_SIZE_BYTES with 12.
    split; [lia|]. rewrite C. lia.
Qed.

Lemma host_rngs s d :
  byte_lo (dst_host_rng s d) = 28 /\ byte_hi (dst_host_rng s d) = 28 + d
  /\ byte_lo (src_host_rng s d) = 28 + d /\ byte_hi (src_host_rng s d) = 28 + d + s.
Proof.
  unfold dst_host_rng, src_host_rng, rshift, rng_of_range, byte_lo, byte_hi, r_end, r_start, r_width. cbn [fst snd].
  change AddressHeader_FIXED_SIZE_BITS with 128. change CommonHeader_SIZE_BYTES with 12. repeat split; lia.
Qed.

Lemma addr_size_sum s d : addr_hdr_size s d = 16 + d + s.
Proof. unfold addr_hdr_size. change AddressHeader_FIXED_SIZE_BITS with 128. lia. Qed.

Lemma unknown_path_size a t : a <= t -> size_bytes (rng_of_range (a * 8) (t * 8)) = t - a.
Proof. intros H. unfold size_bytes, rng_of_range, byte_lo, byte_hi, r_end, r_start, r_width. cbn [fst snd]. lia. Qed.

(** * the whole header *)
Lemma header_agree b h hl pl : bytes_ok b = true -> spec_header b = Some (h, hl, pl) ->
  exists l, header_layout b = Ok l /\ hl_header_len l = hl /\ hl_payload_len l = pl /\ hl <= blen b /\ 36 <= hl
            /\ decode_header (sub b 0 hl) = Ok h.
Proof.
  intros Hok H. unfold spec_header in H. rewrite len_blen in H.
  destruct (blen b <? 12) eqn:L12; [discriminate|]. apply N.ltb_ge in L12. cbv zeta in H.
  pose proof (spec_common_agrees b Hok ltac:(unfold CommonHeader_SIZE_BYTES; lia)) as CA. cbv zeta in CA.
  destruct CA as (Ev & Etc & Efl & Enh & _ & Epl & Ept & Edn & Esn & _).
  unfold hv_version, hv_traffic_class, hv_flow_id, hv_next_header, hv_payload_len, hv_path_type, hv_dst_addr_type, hv_src_addr_type in *.
  assert (Ehu : rd b CommonHeader_HEADER_LEN_RNG 8 = Ok (be b 5 1)).
  { change CommonHeader_HEADER_LEN_RNG with (8 * 5, 8 * 1). apply rd_bytes; try assumption; lia. }
  assert (L9 : be b 9 1 < 256) by (apply (be_lt b 9 1 Hok); lia).
  remember (be b 9 1 / 16) as nd eqn:Hnd. remember (be b 9 1 mod 16) as ns eqn:Hns.
  assert (Ld : nd < 16) by lia. assert (Ls : ns < 16) by lia.
  remember ((nd mod 4 + 1) * 4) as dl eqn:Hdl. remember ((ns mod 4 + 1) * 4) as sl_ eqn:Hsl.
  remember (be b 5 1 * 4) as hl0 eqn:Hhl0. remember (be b 8 1) as pt eqn:Hpt.
  remember (12 + 16 + dl + sl_) as po eqn:Hpo.
  match type of H with (if negb ?c then _ else _) = _ => destruct c eqn:C; cbn [negb] in H; [|discriminate] end.
  apply Bool.andb_true_iff in C. destruct C as [C C4]. apply Bool.andb_true_iff in C. destruct C as [C C3].
  apply Bool.andb_true_iff in C. destruct C as [C1 C2]. apply N.leb_le in C3, C4.
  destruct (spec_host nd (sl b 28 dl)) as [dh|] eqn:Hdh; [|discriminate].
  destruct (spec_host ns (sl b (28 + dl) sl_)) as [sh|] eqn:Hsh; [|discriminate].
  destruct (spec_path pt (sl b po (hl0 - po))) as [pth|] eqn:Hp; [|discriminate].
  inversion H; subst h hl pl. clear H.
  assert (Lx : blen (sl b po (hl0 - po)) = hl0 - po) by (apply sl_blen; lia).
  destruct (path_len _ _ _ Hp) as (PL0 & PL2 & PL1). rewrite Lx in PL0, PL2, PL1.
  assert (Hds : hat_size nd = dl) by (rewrite hat_size_spec by exact Ld; lia).
  assert (Hss : hat_size ns = sl_) by (rewrite hat_size_spec by exact Ls; lia).
  (* the layout *)
  assert (HLb : exists l, HL b = Ok l /\ hl_header_len l = hl0 /\ hl_payload_len l = be b 6 2).
  { unfold HL. change CommonHeader_SIZE_BYTES with 12. replace (blen b <? 12) with false by lia.
    rewrite Ev. cbn [obind]. rewrite C1. cbn [negb]. rewrite Ept, Esn, Edn, Ehu, Epl. cbn [obind].
    rewrite Hds, Hss, addr_size_sum. rewrite <- Hhl0.
    replace (12 + (16 + dl + sl_)) with po by lia.
    replace (blen b <? po) with false by lia.
    change PT_SCION with 1. change PT_ONEHOP with 2. change PT_EMPTY with 0.
    destruct (pt =? 1) eqn:P1.
    { apply N.eqb_eq in P1. destruct (PL1 P1) as [G4 GL].
      change StdPathMeta_SIZE_BYTES with 4. replace (blen b - po <? 4) with false by lia.
      assert (Lsuf : 4 <= blen (sub b po (blen b))) by (rewrite blen_sub by lia; lia).
      destruct (spec_meta_agrees (sub b po (blen b)) (bytes_ok_sub _ _ _ Hok) ltac:(unfold StdPathMeta_SIZE_BYTES; exact Lsuf)) as (_ & _ & _ & E0 & E1 & E2).
      unfold sp_seg0, sp_seg1, sp_seg2 in E0, E1, E2.
      rewrite (rd_suffix b po) in E0, E1, E2 by (first [ (assert (Q : byte_hi StdPathMeta_SEG0_LEN_RNG <= 4) by closed_le; lia)
                                                          | (assert (Q : byte_hi StdPathMeta_SEG1_LEN_RNG <= 4) by closed_le; lia)
                                                          | (assert (Q : byte_hi StdPathMeta_SEG2_LEN_RNG <= 4) by closed_le; lia) ]).
      rewrite E0, E1, E2. cbn [obind].
      assert (Em : be (sub b po (blen b)) 0 4 = be (sl b po (hl0 - po)) 0 4).
      { rewrite be_sub by lia. rewrite be_sl by lia. reflexivity. }
      rewrite Em. cbn [path_layout_size]. change StdPathMeta_SIZE_BYTES with 4.
      match goal with |- context [std_data_size ?a ?b ?c] => remember (std_data_size a b c) as ds eqn:Hds' end.
      replace (blen b <? po + (4 + ds)) with false by lia.
      replace (po + (4 + ds) =? hl0) with true by lia. cbn [negb]. eexists. split; [reflexivity|]. split; reflexivity. }
    destruct (pt =? 2) eqn:P2.
    { apply N.eqb_eq in P2. pose proof (PL2 P2) as G. cbn [obind path_layout_size]. change OneHopPath_SIZE_BYTES with 32.
      replace (blen b <? po + 32) with false by lia. replace (po + 32 =? hl0) with true by lia. cbn [negb].
      eexists. split; [reflexivity|]. split; reflexivity. }
    destruct (pt =? 0) eqn:P0.
    { apply N.eqb_eq in P0. pose proof (PL0 P0) as G. cbn [obind path_layout_size].
      replace (blen b <? po + 0) with false by lia. replace (po + 0 =? hl0) with true by lia. cbn [negb].
      eexists. split; [reflexivity|]. split; reflexivity. }
    replace (hl0 <? po) with false by lia. cbn [obind path_layout_size]. rewrite unknown_path_size by lia.
    replace (blen b <? po + (hl0 - po)) with false by lia. replace (po + (hl0 - po) =? hl0) with true by lia. cbn [negb].
    eexists. split; [reflexivity|]. split; reflexivity. }
  destruct HLb as (l & HLl & Hl1 & Hl2).
  assert (H36 : 36 <= hl0) by (clear - C3 Hpo Hdl Hsl; lia).
  exists l. rewrite header_layout_HL. refine (conj HLl (conj Hl1 (conj Hl2 (conj C4 (conj H36 _))))).
  (* the header model *)
  assert (Lhv : blen (sub b 0 hl0) = hl0) by (rewrite blen_sub by lia; lia).
  remember (sub b 0 hl0) as hv eqn:Hhv.
  assert (RP : forall r bits, byte_hi r <= 36 -> rd hv r bits = rd b r bits).
  { intros r bits Hr. rewrite Hhv. apply rd_prefix; lia. }
  unfold decode_header, hv_traffic_class, hv_flow_id, hv_next_header, hv_dst_ia, hv_src_ia.
  rewrite !RP by (first [closed_le | (change CommonHeader_SIZE_BYTES with 12; closed_le)]).
  rewrite Etc, Efl, Enh. cbn [obind].
  change (rshift AddressHeader_DST_IA_RNG CommonHeader_SIZE_BYTES) with (8 * 12, 8 * 8).
  change (rshift AddressHeader_SRC_IA_RNG CommonHeader_SIZE_BYTES) with (8 * 20, 8 * 8).
  rewrite !rd_bytes by (try assumption; lia). cbn [obind].
  unfold hv_dst_host, hv_src_host, hv_dst_host_raw, hv_src_host_raw, hv_src_addr_type, hv_dst_addr_type.
  rewrite !RP by closed_le. rewrite Esn, Edn. cbn [obind]. rewrite Hds, Hss.
  destruct (host_rngs sl_ dl) as (R1 & R2 & R3 & R4). rewrite R1, R2, R3, R4.
  rewrite !get_unchecked_ok by lia. cbn [obind fst snd].
  rewrite Hhv. rewrite !sub_sub_prefix by lia. rewrite <- Hhv.
  replace (sub b 28 (28 + dl)) with (sl b 28 dl) by (apply sl_sub).
  replace (sub b (28 + dl) (28 + dl + sl_)) with (sl b (28 + dl) sl_) by (apply sl_sub).
  assert (B1 : blen (sl b 28 dl) = (nd mod 4 + 1) * 4) by (rewrite sl_blen by (clear - Hpo C3 C4; lia); exact Hdl).
  assert (B2 : blen (sl b (28 + dl) sl_) = (ns mod 4 + 1) * 4) by (rewrite sl_blen by (clear - Hpo C3 C4; lia); exact Hsl).
  rewrite (host_agree nd _ dh Ld B1 Hdh).
  rewrite (host_agree ns _ sh Ls B2 Hsh).
  (* the path *)
  unfold hv_path_range, hv_dst_addr_type, hv_src_addr_type, hv_header_len, hv_path_type.
  rewrite !RP by closed_le. rewrite Esn, Edn, Ehu, Ept. cbn [obind]. rewrite Hds, Hss, addr_size_sum. rewrite <- Hhl0.
  change CommonHeader_SIZE_BYTES with 12. replace (12 + (16 + sl_ + dl)) with po by lia.
  pose proof (path_agree pt _ pth (bytes_ok_sl b po (hl0 - po) Hok) Hp) as PA. unfold decode_path_of in PA.
  assert (Ex : sub hv po hl0 = sl b po (hl0 - po)).
  { rewrite Hhv. rewrite sub_sub_prefix by lia. rewrite sl_sub. f_equal. lia. }
  change PT_SCION with 1. change PT_ONEHOP with 2. change PT_EMPTY with 0.
  destruct (pt =? 0) eqn:P0.
  { cbn [obind]. rewrite P0. try rewrite P0 in PA. inversion PA. reflexivity. }
  try rewrite P0 in PA.
  destruct (pt =? 2) eqn:P2.
  { assert (P2e : pt = 2) by (apply N.eqb_eq; exact P2). pose proof (PL2 P2e) as G. change OneHopPath_SIZE_BYTES with 32.
    assert (P1 : (pt =? 1) = false) by (clear - P2e; lia).
    rewrite get_unchecked_ok by lia. cbn [obind]. rewrite P0, P1, P2.
    rewrite get_unchecked_ok by lia. cbn [obind]. replace (po + 32) with hl0 by lia. rewrite Ex.
    try rewrite P1 in PA. try rewrite P2 in PA. rewrite PA. reflexivity. }
  rewrite get_unchecked_ok by lia. cbn [obind]. rewrite P0.
  destruct (pt =? 1) eqn:P1.
  { rewrite get_unchecked_ok by lia. cbn [obind]. rewrite Ex, PA. reflexivity. }
  rewrite P2. rewrite get_unchecked_ok by lia. cbn [obind]. rewrite Ex. try rewrite P2 in PA. inversion PA. reflexivity.
Qed.

(** * SCMP *)
Lemma tfs_full k (p : bytes) : required_size k p = Ok (blen p) -> try_from_slice k p = Ok (p, []).
Proof. intros H. unfold try_from_slice. rewrite H. cbn [obind]. rewrite N.ltb_irrefl, sub_all, sub_none. reflexivity. Qed.

Lemma scmp_tail_full ty (p : bytes) : scmp_header_size ty <= blen p ->
  (r <- scmp_tail_range ty p ;; Ok (sub p (fst r) (snd r))) = Ok (sl p (scmp_header_size ty) (blen p - scmp_header_size ty)).
Proof.
  intros H. unfold scmp_tail_range. remember (scmp_header_size ty) as hh eqn:Hh. cbv zeta.
  assert (E : byte_lo (hh * 8, (blen p - hh) * 8) = hh /\ byte_hi (hh * 8, (blen p - hh) * 8) = blen p).
  { unfold byte_lo, byte_hi, r_end, r_start, r_width. cbn [fst snd]. split; lia. }
  destruct E as [E1 E2]. rewrite E1, E2. rewrite index_range_ok by lia. cbn [obind fst snd].
  rewrite sl_sub. replace (hh + (blen p - hh)) with (blen p) by lia. reflexivity.
Qed.

Lemma scmp_required_full ty (p : bytes) : bytes_ok p = true -> 8 <= blen p -> be p 0 1 = ty ->
  scmp_header_size ty <= blen p -> (scmp_fixed_size ty = true -> blen p = scmp_header_size ty) ->
  required_size_scmp p = Ok (blen p).
Proof.
  intros Hok H8 Ety Hh Hf. unfold required_size_scmp, required_size_scmp_msg.
  change (scmp_header_size 256) with 8. change (scmp_fixed_size 256) with false. cbv iota.
  replace (blen p <? 8) with false by lia. rewrite get_unchecked_ok by lia. cbn [obind]. rewrite sub_all.
  change ScmpUnknownMessage_TYPE_RNG with (8 * 0, 8 * 1). rewrite rd_bytes by (try assumption; lia). cbn [obind]. rewrite Ety.
  replace (blen p <? scmp_header_size ty) with false by lia.
  destruct (scmp_fixed_size ty); [rewrite <- (Hf eq_refl)|]; reflexivity.
Qed.

Ltac rdb p o k := rewrite (rd_bytes p o k) by (try assumption; lia).

Lemma scmp_agree (p : bytes) pl :
  bytes_ok p = true -> spec_scmp p = Some pl ->
  required_size_scmp p = Ok (blen p) /\ try_from_slice KScmp p = Ok (p, []) /\ decode_scmp p = Ok pl.
Proof.
  intros Hok. unfold spec_scmp. rewrite len_blen.
  destruct (blen p <? 8) eqn:L8; [discriminate|]. apply N.ltb_ge in L8. cbv zeta.
  intros H.
  assert (Main : required_size_scmp p = Ok (blen p) /\ decode_scmp p = Ok pl);
    [|destruct Main as [M1 M2]; refine (conj M1 (conj (tfs_full KScmp p M1) M2))].
  assert (Ety : scmp_type p = Ok (be p 0 1)).
  { unfold scmp_type. change ScmpUnknownMessage_TYPE_RNG with (8 * 0, 8 * 1). apply rd_bytes; try assumption; lia. }
  assert (Ecode : scmp_code p = Ok (be p 1 1)).
  { unfold scmp_code. change ScmpUnknownMessage_CODE_RNG with (8 * 1, 8 * 1). apply rd_bytes; try assumption; lia. }
  unfold decode_scmp. rewrite Ety. cbn [obind]. cbv zeta.
  change SCMP_T_DestinationUnreachable with 1. change SCMP_T_PacketTooBig with 2. change SCMP_T_ParameterProblem with 4.
  change SCMP_T_ExternalInterfaceDown with 5. change SCMP_T_InternalConnectivityDown with 6. change SCMP_T_EchoRequest with 128.
  change SCMP_T_EchoReply with 129. change SCMP_T_TracerouteRequest with 130. change SCMP_T_TracerouteReply with 131.
  remember (be p 0 1) as ty eqn:Hty.
  destruct (ty =? 1) eqn:T1.
  { apply N.eqb_eq in T1. destruct (be p 4 4 =? 0); [|discriminate]. inversion H; subst pl. subst ty. try rewrite T1.
    split; [apply (scmp_required_full 1); try assumption; try (change (scmp_header_size 1) with 8; lia); discriminate|].
    rewrite Ecode. cbn [obind]. rewrite scmp_tail_full by (change (scmp_header_size 1) with 8; lia). cbn [obind]. reflexivity. }
  destruct (ty =? 2) eqn:T2.
  { apply N.eqb_eq in T2. destruct ((be p 4 2 =? 0) && (be p 1 1 =? 0)); [|discriminate]. inversion H; subst pl. subst ty. try rewrite T2.
    split; [apply (scmp_required_full 2); try assumption; try (change (scmp_header_size 2) with 8; lia); discriminate|].
    change ScmpPacketTooBig_MTU_RNG with (8 * 6, 8 * 2). rdb p 6 2. cbn [obind].
    rewrite scmp_tail_full by (change (scmp_header_size 2) with 8; lia). cbn [obind]. reflexivity. }
  destruct (ty =? 4) eqn:T4.
  { apply N.eqb_eq in T4. destruct (be p 4 2 =? 0); [|discriminate]. inversion H; subst pl. subst ty. try rewrite T4.
    split; [apply (scmp_required_full 4); try assumption; try (change (scmp_header_size 4) with 8; lia); discriminate|].
    rewrite Ecode. cbn [obind]. change ScmpParameterProblem_POINTER_RNG with (8 * 6, 8 * 2). rdb p 6 2. cbn [obind].
    rewrite scmp_tail_full by (change (scmp_header_size 4) with 8; lia). cbn [obind]. reflexivity. }
  destruct (ty =? 5) eqn:T5.
  { apply N.eqb_eq in T5. destruct (20 <=? blen p) eqn:L20; cbn [andb] in H; [|discriminate]. apply N.leb_le in L20.
    destruct (be p 1 1 =? 0); cbn [andb] in H; [|discriminate].
    destruct (be p 12 8 <? 65536) eqn:F; [|discriminate]. apply N.ltb_lt in F. inversion H; subst pl. subst ty. try rewrite T5.
    split; [apply (scmp_required_full 5); try assumption; try (change (scmp_header_size 5) with 20; lia); discriminate|].
    change ScmpExternalInterfaceDown_ISD_AS_RNG with (8 * 4, 8 * 8). change ScmpExternalInterfaceDown_INTERFACE_ID_RNG with (8 * 12, 8 * 8).
    rdb p 4 8. rdb p 12 8. cbn [obind]. rewrite scmp_tail_full by (change (scmp_header_size 5) with 20; lia). cbn [obind].
    unfold trunc. change (2 ^ 16) with 65536. rewrite N.mod_small by exact F. reflexivity. }
  destruct (ty =? 6) eqn:T6.
  { apply N.eqb_eq in T6. destruct (28 <=? blen p) eqn:L28; cbn [andb] in H; [|discriminate]. apply N.leb_le in L28.
    destruct (be p 1 1 =? 0); cbn [andb] in H; [|discriminate].
    destruct (be p 12 8 <? 65536) eqn:F; cbn [andb] in H; [|discriminate]. apply N.ltb_lt in F.
    destruct (be p 20 8 <? 65536) eqn:G; [|discriminate]. apply N.ltb_lt in G. inversion H; subst pl. subst ty. try rewrite T6.
    split; [apply (scmp_required_full 6); try assumption; try (change (scmp_header_size 6) with 28; lia); discriminate|].
    change ScmpInternalConnectivityDown_ISD_AS_RNG with (8 * 4, 8 * 8).
    change ScmpInternalConnectivityDown_INGRESS_INTERFACE_ID_RNG with (8 * 12, 8 * 8).
    change ScmpInternalConnectivityDown_EGRESS_INTERFACE_ID_RNG with (8 * 20, 8 * 8).
    rdb p 4 8. rdb p 12 8. rdb p 20 8. cbn [obind]. rewrite scmp_tail_full by (change (scmp_header_size 6) with 28; lia). cbn [obind].
    unfold trunc. change (2 ^ 16) with 65536. rewrite !N.mod_small by assumption. reflexivity. }
  destruct (ty =? 128) eqn:T128.
  { apply N.eqb_eq in T128. destruct (be p 1 1 =? 0); [|discriminate]. inversion H; subst pl. subst ty. try rewrite T128.
    split; [apply (scmp_required_full 128); try assumption; try (change (scmp_header_size 128) with 8; lia); discriminate|].
    change ScmpEchoRequest_IDENTIFIER_RNG with (8 * 4, 8 * 2). change ScmpEchoRequest_SEQUENCE_NUMBER_RNG with (8 * 6, 8 * 2).
    rdb p 4 2. rdb p 6 2. cbn [obind]. rewrite scmp_tail_full by (change (scmp_header_size 128) with 8; lia). cbn [obind]. reflexivity. }
  destruct (ty =? 129) eqn:T129.
  { apply N.eqb_eq in T129. destruct (be p 1 1 =? 0); [|discriminate]. inversion H; subst pl. subst ty. try rewrite T129.
    split; [apply (scmp_required_full 129); try assumption; try (change (scmp_header_size 129) with 8; lia); discriminate|].
    change ScmpEchoReply_IDENTIFIER_RNG with (8 * 4, 8 * 2). change ScmpEchoReply_SEQUENCE_NUMBER_RNG with (8 * 6, 8 * 2).
    rdb p 4 2. rdb p 6 2. cbn [obind]. rewrite scmp_tail_full by (change (scmp_header_size 129) with 8; lia). cbn [obind]. reflexivity. }
  destruct (ty =? 130) eqn:T130.
  { apply N.eqb_eq in T130. destruct (blen p =? 24) eqn:L24; cbn [andb] in H; [|discriminate]. apply N.eqb_eq in L24.
    destruct ((be p 1 1 =? 0) && (be p 8 8 =? 0) && (be p 16 8 =? 0)); [|discriminate]. inversion H; subst pl. subst ty. try rewrite T130.
    split; [apply (scmp_required_full 130); try assumption; try (change (scmp_header_size 130) with 24; lia)|].
    change ScmpTracerouteRequest_IDENTIFIER_RNG with (8 * 4, 8 * 2). change ScmpTracerouteRequest_SEQUENCE_NUMBER_RNG with (8 * 6, 8 * 2).
    rdb p 4 2. rdb p 6 2. cbn [obind]. reflexivity. }
  destruct (ty =? 131) eqn:T131.
  { apply N.eqb_eq in T131. destruct (blen p =? 24) eqn:L24; cbn [andb] in H; [|discriminate]. apply N.eqb_eq in L24.
    destruct (be p 1 1 =? 0); cbn [andb] in H; [|discriminate].
    destruct (be p 16 8 <? 65536) eqn:F; [|discriminate]. apply N.ltb_lt in F. inversion H; subst pl. subst ty. try rewrite T131.
    split; [apply (scmp_required_full 131); try assumption; try (change (scmp_header_size 131) with 24; lia)|].
    change ScmpTracerouteReply_IDENTIFIER_RNG with (8 * 4, 8 * 2). change ScmpTracerouteReply_SEQUENCE_NUMBER_RNG with (8 * 6, 8 * 2).
    change ScmpTracerouteReply_ISD_AS_RNG with (8 * 8, 8 * 8). change ScmpTracerouteReply_INTERFACE_ID_RNG with (8 * 16, 8 * 8).
    rdb p 4 2. rdb p 6 2. rdb p 8 8. rdb p 16 8. cbn [obind].
    unfold trunc. change (2 ^ 16) with 65536. rewrite N.mod_small by exact F. reflexivity. }
  destruct (be p 4 4 =? 0); [|discriminate]. inversion H; subst pl.
  assert (K : scmp_is_known ty = false).
  { unfold scmp_is_known, scmp_type_known. cbn [existsb].
    change SCMP_T_DestinationUnreachable with 1. change SCMP_T_PacketTooBig with 2. change SCMP_T_ParameterProblem with 4.
    change SCMP_T_ExternalInterfaceDown with 5. change SCMP_T_InternalConnectivityDown with 6. change SCMP_T_EchoRequest with 128.
    change SCMP_T_EchoReply with 129. change SCMP_T_TracerouteRequest with 130. change SCMP_T_TracerouteReply with 131.
    rewrite T1, T2, T4, T5, T6, T128, T129, T130, T131. reflexivity. }
  destruct (scmp_header_size_unknown ty K) as [K8 Kf].
  split; [apply (scmp_required_full ty); try assumption; try (rewrite K8; lia); [symmetry; exact Hty|rewrite Kf; discriminate]|].
  rewrite Ecode. cbn [obind]. rewrite scmp_tail_full by (rewrite K8; lia). rewrite K8. cbn [obind]. reflexivity.
Qed.

(** * whole packets *)
Lemma packet_frame (b : bytes) h hl pl :
  bytes_ok b = true -> spec_header b = Some (h, hl, pl) -> blen b = hl + pl ->
  required_size_raw b = Ok (blen b) /\ pkt_header b = Ok (sub b 0 hl) /\ decode_header (sub b 0 hl) = Ok h
  /\ pkt_payload b = Ok (sl b hl pl).
Proof.
  intros Hok H HL.
  destruct (header_agree b h hl pl Hok H) as (l & Hl & E1 & E2 & Hle & H36 & Hd).
  destruct (header_layout_fields b l Hl) as (Eh & Hm & _). rewrite E1 in Eh, Hm.
  refine (conj _ (conj _ (conj Hd _))).
  - unfold required_size_raw. rewrite Hl. cbn [obind]. rewrite E1, E2. f_equal. lia.
  - unfold pkt_header, hv_header_len. rewrite Eh. cbn [obind].
    replace (hl / 4 * 4) with hl by lia. rewrite get_unchecked_ok by lia. reflexivity.
  - unfold pkt_payload. rewrite (pkt_payload_range_ok b l Hl). cbn [obind fst snd]. rewrite E1, E2.
    replace (N.min pl (blen b - hl)) with pl by lia. rewrite sl_sub. reflexivity.
Qed.

Theorem spec_decode_dec kind (b : bytes) m :
  bytes_ok b = true -> spec_decode kind b = Some m -> decode_packet kind b = Ok (m, []).
Proof.
  intros Hok H. unfold spec_decode in H.
  destruct (spec_header b) as [[[h hl] pl]|] eqn:Hh; [|discriminate].
  rewrite len_blen in H. destruct (blen b =? hl + pl) eqn:EL; cbn [negb] in H; [|discriminate]. apply N.eqb_eq in EL.
  destruct (packet_frame b h hl pl Hok Hh EL) as (Rr & Ph & Dh & Pp).
  assert (Okp : bytes_ok (sl b hl pl) = true) by (apply bytes_ok_sl, Hok).
  unfold decode_packet.
  destruct kind as [|k].
  - (* raw *)
    inversion H; subst m. rewrite (tfs_full KRaw b Rr). cbn [obind]. rewrite Ph. cbn [obind]. rewrite Dh. cbn [obind].
    rewrite Pp. cbn [obind]. reflexivity.
  - destruct k as [k|k|].
    + (* SCMP *)
      destruct (h_nh h =? 202); [|discriminate].
      destruct (spec_scmp (sl b hl pl)) as [x|] eqn:Es; [|discriminate]. inversion H; subst m.
      destruct (scmp_agree _ x Okp Es) as (S1 & S2 & S3).
      assert (Rk : required_size KScmpPkt b = Ok (blen b)).
      { cbn [required_size]. unfold required_size_scmp_pkt. rewrite Rr. cbn [obind]. rewrite Pp. cbn [obind]. rewrite S1. reflexivity. }
      rewrite (tfs_full KScmpPkt b Rk). cbn [obind]. rewrite Ph. cbn [obind]. rewrite Dh. cbn [obind]. rewrite Pp. cbn [obind].
      rewrite S2, S3. cbn [obind]. reflexivity.
    + destruct (h_nh h =? 202); [|discriminate].
      destruct (spec_scmp (sl b hl pl)) as [x|] eqn:Es; [|discriminate]. inversion H; subst m.
      destruct (scmp_agree _ x Okp Es) as (S1 & S2 & S3).
      assert (Rk : required_size KScmpPkt b = Ok (blen b)).
      { cbn [required_size]. unfold required_size_scmp_pkt. rewrite Rr. cbn [obind]. rewrite Pp. cbn [obind]. rewrite S1. reflexivity. }
      rewrite (tfs_full KScmpPkt b Rk). cbn [obind]. rewrite Ph. cbn [obind]. rewrite Dh. cbn [obind]. rewrite Pp. cbn [obind].
      rewrite S2, S3. cbn [obind]. reflexivity.
    + (* UDP *)
      destruct (h_nh h =? 17); [|discriminate].
      destruct (spec_udp (sl b hl pl)) as [x|] eqn:Es; [|discriminate]. inversion H; subst m.
      destruct (udp_agree _ x Okp Es) as (S1 & S2 & S3).
      assert (Rk : required_size KUdpPkt b = Ok (blen b)).
      { cbn [required_size]. unfold required_size_udp_pkt. rewrite Rr. cbn [obind]. rewrite Pp. cbn [obind]. rewrite S1. reflexivity. }
      rewrite (tfs_full KUdpPkt b Rk). cbn [obind]. rewrite Ph. cbn [obind]. rewrite Dh. cbn [obind]. rewrite Pp. cbn [obind].
      rewrite S2, S3. cbn [obind]. reflexivity.
Qed.
