(** Whole-packet agreement of the independent STRICT reader [Spec_C03.spec_decode] with the
    model of the implementation's decoder, for EVERY byte string: whatever bytes the strict
    reader accepts, [decode_packet] accepts too, consumes all of them, and returns the same
    model.  Composition of the per-layer agreement lemmas of [SpecAgreeProofs] along the layout
    arithmetic of the header (address header, path, payload offsets). *)
From Coq Require Import Lia ZifyBool ZifyNat ZifyN.
From Sci Require Import Wire.Codec Wire.Spec_C03 Wire.BitFieldProofs Wire.Proofs_C02 Wire.Proofs_C02b Wire.Proofs_C02c
  Wire.SpecAgreeProofs.
Local Open Scope N_scope.
Ltac closed_le := apply N.leb_le; vm_compute; reflexivity.
Ltac Zify.zify_post_hook ::= Z.div_mod_to_equations.
Arguments N.add : simpl never. Arguments N.sub : simpl never. Arguments N.mul : simpl never.
Arguments N.div : simpl never. Arguments N.modulo : simpl never. Arguments N.pow : simpl never.
Arguments N.shiftr : simpl never. Arguments N.land : simpl never. Arguments N.ltb : simpl never.
Arguments N.leb : simpl never. Arguments N.eqb : simpl never.

(** * slices *)
Lemma len_blen (b : bytes) : len_ b = blen b.
Proof. reflexivity. Qed.

Lemma sub_sub (v : bytes) a c x y : a + y <= c -> c <= blen v -> sub (sub v a c) x y = sub v (a + x) (a + y).
Proof.
  intros H1 H2. unfold sub, blen in *. rewrite skipn_firstn_comm, firstn_firstn, skipn_skipn'.
  f_equal; [lia|]. f_equal. lia.
Qed.

Lemma sl_blen (v : bytes) o k : o + k <= blen v -> blen (sl v o k) = k.
Proof. intros H. rewrite sl_sub. rewrite blen_sub by lia. lia. Qed.

Lemma be_sub (v : bytes) a c o k : a + o + k <= c -> c <= blen v -> be (sub v a c) o k = be v (a + o) k.
Proof.
  intros H1 H2. unfold be. rewrite !sl_sub. rewrite sub_sub by lia. f_equal. f_equal. lia.
Qed.

Lemma sl_sl (v : bytes) a n o k : o + k <= n -> a + n <= blen v -> sl (sl v a n) o k = sl v (a + o) k.
Proof.
  intros H1 H2. rewrite !sl_sub. rewrite sub_sub by lia. f_equal. lia.
Qed.

Lemma be_sl (v : bytes) a n o k : o + k <= n -> a + n <= blen v -> be (sl v a n) o k = be v (a + o) k.
Proof. intros H1 H2. unfold be. rewrite sl_sl by assumption. reflexivity. Qed.

Lemma bytes_ok_sub (v : bytes) a c : bytes_ok v = true -> bytes_ok (sub v a c) = true.
Proof. intros H. unfold sub. apply bytes_ok_firstn, bytes_ok_skipn, H. Qed.
Lemma bytes_ok_sl (v : bytes) a n : bytes_ok v = true -> bytes_ok (sl v a n) = true.
Proof. intros H. rewrite sl_sub. apply bytes_ok_sub, H. Qed.

Lemma sub_all (v : bytes) : sub v 0 (blen v) = v.
Proof. unfold sub, blen. rewrite N.sub_0_r, Nat2N.id. cbn [N.to_nat skipn]. apply firstn_all. Qed.
Lemma sub_none (v : bytes) : sub v (blen v) (blen v) = [].
Proof. unfold sub. rewrite N.sub_diag. reflexivity. Qed.

(** * host addresses *)
Lemma hat_size_spec nib : nib < 16 -> hat_size nib = (nib mod 4 + 1) * 4.
Proof.
  intros H.
  assert (C : forallb (fun n => hat_size n =? (n mod 4 + 1) * 4) [0;1;2;3;4;5;6;7;8;9;10;11;12;13;14;15] = true) by (vm_compute; reflexivity).
  rewrite forallb_forall in C. apply N.eqb_eq. apply C.
  assert (E : nib = 0 \/ nib = 1 \/ nib = 2 \/ nib = 3 \/ nib = 4 \/ nib = 5 \/ nib = 6 \/ nib = 7 \/ nib = 8 \/ nib = 9
              \/ nib = 10 \/ nib = 11 \/ nib = 12 \/ nib = 13 \/ nib = 14 \/ nib = 15) by lia.
  cbn [In]. intuition.
Qed.

Lemma host_agree nib raw x :
  nib < 16 -> blen raw = (nib mod 4 + 1) * 4 -> spec_host nib raw = Some x -> host_addr_decode nib raw = Some x.
Proof.
  intros Hn Hl. unfold spec_host, host_addr_decode.
  change HAT_IPV4 with 0. change HAT_IPV6 with 3. change HAT_SERVICE with 4.
  unfold hat_unknown_id. rewrite N.shiftr_div_pow2. change (2 ^ 2) with 4.
  set (t := nib / 4) in *. set (l := nib mod 4) in *.
  assert (Hd : nib = 4 * t + l /\ l < 4) by (unfold t, l; lia).
  destruct Hd as [Hd Hl4].
  destruct ((t =? 0) && (l =? 0)) eqn:C1.
  { assert (nib = 0) by lia. replace (nib =? 0) with true by lia. replace (blen raw =? 4) with true by lia. auto. }
  destruct ((t =? 0) && (l =? 3)) eqn:C2.
  { assert (nib = 3) by lia. replace (nib =? 0) with false by lia. replace (nib =? 3) with true by lia.
    replace (blen raw =? 16) with true by lia. auto. }
  destruct ((t =? 1) && (l =? 0)) eqn:C3.
  { assert (nib = 4) by lia. replace (nib =? 0) with false by lia. replace (nib =? 3) with false by lia.
    replace (nib =? 4) with true by lia. replace (blen raw =? 4) with true by lia.
    destruct (all_zero (sl raw 2 2)); [|discriminate]. unfold be. rewrite sl_sub. auto. }
  replace (nib =? 0) with false by lia. replace (nib =? 3) with false by lia. replace (nib =? 4) with false by lia.
  replace (blen raw <=? 16) with true by lia. auto.
Qed.

(** * info / hop fields at an offset *)
Lemma decode_info_at (x : bytes) o i :
  bytes_ok x = true -> o + 8 <= blen x -> spec_info x o = Some i -> decode_info (sub x o (o + 8)) = Ok i.
Proof.
  intros Hok Hl. unfold spec_info. destruct (be x (o + 1) 1 =? 0); [|discriminate]. intros H. inversion H; subst i. clear H.
  assert (Lv : blen (sub x o (o + 8)) = 8) by (rewrite blen_sub by lia; lia).
  set (v := sub x o (o + 8)) in *.
  destruct (spec_info_agrees v (bytes_ok_sub x _ _ Hok) ltac:(rewrite Lv; unfold InfoField_SIZE_BYTES; lia)) as (E1 & E2 & E3 & _).
  unfold decode_info. rewrite E1, E2, E3. cbn [obind]. unfold v.
  rewrite !be_sub by lia. rewrite N.add_0_r. reflexivity.
Qed.

Lemma decode_hop_at (x : bytes) o :
  bytes_ok x = true -> o + 12 <= blen x -> decode_hop (sub x o (o + 12)) = Ok (spec_hop x o).
Proof.
  intros Hok Hl.
  assert (Lv : blen (sub x o (o + 12)) = 12) by (rewrite blen_sub by lia; lia).
  set (v := sub x o (o + 12)) in *.
  destruct (spec_hop_agrees v (bytes_ok_sub x _ _ Hok) ltac:(rewrite Lv; unfold HopField_SIZE_BYTES; lia)) as (E1 & E2 & E3 & E4 & E5).
  unfold decode_hop. rewrite E1, E2, E3, E4, E5. cbn [obind]. unfold v, spec_hop.
  rewrite !be_sub by lia. rewrite N.add_0_r.
  rewrite sl_sub. rewrite sub_sub by lia. rewrite sl_sub.
  replace (o + (6 + 6)) with (o + 6 + 6) by lia. reflexivity.
Qed.

(** * one-hop path *)
Lemma onehop_agree (x : bytes) pth :
  bytes_ok x = true -> spec_path 2 x = Some pth -> decode_onehop x = Ok pth.
Proof.
  intros Hok. unfold spec_path. change (2 =? 0) with false. change (2 =? 1) with false. change (2 =? 2) with true. cbv iota.
  destruct (len_ x =? 32) eqn:L; [|discriminate]. apply N.eqb_eq in L. rewrite len_blen in L.
  destruct (spec_info x 0) as [i|] eqn:Ei; [|discriminate]. intros H. inversion H; subst pth. clear H.
  unfold decode_onehop.
  change (byte_lo OneHopPath_INFO_FIELD) with 0. change (byte_hi OneHopPath_INFO_FIELD) with (0 + 8).
  change (byte_lo OneHopPath_HOP_FIELD_1) with 8. change (byte_hi OneHopPath_HOP_FIELD_1) with (8 + 12).
  change (byte_lo OneHopPath_HOP_FIELD_2) with 20. change (byte_hi OneHopPath_HOP_FIELD_2) with (20 + 12).
  rewrite !index_range_ok by lia. cbn [obind].
  rewrite (decode_info_at x 0 i Hok ltac:(lia) Ei). cbn [obind].
  rewrite (decode_hop_at x 8 Hok ltac:(lia)). cbn [obind].
  rewrite (decode_hop_at x 20 Hok ltac:(lia)). cbn [obind]. reflexivity.
Qed.

(** * UDP *)
Lemma udp_agree (p : bytes) pl :
  bytes_ok p = true -> spec_udp p = Some pl ->
  try_from_slice KUdp p = Ok (p, []) /\ decode_udp p = Ok pl.
Proof.
  intros Hok. unfold spec_udp. rewrite len_blen.
  destruct (blen p <? 8) eqn:L8; [discriminate|]. apply N.ltb_ge in L8.
  destruct (be p 4 2 =? blen p) eqn:EL; cbn [negb]; [|discriminate]. apply N.eqb_eq in EL.
  intros H. inversion H; subst pl. clear H.
  destruct (spec_udp_agrees p Hok ltac:(unfold UdpDatagram_HEADER_SIZE_BYTES; lia)) as (E1 & E2 & E3 & _).
  split.
  - unfold try_from_slice. cbn [required_size]. unfold required_size_udp.
    change UdpDatagram_HEADER_SIZE_BYTES with 8.
    replace (blen p <? 8) with false by lia. unfold udp_length in E3. rewrite E3. cbn [obind]. rewrite EL.
    replace (blen p <? 8) with false by lia. rewrite N.min_id. cbn [obind]. rewrite N.ltb_irrefl.
    rewrite sub_all, sub_none. reflexivity.
  - unfold decode_udp. rewrite E1, E2. cbn [obind]. unfold udp_payload_range. change UdpDatagram_HEADER_SIZE_BYTES with 8.
    rewrite get_unchecked_ok by lia. cbn [obind fst snd]. rewrite sl_sub.
    replace (8 + (blen p - 8)) with (blen p) by lia. reflexivity.
Qed.

(** * standard path *)
Lemma decode_seq_info (x : bytes) n : forall o infos,
  bytes_ok x = true -> o + 8 * N.of_nat n <= blen x -> spec_infos x o n = Some infos ->
  decode_seq decode_info x o 8 n = Ok infos.
Proof.
  induction n as [|n IH]; intros o infos Hok Hl H; cbn [spec_infos decode_seq] in *.
  - inversion H. reflexivity.
  - destruct (spec_info x o) as [i|] eqn:Ei; [|discriminate].
    destruct (spec_infos x (o + 8) n) as [r|] eqn:Er; [|discriminate]. inversion H; subst infos. clear H.
    rewrite get_unchecked_ok by lia. cbn [obind].
    rewrite (decode_info_at x o i Hok ltac:(lia) Ei). cbn [obind].
    rewrite (IH (o + 8) r Hok ltac:(lia) Er). reflexivity.
Qed.

Lemma decode_seq_hop (x : bytes) n : forall o,
  bytes_ok x = true -> o + 12 * N.of_nat n <= blen x ->
  decode_seq decode_hop x o 12 n = Ok (spec_hops x o n).
Proof.
  induction n as [|n IH]; intros o Hok Hl; cbn [spec_hops decode_seq] in *; [reflexivity|].
  rewrite get_unchecked_ok by lia. cbn [obind].
  rewrite (decode_hop_at x o Hok ltac:(lia)). cbn [obind].
  rewrite (IH (o + 12) Hok ltac:(lia)). reflexivity.
Qed.

Lemma std_ranges ic hc :
  let r := rshift (0, ic * (InfoField_SIZE_BYTES * 8)) StdPathMeta_SIZE_BYTES in
  let ie := ic * (InfoField_SIZE_BYTES * 8) in
  let r2 := rshift (rng_of_range ie (ie + hc * (HopField_SIZE_BYTES * 8))) StdPathMeta_SIZE_BYTES in
  byte_lo r = 4 /\ byte_hi r = 4 + 8 * ic /\ byte_lo r2 = 4 + 8 * ic /\ byte_hi r2 = 4 + 8 * ic + 12 * hc.
Proof.
  unfold rshift, rng_of_range, byte_lo, byte_hi, r_end, r_start, r_width. cbn [fst snd].
  change InfoField_SIZE_BYTES with 8. change HopField_SIZE_BYTES with 12. change StdPathMeta_SIZE_BYTES with 4.
  repeat split; lia.
Qed.

Lemma std_agree (x : bytes) pth : bytes_ok x = true -> spec_std x = Some pth -> decode_stdpath x = Ok pth.
Proof.
  intros Hok. unfold spec_std. rewrite len_blen.
  destruct (blen x <? 4) eqn:L4; [discriminate|]. apply N.ltb_ge in L4.
  destruct (spec_meta_agrees x Hok ltac:(unfold StdPathMeta_SIZE_BYTES; lia)) as (Eci & Ech & _ & E0 & E1 & E2).
  set (m := be x 0 4) in *.
  set (s0 := (m / 2 ^ 12) mod 64) in *. set (s1 := (m / 2 ^ 6) mod 64) in *. set (s2 := m mod 64) in *.
  set (ni := (if 0 <? s0 then 1 else 0) + (if 0 <? s1 then 1 else 0) + (if 0 <? s2 then 1 else 0)).
  destruct (((m / 2 ^ 18) mod 64 =? 0) && ((0 <? s0) && ((0 <? s1) || (s2 =? 0))) && (blen x =? 4 + 8 * ni + 12 * (s0 + s1 + s2))) eqn:C;
    cbn [negb]; [|discriminate].
  apply Bool.andb_true_iff in C. destruct C as [C CL]. apply Bool.andb_true_iff in C. destruct C as [_ CP].
  apply N.eqb_eq in CL.
  destruct (spec_infos x 4 (N.to_nat ni)) as [infos|] eqn:EI; [|discriminate].
  intros H. inversion H; subst pth. clear H.
  unfold decode_stdpath. rewrite Eci, Ech. cbn [obind]. unfold sp_segs. rewrite E0, E1, E2. cbn [obind].
  unfold sp_info_fields_range, sp_hop_fields_range, sp_segs. rewrite E0, E1, E2. cbn [obind].
  unfold info_fields_byte_range, hop_fields_byte_range.
  assert (Eic : info_field_count s0 s1 s2 = ni) by reflexivity.
  assert (Ehc : hop_field_count s0 s1 s2 = s0 + s1 + s2) by reflexivity.
  rewrite Eic, Ehc.
  destruct (std_ranges ni (s0 + s1 + s2)) as (R1 & R2 & R3 & R4). cbv zeta in R1, R2, R3, R4.
  rewrite R1, R2, R3, R4. cbn [fst snd].
  rewrite !get_unchecked_ok by lia. cbn [obind fst snd].
  change InfoField_SIZE_BYTES with 8. change HopField_SIZE_BYTES with 12.
  rewrite (decode_seq_info x (N.to_nat ni) 4 infos Hok ltac:(lia) EI). cbn [obind].
  rewrite (decode_seq_hop x (N.to_nat (s0 + s1 + s2)) (4 + 8 * ni) Hok ltac:(lia)). cbn [obind].
  set (hops := spec_hops x (4 + 8 * ni) (N.to_nat (s0 + s1 + s2))).
  f_equal. f_equal.
  (* the segment list *)
  apply Bool.andb_true_iff in CP. destruct CP as [P0 P1].
  unfold ni in EI. rewrite P0 in *.
  destruct (0 <? s1) eqn:Q1.
  - destruct (0 <? s2) eqn:Q2.
    + change (N.to_nat (1 + 1 + 1)) with 3%nat in EI. cbn [spec_infos] in EI.
      destruct (spec_info x 4) as [i0|]; [|discriminate]. destruct (spec_info x (4 + 8)) as [i1|]; [|discriminate].
      destruct (spec_info x (4 + 8 + 8)) as [i2|]; [|discriminate]. inversion EI; subst infos.
      cbn [build_segments nth_error app]. rewrite skipn_skipn'. rewrite <- N2Nat.inj_add. reflexivity.
    + change (N.to_nat (1 + 1 + 0)) with 2%nat in EI. cbn [spec_infos] in EI.
      destruct (spec_info x 4) as [i0|]; [|discriminate]. destruct (spec_info x (4 + 8)) as [i1|]; [|discriminate].
      inversion EI; subst infos. cbn [build_segments nth_error app]. reflexivity.
  - cbn [orb] in P1. apply N.eqb_eq in P1. replace (0 <? s2) with false in * by lia.
    change (N.to_nat (1 + 0 + 0)) with 1%nat in EI. cbn [spec_infos] in EI.
    destruct (spec_info x 4) as [i0|]; [|discriminate]. inversion EI; subst infos.
    cbn [build_segments nth_error app]. reflexivity.
Qed.
