(** The lane read of core/read.rs is the mathematical bit field of the whole buffer. *)
From Coq Require Import Lia ZifyBool ZifyNat ZifyN.
From Sci Require Import Wire.BitField.
Local Open Scope N_scope.
Ltac Zify.zify_post_hook ::= Z.div_mod_to_equations.
Arguments N.add : simpl never. Arguments N.sub : simpl never. Arguments N.mul : simpl never.
Arguments N.div : simpl never. Arguments N.modulo : simpl never. Arguments N.pow : simpl never.

Lemma be_val_app_acc x : forall acc y, be_val acc (x ++ y) = be_val (be_val acc x) y.
Proof. induction x as [|a x IH]; intros acc y; cbn [be_val app]; [reflexivity|apply IH]. Qed.

Lemma be_val_acc l : forall acc, be_val acc l = acc * 256 ^ N.of_nat (length l) + be_val 0 l.
Proof.
  induction l as [|x l IH]; intros acc; cbn [be_val length].
  - rewrite N.pow_0_r. lia.
  - rewrite IH, (IH (0 * 256 + x)), Nat2N.inj_succ, N.pow_succ_r'. ring.
Qed.

Lemma be_val_app x y : be_val 0 (x ++ y) = be_val 0 x * 256 ^ N.of_nat (length y) + be_val 0 y.
Proof. rewrite be_val_app_acc. apply be_val_acc. Qed.

Lemma be_val_lt l : bytes_ok l = true -> be_val 0 l < 256 ^ N.of_nat (length l).
Proof.
  induction l as [|x l IH]; cbn [bytes_ok forallb be_val length]; intros H.
  - rewrite N.pow_0_r. lia.
  - apply Bool.andb_true_iff in H. destruct H as [Hx Hl]. unfold byte_ok in Hx. apply N.ltb_lt in Hx.
    specialize (IH Hl). rewrite be_val_acc, Nat2N.inj_succ, N.pow_succ_r'.
    set (P := 256 ^ N.of_nat (length l)) in *. nia.
Qed.

Lemma bytes_ok_app x y : bytes_ok (x ++ y) = bytes_ok x && bytes_ok y.
Proof. unfold bytes_ok. apply forallb_app. Qed.
Lemma bytes_ok_firstn n l : bytes_ok l = true -> bytes_ok (firstn n l) = true.
Proof.
  intros H. rewrite <- (firstn_skipn n l), bytes_ok_app in H. apply Bool.andb_true_iff in H. tauto.
Qed.
Lemma bytes_ok_skipn n l : bytes_ok l = true -> bytes_ok (skipn n l) = true.
Proof.
  intros H. rewrite <- (firstn_skipn n l), bytes_ok_app in H. apply Bool.andb_true_iff in H. tauto.
Qed.

Lemma skipn_skipn' {A} (x y : nat) (l : list A) : skipn x (skipn y l) = skipn (y + x) l.
Proof.
  revert l; induction y as [|y IH]; intros l; cbn [skipn Nat.add]; [reflexivity|].
  destruct l; [destruct x; reflexivity|apply IH].
Qed.

Lemma split3 (b : bytes) lo hi : lo <= hi -> hi <= blen b ->
  b = firstn (N.to_nat lo) b ++ sub b lo hi ++ skipn (N.to_nat hi) b.
Proof.
  intros H1 H2. unfold sub.
  rewrite <- (firstn_skipn (N.to_nat lo) b) at 1. f_equal.
  rewrite <- (firstn_skipn (N.to_nat (hi - lo)) (skipn (N.to_nat lo) b)) at 1. f_equal.
  rewrite skipn_skipn'. f_equal. lia.
Qed.

(** value of a byte slice = digits of the whole value *)
Lemma be_val_sub b lo hi : bytes_ok b = true -> lo <= hi -> hi <= blen b ->
  be_val 0 (sub b lo hi) = (be_val 0 b / 256 ^ (blen b - hi)) mod 256 ^ (hi - lo).
Proof.
  intros Hok H1 H2.
  pose proof (split3 b lo hi H1 H2) as S.
  set (p := firstn (N.to_nat lo) b) in *. set (m := sub b lo hi) in *. set (s := skipn (N.to_nat hi) b) in *.
  assert (Ls : N.of_nat (length s) = blen b - hi) by (unfold s, blen in *; rewrite skipn_length; lia).
  assert (Lm : N.of_nat (length m) = hi - lo) by (unfold m, sub, blen in *; rewrite firstn_length, skipn_length; lia).
  assert (Hm : be_val 0 m < 256 ^ (hi - lo)).
  { rewrite <- Lm. apply be_val_lt. unfold m, sub. apply bytes_ok_firstn, bytes_ok_skipn, Hok. }
  assert (Hs : be_val 0 s < 256 ^ (blen b - hi)).
  { rewrite <- Ls. apply be_val_lt. unfold s. apply bytes_ok_skipn, Hok. }
  replace (be_val 0 b) with (be_val 0 (p ++ m ++ s)) by (rewrite <- S; reflexivity).
  rewrite !be_val_app, app_length, Nat2N.inj_add, Ls, Lm, N.pow_add_r.
  set (T := 256 ^ (blen b - hi)) in *. set (A := 256 ^ (hi - lo)) in *.
  assert (T <> 0) by (apply N.pow_nonzero; discriminate).
  assert (A <> 0) by (apply N.pow_nonzero; discriminate).
  replace ((be_val 0 p * (A * T) + (be_val 0 m * T + be_val 0 s)) / T) with (be_val 0 p * A + be_val 0 m).
  - apply N.mod_unique with (q := be_val 0 p); [exact Hm|]. ring.
  - apply N.div_unique with (r := be_val 0 s); [exact Hs|]. ring.
Qed.

Lemma pow256 n : 256 ^ n = 2 ^ (8 * n).
Proof. change 256 with (2 ^ 8). rewrite <- N.pow_mul_r. reflexivity. Qed.

(** arithmetic core: dropping high digits does not change a low bit field *)
Lemma field_of_mod (Y a c w : N) : c + w <= a -> ((Y mod 2 ^ a) / 2 ^ c) mod 2 ^ w = (Y / 2 ^ c) mod 2 ^ w.
Proof.
  intros H.
  assert (E2a : 2 ^ a = 2 ^ (a - c - w) * 2 ^ w * 2 ^ c).
  { rewrite <- !N.pow_add_r. f_equal. lia. }
  assert (N0 : forall k, 2 ^ k <> 0) by (intros; apply N.pow_nonzero; discriminate).
  rewrite (N.div_mod Y (2 ^ a) (N0 a)) at 2.
  set (q := Y / 2 ^ a). set (r := Y mod 2 ^ a).
  rewrite E2a.
  replace (2 ^ (a - c - w) * 2 ^ w * 2 ^ c * q + r) with ((2 ^ (a - c - w) * q * 2 ^ w) * 2 ^ c + r) by ring.
  rewrite N.div_add_l by apply N0.
  rewrite N.add_comm, N.mod_add by apply N0. reflexivity.
Qed.

(** read.rs computes the mathematical bit field *)
Lemma lane_read_is_bf_get b r :
  bytes_ok b = true -> byte_hi r <= blen b -> lane_read b r = bf_get b r.
Proof.
  intros Hok Hhi. unfold lane_read, bf_get.
  assert (Hlo : byte_lo r <= byte_hi r) by (unfold byte_lo, byte_hi, r_end, r_start; lia).
  rewrite be_val_sub by assumption.
  rewrite N.land_ones, N.shiftr_div_pow2, !pow256.
  set (Bv := be_val 0 b). set (sh := byte_hi r * 8 - r_end r).
  assert (He : r_end r <= byte_hi r * 8) by (unfold byte_hi; lia).
  assert (Hs : byte_lo r * 8 <= r_start r) by (unfold byte_lo; lia).
  rewrite field_of_mod by (unfold sh, r_end, r_width, r_start in *; lia).
  rewrite N.div_div by (apply N.pow_nonzero; discriminate).
  rewrite <- N.pow_add_r. f_equal. f_equal. f_equal. unfold sh. lia.
Qed.

(** ... so it is independent of where the containing byte range starts, below the value bound *)
Lemma bf_get_lt b r : bf_get b r < 2 ^ r_width r.
Proof. unfold bf_get. apply N.mod_lt. apply N.pow_nonzero. discriminate. Qed.

Lemma lane_read_local_eq b b' r :
  sub b (byte_lo r) (byte_hi r) = sub b' (byte_lo r) (byte_hi r) -> lane_read b r = lane_read b' r.
Proof. unfold lane_read. intros ->. reflexivity. Qed.

(** * a lane write replaces exactly the bytes of its containing byte range *)
Lemma be_bytes_len n v : length (be_bytes n v) = n.
Proof. revert v; induction n; intros v; cbn [be_bytes]; [reflexivity|]. rewrite app_length, IHn. cbn. lia. Qed.

Lemma lane_write_shape b r v : byte_hi r <= blen b ->
  exists x, length x = N.to_nat (byte_hi r - byte_lo r) /\
            lane_write b r v = firstn (N.to_nat (byte_lo r)) b ++ x ++ skipn (N.to_nat (byte_hi r)) b.
Proof. intros H. unfold lane_write. eexists. split; [|reflexivity]. apply be_bytes_len. Qed.

Lemma sub_below (p x s : bytes) lo2 hi2 : hi2 <= blen p -> sub (p ++ x ++ s) lo2 hi2 = sub p lo2 hi2.
Proof.
  intros H. unfold sub, blen in *.
  destruct (N.le_gt_cases lo2 hi2) as [L|L].
  - rewrite skipn_app, firstn_app, skipn_length.
    replace (N.to_nat (hi2 - lo2) - (length p - N.to_nat lo2))%nat with 0%nat by lia.
    cbn [firstn]. apply app_nil_r.
  - replace (N.to_nat (hi2 - lo2)) with 0%nat by lia. reflexivity.
Qed.

Lemma sub_above (p x s : bytes) lo2 hi2 : blen p + blen x <= lo2 ->
  sub (p ++ x ++ s) lo2 hi2 = sub s (lo2 - blen p - blen x) (hi2 - blen p - blen x).
Proof.
  intros H. unfold sub, blen in *.
  rewrite app_assoc, skipn_app, app_length.
  rewrite (skipn_all2 (p ++ x)) by (rewrite app_length; lia). cbn [app].
  f_equal; [lia|]. f_equal. lia.
Qed.

(** reading a range whose bytes do not overlap the written byte range sees the old value *)
Lemma read_after_write_other_bytes b r v r2 :
  byte_hi r <= blen b ->
  byte_hi r2 <= byte_lo r \/ byte_hi r <= byte_lo r2 ->
  lane_read (lane_write b r v) r2 = lane_read b r2.
Proof.
  intros Hb Hd. apply lane_read_local_eq.
  destruct (lane_write_shape b r v Hb) as (x & Lx & ->).
  assert (Hlo : byte_lo r <= byte_hi r) by (unfold byte_lo, byte_hi, r_end, r_start; lia).
  set (p := firstn (N.to_nat (byte_lo r)) b). set (s := skipn (N.to_nat (byte_hi r)) b).
  assert (Lp : blen p = byte_lo r) by (unfold p, blen in *; rewrite firstn_length; lia).
  assert (Lxx : blen x = byte_hi r - byte_lo r) by (unfold blen; lia).
  destruct Hd as [Hd|Hd].
  - rewrite sub_below by lia. unfold p, sub.
    rewrite skipn_firstn_comm, firstn_firstn. f_equal.
    assert (byte_lo r2 <= byte_hi r2) by (unfold byte_lo, byte_hi, r_end, r_start; lia). lia.
  - rewrite sub_above by lia. unfold s, sub. rewrite skipn_skipn'. f_equal; [lia|]. f_equal. lia.
Qed.

(** * bit-level specification of the lane write *)
Arguments N.shiftl : simpl never. Arguments N.shiftr : simpl never. Arguments N.land : simpl never.
Arguments N.lor : simpl never. Arguments N.ldiff : simpl never. Arguments N.testbit : simpl never.
Arguments N.ones : simpl never. Arguments N.ltb : simpl never.

Lemma pow2_nz k : 2 ^ k <> 0.
Proof. apply N.pow_nonzero. discriminate. Qed.

(* bits of a two-block number *)
Lemma testbit_block X L n i : L < 2 ^ n ->
  N.testbit (X * 2 ^ n + L) i = if i <? n then N.testbit L i else N.testbit X (i - n).
Proof.
  intros HL. destruct (i <? n) eqn:E.
  - apply N.ltb_lt in E. rewrite <- (N.mod_pow2_bits_low (X * 2 ^ n + L) n i E).
    rewrite N.add_comm, N.mod_add by apply pow2_nz. rewrite N.mod_small by exact HL. reflexivity.
  - apply N.ltb_ge in E. replace i with ((i - n) + n) at 1 by lia. rewrite <- N.div_pow2_bits.
    rewrite N.div_add_l by apply pow2_nz. rewrite N.div_small by exact HL. rewrite N.add_0_r. reflexivity.
Qed.

(* bits of a three-block number: high part q, field F of width w at position sh, low part L *)
Lemma testbit_block3 q F L sh w i : F < 2 ^ w -> L < 2 ^ sh ->
  N.testbit ((q * 2 ^ w + F) * 2 ^ sh + L) i =
  if i <? sh then N.testbit L i else if i - sh <? w then N.testbit F (i - sh) else N.testbit q (i - sh - w).
Proof.
  intros HF HL. rewrite testbit_block by exact HL. destruct (i <? sh); [reflexivity|].
  apply testbit_block. exact HF.
Qed.

Lemma block3_decompose M sh w :
  exists q F L, F = (M / 2 ^ sh) mod 2 ^ w /\ F < 2 ^ w /\ L < 2 ^ sh /\ M = (q * 2 ^ w + F) * 2 ^ sh + L.
Proof.
  exists (M / 2 ^ sh / 2 ^ w), ((M / 2 ^ sh) mod 2 ^ w), (M mod 2 ^ sh).
  split; [reflexivity|]. split; [apply N.mod_lt, pow2_nz|]. split; [apply N.mod_lt, pow2_nz|].
  rewrite (N.div_mod M (2 ^ sh)) at 1 by apply pow2_nz.
  rewrite (N.div_mod (M / 2 ^ sh) (2 ^ w)) at 1 by apply pow2_nz. ring.
Qed.

(** the masked read-modify-write of write.rs replaces exactly the field *)
Lemma rmw_blocks q F L sh w v : F < 2 ^ w -> L < 2 ^ sh ->
  N.lor (N.ldiff ((q * 2 ^ w + F) * 2 ^ sh + L) (N.shiftl (N.ones w) sh)) (N.shiftl (N.land v (N.ones w)) sh)
  = (q * 2 ^ w + v mod 2 ^ w) * 2 ^ sh + L.
Proof.
  intros HF HL. rewrite N.land_ones.
  assert (HV : v mod 2 ^ w < 2 ^ w) by (apply N.mod_lt, pow2_nz). set (V := v mod 2 ^ w) in *.
  apply N.bits_inj. intros i.
  rewrite N.lor_spec, N.ldiff_spec.
  rewrite !testbit_block3 by assumption.
  rewrite !N.shiftl_mul_pow2.
  replace (N.ones w * 2 ^ sh) with ((0 * 2 ^ w + N.ones w) * 2 ^ sh + 0) by ring.
  replace (V * 2 ^ sh) with ((0 * 2 ^ w + V) * 2 ^ sh + 0) by ring.
  assert (HO : N.ones w < 2 ^ w) by (rewrite N.ones_equiv; pose proof (pow2_nz w); lia).
  assert (H0 : 0 < 2 ^ sh) by (pose proof (pow2_nz sh); lia).
  rewrite !testbit_block3 by assumption.
  destruct (i <? sh) eqn:E1.
  - rewrite !N.bits_0. rewrite Bool.andb_true_r, Bool.orb_false_r. reflexivity.
  - destruct (i - sh <? w) eqn:E2.
    + apply N.ltb_lt in E2. rewrite N.ones_spec_low by exact E2. rewrite Bool.andb_false_r. reflexivity.
    + rewrite !N.bits_0. rewrite Bool.andb_true_r, Bool.orb_false_r. reflexivity.
Qed.

(** value of the bytes written back *)
Lemma be_val_be_bytes n : forall v, be_val 0 (be_bytes n v) = v mod 256 ^ N.of_nat n.
Proof.
  induction n as [|n IH]; intros v; cbn [be_bytes].
  - rewrite N.pow_0_r, N.mod_1_r. reflexivity.
  - rewrite be_val_app, IH. cbn [be_val length]. change (256 ^ N.of_nat 1) with 256.
    rewrite Nat2N.inj_succ, N.pow_succ_r'.
    rewrite N.mod_mul_r by (try apply N.pow_nonzero; discriminate). lia.
Qed.

Lemma bytes_ok_be_bytes n : forall v, bytes_ok (be_bytes n v) = true.
Proof.
  induction n as [|n IH]; intros v; cbn [be_bytes]; [reflexivity|].
  rewrite bytes_ok_app, IH. cbn [bytes_ok forallb]. unfold byte_ok.
  rewrite Bool.andb_true_r. apply N.ltb_lt. apply N.mod_lt. discriminate.
Qed.

Lemma pow2_split a b c : b + c <= a -> 2 ^ a = 2 ^ (a - b - c) * 2 ^ c * 2 ^ b.
Proof. intros H. rewrite <- !N.pow_add_r. f_equal. lia. Qed.
Lemma blk_q_small A W T q F L : (q * W + F) * T + L < A * W * T -> q < A.
Proof.
  intros H. destruct (N.lt_ge_cases q A) as [|G]; [assumption|exfalso].
  assert (A * W * T <= q * W * T) by (apply N.mul_le_mono_r, N.mul_le_mono_r, G). nia.
Qed.
Lemma blk_fits A W T q V L : q < A -> V < W -> L < T -> (q * W + V) * T + L < A * W * T.
Proof.
  intros Hq HV HL.
  assert ((q * W + V) * T + L < (q * W + V + 1) * T) by nia.
  assert ((q * W + V + 1) * T <= (q + 1) * W * T) by (apply N.mul_le_mono_r; nia).
  assert ((q + 1) * W * T <= A * W * T) by (apply N.mul_le_mono_r, N.mul_le_mono_r; lia). lia.
Qed.
Lemma blk_low L T S U : L < T -> S < U -> L * U + S < T * U.
Proof. intros. nia. Qed.

Lemma lane_write_blen b r v : byte_hi r <= blen b -> blen (lane_write b r v) = blen b.
Proof.
  intros H. unfold lane_write, blen in *. rewrite !app_length, be_bytes_len, firstn_length, skipn_length.
  assert (byte_lo r <= byte_hi r) by (unfold byte_lo, byte_hi, r_end, r_start; lia). lia.
Qed.

(** the big-endian value of the buffer after a lane write: the field is replaced, every other
    bit stays *)
Lemma lane_write_value b r v :
  bytes_ok b = true -> byte_hi r <= blen b ->
  let s := 8 * blen b - r_end r in
  let w := r_width r in
  exists H L, L < 2 ^ s
    /\ be_val 0 b = (H * 2 ^ w + bf_get b r) * 2 ^ s + L
    /\ be_val 0 (lane_write b r v) = (H * 2 ^ w + v mod 2 ^ w) * 2 ^ s + L
    /\ bytes_ok (lane_write b r v) = true /\ blen (lane_write b r v) = blen b.
Proof.
  intros Hok Hhi s w.
  assert (Hlo : byte_lo r <= byte_hi r) by (unfold byte_lo, byte_hi, r_end, r_start; lia).
  assert (He : r_end r <= byte_hi r * 8) by (unfold byte_hi; lia).
  assert (Hs : byte_lo r * 8 <= r_start r) by (unfold byte_lo; lia).
  assert (Hk : (byte_hi r * 8 - r_end r) + r_width r <= 8 * (byte_hi r - byte_lo r))
    by (unfold r_end, r_width, r_start in *; lia).
  assert (Es : s = (byte_hi r * 8 - r_end r) + 8 * (blen b - byte_hi r)) by (unfold s; lia).
  pose proof (lane_write_blen b r v Hhi) as Hlen.
  pose proof (split3 b _ _ Hlo Hhi) as S3.
  set (p := firstn (N.to_nat (byte_lo r)) b) in *. set (m := sub b (byte_lo r) (byte_hi r)) in *.
  set (sf := skipn (N.to_nat (byte_hi r)) b) in *.
  assert (Lsf : N.of_nat (length sf) = blen b - byte_hi r) by (unfold sf, blen in *; rewrite skipn_length; lia).
  assert (Lm : N.of_nat (length m) = byte_hi r - byte_lo r) by (unfold m, sub, blen in *; rewrite firstn_length, skipn_length; lia).
  assert (Okm : bytes_ok m = true) by (unfold m, sub; apply bytes_ok_firstn, bytes_ok_skipn, Hok).
  assert (Oksf : bytes_ok sf = true) by (unfold sf; apply bytes_ok_skipn, Hok).
  assert (Okp : bytes_ok p = true) by (unfold p; apply bytes_ok_firstn, Hok).
  pose proof (be_val_lt m Okm) as Bm. pose proof (be_val_lt sf Oksf) as Bsf. rewrite Lm in Bm. rewrite Lsf in Bsf.
  set (sh := byte_hi r * 8 - r_end r).
  set (k := byte_hi r - byte_lo r) in *.
  destruct (block3_decompose (be_val 0 m) sh w) as (q & F & L0 & EF & HF & HL0 & EM).
  (* the field of the lane is the field of the buffer *)
  assert (EFb : F = bf_get b r).
  { rewrite <- (lane_read_is_bf_get b r Hok Hhi). unfold lane_read. fold m. fold sh.
    rewrite N.land_ones, N.shiftr_div_pow2. exact EF. }
  (* q is small: the lane has k bytes *)
  fold sh in Hk. fold k in Hk. change (r_width r) with w in Hk.
  (* new lane value *)
  unfold lane_write. fold m. fold sh. fold p. fold sf. fold k.
  change (r_width r) with w.
  rewrite EM. rewrite rmw_blocks by assumption.
  set (V := v mod 2 ^ w). assert (HV : V < 2 ^ w) by (apply N.mod_lt, pow2_nz).
  set (nv := (q * 2 ^ w + V) * 2 ^ sh + L0).
  (* nv fits k bytes *)
  pose proof (pow2_split (8 * k) sh w Hk) as E8.
  assert (Hnv : nv < 256 ^ k).
  { rewrite pow256 in Bm |- *. rewrite E8 in Bm |- *. rewrite EM in Bm. unfold nv.
    apply blk_fits; [|exact HV|exact HL0]. eapply blk_q_small. exact Bm. }
  assert (Enew : be_val 0 (be_bytes (N.to_nat k) nv) = nv).
  { rewrite be_val_be_bytes, N2Nat.id. apply N.mod_small. exact Hnv. }
  exists (be_val 0 p * 2 ^ (8 * k - sh - w) + q), (L0 * 2 ^ (8 * (blen b - byte_hi r)) + be_val 0 sf).
  fold sh in Es.
  rewrite pow256 in Bsf.
  set (U := 2 ^ (8 * (blen b - byte_hi r))) in *.
  assert (E2s : 2 ^ s = 2 ^ sh * U) by (rewrite Es, N.pow_add_r; reflexivity).
  refine (conj _ (conj _ (conj _ (conj _ _)))).
  - rewrite E2s. apply blk_low; assumption.
  - rewrite S3 at 1. rewrite !be_val_app, Lsf, app_length, Nat2N.inj_add, Lsf, Lm, N.pow_add_r, !pow256.
    fold U. rewrite EM, E8, E2s, <- EFb. ring.
  - rewrite !be_val_app, Enew, Lsf, app_length, be_bytes_len, Nat2N.inj_add, Lsf, N2Nat.id, N.pow_add_r, !pow256.
    fold U. unfold nv. rewrite E8, E2s. ring.
  - rewrite !bytes_ok_app, Okp, Oksf, bytes_ok_be_bytes. reflexivity.
  - unfold blen. rewrite !app_length, be_bytes_len. unfold p, sf. rewrite firstn_length, skipn_length.
    clear - Hhi Hlo. unfold k, blen in *. lia.
Qed.

Lemma field_same H V L s w : L < 2 ^ s -> V < 2 ^ w -> (((H * 2 ^ w + V) * 2 ^ s + L) / 2 ^ s) mod 2 ^ w = V.
Proof.
  intros HL HV. rewrite N.div_add_l by apply pow2_nz. rewrite (N.div_small L) by exact HL. rewrite N.add_0_r.
  rewrite N.add_comm, N.mod_add by apply pow2_nz. apply N.mod_small. exact HV.
Qed.
Lemma field_low X L s c w2 : L < 2 ^ s -> c + w2 <= s -> ((X * 2 ^ s + L) / 2 ^ c) mod 2 ^ w2 = (L / 2 ^ c) mod 2 ^ w2.
Proof.
  intros HL Hc. rewrite <- (field_of_mod (X * 2 ^ s + L) s c w2 Hc).
  replace ((X * 2 ^ s + L) mod 2 ^ s) with L; [reflexivity|].
  rewrite N.add_comm, N.mod_add by apply pow2_nz. symmetry. apply N.mod_small. exact HL.
Qed.
Lemma field_high H V L s w c : L < 2 ^ s -> V < 2 ^ w -> s + w <= c ->
  ((H * 2 ^ w + V) * 2 ^ s + L) / 2 ^ c = H / 2 ^ (c - s - w).
Proof.
  intros HL HV Hc. replace c with (s + (w + (c - s - w))) at 1 by lia.
  rewrite N.pow_add_r, <- N.div_div by apply pow2_nz. rewrite N.pow_add_r, <- N.div_div by apply pow2_nz.
  rewrite N.div_add_l by apply pow2_nz. rewrite (N.div_small L) by exact HL. rewrite N.add_0_r.
  rewrite N.div_add_l by apply pow2_nz. rewrite (N.div_small V) by exact HV. rewrite N.add_0_r. reflexivity.
Qed.

(** reading back the field just written gives the value, truncated to the field width *)
Lemma read_write_same_lemma b r v : bytes_ok b = true -> byte_hi r <= blen b ->
  lane_read (lane_write b r v) r = v mod 2 ^ r_width r.
Proof.
  intros Hok Hhi. destruct (lane_write_value b r v Hok Hhi) as (H & L & HL & _ & EB' & Ok' & Len').
  rewrite lane_read_is_bf_get by (try rewrite Len'; assumption).
  unfold bf_get. rewrite Len', EB'. apply field_same; [exact HL|apply N.mod_lt, pow2_nz].
Qed.

(** a field whose bits do not overlap the written range is unchanged, also when it shares
    bytes with it *)
Lemma read_write_disjoint_lemma b r v r2 : bytes_ok b = true -> byte_hi r <= blen b -> byte_hi r2 <= blen b ->
  rng_disjoint r r2 = true -> lane_read (lane_write b r v) r2 = lane_read b r2.
Proof.
  intros Hok Hhi Hhi2 Hd. destruct (lane_write_value b r v Hok Hhi) as (H & L & HL & EB & EB' & Ok' & Len').
  rewrite !lane_read_is_bf_get by (try rewrite Len'; assumption).
  unfold bf_get. rewrite Len', EB, EB'.
  assert (He2 : r_end r2 <= 8 * blen b) by (unfold byte_hi in Hhi2; lia).
  assert (He : r_end r <= 8 * blen b) by (unfold byte_hi in Hhi; lia).
  assert (HF : bf_get b r < 2 ^ r_width r) by apply bf_get_lt.
  assert (HV : v mod 2 ^ r_width r < 2 ^ r_width r) by (apply N.mod_lt, pow2_nz).
  unfold rng_disjoint in Hd. apply Bool.orb_true_iff in Hd. destruct Hd as [Hd|Hd]; apply N.leb_le in Hd.
  - (* r2 lies after r: only the low part matters *)
    rewrite !field_low; try assumption; try reflexivity; unfold r_end, r_width, r_start in *; lia.
  - (* r2 lies before r: only the high part matters *)
    rewrite !field_high; try assumption; try reflexivity; unfold r_end, r_width, r_start in *; lia.
Qed.
