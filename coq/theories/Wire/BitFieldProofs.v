(** The lane read of core/read.rs is the mathematical bit field of the whole buffer. *)
From Coq Require Import Lia ZifyBool ZifyNat ZifyN.
From Sci Require Import Wire.BitField.
Local Open Scope N_scope.
Ltac Zify.zify_post_hook ::= Z.div_mod_to_equations.
Arguments N.add : simpl never. Arguments N.sub : simpl never. Arguments N.mul : simpl never.
Arguments N.div : simpl never. Arguments N.modulo : simpl never. Arguments N.pow : simpl never.

Lemma be_val_app_acc x : forall acc y, be_val acc (x ++ y) = be_val (be_val acc x) y.
Proof. induction x as [|a x IH]; intros acc y; cbn [be_val app]; [reflexivity|apply IH]. Qed.

Lemma be_val_acc l : forall acc, be_val acc l = acc * 256 ^ N.of_nat (length l) + be_val 0 l.
Proof.
  induction l as [|x l IH]; intros acc; cbn [be_val length].
  - rewrite N.pow_0_r. lia.
  - rewrite IH, (IH (0 * 256 + x)), Nat2N.inj_succ, N.pow_succ_r'. ring.
Qed.

Lemma be_val_app x y : be_val 0 (x ++ y) = be_val 0 x * 256 ^ N.of_nat (length y) + be_val 0 y.
Proof. rewrite be_val_app_acc. apply be_val_acc. Qed.

Lemma be_val_lt l : bytes_ok l = true -> be_val 0 l < 256 ^ N.of_nat (length l).
Proof.
  induction l as [|x l IH]; cbn [bytes_ok forallb be_val length]; intros H.
  - rewrite N.pow_0_r. lia.
  - apply Bool.andb_true_iff in H. destruct H as [Hx Hl]. unfold byte_ok in Hx. apply N.ltb_lt in Hx.
    specialize (IH Hl). rewrite be_val_acc, Nat2N.inj_succ, N.pow_succ_r'.
    set (P := 256 ^ N.of_nat (length l)) in *. nia.
Qed.

Lemma bytes_ok_app x y : bytes_ok (x ++ y) = bytes_ok x && bytes_ok y.
Proof. unfold bytes_ok. apply forallb_app. Qed.
Lemma bytes_ok_firstn n l : bytes_ok l = true -> bytes_ok (firstn n l) = true.
Proof.
  intros H. rewrite <- (firstn_skipn n l), bytes_ok_app in H. apply Bool.andb_true_iff in H. tauto.
Qed.
Lemma bytes_ok_skipn n l : bytes_ok l = true -> bytes_ok (skipn n l) = true.
Proof.
  intros H. rewrite <- (firstn_skipn n l), bytes_ok_app in H. apply Bool.andb_true_iff in H. tauto.
Qed.

Lemma skipn_skipn' {A} (x y : nat) (l : list A) : skipn x (skipn y l) = skipn (y + x) l.
Proof.
  revert l; induction y as [|y IH]; intros l; cbn [skipn Nat.add]; [reflexivity|].
  destruct l; [destruct x; reflexivity|apply IH].
Qed.

Lemma split3 (b : bytes) lo hi : lo <= hi -> hi <= blen b ->
  b = firstn (N.to_nat lo) b ++ sub b lo hi ++ skipn (N.to_nat hi) b.
Proof.
  intros H1 H2. unfold sub.
  rewrite <- (firstn_skipn (N.to_nat lo) b) at 1. f_equal.
  rewrite <- (firstn_skipn (N.to_nat (hi - lo)) (skipn (N.to_nat lo) b)) at 1. f_equal.
  rewrite skipn_skipn'. f_equal. lia.
Qed.

(** value of a byte slice = digits of the whole value *)
Lemma be_val_sub b lo hi : bytes_ok b = true -> lo <= hi -> hi <= blen b ->
  be_val 0 (sub b lo hi) = (be_val 0 b / 256 ^ (blen b - hi)) mod 256 ^ (hi - lo).
Proof.
  intros Hok H1 H2.
  pose proof (split3 b lo hi H1 H2) as S.
  set (p := firstn (N.to_nat lo) b) in *. set (m := sub b lo hi) in *. set (s := skipn (N.to_nat hi) b) in *.
  assert (Ls : N.of_nat (length s) = blen b - hi) by (unfold s, blen in *; rewrite skipn_length; lia).
  assert (Lm : N.of_nat (length m) = hi - lo) by (unfold m, sub, blen in *; rewrite firstn_length, skipn_length; lia).
  assert (Hm : be_val 0 m < 256 ^ (hi - lo)).
  { rewrite <- Lm. apply be_val_lt. unfold m, sub. apply bytes_ok_firstn, bytes_ok_skipn, Hok. }
  assert (Hs : be_val 0 s < 256 ^ (blen b - hi)).
  { rewrite <- Ls. apply be_val_lt. unfold s. apply bytes_ok_skipn, Hok. }
  replace (be_val 0 b) with (be_val 0 (p ++ m ++ s)) by (rewrite <- S; reflexivity).
  rewrite !be_val_app, app_length, Nat2N.inj_add, Ls, Lm, N.pow_add_r.
  set (T := 256 ^ (blen b - hi)) in *. set (A := 256 ^ (hi - lo)) in *.
  assert (T <> 0) by (apply N.pow_nonzero; discriminate).
  assert (A <> 0) by (apply N.pow_nonzero; discriminate).
  replace ((be_val 0 p * (A * T) + (be_val 0 m * T + be_val 0 s)) / T) with (be_val 0 p * A + be_val 0 m).
  - apply N.mod_unique with (q := be_val 0 p); [exact Hm|]. ring.
  - apply N.div_unique with (r := be_val 0 s); [exact Hs|]. ring.
Qed.

Lemma pow256 n : 256 ^ n = 2 ^ (8 * n).
Proof. change 256 with (2 ^ 8). rewrite <- N.pow_mul_r. reflexivity. Qed.

(** arithmetic core: dropping high digits does not change a low bit field *)
Lemma field_of_mod (Y a c w : N) : c + w <= a -> ((Y mod 2 ^ a) / 2 ^ c) mod 2 ^ w = (Y / 2 ^ c) mod 2 ^ w.
Proof.
  intros H.
  assert (E2a : 2 ^ a = 2 ^ (a - c - w) * 2 ^ w * 2 ^ c).
  { rewrite <- !N.pow_add_r. f_equal. lia. }
  assert (N0 : forall k, 2 ^ k <> 0) by (intros; apply N.pow_nonzero; discriminate).
  rewrite (N.div_mod Y (2 ^ a) (N0 a)) at 2.
  set (q := Y / 2 ^ a). set (r := Y mod 2 ^ a).
  rewrite E2a.
  replace (2 ^ (a - c - w) * 2 ^ w * 2 ^ c * q + r) with ((2 ^ (a - c - w) * q * 2 ^ w) * 2 ^ c + r) by ring.
  rewrite N.div_add_l by apply N0.
  rewrite N.add_comm, N.mod_add by apply N0. reflexivity.
Qed.

(** read.rs computes the mathematical bit field *)
Lemma lane_read_is_bf_get b r :
  bytes_ok b = true -> byte_hi r <= blen b -> lane_read b r = bf_get b r.
Proof.
  intros Hok Hhi. unfold lane_read, bf_get.
  assert (Hlo : byte_lo r <= byte_hi r) by (unfold byte_lo, byte_hi, r_end, r_start; lia).
  rewrite be_val_sub by assumption.
  rewrite N.land_ones, N.shiftr_div_pow2, !pow256.
  set (Bv := be_val 0 b). set (sh := byte_hi r * 8 - r_end r).
  assert (He : r_end r <= byte_hi r * 8) by (unfold byte_hi; lia).
  assert (Hs : byte_lo r * 8 <= r_start r) by (unfold byte_lo; lia).
  rewrite field_of_mod by (unfold sh, r_end, r_width, r_start in *; lia).
  rewrite N.div_div by (apply N.pow_nonzero; discriminate).
  rewrite <- N.pow_add_r. f_equal. f_equal. f_equal. unfold sh. lia.
Qed.

(** ... so it is independent of where the containing byte range starts, below the value bound *)
Lemma bf_get_lt b r : bf_get b r < 2 ^ r_width r.
Proof. unfold bf_get. apply N.mod_lt. apply N.pow_nonzero. discriminate. Qed.

Lemma lane_read_local_eq b b' r :
  sub b (byte_lo r) (byte_hi r) = sub b' (byte_lo r) (byte_hi r) -> lane_read b r = lane_read b' r.
Proof. unfold lane_read. intros ->. reflexivity. Qed.

(** * a lane write replaces exactly the bytes of its containing byte range *)
Lemma be_bytes_len n v : length (be_bytes n v) = n.
Proof. revert v; induction n; intros v; cbn [be_bytes]; [reflexivity|]. rewrite app_length, IHn. cbn. lia. Qed.

Lemma lane_write_shape b r v : byte_hi r <= blen b ->
  exists x, length x = N.to_nat (byte_hi r - byte_lo r) /\
            lane_write b r v = firstn (N.to_nat (byte_lo r)) b ++ x ++ skipn (N.to_nat (byte_hi r)) b.
Proof. intros H. unfold lane_write. eexists. split; [|reflexivity]. apply be_bytes_len. Qed.

Lemma sub_below (p x s : bytes) lo2 hi2 : hi2 <= blen p -> sub (p ++ x ++ s) lo2 hi2 = sub p lo2 hi2.
Proof.
  intros H. unfold sub, blen in *.
  destruct (N.le_gt_cases lo2 hi2) as [L|L].
  - rewrite skipn_app, firstn_app, skipn_length.
    replace (N.to_nat (hi2 - lo2) - (length p - N.to_nat lo2))%nat with 0%nat by lia.
    cbn [firstn]. apply app_nil_r.
  - replace (N.to_nat (hi2 - lo2)) with 0%nat by lia. reflexivity.
Qed.

Lemma sub_above (p x s : bytes) lo2 hi2 : blen p + blen x <= lo2 ->
  sub (p ++ x ++ s) lo2 hi2 = sub s (lo2 - blen p - blen x) (hi2 - blen p - blen x).
Proof.
  intros H. unfold sub, blen in *.
  rewrite app_assoc, skipn_app, app_length.
  rewrite (skipn_all2 (p ++ x)) by (rewrite app_length; lia). cbn [app].
  f_equal; [lia|]. f_equal. lia.
Qed.

(** reading a range whose bytes do not overlap the written byte range sees the old value *)
Lemma read_after_write_other_bytes b r v r2 :
  byte_hi r <= blen b ->
  byte_hi r2 <= byte_lo r \/ byte_hi r <= byte_lo r2 ->
  lane_read (lane_write b r v) r2 = lane_read b r2.
Proof.
  intros Hb Hd. apply lane_read_local_eq.
  destruct (lane_write_shape b r v Hb) as (x & Lx & ->).
  assert (Hlo : byte_lo r <= byte_hi r) by (unfold byte_lo, byte_hi, r_end, r_start; lia).
  set (p := firstn (N.to_nat (byte_lo r)) b). set (s := skipn (N.to_nat (byte_hi r)) b).
  assert (Lp : blen p = byte_lo r) by (unfold p, blen in *; rewrite firstn_length; lia).
  assert (Lxx : blen x = byte_hi r - byte_lo r) by (unfold blen; lia).
  destruct Hd as [Hd|Hd].
  - rewrite sub_below by lia. unfold p, sub.
    rewrite skipn_firstn_comm, firstn_firstn. f_equal.
    assert (byte_lo r2 <= byte_hi r2) by (unfold byte_lo, byte_hi, r_end, r_start; lia). lia.
  - rewrite sub_above by lia. unfold s, sub. rewrite skipn_skipn'. f_equal; [lia|]. f_equal. lia.
Qed.
