(** Witnesses for the C03 defects of the unrepaired tree (all repaired in /repo, see
    known_findings/C03.json "fixed"): on the model of the UNREPAIRED gate the three probe
    inputs were accepted; with the repaired gate they are rejected. *)
From Sci Require Import Wire.Codec Wire.Spec_C03.
Local Open Scope N_scope.

Definition v4 (a : N) : host_addr := HA_V4 [10; 0; 0; a].
Definition hdr0 (dst : host_addr) (path : dp_path) : pkt_hdr := mkH 0 0 17 1 2 dst (v4 2) path.

(** (a) UDP payload of 65528 bytes: 8 + 65528 = 65536 does not fit PayloadLen / UDP Length *)
Definition big_udp : packet := mkP (hdr0 (v4 1) DP_Empty) (PL_Udp 1 2 (repeat 7 (N.to_nat 65528))).
Lemma big_udp_rejected : packet_wire_valid big_udp = false.
Proof. vm_compute. reflexivity. Qed.
Lemma big_udp_length_would_wrap : trunc 16 (payload_size (p_pl big_udp) (header_size (p_hdr big_udp))) = 0.
Proof. vm_compute. reflexivity. Qed.

(** (b) WireHostAddr::Unknown { id: 0, 4 bytes } has the nibble of IPv4 *)
Definition alias_v4 : packet := mkP (hdr0 (HA_Unknown 0 [9; 9; 9; 9]) DP_Empty) (PL_Raw []).
Lemma alias_v4_rejected : packet_wire_valid alias_v4 = false.
Proof. vm_compute. reflexivity. Qed.
Lemma alias_v4_nibble_is_ipv4 : host_nibble (HA_Unknown 0 [9; 9; 9; 9]) = HAT_IPV4.
Proof. vm_compute. reflexivity. Qed.
(* an id that does not fit the 2-bit type field aliases as well *)
Lemma id4_nibble_is_ipv4 : trunc 4 (host_nibble (HA_Unknown 4 [9; 9; 9; 9])) = HAT_IPV4.
Proof. vm_compute. reflexivity. Qed.

(** (c) current_hop_field = 70 over 75 hops: CurrHF has 6 bits *)
Definition hop0 : hop_f := mkHF 0 0 0 0 [0; 0; 0; 0; 0; 0].
Definition seg (n : nat) : segment := mkSeg (mkIF 0 0 0) (repeat hop0 n).
Definition long_path : packet := mkP (hdr0 (v4 1) (DP_Std 0 70 [seg 63; seg 12])) (PL_Raw []).
Lemma long_path_rejected : packet_wire_valid long_path = false.
Proof. vm_compute. reflexivity. Qed.
Lemma curr_hf_70_would_read_6 : trunc 6 70 = 6.
Proof. vm_compute. reflexivity. Qed.
(* hop counts above 63 with a representable current hop stay accepted and round-trip *)
Lemma long_path_ch63_accepted : packet_wire_valid (mkP (hdr0 (v4 1) (DP_Std 0 63 [seg 63; seg 12])) (PL_Raw [])) = true.
Proof. vm_compute. reflexivity. Qed.
Lemma seg_len_64_rejected : packet_wire_valid (mkP (hdr0 (v4 1) (DP_Std 0 0 [seg 64])) (PL_Raw [])) = false.
Proof. vm_compute. reflexivity. Qed.

(** open finding C03-decoder-accepts-unencodable-path-index: 89 canonical bytes (consistent
    lengths, reserved bits zero, verifying checksum) with ONE hop field and CurrHF = 2: the
    decoder accepts them, the encoder's gate rejects the decoded model *)
Definition idx_bytes : bytes :=
  rle_expand [(1,11); (1,128); (1,0); (1,1); (1,17); (1,20); (1,0); (1,9); (1,1); (1,227); (10,0); (8,255); (1,160); (1,161); (1,162);
    (1,163); (1,164); (1,165); (1,166); (1,167); (1,168); (1,169); (1,170); (1,171); (1,32); (1,1); (1,13); (1,184); (4,0); (2,255);
    (2,0); (1,60); (1,78); (1,0); (1,1); (1,2); (1,0); (1,16); (3,0); (1,209); (1,140); (3,0); (1,1); (4,0); (2,255); (1,1); (1,2);
    (1,3); (1,4); (1,5); (6,0); (1,9); (1,112); (1,236); (1,67)].
Lemma idx_bytes_accepted_but_unencodable :
  match decode_packet 1 idx_bytes with
  | Ok (m, []) => packet_wire_valid m = false /\ path_index_out_of_range m = true
  | _ => False
  end
  /\ (match spec_decode 1 idx_bytes with Some _ => true | None => false end) = true
  /\ spec_checksum_ok 1 idx_bytes = true.
Proof. vm_compute. repeat split; reflexivity. Qed.
