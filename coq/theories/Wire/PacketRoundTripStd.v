(** decode_packet (encode_packet p) = Ok (p, []) for raw and UDP packets over a STANDARD path. *)
From Coq Require Import Lia ZifyBool ZifyNat ZifyN.
From Sci Require Import Wire.Codec Wire.Spec_C03 Wire.BitFieldProofs Wire.Proofs_C03 Wire.RoundTripProofs Wire.ChecksumProofs
  Wire.ChecksumVerify Wire.LengthProofs Wire.EncodeLengthProofs Wire.AddrRoundTrip Wire.HeaderRoundTrip Wire.PacketRoundTrip
  Wire.StdPathRoundTrip.
From Sci Require Import Wire.Proofs_C02 Wire.Proofs_C02b.
Local Open Scope N_scope.
Ltac Zify.zify_post_hook ::= Z.div_mod_to_equations.
Arguments N.add : simpl never. Arguments N.sub : simpl never. Arguments N.mul : simpl never.
Arguments N.div : simpl never. Arguments N.modulo : simpl never. Arguments N.pow : simpl never.
Arguments N.ltb : simpl never. Arguments N.leb : simpl never. Arguments N.eqb : simpl never. Arguments N.min : simpl never.
Ltac closed_le := apply N.leb_le; vm_compute; reflexivity.

Lemma encoded_layout_std p alh al ci ch segs :
  model_wf p = true -> packet_wire_valid p = true -> h_path (p_hdr p) = DP_Std ci ch segs ->
  let h := p_hdr p in let hs := header_size h in let ps := payload_size (p_pl p) hs in
  exists l, header_layout (encode_packet_al p alh al) = Ok l /\ hl_header_len l = hs /\ hl_payload_len l = ps.
Proof.
  intros W V Hpath h hs ps. change (h_path (p_hdr p)) with (h_path h) in Hpath.
  pose proof W as W'. unfold model_wf in W'. apply Bool.andb_true_iff in W'. destruct W' as [Wh Wp].
  pose proof V as V'. unfold packet_wire_valid in V'. apply Bool.andb_true_iff in V'. destruct V' as [V' Vsz].
  apply Bool.andb_true_iff in V'. destruct V' as [Vh Vp].
  apply Bool.negb_true_iff in Vsz. apply N.ltb_ge in Vsz. unfold U16_MAX in Vsz. try (fold h hs ps in Vsz).
  assert (Hps : trunc 16 ps < 65536) by (unfold trunc; change (2 ^ 16) with 65536; lia).
  assert (Tps : trunc 16 ps = ps) by (apply trunc_id; change (2 ^ 16) with 65536; lia).
  destruct (header_prefix_facts h (trunc 16 ps) Wh Vh Hps) as (L2 & Ok2 & Hhs & Hu & F).
  specialize (F (encode_path (h_path h))). cbv zeta in F.
  destruct F as (_ & _ & _ & _ & _ & _ & _ & Rdn & Rsn & Rhl & Rpt & Rpl & Rv).
  destruct (header_roundtrip_std h (trunc 16 ps) ci ch segs Wh Vh Hps Hpath) as (_ & Sg). cbv zeta in Sg.
  destruct Sg as (Sg0 & Sg1 & Sg2).
  pose proof (encode_header_blen h (trunc 16 ps) (zeros hs) Wh Vh (proj2 (zeros_ok hs))) as Lhb. try (fold hs in Lhb).
  unfold encode_packet_al. try fold h. try fold hs. try fold ps.
  rewrite <- encode_header_shape in Rdn, Rsn, Rhl, Rpt, Rpl, Rv. try (fold hs in Rdn, Rsn, Rhl, Rpt, Rpl, Rv, Sg0, Sg1, Sg2).
  set (hb := encode_header h (trunc 16 ps) (zeros hs)) in *.
  set (pb := encode_payload h (p_pl p) hs alh al (zeros ps)).
  assert (Lpb : blen pb = ps).
  { pose proof (encode_packet_blen_all p alh al W V) as Lall. unfold encode_packet_al, packet_size in Lall. try (fold h hs ps hb pb in Lall).
    rewrite blen_app, Lhb in Lall. lia. }
  pose proof Wh as W2. unfold header_wf in W2. repeat (apply Bool.andb_true_iff in W2; let X := fresh "W" in destruct W2 as [W2 X]).
  pose proof Vh as V2. unfold header_wire_valid in V2. repeat (apply Bool.andb_true_iff in V2; let X := fresh "V" in destruct V2 as [V2 X]).
  assert (A : addr_size h = 16 + host_size (h_dst_host h) + host_size (h_src_host h)) by (apply addr_size_eq; assumption).
  assert (Hhs' : hs = CommonHeader_SIZE_BYTES + (16 + host_size (h_dst_host h) + host_size (h_src_host h)) + path_size (h_path h)) by exact Hhs.
  assert (H28 : 28 <= hs) by (rewrite Hhs'; unfold CommonHeader_SIZE_BYTES; lia).
  rewrite header_layout_HL. unfold HL. rewrite blen_app, Lhb, Lpb.
  destruct (hs + ps <? CommonHeader_SIZE_BYTES) eqn:C0; [apply N.ltb_lt in C0; unfold CommonHeader_SIZE_BYTES in C0; lia|].
  unfold hv_version, hv_path_type, hv_src_addr_type, hv_dst_addr_type, hv_header_len, hv_payload_len in *.
  rewrite (rd_app_l hb pb CommonHeader_VERSION_RNG), (rd_app_l hb pb CommonHeader_PATH_TYPE_RNG), (rd_app_l hb pb CommonHeader_SRC_ADDR_INFO_RNG),
    (rd_app_l hb pb CommonHeader_DST_ADDR_INFO_RNG), (rd_app_l hb pb CommonHeader_HEADER_LEN_RNG), (rd_app_l hb pb CommonHeader_PAYLOAD_LEN_RNG)
    by (rewrite Lhb; first [(change (byte_hi CommonHeader_VERSION_RNG) with 1; lia)|(change (byte_hi CommonHeader_PATH_TYPE_RNG) with 9; lia)
    |(change (byte_hi CommonHeader_SRC_ADDR_INFO_RNG) with 10; lia)|(change (byte_hi CommonHeader_DST_ADDR_INFO_RNG) with 10; lia)
    |(change (byte_hi CommonHeader_HEADER_LEN_RNG) with 6; lia)|(change (byte_hi CommonHeader_PAYLOAD_LEN_RNG) with 8; lia)]).
  rewrite Rv. cbn [obind]. change (negb (0 =? 0)) with false. cbn iota.
  rewrite Rpt, Rsn, Rdn. cbn [obind].
  destruct (rd hb CommonHeader_HEADER_LEN_RNG 8) as [u| |] eqn:Eu; cbn [obind] in Rhl; try discriminate.
  assert (Eu4 : u * 4 = hs) by (inversion Rhl; reflexivity). cbn [obind]. rewrite Rpl. cbn [obind]. rewrite Tps.
  rewrite !hat_size_nibble by assumption.
  assert (Eae : CommonHeader_SIZE_BYTES + addr_hdr_size (host_size (h_src_host h)) (host_size (h_dst_host h)) = CommonHeader_SIZE_BYTES + addr_size h)
    by (rewrite A; unfold addr_hdr_size, AddressHeader_FIXED_SIZE_BITS; lia).
  rewrite Eae. set (off := CommonHeader_SIZE_BYTES + addr_size h) in *.
  rewrite Hpath in *. cbn [path_type_num path_size] in *.
  assert (Hoff : off + StdPathMeta_SIZE_BYTES <= hs) by (rewrite Hhs'; unfold off; rewrite A; lia).
  destruct (hs + ps <? off) eqn:C1; [apply N.ltb_lt in C1; lia|].
  change (PT_SCION =? PT_SCION) with true. cbn iota.
  destruct (hs + ps - off <? StdPathMeta_SIZE_BYTES) eqn:C2; [apply N.ltb_lt in C2; lia|].
  rewrite (rd_app_l hb pb (rshift StdPathMeta_SEG0_LEN_RNG off)), (rd_app_l hb pb (rshift StdPathMeta_SEG1_LEN_RNG off)),
    (rd_app_l hb pb (rshift StdPathMeta_SEG2_LEN_RNG off))
    by (rewrite Lhb, rshift_hi; unfold StdPathMeta_SIZE_BYTES in Hoff;
        first [(change (byte_hi StdPathMeta_SEG0_LEN_RNG) with 3; lia)|(change (byte_hi StdPathMeta_SEG1_LEN_RNG) with 4; lia)|(change (byte_hi StdPathMeta_SEG2_LEN_RNG) with 4; lia)]).
  rewrite Sg0, Sg1, Sg2. cbn [obind path_layout_size].
  assert (Ecalc : off + (StdPathMeta_SIZE_BYTES + std_data_size (seg_len8 segs 0) (seg_len8 segs 1) (seg_len8 segs 2)) = hs).
  { rewrite Hhs'. unfold off. rewrite A. reflexivity. }
  rewrite Ecalc.
  destruct (hs + ps <? hs) eqn:C3; [apply N.ltb_lt in C3; lia|].
  rewrite Eu4. rewrite N.eqb_refl. cbn [negb].
  eexists. split; [reflexivity|]. cbn [hl_header_len hl_payload_len]. split; reflexivity.
Qed.

Lemma packet_roundtrip_std p alh al ci ch segs :
  model_wf p = true -> packet_wire_valid p = true -> h_path (p_hdr p) = DP_Std ci ch segs ->
  match p_pl p with
  | PL_Raw _ => decode_packet 0 (encode_packet_al p alh al) = Ok (p, [])
  | PL_Udp _ _ _ => decode_packet 1 (encode_packet_al p alh al) = Ok (p, [])
  | PL_Scmp _ => True
  end.
Proof.
  intros W V Hp. apply packet_roundtrip_core; try assumption.
  - exact (encoded_layout_std p alh al ci ch segs W V Hp).
  - pose proof W as W'. unfold model_wf in W'. apply Bool.andb_true_iff in W'. destruct W' as [Wh _].
    pose proof V as V'. unfold packet_wire_valid in V'. apply Bool.andb_true_iff in V'. destruct V' as [V' Vsz].
    apply Bool.andb_true_iff in V'. destruct V' as [Vh _].
    eapply (proj1 (header_roundtrip_std (p_hdr p) _ ci ch segs Wh Vh _ Hp)).
    Unshelve. unfold trunc. change (2 ^ 16) with 65536. lia.
Qed.

Lemma packet_roundtrip_onehop p alh al i h1 h2 :
  model_wf p = true -> packet_wire_valid p = true -> h_path (p_hdr p) = DP_OneHop i h1 h2 ->
  match p_pl p with
  | PL_Raw _ => decode_packet 0 (encode_packet_al p alh al) = Ok (p, [])
  | PL_Udp _ _ _ => decode_packet 1 (encode_packet_al p alh al) = Ok (p, [])
  | PL_Scmp _ => True
  end.
Proof.
  intros W V Hp. apply packet_roundtrip_core; try assumption.
  - apply (encoded_layout p alh al W V). rewrite Hp. exact I.
  - pose proof W as W'. unfold model_wf in W'. apply Bool.andb_true_iff in W'. destruct W' as [Wh _].
    pose proof V as V'. unfold packet_wire_valid in V'. apply Bool.andb_true_iff in V'. destruct V' as [V' Vsz].
    apply Bool.andb_true_iff in V'. destruct V' as [Vh _].
    eapply (header_roundtrip_onehop (p_hdr p) _ i h1 h2 Wh Vh _ Hp).
    Unshelve. unfold trunc. change (2 ^ 16) with 65536. lia.
Qed.

(** all path kinds *)
Lemma packet_roundtrip_all p alh al :
  model_wf p = true -> packet_wire_valid p = true ->
  match p_pl p with
  | PL_Raw _ => decode_packet 0 (encode_packet_al p alh al) = Ok (p, [])
  | PL_Udp _ _ _ => decode_packet 1 (encode_packet_al p alh al) = Ok (p, [])
  | PL_Scmp _ => True
  end.
Proof.
  intros W V. destruct (h_path (p_hdr p)) as [ci ch segs|i a b| |pt d] eqn:E.
  - exact (packet_roundtrip_std p alh al ci ch segs W V E).
  - exact (packet_roundtrip_onehop p alh al i a b W V E).
  - apply packet_roundtrip_simple; try assumption. rewrite E. exact I.
  - apply packet_roundtrip_simple; try assumption. rewrite E. exact I.
Qed.

Lemma header_roundtrip_all h psize :
  header_wf h = true -> header_wire_valid h = true -> psize < 65536 ->
  decode_header (encode_header h psize (zeros (header_size h))) = Ok h.
Proof.
  intros W V Hp. destruct (h_path h) as [ci ch segs|i a b| |pt d] eqn:E.
  - exact (proj1 (header_roundtrip_std h psize ci ch segs W V Hp E)).
  - exact (header_roundtrip_onehop h psize i a b W V Hp E).
  - apply header_roundtrip_simple_paths; try assumption. rewrite E. exact I.
  - apply header_roundtrip_simple_paths; try assumption. rewrite E. exact I.
Qed.
