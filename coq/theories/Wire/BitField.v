(** Bit fields over byte buffers.

    [lane_read] / [lane_write] follow crates/libs/sciparse/src/core/read.rs and write.rs
    ([unchecked_bit_range_be_read] / [unchecked_bit_range_be_write]) statement by statement:
    copy the bytes of [containing_byte_range] right-aligned into a 128-bit lane, shift by
    [ceil8(end) - end], mask.  [bf_get] / [bf_set] are the mathematical bit field of the
    big-endian value of the WHOLE buffer, written with div/mod only; the lemmas tying the two
    are in [Wire.BitFieldProofs].  Definitions only in this file. *)
From Sci Require Export Common.Outcome.
Local Open Scope N_scope.

Definition bytes := list N.
Definition blen (b : bytes) : N := N.of_nat (length b).

(** core/layout.rs [BitRange], as (start bit, width in bits) -- the argument order of
    [gen_bitrange_const!] and of the generated tables in [Gen.Layout] *)
Definition rng := (N * N)%type.
Definition r_start (r : rng) : N := fst r.
Definition r_width (r : rng) : N := snd r.
Definition r_end (r : rng) : N := fst r + snd r.
(* BitRange::from_range(a..b) *)
Definition rng_of_range (a b : N) : rng := (a, b - a).
(* containing_byte_range: start / 8 .. end.div_ceil(8) *)
Definition byte_lo (r : rng) : N := r_start r / 8.
Definition byte_hi (r : rng) : N := (r_end r + 7) / 8.
Definition size_bytes (r : rng) : N := byte_hi r - byte_lo r.
(* BitRange::shift(bytes) *)
Definition rshift (r : rng) (nbytes : N) : rng := (fst r + nbytes * 8, snd r).
(* aligned_byte_range: same bytes; the debug assertions require byte alignment *)
Definition aligned (r : rng) : bool := (r_start r mod 8 =? 0) && (r_end r mod 8 =? 0).

(** &b[lo..hi] (total: clipped like firstn/skipn; the callers check bounds explicitly) *)
Definition sub (b : bytes) (lo hi : N) : bytes :=
  firstn (N.to_nat (hi - lo)) (skipn (N.to_nat lo) b).

Definition LANE_BYTES : N := 16.

(** the two debug assertions of read.rs / write.rs; in a release build a violation is an
    out-of-bounds access (undefined behaviour) instead of a panic *)
Definition lane_ok (len : N) (r : rng) : bool :=
  (size_bytes r <=? LANE_BYTES) && (byte_hi r <=? len).

Definition lane_read (b : bytes) (r : rng) : N :=
  let lane_val := be_val 0 (sub b (byte_lo r) (byte_hi r)) in
  let right_shift := byte_hi r * 8 - r_end r in
  N.land (N.shiftr lane_val right_shift) (N.ones (r_width r)).

Definition lane_write (b : bytes) (r : rng) (v : N) : bytes :=
  let lo := byte_lo r in
  let hi := byte_hi r in
  let lane_val := be_val 0 (sub b lo hi) in
  let value_mask := N.ones (r_width r) in
  let truncated := N.land v value_mask in
  let left_shift := hi * 8 - r_end r in
  let aligned_val := N.shiftl truncated left_shift in
  let aligned_mask := N.shiftl value_mask left_shift in
  let new_val := N.lor (N.ldiff lane_val aligned_mask) aligned_val in
  firstn (N.to_nat lo) b ++ be_bytes (N.to_nat (hi - lo)) new_val ++ skipn (N.to_nat hi) b.

(** [as uN] *)
Definition trunc (bits v : N) : N := v mod 2 ^ bits.

(** mathematical bit field: bits [start, start+width) of the buffer read as one big-endian
    number, bit 0 = most significant bit of byte 0 *)
Definition bf_get (b : bytes) (r : rng) : N :=
  (be_val 0 b / 2 ^ (8 * blen b - r_end r)) mod 2 ^ r_width r.

Definition bf_set (b : bytes) (r : rng) (v : N) : bytes :=
  let sh := 8 * blen b - r_end r in
  let old := be_val 0 b in
  let cleared := old - (bf_get b r) * 2 ^ sh in
  be_bytes (length b) (cleared + (v mod 2 ^ r_width r) * 2 ^ sh).

(** ranges are disjoint as bit sets *)
Definition rng_disjoint (r1 r2 : rng) : bool := (r_end r1 <=? r_start r2) || (r_end r2 <=? r_start r1).
