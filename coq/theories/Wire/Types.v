(** Packet model types shared by the model of the codec ([Wire.Codec]) and the independent
    reader ([Wire.Spec_C03]).  No generated constants here.  Every numeric field carries the
    Rust type's width in [model_wf]. *)
From Sci Require Export Common.Outcome.
Local Open Scope N_scope.

(** WireHostAddr *)
Inductive host_addr :=
| HA_V4 (b : list N) | HA_V6 (b : list N) | HA_Svc (svc : N) | HA_Unknown (id : N) (b : list N).

Record info_f := mkIF { i_flags : N; i_segid : N; i_ts : N }.
Record hop_f := mkHF { h_flags : N; h_exp : N; h_in : N; h_eg : N; h_mac : list N }.
Record segment := mkSeg { s_info : info_f; s_hops : list hop_f }.

(** DpPath; path types are numbers (PathType as u8) *)
Inductive dp_path :=
| DP_Std (ci ch : N) (segs : list segment)
| DP_OneHop (i : info_f) (h1 h2 : hop_f)
| DP_Empty
| DP_Unsupported (pt : N) (data : list N).

Record pkt_hdr := mkH {
  h_tc : N; h_flow : N; h_nh : N; h_dst_ia : N; h_src_ia : N;
  h_dst_host : host_addr; h_src_host : host_addr; h_path : dp_path }.

Inductive scmp_msg :=
| SM_DestUnreach (code : N) (q : list N)
| SM_PktTooBig (mtu : N) (q : list N)
| SM_ParamProblem (code ptr : N) (q : list N)
| SM_ExtIfDown (ia ifid : N) (q : list N)
| SM_IntConnDown (ia ing eg : N) (q : list N)
| SM_EchoReq (id seq : N) (data : list N)
| SM_EchoRep (id seq : N) (data : list N)
| SM_TrReq (id seq : N)
| SM_TrRep (id seq ia ifid : N)
| SM_Unknown (ty code : N) (data : list N).

Inductive payload := PL_Raw (b : list N) | PL_Udp (sp dp : N) (data : list N) | PL_Scmp (m : scmp_msg).
Record packet := mkP { p_hdr : pkt_hdr; p_pl : payload }.

(** decidable equality *)
Definition bytes_eqb := list_eqb N.eqb.
Definition host_eqb (a b : host_addr) : bool :=
  match a, b with
  | HA_V4 x, HA_V4 y | HA_V6 x, HA_V6 y => bytes_eqb x y
  | HA_Svc x, HA_Svc y => x =? y
  | HA_Unknown i x, HA_Unknown j y => (i =? j) && bytes_eqb x y
  | _, _ => false
  end.
Definition info_eqb (a b : info_f) := (i_flags a =? i_flags b) && (i_segid a =? i_segid b) && (i_ts a =? i_ts b).
Definition hop_eqb (a b : hop_f) :=
  (h_flags a =? h_flags b) && (h_exp a =? h_exp b) && (h_in a =? h_in b) && (h_eg a =? h_eg b) && bytes_eqb (h_mac a) (h_mac b).
Definition seg_eqb (a b : segment) := info_eqb (s_info a) (s_info b) && list_eqb hop_eqb (s_hops a) (s_hops b).
Definition path_eqb (a b : dp_path) : bool :=
  match a, b with
  | DP_Std ci ch s, DP_Std ci' ch' s' => (ci =? ci') && (ch =? ch') && list_eqb seg_eqb s s'
  | DP_OneHop i h1 h2, DP_OneHop i' h1' h2' => info_eqb i i' && hop_eqb h1 h1' && hop_eqb h2 h2'
  | DP_Empty, DP_Empty => true
  | DP_Unsupported t d, DP_Unsupported t' d' => (t =? t') && bytes_eqb d d'
  | _, _ => false
  end.
Definition hdr_eqb (a b : pkt_hdr) : bool :=
  (h_tc a =? h_tc b) && (h_flow a =? h_flow b) && (h_nh a =? h_nh b) && (h_dst_ia a =? h_dst_ia b)
  && (h_src_ia a =? h_src_ia b) && host_eqb (h_dst_host a) (h_dst_host b)
  && host_eqb (h_src_host a) (h_src_host b) && path_eqb (h_path a) (h_path b).
Definition scmp_eqb (a b : scmp_msg) : bool :=
  match a, b with
  | SM_DestUnreach c q, SM_DestUnreach c' q' => (c =? c') && bytes_eqb q q'
  | SM_PktTooBig m q, SM_PktTooBig m' q' => (m =? m') && bytes_eqb q q'
  | SM_ParamProblem c p q, SM_ParamProblem c' p' q' => (c =? c') && (p =? p') && bytes_eqb q q'
  | SM_ExtIfDown i f q, SM_ExtIfDown i' f' q' => (i =? i') && (f =? f') && bytes_eqb q q'
  | SM_IntConnDown i x y q, SM_IntConnDown i' x' y' q' => (i =? i') && (x =? x') && (y =? y') && bytes_eqb q q'
  | SM_EchoReq i s d, SM_EchoReq i' s' d' | SM_EchoRep i s d, SM_EchoRep i' s' d' => (i =? i') && (s =? s') && bytes_eqb d d'
  | SM_TrReq i s, SM_TrReq i' s' => (i =? i') && (s =? s')
  | SM_TrRep i s a f, SM_TrRep i' s' a' f' => (i =? i') && (s =? s') && (a =? a') && (f =? f')
  | SM_Unknown t c d, SM_Unknown t' c' d' => (t =? t') && (c =? c') && bytes_eqb d d'
  | _, _ => false
  end.
Definition payload_eqb (a b : payload) : bool :=
  match a, b with
  | PL_Raw x, PL_Raw y => bytes_eqb x y
  | PL_Udp s d x, PL_Udp s' d' y => (s =? s') && (d =? d') && bytes_eqb x y
  | PL_Scmp m, PL_Scmp m' => scmp_eqb m m'
  | _, _ => false
  end.
Definition packet_eqb (a b : packet) : bool := hdr_eqb (p_hdr a) (p_hdr b) && payload_eqb (p_pl a) (p_pl b).
