(** C02, sixth part: the setters reached through [ScionHeaderView::path_mut()] -- every safe
    mutator of the standard path view (set_curr_info_field, set_curr_hop_field, the setters of
    info_field_mut(i) / hop_field_mut(i)) and of the one-hop path view, applied to the path
    sub-view of a header view and spliced back -- leave the header layout the constructor
    computes unchanged: they write no bit of the common header, and inside the path only bits
    that the layout does not read (the three segment lengths are never written). *)
From Coq Require Import Lia ZifyBool ZifyNat ZifyN.
From Sci Require Import Wire.Views Wire.Spec_C02 Wire.Proofs_C02 Wire.BitFieldProofs Wire.Proofs_C02b Wire.Proofs_C02c Wire.Proofs_C02d.
Local Open Scope N_scope.
Ltac closed_le := apply N.leb_le; vm_compute; reflexivity.
Ltac Zify.zify_post_hook ::= Z.div_mod_to_equations.
Arguments N.add : simpl never. Arguments N.sub : simpl never. Arguments N.mul : simpl never.
Arguments N.div : simpl never. Arguments N.modulo : simpl never. Arguments N.eqb : simpl never.
Arguments N.ltb : simpl never. Arguments N.leb : simpl never. Arguments N.min : simpl never.
Arguments N.pow : simpl never.

(** * reads at a shifted range: inside a sub-slice, inside a spliced-in replacement *)
Lemma rd_same_len_oob (v v' : bytes) r bits : blen v' = blen v -> blen v < byte_hi r -> rd v' r bits = rd v r bits.
Proof.
  intros L H. unfold rd. rewrite L. destruct (negb (size_bytes r <=? LANE_BYTES)); [reflexivity|].
  replace (byte_hi r <=? blen v) with false by lia. reflexivity.
Qed.

Lemma sub_app_left (x t : bytes) : sub (x ++ t) 0 (blen x) = x.
Proof.
  unfold sub, blen. rewrite N.sub_0_r, Nat2N.id. cbn [N.to_nat skipn].
  rewrite firstn_app, Nat.sub_diag, firstn_all. cbn [firstn]. apply app_nil_r.
Qed.

Lemma rd_app_left (x t : bytes) r bits : byte_hi r <= blen x -> rd (x ++ t) r bits = rd x r bits.
Proof.
  intros H. rewrite <- (sub_app_left x t) at 2. symmetry. apply rd_prefix; [exact H|].
  unfold blen. rewrite app_length. lia.
Qed.

Lemma rd_in_sub (v : bytes) lo hi r bits : lo <= hi -> hi <= blen v -> byte_hi r <= hi - lo ->
  rd (sub v lo hi) r bits = rd v (rshift r lo) bits.
Proof.
  intros H1 H2 H3.
  replace (sub v lo hi) with (sub (sub v lo (blen v)) 0 (hi - lo)).
  - rewrite rd_prefix by (first [exact H3 | (rewrite blen_sub by lia; lia)]). apply rd_suffix. lia.
  - rewrite sub_sub_suffix by lia. f_equal; lia.
Qed.

Lemma splice_suffix (v : bytes) lo (y : bytes) : lo <= blen v ->
  sub (splice v lo y) lo (blen (splice v lo y)) = y ++ skipn (N.to_nat lo + length y) v.
Proof.
  intros H. unfold splice, sub.
  set (R := y ++ skipn (N.to_nat lo + length y) v).
  assert (Lf : length (firstn (N.to_nat lo) v) = N.to_nat lo) by (rewrite firstn_length; unfold blen in H; lia).
  assert (E : skipn (N.to_nat lo) (firstn (N.to_nat lo) v ++ R) = R).
  { rewrite skipn_app, Lf, Nat.sub_diag. rewrite skipn_all2 by (rewrite Lf; lia). reflexivity. }
  rewrite E. apply firstn_all2. unfold blen. rewrite app_length, Lf. lia.
Qed.

Lemma sub_ok' (b : bytes) lo hi : bytes_ok b = true -> bytes_ok (sub b lo hi) = true.
Proof. intros H. unfold sub. apply bytes_ok_firstn, bytes_ok_skipn, H. Qed.

Lemma rd_in_splice (v : bytes) lo (y : bytes) r bits :
  lo <= blen v -> (N.to_nat lo + length y <= length v)%nat -> byte_hi r <= blen y ->
  rd (splice v lo y) (rshift r lo) bits = rd y r bits.
Proof.
  intros H1 H2 H3.
  assert (L : blen (splice v lo y) = blen v) by (apply blen_length, splice_length; exact H2).
  rewrite <- rd_suffix by (rewrite L; unfold blen in *; lia).
  rewrite splice_suffix by exact H1. apply rd_app_left. exact H3.
Qed.

(** * the standard path setters never write a segment length *)
Lemma mut_stdpath_seg_reads id arg val v v' r : bytes_ok v = true ->
  In r [StdPathMeta_SEG0_LEN_RNG; StdPathMeta_SEG1_LEN_RNG; StdPathMeta_SEG2_LEN_RNG] ->
  mut_stdpath id arg val v = Ok v' -> rd v' r 8 = rd v r 8.
Proof.
  intros Hok Hr H. unfold mut_stdpath in H.
  assert (R4 : byte_hi r <= 4) by (cbn [In] in Hr; destruct Hr as [<-|[<-|[<-|[]]]]; closed_le).
  assert (Disj : forall r0, (r0 = StdPathMeta_CURR_INFO_FIELD_RNG \/ r0 = StdPathMeta_CURR_HOP_FIELD_RNG) -> wr v r0 val = Ok v' ->
                 rd v' r 8 = rd v r 8).
  { intros r0 Hr0 Hw. eapply rd_after_wr; [exact Hok|exact Hw|].
    cbn [In] in Hr. destruct Hr0 as [-> | ->]; destruct Hr as [<-|[<-|[<-|[]]]]; vm_compute; reflexivity. }
  split_id H; try solve [eapply Disj; [|exact H]; tauto].
  all: repeat match type of H with (if ?c then _ else _) = _ => destruct c end; try solve [inversion H; reflexivity].
  all: inv_bind H; try solve [inversion H; reflexivity].
  all: match goal with
       | E : sp_info_field_range _ _ = Ok (Some ?p) |- _ =>
         assert (4 <= fst p) by (unfold sp_info_field_range in E; inv_bind E; inversion E; subst; cbn [fst];
                                 unfold info_field_byte_range, rshift, byte_lo, r_start, InfoField_TOTAL_RNG, InfoField_SIZE_BYTES, StdPathMeta_SIZE_BYTES; cbn [fst snd]; lia)
       | E : sp_hop_field_range _ _ = Ok (Some ?p) |- _ =>
         assert (4 <= fst p) by (unfold sp_hop_field_range in E; inv_bind E; inversion E; subst; cbn [fst];
                                 unfold hop_field_byte_range, rshift, byte_lo, r_start, HopField_TOTAL_RNG, HopField_SIZE_BYTES, StdPathMeta_SIZE_BYTES; cbn [fst snd]; lia)
       end.
  all: (eapply in_sub_read_below; [|exact H|]; [intros x y Hxy; first [eapply mut_info_length; eassumption|eapply mut_hop_length; eassumption]|]); lia.
Qed.

(** * the header layout depends on the path bytes only through the three segment lengths *)
Lemma HL_same_at v v' :
  blen v' = blen v ->
  (forall r, In r [CommonHeader_VERSION_RNG; CommonHeader_PATH_TYPE_RNG; CommonHeader_SRC_ADDR_INFO_RNG;
                   CommonHeader_DST_ADDR_INFO_RNG; CommonHeader_HEADER_LEN_RNG; CommonHeader_PAYLOAD_LEN_RNG] ->
             forall bits, rd v' r bits = rd v r bits) ->
  (forall pt sn dn, rd v CommonHeader_PATH_TYPE_RNG 8 = Ok pt -> (pt =? PT_SCION) = true ->
     rd v CommonHeader_SRC_ADDR_INFO_RNG 8 = Ok sn -> rd v CommonHeader_DST_ADDR_INFO_RNG 8 = Ok dn ->
     forall r, In r [StdPathMeta_SEG0_LEN_RNG; StdPathMeta_SEG1_LEN_RNG; StdPathMeta_SEG2_LEN_RNG] ->
       rd v' (rshift r (CommonHeader_SIZE_BYTES + addr_hdr_size (hat_size sn) (hat_size dn))) 8
       = rd v (rshift r (CommonHeader_SIZE_BYTES + addr_hdr_size (hat_size sn) (hat_size dn))) 8) ->
  HL v' = HL v.
Proof.
  intros L Hc Hs. unfold HL. rewrite L. rewrite !Hc by (cbn [In]; tauto).
  destruct (blen v <? CommonHeader_SIZE_BYTES); [reflexivity|].
  destruct (rd v CommonHeader_VERSION_RNG 8) as [ver| |]; cbn [obind]; try reflexivity.
  destruct (negb (ver =? 0)); [reflexivity|].
  destruct (rd v CommonHeader_PATH_TYPE_RNG 8) as [pt| |] eqn:Ept; cbn [obind]; try reflexivity.
  destruct (rd v CommonHeader_SRC_ADDR_INFO_RNG 8) as [sn| |] eqn:Es; cbn [obind]; try reflexivity.
  destruct (rd v CommonHeader_DST_ADDR_INFO_RNG 8) as [dn| |] eqn:Ed; cbn [obind]; try reflexivity.
  destruct (rd v CommonHeader_HEADER_LEN_RNG 8) as [hu| |]; cbn [obind]; try reflexivity.
  destruct (rd v CommonHeader_PAYLOAD_LEN_RNG 16) as [pl| |]; cbn [obind]; try reflexivity.
  destruct (blen v <? CommonHeader_SIZE_BYTES + addr_hdr_size (hat_size sn) (hat_size dn)); [reflexivity|].
  destruct (pt =? PT_SCION) eqn:P; [|reflexivity].
  rewrite !(Hs pt sn dn eq_refl P eq_refl eq_refl) by (cbn [In]; tauto). reflexivity.
Qed.

(** * path_mut() setters on the header view *)
Lemma hv_path_range_facts v pt lo hi : hv_path_range v = Ok (pt, lo, hi) ->
  exists dn sn hl, rd v CommonHeader_DST_ADDR_INFO_RNG 8 = Ok dn /\ rd v CommonHeader_SRC_ADDR_INFO_RNG 8 = Ok sn
    /\ hv_header_len v = Ok hl /\ rd v CommonHeader_PATH_TYPE_RNG 8 = Ok pt
    /\ lo = CommonHeader_SIZE_BYTES + addr_hdr_size (hat_size dn) (hat_size sn)
    /\ (pt =? PT_EMPTY = false -> pt =? PT_ONEHOP = false -> hi = hl)
    /\ (pt =? PT_EMPTY = false -> pt =? PT_ONEHOP = true -> hi = lo + OneHopPath_SIZE_BYTES).
Proof.
  unfold hv_path_range, hv_dst_addr_type, hv_src_addr_type, hv_path_type. intros H.
  destruct (rd v CommonHeader_DST_ADDR_INFO_RNG 8) as [dn| |]; cbn [obind] in H; try discriminate.
  destruct (rd v CommonHeader_SRC_ADDR_INFO_RNG 8) as [sn| |]; cbn [obind] in H; try discriminate.
  destruct (hv_header_len v) as [hl| |]; cbn [obind] in H; try discriminate.
  destruct (rd v CommonHeader_PATH_TYPE_RNG 8) as [pt'| |]; cbn [obind] in H; try discriminate.
  exists dn, sn, hl.
  destruct (pt' =? PT_EMPTY) eqn:P0.
  { inversion H; subst. repeat split; try reflexivity; intros; congruence. }
  destruct (pt' =? PT_ONEHOP) eqn:P2.
  { inv_bind H. inversion H; subst. repeat split; try reflexivity; intros; congruence. }
  inv_bind H. inversion H; subst. repeat split; try reflexivity; intros; congruence.
Qed.

Lemma addr_hdr_size_comm a b : addr_hdr_size a b = addr_hdr_size b a.
Proof. unfold addr_hdr_size. f_equal. lia. Qed.

Lemma mut_header_path_preserves id arg val v v' : bytes_ok v = true ->
  required_size_header v = Ok (blen v) -> 100 <= id < 300 ->
  mut_header id arg val v = Ok v' -> header_layout v' = header_layout v /\ bytes_ok v' = true.
Proof.
  intros Hok Hv Hid H.
  unfold required_size_header in Hv. destruct (header_layout v) as [l| |] eqn:Hl; cbn [obind] in Hv; try discriminate.
  inversion Hv as [Hlen]. clear Hv.
  destruct (header_layout_fields v l Hl) as (Eh & Hm & _).
  assert (Ehl : hv_header_len v = Ok (blen v)).
  { unfold hv_header_len. rewrite Eh. cbn [obind]. f_equal. lia. }
  pose proof (mut_header_length _ _ _ _ _ H) as Len. apply blen_length in Len.
  unfold mut_header in H.
  assert (Hbr : (if (100 <=? id) && (id <? 200)
                 then p <- hv_path_range v ;; let '(pt, lo, hi) := p in
                      if pt =? PT_SCION then in_sub v (lo, hi) (mut_stdpath (id - 100) arg val) else Ok v
                 else if (200 <=? id) && (id <? 300)
                 then p <- hv_path_range v ;; let '(pt, lo, hi) := p in
                      if pt =? PT_ONEHOP then in_sub v (lo, hi) (mut_onehop (id - 200) val) else Ok v
                 else Ok v) = Ok v').
  { destruct id as [|p]; [lia|]. do 7 (destruct p as [p|p|]; try lia; try exact H). }
  clear H. rename Hbr into H.
  assert (Same : v' = v -> header_layout v' = header_layout v /\ bytes_ok v' = true) by (intros ->; auto).
  (* common frame: an in_sub at the path range *)
  assert (Frame : forall pt lo hi f,
            hv_path_range v = Ok (pt, lo, hi) -> in_sub v (lo, hi) f = Ok v' ->
            (forall x y, f x = Ok y -> length y = length x) ->
            (forall x y, bytes_ok x = true -> f x = Ok y -> bytes_ok y = true) ->
            (pt =? PT_SCION = true -> forall x y r, bytes_ok x = true -> f x = Ok y ->
               In r [StdPathMeta_SEG0_LEN_RNG; StdPathMeta_SEG1_LEN_RNG; StdPathMeta_SEG2_LEN_RNG] -> rd y r 8 = rd x r 8) ->
            header_layout v' = header_layout v /\ bytes_ok v' = true).
  { intros pt lo hi f Hp Hin Hfl Hfo Hfs.
    destruct (hv_path_range_facts v pt lo hi Hp) as (dn & sn & hl & Ed & Es & Ehl' & Ept & Hlo & Hhi & _).
    rewrite Ehl in Ehl'. inversion Ehl'; subst hl. clear Ehl'.
    split; [|eapply in_sub_ok; eassumption].
    rewrite !header_layout_HL. apply HL_same_at; [exact Len| |].
    - intros r Hr bits. eapply in_sub_read_below; [exact Hfl|exact Hin|]. cbn [fst]. rewrite Hlo.
      assert (byte_hi r <= 12) by (cbn [In] in Hr; repeat (destruct Hr as [<-|Hr]; [closed_le|]); destruct Hr).
      unfold CommonHeader_SIZE_BYTES. lia.
    - intros pt' sn' dn' Ept' P Es' Ed' r Hr.
      rewrite Ept in Ept'. inversion Ept'; subst pt'. rewrite Es in Es'. inversion Es'; subst sn'. rewrite Ed in Ed'. inversion Ed'; subst dn'.
      rewrite (addr_hdr_size_comm (hat_size sn) (hat_size dn)). rewrite <- Hlo.
      assert (P0 : pt =? PT_EMPTY = false) by (change PT_SCION with 1 in P; change PT_EMPTY with 0; lia).
      assert (P2 : pt =? PT_ONEHOP = false) by (change PT_SCION with 1 in P; change PT_ONEHOP with 2; lia).
      pose proof (Hhi P0 P2) as Hh. subst hi.
      unfold in_sub in Hin. cbn [fst snd] in Hin.
      destruct (get_unchecked v lo (blen v)) as [x| |] eqn:Ex; cbn [obind] in Hin; try discriminate.
      destruct (f x) as [y| |] eqn:Ey; cbn [obind] in Hin; try discriminate. inversion Hin; subst v'. clear Hin.
      apply get_unchecked_some in Ex. destruct Ex as (-> & Hle & _).
      pose proof (Hfl _ _ Ey) as Ly. rewrite sub_length in Ly by lia.
      assert (R4 : byte_hi r <= 4) by (cbn [In] in Hr; destruct Hr as [<-|[<-|[<-|[]]]]; closed_le).
      destruct (N.le_gt_cases (byte_hi r) (blen v - lo)) as [Hin4|Hout].
      + rewrite rd_in_splice by (first [exact Hle | (unfold blen in *; lia)]).
        rewrite (Hfs P _ _ r (sub_ok' v lo (blen v) Hok) Ey Hr).
        apply rd_in_sub; [exact Hle|lia|exact Hin4].
      + apply rd_same_len_oob; [exact Len|]. destruct (rshift_bytes r lo) as (_ & E2 & _). rewrite E2. lia. }
  rewrite <- Hl.
  destruct ((100 <=? id) && (id <? 200)) eqn:C1.
  - destruct (hv_path_range v) as [[[pt lo] hi]| |] eqn:Hp; cbn [obind] in H; try discriminate.
    destruct (pt =? PT_SCION) eqn:P; [|inversion H; subst; auto].
    apply (Frame pt lo hi _ eq_refl H).
    + intros x y Hxy. eapply mut_stdpath_length; exact Hxy.
    + intros x y Hx Hxy. eapply mut_stdpath_ok; eassumption.
    + intros _ x y r Hx Hxy Hr. eapply mut_stdpath_seg_reads; eassumption.
  - destruct ((200 <=? id) && (id <? 300)) eqn:C2; [|inversion H; subst; auto].
    destruct (hv_path_range v) as [[[pt lo] hi]| |] eqn:Hp; cbn [obind] in H; try discriminate.
    destruct (pt =? PT_ONEHOP) eqn:P; [|inversion H; subst; auto].
    apply (Frame pt lo hi _ eq_refl H).
    + intros x y Hxy. eapply mut_onehop_length; exact Hxy.
    + intros x y Hx Hxy. eapply mut_onehop_ok; eassumption.
    + intros P1. exfalso. change PT_SCION with 1 in P1. change PT_ONEHOP with 2 in P. lia.
Qed.

(** * from the header view back to the packet: the layout of a buffer is the layout of any
    prefix of it that is itself a complete header *)
Lemma HL_extend b l n : HL (sub b 0 n) = Ok l -> n <= blen b -> HL b = Ok l.
Proof.
  intros H Hb. unfold HL in H |- *. rewrite blen_sub in H by exact Hb. rewrite N.sub_0_r in H.
  destruct (n <? CommonHeader_SIZE_BYTES) eqn:C1; [discriminate|]. apply N.ltb_ge in C1.
  replace (blen b <? CommonHeader_SIZE_BYTES) with false by lia.
  rewrite !(rd_prefix b n) in H by (first [exact Hb | (eapply N.le_trans; [|exact C1]; closed_le)]).
  destruct (rd b CommonHeader_VERSION_RNG 8) as [ver| |]; cbn [obind] in *; try discriminate.
  destruct (negb (ver =? 0)); [discriminate|].
  destruct (rd b CommonHeader_PATH_TYPE_RNG 8) as [pt| |]; cbn [obind] in *; try discriminate.
  destruct (rd b CommonHeader_SRC_ADDR_INFO_RNG 8) as [sn| |]; cbn [obind] in *; try discriminate.
  destruct (rd b CommonHeader_DST_ADDR_INFO_RNG 8) as [dn| |]; cbn [obind] in *; try discriminate.
  destruct (rd b CommonHeader_HEADER_LEN_RNG 8) as [u| |]; cbn [obind] in *; try discriminate.
  destruct (rd b CommonHeader_PAYLOAD_LEN_RNG 16) as [pl| |]; cbn [obind] in *; try discriminate.
  remember (CommonHeader_SIZE_BYTES + addr_hdr_size (hat_size sn) (hat_size dn)) as ae eqn:Eae.
  destruct (n <? ae) eqn:D1; [discriminate|]. apply N.ltb_ge in D1.
  replace (blen b <? ae) with false by lia.
  destruct (pt =? PT_SCION) eqn:Ps.
  - destruct (n - ae <? StdPathMeta_SIZE_BYTES) eqn:D2; [discriminate|]. apply N.ltb_ge in D2.
    replace (blen b - ae <? StdPathMeta_SIZE_BYTES) with false by lia.
    assert (A4 : ae + 4 <= n) by (unfold StdPathMeta_SIZE_BYTES in *; lia).
    rewrite !(rd_prefix b n) in H by (first [exact Hb | (destruct (rshift_bytes StdPathMeta_SEG0_LEN_RNG ae) as (_ & -> & _); change (byte_hi StdPathMeta_SEG0_LEN_RNG) with 3; lia)
                                     | (destruct (rshift_bytes StdPathMeta_SEG1_LEN_RNG ae) as (_ & -> & _); change (byte_hi StdPathMeta_SEG1_LEN_RNG) with 4; lia)
                                     | (destruct (rshift_bytes StdPathMeta_SEG2_LEN_RNG ae) as (_ & -> & _); change (byte_hi StdPathMeta_SEG2_LEN_RNG) with 4; lia)]).
    destruct (rd b (rshift StdPathMeta_SEG0_LEN_RNG ae) 8) as [s0| |]; cbn [obind] in *; try discriminate.
    destruct (rd b (rshift StdPathMeta_SEG1_LEN_RNG ae) 8) as [s1| |]; cbn [obind] in *; try discriminate.
    destruct (rd b (rshift StdPathMeta_SEG2_LEN_RNG ae) 8) as [s2| |]; cbn [obind] in *; try discriminate.
    cbn [path_layout_size] in *.
    destruct (n <? ae + (StdPathMeta_SIZE_BYTES + std_data_size s0 s1 s2)) eqn:D3; [discriminate|]. apply N.ltb_ge in D3.
    replace (blen b <? ae + (StdPathMeta_SIZE_BYTES + std_data_size s0 s1 s2)) with false by lia.
    exact H.
  - destruct (pt =? PT_ONEHOP).
    { cbn [obind path_layout_size] in *.
      destruct (n <? ae + OneHopPath_SIZE_BYTES) eqn:D3; [discriminate|]. apply N.ltb_ge in D3.
      replace (blen b <? ae + OneHopPath_SIZE_BYTES) with false by lia. exact H. }
    destruct (pt =? PT_EMPTY).
    { cbn [obind path_layout_size] in *.
      destruct (n <? ae + 0) eqn:D3; [discriminate|]. apply N.ltb_ge in D3.
      replace (blen b <? ae + 0) with false by lia. exact H. }
    destruct (u * 4 <? ae); cbn [obind] in *; [discriminate|]. cbn [path_layout_size] in *.
    match type of H with (if n <? ?c then _ else _) = _ =>
      destruct (n <? c) eqn:D3; [discriminate|]; apply N.ltb_ge in D3; replace (blen b <? c) with false by lia end.
    exact H.
Qed.

Lemma sub_app_right (p t : bytes) hi : blen p <= hi -> sub (p ++ t) (blen p) hi = sub t 0 (hi - blen p).
Proof.
  intros H. unfold sub, blen in *. rewrite Nat2N.id. rewrite skipn_app, Nat.sub_diag, skipn_all. cbn [skipn app].
  rewrite N.sub_0_r. reflexivity.
Qed.

Lemma splice0 (v y : bytes) : splice v 0 y = y ++ skipn (length y) v.
Proof. unfold splice. cbn [N.to_nat firstn app Nat.add]. reflexivity. Qed.

(** a packet whose header bytes are replaced by a header with the same layout (same length)
    is re-validated to the same size, for the raw and the typed packet views *)
Lemma pkt_header_replaced k (v hv' : bytes) l :
  (k = KRaw \/ k = KUdpPkt \/ k = KScmpPkt) -> bytes_ok v = true -> required_size k v = Ok (blen v) ->
  header_layout v = Ok l -> header_layout hv' = Ok l -> blen hv' = hl_header_len l -> bytes_ok hv' = true ->
  required_size k (splice v 0 hv') = required_size k v /\ bytes_ok (splice v 0 hv') = true.
Proof.
  intros Hk Hok Hv Hl Hl' Len' Ok'.
  destruct (header_layout_sound v l Hl) as [Hle H12].
  set (hl := hl_header_len l) in *.
  rewrite splice0. set (t := skipn (length hv') v).
  assert (Ev : v = sub v 0 hl ++ t).
  { unfold t, sub. rewrite N.sub_0_r. cbn [N.to_nat skipn]. unfold blen in Len'.
    replace (length hv') with (N.to_nat hl) by lia. symmetry. apply firstn_skipn. }
  assert (Lh : blen (sub v 0 hl) = hl) by (rewrite blen_sub by exact Hle; lia).
  assert (Lv' : blen (hv' ++ t) = blen v).
  { unfold t, blen in *. rewrite app_length, skipn_length. lia. }
  assert (HL' : header_layout (hv' ++ t) = Ok l).
  { rewrite header_layout_HL. apply (HL_extend _ l hl); [|rewrite Lv'; exact Hle].
    rewrite <- Len', sub_app_left. rewrite <- header_layout_HL. exact Hl'. }
  split; [|rewrite bytes_ok_app, Ok'; unfold t; rewrite bytes_ok_skipn by exact Hok; reflexivity].
  assert (Raw : required_size_raw (hv' ++ t) = required_size_raw v) by (unfold required_size_raw; rewrite HL', Hl, Lv'; reflexivity).
  destruct Hk as [->|Hk]; [exact Raw|].
  pose proof (pkt_payload_range_ok v l Hl) as Pv. pose proof (pkt_payload_range_ok _ l HL') as Pv'. rewrite Lv' in Pv'.
  assert (Epay : pkt_payload (hv' ++ t) = pkt_payload v).
  { unfold pkt_payload. rewrite Pv, Pv'. cbn [obind fst snd]. f_equal. fold hl.
    remember (hl + N.min (hl_payload_len l) (blen v - hl)) as X eqn:HX.
    assert (HXle : hl <= X) by lia.
    pose proof (sub_app_right hv' t X) as A1. rewrite Len' in A1. specialize (A1 HXle).
    pose proof (sub_app_right (sub v 0 hl) t X) as A2. rewrite Lh in A2. specialize (A2 HXle). rewrite <- Ev in A2.
    rewrite A1, A2. reflexivity. }
  destruct Hk as [-> | ->]; cbn [required_size]; [unfold required_size_udp_pkt|unfold required_size_scmp_pkt]; rewrite Raw, Epay; reflexivity.
Qed.

Lemma pkt_layout_of_valid k v : (k = KRaw \/ k = KUdpPkt \/ k = KScmpPkt) -> required_size k v = Ok (blen v) ->
  exists l, header_layout v = Ok l.
Proof.
  intros Hk Hv. destruct Hk as [->|[-> | ->]]; cbn [required_size] in Hv;
    [|unfold required_size_udp_pkt in Hv|unfold required_size_scmp_pkt in Hv];
    unfold required_size_raw in Hv; destruct (header_layout v) as [l| |]; cbn [obind] in Hv; try discriminate; eauto.
Qed.

(** header_mut().path_mut() setters on the three packet views *)
Lemma mut_pkt_path_preserves k id arg val v v' :
  (k = KRaw \/ k = KUdpPkt \/ k = KScmpPkt) -> bytes_ok v = true -> required_size k v = Ok (blen v) ->
  1100 <= id < 1300 -> mut_pkt k id arg val v = Ok v' -> required_size k v' = required_size k v /\ bytes_ok v' = true.
Proof.
  intros Hk Hok Hv Hid H.
  destruct (pkt_layout_of_valid k v Hk Hv) as [l Hl].
  destruct (header_layout_fields v l Hl) as (Eh & Hm & _). destruct (header_layout_sound v l Hl) as [Hle H12].
  unfold mut_pkt in H.
  assert (Hbr : (len <- hv_header_len v ;; in_sub v (0, len) (mut_header (id - 1000) arg val)) = Ok v').
  { destruct id as [|p]; [lia|]. destruct p as [p|p|]; try lia; replace (1000 <=? _) with true in H by lia; exact H. }
  clear H. unfold hv_header_len in Hbr. rewrite Eh in Hbr. cbn [obind] in Hbr.
  replace (hl_header_len l / 4 * 4) with (hl_header_len l) in Hbr by lia.
  unfold in_sub in Hbr. cbn [fst snd] in Hbr. rewrite get_unchecked_ok in Hbr by lia. cbn [obind] in Hbr.
  destruct (mut_header (id - 1000) arg val (sub v 0 (hl_header_len l))) as [y| |] eqn:Ey; cbn [obind] in Hbr; try discriminate.
  inversion Hbr; subst v'. clear Hbr.
  assert (Hxv : required_size_header (sub v 0 (hl_header_len l)) = Ok (blen (sub v 0 (hl_header_len l)))).
  { unfold required_size_header. rewrite header_layout_HL. rewrite header_layout_HL in Hl.
    rewrite (HL_prefix v l _ Hl (N.le_refl _) Hle). cbn [obind]. rewrite blen_sub by exact Hle. f_equal. lia. }
  destruct (mut_header_path_preserves (id - 1000) arg val _ y (sub_ok' v 0 _ Hok) Hxv ltac:(lia) Ey) as [E O].
  pose proof (mut_header_length _ _ _ _ _ Ey) as Ly. apply blen_length in Ly. rewrite blen_sub in Ly by exact Hle.
  apply (pkt_header_replaced k v y l Hk Hok Hv Hl); [|lia|exact O].
  rewrite E. rewrite !header_layout_HL. rewrite header_layout_HL in Hl. apply (HL_prefix v l _ Hl (N.le_refl _) Hle).
Qed.

(** ScionRawPacketView::payload_mut(): a byte of the payload *)
Lemma mut_raw_payload_preserves arg val v v' :
  bytes_ok v = true -> required_size KRaw v = Ok (blen v) ->
  mut_pkt KRaw 1 arg val v = Ok v' -> required_size KRaw v' = required_size KRaw v /\ bytes_ok v' = true.
Proof.
  intros Hok Hv H. destruct (pkt_layout_of_valid KRaw v (or_introl eq_refl) Hv) as [l Hl].
  destruct (header_layout_sound v l Hl) as [Hle H12].
  unfold mut_pkt in H. cbv iota in H. rewrite (pkt_payload_range_ok v l Hl) in H. cbn [obind] in H.
  split; [|eapply poke_ok; eassumption].
  unfold poke in H. cbn [fst snd] in H.
  destruct (hl_header_len l + arg <? hl_header_len l + N.min (hl_payload_len l) (blen v - hl_header_len l)) eqn:C; [|inversion H; reflexivity].
  apply N.ltb_lt in C. inversion H; subst v'. clear H.
  set (hl := hl_header_len l) in *. set (p := hl + arg) in *.
  assert (Lp : (N.to_nat p + length [trunc 8 val] <= length v)%nat) by (cbn [length]; unfold blen in *; lia).
  assert (Lv' : blen (splice v p [trunc 8 val]) = blen v) by (apply blen_length, splice_length; exact Lp).
  assert (Epre : sub (splice v p [trunc 8 val]) 0 hl = sub v 0 hl).
  { unfold splice, sub. rewrite N.sub_0_r. cbn [N.to_nat skipn].
    rewrite firstn_app. rewrite firstn_firstn. rewrite firstn_length.
    replace (N.to_nat hl - Nat.min (N.to_nat p) (length v))%nat with 0%nat by (unfold blen in *; lia).
    cbn [firstn]. rewrite app_nil_r. f_equal. unfold p. lia. }
  cbn [required_size]. unfold required_size_raw. rewrite Hl.
  assert (HL' : header_layout (splice v p [trunc 8 val]) = Ok l).
  { rewrite header_layout_HL. apply (HL_extend _ l hl); [|rewrite Lv'; exact Hle].
    rewrite Epre. rewrite header_layout_HL in Hl. apply (HL_prefix v l hl Hl (N.le_refl _) Hle). }
  rewrite HL', Lv'. reflexivity.
Qed.

(** * the covered operations: [layout_preserving_op_all] extended by every path_mut() setter (on the
    header view and through header_mut() of the packet views) and the raw view's payload_mut() *)
Definition layout_preserving_op_all2 (k : vkind) (id : N) : bool :=
  layout_preserving_op_all k id
  || match k with
     | KHeader => (100 <=? id) && (id <? 300)
     | KRaw => ((1100 <=? id) && (id <? 1300)) || (id =? 1)
     | KUdpPkt | KScmpPkt => (1100 <=? id) && (id <? 1300)
     | _ => false
     end.

Lemma run_mut_preserves_all2 k id arg val v v' :
  layout_preserving_op_all2 k id = true -> bytes_ok v = true -> required_size k v = Ok (blen v) ->
  run_mut k id arg val v = Ok v' -> required_size k v' = required_size k v /\ bytes_ok v' = true.
Proof.
  intros Hop Hok Hv H. unfold layout_preserving_op_all2 in Hop. apply Bool.orb_true_iff in Hop. destruct Hop as [Hop|Hop].
  - eapply run_mut_preserves_all; eassumption.
  - destruct k; try discriminate Hop.
    + apply Bool.andb_true_iff in Hop. destruct Hop as [H1 H3].
      apply N.leb_le in H1. apply N.ltb_lt in H3. cbn [run_mut required_size] in *.
      destruct (mut_header_path_preserves id arg val v v' Hok Hv (conj H1 H3) H) as [E O].
      split; [|exact O]. unfold required_size_header. rewrite E. reflexivity.
    + apply Bool.orb_true_iff in Hop. destruct Hop as [Hop|Hop].
      * apply Bool.andb_true_iff in Hop. destruct Hop as [H1 H3]. apply N.leb_le in H1. apply N.ltb_lt in H3.
        cbn [run_mut] in H. eapply (mut_pkt_path_preserves KRaw); try eassumption; [tauto|split; assumption].
      * apply N.eqb_eq in Hop. subst id. cbn [run_mut] in H. eapply mut_raw_payload_preserves; eassumption.
    + apply Bool.andb_true_iff in Hop. destruct Hop as [H1 H3]. apply N.leb_le in H1. apply N.ltb_lt in H3.
      cbn [run_mut] in H. eapply (mut_pkt_path_preserves KUdpPkt); try eassumption; [tauto|split; assumption].
    + apply Bool.andb_true_iff in Hop. destruct Hop as [H1 H3]. apply N.leb_le in H1. apply N.ltb_lt in H3.
      cbn [run_mut] in H. eapply (mut_pkt_path_preserves KScmpPkt); try eassumption; [tauto|split; assumption].
Qed.

Lemma run_muts_preserve_all2 k ms : forall v v',
  forallb (fun m => layout_preserving_op_all2 k (fst (fst m))) ms = true ->
  bytes_ok v = true -> required_size k v = Ok (blen v) -> run_muts k ms v = Ok v' ->
  required_size k v' = Ok (blen v') /\ blen v' = blen v /\ bytes_ok v' = true.
Proof.
  induction ms as [|[[id arg] val] r IH]; intros v v' Hall Hok Hv H; cbn [run_muts] in H.
  - inversion H; subst. auto.
  - cbn [forallb fst] in Hall. apply Bool.andb_true_iff in Hall. destruct Hall as [Hop Hall].
    inv_bind H.
    destruct (run_mut_preserves_all2 k id arg val v a Hop Hok Hv E) as [P O].
    pose proof (run_mut_length k id arg val v a E) as L. apply blen_length in L.
    assert (Hva : required_size k a = Ok (blen a)) by (rewrite P, L; exact Hv).
    destruct (IH a v' Hall O Hva H) as (R1 & R2 & R3). refine (conj R1 (conj _ R3)). lia.
Qed.

(** * every mutator number: the operations outside the numbered setters are no-ops of the model,
    so the theorem holds for EVERY (kind, id) except the three deliberate exceptions *)
Definition is_layout_exception (k : vkind) (id : N) : bool :=
  match k with
  | KHeader => id =? 0                          (* ScionHeaderView::set_version *)
  | KUdp => id =? 2                             (* UdpDatagramView::set_length *)
  | KRaw | KUdpPkt | KScmpPkt => id =? 1000     (* header_mut().set_version *)
  | _ => false
  end.

Lemma mut_header_noop id arg val v : (8 <= id < 100 \/ 300 <= id) -> mut_header id arg val v = Ok v.
Proof.
  intros H. unfold mut_header.
  assert (E : (if (100 <=? id) && (id <? 200)
               then p <- hv_path_range v ;; let '(pt, lo, hi) := p in
                    if pt =? PT_SCION then in_sub v (lo, hi) (mut_stdpath (id - 100) arg val) else Ok v
               else if (200 <=? id) && (id <? 300)
               then p <- hv_path_range v ;; let '(pt, lo, hi) := p in
                    if pt =? PT_ONEHOP then in_sub v (lo, hi) (mut_onehop (id - 200) val) else Ok v
               else Ok v) = Ok v).
  { replace ((100 <=? id) && (id <? 200)) with false by lia. replace ((200 <=? id) && (id <? 300)) with false by lia. reflexivity. }
  destruct id as [|p]; [lia|]. do 3 (destruct p as [p|p|]; try lia; try exact E).
Qed.

Lemma splice_same_prefix (v : bytes) n : n <= blen v -> splice v 0 (sub v 0 n) = v.
Proof.
  intros H. rewrite splice0. unfold sub. rewrite N.sub_0_r. cbn [N.to_nat skipn].
  rewrite firstn_length. unfold blen in H. replace (Nat.min (N.to_nat n) (length v)) with (N.to_nat n) by lia.
  apply firstn_skipn.
Qed.

Lemma mut_pkt_noop k id arg val v v' :
  (k = KRaw \/ k = KUdpPkt \/ k = KScmpPkt) ->
  (id = 0 \/ (k <> KRaw /\ id = 1) \/ 2 <= id < 1000 \/ 1008 <= id < 1100 \/ 1300 <= id) ->
  mut_pkt k id arg val v = Ok v' -> v' = v.
Proof.
  intros Hk Hid H. unfold mut_pkt in H.
  destruct (N.eq_dec id 1) as [->|N1].
  { cbv iota in H. destruct Hid as [Hid|[[Hn _]|Hid]]; try lia.
    destruct Hk as [->|[-> | ->]]; [congruence| |]; inversion H; reflexivity. }
  assert (Hbr : (if 1000 <=? id then len <- hv_header_len v ;; in_sub v (0, len) (mut_header (id - 1000) arg val) else Ok v) = Ok v').
  { destruct id as [|p]; [exact H|]. destruct p as [p|p|]; try exact H. congruence. }
  clear H. destruct (1000 <=? id) eqn:C; [|inversion Hbr; reflexivity]. apply N.leb_le in C.
  destruct (hv_header_len v) as [len| |]; cbn [obind] in Hbr; try discriminate.
  unfold in_sub in Hbr. cbn [fst snd] in Hbr.
  destruct (get_unchecked v 0 len) as [x| |] eqn:Ex; cbn [obind] in Hbr; try discriminate.
  apply get_unchecked_some in Ex. destruct Ex as (-> & _ & Hl).
  rewrite mut_header_noop in Hbr by lia. cbn [obind] in Hbr. inversion Hbr. apply splice_same_prefix. exact Hl.
Qed.

Lemma run_mut_preserves_any k id arg val v v' :
  is_layout_exception k id = false -> bytes_ok v = true -> required_size k v = Ok (blen v) ->
  run_mut k id arg val v = Ok v' -> required_size k v' = required_size k v /\ bytes_ok v' = true.
Proof.
  intros Hex Hok Hv H.
  assert (Noop : v' = v -> required_size k v' = required_size k v /\ bytes_ok v' = true) by (intros ->; auto).
  assert (Use : layout_preserving_op_all2 k id = true -> required_size k v' = required_size k v /\ bytes_ok v' = true).
  { intros Hop. eapply run_mut_preserves_all2; eassumption. }
  destruct k; cbn [is_layout_exception] in Hex; try (apply Use; reflexivity).
  - (* header view *)
    apply N.eqb_neq in Hex.
    destruct (N.le_gt_cases id 7) as [L7|G7].
    { apply Use. unfold layout_preserving_op_all2, layout_preserving_op_all. cbn [layout_preserving_op].
      replace ((1 <=? id) && (id <=? 7)) with true by lia. reflexivity. }
    destruct (N.le_gt_cases 100 id) as [G100|L100].
    + destruct (N.le_gt_cases 300 id) as [G300|L300].
      * apply Noop. cbn [run_mut] in H. rewrite mut_header_noop in H by lia. inversion H. reflexivity.
      * apply Use. unfold layout_preserving_op_all2. replace ((100 <=? id) && (id <? 300)) with true by lia. apply Bool.orb_true_r.
    + apply Noop. cbn [run_mut] in H. rewrite mut_header_noop in H by lia. inversion H. reflexivity.
  - (* raw packet view *)
    apply N.eqb_neq in Hex. cbn [run_mut] in H.
    destruct (N.eq_dec id 1) as [->|N1]; [apply Use; reflexivity|].
    destruct (N.le_gt_cases 1001 id) as [G|L]; [|apply Noop; eapply (mut_pkt_noop KRaw); [tauto| |exact H]; lia].
    destruct (N.le_gt_cases id 1007) as [L7|G7].
    { apply Use. unfold layout_preserving_op_all2, layout_preserving_op_all. cbn [is_pkt andb].
      replace ((1001 <=? id) && (id <=? 1007)) with true by lia. rewrite Bool.orb_true_r. reflexivity. }
    destruct (N.le_gt_cases 1100 id) as [G11|L11]; [|apply Noop; eapply (mut_pkt_noop KRaw); [tauto| |exact H]; lia].
    destruct (N.le_gt_cases 1300 id) as [G13|L13]; [apply Noop; eapply (mut_pkt_noop KRaw); [tauto| |exact H]; lia|].
    apply Use. unfold layout_preserving_op_all2. replace ((1100 <=? id) && (id <? 1300)) with true by lia. cbn [orb]. apply Bool.orb_true_r.
  - (* UDP packet view *)
    apply N.eqb_neq in Hex. cbn [run_mut] in H.
    destruct (N.le_gt_cases 1001 id) as [G|L];
      [|apply Noop; eapply (mut_pkt_noop KUdpPkt); [tauto| |exact H];
        destruct (N.eq_dec id 0) as [->|N0]; [left; reflexivity|];
        destruct (N.eq_dec id 1) as [->|N1]; [right; left; split; [discriminate|reflexivity]|]; right; right; left; lia].
    destruct (N.le_gt_cases id 1007) as [L7|G7].
    { apply Use. unfold layout_preserving_op_all2, layout_preserving_op_all. cbn [is_pkt andb].
      replace ((1001 <=? id) && (id <=? 1007)) with true by lia. rewrite Bool.orb_true_r. reflexivity. }
    destruct (N.le_gt_cases 1100 id) as [G11|L11]; [|apply Noop; eapply (mut_pkt_noop KUdpPkt); [tauto| |exact H]; lia].
    destruct (N.le_gt_cases 1300 id) as [G13|L13]; [apply Noop; eapply (mut_pkt_noop KUdpPkt); [tauto| |exact H]; lia|].
    apply Use. unfold layout_preserving_op_all2. replace ((1100 <=? id) && (id <? 1300)) with true by lia. apply Bool.orb_true_r.
  - (* SCMP packet view *)
    apply N.eqb_neq in Hex. cbn [run_mut] in H.
    destruct (N.le_gt_cases 1001 id) as [G|L];
      [|apply Noop; eapply (mut_pkt_noop KScmpPkt); [tauto| |exact H];
        destruct (N.eq_dec id 0) as [->|N0]; [left; reflexivity|];
        destruct (N.eq_dec id 1) as [->|N1]; [right; left; split; [discriminate|reflexivity]|]; right; right; left; lia].
    destruct (N.le_gt_cases id 1007) as [L7|G7].
    { apply Use. unfold layout_preserving_op_all2, layout_preserving_op_all. cbn [is_pkt andb].
      replace ((1001 <=? id) && (id <=? 1007)) with true by lia. rewrite Bool.orb_true_r. reflexivity. }
    destruct (N.le_gt_cases 1100 id) as [G11|L11]; [|apply Noop; eapply (mut_pkt_noop KScmpPkt); [tauto| |exact H]; lia].
    destruct (N.le_gt_cases 1300 id) as [G13|L13]; [apply Noop; eapply (mut_pkt_noop KScmpPkt); [tauto| |exact H]; lia|].
    apply Use. unfold layout_preserving_op_all2. replace ((1100 <=? id) && (id <? 1300)) with true by lia. apply Bool.orb_true_r.
  - (* UDP datagram view *)
    apply Use. unfold layout_preserving_op_all2, layout_preserving_op_all. cbn [layout_preserving_op]. rewrite Hex. reflexivity.
Qed.

Lemma run_muts_preserve_any k ms : forall v v',
  forallb (fun m => negb (is_layout_exception k (fst (fst m)))) ms = true ->
  bytes_ok v = true -> required_size k v = Ok (blen v) -> run_muts k ms v = Ok v' ->
  required_size k v' = Ok (blen v') /\ blen v' = blen v /\ bytes_ok v' = true.
Proof.
  induction ms as [|[[id arg] val] r IH]; intros v v' Hall Hok Hv H; cbn [run_muts] in H.
  - inversion H; subst. auto.
  - cbn [forallb fst] in Hall. apply Bool.andb_true_iff in Hall. destruct Hall as [Hop Hall]. apply Bool.negb_true_iff in Hop.
    inv_bind H.
    destruct (run_mut_preserves_any k id arg val v a Hop Hok Hv E) as [P O].
    pose proof (run_mut_length k id arg val v a E) as L. apply blen_length in L.
    assert (Hva : required_size k a = Ok (blen a)) by (rewrite P, L; exact Hv).
    destruct (IH a v' Hall O Hva H) as (R1 & R2 & R3). refine (conj R1 (conj _ R3)). lia.
Qed.
