(** Round trips, layer by layer: what the field writers of an encoder put into a buffer is
    what the view accessors of the decoder read back.  Built on the bit-level lemmas of
    [BitFieldProofs]: a list of writes to pairwise bit-disjoint ranges reads back value by
    value and leaves every other field alone. *)
From Coq Require Import Lia ZifyBool ZifyNat ZifyN.
From Sci Require Import Wire.Codec Wire.BitFieldProofs.
Local Open Scope N_scope.
Ltac Zify.zify_post_hook ::= Z.div_mod_to_equations.
Arguments N.add : simpl never. Arguments N.sub : simpl never. Arguments N.mul : simpl never.
Arguments N.div : simpl never. Arguments N.modulo : simpl never. Arguments N.pow : simpl never.
Arguments N.ltb : simpl never. Arguments N.leb : simpl never. Arguments N.eqb : simpl never.

Definition apply_writes (ws : list (rng * N)) (b : bytes) : bytes :=
  fold_left (fun b x => w (fst x) (snd x) b) ws b.
Fixpoint pairwise_disjoint (rs : list rng) : bool :=
  match rs with [] => true | r :: t => forallb (rng_disjoint r) t && pairwise_disjoint t end.

Lemma rng_disjoint_sym r1 r2 : rng_disjoint r1 r2 = rng_disjoint r2 r1.
Proof. unfold rng_disjoint. apply Bool.orb_comm. Qed.

Lemma apply_writes_spec ws : forall b,
  bytes_ok b = true -> (forall x, In x ws -> byte_hi (fst x) <= blen b) -> pairwise_disjoint (map fst ws) = true ->
  let b' := apply_writes ws b in
  bytes_ok b' = true /\ blen b' = blen b
  /\ (forall x, In x ws -> lane_read b' (fst x) = snd x mod 2 ^ r_width (fst x))
  /\ (forall r2, byte_hi r2 <= blen b -> forallb (fun x => rng_disjoint (fst x) r2) ws = true -> lane_read b' r2 = lane_read b r2).
Proof.
  induction ws as [|[r v] t IH]; intros b Hok Hhi Hd.
  - cbv zeta. cbn [apply_writes fold_left]. refine (conj Hok (conj eq_refl (conj _ _))); [intros x []|reflexivity].
  - change (apply_writes ((r, v) :: t) b) with (apply_writes t (lane_write b r v)). cbv zeta.
    cbn [map fst pairwise_disjoint] in Hd. apply Bool.andb_true_iff in Hd. destruct Hd as [Hr Hd].
    assert (Hr0 : byte_hi r <= blen b) by (apply (Hhi (r, v)); left; reflexivity).
    destruct (lane_write_value b r v Hok Hr0) as (_ & _ & _ & _ & _ & Ok1 & Len1).
    set (b1 := lane_write b r v) in *.
    specialize (IH b1 Ok1).
    assert (Hhi1 : forall x, In x t -> byte_hi (fst x) <= blen b1) by (intros x Hx; rewrite Len1; apply Hhi; right; exact Hx).
    destruct (IH Hhi1 Hd) as (Ok' & Len' & Rd & Fr).
    refine (conj Ok' (conj _ (conj _ _))).
    + rewrite Len'. exact Len1.
    + intros x [Hx|Hx].
      * subst x. cbn [fst snd]. rewrite Fr.
        -- unfold b1. apply read_write_same_lemma; assumption.
        -- rewrite Len1. exact Hr0.
        -- rewrite forallb_forall in Hr. apply forallb_forall. intros y Hy. rewrite rng_disjoint_sym.
           apply Hr. apply in_map. exact Hy.
      * apply Rd. exact Hx.
    + intros r2 H2 Hall. cbn [forallb fst] in Hall. apply Bool.andb_true_iff in Hall. destruct Hall as [Hd2 Hall].
      rewrite Fr by (try rewrite Len1; assumption). unfold b1. apply read_write_disjoint_lemma; assumption.
Qed.

(** [rd] after a successful bounds check *)
Lemma rd_val v r bits : size_bytes r <= LANE_BYTES -> byte_hi r <= blen v -> rd v r bits = Ok (trunc bits (lane_read v r)).
Proof.
  intros H1 H2. unfold rd. destruct (size_bytes r <=? LANE_BYTES) eqn:A; [|apply N.leb_gt in A; lia].
  cbn [negb]. destruct (byte_hi r <=? blen v) eqn:B; [|apply N.leb_gt in B; lia]. reflexivity.
Qed.
Lemma trunc_id bits x : x < 2 ^ bits -> trunc bits x = x.
Proof. intros H. unfold trunc. apply N.mod_small. exact H. Qed.

Ltac closed_le := apply N.leb_le; vm_compute; reflexivity.
Ltac in_list := cbn [In]; tauto.

(** * info field *)
Definition info_writes (i : info_f) : list (rng * N) :=
  [(InfoField_FLAGS_RNG, i_flags i); (InfoField_RSV_RNG, 0); (InfoField_SEGMENT_ID_RNG, i_segid i); (InfoField_TIMESTAMP_RNG, i_ts i)].
Lemma encode_info_writes i buf : encode_info i buf = apply_writes (info_writes i) buf.
Proof. reflexivity. Qed.

Lemma info_roundtrip i buf : info_wf i = true -> bytes_ok buf = true -> blen buf = InfoField_SIZE_BYTES ->
  decode_info (encode_info i buf) = Ok i /\ bytes_ok (encode_info i buf) = true /\ blen (encode_info i buf) = blen buf.
Proof.
  intros W Hok Hlen. rewrite encode_info_writes.
  destruct (apply_writes_spec (info_writes i) buf Hok) as (Ok' & Len' & Rd & _).
  { intros x Hx. rewrite Hlen. cbn [info_writes In] in Hx.
    repeat (destruct Hx as [Hx|Hx]; [subst x; closed_le|]). destruct Hx. }
  { vm_compute. reflexivity. }
  refine (conj _ (conj Ok' Len')).
  unfold info_wf in W. repeat (apply Bool.andb_true_iff in W; let X := fresh "W" in destruct W as [W X]).
  apply N.ltb_lt in W, W0, W1.
  unfold decode_info, if_flags, if_segment_id, if_timestamp.
  rewrite !rd_val by (first [closed_le | (rewrite Len', Hlen; closed_le)]). cbn [obind].
  pose proof (Rd (InfoField_FLAGS_RNG, i_flags i) ltac:(cbn [info_writes In]; tauto)) as R1.
  pose proof (Rd (InfoField_SEGMENT_ID_RNG, i_segid i) ltac:(cbn [info_writes In]; tauto)) as R2.
  pose proof (Rd (InfoField_TIMESTAMP_RNG, i_ts i) ltac:(cbn [info_writes In]; tauto)) as R3.
  cbn [fst snd] in R1, R2, R3. rewrite R1, R2, R3. change (r_width InfoField_FLAGS_RNG) with 8. change (r_width InfoField_SEGMENT_ID_RNG) with 16.
  change (r_width InfoField_TIMESTAMP_RNG) with 32.
  change (2 ^ 8) with 256 in *. change (2 ^ 16) with 65536 in *. change (2 ^ 32) with 4294967296 in *.
  unfold trunc. change (2 ^ 8) with 256. change (2 ^ 16) with 65536. change (2 ^ 32) with 4294967296.
  rewrite !N.mod_mod by discriminate. rewrite !N.mod_small by assumption.
  destruct i; reflexivity.
Qed.

(** reading one written field back through the decoder's [rd] *)
Lemma read_field ws b r v bits :
  bytes_ok b = true -> (forall x, In x ws -> byte_hi (fst x) <= blen b) -> pairwise_disjoint (map fst ws) = true ->
  In (r, v) ws -> size_bytes r <= LANE_BYTES -> v < 2 ^ r_width r -> r_width r <= bits ->
  rd (apply_writes ws b) r bits = Ok v.
Proof.
  intros Hok Hhi Hd Hin Hs Hv Hb.
  destruct (apply_writes_spec ws b Hok Hhi Hd) as (_ & Len' & Rd & _).
  rewrite rd_val; [|exact Hs|rewrite Len'; apply (Hhi (r, v) Hin)].
  pose proof (Rd (r, v) Hin) as R. cbn [fst snd] in R. rewrite R. rewrite N.mod_small by exact Hv.
  f_equal. apply trunc_id. eapply N.lt_le_trans; [exact Hv|]. apply N.pow_le_mono_r; [discriminate|exact Hb].
Qed.

Lemma writes_hi_ok (ws : list (rng * N)) n (b : bytes) : forallb (fun x => byte_hi (fst x) <=? n) ws = true -> n <= blen b ->
  forall x, In x ws -> byte_hi (fst x) <= blen b.
Proof. intros H Hn x Hx. rewrite forallb_forall in H. specialize (H x Hx). apply N.leb_le in H. lia. Qed.

(** * byte-level copies *)
Lemma put_shape lo x (b : bytes) : put lo x b = firstn (N.to_nat lo) b ++ x ++ skipn (N.to_nat lo + length x) b.
Proof. reflexivity. Qed.
Lemma put_blen lo x b : lo + blen x <= blen b -> blen (put lo x b) = blen b.
Proof. intros H. unfold put, blen in *. rewrite !app_length, firstn_length, skipn_length. lia. Qed.
Lemma put_bytes_ok lo x b : bytes_ok x = true -> bytes_ok b = true -> bytes_ok (put lo x b) = true.
Proof.
  intros Hx Hb. unfold put. rewrite !bytes_ok_app, Hx, bytes_ok_firstn, bytes_ok_skipn by exact Hb. reflexivity.
Qed.
Lemma put_read_below lo x b r : byte_hi r <= lo -> lo <= blen b -> lane_read (put lo x b) r = lane_read b r.
Proof.
  intros H1 H2. apply lane_read_local_eq. unfold put.
  rewrite sub_below by (unfold blen in *; rewrite firstn_length; lia).
  unfold sub. rewrite skipn_firstn_comm, firstn_firstn. f_equal.
  assert (byte_lo r <= byte_hi r) by (unfold byte_lo, byte_hi, r_end, r_start; lia). lia.
Qed.
Lemma put_sub_exact lo x b : lo + blen x <= blen b -> sub (put lo x b) lo (lo + blen x) = x.
Proof.
  intros H. unfold put, sub, blen in *.
  rewrite skipn_app, firstn_length. rewrite skipn_all2 by (rewrite firstn_length; lia). cbn [app].
  replace (N.to_nat lo - Nat.min (N.to_nat lo) (length b))%nat with 0%nat by lia. cbn [skipn].
  rewrite firstn_app. replace (N.to_nat (lo + N.of_nat (length x) - lo) - length x)%nat with 0%nat by lia.
  cbn [firstn]. rewrite app_nil_r. apply firstn_all2. lia.
Qed.

(** * hop field *)
Definition hop_writes (h : hop_f) : list (rng * N) :=
  [(HopField_FLAGS_RNG, h_flags h); (HopField_EXP_TIME_RNG, h_exp h); (HopField_CONS_INGRESS_RNG, h_in h); (HopField_CONS_EGRESS_RNG, h_eg h)].
Lemma encode_hop_writes h buf : encode_hop h buf = put (byte_lo HopField_MAC_RNG) (h_mac h) (apply_writes (hop_writes h) buf).
Proof. reflexivity. Qed.

Lemma hop_roundtrip h buf : hop_wf h = true -> bytes_ok buf = true -> blen buf = HopField_SIZE_BYTES ->
  decode_hop (encode_hop h buf) = Ok h /\ bytes_ok (encode_hop h buf) = true /\ blen (encode_hop h buf) = blen buf.
Proof.
  intros W Hok Hlen. rewrite encode_hop_writes.
  unfold hop_wf in W.
  apply Bool.andb_true_iff in W. destruct W as [W Wok]. apply Bool.andb_true_iff in W. destruct W as [W W0].
  apply Bool.andb_true_iff in W. destruct W as [W W1]. apply Bool.andb_true_iff in W. destruct W as [W W2].
  apply Bool.andb_true_iff in W. destruct W as [W W3].
  apply N.ltb_lt in W, W3, W2, W1. apply N.eqb_eq in W0.
  assert (Hhi : forall x, In x (hop_writes h) -> byte_hi (fst x) <= blen buf).
  { apply (writes_hi_ok _ 12); [vm_compute; reflexivity|rewrite Hlen; closed_le]. }
  assert (Hd : pairwise_disjoint (map fst (hop_writes h)) = true) by (vm_compute; reflexivity).
  destruct (apply_writes_spec (hop_writes h) buf Hok Hhi Hd) as (Ok' & Len' & _ & _).
  set (b1 := apply_writes (hop_writes h) buf) in *.
  assert (Lp : blen (put (byte_lo HopField_MAC_RNG) (h_mac h) b1) = blen buf).
  { rewrite put_blen; [exact Len'|]. rewrite Len', Hlen, W0. closed_le. }
  refine (conj _ (conj _ Lp)); [|apply put_bytes_ok; assumption].
  unfold decode_hop, hf_flags, hf_exp_time, hf_cons_ingress, hf_cons_egress, hf_mac.
  assert (RF : forall r v bits, In (r, v) (hop_writes h) -> byte_hi r <= 6 -> size_bytes r <= LANE_BYTES -> v < 2 ^ r_width r -> r_width r <= bits ->
               rd (put (byte_lo HopField_MAC_RNG) (h_mac h) b1) r bits = Ok v).
  { intros r v bits Hin Hb6 Hs Hv Hbits.
    pose proof (read_field (hop_writes h) buf r v bits Hok Hhi Hd Hin Hs Hv Hbits) as R. fold b1 in R.
    unfold rd in *. rewrite Lp. rewrite Len' in R.
    rewrite put_read_below; [exact R|exact Hb6|rewrite Len', Hlen; closed_le]. }
  rewrite (RF HopField_FLAGS_RNG (h_flags h) 8) by (first [cbn [hop_writes In]; tauto | closed_le | assumption]). cbn [obind].
  rewrite (RF HopField_EXP_TIME_RNG (h_exp h) 8) by (first [cbn [hop_writes In]; tauto | closed_le | assumption]). cbn [obind].
  rewrite (RF HopField_CONS_INGRESS_RNG (h_in h) 16) by (first [cbn [hop_writes In]; tauto | closed_le | assumption]). cbn [obind].
  rewrite (RF HopField_CONS_EGRESS_RNG (h_eg h) 16) by (first [cbn [hop_writes In]; tauto | closed_le | assumption]). cbn [obind].
  unfold get_unchecked. rewrite Lp, Hlen.
  change ((byte_lo HopField_MAC_RNG <=? byte_hi HopField_MAC_RNG) && (byte_hi HopField_MAC_RNG <=? HopField_SIZE_BYTES)) with true.
  cbn [obind]. change (byte_hi HopField_MAC_RNG) with (byte_lo HopField_MAC_RNG + 6). rewrite <- W0.
  rewrite put_sub_exact by (rewrite Len', Hlen, W0; closed_le).
  destruct h; reflexivity.
Qed.

(** * common header *)
Definition common_writes (h : pkt_hdr) (units psize : N) : list (rng * N) :=
  [(CommonHeader_VERSION_RNG, 0); (CommonHeader_TRAFFIC_CLASS_RNG, h_tc h); (CommonHeader_FLOW_ID_RNG, h_flow h);
   (CommonHeader_NEXT_HEADER_RNG, h_nh h); (CommonHeader_HEADER_LEN_RNG, units); (CommonHeader_PAYLOAD_LEN_RNG, psize);
   (CommonHeader_PATH_TYPE_RNG, path_type_num (h_path h)); (CommonHeader_DST_ADDR_INFO_RNG, host_nibble (h_dst_host h));
   (CommonHeader_SRC_ADDR_INFO_RNG, host_nibble (h_src_host h)); (CommonHeader_RSV_RNG, 0)].
Lemma encode_common_writes h units psize buf : encode_common h units psize buf = apply_writes (common_writes h units psize) buf.
Proof. reflexivity. Qed.

Lemma common_header_roundtrip_lemma h units psize buf :
  bytes_ok buf = true -> CommonHeader_SIZE_BYTES <= blen buf ->
  h_tc h < 256 -> h_flow h < 2 ^ 20 -> h_nh h < 256 -> units < 256 -> psize < 65536 ->
  path_type_num (h_path h) < 256 -> host_nibble (h_dst_host h) < 16 -> host_nibble (h_src_host h) < 16 ->
  let b' := encode_common h units psize buf in
  bytes_ok b' = true /\ blen b' = blen buf
  /\ hv_version b' = Ok 0 /\ hv_traffic_class b' = Ok (h_tc h) /\ hv_flow_id b' = Ok (h_flow h)
  /\ hv_next_header b' = Ok (h_nh h) /\ hv_header_len b' = Ok (units * 4) /\ hv_payload_len b' = Ok psize
  /\ hv_path_type b' = Ok (path_type_num (h_path h))
  /\ hv_dst_addr_type b' = Ok (host_nibble (h_dst_host h)) /\ hv_src_addr_type b' = Ok (host_nibble (h_src_host h))
  /\ rd b' CommonHeader_RSV_RNG 16 = Ok 0
  /\ (forall r2, byte_hi r2 <= blen buf -> CommonHeader_SIZE_BYTES * 8 <= r_start r2 -> lane_read b' r2 = lane_read buf r2).
Proof.
  intros Hok Hlen Htc Hfl Hnh Hun Hps Hpt Hdn Hsn b'. unfold b'. rewrite encode_common_writes.
  set (ws := common_writes h units psize).
  assert (Hhi : forall x, In x ws -> byte_hi (fst x) <= blen buf).
  { apply (writes_hi_ok _ 12); [vm_compute; reflexivity|exact Hlen]. }
  assert (Hd : pairwise_disjoint (map fst ws) = true) by (vm_compute; reflexivity).
  destruct (apply_writes_spec ws buf Hok Hhi Hd) as (Ok' & Len' & _ & Fr).
  pose proof (fun r v bits => read_field ws buf r v bits Hok Hhi Hd) as RF.
  unfold hv_version, hv_traffic_class, hv_flow_id, hv_next_header, hv_header_len, hv_payload_len, hv_path_type,
    hv_dst_addr_type, hv_src_addr_type.
  refine (conj Ok' (conj Len' _)).
  repeat match goal with
  | |- _ /\ _ => split
  | |- rd _ ?r _ = Ok ?v => apply RF; [unfold ws, common_writes; cbn [In]; tauto|closed_le| |closed_le]
  end.
  all: try (vm_compute; reflexivity).
  all: try match goal with |- _ < 2 ^ r_width ?r => let x := eval vm_compute in (2 ^ r_width r) in change (2 ^ r_width r) with x; try assumption; try lia end.
  - rewrite (RF CommonHeader_HEADER_LEN_RNG units 8); [reflexivity|unfold ws, common_writes; cbn [In]; tauto|closed_le|change (2 ^ r_width CommonHeader_HEADER_LEN_RNG) with 256; exact Hun|closed_le].
  - intros r2 H2 Hs2. apply Fr; [exact H2|].
    apply forallb_forall. intros x Hx. unfold rng_disjoint. apply Bool.orb_true_iff. left. apply N.leb_le.
    assert (r_end (fst x) <= 96).
    { unfold ws, common_writes in Hx. cbn [In] in Hx.
      repeat (destruct Hx as [Hx|Hx]; [subst x; vm_compute; discriminate|]). destruct Hx. }
    unfold CommonHeader_SIZE_BYTES in Hs2. lia.
Qed.

(** * standard path meta header *)
Definition meta_writes (ci ch s0 s1 s2 : N) : list (rng * N) :=
  [(StdPathMeta_CURR_INFO_FIELD_RNG, ci); (StdPathMeta_CURR_HOP_FIELD_RNG, ch); (StdPathMeta_RSV_RNG, 0);
   (StdPathMeta_SEG0_LEN_RNG, s0); (StdPathMeta_SEG1_LEN_RNG, s1); (StdPathMeta_SEG2_LEN_RNG, s2)].

Lemma path_meta_roundtrip_lemma ci ch s0 s1 s2 buf :
  bytes_ok buf = true -> StdPathMeta_SIZE_BYTES <= blen buf ->
  ci < 4 -> ch < 64 -> s0 < 64 -> s1 < 64 -> s2 < 64 ->
  let b' := apply_writes (meta_writes ci ch s0 s1 s2) buf in
  bytes_ok b' = true /\ blen b' = blen buf
  /\ sp_curr_info b' = Ok ci /\ sp_curr_hop b' = Ok ch /\ sp_segs b' = Ok (s0, s1, s2)
  /\ rd b' StdPathMeta_RSV_RNG 8 = Ok 0
  /\ (forall r2, byte_hi r2 <= blen buf -> StdPathMeta_SIZE_BYTES * 8 <= r_start r2 -> lane_read b' r2 = lane_read buf r2).
Proof.
  intros Hok Hlen Hci Hch H0 H1 H2 b'. unfold b'. set (ws := meta_writes ci ch s0 s1 s2).
  assert (Hhi : forall x, In x ws -> byte_hi (fst x) <= blen buf).
  { apply (writes_hi_ok _ 4); [vm_compute; reflexivity|exact Hlen]. }
  assert (Hd : pairwise_disjoint (map fst ws) = true) by (vm_compute; reflexivity).
  destruct (apply_writes_spec ws buf Hok Hhi Hd) as (Ok' & Len' & _ & Fr).
  pose proof (fun r v bits => read_field ws buf r v bits Hok Hhi Hd) as RF.
  assert (R0 : sp_seg0 (apply_writes ws buf) = Ok s0).
  { apply RF; [unfold ws, meta_writes; cbn [In]; tauto|closed_le|change (2 ^ r_width StdPathMeta_SEG0_LEN_RNG) with 64; exact H0|closed_le]. }
  assert (R1 : sp_seg1 (apply_writes ws buf) = Ok s1).
  { apply RF; [unfold ws, meta_writes; cbn [In]; tauto|closed_le|change (2 ^ r_width StdPathMeta_SEG1_LEN_RNG) with 64; exact H1|closed_le]. }
  assert (R2 : sp_seg2 (apply_writes ws buf) = Ok s2).
  { apply RF; [unfold ws, meta_writes; cbn [In]; tauto|closed_le|change (2 ^ r_width StdPathMeta_SEG2_LEN_RNG) with 64; exact H2|closed_le]. }
  refine (conj Ok' (conj Len' (conj _ (conj _ (conj _ (conj _ _)))))).
  - apply RF; [unfold ws, meta_writes; cbn [In]; tauto|closed_le|change (2 ^ r_width StdPathMeta_CURR_INFO_FIELD_RNG) with 4; exact Hci|closed_le].
  - apply RF; [unfold ws, meta_writes; cbn [In]; tauto|closed_le|change (2 ^ r_width StdPathMeta_CURR_HOP_FIELD_RNG) with 64; exact Hch|closed_le].
  - unfold sp_segs. rewrite R0, R1, R2. reflexivity.
  - apply RF; [unfold ws, meta_writes; cbn [In]; tauto|closed_le|vm_compute; reflexivity|closed_le].
  - intros r2 Hr2 Hs2. apply Fr; [exact Hr2|].
    apply forallb_forall. intros x Hx. unfold rng_disjoint. apply Bool.orb_true_iff. left. apply N.leb_le.
    assert (r_end (fst x) <= 32).
    { unfold ws, meta_writes in Hx. cbn [In] in Hx.
      repeat (destruct Hx as [Hx|Hx]; [subst x; vm_compute; discriminate|]). destruct Hx. }
    unfold StdPathMeta_SIZE_BYTES in Hs2. lia.
Qed.

(** * UDP header and payload *)
Definition udp_writes (sp dp len : N) : list (rng * N) :=
  [(UdpDatagram_SRC_PORT_RNG, sp); (UdpDatagram_DST_PORT_RNG, dp); (UdpDatagram_LENGTH_RNG, len); (UdpDatagram_CHECKSUM_RNG, 0)].

(* the datagram before the checksum is filled in *)
Definition udp_body (sp dp : N) (d buf : bytes) : bytes :=
  put UdpDatagram_HEADER_SIZE_BYTES d (apply_writes (udp_writes sp dp (trunc 16 (UdpDatagram_HEADER_SIZE_BYTES + blen d))) buf).

Lemma encode_udp_shape h sp dp d hs alh al buf :
  encode_payload h (PL_Udp sp dp d) hs alh al buf =
  w UdpDatagram_CHECKSUM_RNG (l4_checksum h PROTO_UDP (sub (udp_body sp dp d buf) 0 (UdpDatagram_HEADER_SIZE_BYTES + blen d)) alh al)
    (udp_body sp dp d buf).
Proof. reflexivity. Qed.

Lemma udp_roundtrip_lemma h sp dp d hs alh al buf :
  bytes_ok buf = true -> bytes_ok d = true -> blen buf = UdpDatagram_HEADER_SIZE_BYTES + blen d ->
  sp < 65536 -> dp < 65536 -> UdpDatagram_HEADER_SIZE_BYTES + blen d <= 65535 ->
  let b' := encode_payload h (PL_Udp sp dp d) hs alh al buf in
  blen b' = blen buf /\ bytes_ok b' = true
  /\ required_size_udp b' = Ok (blen b')
  /\ udp_length b' = Ok (UdpDatagram_HEADER_SIZE_BYTES + blen d)
  /\ decode_udp b' = Ok (PL_Udp sp dp d).
Proof.
  intros Hok Hd Hlen Hsp Hdp Hsz b'. unfold b'. rewrite encode_udp_shape.
  set (n := UdpDatagram_HEADER_SIZE_BYTES + blen d) in *.
  assert (Hn8 : 8 <= n) by (unfold n, UdpDatagram_HEADER_SIZE_BYTES; lia).
  assert (Tn : trunc 16 n = n) by (apply trunc_id; change (2 ^ 16) with 65536; lia).
  unfold udp_body. fold n. rewrite Tn.
  set (ws := udp_writes sp dp n).
  assert (Hhi : forall x, In x ws -> byte_hi (fst x) <= blen buf).
  { apply (writes_hi_ok _ 8); [vm_compute; reflexivity|lia]. }
  assert (Hdj : pairwise_disjoint (map fst ws) = true) by (vm_compute; reflexivity).
  destruct (apply_writes_spec ws buf Hok Hhi Hdj) as (Ok1 & Len1 & _ & _).
  pose proof (fun r v bits => read_field ws buf r v bits Hok Hhi Hdj) as RF.
  set (b1 := apply_writes ws buf) in *.
  set (b2 := put UdpDatagram_HEADER_SIZE_BYTES d b1).
  assert (Len2 : blen b2 = blen buf) by (unfold b2; rewrite put_blen; [exact Len1|rewrite Len1, Hlen; unfold n; apply N.le_refl]).
  assert (Ok2 : bytes_ok b2 = true) by (apply put_bytes_ok; assumption).
  set (c := l4_checksum h PROTO_UDP (sub b2 0 n) alh al).
  assert (Hc8 : byte_hi UdpDatagram_CHECKSUM_RNG <= blen b2) by (rewrite Len2; change (byte_hi UdpDatagram_CHECKSUM_RNG) with 8; lia).
  destruct (lane_write_value b2 UdpDatagram_CHECKSUM_RNG c Ok2 Hc8) as (_ & _ & _ & _ & _ & Ok3 & Len3).
  unfold w. set (b3 := lane_write b2 UdpDatagram_CHECKSUM_RNG c) in *.
  (* header fields survive the payload copy and the checksum write *)
  assert (RF3 : forall r v, In (r, v) ws -> rng_disjoint UdpDatagram_CHECKSUM_RNG r = true -> v < 65536 -> r_width r = 16 -> byte_hi r <= 8 ->
                rd b3 r 16 = Ok v).
  { intros r v Hin Hdis Hv Hw Hb8.
    assert (Hs : size_bytes r <= LANE_BYTES).
    { unfold ws, udp_writes in Hin. cbn [In] in Hin. repeat (destruct Hin as [Hin|Hin]; [inversion Hin; subst; closed_le|]). destruct Hin. }
    pose proof (RF r v 16 Hin Hs ltac:(rewrite Hw; change (2 ^ 16) with 65536; exact Hv) ltac:(rewrite Hw; lia)) as R.
    unfold rd in *. rewrite Len3, Len2. rewrite Len1 in R.
    unfold b3. rewrite read_write_disjoint_lemma; [|exact Ok2|exact Hc8|rewrite Len2; lia|exact Hdis].
    unfold b2. rewrite put_read_below; [exact R|exact Hb8|rewrite Len1; unfold UdpDatagram_HEADER_SIZE_BYTES; lia]. }
  assert (Rsp : rd b3 UdpDatagram_SRC_PORT_RNG 16 = Ok sp).
  { apply RF3; [unfold ws, udp_writes; cbn [In]; tauto|vm_compute; reflexivity|exact Hsp|reflexivity|closed_le]. }
  assert (Rdp : rd b3 UdpDatagram_DST_PORT_RNG 16 = Ok dp).
  { apply RF3; [unfold ws, udp_writes; cbn [In]; tauto|vm_compute; reflexivity|exact Hdp|reflexivity|closed_le]. }
  assert (Rln : rd b3 UdpDatagram_LENGTH_RNG 16 = Ok n).
  { apply RF3; [unfold ws, udp_writes; cbn [In]; tauto|vm_compute; reflexivity|lia|reflexivity|closed_le]. }
  (* the payload bytes survive the checksum write *)
  assert (Pay : sub b3 UdpDatagram_HEADER_SIZE_BYTES (blen b3) = d).
  { destruct (lane_write_shape b2 UdpDatagram_CHECKSUM_RNG c Hc8) as (x & Lx & E). fold b3 in E.
    rewrite Len3, Len2, Hlen. rewrite E.
    change (N.to_nat (byte_lo UdpDatagram_CHECKSUM_RNG)) with 6%nat in *. change (N.to_nat (byte_hi UdpDatagram_CHECKSUM_RNG)) with 8%nat in *.
    change (N.to_nat (byte_hi UdpDatagram_CHECKSUM_RNG - byte_lo UdpDatagram_CHECKSUM_RNG)) with 2%nat in Lx.
    assert (L2n : 8 <= blen b2) by (rewrite Len2, Hlen; exact Hn8).
    assert (E6 : blen (firstn 6 b2) = 6) by (clear - L2n; unfold blen in *; rewrite firstn_length; lia).
    assert (E2 : blen x = 2) by (clear - Lx; unfold blen; lia).
    rewrite sub_above by (rewrite E6, E2; unfold UdpDatagram_HEADER_SIZE_BYTES; discriminate).
    rewrite E6, E2. change (UdpDatagram_HEADER_SIZE_BYTES - 6 - 2) with 0.
    replace (n - 6 - 2) with (blen d) by (unfold n, UdpDatagram_HEADER_SIZE_BYTES; lia).
    unfold sub. rewrite N.sub_0_r. cbn [N.to_nat skipn].
    change (skipn 8 b2) with (skipn (N.to_nat UdpDatagram_HEADER_SIZE_BYTES) b2).
    pose proof (put_sub_exact UdpDatagram_HEADER_SIZE_BYTES d b1 ltac:(rewrite Len1; lia)) as P. fold b2 in P.
    unfold sub in P. replace (UdpDatagram_HEADER_SIZE_BYTES + blen d - UdpDatagram_HEADER_SIZE_BYTES) with (blen d) in P by lia.
    exact P. }
  refine (conj _ (conj Ok3 (conj _ (conj Rln _)))).
  - congruence.
  - unfold required_size_udp. destruct (blen b3 <? UdpDatagram_HEADER_SIZE_BYTES) eqn:C; [apply N.ltb_lt in C; unfold UdpDatagram_HEADER_SIZE_BYTES in C; lia|].
    rewrite Rln. cbn [obind]. destruct (n <? UdpDatagram_HEADER_SIZE_BYTES) eqn:C2; [apply N.ltb_lt in C2; unfold UdpDatagram_HEADER_SIZE_BYTES in C2; lia|].
    f_equal. lia.
  - unfold decode_udp, udp_src_port, udp_dst_port, udp_payload_range. rewrite Rsp, Rdp. cbn [obind].
    unfold get_unchecked.
    destruct ((UdpDatagram_HEADER_SIZE_BYTES <=? blen b3) && (blen b3 <=? blen b3)) eqn:C.
    + cbn [obind fst snd]. rewrite Pay. reflexivity.
    + apply Bool.andb_false_iff in C. destruct C as [C|C]; apply N.leb_gt in C; unfold UdpDatagram_HEADER_SIZE_BYTES in C; lia.
Qed.

