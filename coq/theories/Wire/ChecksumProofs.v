(** The model of scion/checksum.rs (ChecksumDigest) computes the RFC 1071 checksum of
    pseudo header ++ message, for both memory alignments.  Arithmetic modulo 65535:
    2^16 = 1, so folding preserves the residue and a byte swap is a multiplication by 256. *)
From Coq Require Import Lia ZifyBool ZifyNat ZifyN.
From Sci Require Import Wire.Codec Wire.Spec_C03.
Local Open Scope N_scope.
Ltac Zify.zify_post_hook ::= Z.div_mod_to_equations.
Arguments N.add : simpl never. Arguments N.sub : simpl never. Arguments N.mul : simpl never.
Arguments N.div : simpl never. Arguments N.modulo : simpl never. Arguments N.pow : simpl never.
Arguments N.shiftr : simpl never. Arguments N.land : simpl never. Arguments N.ltb : simpl never.

Lemma list_ind2 {A} (P : list A -> Prop) :
  P [] -> (forall x, P [x]) -> (forall a b r, P r -> P (a :: b :: r)) -> forall l, P l.
Proof. intros H0 H1 H2. fix IH 1. intros [|a [|b r]]; [exact H0|apply H1|apply H2, IH]. Qed.

(** * sums of 16-bit words *)
Lemma words_sum_acc b : forall acc, words_sum b acc = acc + words_sum b 0.
Proof.
  induction b as [|x|a c r IH] using list_ind2; intros acc; cbn [words_sum]; try lia.
  rewrite IH, (IH (0 + a * 256 + c)). lia.
Qed.
Lemma le_words_sum_acc d : forall acc, le_words_sum d acc = acc + le_words_sum d 0.
Proof.
  induction d as [|x|a c r IH] using list_ind2; intros acc; cbn [le_words_sum]; try lia.
  rewrite IH, (IH (0 + (a + 256 * c))). lia.
Qed.

Lemma words_sum_app_even x : Nat.odd (length x) = false ->
  forall y acc, words_sum (x ++ y) acc = words_sum y (words_sum x acc).
Proof.
  induction x as [|a|a c r IH] using list_ind2; intros E y acc.
  - reflexivity.
  - discriminate E.
  - cbn [app words_sum]. apply IH. exact E.
Qed.

Lemma words_sum_app0 x y : Nat.odd (length x) = false -> words_sum (x ++ y) 0 = words_sum x 0 + words_sum y 0.
Proof. intros E. rewrite words_sum_app_even by exact E. apply words_sum_acc. Qed.

(* big-endian words vs the little-endian loads of the same even-length bytes *)
Lemma be_le_even t : Nat.odd (length t) = false ->
  (words_sum t 0) mod 65535 = (256 * le_words_sum t 0) mod 65535.
Proof.
  induction t as [|a|a c r IH] using list_ind2; intros E.
  - reflexivity.
  - discriminate E.
  - cbn [words_sum le_words_sum]. rewrite words_sum_acc, le_words_sum_acc. specialize (IH E). lia.
Qed.

(* ... shifted by one byte: exact *)
Lemma be_shift_even t : Nat.odd (length t) = false ->
  forall d0, words_sum (d0 :: t) 0 = d0 * 256 + le_words_sum t 0.
Proof.
  induction t as [|a|a c r IH] using list_ind2; intros E d0.
  - cbn [words_sum le_words_sum]. lia.
  - discriminate E.
  - change (words_sum (d0 :: a :: c :: r) 0) with (words_sum (c :: r) (0 + d0 * 256 + a)).
    change (le_words_sum (a :: c :: r) 0) with (le_words_sum r (0 + (a + 256 * c))).
    rewrite words_sum_acc, le_words_sum_acc, (IH E c). lia.
Qed.
Lemma be_shift_odd t x : Nat.odd (length t) = false ->
  forall d0, words_sum (d0 :: t ++ [x]) 0 = d0 * 256 + le_words_sum t 0 + x.
Proof.
  induction t as [|a|a c r IH] using list_ind2; intros E d0.
  - cbn [app words_sum le_words_sum]. lia.
  - discriminate E.
  - change (words_sum (d0 :: (a :: c :: r) ++ [x]) 0) with (words_sum (c :: r ++ [x]) (0 + d0 * 256 + a)).
    change (le_words_sum (a :: c :: r) 0) with (le_words_sum r (0 + (a + 256 * c))).
    rewrite words_sum_acc, le_words_sum_acc, (IH E c). lia.
Qed.

Lemma le_words_sum_bound d : bytes_ok d = true -> le_words_sum d 0 <= 65535 * (N.of_nat (length d) / 2).
Proof.
  induction d as [|x|a c r IH] using list_ind2; intros H.
  - cbn. lia.
  - cbn [le_words_sum]. lia.
  - cbn [bytes_ok forallb] in H. apply Bool.andb_true_iff in H. destruct H as [Ha H].
    apply Bool.andb_true_iff in H. destruct H as [Hc H]. unfold byte_ok in Ha, Hc.
    cbn [le_words_sum length]. rewrite le_words_sum_acc. specialize (IH H).
    rewrite !Nat2N.inj_succ. lia.
Qed.

Lemma words_sum_bound d : bytes_ok d = true -> words_sum d 0 <= 65535 * ((N.of_nat (length d) + 1) / 2).
Proof.
  induction d as [|x|a c r IH] using list_ind2; intros H.
  - cbn. lia.
  - cbn [bytes_ok forallb] in H. apply Bool.andb_true_iff in H. destruct H as [Hx _]. unfold byte_ok in Hx.
    cbn [words_sum length]. change (N.of_nat 1) with 1. lia.
  - cbn [bytes_ok forallb] in H. apply Bool.andb_true_iff in H. destruct H as [Ha H].
    apply Bool.andb_true_iff in H. destruct H as [Hc H]. unfold byte_ok in Ha, Hc.
    cbn [words_sum length]. rewrite words_sum_acc. specialize (IH H).
    rewrite !Nat2N.inj_succ. lia.
Qed.

Lemma odd_blen (l : bytes) : N.odd (blen l) = Nat.odd (length l).
Proof.
  unfold blen. induction l as [|x|a c r IH] using list_ind2; try reflexivity.
  cbn [length]. rewrite !Nat2N.inj_succ, N.odd_succ, N.even_succ. exact IH.
Qed.

Lemma removelast_last_odd (d : bytes) : Nat.odd (length d) = true ->
  d = removelast d ++ [last d 0] /\ Nat.odd (length (removelast d)) = false
  /\ N.of_nat (length d) = N.of_nat (length (removelast d)) + 1.
Proof.
  intros H. assert (d <> []) as Hne by (destruct d; [discriminate H|discriminate]).
  pose proof (app_removelast_last 0 Hne) as E. split; [exact E|].
  assert (L : length d = S (length (removelast d))).
  { rewrite E at 1. rewrite app_length. cbn. lia. }
  split; [|lia]. rewrite L, Nat.odd_succ in H. rewrite <- Nat.negb_even, H. reflexivity.
Qed.

Lemma bytes_ok_app' (x y : bytes) : bytes_ok (x ++ y) = bytes_ok x && bytes_ok y.
Proof. unfold bytes_ok. apply forallb_app. Qed.

(** * folding and swapping *)
Lemma fold1_arith c : fold1 c = c / 65536 + c mod 65536.
Proof.
  unfold fold1. rewrite N.shiftr_div_pow2. change 65535 with (N.ones 16). rewrite N.land_ones. reflexivity.
Qed.
Lemma fold_checksum_spec c : c < 4294967296 ->
  fold_checksum c <= 65535 /\ (fold_checksum c) mod 65535 = c mod 65535 /\ (0 < c -> 0 < fold_checksum c).
Proof.
  intros H. unfold fold_checksum. rewrite !fold1_arith. change (2 ^ 16) with 65536 in *.
  set (d := c / 65536 + c mod 65536). assert (d <= 131070) by (unfold d; lia).
  assert (d mod 65535 = c mod 65535) by (unfold d; lia).
  assert (0 < c -> 0 < d) by (unfold d; lia). lia.
Qed.
Lemma trunc16_small x : x <= 65535 -> trunc 16 x = x.
Proof. intros H. unfold trunc. change (2 ^ 16) with 65536. apply N.mod_small. lia. Qed.
Lemma trunc_small32 x : x < 4294967296 -> trunc 32 x = x.
Proof. intros H. unfold trunc. change (2 ^ 32) with 4294967296. apply N.mod_small. exact H. Qed.
Lemma swap16_spec x : x <= 65535 ->
  swap16 x <= 65535 /\ (swap16 x) mod 65535 = (256 * x) mod 65535 /\ swap16 (swap16 x) = x /\ (0 < x -> 0 < swap16 x).
Proof. intros H. unfold swap16. repeat split; lia. Qed.

(** * one slice *)
Lemma slice_sum_spec al data : bytes_ok data = true ->
  slice_sum al data <= 65535 * ((blen data + 1) / 2) /\
  (if al then (256 * slice_sum al data) mod 65535 else (slice_sum al data) mod 65535) = (words_sum data 0) mod 65535.
Proof.
  intros Hok. destruct data as [|d0 tl0]; [destruct al; cbn; split; try reflexivity; lia|].
  unfold slice_sum. destruct al.
  - (* aligned *)
    rewrite odd_blen. destruct (Nat.odd (length (d0 :: tl0))) eqn:O.
    + destruct (removelast_last_odd _ O) as (E & Ev & L).
      set (t := removelast (d0 :: tl0)) in *. set (x := last (d0 :: tl0) 0) in *.
      rewrite E in Hok. rewrite bytes_ok_app' in Hok. apply Bool.andb_true_iff in Hok. destruct Hok as [Ht Hx].
      cbn [bytes_ok forallb] in Hx. apply Bool.andb_true_iff in Hx. destruct Hx as [Hx _]. unfold byte_ok in Hx.
      pose proof (le_words_sum_bound t Ht) as B. rewrite le_words_sum_acc.
      split; [unfold blen; lia|].
      rewrite E. rewrite words_sum_app0 by exact Ev. cbn [words_sum].
      pose proof (be_le_even t Ev). lia.
    + pose proof (le_words_sum_bound _ Hok) as B. split; [unfold blen; lia|].
      symmetry. apply be_le_even. exact O.
  - (* unaligned: the first byte is the low half of a big-endian word *)
    cbn [bytes_ok forallb] in Hok. apply Bool.andb_true_iff in Hok. destruct Hok as [H0 Hok]. unfold byte_ok in H0.
    rewrite odd_blen. destruct (Nat.odd (length tl0)) eqn:O.
    + destruct (removelast_last_odd _ O) as (E & Ev & L).
      set (t := removelast tl0) in *. set (x := last tl0 0) in *.
      fold (bytes_ok tl0) in Hok.
      rewrite E in Hok. rewrite bytes_ok_app' in Hok. apply Bool.andb_true_iff in Hok. destruct Hok as [Ht Hx].
      cbn [bytes_ok forallb] in Hx. apply Bool.andb_true_iff in Hx. destruct Hx as [Hx _]. unfold byte_ok in Hx.
      pose proof (le_words_sum_bound t Ht) as B. rewrite le_words_sum_acc.
      split; [unfold blen; cbn [length]; rewrite Nat2N.inj_succ; lia|].
      rewrite E. rewrite (be_shift_odd t x Ev d0). f_equal; lia.
    + fold (bytes_ok tl0) in Hok. pose proof (le_words_sum_bound _ Hok) as B. rewrite le_words_sum_acc.
      split; [unfold blen; cbn [length]; rewrite Nat2N.inj_succ; lia|].
      rewrite (be_shift_even tl0 O d0). f_equal; lia.
Qed.

(** add_slice adds a 16-bit value congruent to the big-endian word sum of the slice, whatever
    the alignment; below 2^17 bytes its u32 accumulator cannot overflow *)
Lemma add_slice_spec al data acc : bytes_ok data = true -> blen data <= 131072 ->
  slice_sum al data < 4294967296 /\
  exists c, add_slice al data acc = acc + c /\ c <= 65535 /\ c mod 65535 = (words_sum data 0) mod 65535.
Proof.
  intros Hok Hlen. destruct (slice_sum_spec al data Hok) as [B Hc].
  assert (Hs : slice_sum al data < 4294967296) by lia. split; [exact Hs|].
  destruct data as [|d0 tl0]; [exists 0; cbn; repeat split; lia|].
  unfold add_slice.
  destruct (fold_checksum_spec _ Hs) as (F1 & F2 & _).
  rewrite (trunc16_small _ F1).
  set (f := fold_checksum (slice_sum al (d0 :: tl0))) in *.
  destruct al.
  - destruct (swap16_spec f F1) as (S1 & S2 & _ & _).
    exists (swap16 f). repeat split; [exact S1|]. lia.
  - destruct (swap16_spec f F1) as (S1 & _ & S3 & _). rewrite S3.
    exists f. repeat split; [exact F1|]. lia.
Qed.

(** * fixed-width big-endian integers *)
Lemma be_bytes_length' n v : length (be_bytes n v) = n.
Proof. revert v; induction n; intros v; cbn [be_bytes]; [reflexivity|]. rewrite app_length, IHn. cbn. lia. Qed.

Lemma words_sum_be_bytes2 n v : Nat.odd n = false ->
  words_sum (be_bytes (S (S n)) v) 0 = words_sum (be_bytes n (v / 65536)) 0 + v mod 65536.
Proof.
  intros E. cbn [be_bytes]. rewrite <- app_assoc. cbn [app].
  rewrite words_sum_app0 by (rewrite be_bytes_length'; exact E).
  rewrite N.div_div by discriminate. change (256 * 256) with 65536.
  cbn [words_sum]. lia.
Qed.

Lemma words_sum_be8 v : v < 2 ^ 64 -> words_sum (be_bytes 8 v) 0 = add_u64 v 0.
Proof.
  intros H. rewrite !words_sum_be_bytes2 by reflexivity. cbn [be_bytes words_sum].
  unfold add_u64. rewrite !N.shiftr_div_pow2. change 65535 with (N.ones 16). rewrite !N.land_ones.
  change (2 ^ 16) with 65536. change (2 ^ 32) with (65536 * 65536). change (2 ^ 48) with (65536 * 65536 * 65536).
  rewrite <- !N.div_div by discriminate. lia.
Qed.
Lemma words_sum_be4 v : v < 2 ^ 32 -> words_sum (be_bytes 4 v) 0 = add_u32 v 0.
Proof.
  intros H. rewrite !words_sum_be_bytes2 by reflexivity. cbn [be_bytes words_sum].
  unfold add_u32. rewrite !N.shiftr_div_pow2. change 65535 with (N.ones 16). rewrite !N.land_ones.
  change (2 ^ 16) with 65536. lia.
Qed.
Lemma add_u64_acc v acc : add_u64 v acc = acc + add_u64 v 0.
Proof. unfold add_u64. lia. Qed.
Lemma add_u32_acc v acc : add_u32 v acc = acc + add_u32 v 0.
Proof. unfold add_u32. lia. Qed.
Lemma add_u64_bound v : add_u64 v 0 <= 262140.
Proof.
  unfold add_u64. change 65535 with (N.ones 16). rewrite !N.land_ones. change (2 ^ 16) with 65536. lia.
Qed.
Lemma add_u32_bound v : add_u32 v 0 <= 131070.
Proof.
  unfold add_u32. change 65535 with (N.ones 16). rewrite !N.land_ones. change (2 ^ 16) with 65536. lia.
Qed.
Lemma add_u32_small v : v < 256 -> add_u32 v 0 = v.
Proof.
  intros H. unfold add_u32. rewrite N.shiftr_div_pow2. change 65535 with (N.ones 16). rewrite !N.land_ones.
  change (2 ^ 16) with 65536. lia.
Qed.

(** * host addresses *)
Lemma host_bytes_wire h : host_wf h = true -> host_bytes h = host_wire h.
Proof.
  destruct h as [b|b|s|id b]; cbn [host_wf host_bytes host_wire]; intros W; try reflexivity.
  apply N.ltb_lt in W. cbn [be_bytes app]. f_equal; lia.
Qed.
Lemma host_bytes_ok h : host_wf h = true -> bytes_ok (host_bytes h) = true /\ blen (host_bytes h) <= 16.
Proof.
  destruct h as [b|b|s|id b]; cbn [host_wf host_bytes]; intros W.
  - apply Bool.andb_true_iff in W. destruct W as [L O]. apply N.eqb_eq in L. split; [exact O|lia].
  - apply Bool.andb_true_iff in W. destruct W as [L O]. apply N.eqb_eq in L. split; [exact O|lia].
  - apply N.ltb_lt in W. split; [|cbn; lia]. cbn [be_bytes app bytes_ok forallb]. unfold byte_ok.
    repeat (apply Bool.andb_true_iff; split); try reflexivity; apply N.ltb_lt; lia.
  - apply Bool.andb_true_iff in W. destruct W as [W O]. apply Bool.andb_true_iff in W. destruct W as [_ L].
    apply N.leb_le in L. split; [exact O|exact L].
Qed.
Lemma host_bytes_even h : host_wf h = true -> host_wire_valid h = true -> Nat.odd (length (host_bytes h)) = false.
Proof.
  destruct h as [b|b|s|id b]; cbn [host_wf host_wire_valid host_bytes]; intros W V.
  - apply Bool.andb_true_iff in W. destruct W as [L _]. apply N.eqb_eq in L. unfold blen in L.
    replace (length b) with 4%nat by lia. reflexivity.
  - apply Bool.andb_true_iff in W. destruct W as [L _]. apply N.eqb_eq in L. unfold blen in L.
    replace (length b) with 16%nat by lia. reflexivity.
  - reflexivity.
  - apply Bool.andb_true_iff in V. destruct V as [V _]. apply Bool.andb_true_iff in V. destruct V as [_ V].
    apply N.eqb_eq in V. rewrite <- odd_blen. rewrite <- N.negb_even.
    replace (N.even (blen b)) with true; [reflexivity|]. symmetry. apply N.even_spec. exists (blen b / 2). lia.
Qed.

(** * the digest *)
Definition addr_ok (h : pkt_hdr) : Prop :=
  h_dst_ia h < 2 ^ 64 /\ h_src_ia h < 2 ^ 64 /\ host_wf (h_dst_host h) = true /\ host_wf (h_src_host h) = true
  /\ host_wire_valid (h_dst_host h) = true /\ host_wire_valid (h_src_host h) = true.

Lemma pseudo_digest_spec h proto msg alh al :
  addr_ok h -> 0 < proto < 256 -> bytes_ok msg = true -> blen msg <= 131072 ->
  let d := pseudo_digest h proto msg alh al in
  0 < d /\ d < 4294967296 /\ slice_sum al msg < 4294967296
  /\ d mod 65535 = (words_sum (pseudo_header h proto (blen msg) ++ msg) 0) mod 65535
  /\ 0 < words_sum (pseudo_header h proto (blen msg) ++ msg) 0
  /\ words_sum (pseudo_header h proto (blen msg) ++ msg) 0 < 2 ^ 40.
Proof.
  intros (Hd & Hs & Wd & Ws & Vd & Vs) Hp Hok Hlen d.
  destruct (host_bytes_ok _ Wd) as [Od Ld]. destruct (host_bytes_ok _ Ws) as [Os Ls].
  pose proof (host_bytes_even _ Wd Vd) as Ed. pose proof (host_bytes_even _ Ws Vs) as Es.
  unfold pseudo_header. rewrite <- (host_bytes_wire _ Wd), <- (host_bytes_wire _ Ws).
  (* the specification side: a sum of word sums *)
  assert (WS : words_sum (be_bytes 8 (h_dst_ia h) ++ be_bytes 8 (h_src_ia h) ++ host_bytes (h_dst_host h) ++ host_bytes (h_src_host h)
                          ++ be_bytes 4 (blen msg) ++ [0; 0; 0; proto] ++ msg) 0
               = add_u64 (h_dst_ia h) 0 + add_u64 (h_src_ia h) 0 + words_sum (host_bytes (h_dst_host h)) 0
                 + words_sum (host_bytes (h_src_host h)) 0 + add_u32 (blen msg) 0 + proto + words_sum msg 0).
  { rewrite words_sum_app0 by (rewrite be_bytes_length'; reflexivity).
    rewrite words_sum_app0 by (rewrite be_bytes_length'; reflexivity).
    rewrite words_sum_app0 by exact Ed. rewrite words_sum_app0 by exact Es.
    rewrite words_sum_app0 by (rewrite be_bytes_length'; reflexivity).
    rewrite (words_sum_app0 [0; 0; 0; proto]) by reflexivity.
    rewrite !words_sum_be8 by assumption. rewrite words_sum_be4 by (change (2 ^ 32) with 4294967296; lia).
    cbn [words_sum]. lia. }
  replace ((be_bytes 8 (h_dst_ia h) ++ be_bytes 8 (h_src_ia h) ++ host_bytes (h_dst_host h) ++ host_bytes (h_src_host h)
            ++ be_bytes 4 (blen msg) ++ [0; 0; 0; proto]) ++ msg)
    with (be_bytes 8 (h_dst_ia h) ++ be_bytes 8 (h_src_ia h) ++ host_bytes (h_dst_host h) ++ host_bytes (h_src_host h)
          ++ be_bytes 4 (blen msg) ++ [0; 0; 0; proto] ++ msg) by (rewrite <- !app_assoc; reflexivity).
  rewrite WS.
  (* the model side *)
  unfold d, pseudo_digest.
  destruct (add_slice_spec alh (host_bytes (h_dst_host h)) (add_u64 (h_src_ia h) (add_u64 (h_dst_ia h) 0)) Od ltac:(lia)) as (_ & c1 & E1 & B1 & C1).
  rewrite E1.
  destruct (add_slice_spec alh (host_bytes (h_src_host h)) (add_u64 (h_src_ia h) (add_u64 (h_dst_ia h) 0) + c1) Os ltac:(lia)) as (_ & c2 & E2 & B2 & C2).
  rewrite E2.
  rewrite (trunc_small32 (blen msg)) by lia.
  match goal with |- context [add_slice al msg ?a] => destruct (add_slice_spec al msg a Hok Hlen) as (S3 & c3 & E3 & B3 & C3) end.
  rewrite E3.
  rewrite (add_u32_acc proto), (add_u32_acc (blen msg)), (add_u64_acc (h_src_ia h)).
  rewrite (add_u32_small proto) by lia.
  pose proof (add_u64_bound (h_dst_ia h)). pose proof (add_u64_bound (h_src_ia h)). pose proof (add_u32_bound (blen msg)).
  pose proof (words_sum_bound _ Od) as Q1. pose proof (words_sum_bound _ Os) as Q2. pose proof (words_sum_bound _ Hok) as Q3.
  unfold blen in *. change (2 ^ 40) with 1099511627776.
  refine (conj _ (conj _ (conj S3 (conj _ (conj _ _))))); lia.
Qed.

(** * RFC 1071 side: end-around carry folding *)
Lemma fold_carry_lt fuel s : s < 65536 -> fold_carry fuel s = s.
Proof. intros H. destruct fuel; cbn [fold_carry]; [reflexivity|]. destruct (s <? 65536) eqn:E; [reflexivity|apply N.ltb_ge in E; lia]. Qed.

Lemma fold_carry_spec fuel : forall s, (fold_carry fuel s) mod 65535 = s mod 65535 /\ (0 < s -> 0 < fold_carry fuel s).
Proof.
  induction fuel as [|k IH]; intros s; cbn [fold_carry]; [split; [reflexivity|tauto]|].
  destruct (s <? 65536) eqn:E; [split; [reflexivity|tauto]|]. apply N.ltb_ge in E.
  destruct (IH (s / 65536 + s mod 65536)) as [I1 I2]. split; [lia|]. intros _. apply I2. lia.
Qed.

Lemma fold_carry_small j : forall fuel s, (j < fuel)%nat -> s <= 65535 + 65536 ^ N.of_nat j -> fold_carry fuel s <= 65535.
Proof.
  induction j as [|j IH]; intros fuel s Hf Hs; (destruct fuel as [|k]; [lia|]); cbn [fold_carry];
    destruct (s <? 65536) eqn:E; try (apply N.ltb_lt in E; lia); apply N.ltb_ge in E.
  - change (65536 ^ N.of_nat 0) with 1 in Hs. assert (s = 65536) by lia. subst s.
    rewrite fold_carry_lt by (vm_compute; reflexivity). vm_compute. discriminate.
  - apply IH; [lia|]. rewrite Nat2N.inj_succ, N.pow_succ_r' in Hs.
    set (P := 65536 ^ N.of_nat j) in *. lia.
Qed.

Lemma rfc1071_spec x : 0 < words_sum x 0 -> words_sum x 0 < 2 ^ 40 ->
  exists f, rfc1071 x = 65535 - f /\ 1 <= f <= 65535 /\ f mod 65535 = (words_sum x 0) mod 65535.
Proof.
  intros Hp Hb. unfold rfc1071. exists (fold_carry 16 (words_sum x 0)). split; [reflexivity|].
  destruct (fold_carry_spec 16 (words_sum x 0)) as [C P].
  pose proof (fold_carry_small 4 16 (words_sum x 0) ltac:(lia)) as S.
  change (65536 ^ N.of_nat 4) with 18446744073709551616 in S. change (2 ^ 40) with 1099511627776 in Hb.
  specialize (S ltac:(lia)). specialize (P Hp). split; [lia|exact C].
Qed.

(** * the model equals RFC 1071 *)
Lemma l4_checksum_is_rfc1071 h proto msg alh al :
  addr_ok h -> 0 < proto < 256 -> bytes_ok msg = true -> blen msg <= 131072 ->
  l4_checksum h proto msg alh al = rfc1071 (pseudo_header h proto (blen msg) ++ msg)
  /\ pseudo_digest h proto msg alh al < 2 ^ 32 /\ slice_sum al msg < 2 ^ 32.
Proof.
  intros Ha Hp Hok Hlen.
  destruct (pseudo_digest_spec h proto msg alh al Ha Hp Hok Hlen) as (D0 & D1 & D2 & D3 & W0 & W1).
  change (2 ^ 32) with 4294967296. refine (conj _ (conj D1 D2)).
  destruct (rfc1071_spec _ W0 W1) as (f & -> & Fb & Fc).
  unfold l4_checksum, checksum_of.
  destruct (fold_checksum_spec _ D1) as (F1 & F2 & F3). specialize (F3 D0).
  rewrite (trunc16_small _ F1). f_equal. lia.
Qed.

