(** C18 -- witnesses by computation.  The defect recorded under "fixed" in
    known_findings/C18.json: BEFORE the repair [AsEntry::associated_data] located the entry by
    value ([take_while (|e| e.entry != *self)]), so that with two equal entries in a segment
    the later copy was validated against the prefix ending before the first copy. *)
From Sci Require Import Signed.Model Signed.Spec Signed.Proofs Signed.Cases.
Local Open Scope N_scope.

(** entries are (value of the AsEntry, bytes it contributes); entry 2 occurs twice *)
Definition dup_entries : list (N * bytes) := [(1, [10; 11]); (2, [20; 21]); (2, [20; 21])].

(** by value, the third entry (a copy of the second) gets the associated data of the SECOND:
    info and entry 1 only -- not "info and all preceding entries" *)
Lemma assoc_dup_refuted :
  assoc_by_value N.eqb [9] dup_entries 2 = [9; 10; 11] /\
  [9] ++ flat_map snd (firstn 2 dup_entries) = [9; 10; 11; 20; 21] /\
  assoc_by_value N.eqb [9] dup_entries 2 <> [9] ++ flat_map snd (firstn 2 dup_entries).
Proof. vm_compute. repeat split; congruence. Qed.

(** the consequence, with the toy signature scheme of [Proofs.Toy]: a two-entry segment is
    signed honestly, a copy of entry 2 is appended; validated by VALUE (code before the repair)
    the appended copy is accepted, validated by POSITION (repaired code, the model) it is
    rejected because the declared associated-data length does not match. *)
Definition t_key_of (kid : bytes) : option N := match kid with [k] => Some k | _ => None end.
Definition t_seg0 : segment := mkSeg (mkSI 5 7 [8; 5; 16; 7]) [].
Definition t_entry (ia : N) : asentry := mkAE ia (ia + 1) 1500 (mkHE 1400 (mkHF 63 1 2 [1;2;3;4;5;6])) [] [] [].
Definition t_add (sg : segment) (ia : N) : segment :=
  add_entry Toy.hash Toy.sig_sign Toy.enc_hb Toy.enc_hdr (fun _ => [ia]) sg (t_entry ia) ia [ia] 0.
Definition t_seg2 : segment := t_add (t_add t_seg0 1) 2.
Definition t_seg3 : segment := mkSeg (sg_info t_seg2) (sg_entries t_seg2 ++ [nth 1 (sg_entries t_seg2) (mkSE (t_entry 0) (mkSigned [] []))]).

Definition t_validate_at (sg : segment) (assoc : bytes) (e : sentry) : N :=
  verr_code (sm_validate Toy.hash Toy.sig_parse Toy.sig_verify Toy.dec_hb Toy.dec_hdr t_key_of
                         (se_signed e) (N.of_nat (length assoc)) assoc).
(** the by-value prefix over this segment: entries compared by their AsEntry *)
Definition t_assoc_by_value (sg : segment) (e : sentry) : bytes :=
  assoc_by_value asentry_eqb (si_enc (sg_info sg))
                 (map (fun x => (se_entry x, entry_chunk x)) (sg_entries sg)) (se_entry e).

Lemma dup_extension_accepted_before_repair :
  map (fun e => t_validate_at t_seg3 (t_assoc_by_value t_seg3 e) e) (sg_entries t_seg3) = [0; 0; 0].
Proof. vm_compute. reflexivity. Qed.

Lemma dup_extension_rejected_after_repair :
  map (fun '(i, e) => t_validate_at t_seg3 (assoc_at t_seg3 i) e)
      (combine (seq 0 3) (sg_entries t_seg3)) = [0; 0; 4].
Proof. vm_compute. reflexivity. Qed.

(** the premise [alen < 2^31] of [sign_validates] is necessary: the length is stored [as i32] *)
Lemma assoc_length_truncated : usize_of_i32 (i32_of_usize (2 ^ 31)) <> 2 ^ 31.
Proof. vm_compute. congruence. Qed.

(** values that have no RPC form (premises of the path round trip are necessary):
    [LinkType::Unknown(1)] is written as 1 and read back as [Direct]; a bandwidth of
    [Some 0] is read back as [None] *)
Lemma linktype_unknown_small_not_representable :
  linktype_of_i32 (linktype_to_i32 (LtUnknown 1)) = LtDirect.
Proof. reflexivity. Qed.
(** and [from_i32] truncates: 257 becomes [Unknown(1)] *)
Lemma linktype_truncates : linktype_of_i32 257 = LtUnknown 1.
Proof. reflexivity. Qed.
(** a negative expiration second count wraps to a huge u64 ([as u64]) *)
Lemma negative_expiration_wraps : u64_of_i64 (-1) = 18446744073709551615.
Proof. reflexivity. Qed.

(** KNOWN FINDING C18-unsupported-extensions: the raw extension bytes of an [AsEntry] are neither
    signed nor carried by the RPC form, a value holding some does not come back (the premise
    [asentry_wf] of the segment round trip is necessary) *)
Definition t_ext_seg : segment :=
  add_entry Toy.hash Toy.sig_sign Toy.enc_hb Toy.enc_hdr Toy.enc_body
            (mkSeg (seginfo_new Toy.enc_info 100 7) [])
            (mkAE 1 2 1500 (mkHE 1400 (mkHF 63 1 2 [1;2;3;4;5;6])) [] [42] []) 1 [1] 0.
Lemma extensions_not_roundtripped :
  seg_has_extensions t_ext_seg = true /\
  segment_from_rpc Toy.dec_hb Toy.dec_body Toy.enc_info Toy.dec_info (segment_to_rpc Toy.enc_info t_ext_seg)
  <> Ok t_ext_seg.
Proof. split; [reflexivity|]. vm_compute. congruence. Qed.
