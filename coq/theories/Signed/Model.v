(** C18 -- executable model (definitions only) of
      crates/libs/sciparse/src/scion/signed_message.rs   SignedMessage::{sign,validate}
      crates/libs/sciparse/src/scion/segment.rs          AsEntry::{associated_data,associated_data_at,signature},
                                                         SignedAsEntry::validate_signature, add_entry_no_mac_update
      crates/libs/sciparse/src/scion/segment/rpc.rs      try_from_rpc / into_rpc of hop fields, entries, segments
      crates/libs/sciparse/src/scion/path.rs             ScionPath::{try_from_rpc,to_rpc}
      crates/libs/sciparse/src/scion/path/metadata.rs    LinkType, GeoCoordinates, PathInterface conversions
    Statement by statement, same order of checks, same error per check.  Everything Rust can do
    that a total function cannot is explicit: [Panic] for slicing / expect, [mod 2^k] where an
    [as] cast wraps.  ECDSA, the digests, the DER parser and the prost encoders/decoders are
    [Section] variables (oracles); the correspondence check instantiates them from what the real
    crates compute. *)
From Sci Require Export Common.Outcome Common.ListAux.
From Sci Require Import Gen.SignedConfig.
Local Open Scope N_scope.

Definition bytes := list N.

(** * casts *)
Definition U8_MAX : N := 255.
Definition U16_MAX : N := 65535.
Definition U32_MAX : N := 4294967295.
Definition I64_MAX : N := 9223372036854775807.
(** [x as usize] for an [i32] (sign extension to 64 bits) *)
Definition usize_of_i32 (z : Z) : N := Z.to_N (z mod 2 ^ 64).
(** [x as i32] for a [usize] (keeps the low 32 bits, two's complement) *)
Definition i32_of_usize (n : N) : Z :=
  let m := (Z.of_N n mod 2 ^ 32)%Z in if (m <? 2 ^ 31)%Z then m else (m - 2 ^ 32)%Z.
(** [x as u64] for an [i64] *)
Definition u64_of_i64 (z : Z) : N := Z.to_N (z mod 2 ^ 64).
(** [x as u8] for an [i32] *)
Definition u8_of_i32 (z : Z) : N := Z.to_N (z mod 256).

(** * Signed messages *)
Record header := mkHeader {
  h_alg : Z;          (* signature_algorithm : i32 *)
  h_kid : bytes;      (* verification_key_id *)
  h_ts : Z;           (* timestamp seconds *)
  h_meta : bytes;     (* metadata *)
  h_alen : Z }.       (* associated_data_length : i32 *)
Record signed := mkSigned { s_hb : bytes; s_sig : bytes }.

Inductive verr :=
| VInvalidHeaderAndBody | VInvalidHeader | VKeyMissing
| VAssocLen (expected actual : N) | VDigestAlg | VSigMalformed | VSigVerify.

(** digest algorithm number (1 = SHA-256, 2 = SHA-384, 3 = SHA-512) of a header's algorithm id *)
Definition digest_alg (a : Z) : option N :=
  if (a =? SIGALG_SHA256)%Z then Some 1
  else if (a =? SIGALG_SHA384)%Z then Some 2
  else if (a =? SIGALG_SHA512)%Z then Some 3
  else None.
Definition sigalg_of_digest (d : N) : Z :=
  if d =? 1 then SIGALG_SHA256 else if d =? 2 then SIGALG_SHA384 else SIGALG_SHA512.

Section Signed.
Context {K PK SIG : Type}.
Variable hash : N -> bytes -> bytes.          (* digest (by algorithm number) of all chunks in order *)
Variable sig_sign : K -> bytes -> bytes.       (* DER of sign_prehash *)
Variable sig_parse : bytes -> option SIG.      (* Signature::from_der *)
Variable sig_verify : PK -> bytes -> SIG -> bool.  (* verify_prehash *)
Variable enc_hb : bytes -> bytes -> bytes.     (* HeaderAndBodyInternal { header, body } *)
Variable dec_hb : bytes -> option (bytes * bytes).
Variable enc_hdr : header -> bytes.
Variable dec_hdr : bytes -> option header.

(** SignedMessage::sign.  [assoc] is the concatenation of the associated-data chunks, the
    length passed along with them is their total length in every caller. *)
Definition sm_sign (key : K) (dalg : N) (ts : N) (kid : bytes) (alen : N) (assoc : bytes)
    (body meta : bytes) : signed :=
  let hdr := mkHeader (sigalg_of_digest dalg) kid (Z.of_N ts) meta (i32_of_usize alen) in
  let hb := enc_hb (enc_hdr hdr) body in
  mkSigned hb (sig_sign key (hash dalg (hb ++ assoc))).

(** SignedMessage::validate *)
Definition sm_validate (key_of : bytes -> option PK) (m : signed) (alen : N) (assoc : bytes)
    : outcome (header * bytes) verr :=
  match dec_hb (s_hb m) with
  | None => Err VInvalidHeaderAndBody
  | Some (hbytes, body) =>
  match dec_hdr hbytes with
  | None => Err VInvalidHeader
  | Some hdr =>
  match key_of (h_kid hdr) with
  | None => Err VKeyMissing
  | Some vk =>
  if negb (usize_of_i32 (h_alen hdr) =? alen)
  then Err (VAssocLen (usize_of_i32 (h_alen hdr)) alen) else
  match digest_alg (h_alg hdr) with
  | None => Err VDigestAlg
  | Some a =>
  let d := hash a (s_hb m ++ assoc) in
  match sig_parse (s_sig m) with
  | None => Err VSigMalformed
  | Some sg => if sig_verify vk d sg then Ok (hdr, body) else Err VSigVerify
  end end end end end.
End Signed.

(** * Path segments *)
Record hopfield := mkHF { hf_exp : N; hf_in : N; hf_eg : N; hf_mac : bytes }.
Record hopentry := mkHE { he_mtu : N; he_hf : hopfield }.
Record peerentry := mkPE { pe_ia : N; pe_if : N; pe_mtu : N; pe_hf : hopfield }.
Record asentry := mkAE {
  ae_local : N; ae_next : N; ae_mtu : N; ae_hop : hopentry; ae_peers : list peerentry;
  ae_ext : bytes; ae_uext : bytes }.
Record sentry := mkSE { se_entry : asentry; se_signed : signed }.
Record seginfo := mkSI { si_ts : N; si_id : N; si_enc : bytes }.
Record segment := mkSeg { sg_info : seginfo; sg_entries : list sentry }.

(** what one signed entry contributes to the associated data of its successors *)
Definition entry_chunk (e : sentry) : bytes := s_hb (se_signed e) ++ s_sig (se_signed e).

(** AsEntry::associated_data_at: segment info, then the first [pos] entries *)
Definition assoc_at (sg : segment) (pos : nat) : bytes :=
  si_enc (sg_info sg) ++ flat_map entry_chunk (firstn pos (sg_entries sg)).

(** AsEntry::associated_data AS IT WAS BEFORE THE REPAIR (kept for the witness in [Findings]):
    [take_while (|e| e.entry != *self)] -- the prefix ends at the first entry EQUAL to the
    entry being validated. *)
Fixpoint take_while {A} (p : A -> bool) (l : list A) : list A :=
  match l with [] => [] | a :: r => if p a then a :: take_while p r else [] end.
Definition assoc_by_value {E} (eqb : E -> E -> bool) (info : bytes) (entries : list (E * bytes))
    (self : E) : bytes :=
  info ++ flat_map snd (take_while (fun e => negb (eqb (fst e) self)) entries).

(** * RPC (protobuf) messages, as decoded by prost *)
Record rhopfield := mkRHF { rhf_in : N; rhf_eg : N; rhf_exp : N; rhf_mac : bytes }.
Record rhopentry := mkRHE { rhe_hf : option rhopfield; rhe_mtu : N }.
Record rpeer := mkRPE { rpe_ia : N; rpe_if : N; rpe_mtu : N; rpe_hf : option rhopfield }.
Record rbody := mkRB {
  rb_ia : N; rb_next : N; rb_hop : option rhopentry; rb_peers : list rpeer; rb_mtu : N }.
Record rasentry := mkRAE { rae_signed : option signed }.
Record rsegment := mkRSeg { rs_info : bytes; rs_entries : list rasentry }.

Inductive rerr :=
| RMacLen | RExpTime | RIngress | REgress | RIngressMtu | RMissingHopField
| RPeerIf | RPeerMtu | RMissingPeerHop | RTimestamp | RSegId
| RMissingSigned | RDecodeHB | RDecodeBody | RMissingHopEntry | RDecodeInfo.

(** [&v[..n]]: panics when the vector is shorter *)
Definition slice_to {E} (v : bytes) (n : N) (site : N) : outcome bytes E :=
  if N.of_nat (length v) <? n then Panic site else Ok (firstn (N.to_nat n) v).

(** SegmentHopField::try_from_rpc *)
Definition hopfield_from_rpc (h : rhopfield) : outcome hopfield rerr :=
  if negb (N.of_nat (length (rhf_mac h)) =? HOPFIELD_MAC_LEN) then Err RMacLen else
  if U8_MAX <? rhf_exp h then Err RExpTime else
  if U16_MAX <? rhf_in h then Err RIngress else
  if U16_MAX <? rhf_eg h then Err REgress else
  mac <- slice_to (rhf_mac h) 6 1 ;;   (* hop_field.mac[..6].try_into().expect(..) *)
  Ok (mkHF (rhf_exp h) (rhf_in h) (rhf_eg h) mac).
Definition hopfield_to_rpc (h : hopfield) : rhopfield :=
  mkRHF (hf_in h) (hf_eg h) (hf_exp h) (hf_mac h).

(** HopEntry::try_from_rpc *)
Definition hopentry_from_rpc (e : rhopentry) : outcome hopentry rerr :=
  if U16_MAX <? rhe_mtu e then Err RIngressMtu else
  match rhe_hf e with
  | None => Err RMissingHopField
  | Some h => hf <- hopfield_from_rpc h ;; Ok (mkHE (rhe_mtu e) hf)
  end.
Definition hopentry_to_rpc (e : hopentry) : rhopentry :=
  mkRHE (Some (hopfield_to_rpc (he_hf e))) (he_mtu e).

(** PeerEntry::try_from_rpc *)
Definition peer_from_rpc (p : rpeer) : outcome peerentry rerr :=
  if U16_MAX <? rpe_if p then Err RPeerIf else
  if U16_MAX <? rpe_mtu p then Err RPeerMtu else
  match rpe_hf p with
  | None => Err RMissingPeerHop
  | Some h => hf <- hopfield_from_rpc h ;; Ok (mkPE (rpe_ia p) (rpe_if p) (rpe_mtu p) hf)
  end.
Definition peer_to_rpc (p : peerentry) : rpeer :=
  mkRPE (pe_ia p) (pe_if p) (pe_mtu p) (Some (hopfield_to_rpc (pe_hf p))).

(** [iter.map(f).collect::<Result<Vec<_>,_>>()]: first error wins *)
Fixpoint collect {A B E} (f : A -> outcome B E) (l : list A) : outcome (list B) E :=
  match l with
  | [] => Ok []
  | a :: r => b <- f a ;; bs <- collect f r ;; Ok (b :: bs)
  end.

(** the body that AsEntry::signature signs (extensions are not supported: None) *)
Definition body_of_entry (e : asentry) : rbody :=
  mkRB (ae_local e) (ae_next e) (Some (hopentry_to_rpc (ae_hop e)))
       (map peer_to_rpc (ae_peers e)) (ae_mtu e).

(** the entry that SignedAsEntry::try_from_rpc builds from a decoded body *)
Definition entry_of_body (b : rbody) : outcome asentry rerr :=
  match rb_hop b with
  | None => Err RMissingHopEntry
  | Some he =>
    hop <- hopentry_from_rpc he ;;
    peers <- collect peer_from_rpc (rb_peers b) ;;
    Ok (mkAE (rb_ia b) (rb_next b) (rb_mtu b) hop peers [] [])
  end.

Section SegmentCodec.
Context {K PK SIG : Type}.
Variable hash : N -> bytes -> bytes.
Variable sig_sign : K -> bytes -> bytes.
Variable sig_parse : bytes -> option SIG.
Variable sig_verify : PK -> bytes -> SIG -> bool.
Variable enc_hb : bytes -> bytes -> bytes.
Variable dec_hb : bytes -> option (bytes * bytes).
Variable enc_hdr : header -> bytes.
Variable dec_hdr : bytes -> option header.
Variable enc_body : rbody -> bytes.            (* AsEntrySignedBody *)
Variable dec_body : bytes -> option rbody.
Variable enc_info : Z -> N -> bytes.           (* SegmentInformation { timestamp : i64, segment_id : u32 } *)
Variable dec_info : bytes -> option (Z * N).

(** SegmentInfo::new *)
Definition seginfo_new (ts id : N) : seginfo := mkSI ts id (enc_info (Z.of_N ts) id).

(** AsEntry::signature: SHA-256, associated data = info and ALL entries already in the
    segment (the entry being signed is not part of it yet), metadata = encoding of [()] *)
Definition entry_signature (key : K) (kid : bytes) (ts : N) (e : asentry) (sg : segment) : signed :=
  let assoc := assoc_at sg (length (sg_entries sg)) in
  sm_sign hash sig_sign enc_hb enc_hdr key 1 ts kid (N.of_nat (length assoc)) assoc
          (enc_body (body_of_entry e)) [].

(** SignedPathSegment::add_entry_no_mac_update *)
Definition add_entry (sg : segment) (e : asentry) (key : K) (kid : bytes) (ts : N) : segment :=
  mkSeg (sg_info sg) (sg_entries sg ++ [mkSE e (entry_signature key kid ts e sg)]).

(** SignedAsEntry::validate_signature for the entry object stored at index [pos] of the
    segment ([pos] = number of entries for an entry that is not part of it) *)
Definition validate_signature (key_of : bytes -> option PK) (sg : segment) (pos : nat) (e : sentry)
    : outcome unit verr :=
  let assoc := assoc_at sg pos in
  _ <- sm_validate hash sig_parse sig_verify dec_hb dec_hdr key_of (se_signed e)
                   (N.of_nat (length assoc)) assoc ;;
  Ok tt.

(** SignedAsEntry::try_from_rpc *)
Definition sentry_from_rpc (r : rasentry) : outcome sentry rerr :=
  match rae_signed r with
  | None => Err RMissingSigned
  | Some sm =>
    match dec_hb (s_hb sm) with
    | None => Err RDecodeHB
    | Some (_, body) =>
      match dec_body body with
      | None => Err RDecodeBody
      | Some b => e <- entry_of_body b ;; Ok (mkSE e sm)
      end
    end
  end.
Definition sentry_to_rpc (e : sentry) : rasentry := mkRAE (Some (se_signed e)).

(** SegmentInfo::try_from_rpc *)
Definition seginfo_from_rpc (ts : Z) (id : N) : outcome seginfo rerr :=
  if ((ts <? 0) || (Z.of_N U32_MAX <? ts))%Z then Err RTimestamp else
  if U16_MAX <? id then Err RSegId else
  Ok (seginfo_new (Z.to_N ts) id).

(** SignedPathSegment::try_from_rpc *)
Definition segment_from_rpc (r : rsegment) : outcome segment rerr :=
  match dec_info (rs_info r) with
  | None => Err RDecodeInfo
  | Some (ts, id) =>
    info <- seginfo_from_rpc ts id ;;
    es <- collect sentry_from_rpc (rs_entries r) ;;
    Ok (mkSeg info es)
  end.
(** SignedPathSegment::into_rpc (the info is re-encoded from timestamp and id) *)
Definition segment_to_rpc (sg : segment) : rsegment :=
  mkRSeg (enc_info (Z.of_N (si_ts (sg_info sg))) (si_id (sg_info sg)))
         (map sentry_to_rpc (sg_entries sg)).
End SegmentCodec.

(** * Daemon paths *)
Inductive linktype := LtUnset | LtDirect | LtMultiHop | LtOpenNet | LtUnknown (v : N).
Inductive linkmeta := LIngress (c : N) | LEgress (t : linktype).
Record geo := mkGeo { g_lat : N; g_lon : N; g_addr : option bytes }.   (* f32 bit patterns *)
Record ifmeta := mkIf {
  im_ia : N; im_id : N; im_geo : option geo; im_lat : option (N * N); im_bw : option N;
  im_link : option linkmeta }.
Record pmeta := mkPM {
  pm_exp : N; pm_mtu : N; pm_ifs : option (list ifmeta); pm_epic : option (bytes * bytes);
  pm_notes : option (list bytes) }.
Record spath {SA : Type} := mkPath {
  sp_src : N; sp_dst : N; sp_raw : bytes; sp_meta : option pmeta; sp_hop : option SA }.
Arguments spath : clear implicits.
Arguments mkPath {SA}.

Record rpath := mkRP {
  rp_raw : bytes;
  rp_iface : option (option bytes);        (* Interface { address : Option<Underlay { address }> } *)
  rp_ifs : list (N * N);                   (* PathInterface { isd_as, id } *)
  rp_mtu : N;
  rp_exp : option (Z * Z);                 (* Timestamp { seconds, nanos } *)
  rp_lat : list (Z * Z);                   (* Duration { seconds, nanos } *)
  rp_bw : list N;
  rp_geo : list (N * N * bytes);           (* latitude bits, longitude bits, address *)
  rp_lt : list Z;
  rp_ih : list N;
  rp_notes : list bytes;
  rp_epic : option (bytes * bytes) }.

Inductive perr :=
| PEmptyWildcard | PEmptyPath | PStdParse | PExtraData | PNextHop | PIfCount | PIfId
| PMissingExp | PMtu.

(** LinkType::from_i32 / to_i32 *)
Definition linktype_of_i32 (z : Z) : linktype :=
  if (z =? LT_UNSET)%Z then LtUnset else if (z =? LT_DIRECT)%Z then LtDirect
  else if (z =? LT_MULTIHOP)%Z then LtMultiHop else if (z =? LT_OPENNET)%Z then LtOpenNet
  else LtUnknown (u8_of_i32 z).
Definition linktype_to_i32 (t : linktype) : Z :=
  match t with
  | LtUnset => LT_UNSET | LtDirect => LT_DIRECT | LtMultiHop => LT_MULTIHOP
  | LtOpenNet => LT_OPENNET | LtUnknown v => Z.of_N v
  end.

(** [x == 0.0] on an f32 given by its bits: +0.0 and -0.0 *)
Definition f32_is_zero (b : N) : bool := (b =? 0) || (b =? 2147483648).
Definition is_nil {A} (l : list A) : bool := match l with [] => true | _ => false end.

(** GeoCoordinates::try_from_rpc / to_rpc *)
Definition geo_from_rpc (g : N * N * bytes) : option geo :=
  let '(la, lo, ad) := g in
  if f32_is_zero la && f32_is_zero lo && is_nil ad then None
  else Some (mkGeo la lo (if is_nil ad then None else Some ad)).
Definition geo_to_rpc (g : geo) : N * N * bytes :=
  (g_lat g, g_lon g, match g_addr g with Some a => a | None => [] end).

(** std::time::Duration::try_from(prost_types::Duration) behind the [seconds < 0] guard of
    try_from_rpc: normalisation as in prost-types (i64 checked arithmetic), then the sign test *)
Definition NANOS_PER_SECOND : Z := 1000000000.
Definition latency_from_rpc (d : Z * Z) : option (N * N) :=
  let '(s, n) := d in
  if (s <? 0)%Z then None else
  let '(s1, n1) :=
    if ((n <=? - NANOS_PER_SECOND) || (NANOS_PER_SECOND <=? n))%Z then
      let s' := (s + Z.quot n NANOS_PER_SECOND)%Z in
      if (Z.of_N I64_MAX <? s')%Z then (Z.of_N I64_MAX, 999999999%Z)
      else (s', Z.rem n NANOS_PER_SECOND)
    else (s, n) in
  let '(s2, n2) :=
    if ((0 <? s1) && (n1 <? 0))%Z then ((s1 - 1)%Z, (n1 + NANOS_PER_SECOND)%Z) else (s1, n1) in
  if ((0 <=? s2) && (0 <=? n2))%Z then Some (Z.to_N s2, Z.to_N n2) else None.
Definition latency_to_rpc (l : option (N * N)) : Z * Z :=
  match l with
  | Some (s, n) => (Z.of_N (if I64_MAX <? s then I64_MAX else s), Z.of_N n)
  | None => ((-1)%Z, 0%Z)
  end.

(** [for (meta, v) in metas.iter_mut().zip(values)]: the first min(len) elements are updated *)
Fixpoint zip_set {A B} (f : A -> B -> A) (l : list A) (vs : list B) : list A :=
  match l, vs with
  | a :: r, v :: vs' => f a v :: zip_set f r vs'
  | _, _ => l
  end.
(** the same over [iter_mut().step_by(2)] and [iter_mut().skip(1).step_by(2)] *)
Fixpoint set_even {A B} (f : A -> B -> A) (l : list A) (vs : list B) : list A :=
  match l, vs with
  | a :: r, v :: vs' =>
    f a v :: match r with b :: r' => b :: set_even f r' vs' | [] => [] end
  | _, _ => l
  end.
Definition set_odd {A B} (f : A -> B -> A) (l : list A) (vs : list B) : list A :=
  match l with a :: r => a :: set_even f r vs | [] => [] end.
(** elements at the even / odd indices *)
Fixpoint evens {A} (l : list A) : list A :=
  match l with a :: r => a :: match r with _ :: r' => evens r' | [] => [] end | [] => [] end.
Definition odds {A} (l : list A) : list A := match l with _ :: r => evens r | [] => [] end.
(** [iter.map(f).collect::<Option<Vec<_>>>()] *)
Fixpoint collect_opt {A B} (f : A -> option B) (l : list A) : option (list B) :=
  match l with
  | [] => Some []
  | a :: r => match f a, collect_opt f r with Some b, Some bs => Some (b :: bs) | _, _ => None end
  end.

Definition ia_is_wildcard (ia : N) : bool := (ia / 2 ^ 48 =? 0) || (ia mod 2 ^ 48 =? 0).

Definition set_lat (m : ifmeta) (d : Z * Z) : ifmeta :=
  mkIf (im_ia m) (im_id m) (im_geo m) (latency_from_rpc d) (im_bw m) (im_link m).
Definition set_bw (m : ifmeta) (b : N) : ifmeta :=
  mkIf (im_ia m) (im_id m) (im_geo m) (im_lat m) (if 0 <? b then Some b else None) (im_link m).
Definition set_geo (m : ifmeta) (g : N * N * bytes) : ifmeta :=
  mkIf (im_ia m) (im_id m) (geo_from_rpc g) (im_lat m) (im_bw m) (im_link m).
Definition set_egress (m : ifmeta) (t : Z) : ifmeta :=
  mkIf (im_ia m) (im_id m) (im_geo m) (im_lat m) (im_bw m) (Some (LEgress (linktype_of_i32 t))).
Definition set_ingress (m : ifmeta) (c : N) : ifmeta :=
  mkIf (im_ia m) (im_id m) (im_geo m) (im_lat m) (im_bw m) (Some (LIngress c)).

Section PathCodec.
Context {SA : Type}.
Variable std_parse : bytes -> option bytes.   (* StandardPathView::try_from_slice: the rest *)
Variable sa_parse : bytes -> option SA.       (* str::parse::<SocketAddr> *)
Variable sa_show : SA -> bytes.               (* SocketAddr::to_string *)

Definition iface_from_rpc (i : N * N) : outcome ifmeta perr :=
  if U16_MAX <? snd i then Err PIfId else Ok (mkIf (fst i) (snd i) None None None None).

(** ScionPath::try_from_rpc *)
Definition path_from_rpc (r : rpath) (src dst : N) : outcome (spath SA) perr :=
  if is_nil (rp_raw r) then
    if ia_is_wildcard src && ia_is_wildcard dst then Err PEmptyWildcard
    else if src =? dst then
      (* Self::local(src_ia).expect(..) *)
      if ia_is_wildcard src then Panic 2 else Ok (mkPath src src [] None None)
    else Err PEmptyPath
  else
  match std_parse (rp_raw r) with
  | None => Err PStdParse
  | Some rest =>
  if negb (is_nil rest) then Err PExtraData else
  match (match rp_iface r with
         | Some (Some a) => match sa_parse a with Some x => Some (Some x) | None => None end
         | _ => Some None
         end) with
  | None => Err PNextHop
  | Some next_hop =>
  let n := length (rp_ifs r) in
  if (Nat.eqb n 0 || negb (Nat.even n))%bool then Err PIfCount else
  metas <- collect iface_from_rpc (rp_ifs r) ;;
  match rp_exp r with
  | None => Err PMissingExp
  | Some (secs, _) =>
  let expiration := u64_of_i64 secs in
  if U16_MAX <? rp_mtu r then Err PMtu else
  let links := (n - 1)%nat in
  let intra := (n / 2 - 1)%nat in
  let inter := (n / 2)%nat in
  let ases := (n / 2 + 1)%nat in
  let m1 := if Nat.eqb (length (rp_lat r)) links then zip_set set_lat metas (rp_lat r) else metas in
  let m2 := if Nat.eqb (length (rp_bw r)) links then zip_set set_bw m1 (rp_bw r) else m1 in
  let m3 := if Nat.eqb (length (rp_geo r)) n then zip_set set_geo m2 (rp_geo r) else m2 in
  let m4 := if Nat.eqb (length (rp_lt r)) inter then set_even set_egress m3 (rp_lt r) else m3 in
  let m5 := if Nat.eqb (length (rp_ih r)) intra then set_odd set_ingress m4 (rp_ih r) else m4 in
  let notes := if Nat.eqb (length (rp_notes r)) ases then Some (rp_notes r) else None in
  Ok (mkPath src dst (rp_raw r)
             (Some (mkPM expiration (rp_mtu r) (Some m5) (rp_epic r) notes)) next_hop)
  end end end.

(** ScionPath::to_rpc *)
Definition egress_type (m : ifmeta) : option Z :=
  match im_link m with Some (LEgress t) => Some (linktype_to_i32 t) | _ => None end.
Definition ingress_hops (m : ifmeta) : option N :=
  match im_link m with Some (LIngress c) => Some c | _ => None end.
Definition opt_default {A} (d : A) (o : option A) : A := match o with Some a => a | None => d end.

Definition path_to_rpc (p : spath SA) : rpath :=
  let iface := match sp_hop p with Some a => Some (Some (sa_show a)) | None => None end in
  match sp_meta p with
  | None => mkRP (sp_raw p) iface [] 0 None [] [] [] [] [] [] None
  | Some m =>
    let exp := Some (Z.of_N (if I64_MAX <? pm_exp m then I64_MAX else pm_exp m), 0%Z) in
    match pm_ifs m with
    | None => mkRP (sp_raw p) iface [] (pm_mtu m) exp [] [] [] [] [] [] (pm_epic m)
    | Some ifs =>
      let n := length ifs in
      let links := (n - 1)%nat in
      mkRP (sp_raw p) iface
           (map (fun i => (im_ia i, im_id i)) ifs)
           (pm_mtu m) exp
           (map (fun i => latency_to_rpc (im_lat i)) (firstn links ifs))
           (map (fun i => opt_default 0 (im_bw i)) (firstn links ifs))
           (map (fun i => match im_geo i with Some g => geo_to_rpc g | None => (0, 0, []) end) ifs)
           (opt_default [] (collect_opt egress_type (evens ifs)))
           (opt_default [] (collect_opt ingress_hops (firstn (n / 2 - 1) (odds ifs))))
           (match pm_notes m with
            | Some ns => if Nat.eqb (length ns) (n / 2 + 1) then ns else []
            | None => [] end)
           (pm_epic m)
    end
  end.
End PathCodec.
