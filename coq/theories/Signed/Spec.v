(** C18 -- executable statement of the property over observable behaviour, independent of the
    model of the implementation's control flow (literal numbers from the SCION control-plane
    protobuf definitions; no import of [Gen]).  Used in the theorems of [Props] and, evaluated
    on the IMPLEMENTATION's observed output, as the search oracle of the correspondence check. *)
From Sci Require Export Signed.Model.
Local Open Scope N_scope.

Fixpoint bytes_eqb (a b : bytes) : bool :=
  match a, b with
  | [], [] => true
  | x :: a', y :: b' => (x =? y) && bytes_eqb a' b'
  | _, _ => false
  end.

(** ** Signature chain (proto.control_plane.v1, message ASEntry)

      input(ps, i) = signed.header_and_body || associated_data(ps, i)
      associated_data(ps, i) = ps.segment_info ||
         ps.as_entries[0].signed.header_and_body || ps.as_entries[0].signed.signature || ...
         ps.as_entries[i-1].signed.header_and_body || ps.as_entries[i-1].signed.signature

    [entries] are the (header_and_body, signature) pairs of a segment in order. *)
Fixpoint spec_assoc_entries (entries : list (bytes * bytes)) (i : nat) : bytes :=
  match i, entries with
  | S k, (hb, sg) :: r => hb ++ sg ++ spec_assoc_entries r k
  | _, _ => []
  end.
Definition spec_input (info : bytes) (entries : list (bytes * bytes)) (i : nat) : bytes :=
  match nth_error entries i with
  | Some (hb, _) => hb ++ info ++ spec_assoc_entries entries i
  | None => []
  end.

(** A ledger of honest signing events: (key number, signature bytes, signed input).  With an
    unforgeable signature scheme a signature verifies under key [k] over input [d] exactly when
    [(k, signature, d)] is in the ledger. *)
Definition ledger := list (N * bytes * bytes).
Definition in_ledger (l : ledger) (k : N) (sg d : bytes) : bool :=
  existsb (fun '(k', sg', d') => (k' =? k) && bytes_eqb sg' sg && bytes_eqb d' d) l.

(** entry [i] is authentic: signed with the key the verifier resolves for it, over exactly this
    entry, this segment info and ALL preceding entries *)
Definition spec_authentic (l : ledger) (info : bytes) (entries : list (bytes * bytes))
    (key : option N) (i : nat) : bool :=
  match key, nth_error entries i with
  | Some k, Some (_, sg) => in_ledger l k sg (spec_input info entries i)
  | _, _ => false
  end.

(** ** RPC messages: which decoded messages have a value (literal field widths) *)
Definition rhopfield_wf (h : rhopfield) : bool :=
  (N.of_nat (length (rhf_mac h)) =? 6) && (rhf_exp h <=? 255) && (rhf_in h <=? 65535)
  && (rhf_eg h <=? 65535).
Definition rhopentry_wf (e : rhopentry) : bool :=
  (rhe_mtu e <=? 65535) && match rhe_hf e with Some h => rhopfield_wf h | None => false end.
Definition rpeer_wf (p : rpeer) : bool :=
  (rpe_if p <=? 65535) && (rpe_mtu p <=? 65535)
  && match rpe_hf p with Some h => rhopfield_wf h | None => false end.
Definition rbody_wf (b : rbody) : bool :=
  match rb_hop b with Some e => rhopentry_wf e | None => false end && forallb rpeer_wf (rb_peers b).
Definition rinfo_wf (ts : Z) (id : N) : bool :=
  ((0 <=? ts) && (ts <=? 4294967295))%Z && (id <=? 65535).

(** KNOWN CLASS (known_findings C18-unsupported-extensions): an entry carrying raw extension
    bytes; the RPC form has no place for them *)
Definition seg_has_extensions (sg : segment) : bool :=
  existsb (fun e => negb (is_nil (ae_ext (se_entry e))) || negb (is_nil (ae_uext (se_entry e))))
          (sg_entries sg).

(** ** Paths: values that have an RPC form (what [try_from_rpc] can produce, within i64) *)
Definition lt_repr (t : linktype) : bool :=
  match t with LtUnknown v => (3 <? v) && (v <=? 255) | _ => true end.
Definition geo_repr (g : geo) : bool :=
  negb (f32_is_zero (g_lat g) && f32_is_zero (g_lon g)
        && match g_addr g with None => true | Some _ => false end)
  && match g_addr g with Some [] => false | _ => true end.
Definition lat_repr (l : option (N * N)) : bool :=
  match l with Some (s, n) => (s <=? 9223372036854775807) && (n <? 1000000000) | None => true end.
Definition if_repr (m : ifmeta) : bool :=
  (im_id m <=? 65535) && lat_repr (im_lat m)
  && match im_bw m with Some b => 0 <? b | None => true end
  && match im_geo m with Some g => geo_repr g | None => true end.
Definition is_none {A} (o : option A) : bool := match o with None => true | Some _ => false end.
(** all-or-nothing: either every element has the link kind, or none has a link *)
Definition egress_repr (m : ifmeta) : bool :=
  match im_link m with Some (LEgress t) => lt_repr t | _ => false end.
Definition ingress_repr (m : ifmeta) : bool :=
  match im_link m with Some (LIngress c) => c <=? 4294967295 | _ => false end.
Definition no_link (m : ifmeta) : bool := is_none (im_link m).
Definition all_or_none (f : ifmeta -> bool) (l : list ifmeta) : bool :=
  forallb f l || forallb no_link l.
Definition ifs_repr (l : list ifmeta) : bool :=
  let n := length l in
  negb (Nat.eqb n 0) && Nat.even n && forallb if_repr l
  && match last l (mkIf 0 0 None None None None) with
     | mkIf _ _ _ la bw lk => is_none la && is_none bw && is_none lk end
  && all_or_none egress_repr (evens l)
  && all_or_none ingress_repr (firstn (n / 2 - 1) (odds l)).

(** RPC path messages whose value is representable: non-negative expiration, link types that
    survive the [as u8] of [LinkType::from_i32] *)
Definition rpath_canonical (r : rpath) : bool :=
  match rp_exp r with Some (s, _) => ((0 <=? s) && (s <=? 9223372036854775807))%Z | None => true end
  && forallb (fun d => (fst d <=? 9223372036854775807)%Z) (rp_lat r)
  && forallb (fun z => lt_repr (linktype_of_i32 z)) (rp_lt r)
  && forallb (fun c => c <=? 4294967295) (rp_ih r).

Section PathSpec.
Context {SA : Type}.
Variable std_ok : bytes -> bool.          (* the raw path parses as a standard path, no rest *)
Definition path_repr (p : spath SA) : bool :=
  match sp_meta p with
  | None =>
    is_nil (sp_raw p) && (sp_src p =? sp_dst p) && negb (ia_is_wildcard (sp_src p))
    && is_none (sp_hop p)
  | Some m =>
    negb (is_nil (sp_raw p)) && std_ok (sp_raw p) && (pm_exp m <=? 9223372036854775807)
    && (pm_mtu m <=? 65535)
    && match pm_ifs m with
       | Some l => ifs_repr l
                   && match pm_notes m with
                      | Some ns => Nat.eqb (length ns) (length l / 2 + 1)
                      | None => true end
       | None => false end
  end.
End PathSpec.
