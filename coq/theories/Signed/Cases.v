(** Correspondence driver for C18: evaluated by [vm_compute] on case files written by the Rust
    harness (harness/hc_signed/src/bin/h_signed.rs).

    Signing cases: the harness signs segments with real P-256 keys through the crate's API,
    mutates them, and runs the real [validate_signature] on every entry.  The model is run on
    the same bytes; its oracles are instantiated from what the real crates computed on those
    bytes (prost decodes, DER parse) and from the LEDGER of honest signing events (the ideal
    signature scheme: a signature verifies under a key over an input iff exactly that was
    signed -- ECDSA/SHA-256 security is the trusted step).

    Conversion cases: RPC messages are built structurally (boundary values), decoded parts are
    reported by prost, the model converts the same message and the results (class, value,
    re-encoded message) are compared. *)
From Sci Require Export Signed.Model Signed.Spec.
Local Open Scope N_scope.

(** byte string literal of the case files: [len] bytes, big endian, of one numeral *)
Fixpoint bx_go (k : nat) (v : N) (acc : bytes) : bytes :=
  match k with O => acc | S k' => bx_go k' (v / 256) ((v mod 256) :: acc) end.
Definition bx (len v : N) : bytes := bx_go (N.to_nat len) v [].
(** the same in words of 8 bytes (the last word holds the remaining [len mod 8] bytes) *)
Fixpoint bw_go (len : nat) (ws : list N) : bytes :=
  match ws with
  | [] => []
  | w :: r => let k := Nat.min 8 len in bx_go k w [] ++ bw_go (len - k) r
  end.
Definition bw (len : N) (ws : list N) : bytes := bw_go (N.to_nat len) ws.

(** * boolean equalities *)
Definition opt_eqb {A} (f : A -> A -> bool) (x y : option A) : bool :=
  match x, y with Some a, Some b => f a b | None, None => true | _, _ => false end.
Definition pair_eqb {A B} (f : A -> A -> bool) (g : B -> B -> bool) (x y : A * B) : bool :=
  f (fst x) (fst y) && g (snd x) (snd y).
Definition signed_eqb (a b : signed) : bool :=
  bytes_eqb (s_hb a) (s_hb b) && bytes_eqb (s_sig a) (s_sig b).
Definition hopfield_eqb (a b : hopfield) : bool :=
  (hf_exp a =? hf_exp b) && (hf_in a =? hf_in b) && (hf_eg a =? hf_eg b)
  && bytes_eqb (hf_mac a) (hf_mac b).
Definition hopentry_eqb (a b : hopentry) : bool :=
  (he_mtu a =? he_mtu b) && hopfield_eqb (he_hf a) (he_hf b).
Definition peerentry_eqb (a b : peerentry) : bool :=
  (pe_ia a =? pe_ia b) && (pe_if a =? pe_if b) && (pe_mtu a =? pe_mtu b)
  && hopfield_eqb (pe_hf a) (pe_hf b).
Definition asentry_eqb (a b : asentry) : bool :=
  (ae_local a =? ae_local b) && (ae_next a =? ae_next b) && (ae_mtu a =? ae_mtu b)
  && hopentry_eqb (ae_hop a) (ae_hop b) && list_eqb peerentry_eqb (ae_peers a) (ae_peers b)
  && bytes_eqb (ae_ext a) (ae_ext b) && bytes_eqb (ae_uext a) (ae_uext b).
Definition sentry_eqb (a b : sentry) : bool :=
  asentry_eqb (se_entry a) (se_entry b) && signed_eqb (se_signed a) (se_signed b).
Definition seginfo_eqb (a b : seginfo) : bool :=
  (si_ts a =? si_ts b) && (si_id a =? si_id b) && bytes_eqb (si_enc a) (si_enc b).
Definition segment_eqb (a b : segment) : bool :=
  seginfo_eqb (sg_info a) (sg_info b) && list_eqb sentry_eqb (sg_entries a) (sg_entries b).
Definition rsegment_eqb (a b : rsegment) : bool :=
  bytes_eqb (rs_info a) (rs_info b)
  && list_eqb (fun x y => opt_eqb signed_eqb (rae_signed x) (rae_signed y)) (rs_entries a) (rs_entries b).

Definition linktype_eqb (a b : linktype) : bool :=
  match a, b with
  | LtUnset, LtUnset | LtDirect, LtDirect | LtMultiHop, LtMultiHop | LtOpenNet, LtOpenNet => true
  | LtUnknown x, LtUnknown y => x =? y
  | _, _ => false
  end.
Definition linkmeta_eqb (a b : linkmeta) : bool :=
  match a, b with
  | LIngress x, LIngress y => x =? y
  | LEgress x, LEgress y => linktype_eqb x y
  | _, _ => false
  end.
Definition geo_eqb (a b : geo) : bool :=
  (g_lat a =? g_lat b) && (g_lon a =? g_lon b) && opt_eqb bytes_eqb (g_addr a) (g_addr b).
Definition ifmeta_eqb (a b : ifmeta) : bool :=
  (im_ia a =? im_ia b) && (im_id a =? im_id b) && opt_eqb geo_eqb (im_geo a) (im_geo b)
  && opt_eqb (pair_eqb N.eqb N.eqb) (im_lat a) (im_lat b) && opt_eqb N.eqb (im_bw a) (im_bw b)
  && opt_eqb linkmeta_eqb (im_link a) (im_link b).
Definition epic_eqb := opt_eqb (pair_eqb bytes_eqb bytes_eqb).
Definition pmeta_eqb (a b : pmeta) : bool :=
  (pm_exp a =? pm_exp b) && (pm_mtu a =? pm_mtu b)
  && opt_eqb (list_eqb ifmeta_eqb) (pm_ifs a) (pm_ifs b) && epic_eqb (pm_epic a) (pm_epic b)
  && opt_eqb (list_eqb bytes_eqb) (pm_notes a) (pm_notes b).
Definition spath_eqb (a b : spath bytes) : bool :=
  (sp_src a =? sp_src b) && (sp_dst a =? sp_dst b) && bytes_eqb (sp_raw a) (sp_raw b)
  && opt_eqb pmeta_eqb (sp_meta a) (sp_meta b) && opt_eqb bytes_eqb (sp_hop a) (sp_hop b).
Definition pairZ_eqb := pair_eqb Z.eqb Z.eqb.
Definition rgeo_eqb (a b : N * N * bytes) : bool :=
  pair_eqb (pair_eqb N.eqb N.eqb) bytes_eqb a b.
Definition rpath_eqb (a b : rpath) : bool :=
  bytes_eqb (rp_raw a) (rp_raw b) && opt_eqb (opt_eqb bytes_eqb) (rp_iface a) (rp_iface b)
  && list_eqb (pair_eqb N.eqb N.eqb) (rp_ifs a) (rp_ifs b) && (rp_mtu a =? rp_mtu b)
  && opt_eqb pairZ_eqb (rp_exp a) (rp_exp b) && list_eqb pairZ_eqb (rp_lat a) (rp_lat b)
  && list_eqb N.eqb (rp_bw a) (rp_bw b) && list_eqb rgeo_eqb (rp_geo a) (rp_geo b)
  && list_eqb Z.eqb (rp_lt a) (rp_lt b) && list_eqb N.eqb (rp_ih a) (rp_ih b)
  && list_eqb bytes_eqb (rp_notes a) (rp_notes b) && epic_eqb (rp_epic a) (rp_epic b).

(** lookup in a table keyed by byte strings *)
Fixpoint lookup {A} (t : list (bytes * A)) (k : bytes) : option A :=
  match t with
  | [] => None
  | (k', v) :: r => if bytes_eqb k' k then Some v else lookup r k
  end.

(** * Signing cases *)
Record sign_case := mkSign {
  sc_pool : list bytes;                 (* byte strings, referenced by index below *)
  sc_info : N;                          (* info.encoded *)
  sc_entries : list (N * N);            (* (header_and_body, signature) of each entry *)
  (* prost on each distinct header_and_body: None = HeaderAndBodyInternal does not decode,
     Some None = the Header does not decode, Some (Some (alg, key id, assoc length)) *)
  sc_dec : list (N * option (option (Z * bytes * Z)));
  sc_der : list (N * bool);             (* Signature::from_der on each distinct signature *)
  sc_keys : list (bytes * N);           (* the verifier's key provider: key id -> key number *)
  sc_ledger : list (N * N * list N);    (* honest signing events: key, signature, input chunks *)
  sc_expect : list bool;                (* structural expectation: entry i still validates *)
  sc_res : list N }.                    (* implementation: result of validate_signature per entry *)

Definition pool_get (c : sign_case) (i : N) : bytes := nth (N.to_nat i) (sc_pool c) [].

Definition verr_code {A} (o : outcome A verr) : N :=
  match o with
  | Ok _ => 0
  | Err VInvalidHeaderAndBody => 1 | Err VInvalidHeader => 2 | Err VKeyMissing => 3
  | Err (VAssocLen _ _) => 4 | Err VDigestAlg => 5 | Err VSigMalformed => 6 | Err VSigVerify => 7
  | Panic _ => 99
  end.

Definition case_ledger (c : sign_case) : ledger :=
  map (fun '(k, sg, chunks) => (k, pool_get c sg, flat_map (pool_get c) chunks)) (sc_ledger c).
Definition case_entries (c : sign_case) : list (bytes * bytes) :=
  map (fun '(hb, sg) => (pool_get c hb, pool_get c sg)) (sc_entries c).

(** oracle instances of one case.  The digest is the identity tagged with the algorithm, the
    signature scheme is the ledger. *)
Definition c_hash (a : N) (d : bytes) : bytes := a :: d.
Definition c_sig_parse (c : sign_case) (s : bytes) : option bytes :=
  match lookup (map (fun '(i, ok) => (pool_get c i, ok)) (sc_der c)) s with
  | Some true => Some s | _ => None end.
Definition c_sig_verify (c : sign_case) (pk : N) (d : bytes) (sg : bytes) : bool :=
  match d with
  | a :: d' => (a =? 1) && in_ledger (case_ledger c) pk sg d'
  | [] => false
  end.
(** the decoded header is handed over through the "header bytes" token: the header_and_body
    itself stands for its header part *)
Definition c_dec_hb (c : sign_case) (hb : bytes) : option (bytes * bytes) :=
  match lookup (map (fun '(i, d) => (pool_get c i, d)) (sc_dec c)) hb with
  | Some (Some _) => Some (hb, []) | _ => None end.
Definition c_dec_hdr (c : sign_case) (tok : bytes) : option header :=
  match lookup (map (fun '(i, d) => (pool_get c i, d)) (sc_dec c)) tok with
  | Some (Some (Some (alg, kid, alen))) => Some (mkHeader alg kid 0 [] alen) | _ => None end.
Definition c_key_of (c : sign_case) (kid : bytes) : option N := lookup (sc_keys c) kid.

Definition dummy_entry : asentry := mkAE 0 0 0 (mkHE 0 (mkHF 0 0 0 [])) [] [] [].
Definition case_segment (c : sign_case) : segment :=
  mkSeg (mkSI 0 0 (pool_get c (sc_info c)))
        (map (fun '(hb, sg) => mkSE dummy_entry (mkSigned hb sg)) (case_entries c)).

Definition model_results (c : sign_case) : list N :=
  let sg := case_segment c in
  map (fun '(i, e) =>
         verr_code (validate_signature c_hash (c_sig_parse c) (c_sig_verify c) (c_dec_hb c)
                                       (c_dec_hdr c) (c_key_of c) sg i e))
      (combine (seq 0 (length (sg_entries sg))) (sg_entries sg)).

(** key the provider resolves for entry [i] (through the key id in its header) *)
Definition resolved_key (c : sign_case) (hb : bytes) : option N :=
  match c_dec_hb c hb with
  | Some (tok, _) => match c_dec_hdr c tok with Some h => c_key_of c (h_kid h) | None => None end
  | None => None
  end.

Definition sign_verdict (c : sign_case) : N :=
  let model := model_results c in
  let mismatch := negb (list_eqb N.eqb model (sc_res c)) in
  let ents := case_entries c in
  let info := pool_get c (sc_info c) in
  let accepts := map (fun r => r =? 0) (sc_res c) in
  (* property oracle on the implementation's output: accepted iff authentic *)
  let auth := map (fun i => spec_authentic (case_ledger c) info ents
                              (resolved_key c (fst (nth i ents ([], [])))) i)
                  (seq 0 (length ents)) in
  let panicked := existsb (fun r => r =? 99) (sc_res c) in
  let bad := panicked || negb (list_eqb Bool.eqb accepts auth)
             || negb (list_eqb Bool.eqb accepts (sc_expect c)) in
  (if mismatch then 1 else 0) + (if bad then 2 else 0).

(** * Segment conversion cases *)
Inductive gentry :=
| GNone                                                 (* AsEntry { signed: None } *)
| GSigned (hb sg : bytes) (dec : option (option rbody)). (* prost: HB fails / body fails / body *)

Record seg_case := mkSegC {
  gc_info : bytes;                       (* PathSegment.segment_info *)
  gc_info_dec : option (Z * N);          (* prost: SegmentInformation *)
  gc_info_enc : bytes;                   (* prost: encoding of SegmentInformation{ts, id} (when in range) *)
  gc_entries : list gentry;
  gc_res : N;                            (* implementation: 0 = Ok, error code, 99 = panic *)
  gc_val : option segment;               (* implementation: the value *)
  gc_back : option rsegment;             (* implementation: value.into_rpc() *)
  gc_rt : bool }.                        (* implementation: try_from_rpc(into_rpc(v)) == v *)

Definition rerr_code (e : rerr) : N :=
  match e with
  | RMacLen => 1 | RExpTime => 2 | RIngress => 3 | REgress => 4 | RIngressMtu => 5
  | RMissingHopField => 6 | RPeerIf => 7 | RPeerMtu => 8 | RMissingPeerHop => 9
  | RTimestamp => 10 | RSegId => 11 | RMissingSigned => 12 | RDecodeHB => 13
  | RDecodeBody => 14 | RMissingHopEntry => 15 | RDecodeInfo => 16
  end.

Definition g_rpc (c : seg_case) : rsegment :=
  mkRSeg (gc_info c)
         (map (fun g => match g with
                        | GNone => mkRAE None
                        | GSigned hb sg _ => mkRAE (Some (mkSigned hb sg)) end) (gc_entries c)).
Definition g_table (c : seg_case) : list (bytes * option (option rbody)) :=
  flat_map (fun g => match g with GNone => [] | GSigned hb _ d => [(hb, d)] end) (gc_entries c).
(** the body bytes token is the header_and_body itself *)
Definition g_dec_hb (c : seg_case) (hb : bytes) : option (bytes * bytes) :=
  match lookup (g_table c) hb with Some (Some _) => Some ([], hb) | _ => None end.
Definition g_dec_body (c : seg_case) (tok : bytes) : option rbody :=
  match lookup (g_table c) tok with Some (Some (Some b)) => Some b | _ => None end.
Definition g_dec_info (c : seg_case) (b : bytes) : option (Z * N) :=
  if bytes_eqb b (gc_info c) then gc_info_dec c else None.
Definition g_enc_info (c : seg_case) (ts : Z) (id : N) : bytes := gc_info_enc c.

Definition gentry_wf (g : gentry) : bool :=
  match g with GSigned _ _ (Some (Some b)) => rbody_wf b | _ => false end.

Definition seg_verdict (c : seg_case) : N :=
  let m := segment_from_rpc (g_dec_hb c) (g_dec_body c) (g_enc_info c) (g_dec_info c) (g_rpc c) in
  let mismatch :=
    match m with
    | Ok v => negb ((gc_res c =? 0) && opt_eqb segment_eqb (Some v) (gc_val c)
                    && opt_eqb rsegment_eqb (Some (segment_to_rpc (g_enc_info c) v)) (gc_back c))
    | Err e => negb (gc_res c =? rerr_code e)
    | Panic _ => negb (gc_res c =? 99)
    end in
  (* property oracles on the implementation's output: no panic; a value exactly for the
     well-formed messages; the value converts back to itself *)
  let wf := match gc_info_dec c with Some (ts, id) => rinfo_wf ts id | None => false end
            && forallb gentry_wf (gc_entries c) in
  let bad := (gc_res c =? 99) || negb (Bool.eqb (gc_res c =? 0) wf)
             || ((gc_res c =? 0) && negb (gc_rt c)) in
  (if mismatch then 1 else 0) + (if bad then 2 else 0).

(** * Path conversion cases *)
Record path_case := mkPathC {
  pc_rpc : rpath; pc_src : N; pc_dst : N;
  pc_std : N;                  (* StandardPathView::try_from_slice(raw): 0 ok, 1 error, 2 ok with rest *)
  pc_sa : option bytes;        (* interface address parsed as SocketAddr and printed again *)
  pc_res : N;
  pc_val : option (spath bytes);
  pc_back : option rpath;      (* value.to_rpc() *)
  pc_rt : bool }.              (* try_from_rpc(to_rpc(v)) == v (field by field, floats by bits) *)

Definition perr_code (e : perr) : N :=
  match e with
  | PEmptyWildcard => 1 | PEmptyPath => 2 | PStdParse => 3 | PExtraData => 4 | PNextHop => 5
  | PIfCount => 6 | PIfId => 7 | PMissingExp => 8 | PMtu => 9
  end.
Definition p_std_parse (c : path_case) (raw : bytes) : option bytes :=
  if pc_std c =? 0 then Some [] else if pc_std c =? 2 then Some [0] else None.
Definition p_sa_parse (c : path_case) (a : bytes) : option bytes := pc_sa c.
Definition p_sa_show (s : bytes) : bytes := s.

Definition path_verdict (c : path_case) : N :=
  let m := path_from_rpc (p_std_parse c) (p_sa_parse c) (pc_rpc c) (pc_src c) (pc_dst c) in
  let mismatch :=
    match m with
    | Ok v => negb ((pc_res c =? 0) && opt_eqb spath_eqb (Some v) (pc_val c)
                    && opt_eqb rpath_eqb (Some (path_to_rpc p_sa_show v)) (pc_back c))
    | Err e => negb (pc_res c =? perr_code e)
    | Panic _ => negb (pc_res c =? 99)
    end in
  (* property oracles on the implementation's output: no panic; a representable value converts
     back to itself *)
  let repr := match pc_val c with
              | Some v => path_repr (fun _ => true) v
              | None => false end in
  let bad := (pc_res c =? 99) || ((pc_res c =? 0) && repr && negb (pc_rt c))
             || ((pc_res c =? 0) && rpath_canonical (pc_rpc c) && negb repr) in
  (if mismatch then 1 else 0) + (if bad then 2 else 0).

(** * Segment values built through the API (add_entry), converted to RPC and back *)
Record segrt_case := mkSegRt {
  rc_val : segment;                                (* the value *)
  rc_back : rsegment;                              (* implementation: value.into_rpc() *)
  rc_dec : list (bytes * option (option rbody));   (* prost on each header_and_body *)
  rc_res : N;                                      (* implementation: try_from_rpc(back) *)
  rc_val2 : option segment }.

Definition segrt_verdict (c : segrt_case) : N :=
  let v := rc_val c in
  let enc_info := fun (_ : Z) (_ : N) => si_enc (sg_info v) in
  let dec_info := fun b => if bytes_eqb b (si_enc (sg_info v))
                           then Some (Z.of_N (si_ts (sg_info v)), si_id (sg_info v)) else None in
  let dec_hb := fun hb => match lookup (rc_dec c) hb with Some (Some _) => Some ([], hb) | _ => None end in
  let dec_body := fun tok => match lookup (rc_dec c) tok with Some (Some (Some b)) => Some b | _ => None end in
  let back := segment_to_rpc enc_info v in
  let m := segment_from_rpc dec_hb dec_body enc_info dec_info (rc_back c) in
  let mismatch :=
    negb (rsegment_eqb back (rc_back c))
    || match m with
       | Ok v2 => negb ((rc_res c =? 0) && opt_eqb segment_eqb (Some v2) (rc_val2 c))
       | Err e => negb (rc_res c =? rerr_code e)
       | Panic _ => negb (rc_res c =? 99)
       end in
  let same := opt_eqb segment_eqb (Some v) (rc_val2 c) in
  let known := negb same && seg_has_extensions v in
  let bad := negb same && negb (seg_has_extensions v) in
  (if mismatch then 1 else 0) + (if bad then 2 else 0) + (if known then 16 else 0).

(** * Message-level cases: SignedMessage::sign / validate with any digest and associated data *)
Record msg_case := mkMsg {
  mc_hb : bytes; mc_sig : bytes;
  mc_dec : option (option (Z * bytes * Z));        (* prost on header_and_body / header *)
  mc_der : bool;                                   (* Signature::from_der *)
  mc_key : option N;                               (* key the provider returns for the key id *)
  mc_alen : N; mc_assoc : bytes;                   (* what the verifier supplies *)
  mc_signed : list (N * N * bytes * bytes);        (* ledger: digest, key, signature, signed input *)
  mc_expect : bool;
  mc_res : N }.

Definition msg_verdict (c : msg_case) : N :=
  let dec_hb := fun (_ : bytes) => match mc_dec c with Some _ => Some (([] : bytes), ([] : bytes)) | None => None end in
  let dec_hdr := fun (_ : bytes) => match mc_dec c with
                                    | Some (Some (alg, kid, alen)) => Some (mkHeader alg kid 0 [] alen)
                                    | _ => None end in
  let sig_parse := fun s : bytes => if mc_der c then Some s else None in
  let sig_verify := fun (pk : N) (d : bytes) (sg : bytes) =>
    match d with
    | a :: d' => existsb (fun '(a', k, s, inp) => (a' =? a) && (k =? pk) && bytes_eqb s sg && bytes_eqb inp d') (mc_signed c)
    | [] => false end in
  let m := sm_validate c_hash sig_parse sig_verify dec_hb dec_hdr (fun _ => mc_key c)
                       (mkSigned (mc_hb c) (mc_sig c)) (mc_alen c) (mc_assoc c) in
  let mismatch := negb (verr_code m =? mc_res c) in
  let bad := (mc_res c =? 99) || negb (Bool.eqb (mc_res c =? 0) (mc_expect c)) in
  (if mismatch then 1 else 0) + (if bad then 2 else 0).

Inductive ccase :=
| CSign (c : sign_case) | CSeg (c : seg_case) | CPath (c : path_case)
| CSegRt (c : segrt_case) | CMsg (c : msg_case).
Definition verdict (c : ccase) : N :=
  match c with
  | CSign s => sign_verdict s | CSeg s => seg_verdict s | CPath s => path_verdict s
  | CSegRt s => segrt_verdict s | CMsg s => msg_verdict s
  end.
Definition verdicts (cs : list ccase) : list N := map verdict cs.
