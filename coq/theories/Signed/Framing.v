(** C18 -- the framing that makes the signed input uniquely decodable.  The associated data is
    [segment info ++ concat (header_and_body ++ signature)] over the preceding entries.  What
    [SignedMessage::sign] puts into [header_and_body] is a protobuf message of two
    length-delimited fields (HeaderAndBodyInternal { header, body }, both non-empty for an AS
    entry), the signature is a DER SEQUENCE: each carries its own length.  Modelled as
    hypotheses on the encoder ([hb_prefix_free], [sig_prefix_free]; TRUSTED BASE: a property of
    protobuf length-delimited encoding and of DER), with a satisfying length-prefixed instance
    ([LenPrefixed]). *)
From Coq Require Import Lia.
From Sci Require Import Signed.Model Signed.Spec Signed.Proofs.
Local Open Scope N_scope.

Section Framing.
Variable enc_hb : bytes -> bytes -> bytes.
Variable is_sig : bytes -> Prop.
(** no encoding of a header-and-body is a proper prefix of another one *)
Hypothesis hb_prefix_free : forall h b h' b' t, enc_hb h' b' = enc_hb h b ++ t -> t = [].
(** no signature blob is a proper prefix of another one *)
Hypothesis sig_prefix_free : forall s t, is_sig s -> is_sig (s ++ t) -> t = [].
Hypothesis sig_nonempty : forall s, is_sig s -> s <> [].

Definition IsHB (x : bytes) : Prop := exists h b, x = enc_hb h b.
Definition Framed (c : bytes) : Prop := exists x s, IsHB x /\ is_sig s /\ c = x ++ s.
Definition entry_framed (e : sentry) : Prop :=
  IsHB (s_hb (se_signed e)) /\ is_sig (s_sig (se_signed e)).

Lemma hb_split x s x' s' : IsHB x -> IsHB x' -> x ++ s = x' ++ s' -> x = x' /\ s = s'.
Proof.
  intros (h & b & ->) (h' & b' & ->) H.
  destruct (app_eq_app _ _ _ _ H) as (t & [[E1 E2]|[E1 E2]]).
  - assert (t = []) by exact (hb_prefix_free h' b' h b t E1). subst t.
    rewrite app_nil_r in E1. cbn [app] in E2. split; [exact E1|symmetry; exact E2].
  - assert (t = []) by exact (hb_prefix_free h b h' b' t E1). subst t.
    rewrite app_nil_r in E1. cbn [app] in E2. split; [symmetry; exact E1|exact E2].
Qed.

Lemma framed_prefix_free : prefix_free Framed.
Proof.
  intros a t (x & s & Hx & Hs & ->) (x' & s' & Hx' & Hs' & E).
  rewrite <- app_assoc in E. destruct (hb_split _ _ _ _ Hx Hx' E) as [-> E'].
  subst s'. exact (sig_prefix_free s t Hs Hs').
Qed.

Lemma framed_nonempty a : Framed a -> a <> [].
Proof.
  intros (x & s & _ & Hs & ->) E. apply app_eq_nil in E. destruct E as [_ E]. exact (sig_nonempty s Hs E).
Qed.

Lemma entry_chunk_framed e : entry_framed e -> Framed (entry_chunk e).
Proof. intros [H1 H2]. exists (s_hb (se_signed e)), (s_sig (se_signed e)). auto. Qed.

Lemma chunks_pairs es es' :
  Forall entry_framed es -> Forall entry_framed es' ->
  map entry_chunk es = map entry_chunk es' -> map pair_of es = map pair_of es'.
Proof.
  intros F. revert es'. induction F as [|e es [He _] _ IH]; intros [|e' es'] F' H; try discriminate; [reflexivity|].
  inversion F' as [|? ? [He' _] F'']; subst. cbn [map] in *. injection H as H1 H2.
  unfold entry_chunk in H1. destruct (hb_split _ _ _ _ He He' H1) as [E1 E2].
  unfold pair_of at 1 3. rewrite E1, E2. f_equal. apply IH; assumption.
Qed.

Lemma Forall_firstn' {A} (P : A -> Prop) l n : Forall P l -> Forall P (firstn n l).
Proof. intros H. revert n. induction H; intros [|n]; cbn [firstn]; constructor; auto. Qed.

(** equal signed inputs: same header_and_body, same info, same preceding entries in the same
    order -- no assumption on the lengths of header_and_body or of the entries *)
Lemma framed_input_injective sg sg' i i' e e' :
  Forall entry_framed (sg_entries sg) -> Forall entry_framed (sg_entries sg') ->
  IsHB (s_hb (se_signed e)) -> IsHB (s_hb (se_signed e')) ->
  length (si_enc (sg_info sg)) = length (si_enc (sg_info sg')) ->
  s_hb (se_signed e) ++ assoc_at sg i = s_hb (se_signed e') ++ assoc_at sg' i' ->
  s_hb (se_signed e) = s_hb (se_signed e') /\ si_enc (sg_info sg) = si_enc (sg_info sg')
  /\ map pair_of (firstn i (sg_entries sg)) = map pair_of (firstn i' (sg_entries sg')).
Proof.
  intros F F' He He' Hl H. destruct (hb_split _ _ _ _ He He' H) as [E1 E2].
  rewrite !assoc_at_concat in E2. destruct (app_inj_length _ _ _ _ Hl E2) as [E3 E4].
  refine (conj E1 (conj E3 _)). apply chunks_pairs; [apply Forall_firstn', F|apply Forall_firstn', F'|].
  eapply (concat_inj_prefix_free Framed); [exact framed_prefix_free|exact framed_nonempty| | |exact E4].
  - apply Forall_forall. intros c Hc. apply in_map_iff in Hc. destruct Hc as (x & <- & Hx).
    apply entry_chunk_framed. exact (proj1 (Forall_forall _ _) (Forall_firstn' _ _ i F) x Hx).
  - apply Forall_forall. intros c Hc. apply in_map_iff in Hc. destruct Hc as (x & <- & Hx).
    apply entry_chunk_framed. exact (proj1 (Forall_forall _ _) (Forall_firstn' _ _ i' F') x Hx).
Qed.
End Framing.

(** * a satisfying instance: length-prefixed fields *)
Module LenPrefixed.
  Definition enc_hb (h b : bytes) : bytes := N.of_nat (length h) :: h ++ N.of_nat (length b) :: b.
  Definition is_sig (s : bytes) : Prop := exists b, s = N.of_nat (length b) :: b.

  Lemma lp_prefix (b b' t : bytes) : N.of_nat (length b') :: b' = (N.of_nat (length b) :: b) ++ t -> b' = b /\ t = [].
  Proof.
    cbn [app]. intros H. injection H as Hl H. apply Nat2N.inj in Hl.
    assert (length b' = length (b ++ t)) as HL by (rewrite H; reflexivity).
    rewrite app_length in HL. assert (length t = 0%nat) as Ht by lia.
    destruct t; [|discriminate]. rewrite app_nil_r in H. auto.
  Qed.

  Lemma hb_prefix_free h b h' b' t : enc_hb h' b' = enc_hb h b ++ t -> t = [].
  Proof.
    unfold enc_hb. cbn [app]. intros H. injection H as Hl H. apply Nat2N.inj in Hl.
    rewrite <- app_assoc in H. destruct (app_inj_length _ _ _ _ Hl H) as [_ H'].
    exact (proj2 (lp_prefix b b' t H')).
  Qed.
  Lemma sig_prefix_free s t : is_sig s -> is_sig (s ++ t) -> t = [].
  Proof. intros (b & ->) (b' & H). symmetry in H. exact (proj2 (lp_prefix b b' t H)). Qed.
  Lemma sig_nonempty s : is_sig s -> s <> [].
  Proof. intros (b & ->). discriminate. Qed.
End LenPrefixed.
