(** C18 -- lemmas about the model of [Signed.Model] (see [Props] for the property theorems). *)
From Coq Require Import Lia ZifyBool ZifyNat ZifyN.
From Sci Require Import Gen.SignedConfig Signed.Model Signed.Spec.
Local Open Scope N_scope.
Arguments N.add : simpl never. Arguments N.sub : simpl never. Arguments N.mul : simpl never.
Arguments N.div : simpl never. Arguments N.modulo : simpl never. Arguments N.eqb : simpl never.
Arguments N.ltb : simpl never. Arguments N.leb : simpl never.

(** * SignedMessage::validate *)
Section Validate.
Context {K PK SIG : Type}.
Variable hash : N -> bytes -> bytes.
Variable sig_sign : K -> bytes -> bytes.
Variable sig_parse : bytes -> option SIG.
Variable sig_verify : PK -> bytes -> SIG -> bool.
Variable pk : K -> PK.
Variable enc_hb : bytes -> bytes -> bytes.
Variable dec_hb : bytes -> option (bytes * bytes).
Variable enc_hdr : header -> bytes.
Variable dec_hdr : bytes -> option header.

Notation validate := (sm_validate hash sig_parse sig_verify dec_hb dec_hdr).
Notation sign := (sm_sign hash sig_sign enc_hb enc_hdr).

(** the conjunction of everything [validate] checks *)
Definition Accepts (key_of : bytes -> option PK) (m : signed) (alen : N) (assoc : bytes)
    (hdr : header) (body : bytes) : Prop :=
  exists hbytes vk a sg,
    dec_hb (s_hb m) = Some (hbytes, body) /\ dec_hdr hbytes = Some hdr /\
    key_of (h_kid hdr) = Some vk /\ usize_of_i32 (h_alen hdr) = alen /\
    digest_alg (h_alg hdr) = Some a /\ sig_parse (s_sig m) = Some sg /\
    sig_verify vk (hash a (s_hb m ++ assoc)) sg = true.

Lemma validate_ok_iff key_of m alen assoc hdr body :
  validate key_of m alen assoc = Ok (hdr, body) <-> Accepts key_of m alen assoc hdr body.
Proof.
  unfold sm_validate, Accepts. split.
  - destruct (dec_hb (s_hb m)) as [[hbytes body']|] eqn:E1; [|discriminate].
    destruct (dec_hdr hbytes) as [hdr'|] eqn:E2; [|discriminate].
    destruct (key_of (h_kid hdr')) as [vk|] eqn:E3; [|discriminate].
    destruct (usize_of_i32 (h_alen hdr') =? alen) eqn:E4; cbn [negb]; [|discriminate].
    destruct (digest_alg (h_alg hdr')) as [a|] eqn:E5; [|discriminate].
    destruct (sig_parse (s_sig m)) as [sg|] eqn:E6; [|discriminate].
    destruct (sig_verify vk (hash a (s_hb m ++ assoc)) sg) eqn:E7; [|discriminate].
    intros H. injection H as H1 H2. subst hdr' body'. exists hbytes, vk, a, sg.
    apply N.eqb_eq in E4. repeat (split; [first [reflexivity | assumption]|]). assumption.
  - intros (hbytes & vk & a & sg & E1 & E2 & E3 & E4 & E5 & E6 & E7).
    rewrite E1, E2, E3. apply N.eqb_eq in E4. rewrite E4. cbn [negb]. rewrite E5, E6, E7. reflexivity.
Qed.

Lemma validate_no_panic key_of m alen assoc : is_panic (validate key_of m alen assoc) = false.
Proof.
  unfold sm_validate.
  destruct (dec_hb (s_hb m)) as [[hbytes body']|]; [|reflexivity].
  destruct (dec_hdr hbytes) as [hdr'|]; [|reflexivity].
  destruct (key_of (h_kid hdr')) as [vk|]; [|reflexivity].
  destruct (negb (usize_of_i32 (h_alen hdr') =? alen)); [reflexivity|].
  destruct (digest_alg (h_alg hdr')) as [a|]; [|reflexivity].
  destruct (sig_parse (s_sig m)) as [sg|]; [|reflexivity].
  destruct (sig_verify vk (hash a (s_hb m ++ assoc)) sg); reflexivity.
Qed.

(** a declared length that differs from the supplied one is rejected before any cryptography *)
Lemma validate_length_mismatch key_of m alen assoc hbytes body hdr vk :
  dec_hb (s_hb m) = Some (hbytes, body) -> dec_hdr hbytes = Some hdr ->
  key_of (h_kid hdr) = Some vk -> usize_of_i32 (h_alen hdr) <> alen ->
  validate key_of m alen assoc = Err (VAssocLen (usize_of_i32 (h_alen hdr)) alen).
Proof.
  intros E1 E2 E3 E4. unfold sm_validate. rewrite E1, E2, E3.
  apply N.eqb_neq in E4. rewrite E4. reflexivity.
Qed.

(** ** an honest signature validates *)
Hypothesis sig_correct : forall k d, exists sg, sig_parse (sig_sign k d) = Some sg /\ sig_verify (pk k) d sg = true.
Hypothesis hb_roundtrip : forall h b, dec_hb (enc_hb h b) = Some (h, b).
Hypothesis hdr_roundtrip : forall h, dec_hdr (enc_hdr h) = Some h.

Lemma usize_i32_roundtrip n : n < 2 ^ 31 -> usize_of_i32 (i32_of_usize n) = n.
Proof.
  intros H. unfold usize_of_i32, i32_of_usize.
  assert (Z.of_N n mod 2 ^ 32 = Z.of_N n)%Z as -> by (apply Z.mod_small; lia).
  assert ((Z.of_N n <? 2 ^ 31)%Z = true) as -> by lia.
  rewrite Z.mod_small by lia. apply N2Z.id.
Qed.

Lemma digest_alg_roundtrip a : a = 1 \/ a = 2 \/ a = 3 -> digest_alg (sigalg_of_digest a) = Some a.
Proof. intros [->|[->| ->]]; reflexivity. Qed.

Lemma sign_validates key_of key a ts kid alen assoc body meta :
  a = 1 \/ a = 2 \/ a = 3 -> alen < 2 ^ 31 -> key_of kid = Some (pk key) ->
  exists hdr, validate key_of (sign key a ts kid alen assoc body meta) alen assoc = Ok (hdr, body)
              /\ h_kid hdr = kid /\ h_meta hdr = meta.
Proof.
  intros Ha Hl Hk. exists (mkHeader (sigalg_of_digest a) kid (Z.of_N ts) meta (i32_of_usize alen)).
  split; [|split; [reflexivity|reflexivity]].
  apply validate_ok_iff. unfold Accepts, sm_sign. cbn [s_hb s_sig].
  destruct (sig_correct key (hash a (enc_hb (enc_hdr (mkHeader (sigalg_of_digest a) kid (Z.of_N ts) meta (i32_of_usize alen))) body ++ assoc)))
    as (sg & P1 & P2).
  eexists _, (pk key), a, sg. rewrite hb_roundtrip, hdr_roundtrip. cbn [h_kid h_alen h_alg].
  refine (conj eq_refl (conj eq_refl (conj Hk (conj _ (conj _ (conj P1 P2)))))).
  - apply usize_i32_roundtrip; assumption.
  - apply digest_alg_roundtrip; assumption.
Qed.
End Validate.

(** * Associated data *)
Definition pair_of (e : sentry) : bytes * bytes := (s_hb (se_signed e), s_sig (se_signed e)).
Definition seg_pairs (sg : segment) : list (bytes * bytes) := map pair_of (sg_entries sg).

Lemma spec_assoc_entries_flat_map entries i :
  spec_assoc_entries (map pair_of entries) i = flat_map entry_chunk (firstn i entries).
Proof.
  revert i. induction entries as [|e r IH]; intros [|i]; cbn [map spec_assoc_entries firstn flat_map]; try reflexivity.
  unfold pair_of at 1, entry_chunk at 1. rewrite IH, <- app_assoc. reflexivity.
Qed.

(** the model's digest input of entry [i] is the chain rule of the protocol definition *)
Lemma assoc_at_spec sg i e :
  nth_error (sg_entries sg) i = Some e ->
  s_hb (se_signed e) ++ assoc_at sg i = spec_input (si_enc (sg_info sg)) (seg_pairs sg) i.
Proof.
  intros H. unfold spec_input, seg_pairs. rewrite (map_nth_error pair_of _ _ H).
  unfold pair_of at 1. unfold assoc_at. rewrite spec_assoc_entries_flat_map. reflexivity.
Qed.

Lemma assoc_at_concat sg i :
  assoc_at sg i = si_enc (sg_info sg) ++ concat (map entry_chunk (firstn i (sg_entries sg))).
Proof. unfold assoc_at. rewrite flat_map_concat_map. reflexivity. Qed.

(** the code before the repair (prefix by VALUE) agrees with the positional prefix exactly on
    segments without repeated entries *)
Lemma take_while_nodup {E} (eqb : E -> E -> bool) (entries : list (E * bytes)) :
  (forall a b, eqb a b = true <-> a = b) ->
  forall i x c, NoDup (map fst entries) -> nth_error entries i = Some (x, c) ->
  take_while (fun e => negb (eqb (fst e) x)) entries = firstn i entries.
Proof.
  intros Heq. induction entries as [|[y d] r IH]; intros i x c ND Hn.
  - destruct i; discriminate.
  - cbn [map fst] in ND. inversion ND as [|? ? Hnotin ND']; subst. destruct i as [|i]; cbn [nth_error] in Hn.
    + injection Hn as -> ->. cbn [take_while fst firstn].
      assert (eqb x x = true) as -> by (apply Heq; reflexivity). reflexivity.
    + cbn [take_while fst firstn].
      assert (eqb y x = false) as ->.
      { destruct (eqb y x) eqn:Eyx; [|reflexivity]. apply Heq in Eyx. subst y. exfalso. apply Hnotin.
        apply nth_error_In in Hn. apply (in_map fst) in Hn. exact Hn. }
      cbn [negb]. f_equal. eapply IH; eassumption.
Qed.

Lemma assoc_by_value_nodup {E} (eqb : E -> E -> bool) info (entries : list (E * bytes)) i x c :
  (forall a b, eqb a b = true <-> a = b) -> NoDup (map fst entries) ->
  nth_error entries i = Some (x, c) ->
  assoc_by_value eqb info entries x = info ++ flat_map snd (firstn i entries).
Proof.
  intros Heq ND Hn. unfold assoc_by_value. rewrite (take_while_nodup eqb entries Heq i x c ND Hn). reflexivity.
Qed.

(** * Injectivity of the signed input *)
Lemma app_inj_length {A} (a c b d : list A) : length a = length c -> a ++ b = c ++ d -> a = c /\ b = d.
Proof.
  revert c. induction a as [|x a IH]; intros [|y c] HL H; try discriminate.
  - split; [reflexivity|exact H].
  - cbn [length] in HL. cbn [app] in H. injection H as -> H. destruct (IH c) as [-> ->]; [lia|exact H|]. split; reflexivity.
Qed.

Definition same_len (a b : bytes) : Prop := length a = length b.

Lemma concat_inj_lengths (l l' : list bytes) :
  Forall2 same_len l l' -> concat l = concat l' -> l = l'.
Proof.
  induction 1 as [|a b l l' Hab HF IH]; intros H; [reflexivity|].
  cbn [concat] in H. destruct (app_inj_length a b _ _ Hab H) as [-> H']. f_equal. apply IH, H'.
Qed.

Lemma digest_input_injective hb hb' info info' (cs cs' : list bytes) :
  same_len hb hb' -> same_len info info' -> Forall2 same_len cs cs' ->
  hb ++ info ++ concat cs = hb' ++ info' ++ concat cs' -> hb = hb' /\ info = info' /\ cs = cs'.
Proof.
  intros H1 H2 H3 H. destruct (app_inj_length _ _ _ _ H1 H) as [-> H'].
  destruct (app_inj_length _ _ _ _ H2 H') as [-> H'']. split; [reflexivity|]. split; [reflexivity|].
  apply concat_inj_lengths; assumption.
Qed.

(** chunks from a prefix-free code (no chunk is a proper prefix of another, none is empty) can
    not be re-partitioned, reordered, dropped or added without changing the concatenation *)
Definition prefix_free (C : bytes -> Prop) : Prop := forall a t, C a -> C (a ++ t) -> t = [].

Lemma concat_inj_prefix_free (C : bytes -> Prop) (l l' : list bytes) :
  prefix_free C -> (forall a, C a -> a <> []) -> Forall C l -> Forall C l' ->
  concat l = concat l' -> l = l'.
Proof.
  intros PF NE. revert l'. induction l as [|a l IH]; intros [|b l'] F F' H; try reflexivity.
  - exfalso. inversion F' as [|? ? Cb _]; subst. cbn [concat] in H. symmetry in H.
    apply app_eq_nil in H. apply (NE b Cb), H.
  - exfalso. inversion F as [|? ? Ca _]; subst. cbn [concat] in H. apply app_eq_nil in H. apply (NE a Ca), H.
  - inversion F as [|? ? Ca Fl]; inversion F' as [|? ? Cb Fl']; subst. cbn [concat] in H.
    destruct (app_eq_app _ _ _ _ H) as (t & [[E1 E2]|[E1 E2]]).
    + subst a. assert (t = []) by exact (PF b t Cb Ca). subst t. rewrite app_nil_r in *.
      cbn [app] in E2. f_equal. apply IH; [assumption|assumption|symmetry; exact E2].
    + subst b. assert (t = []) by exact (PF a t Ca Cb). subst t. rewrite app_nil_r in *.
      cbn [app] in E2. f_equal. apply IH; assumption.
Qed.

Lemma digest_input_injective_prefix_free (C : bytes -> Prop) hb hb' info info' (cs cs' : list bytes) :
  prefix_free C -> (forall a, C a -> a <> []) -> Forall C cs -> Forall C cs' ->
  same_len hb hb' -> same_len info info' ->
  hb ++ info ++ concat cs = hb' ++ info' ++ concat cs' -> hb = hb' /\ info = info' /\ cs = cs'.
Proof.
  intros PF NE F F' H1 H2 H. destruct (app_inj_length _ _ _ _ H1 H) as [-> H'].
  destruct (app_inj_length _ _ _ _ H2 H') as [-> H'']. split; [reflexivity|]. split; [reflexivity|].
  eapply concat_inj_prefix_free; eassumption.
Qed.

(** * Conversion from RPC never panics *)
Lemma obind_no_panic {A B E} (o : outcome A E) (f : A -> outcome B E) :
  is_panic o = false -> (forall a, is_panic (f a) = false) -> is_panic (obind o f) = false.
Proof. destruct o; cbn [obind is_panic]; intros H1 H2; auto. Qed.

Lemma collect_no_panic {A B E} (f : A -> outcome B E) l :
  (forall a, is_panic (f a) = false) -> is_panic (collect f l) = false.
Proof.
  intros H. induction l as [|a r IH]; [reflexivity|]. cbn [collect].
  apply obind_no_panic; [apply H|]. intros b. apply obind_no_panic; [exact IH|]. reflexivity.
Qed.

Lemma hopfield_from_rpc_no_panic h : is_panic (hopfield_from_rpc h) = false.
Proof.
  unfold hopfield_from_rpc, slice_to.
  destruct (N.of_nat (length (rhf_mac h)) =? HOPFIELD_MAC_LEN) eqn:E; cbn [negb]; [|reflexivity].
  destruct (U8_MAX <? rhf_exp h); [reflexivity|]. destruct (U16_MAX <? rhf_in h); [reflexivity|].
  destruct (U16_MAX <? rhf_eg h); [reflexivity|].
  apply N.eqb_eq in E. assert (HOPFIELD_MAC_LEN = 6) as E6 by reflexivity. rewrite E6 in E.
  assert ((N.of_nat (length (rhf_mac h)) <? 6) = false) as -> by lia. reflexivity.
Qed.

Lemma hopentry_from_rpc_no_panic e : is_panic (hopentry_from_rpc e) = false.
Proof.
  unfold hopentry_from_rpc. destruct (U16_MAX <? rhe_mtu e); [reflexivity|].
  destruct (rhe_hf e); [|reflexivity]. apply obind_no_panic; [apply hopfield_from_rpc_no_panic|reflexivity].
Qed.

Lemma peer_from_rpc_no_panic p : is_panic (peer_from_rpc p) = false.
Proof.
  unfold peer_from_rpc. destruct (U16_MAX <? rpe_if p); [reflexivity|]. destruct (U16_MAX <? rpe_mtu p); [reflexivity|].
  destruct (rpe_hf p); [|reflexivity]. apply obind_no_panic; [apply hopfield_from_rpc_no_panic|reflexivity].
Qed.

Lemma entry_of_body_no_panic b : is_panic (entry_of_body b) = false.
Proof.
  unfold entry_of_body. destruct (rb_hop b); [|reflexivity].
  apply obind_no_panic; [apply hopentry_from_rpc_no_panic|]. intros hop.
  apply obind_no_panic; [apply collect_no_panic, peer_from_rpc_no_panic|reflexivity].
Qed.

Section SegCodecProofs.
Variable enc_hb : bytes -> bytes -> bytes.
Variable dec_hb : bytes -> option (bytes * bytes).
Variable enc_body : rbody -> bytes.
Variable dec_body : bytes -> option rbody.
Variable enc_info : Z -> N -> bytes.
Variable dec_info : bytes -> option (Z * N).

Notation sentry_from := (sentry_from_rpc dec_hb dec_body).
Notation segment_from := (segment_from_rpc dec_hb dec_body enc_info dec_info).
Notation segment_to := (segment_to_rpc enc_info).

Lemma sentry_from_rpc_no_panic r : is_panic (sentry_from r) = false.
Proof.
  unfold sentry_from_rpc. destruct (rae_signed r) as [sm|]; [|reflexivity].
  destruct (dec_hb (s_hb sm)) as [[? body]|]; [|reflexivity]. destruct (dec_body body); [|reflexivity].
  apply obind_no_panic; [apply entry_of_body_no_panic|reflexivity].
Qed.

Lemma segment_from_rpc_no_panic r : is_panic (segment_from r) = false.
Proof.
  unfold segment_from_rpc. destruct (dec_info (rs_info r)) as [[ts id]|]; [|reflexivity].
  apply obind_no_panic.
  - unfold seginfo_from_rpc. destruct ((ts <? 0)%Z || (Z.of_N U32_MAX <? ts)%Z); [reflexivity|].
    destruct (U16_MAX <? id); reflexivity.
  - intros info. apply obind_no_panic; [apply collect_no_panic, sentry_from_rpc_no_panic|reflexivity].
Qed.

(** ** round trip of segment values *)
Definition hopfield_wf (h : hopfield) : Prop :=
  hf_exp h <= 255 /\ hf_in h <= 65535 /\ hf_eg h <= 65535 /\ length (hf_mac h) = 6%nat.
Definition peer_wf (p : peerentry) : Prop :=
  pe_if p <= 65535 /\ pe_mtu p <= 65535 /\ hopfield_wf (pe_hf p).
(** what the Rust types of [AsEntry] guarantee (u8 / u16 fields, [u8; 6] MAC) plus: the
    unsupported raw extension fields are empty *)
Definition asentry_wf (e : asentry) : Prop :=
  he_mtu (ae_hop e) <= 65535 /\ hopfield_wf (he_hf (ae_hop e)) /\ Forall peer_wf (ae_peers e)
  /\ ae_ext e = [] /\ ae_uext e = [].

Lemma firstn_all_len {A} (l : list A) n : length l = n -> firstn n l = l.
Proof. intros <-. apply firstn_all. Qed.

Lemma hopfield_roundtrip h : hopfield_wf h -> hopfield_from_rpc (hopfield_to_rpc h) = Ok h.
Proof.
  intros (H1 & H2 & H3 & H4). unfold hopfield_from_rpc, hopfield_to_rpc, slice_to. cbn [rhf_mac rhf_exp rhf_in rhf_eg].
  rewrite H4. assert (HOPFIELD_MAC_LEN = 6) as -> by reflexivity.
  assert ((N.of_nat 6 =? 6) = true) as -> by reflexivity. cbn [negb].
  assert ((U8_MAX <? hf_exp h) = false) as -> by (unfold U8_MAX; lia).
  assert ((U16_MAX <? hf_in h) = false) as -> by (unfold U16_MAX; lia).
  assert ((U16_MAX <? hf_eg h) = false) as -> by (unfold U16_MAX; lia).
  assert ((N.of_nat 6 <? 6) = false) as -> by reflexivity. cbn [obind].
  change (N.to_nat 6) with 6%nat. rewrite (firstn_all_len _ _ H4). destruct h; reflexivity.
Qed.

Lemma hopentry_roundtrip e :
  he_mtu e <= 65535 -> hopfield_wf (he_hf e) -> hopentry_from_rpc (hopentry_to_rpc e) = Ok e.
Proof.
  intros H1 H2. unfold hopentry_from_rpc, hopentry_to_rpc. cbn [rhe_mtu rhe_hf].
  assert ((U16_MAX <? he_mtu e) = false) as -> by (unfold U16_MAX; lia).
  rewrite (hopfield_roundtrip _ H2). cbn [obind]. destruct e; reflexivity.
Qed.

Lemma peer_roundtrip p : peer_wf p -> peer_from_rpc (peer_to_rpc p) = Ok p.
Proof.
  intros (H1 & H2 & H3). unfold peer_from_rpc, peer_to_rpc. cbn [rpe_if rpe_mtu rpe_hf rpe_ia].
  assert ((U16_MAX <? pe_if p) = false) as -> by (unfold U16_MAX; lia).
  assert ((U16_MAX <? pe_mtu p) = false) as -> by (unfold U16_MAX; lia).
  rewrite (hopfield_roundtrip _ H3). cbn [obind]. destruct p; reflexivity.
Qed.

Lemma collect_map_roundtrip {A B E} (f : B -> outcome A E) (g : A -> B) (l : list A) :
  Forall (fun a => f (g a) = Ok a) l -> collect f (map g l) = Ok l.
Proof.
  induction 1 as [|a r Ha _ IH]; [reflexivity|]. cbn [map collect]. rewrite Ha. cbn [obind]. rewrite IH. reflexivity.
Qed.

Lemma entry_roundtrip e : asentry_wf e -> entry_of_body (body_of_entry e) = Ok e.
Proof.
  intros (H1 & H2 & H3 & H4 & H5). unfold entry_of_body, body_of_entry. cbn [rb_hop rb_peers rb_ia rb_next rb_mtu].
  rewrite (hopentry_roundtrip _ H1 H2). cbn [obind].
  rewrite (collect_map_roundtrip peer_from_rpc peer_to_rpc (ae_peers e)).
  - cbn [obind]. destruct e; cbn in *; subst; reflexivity.
  - eapply Forall_impl; [|exact H3]. intros p Hp. apply peer_roundtrip, Hp.
Qed.

(** representation invariant of a signed segment: the stored entry is the decoded signed body,
    the stored encoding of the info is the encoding of its fields *)
Definition sentry_inv (e : sentry) : Prop := sentry_from (sentry_to_rpc e) = Ok e.
Definition seg_inv (sg : segment) : Prop :=
  si_ts (sg_info sg) <= 4294967295 /\ si_id (sg_info sg) <= 65535
  /\ si_enc (sg_info sg) = enc_info (Z.of_N (si_ts (sg_info sg))) (si_id (sg_info sg))
  /\ Forall sentry_inv (sg_entries sg).

Lemma sentry_from_rpc_inv r e : sentry_from r = Ok e -> sentry_inv e.
Proof.
  unfold sentry_inv. unfold sentry_from_rpc at 1. destruct r as [[sm|]]; cbn [rae_signed]; [|discriminate].
  destruct (dec_hb (s_hb sm)) as [[x body]|] eqn:E1; [|discriminate].
  destruct (dec_body body) as [b|] eqn:E2; [|discriminate].
  destruct (entry_of_body b) as [a|err|s] eqn:E3; cbn [obind]; try discriminate.
  intros H. injection H as <-. unfold sentry_from_rpc, sentry_to_rpc. cbn [rae_signed se_signed].
  rewrite E1, E2, E3. reflexivity.
Qed.

Lemma collect_Forall {A B E} (f : A -> outcome B E) (P : B -> Prop) l bs :
  (forall a b, f a = Ok b -> P b) -> collect f l = Ok bs -> Forall P bs.
Proof.
  intros HP. revert bs. induction l as [|a r IH]; intros bs H; cbn [collect] in H.
  - injection H as <-. constructor.
  - destruct (f a) as [b|e|s] eqn:Ea; cbn [obind] in H; try discriminate.
    destruct (collect f r) as [bs'|e|s] eqn:Er; cbn [obind] in H; try discriminate.
    injection H as <-. constructor; [eapply HP, Ea|apply IH; reflexivity].
Qed.

Lemma segment_from_rpc_inv r sg : segment_from r = Ok sg -> seg_inv sg.
Proof.
  unfold segment_from_rpc. destruct (dec_info (rs_info r)) as [[ts id]|]; [|discriminate].
  unfold seginfo_from_rpc.
  destruct ((ts <? 0)%Z || (Z.of_N U32_MAX <? ts)%Z) eqn:E1; cbn [obind]; [discriminate|].
  destruct (U16_MAX <? id) eqn:E2; cbn [obind]; [discriminate|].
  destruct (collect sentry_from (rs_entries r)) as [es|e|s] eqn:E3; cbn [obind]; try discriminate.
  intros H. injection H as <-. unfold seg_inv, seginfo_new. cbn [sg_info sg_entries si_ts si_id si_enc].
  unfold U32_MAX in E1. unfold U16_MAX in E2. refine (conj _ (conj _ (conj eq_refl _))); [lia|lia|].
  eapply collect_Forall; [|exact E3]. intros a b Hab. eapply sentry_from_rpc_inv, Hab.
Qed.
Hypothesis info_roundtrip : forall ts id, dec_info (enc_info ts id) = Some (ts, id).

Lemma segment_roundtrip sg : seg_inv sg -> segment_from (segment_to sg) = Ok sg.
Proof.
  intros (H1 & H2 & H3 & H4). unfold segment_from_rpc, segment_to_rpc. cbn [rs_info rs_entries].
  rewrite info_roundtrip. unfold seginfo_from_rpc.
  assert (((Z.of_N (si_ts (sg_info sg)) <? 0)%Z || (Z.of_N U32_MAX <? Z.of_N (si_ts (sg_info sg)))%Z) = false) as ->
    by (unfold U32_MAX; lia).
  assert ((U16_MAX <? si_id (sg_info sg)) = false) as -> by (unfold U16_MAX; lia).
  cbn [obind]. rewrite (collect_map_roundtrip sentry_from sentry_to_rpc (sg_entries sg) H4). cbn [obind].
  unfold seginfo_new. rewrite N2Z.id, <- H3. destruct sg as [[ts id enc] es]; reflexivity.
Qed.

End SegCodecProofs.

(** ** signing an entry keeps the representation invariant *)
Section AddEntry.
Context {K : Type}.
Variable hash : N -> bytes -> bytes.
Variable sig_sign : K -> bytes -> bytes.
Variable enc_hb : bytes -> bytes -> bytes.
Variable dec_hb : bytes -> option (bytes * bytes).
Variable enc_hdr : header -> bytes.
Variable enc_body : rbody -> bytes.
Variable dec_body : bytes -> option rbody.
Variable enc_info : Z -> N -> bytes.
Hypothesis hb_roundtrip : forall h b, dec_hb (enc_hb h b) = Some (h, b).
Hypothesis body_roundtrip : forall b, dec_body (enc_body b) = Some b.

Lemma add_entry_inv sg e key kid ts :
  seg_inv dec_hb dec_body enc_info sg -> asentry_wf e ->
  seg_inv dec_hb dec_body enc_info (add_entry hash sig_sign enc_hb enc_hdr enc_body sg e key kid ts).
Proof.
  intros (H1 & H2 & H3 & H4) He. unfold seg_inv, add_entry. cbn [sg_info sg_entries].
  refine (conj H1 (conj H2 (conj H3 _))). apply Forall_app. split; [exact H4|]. constructor; [|constructor].
  unfold sentry_inv, sentry_from_rpc, sentry_to_rpc, entry_signature, sm_sign. cbn [rae_signed se_signed s_hb].
  rewrite hb_roundtrip, body_roundtrip, (entry_roundtrip e He). reflexivity.
Qed.

Lemma empty_segment_inv ts id :
  ts <= 4294967295 -> id <= 65535 -> seg_inv dec_hb dec_body enc_info (mkSeg (seginfo_new enc_info ts id) []).
Proof. intros H1 H2. unfold seg_inv, seginfo_new. cbn. refine (conj H1 (conj H2 (conj eq_refl _))). constructor. Qed.
End AddEntry.

(** * Paths *)
Section PathProofs.
Context {SA : Type}.
Variable std_parse : bytes -> option bytes.
Variable sa_parse : bytes -> option SA.
Variable sa_show : SA -> bytes.

Lemma iface_from_rpc_no_panic i : is_panic (iface_from_rpc i) = false.
Proof. unfold iface_from_rpc. destruct (U16_MAX <? snd i); reflexivity. Qed.

Lemma path_from_rpc_no_panic r src dst : is_panic (path_from_rpc std_parse sa_parse r src dst) = false.
Proof.
  unfold path_from_rpc. destruct (is_nil (rp_raw r)).
  - destruct (ia_is_wildcard src) eqn:Ws; destruct (ia_is_wildcard dst) eqn:Wd; cbn [andb]; try reflexivity.
    + destruct (src =? dst) eqn:E; [|reflexivity]. apply N.eqb_eq in E. subst dst. congruence.
    + destruct (src =? dst); reflexivity.
    + destruct (src =? dst); reflexivity.
  - destruct (std_parse (rp_raw r)) as [rest|]; [|reflexivity].
    destruct (negb (is_nil rest)); [reflexivity|].
    destruct (match rp_iface r with
              | Some (Some a) => match sa_parse a with Some x => Some (Some x) | None => None end
              | _ => Some None end) as [nh|]; [|reflexivity].
    destruct (Nat.eqb (length (rp_ifs r)) 0 || negb (Nat.even (length (rp_ifs r))))%bool; [reflexivity|].
    apply obind_no_panic; [apply collect_no_panic, iface_from_rpc_no_panic|]. intros metas.
    destruct (rp_exp r) as [[secs ?]|]; [|reflexivity].
    destruct (U16_MAX <? rp_mtu r); reflexivity.
Qed.
End PathProofs.

(** * Instances: the Section hypotheses are satisfiable *)
Module Toy.
  Definition hash (a : N) (d : bytes) : bytes := a :: d.
  Definition sig_sign (k : N) (d : bytes) : bytes := k :: d.
  Definition sig_parse (s : bytes) : option bytes := Some s.
  Definition sig_verify (pk : N) (d : bytes) (sg : bytes) : bool := bytes_eqb sg (pk :: d).
  Definition pk (k : N) : N := k.
  Definition enc_hb (h b : bytes) : bytes := N.of_nat (length h) :: h ++ b.
  Definition dec_hb (l : bytes) : option (bytes * bytes) :=
    match l with
    | n :: r => if N.to_nat n <=? length r then Some (firstn (N.to_nat n) r, skipn (N.to_nat n) r) else None
    | [] => None
    end%nat.
  Definition encZ (z : Z) : bytes := [if (z <? 0)%Z then 1 else 0; Z.abs_N z].
  Definition decZ (s a : N) : Z := if s =? 1 then (- Z.of_N a)%Z else Z.of_N a.
  Definition enc_hdr (h : header) : bytes :=
    encZ (h_alg h) ++ encZ (h_ts h) ++ encZ (h_alen h) ++ N.of_nat (length (h_kid h)) :: h_kid h ++ h_meta h.
  Definition dec_hdr (l : bytes) : option header :=
    match l with
    | s1 :: a1 :: s2 :: a2 :: s3 :: a3 :: n :: r =>
      if (N.to_nat n <=? length r)%nat
      then Some (mkHeader (decZ s1 a1) (firstn (N.to_nat n) r) (decZ s2 a2) (skipn (N.to_nat n) r) (decZ s3 a3))
      else None
    | _ => None
    end.
  Definition enc_info (ts : Z) (id : N) : bytes := encZ ts ++ [id].
  Definition dec_info (l : bytes) : option (Z * N) :=
    match l with [s; a; id] => Some (decZ s a, id) | _ => None end.

  Lemma bytes_eqb_refl b : bytes_eqb b b = true.
  Proof. induction b as [|x b IH]; [reflexivity|]. cbn [bytes_eqb]. rewrite N.eqb_refl. exact IH. Qed.

  Lemma sig_correct k d : exists sg, sig_parse (sig_sign k d) = Some sg /\ sig_verify (pk k) d sg = true.
  Proof. exists (k :: d). split; [reflexivity|]. apply bytes_eqb_refl. Qed.

  Lemma split_ok (h b : bytes) :
    (N.to_nat (N.of_nat (length h)) <=? length (h ++ b))%nat = true /\
    firstn (N.to_nat (N.of_nat (length h))) (h ++ b) = h /\
    skipn (N.to_nat (N.of_nat (length h))) (h ++ b) = b.
  Proof.
    rewrite Nat2N.id, app_length. split; [apply Nat.leb_le; lia|].
    rewrite firstn_app, skipn_app, Nat.sub_diag, firstn_all, skipn_all. cbn [firstn skipn]. rewrite app_nil_r. split; reflexivity.
  Qed.

  Lemma hb_roundtrip h b : dec_hb (enc_hb h b) = Some (h, b).
  Proof. unfold dec_hb, enc_hb. destruct (split_ok h b) as (-> & -> & ->). reflexivity. Qed.

  Lemma decZ_encZ z : decZ (if (z <? 0)%Z then 1 else 0) (Z.abs_N z) = z.
  Proof.
    unfold decZ. destruct (z <? 0)%Z eqn:E; cbn [N.eqb]; rewrite ?N.eqb_refl.
    - rewrite N2Z.inj_abs_N. lia.
    - change (0 =? 1) with false. cbv iota. rewrite N2Z.inj_abs_N. lia.
  Qed.

  Lemma hdr_roundtrip h : dec_hdr (enc_hdr h) = Some h.
  Proof.
    unfold dec_hdr, enc_hdr, encZ. cbn [app]. destruct (split_ok (h_kid h) (h_meta h)) as (-> & -> & ->). rewrite !decZ_encZ. destruct h; reflexivity.
  Qed.

  Lemma info_roundtrip ts id : dec_info (enc_info ts id) = Some (ts, id).
  Proof. unfold dec_info, enc_info, encZ. cbn [app]. rewrite decZ_encZ. reflexivity. Qed.
  (** a codec for [AsEntrySignedBody] values: length-prefixed fields *)
  Definition put_bytes (b : bytes) : bytes := N.of_nat (length b) :: b.
  Definition get_bytes (l : bytes) : option (bytes * bytes) :=
    match l with
    | n :: r => if (N.to_nat n <=? length r)%nat then Some (firstn (N.to_nat n) r, skipn (N.to_nat n) r) else None
    | [] => None
    end.
  Definition enc_rhf (h : rhopfield) : bytes := rhf_in h :: rhf_eg h :: rhf_exp h :: put_bytes (rhf_mac h).
  Definition get_rhf (l : bytes) : option (rhopfield * bytes) :=
    match l with
    | a :: b :: c :: r => match get_bytes r with Some (m, r') => Some (mkRHF a b c m, r') | None => None end
    | _ => None
    end.
  Definition enc_orhf (o : option rhopfield) : bytes := match o with None => [0] | Some h => 1 :: enc_rhf h end.
  Definition get_orhf (l : bytes) : option (option rhopfield * bytes) :=
    match l with
    | t :: r => if t =? 0 then Some (None, r)
                else match get_rhf r with Some (h, r') => Some (Some h, r') | None => None end
    | [] => None
    end.
  Definition enc_peer (p : rpeer) : bytes := rpe_ia p :: rpe_if p :: rpe_mtu p :: enc_orhf (rpe_hf p).
  Definition get_peer (l : bytes) : option (rpeer * bytes) :=
    match l with
    | a :: b :: c :: r => match get_orhf r with Some (h, r') => Some (mkRPE a b c h, r') | None => None end
    | _ => None
    end.
  Fixpoint get_peers (k : nat) (l : bytes) : option (list rpeer * bytes) :=
    match k with
    | O => Some ([], l)
    | S k' => match get_peer l with
              | Some (p, r) => match get_peers k' r with Some (ps, r') => Some (p :: ps, r') | None => None end
              | None => None
              end
    end.
  Definition enc_body (b : rbody) : bytes :=
    rb_ia b :: rb_next b :: rb_mtu b ::
    match rb_hop b with None => [0] | Some e => 1 :: rhe_mtu e :: enc_orhf (rhe_hf e) end
    ++ N.of_nat (length (rb_peers b)) :: flat_map enc_peer (rb_peers b).
  Definition dec_body (l : bytes) : option rbody :=
    match l with
    | a :: b :: c :: t :: r =>
      match (if t =? 0 then Some (None, r)
             else match r with
                  | m :: r1 => match get_orhf r1 with Some (h, r2) => Some (Some (mkRHE h m), r2) | None => None end
                  | [] => None end) with
      | Some (hop, n :: r3) =>
        match get_peers (N.to_nat n) r3 with Some (ps, []) => Some (mkRB a b hop ps c) | _ => None end
      | _ => None
      end
    | _ => None
    end.

  Lemma get_put_bytes b rest : get_bytes (put_bytes b ++ rest) = Some (b, rest).
  Proof. unfold get_bytes, put_bytes. cbn [app]. destruct (split_ok b rest) as (-> & -> & ->). reflexivity. Qed.
  Lemma get_enc_rhf h rest : get_rhf (enc_rhf h ++ rest) = Some (h, rest).
  Proof. unfold get_rhf, enc_rhf. cbn [app]. rewrite get_put_bytes. destruct h; reflexivity. Qed.
  Lemma get_enc_orhf o rest : get_orhf (enc_orhf o ++ rest) = Some (o, rest).
  Proof.
    destruct o as [h|]; unfold get_orhf, enc_orhf; cbn [app]; [|reflexivity].
    change (1 =? 0) with false. cbv iota. rewrite get_enc_rhf. reflexivity.
  Qed.
  Lemma get_enc_peer p rest : get_peer (enc_peer p ++ rest) = Some (p, rest).
  Proof. unfold get_peer, enc_peer. cbn [app]. rewrite get_enc_orhf. destruct p; reflexivity. Qed.
  Lemma get_enc_peers ps rest : get_peers (length ps) (flat_map enc_peer ps ++ rest) = Some (ps, rest).
  Proof.
    induction ps as [|p ps IH]; [reflexivity|]. cbn [length get_peers flat_map].
    rewrite <- app_assoc, get_enc_peer, IH. reflexivity.
  Qed.
  Lemma body_roundtrip b : dec_body (enc_body b) = Some b.
  Proof.
    unfold dec_body, enc_body. destruct b as [ia nx hop peers mtu]. cbn [rb_ia rb_next rb_mtu rb_hop rb_peers].
    destruct hop as [[hf m]|]; cbn [app rhe_mtu rhe_hf].
    - change (1 =? 0) with false. cbv iota. rewrite get_enc_orhf. rewrite Nat2N.id.
      rewrite <- (app_nil_r (flat_map enc_peer peers)), get_enc_peers. reflexivity.
    - change (0 =? 0) with true. cbv iota. rewrite Nat2N.id.
      rewrite <- (app_nil_r (flat_map enc_peer peers)), get_enc_peers. reflexivity.
  Qed.
End Toy.
