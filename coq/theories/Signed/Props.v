(** C18 -- property theorems only.  Each is closed by short glue from lemmas of [Proofs] and
    followed by [Print Assumptions].  ECDSA, the digests, the DER parser and the protobuf
    codec are universally quantified functions; where a theorem needs something of them it is
    a premise that the instances of [Proofs.Toy] satisfy. *)
From Sci Require Import Signed.Model Signed.Spec Signed.Proofs Signed.PathProofs Signed.Framing.
Local Open Scope N_scope.

(** [SignedMessage::validate] succeeds exactly when the header-and-body framing and the header
    decode, the verifier resolves a key for the header's key id, the header's associated-data
    length equals the supplied one, the algorithm id is one of the three supported ones, the
    signature blob parses, and the signature verifies under the resolved key over the digest
    of [header_and_body ++ associated data]; and it never panics. *)
Theorem validate_characterised :
  forall (PK SIG : Type) (hash : N -> bytes -> bytes) (sig_parse : bytes -> option SIG)
         (sig_verify : PK -> bytes -> SIG -> bool) (dec_hb : bytes -> option (bytes * bytes))
         (dec_hdr : bytes -> option header) (key_of : bytes -> option PK)
         (m : signed) (alen : N) (assoc : bytes),
    (forall hdr body,
       sm_validate hash sig_parse sig_verify dec_hb dec_hdr key_of m alen assoc = Ok (hdr, body) <->
       exists hbytes vk a sg,
         dec_hb (s_hb m) = Some (hbytes, body) /\ dec_hdr hbytes = Some hdr /\
         key_of (h_kid hdr) = Some vk /\ usize_of_i32 (h_alen hdr) = alen /\
         digest_alg (h_alg hdr) = Some a /\ sig_parse (s_sig m) = Some sg /\
         sig_verify vk (hash a (s_hb m ++ assoc)) sg = true)
    /\ is_panic (sm_validate hash sig_parse sig_verify dec_hb dec_hdr key_of m alen assoc) = false.
Proof.
  intros. split; [intros hdr body; apply validate_ok_iff|apply validate_no_panic].
Qed.
Print Assumptions validate_characterised.

(** completeness: what [SignedMessage::sign] produces validates under the signer's public key
    with the same associated data (any of the three digests; associated data below 2 GiB,
    see [Findings.assoc_length_truncated]) *)
Theorem sign_validates :
  forall (K PK SIG : Type) hash (sig_sign : K -> bytes -> bytes) (sig_parse : bytes -> option SIG)
         (sig_verify : PK -> bytes -> SIG -> bool) (pk : K -> PK) enc_hb dec_hb enc_hdr dec_hdr,
    (forall k d, exists sg, sig_parse (sig_sign k d) = Some sg /\ sig_verify (pk k) d sg = true) ->
    (forall h b, dec_hb (enc_hb h b) = Some (h, b)) -> (forall h, dec_hdr (enc_hdr h) = Some h) ->
    forall key_of key a ts kid alen assoc body meta,
      a = 1 \/ a = 2 \/ a = 3 -> alen < 2 ^ 31 -> key_of kid = Some (pk key) ->
      exists hdr,
        sm_validate hash sig_parse sig_verify dec_hb dec_hdr key_of
          (sm_sign hash sig_sign enc_hb enc_hdr key a ts kid alen assoc body meta) alen assoc = Ok (hdr, body)
        /\ h_kid hdr = kid /\ h_meta hdr = meta.
Proof. intros. eapply sign_validates; eassumption. Qed.
Print Assumptions sign_validates.
(** the premises are satisfiable *)
Example sign_validates_instance :
  exists hdr, sm_validate Toy.hash Toy.sig_parse Toy.sig_verify Toy.dec_hb Toy.dec_hdr (fun _ => Some 7)
                (sm_sign Toy.hash Toy.sig_sign Toy.enc_hb Toy.enc_hdr 7 1 5 [1] 2 [3; 4] [9] []) 2 [3; 4] = Ok (hdr, [9])
              /\ h_kid hdr = [1] /\ h_meta hdr = [].
Proof.
  apply (sign_validates N N bytes Toy.hash Toy.sig_sign Toy.sig_parse Toy.sig_verify Toy.pk _ _ _ _
           Toy.sig_correct Toy.hb_roundtrip Toy.hdr_roundtrip); [left; reflexivity|reflexivity|reflexivity].
Qed.

(** The associated data of the entry stored at index [i] is the segment info followed by the
    header_and_body and signature of entries 0..i-1, and the signed input is the chain rule of
    the protocol definition ([Spec.spec_input]) -- for EVERY segment: after the repair the
    prefix is positional, no premise about repeated entries is needed. *)
Theorem assoc_is_info_and_predecessors :
  forall (sg : segment) (i : nat) (e : sentry),
    nth_error (sg_entries sg) i = Some e ->
    assoc_at sg i = si_enc (sg_info sg) ++ concat (map entry_chunk (firstn i (sg_entries sg)))
    /\ s_hb (se_signed e) ++ assoc_at sg i = spec_input (si_enc (sg_info sg)) (seg_pairs sg) i.
Proof. intros sg i e H. split; [apply assoc_at_concat|apply assoc_at_spec, H]. Qed.
Print Assumptions assoc_is_info_and_predecessors.

(** The code before the repair (prefix by VALUE) computed the same associated data on every
    segment WITHOUT repeated entries: the repair changes nothing there.  ([Findings.
    assoc_dup_refuted]: with a repeated entry it did not.) *)
Theorem assoc_by_value_agrees_without_duplicates :
  forall (E : Type) (eqb : E -> E -> bool) info (entries : list (E * bytes)) i x c,
    (forall a b, eqb a b = true <-> a = b) -> NoDup (map fst entries) ->
    nth_error entries i = Some (x, c) ->
    assoc_by_value eqb info entries x = info ++ flat_map snd (firstn i entries).
Proof. intros. eapply assoc_by_value_nodup; eassumption. Qed.
Print Assumptions assoc_by_value_agrees_without_duplicates.

(** [validate_signature] of the entry at index [i]: accepted exactly when [validate]'s
    conditions hold with the chain-rule input of index [i] -- the entry itself, the segment
    info and ALL preceding entries. *)
Theorem validate_signature_characterised :
  forall (PK SIG : Type) hash (sig_parse : bytes -> option SIG) (sig_verify : PK -> bytes -> SIG -> bool)
         dec_hb dec_hdr (key_of : bytes -> option PK) sg i e,
    nth_error (sg_entries sg) i = Some e ->
    (validate_signature hash sig_parse sig_verify dec_hb dec_hdr key_of sg i e = Ok tt <->
     exists hbytes body hdr vk a s,
       dec_hb (s_hb (se_signed e)) = Some (hbytes, body) /\ dec_hdr hbytes = Some hdr /\
       key_of (h_kid hdr) = Some vk /\
       usize_of_i32 (h_alen hdr) = N.of_nat (length (assoc_at sg i)) /\
       digest_alg (h_alg hdr) = Some a /\ sig_parse (s_sig (se_signed e)) = Some s /\
       sig_verify vk (hash a (spec_input (si_enc (sg_info sg)) (seg_pairs sg) i)) s = true).
Proof.
  intros PK SIG hash sig_parse sig_verify dec_hb dec_hdr key_of sg i e Hn. unfold validate_signature.
  rewrite <- (assoc_at_spec sg i e Hn). split.
  - destruct (sm_validate hash sig_parse sig_verify dec_hb dec_hdr key_of (se_signed e)
                (N.of_nat (length (assoc_at sg i))) (assoc_at sg i)) as [[hdr body]|err|s] eqn:E; cbn [obind]; try discriminate.
    intros _. apply validate_ok_iff in E. destruct E as (hbytes & vk & a & s & E).
    exists hbytes, body, hdr, vk, a, s. exact E.
  - intros (hbytes & body & hdr & vk & a & s & E).
    assert (sm_validate hash sig_parse sig_verify dec_hb dec_hdr key_of (se_signed e)
              (N.of_nat (length (assoc_at sg i))) (assoc_at sg i) = Ok (hdr, body)) as ->
      by (apply validate_ok_iff; exists hbytes, vk, a, s; exact E).
    reflexivity.
Qed.
Print Assumptions validate_signature_characterised.

(** Any alteration that keeps the lengths of the parts (every bit flip of the body or header
    inside header_and_body, of the segment info, of an earlier entry's header_and_body or
    signature; exchanging entries of equal length) changes the signed input: equal inputs with
    equal part lengths have equal parts.  The step from "different input" to "verification
    fails" is the security of ECDSA-P256 / SHA-256 (trusted base). *)
Theorem tamper_changes_digest_input :
  forall hb hb' info info' (chunks chunks' : list bytes),
    length hb = length hb' -> length info = length info' ->
    Forall2 (fun c c' => length c = length c') chunks chunks' ->
    hb ++ info ++ concat chunks = hb' ++ info' ++ concat chunks' ->
    hb = hb' /\ info = info' /\ chunks = chunks'.
Proof. intros. apply digest_input_injective; assumption. Qed.
Print Assumptions tamper_changes_digest_input.

(** An alteration that changes the TOTAL length of the associated data (dropping or adding
    entries, replacing an entry by one of another size) is rejected before any cryptography:
    the header of the entry declares the length it was signed with. *)
Theorem length_change_rejected :
  forall (PK SIG : Type) hash (sig_parse : bytes -> option SIG) (sig_verify : PK -> bytes -> SIG -> bool)
         dec_hb dec_hdr (key_of : bytes -> option PK) m alen assoc hbytes body hdr vk,
    dec_hb (s_hb m) = Some (hbytes, body) -> dec_hdr hbytes = Some hdr ->
    key_of (h_kid hdr) = Some vk -> usize_of_i32 (h_alen hdr) <> alen ->
    sm_validate hash sig_parse sig_verify dec_hb dec_hdr key_of m alen assoc
    = Err (VAssocLen (usize_of_i32 (h_alen hdr)) alen).
Proof. intros. eapply validate_length_mismatch; eassumption. Qed.
Print Assumptions length_change_rejected.

(** Reordering, dropping or inserting earlier entries while keeping the total length: the
    chunks (header_and_body ++ signature of one entry) are self-delimiting in the real
    encoding (protobuf LEN fields followed by a DER SEQUENCE); for ANY prefix-free set of
    non-empty chunks a different chunk list gives a different signed input.
    PARTIAL: that the real encoding is prefix-free is not modelled (protobuf/DER are oracles). *)
Theorem reorder_changes_digest_input_partial :
  forall (C : bytes -> Prop) hb hb' info info' (chunks chunks' : list bytes),
    (forall a t, C a -> C (a ++ t) -> t = []) -> (forall a, C a -> a <> []) ->
    Forall C chunks -> Forall C chunks' ->
    length hb = length hb' -> length info = length info' ->
    hb ++ info ++ concat chunks = hb' ++ info' ++ concat chunks' ->
    hb = hb' /\ info = info' /\ chunks = chunks'.
Proof. intros C hb hb' info info' cs cs' PF NE F F' H1 H2 H. eapply digest_input_injective_prefix_free; eassumption. Qed.
Print Assumptions reorder_changes_digest_input_partial.

(** Converting a segment value to its RPC form and back yields the same value, for every
    value satisfying the representation invariant [seg_inv] ... *)
Theorem rpc_roundtrip_segment :
  forall dec_hb dec_body enc_info dec_info,
    (forall ts id, dec_info (enc_info ts id) = Some (ts, id)) ->
    forall sg, seg_inv dec_hb dec_body enc_info sg ->
      segment_from_rpc dec_hb dec_body enc_info dec_info (segment_to_rpc enc_info sg) = Ok sg.
Proof. intros. apply segment_roundtrip; assumption. Qed.
Print Assumptions rpc_roundtrip_segment.

(** non-vacuity, with the codec instances of [Proofs.Toy]: a signed two-entry segment *)
Example rpc_roundtrip_segment_instance :
  let e := fun ia => mkAE ia (ia + 1) 1500 (mkHE 1400 (mkHF 63 1 2 [1; 2; 3; 4; 5; 6]))
                          [mkPE 9 3 1400 (mkHF 10 3 0 [6; 5; 4; 3; 2; 1])] [] [] in
  let add := fun sg ia => add_entry Toy.hash Toy.sig_sign Toy.enc_hb Toy.enc_hdr Toy.enc_body sg (e ia) ia [ia] 9 in
  let sg := add (add (mkSeg (seginfo_new Toy.enc_info 100 7) []) 1) 2 in
  segment_from_rpc Toy.dec_hb Toy.dec_body Toy.enc_info Toy.dec_info (segment_to_rpc Toy.enc_info sg) = Ok sg.
Proof. vm_compute. reflexivity. Qed.

(** ... which holds of every value the API can build: the result of [try_from_rpc], the empty
    segment, and the result of signing a well-formed entry onto a segment that has it. *)
Theorem segment_values_satisfy_invariant :
  forall (K : Type) hash (sig_sign : K -> bytes -> bytes) enc_hb dec_hb enc_hdr enc_body dec_body enc_info dec_info,
    (forall h b, dec_hb (enc_hb h b) = Some (h, b)) -> (forall b, dec_body (enc_body b) = Some b) ->
    (forall r sg, segment_from_rpc dec_hb dec_body enc_info dec_info r = Ok sg -> seg_inv dec_hb dec_body enc_info sg)
    /\ (forall ts id, ts <= 4294967295 -> id <= 65535 ->
          seg_inv dec_hb dec_body enc_info (mkSeg (seginfo_new enc_info ts id) []))
    /\ (forall sg e key kid ts, seg_inv dec_hb dec_body enc_info sg -> asentry_wf e ->
          seg_inv dec_hb dec_body enc_info (add_entry hash sig_sign enc_hb enc_hdr enc_body sg e key kid ts)).
Proof.
  intros K hash sig_sign enc_hb dec_hb enc_hdr enc_body dec_body enc_info dec_info Hhb Hbody.
  refine (conj _ (conj _ _)).
  - intros r sg. exact (segment_from_rpc_inv enc_hb dec_hb dec_body enc_info dec_info r sg).
  - intros ts id. exact (empty_segment_inv dec_hb dec_body enc_info ts id).
  - intros sg e key kid ts. apply add_entry_inv; assumption.
Qed.
Print Assumptions segment_values_satisfy_invariant.
(** the codec premises are satisfiable *)
Example segment_values_satisfy_invariant_instance :
  forall sg e key kid ts, seg_inv Toy.dec_hb Toy.dec_body Toy.enc_info sg -> asentry_wf e ->
    seg_inv Toy.dec_hb Toy.dec_body Toy.enc_info
            (add_entry Toy.hash Toy.sig_sign Toy.enc_hb Toy.enc_hdr Toy.enc_body sg e key kid ts).
Proof.
  exact (proj2 (proj2 (segment_values_satisfy_invariant N Toy.hash Toy.sig_sign Toy.enc_hb Toy.dec_hb Toy.enc_hdr
                         Toy.enc_body Toy.dec_body Toy.enc_info Toy.dec_info Toy.hb_roundtrip Toy.body_roundtrip))).
Qed.

(** Converting a path value to its RPC form and back yields the same value, for every value
    that HAS an RPC form ([Spec.path_repr]: what [try_from_rpc] can produce from a message with
    non-negative times and link types that do not alias -- fields within their protocol ranges,
    link data only where the protocol has a slot for it, all-or-nothing link types and internal
    hop counts, no data on the last interface).  [Findings] shows the excluded values are
    really not representable.  The standard-path parser and the socket-address text form are
    oracles: the address must survive print-then-parse, a raw path accepted by [std_ok] must
    parse without rest. *)
Theorem rpc_roundtrip_path :
  forall (SA : Type) (std_parse : bytes -> option bytes) (sa_parse : bytes -> option SA)
         (sa_show : SA -> bytes) (std_ok : bytes -> bool),
    (forall a, sa_parse (sa_show a) = Some a) ->
    (forall raw, std_ok raw = true -> std_parse raw = Some []) ->
    forall p : spath SA,
      path_repr std_ok p = true ->
      path_from_rpc std_parse sa_parse (path_to_rpc sa_show p) (sp_src p) (sp_dst p) = Ok p.
Proof. intros. eapply path_roundtrip; eassumption. Qed.
Print Assumptions rpc_roundtrip_path.
(** ... and every value [try_from_rpc] produces from a canonical message (expiration and
    latencies within i64 and non-negative expiration, link types that survive the [as u8] of
    [LinkType::from_i32], u32 hop counts) HAS an RPC form: together with [rpc_roundtrip_path],
    a path received over RPC converts to RPC and back to itself. *)
Theorem received_path_roundtrips :
  forall (SA : Type) (std_parse : bytes -> option bytes) (sa_parse : bytes -> option SA)
         (sa_show : SA -> bytes) (std_ok : bytes -> bool),
    (forall a, sa_parse (sa_show a) = Some a) ->
    (forall raw, std_ok raw = true <-> std_parse raw = Some []) ->
    forall r src dst (p : spath SA),
      path_from_rpc std_parse sa_parse r src dst = Ok p -> rpath_canonical r = true ->
      path_repr std_ok p = true /\
      path_from_rpc std_parse sa_parse (path_to_rpc sa_show p) (sp_src p) (sp_dst p) = Ok p.
Proof.
  intros SA std_parse sa_parse sa_show std_ok Hsa Hstd r src dst p H Hc.
  assert (path_repr std_ok p = true) as Hr
    by (eapply path_from_rpc_repr; [intros raw; apply Hstd|exact H|exact Hc]).
  split; [exact Hr|]. eapply path_roundtrip; [exact Hsa|intros raw; apply Hstd|exact Hr].
Qed.
Print Assumptions received_path_roundtrips.
(** non-vacuity: a four-interface path with latencies, bandwidths, geo data, link types,
    internal hops, notes, EPIC authenticators and a next hop is representable and comes back *)
Example rpc_roundtrip_path_instance :
  path_repr (fun _ => true) example_path = true /\
  path_from_rpc (fun _ => Some []) (fun a => Some a) (path_to_rpc (fun a => a) example_path)
                (sp_src example_path) (sp_dst example_path) = Ok example_path.
Proof.
  split; [vm_compute; reflexivity|].
  apply (rpc_roundtrip_path bytes (fun _ => Some []) (fun a => Some a) (fun a => a) (fun _ => true));
    [reflexivity|reflexivity|vm_compute; reflexivity].
Qed.

(** Converting arbitrary decoded RPC messages yields a value or an error: no panic site of the
    converters (the [mac[..6]] slice and [expect], [Self::local(..).expect(..)]) is reachable,
    whatever the protobuf decoders, the path parser and the address parser return. *)
Theorem from_rpc_total :
  forall (SA : Type) dec_hb dec_body enc_info dec_info std_parse (sa_parse : bytes -> option SA),
    (forall r, is_panic (segment_from_rpc dec_hb dec_body enc_info dec_info r) = false)
    /\ (forall r src dst, is_panic (path_from_rpc std_parse sa_parse r src dst) = false).
Proof.
  intros. split; [intros r; apply segment_from_rpc_no_panic|intros r src dst; apply path_from_rpc_no_panic].
Qed.
Print Assumptions from_rpc_total.
(** the panic site is real: the model's slice panics on a short MAC when the guard is absent *)
Example slice_site_is_real : @slice_to rerr [1; 2; 3] 6 1 = Panic 1.
Proof. reflexivity. Qed.

(** Reordering, dropping or inserting preceding entries (or changing the header_and_body, or
    the info) changes the signed input, with the framing of the real encoding modelled: the
    header_and_body of every entry is an encoder output [enc_hb header body] and the encoder is
    prefix-free (protobuf: two non-empty length-delimited fields), every signature is a blob of
    a prefix-free set (DER SEQUENCE).  Equal signed inputs then have the same header_and_body,
    the same info and the same (header_and_body, signature) pairs of preceding entries IN THE
    SAME ORDER AND NUMBER -- no premise on the lengths of the entries.  The two prefix-freeness
    premises are properties of protobuf length-delimited encoding and of DER (trusted base);
    [Framing.LenPrefixed] satisfies them. *)
Theorem reorder_changes_digest_input :
  forall (enc_hb : bytes -> bytes -> bytes) (is_sig : bytes -> Prop),
    (forall h b h' b' t, enc_hb h' b' = enc_hb h b ++ t -> t = []) ->
    (forall s t, is_sig s -> is_sig (s ++ t) -> t = []) -> (forall s, is_sig s -> s <> []) ->
    forall sg sg' i i' e e',
      Forall (entry_framed enc_hb is_sig) (sg_entries sg) ->
      Forall (entry_framed enc_hb is_sig) (sg_entries sg') ->
      IsHB enc_hb (s_hb (se_signed e)) -> IsHB enc_hb (s_hb (se_signed e')) ->
      length (si_enc (sg_info sg)) = length (si_enc (sg_info sg')) ->
      s_hb (se_signed e) ++ assoc_at sg i = s_hb (se_signed e') ++ assoc_at sg' i' ->
      s_hb (se_signed e) = s_hb (se_signed e') /\ si_enc (sg_info sg) = si_enc (sg_info sg')
      /\ map pair_of (firstn i (sg_entries sg)) = map pair_of (firstn i' (sg_entries sg')).
Proof. intros enc_hb is_sig H1 H2 H3 sg sg' i i' e e'. apply framed_input_injective; assumption. Qed.
Print Assumptions reorder_changes_digest_input.

(** the usual reading: same entry, same info, a DIFFERENT list of preceding entries (permuted,
    shortened, extended, one replaced) gives a different signed input *)
Theorem different_predecessors_different_input :
  forall (enc_hb : bytes -> bytes -> bytes) (is_sig : bytes -> Prop),
    (forall h b h' b' t, enc_hb h' b' = enc_hb h b ++ t -> t = []) ->
    (forall s t, is_sig s -> is_sig (s ++ t) -> t = []) -> (forall s, is_sig s -> s <> []) ->
    forall info es es' e,
      Forall (entry_framed enc_hb is_sig) es -> Forall (entry_framed enc_hb is_sig) es' ->
      IsHB enc_hb (s_hb (se_signed e)) -> map pair_of es <> map pair_of es' ->
      s_hb (se_signed e) ++ assoc_at (mkSeg info es) (length es)
      <> s_hb (se_signed e) ++ assoc_at (mkSeg info es') (length es').
Proof.
  intros enc_hb is_sig H1 H2 H3 info es es' e F F' He Hne H. apply Hne.
  destruct (framed_input_injective enc_hb is_sig H1 H2 H3 (mkSeg info es) (mkSeg info es') (length es) (length es') e e
              F F' He He eq_refl H) as (_ & _ & E).
  cbn [sg_entries] in E. rewrite !firstn_all in E. exact E.
Qed.
Print Assumptions different_predecessors_different_input.
(** the framing premises are satisfiable, and the theorem applies to a swap of two entries *)
Example reorder_instance :
  let hb := fun k => LenPrefixed.enc_hb [k] [k; k] in
  let e := fun k => mkSE (mkAE k 0 0 (mkHE 0 (mkHF 0 0 0 [])) [] [] []) (mkSigned (hb k) [1; k]) in
  let info := mkSI 0 0 [8; 5] in
  hb 3 ++ assoc_at (mkSeg info [e 1; e 2]) 2 <> hb 3 ++ assoc_at (mkSeg info [e 2; e 1]) 2.
Proof.
  intros hb e info.
  assert (forall k, entry_framed LenPrefixed.enc_hb LenPrefixed.is_sig (e k)) as Fe
    by (intros k; split; [exists [k], [k; k]; reflexivity|exists [k]; reflexivity]).
  apply (different_predecessors_different_input LenPrefixed.enc_hb LenPrefixed.is_sig
           LenPrefixed.hb_prefix_free LenPrefixed.sig_prefix_free LenPrefixed.sig_nonempty
           info [e 1; e 2] [e 2; e 1] (e 3)).
  - constructor; [apply Fe|constructor; [apply Fe|constructor]].
  - constructor; [apply Fe|constructor; [apply Fe|constructor]].
  - exact (proj1 (Fe 3)).
  - cbv. congruence.
Qed.
