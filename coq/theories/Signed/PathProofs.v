(** C18 -- round trip of daemon path values through their RPC form (lemmas for [Props]). *)
From Coq Require Import Lia ZifyBool ZifyNat ZifyN.
From Sci Require Import Gen.SignedConfig Signed.Model Signed.Spec Signed.Proofs.
Local Open Scope N_scope.
Ltac Zify.zify_post_hook ::= Z.div_mod_to_equations.
Arguments N.add : simpl never. Arguments N.sub : simpl never. Arguments N.mul : simpl never.
Arguments N.div : simpl never. Arguments N.modulo : simpl never. Arguments N.eqb : simpl never.
Arguments N.ltb : simpl never. Arguments N.leb : simpl never.

(** * lists, two elements at a time *)
Lemma list_ind2 {A} (P : list A -> Prop) :
  P [] -> (forall a, P [a]) -> (forall a b l, P l -> P (a :: b :: l)) -> forall l, P l.
Proof.
  intros H0 H1 H2. assert (forall l, P l /\ forall a, P (a :: l)) as H.
  { induction l as [|x l [IH1 IH2]]; split; auto. }
  intros l. apply H.
Qed.

Lemma evens_map {A B} (f : A -> B) l : evens (map f l) = map f (evens l).
Proof. induction l as [|a|a b l IH] using list_ind2; cbn [map evens]; [reflexivity|reflexivity|]. rewrite IH. reflexivity. Qed.
Lemma odds_map {A B} (f : A -> B) l : odds (map f l) = map f (odds l).
Proof. destruct l as [|a l]; [reflexivity|]. cbn [map odds]. apply evens_map. Qed.

Lemma evens_cons2 {A} (x y : A) l : evens (x :: y :: l) = x :: evens l.
Proof. reflexivity. Qed.
Lemma odds_cons2 {A} (x y : A) l : odds (x :: y :: l) = y :: odds l.
Proof. destruct l; reflexivity. Qed.

Lemma length_odds {A} (l : list A) : length (odds l) = (length l / 2)%nat.
Proof.
  induction l as [|a|a b l IH] using list_ind2; [reflexivity|reflexivity|].
  rewrite odds_cons2. cbn [length]. rewrite IH. lia.
Qed.

Lemma evens_odds_inj {A} (a b : list A) : evens a = evens b -> odds a = odds b -> a = b.
Proof.
  revert b. induction a as [|x|x y a IH] using list_ind2; intros b H1 H2.
  - destruct b as [|u b]; [reflexivity|]. destruct b; discriminate.
  - destruct b as [|u [|v b]]; [discriminate|cbn in H1; congruence|].
    rewrite odds_cons2 in H2. discriminate.
  - destruct b as [|u [|v b]]; [discriminate| |].
    + rewrite odds_cons2 in H2. discriminate.
    + rewrite !evens_cons2 in H1. rewrite !odds_cons2 in H2.
      injection H1 as -> H1. injection H2 as -> H2. f_equal. f_equal. apply IH; assumption.
Qed.

Lemma evens_cons {A} (x : A) r : evens (x :: r) = x :: odds r.
Proof. destruct r; reflexivity. Qed.

Lemma skipn_nil' {A} n : skipn n (@nil A) = [].
Proof. destruct n; reflexivity. Qed.

(** * what the updates of [try_from_rpc] do to one projection of the metadata *)
Section Projections.
Context {A B C : Type} (pr : A -> C) (f : A -> B -> A).

Lemma map_zip_set_pres l vs : (forall a v, pr (f a v) = pr a) -> map pr (zip_set f l vs) = map pr l.
Proof.
  intros H. revert vs. induction l as [|a l IH]; intros [|v vs]; cbn [zip_set map]; try reflexivity.
  rewrite H, IH. reflexivity.
Qed.

Lemma map_zip_set_set (h : B -> C) l vs :
  (forall a v, pr (f a v) = h v) ->
  map pr (zip_set f l vs) = map h (firstn (length l) vs) ++ skipn (length vs) (map pr l).
Proof.
  intros H. revert vs. induction l as [|a l IH]; intros [|v vs]; cbn [zip_set map length firstn skipn app]; try reflexivity.
  rewrite H, IH. reflexivity.
Qed.

Lemma map_set_even_pres l vs : (forall a v, pr (f a v) = pr a) -> map pr (set_even f l vs) = map pr l.
Proof.
  intros H. revert vs. induction l as [|a|a b l IH] using list_ind2; intros [|v vs]; cbn [set_even map]; try reflexivity.
  - rewrite H. reflexivity.
  - rewrite H, IH. reflexivity.
Qed.

Lemma map_set_odd_pres l vs : (forall a v, pr (f a v) = pr a) -> map pr (set_odd f l vs) = map pr l.
Proof. intros H. destruct l as [|a l]; [reflexivity|]. cbn [set_odd map]. rewrite map_set_even_pres by exact H. reflexivity. Qed.

Lemma odds_set_even l vs : odds (map pr (set_even f l vs)) = odds (map pr l).
Proof.
  revert vs. induction l as [|a|a b l IH] using list_ind2; intros [|v vs]; cbn [set_even map]; try reflexivity.
  rewrite !odds_cons2, IH. reflexivity.
Qed.

Lemma evens_set_even (h : B -> C) l vs :
  (forall a v, pr (f a v) = h v) ->
  evens (map pr (set_even f l vs))
  = map h (firstn (length (evens l)) vs) ++ skipn (length vs) (evens (map pr l)).
Proof.
  intros H. revert vs. induction l as [|a|a b l IH] using list_ind2; intros [|v vs];
    cbn [set_even map evens length firstn skipn app]; try reflexivity.
  - rewrite H, skipn_nil'. reflexivity.
  - rewrite H, IH. reflexivity.
Qed.

Lemma evens_set_odd l vs : evens (map pr (set_odd f l vs)) = evens (map pr l).
Proof.
  destruct l as [|a l]; [reflexivity|]. cbn [set_odd map]. rewrite !evens_cons, odds_set_even. reflexivity.
Qed.

Lemma odds_set_odd (h : B -> C) l vs :
  (forall a v, pr (f a v) = h v) ->
  odds (map pr (set_odd f l vs))
  = map h (firstn (length (odds l)) vs) ++ skipn (length vs) (odds (map pr l)).
Proof.
  intros H. destruct l as [|a l]; [cbn; rewrite skipn_nil'; reflexivity|].
  cbn [set_odd map odds]. apply evens_set_even, H.
Qed.
End Projections.

Lemma ifmeta_list_ext (l l' : list ifmeta) :
  map im_ia l = map im_ia l' -> map im_id l = map im_id l' -> map im_geo l = map im_geo l' ->
  map im_lat l = map im_lat l' -> map im_bw l = map im_bw l' -> map im_link l = map im_link l' ->
  l = l'.
Proof.
  revert l'. induction l as [|a l IH]; intros [|b l'] H1 H2 H3 H4 H5 H6; try discriminate; [reflexivity|].
  cbn [map] in *. injection H1 as E1 H1. injection H2 as E2 H2. injection H3 as E3 H3.
  injection H4 as E4 H4. injection H5 as E5 H5. injection H6 as E6 H6.
  f_equal; [destruct a, b; cbn in *; congruence|apply IH; assumption].
Qed.

(** * field conversions, there and back *)
Lemma linktype_roundtrip t : lt_repr t = true -> linktype_of_i32 (linktype_to_i32 t) = t.
Proof.
  destruct t as [| | | |v]; try reflexivity. cbn [lt_repr linktype_to_i32]. intros H.
  unfold linktype_of_i32, u8_of_i32. assert (LT_UNSET = 0 /\ LT_DIRECT = 1 /\ LT_MULTIHOP = 2 /\ LT_OPENNET = 3)%Z as (-> & -> & -> & ->) by (repeat split; reflexivity).
  assert ((Z.of_N v =? 0)%Z = false) as -> by lia. assert ((Z.of_N v =? 1)%Z = false) as -> by lia.
  assert ((Z.of_N v =? 2)%Z = false) as -> by lia. assert ((Z.of_N v =? 3)%Z = false) as -> by lia.
  f_equal. rewrite Z.mod_small by lia. apply N2Z.id.
Qed.

Lemma latency_roundtrip l : lat_repr l = true -> latency_from_rpc (latency_to_rpc l) = l.
Proof.
  destruct l as [[s n]|]; [|reflexivity]. cbn [lat_repr latency_to_rpc]. intros H.
  assert ((I64_MAX <? s) = false) as -> by (unfold I64_MAX; lia).
  unfold latency_from_rpc, NANOS_PER_SECOND.
  assert ((Z.of_N s <? 0)%Z = false) as -> by lia.
  assert (((Z.of_N n <=? - (1000000000))%Z || (1000000000 <=? Z.of_N n)%Z) = false) as -> by lia.
  assert (((0 <? Z.of_N s)%Z && (Z.of_N n <? 0)%Z) = false) as -> by lia.
  assert (((0 <=? Z.of_N s)%Z && (0 <=? Z.of_N n)%Z) = true) as -> by lia.
  rewrite !N2Z.id. reflexivity.
Qed.

Lemma bw_roundtrip b : match b with Some x => 0 <? x | None => true end = true ->
  (if 0 <? opt_default 0 b then Some (opt_default 0 b) else None) = b.
Proof. destruct b as [x|]; cbn [opt_default]; [intros ->; reflexivity|reflexivity]. Qed.

Lemma geo_roundtrip g : match g with Some x => geo_repr x | None => true end = true ->
  geo_from_rpc (match g with Some x => geo_to_rpc x | None => (0, 0, []) end) = g.
Proof.
  destruct g as [[la lo ad]|]; [|reflexivity]. unfold geo_repr, geo_to_rpc, geo_from_rpc. cbn [g_lat g_lon g_addr].
  destruct ad as [[|c ad]|]; cbn [is_nil]; intros H.
  - rewrite Bool.andb_false_r in H. discriminate.
  - rewrite Bool.andb_false_r. reflexivity.
  - rewrite !Bool.andb_true_r in H. apply Bool.negb_true_iff in H. rewrite Bool.andb_true_r, H. reflexivity.
Qed.

(** * structure of an interface list of even, positive length *)
Lemma even_decomp {A} (l : list A) :
  l <> [] -> Nat.even (length l) = true ->
  exists l' z, l = l' ++ [z] /\ odds l = firstn (length l / 2 - 1) (odds l) ++ [z]
               /\ length (evens l) = (length l / 2)%nat /\ length (odds l) = (length l / 2)%nat.
Proof.
  induction l as [|a|a b r IH] using list_ind2; intros Hne Hev; [congruence|discriminate|].
  destruct r as [|c r'].
  - exists [a], b. repeat split; reflexivity.
  - destruct IH as (l' & z & E1 & E2 & E3 & E4); [discriminate|exact Hev|].
    exists (a :: b :: l'), z. rewrite odds_cons2, evens_cons2.
    assert (length (a :: b :: c :: r') / 2 = S (length (c :: r') / 2))%nat as Hd by (cbn [length]; lia).
    assert (1 <= length (c :: r') / 2)%nat as Hge by (cbn [length] in *; destruct r'; [discriminate|cbn [length]; lia]).
    rewrite Hd. refine (conj _ (conj _ (conj _ _))).
    + rewrite E1 at 1. reflexivity.
    + replace (S (length (c :: r') / 2) - 1)%nat with (S (length (c :: r') / 2 - 1)) by lia.
      cbn [firstn app]. f_equal. exact E2.
    + cbn [length]. f_equal. exact E3.
    + cbn [length]. f_equal. exact E4.
Qed.

Lemma zip_set_nil {A B} (f : A -> B -> A) l : zip_set f l [] = l.
Proof. destruct l; reflexivity. Qed.
Lemma set_even_nil {A B} (f : A -> B -> A) l : set_even f l [] = l.
Proof. destruct l; reflexivity. Qed.
Lemma set_odd_nil {A B} (f : A -> B -> A) l : set_odd f l [] = l.
Proof. destruct l as [|a l]; [reflexivity|]. cbn [set_odd]. rewrite set_even_nil. reflexivity. Qed.

(** * collect_opt on the link metadata *)
Lemma collect_egress_all xs :
  forallb egress_repr xs = true ->
  exists vs, collect_opt egress_type xs = Some vs /\ length vs = length xs
             /\ map (fun t => Some (LEgress (linktype_of_i32 t))) vs = map im_link xs.
Proof.
  induction xs as [|x xs IH]; intros H; [exists []; repeat split; reflexivity|].
  cbn [forallb] in H. apply Bool.andb_true_iff in H. destruct H as [Hx Hxs].
  destruct (IH Hxs) as (vs & E1 & E2 & E3). unfold egress_repr in Hx.
  destruct (im_link x) as [[c|t]|] eqn:El; try discriminate.
  exists (linktype_to_i32 t :: vs). cbn [collect_opt]. unfold egress_type at 1. rewrite El, E1.
  refine (conj eq_refl (conj _ _)); [cbn [length]; congruence|].
  cbn [map]. rewrite El, (linktype_roundtrip t Hx), E3. reflexivity.
Qed.

Lemma collect_egress_none xs :
  forallb no_link xs = true ->
  opt_default [] (collect_opt egress_type xs) = [] /\ map im_link xs = map (fun _ => None) xs.
Proof.
  intros H. split.
  - destruct xs as [|x xs]; [reflexivity|]. cbn [forallb] in H. apply Bool.andb_true_iff in H. destruct H as [Hx _].
    unfold no_link, is_none in Hx. cbn [collect_opt]. unfold egress_type at 1. destruct (im_link x); [discriminate|reflexivity].
  - induction xs as [|x xs IH]; [reflexivity|]. cbn [forallb] in H. apply Bool.andb_true_iff in H. destruct H as [Hx Hxs].
    cbn [map]. rewrite (IH Hxs). unfold no_link, is_none in Hx. destruct (im_link x); [discriminate|reflexivity].
Qed.

Lemma collect_ingress_all xs :
  forallb ingress_repr xs = true ->
  exists vs, collect_opt ingress_hops xs = Some vs /\ length vs = length xs
             /\ map (fun c => Some (LIngress c)) vs = map im_link xs.
Proof.
  induction xs as [|x xs IH]; intros H; [exists []; repeat split; reflexivity|].
  cbn [forallb] in H. apply Bool.andb_true_iff in H. destruct H as [Hx Hxs].
  destruct (IH Hxs) as (vs & E1 & E2 & E3). unfold ingress_repr in Hx.
  destruct (im_link x) as [[c|t]|] eqn:El; try discriminate.
  exists (c :: vs). cbn [collect_opt]. unfold ingress_hops at 1. rewrite El, E1.
  refine (conj eq_refl (conj _ _)); [cbn [length]; congruence|].
  cbn [map]. rewrite El, E3. reflexivity.
Qed.

Lemma collect_ingress_none xs :
  forallb no_link xs = true -> opt_default [] (collect_opt ingress_hops xs) = [].
Proof.
  intros H. destruct xs as [|x xs]; [reflexivity|]. cbn [forallb] in H. apply Bool.andb_true_iff in H. destruct H as [Hx _].
  unfold no_link, is_none in Hx. cbn [collect_opt]. unfold ingress_hops at 1. destruct (im_link x); [discriminate|reflexivity].
Qed.

(** * the interface metadata is rebuilt *)
Definition base (i : ifmeta) : ifmeta := mkIf (im_ia i) (im_id i) None None None None.

Lemma collect_base l :
  forallb if_repr l = true -> collect iface_from_rpc (map (fun i => (im_ia i, im_id i)) l) = Ok (map base l).
Proof.
  induction l as [|a l IH]; intros H; [reflexivity|]. cbn [forallb] in H. apply Bool.andb_true_iff in H. destruct H as [Ha Hl].
  cbn [map collect]. unfold iface_from_rpc at 1. cbn [fst snd].
  assert ((U16_MAX <? im_id a) = false) as ->.
  { unfold if_repr in Ha. unfold U16_MAX. destruct (im_id a <=? 65535) eqn:E; [lia|discriminate]. }
  cbn [obind]. rewrite (IH Hl). reflexivity.
Qed.

Definition rebuild (l : list ifmeta) (lat : list (Z * Z)) (bw : list N) (ge : list (N * N * bytes))
    (lt : list Z) (ih : list N) : list ifmeta :=
  let n := length l in
  let m0 := map base l in
  let m1 := if Nat.eqb (length lat) (n - 1) then zip_set set_lat m0 lat else m0 in
  let m2 := if Nat.eqb (length bw) (n - 1) then zip_set set_bw m1 bw else m1 in
  let m3 := if Nat.eqb (length ge) n then zip_set set_geo m2 ge else m2 in
  let m4 := if Nat.eqb (length lt) (n / 2) then set_even set_egress m3 lt else m3 in
  if Nat.eqb (length ih) (n / 2 - 1) then set_odd set_ingress m4 ih else m4.

Lemma prefix_field {C V} (pr : ifmeta -> C) (none : C) (g : ifmeta -> V) (h : V -> C) l' z :
  (forall x, In x l' -> h (g x) = pr x) -> pr z = none ->
  map h (firstn (length (map base (l' ++ [z]))) (map g l'))
  ++ skipn (length (map g l')) (map (fun _ => none) (l' ++ [z])) = map pr (l' ++ [z]).
Proof.
  intros H Hz. rewrite firstn_all2 by (rewrite !map_length, app_length; lia).
  rewrite map_map, (map_ext_in _ _ _ H), !map_app, map_length.
  rewrite skipn_app, skipn_all2 by (rewrite map_length; lia). rewrite map_length, Nat.sub_diag.
  cbn [map skipn app]. rewrite Hz. reflexivity.
Qed.

Lemma full_field {C V} (pr : ifmeta -> C) (none : C) (g : ifmeta -> V) (h : V -> C) l :
  (forall x, In x l -> h (g x) = pr x) ->
  map h (firstn (length (map base l)) (map g l))
  ++ skipn (length (map g l)) (map (fun _ => none) l) = map pr l.
Proof.
  intros H. rewrite firstn_all2 by (rewrite !map_length; lia).
  rewrite map_map, (map_ext_in _ _ _ H), skipn_all2 by (rewrite !map_length; lia). apply app_nil_r.
Qed.

Lemma rebuild_ifs l :
  ifs_repr l = true ->
  rebuild l (map (fun i => latency_to_rpc (im_lat i)) (firstn (length l - 1) l))
            (map (fun i => opt_default 0 (im_bw i)) (firstn (length l - 1) l))
            (map (fun i => match im_geo i with Some g => geo_to_rpc g | None => (0, 0, []) end) l)
            (opt_default [] (collect_opt egress_type (evens l)))
            (opt_default [] (collect_opt ingress_hops (firstn (length l / 2 - 1) (odds l)))) = l.
Proof.
  intros H. unfold ifs_repr in H.
  apply Bool.andb_true_iff in H. destruct H as [H HF].
  apply Bool.andb_true_iff in H. destruct H as [H HE].
  apply Bool.andb_true_iff in H. destruct H as [H HD].
  apply Bool.andb_true_iff in H. destruct H as [H HC].
  apply Bool.andb_true_iff in H. destruct H as [HA HB].
  assert (l <> []) as Hne by (destruct l; [discriminate|congruence]).
  destruct (even_decomp l Hne HB) as (l' & z & El & Eo & Le & Lo).
  assert (length l = S (length l')) as Hlen by (rewrite El, app_length; cbn [length]; lia).
  assert (firstn (length l - 1) l = l') as Hfl.
  { rewrite Hlen. replace (S (length l') - 1)%nat with (length l') by lia. rewrite El.
    rewrite firstn_app, firstn_all, Nat.sub_diag. cbn [firstn]. apply app_nil_r. }
  rewrite Hfl.
  (* the last interface carries no link data *)
  rewrite El in HD. rewrite last_last in HD.
  assert (im_lat z = None /\ im_bw z = None /\ im_link z = None) as (Zla & Zbw & Zlk).
  { destruct z as [? ? ? [?|] [?|] [?|]]; cbn in HD; try discriminate. repeat split. }
  (* per-element facts *)
  assert (forall x, In x l -> if_repr x = true) as Hall by (apply forallb_forall; exact HC).
  assert (forall x, In x l' -> In x l) as Hin' by (intros x Hx; rewrite El; apply in_or_app; left; exact Hx).
  assert (forall x, if_repr x = true ->
            lat_repr (im_lat x) = true /\ match im_bw x with Some b => 0 <? b | None => true end = true
            /\ match im_geo x with Some g => geo_repr g | None => true end = true) as Hrep.
  { intros x Hx. unfold if_repr in Hx. apply Bool.andb_true_iff in Hx. destruct Hx as [Hx G].
    apply Bool.andb_true_iff in Hx. destruct Hx as [Hx Bw]. apply Bool.andb_true_iff in Hx. destruct Hx as [_ La].
    repeat split; assumption. }
  unfold rebuild. rewrite !map_length.
  assert (Nat.eqb (length l') (length l - 1) = true) as -> by (apply Nat.eqb_eq; lia).
  rewrite Nat.eqb_refl.
  (* link types: all egress links known, or none *)
  assert (exists lt, opt_default [] (collect_opt egress_type (evens l)) = lt /\
            forall m, map im_link m = map (fun _ => None) l -> length m = length l ->
              evens (map im_link (if Nat.eqb (length lt) (length l / 2) then set_even set_egress m lt else m))
              = map im_link (evens l)) as (lt & -> & Hlt).
  { eexists. split; [reflexivity|]. intros m Hm Hml. unfold all_or_none in HE.
    destruct (forallb egress_repr (evens l)) eqn:Ea.
    - destruct (collect_egress_all _ Ea) as (vs & -> & Lvs & Mvs). cbn [opt_default].
      rewrite Lvs, Le, Nat.eqb_refl.
      rewrite (evens_set_even im_link set_egress (fun t => Some (LEgress (linktype_of_i32 t)))) by reflexivity.
      assert (length (evens m) = length (evens l)) as ->
        by (rewrite <- (map_length im_link (evens m)), <- evens_map, Hm, evens_map, map_length; reflexivity).
      rewrite <- Lvs, firstn_all, Mvs. rewrite Hm, evens_map, skipn_all2 by (rewrite map_length; lia). apply app_nil_r.
    - cbn [orb] in HE. destruct (collect_egress_none _ HE) as [-> Mn].
      assert (forall b : bool, (if b then set_even set_egress m [] else m) = m) as -> by (intros []; [apply set_even_nil|reflexivity]).
      rewrite Hm, evens_map, Mn. reflexivity. }
  (* internal hops: all known, or none *)
  set (xs := firstn (length l / 2 - 1) (odds l)) in *.
  assert (length xs = (length l / 2 - 1)%nat) as Lxs by (unfold xs; rewrite firstn_length, Lo; lia).
  assert (exists ih, opt_default [] (collect_opt ingress_hops xs) = ih /\
            forall m, odds (map im_link m) = map (fun _ => None) (odds l) -> length (odds m) = length (odds l) ->
              odds (map im_link (if Nat.eqb (length ih) (length l / 2 - 1) then set_odd set_ingress m ih else m))
              = map im_link (odds l)) as (ih & -> & Hih).
  { eexists. split; [reflexivity|]. intros m Hm Hml. unfold all_or_none in HF.
    assert (map im_link (odds l) = map im_link xs ++ [None]) as Eol by (rewrite Eo at 1; rewrite map_app; cbn [map]; rewrite Zlk; reflexivity).
    destruct (forallb ingress_repr xs) eqn:Ea.
    - destruct (collect_ingress_all _ Ea) as (vs & -> & Lvs & Mvs). cbn [opt_default].
      rewrite Lvs, Lxs, Nat.eqb_refl.
      rewrite (odds_set_odd im_link set_ingress (fun c => Some (LIngress c))) by reflexivity.
      rewrite Hml, Hm. rewrite firstn_all2 by lia. rewrite Mvs, Eol. f_equal.
      rewrite Eo, map_app, skipn_app, skipn_all2 by (rewrite map_length; lia).
      rewrite map_length. replace (length vs - length xs)%nat with 0%nat by lia. reflexivity.
    - cbn [orb] in HF. rewrite (collect_ingress_none _ HF).
      assert (forall b : bool, (if b then set_odd set_ingress m [] else m) = m) as -> by (intros []; [apply set_odd_nil|reflexivity]).
      rewrite Hm, Eol. rewrite Eo at 1. rewrite map_app. cbn [map]. f_equal.
      clear - HF. induction xs as [|x xs IH]; [reflexivity|]. cbn [forallb] in HF. apply Bool.andb_true_iff in HF. destruct HF as [Hx Hxs].
      cbn [map]. rewrite (IH Hxs). unfold no_link, is_none in Hx. destruct (im_link x); [discriminate|reflexivity]. }
  clearbody xs.
  set (m3 := zip_set set_geo (zip_set set_bw (zip_set set_lat (map base l) _) _) _).
  assert (forall {C} (pr : ifmeta -> C), (forall a v, pr (set_egress a v) = pr a) -> (forall a v, pr (set_ingress a v) = pr a) ->
            forall m4 : list ifmeta,
            map pr (if Nat.eqb (length ih) (length l / 2 - 1) then set_odd set_ingress
                      (if Nat.eqb (length lt) (length l / 2) then set_even set_egress m4 lt else m4) ih
                    else (if Nat.eqb (length lt) (length l / 2) then set_even set_egress m4 lt else m4)) = map pr m4) as Hpres45.
  { intros C pr P1 P2 m4. destruct (Nat.eqb (length ih) _), (Nat.eqb (length lt) _);
      rewrite ?(map_set_odd_pres pr set_ingress) by exact P2; rewrite ?(map_set_even_pres pr set_egress) by exact P1; reflexivity. }
  assert (length m3 = length l) as Lm3.
  { rewrite <- (map_length im_ia m3). unfold m3.
    rewrite !(map_zip_set_pres im_ia) by reflexivity. rewrite !map_length. reflexivity. }
  apply ifmeta_list_ext.
  - rewrite Hpres45 by reflexivity. unfold m3. rewrite !(map_zip_set_pres im_ia) by reflexivity. rewrite map_map. reflexivity.
  - rewrite Hpres45 by reflexivity. unfold m3. rewrite !(map_zip_set_pres im_id) by reflexivity. rewrite map_map. reflexivity.
  - rewrite Hpres45 by reflexivity. unfold m3.
    rewrite (map_zip_set_set im_geo set_geo geo_from_rpc) by reflexivity.
    rewrite !(map_zip_set_pres im_geo) by reflexivity.
    assert (length (zip_set set_bw (zip_set set_lat (map base l) (map (fun i => latency_to_rpc (im_lat i)) l'))
                      (map (fun i => opt_default 0 (im_bw i)) l')) = length (map base l)) as ->.
    { rewrite <- (map_length im_ia (zip_set _ _ _)). rewrite !(map_zip_set_pres im_ia) by reflexivity. rewrite !map_length. reflexivity. }
    rewrite (map_map base im_geo). cbn [base im_geo].
    apply (full_field im_geo None). intros x Hx. apply geo_roundtrip, (Hrep x (Hall x Hx)).
  - rewrite Hpres45 by reflexivity. unfold m3.
    rewrite !(map_zip_set_pres im_lat) by reflexivity.
    rewrite (map_zip_set_set im_lat set_lat latency_from_rpc) by reflexivity.
    rewrite (map_map base im_lat). cbn [base im_lat]. rewrite El.
    apply (prefix_field im_lat None); [|exact Zla]. intros x Hx. apply latency_roundtrip, (Hrep x (Hall x (Hin' x Hx))).
  - rewrite Hpres45 by reflexivity. unfold m3.
    rewrite !(map_zip_set_pres im_bw set_geo) by reflexivity.
    rewrite (map_zip_set_set im_bw set_bw (fun b => if 0 <? b then Some b else None)) by reflexivity.
    rewrite !(map_zip_set_pres im_bw) by reflexivity.
    assert (length (zip_set set_lat (map base l) (map (fun i => latency_to_rpc (im_lat i)) l')) = length (map base l)) as ->.
    { rewrite <- (map_length im_ia (zip_set _ _ _)). rewrite !(map_zip_set_pres im_ia) by reflexivity. rewrite !map_length. reflexivity. }
    rewrite (map_map base im_bw). cbn [base im_bw]. rewrite El.
    apply (prefix_field im_bw None); [|exact Zbw]. intros x Hx. apply bw_roundtrip, (Hrep x (Hall x (Hin' x Hx))).
  - assert (map im_link m3 = map (fun _ => None) l) as Hm3.
    { unfold m3. rewrite !(map_zip_set_pres im_link) by reflexivity. rewrite map_map. reflexivity. }
    apply evens_odds_inj.
    + destruct (Nat.eqb (length ih) (length l / 2 - 1)).
      * rewrite evens_set_odd. rewrite (Hlt m3 Hm3 Lm3), evens_map. reflexivity.
      * rewrite (Hlt m3 Hm3 Lm3), evens_map. reflexivity.
    + rewrite (odds_map im_link l), <- (Hih (if Nat.eqb (length lt) (length l / 2) then set_even set_egress m3 lt else m3)); [reflexivity| |].
      * destruct (Nat.eqb (length lt) (length l / 2)); [rewrite odds_set_even|]; rewrite Hm3, odds_map; reflexivity.
      * assert (length (if Nat.eqb (length lt) (length l / 2) then set_even set_egress m3 lt else m3) = length l) as Ll.
        { rewrite <- (map_length im_ia). destruct (Nat.eqb (length lt) (length l / 2));
            rewrite ?(map_set_even_pres im_ia set_egress) by reflexivity; rewrite map_length; exact Lm3. }
        rewrite !length_odds, Ll. reflexivity.
Qed.

(** * the path round trip *)
Section PathRoundtrip.
Context {SA : Type}.
Variable std_parse : bytes -> option bytes.
Variable sa_parse : bytes -> option SA.
Variable sa_show : SA -> bytes.
Variable std_ok : bytes -> bool.
Hypothesis sa_roundtrip : forall a, sa_parse (sa_show a) = Some a.
Hypothesis std_ok_parse : forall raw, std_ok raw = true -> std_parse raw = Some [].

Lemma path_roundtrip (p : spath SA) :
  path_repr std_ok p = true ->
  path_from_rpc std_parse sa_parse (path_to_rpc sa_show p) (sp_src p) (sp_dst p) = Ok p.
Proof.
  destruct p as [src dst raw meta hop]. unfold path_repr. cbn [sp_meta sp_raw sp_src sp_dst sp_hop].
  destruct meta as [[exp mtu ifs epic notes]|].
  - cbn [pm_exp pm_mtu pm_ifs pm_notes]. intros H.
    destruct ifs as [l|]; [|rewrite Bool.andb_false_r in H; discriminate].
    apply Bool.andb_true_iff in H. destruct H as [H H5].
    apply Bool.andb_true_iff in H. destruct H as [H H4].
    apply Bool.andb_true_iff in H. destruct H as [H H3].
    apply Bool.andb_true_iff in H. destruct H as [H1 H2].
    apply Bool.andb_true_iff in H5. destruct H5 as [Hifs Hnotes].
    apply Bool.negb_true_iff in H1.
    pose proof Hifs as Hifs'. unfold ifs_repr in Hifs'.
    apply Bool.andb_true_iff in Hifs'. destruct Hifs' as [Hi _].
    apply Bool.andb_true_iff in Hi. destruct Hi as [Hi _].
    apply Bool.andb_true_iff in Hi. destruct Hi as [Hi _].
    apply Bool.andb_true_iff in Hi. destruct Hi as [Hi HC].
    apply Bool.andb_true_iff in Hi. destruct Hi as [HA HB].
    unfold path_to_rpc, path_from_rpc. cbn [sp_meta sp_raw sp_hop pm_exp pm_mtu pm_ifs pm_epic pm_notes
      rp_raw rp_iface rp_ifs rp_mtu rp_exp rp_lat rp_bw rp_geo rp_lt rp_ih rp_notes rp_epic].
    rewrite H1, (std_ok_parse raw H2). cbn [is_nil negb].
    assert (match match hop with Some a => Some (Some (sa_show a)) | None => None end with
            | Some (Some a) => match sa_parse a with Some x => Some (Some x) | None => None end
            | _ => Some None end = Some hop) as -> by (destruct hop; [rewrite sa_roundtrip|]; reflexivity).
    rewrite !map_length.
    assert ((Nat.eqb (length l) 0 || negb (Nat.even (length l)))%bool = false) as ->
      by (rewrite HB; apply Bool.negb_true_iff in HA; rewrite HA; reflexivity).
    rewrite (collect_base l HC). cbn [obind].
    assert ((I64_MAX <? exp) = false) as -> by (unfold I64_MAX; lia).
    assert ((U16_MAX <? mtu) = false) as -> by (unfold U16_MAX; lia).
    assert (u64_of_i64 (Z.of_N exp) = exp) as ->
      by (unfold u64_of_i64; rewrite Z.mod_small by lia; apply N2Z.id).
    pose proof (rebuild_ifs l Hifs) as Hreb. unfold rebuild in Hreb. cbv zeta in Hreb.
    rewrite ?map_length in Hreb. rewrite ?map_length. rewrite Hreb.
    f_equal. f_equal. f_equal. f_equal.
    destruct notes as [ns|].
    + rewrite Hnotes, Hnotes. reflexivity.
    + cbn [length]. destruct (length l / 2 + 1)%nat eqn:E; [lia|reflexivity].
  - intros H.
    apply Bool.andb_true_iff in H. destruct H as [H H4].
    apply Bool.andb_true_iff in H. destruct H as [H H3].
    apply Bool.andb_true_iff in H. destruct H as [H1 H2].
    destruct raw; [|discriminate]. apply N.eqb_eq in H2. subst dst. destruct hop; [discriminate|].
    apply Bool.negb_true_iff in H3.
    unfold path_to_rpc, path_from_rpc. cbn [sp_meta sp_raw sp_hop rp_raw is_nil].
    rewrite H3, N.eqb_refl. reflexivity.
Qed.
End PathRoundtrip.
