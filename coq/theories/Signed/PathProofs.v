(** C18 -- round trip of daemon path values through their RPC form (lemmas for [Props]). *)
From Coq Require Import Lia ZifyBool ZifyNat ZifyN.
From Sci Require Import Gen.SignedConfig Signed.Model Signed.Spec Signed.Proofs.
Local Open Scope N_scope.
Ltac Zify.zify_post_hook ::= Z.div_mod_to_equations.
Arguments N.add : simpl never. Arguments N.sub : simpl never. Arguments N.mul : simpl never.
Arguments N.div : simpl never. Arguments N.modulo : simpl never. Arguments N.eqb : simpl never.
Arguments N.ltb : simpl never. Arguments N.leb : simpl never.

(** * lists, two elements at a time *)
Lemma list_ind2 {A} (P : list A -> Prop) :
  P [] -> (forall a, P [a]) -> (forall a b l, P l -> P (a :: b :: l)) -> forall l, P l.
Proof.
  intros H0 H1 H2. assert (forall l, P l /\ forall a, P (a :: l)) as H.
  { induction l as [|x l [IH1 IH2]]; split; auto. }
  intros l. apply H.
Qed.

Lemma evens_map {A B} (f : A -> B) l : evens (map f l) = map f (evens l).
Proof. induction l as [|a|a b l IH] using list_ind2; cbn [map evens]; [reflexivity|reflexivity|]. rewrite IH. reflexivity. Qed.
Lemma odds_map {A B} (f : A -> B) l : odds (map f l) = map f (odds l).
Proof. destruct l as [|a l]; [reflexivity|]. cbn [map odds]. apply evens_map. Qed.

Lemma evens_cons2 {A} (x y : A) l : evens (x :: y :: l) = x :: evens l.
Proof. reflexivity. Qed.
Lemma odds_cons2 {A} (x y : A) l : odds (x :: y :: l) = y :: odds l.
Proof. destruct l; reflexivity. Qed.

Lemma length_odds {A} (l : list A) : length (odds l) = (length l / 2)%nat.
Proof.
  induction l as [|a|a b l IH] using list_ind2; [reflexivity|reflexivity|].
  rewrite odds_cons2. cbn [length]. rewrite IH. lia.
Qed.

Lemma evens_odds_inj {A} (a b : list A) : evens a = evens b -> odds a = odds b -> a = b.
Proof.
  revert b. induction a as [|x|x y a IH] using list_ind2; intros b H1 H2.
  - destruct b as [|u b]; [reflexivity|]. destruct b; discriminate.
  - destruct b as [|u [|v b]]; [discriminate|cbn in H1; congruence|].
    rewrite odds_cons2 in H2. discriminate.
  - destruct b as [|u [|v b]]; [discriminate| |].
    + rewrite odds_cons2 in H2. discriminate.
    + rewrite !evens_cons2 in H1. rewrite !odds_cons2 in H2.
      injection H1 as -> H1. injection H2 as -> H2. f_equal. f_equal. apply IH; assumption.
Qed.

Lemma evens_cons {A} (x : A) r : evens (x :: r) = x :: odds r.
Proof. destruct r; reflexivity. Qed.

Lemma skipn_nil' {A} n : skipn n (@nil A) = [].
Proof. destruct n; reflexivity. Qed.

(** * what the updates of [try_from_rpc] do to one projection of the metadata *)
Section Projections.
Context {A B C : Type} (pr : A -> C) (f : A -> B -> A).

Lemma map_zip_set_pres l vs : (forall a v, pr (f a v) = pr a) -> map pr (zip_set f l vs) = map pr l.
Proof.
  intros H. revert vs. induction l as [|a l IH]; intros [|v vs]; cbn [zip_set map]; try reflexivity.
  rewrite H, IH. reflexivity.
Qed.

Lemma map_zip_set_set (h : B -> C) l vs :
  (forall a v, pr (f a v) = h v) ->
  map pr (zip_set f l vs) = map h (firstn (length l) vs) ++ skipn (length vs) (map pr l).
Proof.
  intros H. revert vs. induction l as [|a l IH]; intros [|v vs]; cbn [zip_set map length firstn skipn app]; try reflexivity.
  rewrite H, IH. reflexivity.
Qed.

Lemma map_set_even_pres l vs : (forall a v, pr (f a v) = pr a) -> map pr (set_even f l vs) = map pr l.
Proof.
  intros H. revert vs. induction l as [|a|a b l IH] using list_ind2; intros [|v vs]; cbn [set_even map]; try reflexivity.
  - rewrite H. reflexivity.
  - rewrite H, IH. reflexivity.
Qed.

Lemma map_set_odd_pres l vs : (forall a v, pr (f a v) = pr a) -> map pr (set_odd f l vs) = map pr l.
Proof. intros H. destruct l as [|a l]; [reflexivity|]. cbn [set_odd map]. rewrite map_set_even_pres by exact H. reflexivity. Qed.

Lemma odds_set_even l vs : odds (map pr (set_even f l vs)) = odds (map pr l).
Proof.
  revert vs. induction l as [|a|a b l IH] using list_ind2; intros [|v vs]; cbn [set_even map]; try reflexivity.
  rewrite !odds_cons2, IH. reflexivity.
Qed.

Lemma evens_set_even (h : B -> C) l vs :
  (forall a v, pr (f a v) = h v) ->
  evens (map pr (set_even f l vs))
  = map h (firstn (length (evens l)) vs) ++ skipn (length vs) (evens (map pr l)).
Proof.
  intros H. revert vs. induction l as [|a|a b l IH] using list_ind2; intros [|v vs];
    cbn [set_even map evens length firstn skipn app]; try reflexivity.
  - rewrite H, skipn_nil'. reflexivity.
  - rewrite H, IH. reflexivity.
Qed.

Lemma evens_set_odd l vs : evens (map pr (set_odd f l vs)) = evens (map pr l).
Proof.
  destruct l as [|a l]; [reflexivity|]. cbn [set_odd map]. rewrite !evens_cons, odds_set_even. reflexivity.
Qed.

Lemma odds_set_odd (h : B -> C) l vs :
  (forall a v, pr (f a v) = h v) ->
  odds (map pr (set_odd f l vs))
  = map h (firstn (length (odds l)) vs) ++ skipn (length vs) (odds (map pr l)).
Proof.
  intros H. destruct l as [|a l]; [cbn; rewrite skipn_nil'; reflexivity|].
  cbn [set_odd map odds]. apply evens_set_even, H.
Qed.
End Projections.

Lemma ifmeta_list_ext (l l' : list ifmeta) :
  map im_ia l = map im_ia l' -> map im_id l = map im_id l' -> map im_geo l = map im_geo l' ->
  map im_lat l = map im_lat l' -> map im_bw l = map im_bw l' -> map im_link l = map im_link l' ->
  l = l'.
Proof.
  revert l'. induction l as [|a l IH]; intros [|b l'] H1 H2 H3 H4 H5 H6; try discriminate; [reflexivity|].
  cbn [map] in *. injection H1 as E1 H1. injection H2 as E2 H2. injection H3 as E3 H3.
  injection H4 as E4 H4. injection H5 as E5 H5. injection H6 as E6 H6.
  f_equal; [destruct a, b; cbn in *; congruence|apply IH; assumption].
Qed.

(** * field conversions, there and back *)
Lemma linktype_roundtrip t : lt_repr t = true -> linktype_of_i32 (linktype_to_i32 t) = t.
Proof.
  destruct t as [| | | |v]; try reflexivity. cbn [lt_repr linktype_to_i32]. intros H.
  unfold linktype_of_i32, u8_of_i32. assert (LT_UNSET = 0 /\ LT_DIRECT = 1 /\ LT_MULTIHOP = 2 /\ LT_OPENNET = 3)%Z as (-> & -> & -> & ->) by (repeat split; reflexivity).
  assert ((Z.of_N v =? 0)%Z = false) as -> by lia. assert ((Z.of_N v =? 1)%Z = false) as -> by lia.
  assert ((Z.of_N v =? 2)%Z = false) as -> by lia. assert ((Z.of_N v =? 3)%Z = false) as -> by lia.
  f_equal. rewrite Z.mod_small by lia. apply N2Z.id.
Qed.

Lemma latency_roundtrip l : lat_repr l = true -> latency_from_rpc (latency_to_rpc l) = l.
Proof.
  destruct l as [[s n]|]; [|reflexivity]. cbn [lat_repr latency_to_rpc]. intros H.
  assert ((I64_MAX <? s) = false) as -> by (unfold I64_MAX; lia).
  unfold latency_from_rpc, NANOS_PER_SECOND.
  assert ((Z.of_N s <? 0)%Z = false) as -> by lia.
  assert (((Z.of_N n <=? - (1000000000))%Z || (1000000000 <=? Z.of_N n)%Z) = false) as -> by lia.
  assert (((0 <? Z.of_N s)%Z && (Z.of_N n <? 0)%Z) = false) as -> by lia.
  assert (((0 <=? Z.of_N s)%Z && (0 <=? Z.of_N n)%Z) = true) as -> by lia.
  rewrite !N2Z.id. reflexivity.
Qed.

Lemma bw_roundtrip b : match b with Some x => 0 <? x | None => true end = true ->
  (if 0 <? opt_default 0 b then Some (opt_default 0 b) else None) = b.
Proof. destruct b as [x|]; cbn [opt_default]; [intros ->; reflexivity|reflexivity]. Qed.

Lemma geo_roundtrip g : match g with Some x => geo_repr x | None => true end = true ->
  geo_from_rpc (match g with Some x => geo_to_rpc x | None => (0, 0, []) end) = g.
Proof.
  destruct g as [[la lo ad]|]; [|reflexivity]. unfold geo_repr, geo_to_rpc, geo_from_rpc. cbn [g_lat g_lon g_addr].
  destruct ad as [[|c ad]|]; cbn [is_nil]; intros H.
  - rewrite Bool.andb_false_r in H. discriminate.
  - rewrite Bool.andb_false_r. reflexivity.
  - rewrite !Bool.andb_true_r in H. apply Bool.negb_true_iff in H. rewrite Bool.andb_true_r, H. reflexivity.
Qed.

(** * structure of an interface list of even, positive length *)
Lemma even_decomp {A} (l : list A) :
  l <> [] -> Nat.even (length l) = true ->
  exists l' z, l = l' ++ [z] /\ odds l = firstn (length l / 2 - 1) (odds l) ++ [z]
               /\ length (evens l) = (length l / 2)%nat /\ length (odds l) = (length l / 2)%nat.
Proof.
  induction l as [|a|a b r IH] using list_ind2; intros Hne Hev; [congruence|discriminate|].
  destruct r as [|c r'].
  - exists [a], b. repeat split; reflexivity.
  - destruct IH as (l' & z & E1 & E2 & E3 & E4); [discriminate|exact Hev|].
    exists (a :: b :: l'), z. rewrite odds_cons2, evens_cons2.
    assert (length (a :: b :: c :: r') / 2 = S (length (c :: r') / 2))%nat as Hd by (cbn [length]; lia).
    assert (1 <= length (c :: r') / 2)%nat as Hge by (cbn [length] in *; destruct r'; [discriminate|cbn [length]; lia]).
    rewrite Hd. refine (conj _ (conj _ (conj _ _))).
    + rewrite E1 at 1. reflexivity.
    + replace (S (length (c :: r') / 2) - 1)%nat with (S (length (c :: r') / 2 - 1)) by lia.
      cbn [firstn app]. f_equal. exact E2.
    + cbn [length]. f_equal. exact E3.
    + cbn [length]. f_equal. exact E4.
Qed.

Lemma zip_set_nil {A B} (f : A -> B -> A) l : zip_set f l [] = l.
Proof. destruct l; reflexivity. Qed.
Lemma set_even_nil {A B} (f : A -> B -> A) l : set_even f l [] = l.
Proof. destruct l; reflexivity. Qed.
Lemma set_odd_nil {A B} (f : A -> B -> A) l : set_odd f l [] = l.
Proof. destruct l as [|a l]; [reflexivity|]. cbn [set_odd]. rewrite set_even_nil. reflexivity. Qed.

(** * collect_opt on the link metadata *)
Lemma collect_egress_all xs :
  forallb egress_repr xs = true ->
  exists vs, collect_opt egress_type xs = Some vs /\ length vs = length xs
             /\ map (fun t => Some (LEgress (linktype_of_i32 t))) vs = map im_link xs.
Proof.
  induction xs as [|x xs IH]; intros H; [exists []; repeat split; reflexivity|].
  cbn [forallb] in H. apply Bool.andb_true_iff in H. destruct H as [Hx Hxs].
  destruct (IH Hxs) as (vs & E1 & E2 & E3). unfold egress_repr in Hx.
  destruct (im_link x) as [[c|t]|] eqn:El; try discriminate.
  exists (linktype_to_i32 t :: vs). cbn [collect_opt]. unfold egress_type at 1. rewrite El, E1.
  refine (conj eq_refl (conj _ _)); [cbn [length]; congruence|].
  cbn [map]. rewrite El, (linktype_roundtrip t Hx), E3. reflexivity.
Qed.

Lemma collect_egress_none xs :
  forallb no_link xs = true ->
  opt_default [] (collect_opt egress_type xs) = [] /\ map im_link xs = map (fun _ => None) xs.
Proof.
  intros H. split.
  - destruct xs as [|x xs]; [reflexivity|]. cbn [forallb] in H. apply Bool.andb_true_iff in H. destruct H as [Hx _].
    unfold no_link, is_none in Hx. cbn [collect_opt]. unfold egress_type at 1. destruct (im_link x); [discriminate|reflexivity].
  - induction xs as [|x xs IH]; [reflexivity|]. cbn [forallb] in H. apply Bool.andb_true_iff in H. destruct H as [Hx Hxs].
    cbn [map]. rewrite (IH Hxs). unfold no_link, is_none in Hx. destruct (im_link x); [discriminate|reflexivity].
Qed.

Lemma collect_ingress_all xs :
  forallb ingress_repr xs = true ->
  exists vs, collect_opt ingress_hops xs = Some vs /\ length vs = length xs
             /\ map (fun c => Some (LIngress c)) vs = map im_link xs.
Proof.
  induction xs as [|x xs IH]; intros H; [exists []; repeat split; reflexivity|].
  cbn [forallb] in H. apply Bool.andb_true_iff in H. destruct H as [Hx Hxs].
  destruct (IH Hxs) as (vs & E1 & E2 & E3). unfold ingress_repr in Hx.
  destruct (im_link x) as [[c|t]|] eqn:El; try discriminate.
  exists (c :: vs). cbn [collect_opt]. unfold ingress_hops at 1. rewrite El, E1.
  refine (conj eq_refl (conj _ _)); [cbn [length]; congruence|].
  cbn [map]. rewrite El, E3. reflexivity.
Qed.

Lemma collect_ingress_none xs :
  forallb no_link xs = true -> opt_default [] (collect_opt ingress_hops xs) = [].
Proof.
  intros H. destruct xs as [|x xs]; [reflexivity|]. cbn [forallb] in H. apply Bool.andb_true_iff in H. destruct H as [Hx _].
  unfold no_link, is_none in Hx. cbn [collect_opt]. unfold ingress_hops at 1. destruct (im_link x); [discriminate|reflexivity].
Qed.

(** * the interface metadata is rebuilt *)
Definition base (i : ifmeta) : ifmeta := mkIf (im_ia i) (im_id i) None None None None.

Lemma collect_base l :
  forallb if_repr l = true -> collect iface_from_rpc (map (fun i => (im_ia i, im_id i)) l) = Ok (map base l).
Proof.
  induction l as [|a l IH]; intros H; [reflexivity|]. cbn [forallb] in H. apply Bool.andb_true_iff in H. destruct H as [Ha Hl].
  cbn [map collect]. unfold iface_from_rpc at 1. cbn [fst snd].
  assert ((U16_MAX <? im_id a) = false) as ->.
  { unfold if_repr in Ha. unfold U16_MAX. destruct (im_id a <=? 65535) eqn:E; [lia|discriminate]. }
  cbn [obind]. rewrite (IH Hl). reflexivity.
Qed.

Definition rebuild (l : list ifmeta) (lat : list (Z * Z)) (bw : list N) (ge : list (N * N * bytes))
    (lt : list Z) (ih : list N) : list ifmeta :=
  let n := length l in
  let m0 := map base l in
  let m1 := if Nat.eqb (length lat) (n - 1) then zip_set set_lat m0 lat else m0 in
  let m2 := if Nat.eqb (length bw) (n - 1) then zip_set set_bw m1 bw else m1 in
  let m3 := if Nat.eqb (length ge) n then zip_set set_geo m2 ge else m2 in
  let m4 := if Nat.eqb (length lt) (n / 2) then set_even set_egress m3 lt else m3 in
  if Nat.eqb (length ih) (n / 2 - 1) then set_odd set_ingress m4 ih else m4.

Lemma prefix_field {C V} (pr : ifmeta -> C) (none : C) (g : ifmeta -> V) (h : V -> C) l' z :
  (forall x, In x l' -> h (g x) = pr x) -> pr z = none ->
  map h (firstn (length (map base (l' ++ [z]))) (map g l'))
  ++ skipn (length (map g l')) (map (fun _ => none) (l' ++ [z])) = map pr (l' ++ [z]).
Proof.
  intros H Hz. rewrite firstn_all2 by (rewrite !map_length, app_length; lia).
  rewrite map_map, (map_ext_in _ _ _ H), !map_app, map_length.
  rewrite skipn_app, skipn_all2 by (rewrite map_length; lia). rewrite map_length, Nat.sub_diag.
  cbn [map skipn app]. rewrite Hz. reflexivity.
Qed.

Lemma full_field {C V} (pr : ifmeta -> C) (none : C) (g : ifmeta -> V) (h : V -> C) l :
  (forall x, In x l -> h (g x) = pr x) ->
  map h (firstn (length (map base l)) (map g l))
  ++ skipn (length (map g l)) (map (fun _ => none) l) = map pr l.
Proof.
  intros H. rewrite firstn_all2 by (rewrite !map_length; lia).
  rewrite map_map, (map_ext_in _ _ _ H), skipn_all2 by (rewrite !map_length; lia). apply app_nil_r.
Qed.

Lemma rebuild_ifs l :
  ifs_repr l = true ->
  rebuild l (map (fun i => latency_to_rpc (im_lat i)) (firstn (length l - 1) l))
            (map (fun i => opt_default 0 (im_bw i)) (firstn (length l - 1) l))
            (map (fun i => match im_geo i with Some g => geo_to_rpc g | None => (0, 0, []) end) l)
            (opt_default [] (collect_opt egress_type (evens l)))
            (opt_default [] (collect_opt ingress_hops (firstn (length l / 2 - 1) (odds l)))) = l.
Proof.
  intros H. unfold ifs_repr in H.
  apply Bool.andb_true_iff in H. destruct H as [H HF].
  apply Bool.andb_true_iff in H. destruct H as [H HE].
  apply Bool.andb_true_iff in H. destruct H as [H HD].
  apply Bool.andb_true_iff in H. destruct H as [H HC].
  apply Bool.andb_true_iff in H. destruct H as [HA HB].
  assert (l <> []) as Hne by (destruct l; [discriminate|congruence]).
  destruct (even_decomp l Hne HB) as (l' & z & El & Eo & Le & Lo).
  assert (length l = S (length l')) as Hlen by (rewrite El, app_length; cbn [length]; lia).
  assert (firstn (length l - 1) l = l') as Hfl.
  { rewrite Hlen. replace (S (length l') - 1)%nat with (length l') by lia. rewrite El.
    rewrite firstn_app, firstn_all, Nat.sub_diag. cbn [firstn]. apply app_nil_r. }
  rewrite Hfl.
  (* the last interface carries no link data *)
  rewrite El in HD. rewrite last_last in HD.
  assert (im_lat z = None /\ im_bw z = None /\ im_link z = None) as (Zla & Zbw & Zlk).
  { destruct z as [? ? ? [?|] [?|] [?|]]; cbn in HD; try discriminate. repeat split. }
  (* per-element facts *)
  assert (forall x, In x l -> if_repr x = true) as Hall by (apply forallb_forall; exact HC).
  assert (forall x, In x l' -> In x l) as Hin' by (intros x Hx; rewrite El; apply in_or_app; left; exact Hx).
  assert (forall x, if_repr x = true ->
            lat_repr (im_lat x) = true /\ match im_bw x with Some b => 0 <? b | None => true end = true
            /\ match im_geo x with Some g => geo_repr g | None => true end = true) as Hrep.
  { intros x Hx. unfold if_repr in Hx. apply Bool.andb_true_iff in Hx. destruct Hx as [Hx G].
    apply Bool.andb_true_iff in Hx. destruct Hx as [Hx Bw]. apply Bool.andb_true_iff in Hx. destruct Hx as [_ La].
    repeat split; assumption. }
  unfold rebuild. rewrite !map_length.
  assert (Nat.eqb (length l') (length l - 1) = true) as -> by (apply Nat.eqb_eq; lia).
  rewrite Nat.eqb_refl.
  (* link types: all egress links known, or none *)
  assert (exists lt, opt_default [] (collect_opt egress_type (evens l)) = lt /\
            forall m, map im_link m = map (fun _ => None) l -> length m = length l ->
              evens (map im_link (if Nat.eqb (length lt) (length l / 2) then set_even set_egress m lt else m))
              = map im_link (evens l)) as (lt & -> & Hlt).
  { eexists. split; [reflexivity|]. intros m Hm Hml. unfold all_or_none in HE.
    destruct (forallb egress_repr (evens l)) eqn:Ea.
    - destruct (collect_egress_all _ Ea) as (vs & -> & Lvs & Mvs). cbn [opt_default].
      rewrite Lvs, Le, Nat.eqb_refl.
      rewrite (evens_set_even im_link set_egress (fun t => Some (LEgress (linktype_of_i32 t)))) by reflexivity.
      assert (length (evens m) = length (evens l)) as ->
        by (rewrite <- (map_length im_link (evens m)), <- evens_map, Hm, evens_map, map_length; reflexivity).
      rewrite <- Lvs, firstn_all, Mvs. rewrite Hm, evens_map, skipn_all2 by (rewrite map_length; lia). apply app_nil_r.
    - cbn [orb] in HE. destruct (collect_egress_none _ HE) as [-> Mn].
      assert (forall b : bool, (if b then set_even set_egress m [] else m) = m) as -> by (intros []; [apply set_even_nil|reflexivity]).
      rewrite Hm, evens_map, Mn. reflexivity. }
  (* internal hops: all known, or none *)
  set (xs := firstn (length l / 2 - 1) (odds l)) in *.
  assert (length xs = (length l / 2 - 1)%nat) as Lxs by (unfold xs; rewrite firstn_length, Lo; lia).
  assert (exists ih, opt_default [] (collect_opt ingress_hops xs) = ih /\
            forall m, odds (map im_link m) = map (fun _ => None) (odds l) -> length (odds m) = length (odds l) ->
              odds (map im_link (if Nat.eqb (length ih) (length l / 2 - 1) then set_odd set_ingress m ih else m))
              = map im_link (odds l)) as (ih & -> & Hih).
  { eexists. split; [reflexivity|]. intros m Hm Hml. unfold all_or_none in HF.
    assert (map im_link (odds l) = map im_link xs ++ [None]) as Eol by (rewrite Eo at 1; rewrite map_app; cbn [map]; rewrite Zlk; reflexivity).
    destruct (forallb ingress_repr xs) eqn:Ea.
    - destruct (collect_ingress_all _ Ea) as (vs & -> & Lvs & Mvs). cbn [opt_default].
      rewrite Lvs, Lxs, Nat.eqb_refl.
      rewrite (odds_set_odd im_link set_ingress (fun c => Some (LIngress c))) by reflexivity.
      rewrite Hml, Hm. rewrite firstn_all2 by lia. rewrite Mvs, Eol. f_equal.
      rewrite Eo, map_app, skipn_app, skipn_all2 by (rewrite map_length; lia).
      rewrite map_length. replace (length vs - length xs)%nat with 0%nat by lia. reflexivity.
    - cbn [orb] in HF. rewrite (collect_ingress_none _ HF).
      assert (forall b : bool, (if b then set_odd set_ingress m [] else m) = m) as -> by (intros []; [apply set_odd_nil|reflexivity]).
      rewrite Hm, Eol. rewrite Eo at 1. rewrite map_app. cbn [map]. f_equal.
      clear - HF. induction xs as [|x xs IH]; [reflexivity|]. cbn [forallb] in HF. apply Bool.andb_true_iff in HF. destruct HF as [Hx Hxs].
      cbn [map]. rewrite (IH Hxs). unfold no_link, is_none in Hx. destruct (im_link x); [discriminate|reflexivity]. }
  clearbody xs.
  set (m3 := zip_set set_geo (zip_set set_bw (zip_set set_lat (map base l) _) _) _).
  assert (forall {C} (pr : ifmeta -> C), (forall a v, pr (set_egress a v) = pr a) -> (forall a v, pr (set_ingress a v) = pr a) ->
            forall m4 : list ifmeta,
            map pr (if Nat.eqb (length ih) (length l / 2 - 1) then set_odd set_ingress
                      (if Nat.eqb (length lt) (length l / 2) then set_even set_egress m4 lt else m4) ih
                    else (if Nat.eqb (length lt) (length l / 2) then set_even set_egress m4 lt else m4)) = map pr m4) as Hpres45.
  { intros C pr P1 P2 m4. destruct (Nat.eqb (length ih) _), (Nat.eqb (length lt) _);
      rewrite ?(map_set_odd_pres pr set_ingress) by exact P2; rewrite ?(map_set_even_pres pr set_egress) by exact P1; reflexivity. }
  assert (length m3 = length l) as Lm3.
  { rewrite <- (map_length im_ia m3). unfold m3.
    rewrite !(map_zip_set_pres im_ia) by reflexivity. rewrite !map_length. reflexivity. }
  apply ifmeta_list_ext.
  - rewrite Hpres45 by reflexivity. unfold m3. rewrite !(map_zip_set_pres im_ia) by reflexivity. rewrite map_map. reflexivity.
  - rewrite Hpres45 by reflexivity. unfold m3. rewrite !(map_zip_set_pres im_id) by reflexivity. rewrite map_map. reflexivity.
  - rewrite Hpres45 by reflexivity. unfold m3.
    rewrite (map_zip_set_set im_geo set_geo geo_from_rpc) by reflexivity.
    rewrite !(map_zip_set_pres im_geo) by reflexivity.
    assert (length (zip_set set_bw (zip_set set_lat (map base l) (map (fun i => latency_to_rpc (im_lat i)) l'))
                      (map (fun i => opt_default 0 (im_bw i)) l')) = length (map base l)) as ->.
    { rewrite <- (map_length im_ia (zip_set _ _ _)). rewrite !(map_zip_set_pres im_ia) by reflexivity. rewrite !map_length. reflexivity. }
    rewrite (map_map base im_geo). cbn [base im_geo].
    apply (full_field im_geo None). intros x Hx. apply geo_roundtrip, (Hrep x (Hall x Hx)).
  - rewrite Hpres45 by reflexivity. unfold m3.
    rewrite !(map_zip_set_pres im_lat) by reflexivity.
    rewrite (map_zip_set_set im_lat set_lat latency_from_rpc) by reflexivity.
    rewrite (map_map base im_lat). cbn [base im_lat]. rewrite El.
    apply (prefix_field im_lat None); [|exact Zla]. intros x Hx. apply latency_roundtrip, (Hrep x (Hall x (Hin' x Hx))).
  - rewrite Hpres45 by reflexivity. unfold m3.
    rewrite !(map_zip_set_pres im_bw set_geo) by reflexivity.
    rewrite (map_zip_set_set im_bw set_bw (fun b => if 0 <? b then Some b else None)) by reflexivity.
    rewrite !(map_zip_set_pres im_bw) by reflexivity.
    assert (length (zip_set set_lat (map base l) (map (fun i => latency_to_rpc (im_lat i)) l')) = length (map base l)) as ->.
    { rewrite <- (map_length im_ia (zip_set _ _ _)). rewrite !(map_zip_set_pres im_ia) by reflexivity. rewrite !map_length. reflexivity. }
    rewrite (map_map base im_bw). cbn [base im_bw]. rewrite El.
    apply (prefix_field im_bw None); [|exact Zbw]. intros x Hx. apply bw_roundtrip, (Hrep x (Hall x (Hin' x Hx))).
  - assert (map im_link m3 = map (fun _ => None) l) as Hm3.
    { unfold m3. rewrite !(map_zip_set_pres im_link) by reflexivity. rewrite map_map. reflexivity. }
    apply evens_odds_inj.
    + destruct (Nat.eqb (length ih) (length l / 2 - 1)).
      * rewrite evens_set_odd. rewrite (Hlt m3 Hm3 Lm3), evens_map. reflexivity.
      * rewrite (Hlt m3 Hm3 Lm3), evens_map. reflexivity.
    + rewrite (odds_map im_link l), <- (Hih (if Nat.eqb (length lt) (length l / 2) then set_even set_egress m3 lt else m3)); [reflexivity| |].
      * destruct (Nat.eqb (length lt) (length l / 2)); [rewrite odds_set_even|]; rewrite Hm3, odds_map; reflexivity.
      * assert (length (if Nat.eqb (length lt) (length l / 2) then set_even set_egress m3 lt else m3) = length l) as Ll.
        { rewrite <- (map_length im_ia). destruct (Nat.eqb (length lt) (length l / 2));
            rewrite ?(map_set_even_pres im_ia set_egress) by reflexivity; rewrite map_length; exact Lm3. }
        rewrite !length_odds, Ll. reflexivity.
Qed.

(** * the path round trip *)
Section PathRoundtrip.
Context {SA : Type}.
Variable std_parse : bytes -> option bytes.
Variable sa_parse : bytes -> option SA.
Variable sa_show : SA -> bytes.
Variable std_ok : bytes -> bool.
Hypothesis sa_roundtrip : forall a, sa_parse (sa_show a) = Some a.
Hypothesis std_ok_parse : forall raw, std_ok raw = true -> std_parse raw = Some [].

Lemma path_roundtrip (p : spath SA) :
  path_repr std_ok p = true ->
  path_from_rpc std_parse sa_parse (path_to_rpc sa_show p) (sp_src p) (sp_dst p) = Ok p.
Proof.
  destruct p as [src dst raw meta hop]. unfold path_repr. cbn [sp_meta sp_raw sp_src sp_dst sp_hop].
  destruct meta as [[exp mtu ifs epic notes]|].
  - cbn [pm_exp pm_mtu pm_ifs pm_notes]. intros H.
    destruct ifs as [l|]; [|rewrite Bool.andb_false_r in H; discriminate].
    apply Bool.andb_true_iff in H. destruct H as [H H5].
    apply Bool.andb_true_iff in H. destruct H as [H H4].
    apply Bool.andb_true_iff in H. destruct H as [H H3].
    apply Bool.andb_true_iff in H. destruct H as [H1 H2].
    apply Bool.andb_true_iff in H5. destruct H5 as [Hifs Hnotes].
    apply Bool.negb_true_iff in H1.
    pose proof Hifs as Hifs'. unfold ifs_repr in Hifs'.
    apply Bool.andb_true_iff in Hifs'. destruct Hifs' as [Hi _].
    apply Bool.andb_true_iff in Hi. destruct Hi as [Hi _].
    apply Bool.andb_true_iff in Hi. destruct Hi as [Hi _].
    apply Bool.andb_true_iff in Hi. destruct Hi as [Hi HC].
    apply Bool.andb_true_iff in Hi. destruct Hi as [HA HB].
    unfold path_to_rpc, path_from_rpc. cbn [sp_meta sp_raw sp_hop pm_exp pm_mtu pm_ifs pm_epic pm_notes
      rp_raw rp_iface rp_ifs rp_mtu rp_exp rp_lat rp_bw rp_geo rp_lt rp_ih rp_notes rp_epic].
    rewrite H1, (std_ok_parse raw H2). cbn [is_nil negb].
    assert (match match hop with Some a => Some (Some (sa_show a)) | None => None end with
            | Some (Some a) => match sa_parse a with Some x => Some (Some x) | None => None end
            | _ => Some None end = Some hop) as -> by (destruct hop; [rewrite sa_roundtrip|]; reflexivity).
    rewrite !map_length.
    assert ((Nat.eqb (length l) 0 || negb (Nat.even (length l)))%bool = false) as ->
      by (rewrite HB; apply Bool.negb_true_iff in HA; rewrite HA; reflexivity).
    rewrite (collect_base l HC). cbn [obind].
    assert ((I64_MAX <? exp) = false) as -> by (unfold I64_MAX; lia).
    assert ((U16_MAX <? mtu) = false) as -> by (unfold U16_MAX; lia).
    assert (u64_of_i64 (Z.of_N exp) = exp) as ->
      by (unfold u64_of_i64; rewrite Z.mod_small by lia; apply N2Z.id).
    pose proof (rebuild_ifs l Hifs) as Hreb. unfold rebuild in Hreb. cbv zeta in Hreb.
    rewrite ?map_length in Hreb. rewrite ?map_length. rewrite Hreb.
    f_equal. f_equal. f_equal. f_equal.
    destruct notes as [ns|].
    + rewrite Hnotes, Hnotes. reflexivity.
    + cbn [length]. destruct (length l / 2 + 1)%nat eqn:E; [lia|reflexivity].
  - intros H.
    apply Bool.andb_true_iff in H. destruct H as [H H4].
    apply Bool.andb_true_iff in H. destruct H as [H H3].
    apply Bool.andb_true_iff in H. destruct H as [H1 H2].
    destruct raw; [|discriminate]. apply N.eqb_eq in H2. subst dst. destruct hop; [discriminate|].
    apply Bool.negb_true_iff in H3.
    unfold path_to_rpc, path_from_rpc. cbn [sp_meta sp_raw sp_hop rp_raw is_nil].
    rewrite H3, N.eqb_refl. reflexivity.
Qed.
End PathRoundtrip.

(** * every value produced from a canonical message is representable *)
Lemma map_base_const {C} (pr : ifmeta -> C) (none : C) l :
  (forall x, pr (base x) = none) -> map pr (map base l) = repeat none (length l).
Proof. intros H. induction l as [|a l IH]; [reflexivity|]. cbn [map length repeat]. rewrite H, IH. reflexivity. Qed.

Lemma skipn_repeat {C} (c : C) k n : skipn k (repeat c n) = repeat c (n - k).
Proof. revert k. induction n as [|n IH]; intros [|k]; cbn [repeat skipn Nat.sub]; try reflexivity. apply IH. Qed.

Lemma evens_repeat {C} (c : C) n : evens (repeat c n) = repeat c ((n + 1) / 2).
Proof.
  assert (forall k, evens (repeat c (2 * k)) = repeat c k /\ evens (repeat c (S (2 * k))) = repeat c (S k)) as H.
  { induction k as [|k [IH1 IH2]]; [split; reflexivity|].
    replace (2 * S k)%nat with (S (S (2 * k))) by lia. cbn [repeat]. rewrite !evens_cons2.
    change (c :: c :: repeat c (2 * k)) with (repeat c (S (S (2 * k)))).
    split; [cbn [repeat] in *; f_equal; exact IH1|cbn [repeat] in *; f_equal; exact IH2]. }
  destruct (Nat.Even_or_Odd n) as [[k ->]|[k ->]].
  - rewrite (proj1 (H k)). f_equal. lia.
  - replace (2 * k + 1)%nat with (S (2 * k)) by lia. rewrite (proj2 (H k)). f_equal. lia.
Qed.

Lemma odds_repeat {C} (c : C) n : odds (repeat c n) = repeat c (n / 2).
Proof. destruct n as [|n]; [reflexivity|]. cbn [repeat odds]. rewrite evens_repeat. f_equal. lia. Qed.

Lemma length_evens {A} (l : list A) : length (evens l) = ((length l + 1) / 2)%nat.
Proof.
  induction l as [|a|a b l IH] using list_ind2; [reflexivity|reflexivity|].
  rewrite evens_cons2. cbn [length]. rewrite IH. lia.
Qed.

Lemma length_zip_set {A B} (f : A -> B -> A) l vs : length (zip_set f l vs) = length l.
Proof. revert vs. induction l as [|a l IH]; intros [|v vs]; cbn [zip_set length]; try reflexivity. rewrite IH. reflexivity. Qed.
Lemma length_set_even {A B} (f : A -> B -> A) l vs : length (set_even f l vs) = length l.
Proof.
  revert vs. induction l as [|a|a b l IH] using list_ind2; intros [|v vs]; cbn [set_even length]; try reflexivity.
  rewrite IH. reflexivity.
Qed.
Lemma length_set_odd {A B} (f : A -> B -> A) l vs : length (set_odd f l vs) = length l.
Proof. destruct l as [|a l]; [reflexivity|]. cbn [set_odd length]. rewrite length_set_even. reflexivity. Qed.

Lemma length_rebuild l lat bw ge lt ih : length (rebuild l lat bw ge lt ih) = length l.
Proof.
  unfold rebuild. cbv zeta.
  repeat match goal with |- context [if ?c then _ else _] => destruct c end;
    rewrite ?length_set_odd, ?length_set_even, ?length_zip_set, ?map_length; reflexivity.
Qed.

(** the six projections of the rebuilt list, for ARBITRARY vectors *)
Lemma rebuild_projections l lat bw ge lt ih :
  let n := length l in
  let m := rebuild l lat bw ge lt ih in
  map im_ia m = map im_ia l /\ map im_id m = map im_id l
  /\ map im_lat m = (if Nat.eqb (length lat) (n - 1)
                     then map latency_from_rpc (firstn n lat) ++ repeat None (n - length lat) else repeat None n)
  /\ map im_bw m = (if Nat.eqb (length bw) (n - 1)
                    then map (fun b => if 0 <? b then Some b else None) (firstn n bw) ++ repeat None (n - length bw)
                    else repeat None n)
  /\ map im_geo m = (if Nat.eqb (length ge) n
                     then map geo_from_rpc (firstn n ge) ++ repeat None (n - length ge) else repeat None n)
  /\ evens (map im_link m) = (if Nat.eqb (length lt) (n / 2)
                              then map (fun t => Some (LEgress (linktype_of_i32 t))) (firstn ((n + 1) / 2) lt)
                                   ++ repeat None ((n + 1) / 2 - length lt)
                              else repeat None ((n + 1) / 2))
  /\ odds (map im_link m) = (if Nat.eqb (length ih) (n / 2 - 1)
                             then map (fun c => Some (LIngress c)) (firstn (n / 2) ih) ++ repeat None (n / 2 - length ih)
                             else repeat None (n / 2)).
Proof.
  intros n m. unfold m, rebuild. cbv zeta. fold n.
  set (m1 := if Nat.eqb (length lat) (n - 1) then zip_set set_lat (map base l) lat else map base l).
  set (m2 := if Nat.eqb (length bw) (n - 1) then zip_set set_bw m1 bw else m1).
  set (m3 := if Nat.eqb (length ge) n then zip_set set_geo m2 ge else m2).
  set (m4 := if Nat.eqb (length lt) (n / 2) then set_even set_egress m3 lt else m3).
  assert (forall {C} (pr : ifmeta -> C), (forall a v, pr (set_lat a v) = pr a) -> map pr m1 = map pr (map base l)) as P1
    by (intros C pr P; unfold m1; destruct (Nat.eqb (length lat) (n - 1)); [apply map_zip_set_pres, P|reflexivity]).
  assert (forall {C} (pr : ifmeta -> C), (forall a v, pr (set_bw a v) = pr a) -> map pr m2 = map pr m1) as P2
    by (intros C pr P; unfold m2; destruct (Nat.eqb (length bw) (n - 1)); [apply map_zip_set_pres, P|reflexivity]).
  assert (forall {C} (pr : ifmeta -> C), (forall a v, pr (set_geo a v) = pr a) -> map pr m3 = map pr m2) as P3
    by (intros C pr P; unfold m3; destruct (Nat.eqb (length ge) n); [apply map_zip_set_pres, P|reflexivity]).
  assert (forall {C} (pr : ifmeta -> C), (forall a v, pr (set_egress a v) = pr a) -> map pr m4 = map pr m3) as P4
    by (intros C pr P; unfold m4; destruct (Nat.eqb (length lt) (n / 2)); [apply map_set_even_pres, P|reflexivity]).
  assert (forall {C} (pr : ifmeta -> C), (forall a v, pr (set_ingress a v) = pr a) ->
            map pr (if Nat.eqb (length ih) (n / 2 - 1) then set_odd set_ingress m4 ih else m4) = map pr m4) as P5
    by (intros C pr P; destruct (Nat.eqb (length ih) (n / 2 - 1)); [apply map_set_odd_pres, P|reflexivity]).
  assert (length m1 = n) as L1 by (unfold m1; destruct (Nat.eqb (length lat) (n - 1)); rewrite ?length_zip_set, map_length; reflexivity).
  assert (length m2 = n) as L2 by (unfold m2; destruct (Nat.eqb (length bw) (n - 1)); rewrite ?length_zip_set; exact L1).
  assert (length m3 = n) as L3 by (unfold m3; destruct (Nat.eqb (length ge) n); rewrite ?length_zip_set; exact L2).
  assert (length m4 = n) as L4 by (unfold m4; destruct (Nat.eqb (length lt) (n / 2)); rewrite ?length_set_even; exact L3).
  refine (conj _ (conj _ (conj _ (conj _ (conj _ (conj _ _)))))).
  - rewrite P5, P4, P3, P2, P1 by reflexivity. rewrite map_map. reflexivity.
  - rewrite P5, P4, P3, P2, P1 by reflexivity. rewrite map_map. reflexivity.
  - rewrite P5, P4, P3, P2 by reflexivity. unfold m1. destruct (Nat.eqb (length lat) (n - 1)).
    + rewrite (map_zip_set_set im_lat set_lat latency_from_rpc) by reflexivity.
      rewrite map_length, (map_base_const im_lat None) by reflexivity. rewrite skipn_repeat. reflexivity.
    + apply map_base_const. reflexivity.
  - rewrite P5, P4, P3 by reflexivity. unfold m2. destruct (Nat.eqb (length bw) (n - 1)).
    + rewrite (map_zip_set_set im_bw set_bw (fun b => if 0 <? b then Some b else None)) by reflexivity.
      rewrite L1, P1, (map_base_const im_bw None) by reflexivity. rewrite skipn_repeat. reflexivity.
    + rewrite P1 by reflexivity. apply map_base_const. reflexivity.
  - rewrite P5, P4 by reflexivity. unfold m3. destruct (Nat.eqb (length ge) n).
    + rewrite (map_zip_set_set im_geo set_geo geo_from_rpc) by reflexivity.
      rewrite L2, P2, P1, (map_base_const im_geo None) by reflexivity. rewrite skipn_repeat. reflexivity.
    + rewrite P2, P1 by reflexivity. apply map_base_const. reflexivity.
  - assert (map im_link m3 = repeat None n) as E3
      by (rewrite P3, P2, P1 by reflexivity; apply map_base_const; reflexivity).
    assert (evens (map im_link (if Nat.eqb (length ih) (n / 2 - 1) then set_odd set_ingress m4 ih else m4))
            = evens (map im_link m4)) as -> by (destruct (Nat.eqb (length ih) (n / 2 - 1)); [apply evens_set_odd|reflexivity]).
    unfold m4. destruct (Nat.eqb (length lt) (n / 2)).
    + rewrite (evens_set_even im_link set_egress (fun t => Some (LEgress (linktype_of_i32 t)))) by reflexivity.
      rewrite length_evens, L3, E3, evens_repeat, skipn_repeat. reflexivity.
    + rewrite E3, evens_repeat. reflexivity.
  - assert (odds (map im_link m4) = repeat None (n / 2)) as E4.
    { unfold m4. destruct (Nat.eqb (length lt) (n / 2)); [rewrite odds_set_even|];
        rewrite P3, P2, P1 by reflexivity; rewrite (map_base_const im_link None) by reflexivity; apply odds_repeat. }
    destruct (Nat.eqb (length ih) (n / 2 - 1)).
    + rewrite (odds_set_odd im_link set_ingress (fun c => Some (LIngress c))) by reflexivity.
      rewrite length_odds, L4, E4, skipn_repeat. reflexivity.
    + exact E4.
Qed.

Ltac Zify.zify_post_hook ::= Z.to_euclidean_division_equations.

Lemma latency_from_rpc_repr d : (fst d <= 9223372036854775807)%Z -> lat_repr (latency_from_rpc d) = true.
Proof.
  destruct d as [s n]. cbn [fst]. intros Hs. unfold latency_from_rpc, NANOS_PER_SECOND, I64_MAX.
  destruct (s <? 0)%Z eqn:E0; [reflexivity|].
  destruct ((n <=? - (1000000000))%Z || (1000000000 <=? n)%Z) eqn:E1.
  - destruct (Z.of_N 9223372036854775807 <? s + Z.quot n 1000000000)%Z eqn:E2.
    + cbn. reflexivity.
    + destruct ((0 <? s + Z.quot n 1000000000)%Z && (Z.rem n 1000000000 <? 0)%Z) eqn:E3.
      * destruct ((0 <=? s + Z.quot n 1000000000 - 1)%Z && (0 <=? Z.rem n 1000000000 + 1000000000)%Z) eqn:E4; [|reflexivity].
        cbn [lat_repr]. lia.
      * destruct ((0 <=? s + Z.quot n 1000000000)%Z && (0 <=? Z.rem n 1000000000)%Z) eqn:E4; [|reflexivity].
        cbn [lat_repr]. lia.
  - destruct ((0 <? s)%Z && (n <? 0)%Z) eqn:E3.
    + destruct ((0 <=? s - 1)%Z && (0 <=? n + 1000000000)%Z) eqn:E4; [|reflexivity]. cbn [lat_repr]. lia.
    + destruct ((0 <=? s)%Z && (0 <=? n)%Z) eqn:E4; [|reflexivity]. cbn [lat_repr]. lia.
Qed.

Lemma geo_from_rpc_repr g : match geo_from_rpc g with Some x => geo_repr x | None => true end = true.
Proof.
  destruct g as [[la lo] ad]. unfold geo_from_rpc.
  destruct (f32_is_zero la && f32_is_zero lo && is_nil ad) eqn:E; [reflexivity|].
  unfold geo_repr. cbn [g_lat g_lon g_addr]. destruct ad as [|c ad]; cbn [is_nil] in *.
  - rewrite E. reflexivity.
  - rewrite Bool.andb_false_r. reflexivity.
Qed.

Lemma forallb_if_repr m :
  Forall (fun v => v <= 65535) (map im_id m) -> Forall (fun v => lat_repr v = true) (map im_lat m) ->
  Forall (fun v => match v with Some b => 0 <? b | None => true end = true) (map im_bw m) ->
  Forall (fun v => match v with Some g => geo_repr g | None => true end = true) (map im_geo m) ->
  forallb if_repr m = true.
Proof.
  induction m as [|a m IH]; intros H1 H2 H3 H4; [reflexivity|]. cbn [map] in *.
  inversion H1; inversion H2; inversion H3; inversion H4; subst. cbn [forallb]. rewrite IH by assumption.
  unfold if_repr. rewrite Bool.andb_true_r.
  repeat (apply Bool.andb_true_iff; split); try assumption. lia.
Qed.

Lemma Forall_repeat {C} (P : C -> Prop) c n : P c -> Forall P (repeat c n).
Proof. intros H. induction n; cbn [repeat]; constructor; assumption. Qed.

Lemma Forall_firstn {C} (P : C -> Prop) l n : Forall P l -> Forall P (firstn n l).
Proof. intros H. revert n. induction H; intros [|n]; cbn [firstn]; constructor; auto. Qed.

Lemma last_map {A C} (pr : A -> C) l d : pr (last l d) = last (map pr l) (pr d).
Proof. induction l as [|a [|b l] IH]; [reflexivity|reflexivity|]. exact IH. Qed.

Lemma last_repeat {C} (c d : C) n : n <> 0%nat -> last (repeat c n) d = c.
Proof. induction n as [|[|n] IH]; intros H; [congruence|reflexivity|]. apply IH. discriminate. Qed.

Lemma last_odds_even {A} (l : list A) d : Nat.even (length l) = true -> l <> [] -> last l d = last (odds l) d.
Proof.
  induction l as [|a|a b l IH] using list_ind2; intros He Hn; [congruence|discriminate|].
  rewrite odds_cons2. destruct l as [|c l]; [reflexivity|].
  change (last (a :: b :: c :: l) d) with (last (c :: l) d). rewrite IH by (auto; discriminate).
  destruct l as [|e l]; [discriminate|]. rewrite odds_cons2. reflexivity.
Qed.

Lemma forallb_map {A C} (pr : A -> C) (P : C -> bool) l : forallb (fun x => P (pr x)) l = forallb P (map pr l).
Proof. induction l as [|a l IH]; [reflexivity|]. cbn [forallb map]. rewrite IH. reflexivity. Qed.

Lemma forallb_repeat {C} (P : C -> bool) c n : P c = true -> forallb P (repeat c n) = true.
Proof. intros H. induction n; cbn [repeat forallb]; [reflexivity|]. rewrite H. assumption. Qed.

Lemma forallb_firstn {C} (P : C -> bool) l n : forallb P l = true -> forallb P (firstn n l) = true.
Proof.
  revert n. induction l as [|a l IH]; intros [|n] H; cbn [firstn forallb] in *; try reflexivity.
  apply Bool.andb_true_iff in H. destruct H as [-> H]. apply IH, H.
Qed.

Lemma forallb_app' {C} (P : C -> bool) a b : forallb P a = true -> forallb P b = true -> forallb P (a ++ b) = true.
Proof. intros H1 H2. rewrite forallb_app, H1, H2. reflexivity. Qed.

Definition eP (o : option linkmeta) : bool := match o with Some (LEgress t) => lt_repr t | _ => false end.
Definition iP (o : option linkmeta) : bool := match o with Some (LIngress c) => c <=? 4294967295 | _ => false end.
Definition nP (o : option linkmeta) : bool := match o with None => true | Some _ => false end.

Lemma rebuild_repr l lat bw ge lt ih :
  length l <> 0%nat -> Nat.even (length l) = true -> Forall (fun x => im_id x <= 65535) l ->
  forallb (fun d => (fst d <=? 9223372036854775807)%Z) lat = true ->
  forallb (fun z => lt_repr (linktype_of_i32 z)) lt = true -> forallb (fun c => c <=? 4294967295) ih = true ->
  ifs_repr (rebuild l lat bw ge lt ih) = true.
Proof.
  intros Hn He Hid Hlat Hlt Hih.
  destruct (rebuild_projections l lat bw ge lt ih) as (Pia & Pid & Pla & Pbw & Pge & Pev & Pod).
  pose proof (length_rebuild l lat bw ge lt ih) as Lm.
  set (m := rebuild l lat bw ge lt ih) in *. set (n := length l) in *.
  assert (2 <= n)%nat as Hn2 by (destruct n as [|[|k]]; [congruence|discriminate|lia]).
  assert ((n + 1) / 2 = n / 2)%nat as Hhalf.
  { apply Nat.even_spec in He. destruct He as [k Hk]. rewrite Hk. clear. lia. }
  unfold ifs_repr. rewrite Lm. fold n.
  assert (negb (Nat.eqb n 0) = true) as -> by (apply Bool.negb_true_iff, Nat.eqb_neq; exact Hn).
  rewrite He. cbn [andb].
  (* every interface is representable *)
  assert (forallb if_repr m = true) as ->.
  { apply forallb_if_repr.
    - rewrite Pid. apply Forall_map. exact Hid.
    - rewrite Pla. destruct (Nat.eqb (length lat) (n - 1)); [|apply Forall_repeat; reflexivity].
      apply Forall_app. split; [|apply Forall_repeat; reflexivity].
      apply Forall_map, Forall_firstn, Forall_forall. intros d Hd. apply latency_from_rpc_repr.
      rewrite forallb_forall in Hlat. specialize (Hlat d Hd). lia.
    - rewrite Pbw. destruct (Nat.eqb (length bw) (n - 1)); [|apply Forall_repeat; reflexivity].
      apply Forall_app. split; [|apply Forall_repeat; reflexivity].
      apply Forall_map, Forall_firstn, Forall_forall. intros b _. destruct (0 <? b) eqn:E; [exact E|reflexivity].
    - rewrite Pge. destruct (Nat.eqb (length ge) n); [|apply Forall_repeat; reflexivity].
      apply Forall_app. split; [|apply Forall_repeat; reflexivity].
      apply Forall_map, Forall_firstn, Forall_forall. intros g _. apply geo_from_rpc_repr. }
  cbn [andb].
  (* the last interface carries no link data *)
  assert (m <> []) as Hmne by (intros E; rewrite E in Lm; cbn in Lm; lia).
  assert (match last m (mkIf 0 0 None None None None) with
          | mkIf _ _ _ la b lk => is_none la && is_none b && is_none lk end = true) as ->.
  { set (d := mkIf 0 0 None None None None).
    assert (im_lat (last m d) = None) as E1.
    { rewrite (last_map im_lat). rewrite Pla. destruct (Nat.eqb (length lat) (n - 1)) eqn:E.
      - apply Nat.eqb_eq in E. replace (n - length lat)%nat with 1%nat by lia. cbn [repeat]. apply last_last.
      - apply last_repeat. exact Hn. }
    assert (im_bw (last m d) = None) as E2.
    { rewrite (last_map im_bw). rewrite Pbw. destruct (Nat.eqb (length bw) (n - 1)) eqn:E.
      - apply Nat.eqb_eq in E. replace (n - length bw)%nat with 1%nat by lia. cbn [repeat]. apply last_last.
      - apply last_repeat. exact Hn. }
    assert (im_link (last m d) = None) as E3.
    { rewrite (last_map im_link). rewrite (last_odds_even (map im_link m)); [|rewrite map_length, Lm; exact He|destruct m; [congruence|discriminate]].
      rewrite Pod. destruct (Nat.eqb (length ih) (n / 2 - 1)) eqn:E.
      - apply Nat.eqb_eq in E. replace (n / 2 - length ih)%nat with 1%nat by lia. cbn [repeat]. apply last_last.
      - apply last_repeat. lia. }
    destruct (last m d) as [? ? ? la b lk]. cbn in E1, E2, E3. subst. reflexivity. }
  cbn [andb].
  (* link types: all or none *)
  assert (all_or_none egress_repr (evens m) = true) as ->.
  { unfold all_or_none.
    assert (forall xs, forallb egress_repr xs = forallb eP (map im_link xs)) as Ee by (intros xs; apply (forallb_map im_link eP)).
    assert (forall xs, forallb no_link xs = forallb nP (map im_link xs)) as En by (intros xs; apply (forallb_map im_link nP)).
    rewrite Ee, En, <- evens_map, Pev. destruct (Nat.eqb (length lt) (n / 2)) eqn:E.
    - apply Nat.eqb_eq in E. rewrite Hhalf, E, Nat.sub_diag. cbn [repeat]. rewrite app_nil_r.
      rewrite <- (forallb_map (fun t => Some (LEgress (linktype_of_i32 t))) eP). cbn [eP].
      rewrite (forallb_firstn _ lt _ Hlt). reflexivity.
    - rewrite (forallb_repeat nP None) by reflexivity. apply Bool.orb_true_r. }
  cbn [andb].
  (* internal hops: all or none *)
  unfold all_or_none.
  assert (forall xs, forallb ingress_repr xs = forallb iP (map im_link xs)) as Ei by (intros xs; apply (forallb_map im_link iP)).
  assert (forall xs, forallb no_link xs = forallb nP (map im_link xs)) as En by (intros xs; apply (forallb_map im_link nP)).
  rewrite Ei, En, <- firstn_map, <- odds_map, Pod. destruct (Nat.eqb (length ih) (n / 2 - 1)) eqn:E.
  - apply Nat.eqb_eq in E. rewrite (firstn_all2 (n := (n / 2)%nat) ih) by lia.
    rewrite firstn_app, map_length, E, Nat.sub_diag. cbn [firstn]. rewrite app_nil_r.
    rewrite <- E, <- (map_length (fun c => Some (LIngress c)) ih), firstn_all.
    rewrite <- (forallb_map (fun c => Some (LIngress c)) iP). cbn [iP]. rewrite Hih. reflexivity.
  - rewrite (forallb_firstn nP _ _ (forallb_repeat nP None _ eq_refl)). apply Bool.orb_true_r.
Qed.

Lemma collect_iface_inv ifs metas :
  collect iface_from_rpc ifs = Ok metas ->
  length metas = length ifs /\ map base metas = metas /\ Forall (fun x => im_id x <= 65535) metas.
Proof.
  revert metas. induction ifs as [|i ifs IH]; intros metas H; cbn [collect] in H.
  - injection H as <-. repeat split. constructor.
  - unfold iface_from_rpc at 1 in H. destruct (U16_MAX <? snd i) eqn:E; cbn [obind] in H; [discriminate|].
    destruct (collect iface_from_rpc ifs) as [ms|e|s]; cbn [obind] in H; try discriminate.
    injection H as <-. destruct (IH ms eq_refl) as (L & B & F). cbn [length map]. rewrite L, B.
    refine (conj eq_refl (conj eq_refl _)). constructor; [cbn [im_id]; unfold U16_MAX in E; lia|exact F].
Qed.

Section PathImage.
Context {SA : Type}.
Variable std_parse : bytes -> option bytes.
Variable sa_parse : bytes -> option SA.
Variable std_ok : bytes -> bool.
Hypothesis std_parse_ok : forall raw, std_parse raw = Some [] -> std_ok raw = true.

Lemma path_from_rpc_repr r src dst (p : spath SA) :
  path_from_rpc std_parse sa_parse r src dst = Ok p -> rpath_canonical r = true ->
  path_repr std_ok p = true.
Proof.
  unfold path_from_rpc, rpath_canonical. intros H Hc.
  apply Bool.andb_true_iff in Hc. destruct Hc as [Hc Cih].
  apply Bool.andb_true_iff in Hc. destruct Hc as [Hc Clt].
  apply Bool.andb_true_iff in Hc. destruct Hc as [Cexp Clat].
  destruct (is_nil (rp_raw r)) eqn:Eraw.
  - destruct (ia_is_wildcard src) eqn:Ws; destruct (ia_is_wildcard dst) eqn:Wd; cbn [andb] in H; try discriminate.
    + destruct (src =? dst); discriminate.
    + destruct (src =? dst) eqn:E; [|discriminate]. injection H as <-.
      unfold path_repr. cbn [sp_meta sp_raw sp_src sp_dst sp_hop is_nil is_none]. rewrite N.eqb_refl, Ws. reflexivity.
    + destruct (src =? dst) eqn:E; [|discriminate]. injection H as <-.
      unfold path_repr. cbn [sp_meta sp_raw sp_src sp_dst sp_hop is_nil is_none]. rewrite N.eqb_refl, Ws. reflexivity.
  - destruct (std_parse (rp_raw r)) as [rest|] eqn:Estd; [|discriminate].
    destruct rest as [|? ?]; cbn [is_nil negb] in H; [|discriminate].
    destruct (match rp_iface r with
              | Some (Some a) => match sa_parse a with Some x => Some (Some x) | None => None end
              | _ => Some None end) as [nh|]; [|discriminate].
    destruct (Nat.eqb (length (rp_ifs r)) 0 || negb (Nat.even (length (rp_ifs r))))%bool eqn:Ecnt; [discriminate|].
    destruct (collect iface_from_rpc (rp_ifs r)) as [metas|e|s] eqn:Ecol; cbn [obind] in H; try discriminate.
    destruct (rp_exp r) as [[secs nn]|]; [|discriminate].
    destruct (U16_MAX <? rp_mtu r) eqn:Emtu; [discriminate|].
    injection H as <-.
    destruct (collect_iface_inv _ _ Ecol) as (Lm & Hb & Hid).
    apply Bool.orb_false_iff in Ecnt. destruct Ecnt as [E0 Eev]. apply Bool.negb_false_iff in Eev. apply Nat.eqb_neq in E0.
    unfold path_repr. cbn [sp_meta sp_raw sp_src sp_dst sp_hop pm_exp pm_mtu pm_ifs pm_notes].
    rewrite Eraw, (std_parse_ok _ Estd). cbn [negb andb].
    assert ((u64_of_i64 secs <=? 9223372036854775807) = true) as ->.
    { unfold u64_of_i64. apply Bool.andb_true_iff in Cexp. rewrite Z.mod_small by lia. lia. }
    assert ((rp_mtu r <=? 65535) = true) as -> by (unfold U16_MAX in Emtu; lia).
    cbn [andb].
    match goal with |- context [ifs_repr ?e] =>
      assert (e = rebuild metas (rp_lat r) (rp_bw r) (rp_geo r) (rp_lt r) (rp_ih r)) as ->
        by (unfold rebuild; cbv zeta; rewrite Hb, Lm; reflexivity) end.
    rewrite rebuild_repr; [|rewrite Lm; exact E0|rewrite Lm; exact Eev|exact Hid|exact Clat|exact Clt|exact Cih].
    rewrite length_rebuild, Lm. cbn [andb].
    change (fst (Nat.divmod (length (rp_ifs r)) 1 0 1)) with (length (rp_ifs r) / 2)%nat.
    destruct (Nat.eqb (length (rp_notes r)) (length (rp_ifs r) / 2 + 1)) eqn:En; [exact En|reflexivity].
Qed.
End PathImage.

(** a value used as non-vacuity example in [Props] *)
Definition example_path : spath bytes :=
  mkPath 281474976710672 281474976710673 [0; 0; 32; 0]
    (Some (mkPM 1800000000 1400
       (Some [mkIf 1 1 (Some (mkGeo 1111359488 1091043328 (Some [120]))) (Some (0, 5000)) (Some 100) (Some (LEgress LtDirect));
              mkIf 2 2 None None None (Some (LIngress 3));
              mkIf 2 3 None (Some (1, 0)) None (Some (LEgress (LtUnknown 200)));
              mkIf 3 4 None None None None])
       (Some ([1; 2], [])) (Some [[97]; []; [98]])))
    (Some [49; 48]).
