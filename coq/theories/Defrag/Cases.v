(** Correspondence driver for C17: evaluated by [vm_compute] on case files written by the
    Rust harness (harness/ht/src/bin/h_defrag.rs).  For each case: the model is run on the
    same frame schedule as the implementation and the per-frame results are compared; and
    the property oracles of [Spec] are evaluated on the IMPLEMENTATION's observed output. *)
From Sci Require Export Defrag.Model Defrag.Spec.
Local Open Scope N_scope.

Inductive dinput :=
| IF (so fo flags : N) (resv : list N) (runs : list (N * N))
| IRaw (b : list N).

Definition eres := (N * N * list (N * N))%type.   (* code, stream offset, rle payload *)

Record dcase := mkCase {
  c_q : N; c_in : list dinput; c_res : list eres; c_sent : list (N * list (N * N)) }.

Definition input_bytes (i : dinput) : list N :=
  match i with
  | IF so fo fl resv runs =>
    be_bytes 8 so ++ be_bytes 2 fo ++ be_bytes 2 fl ++ resv ++ rle_expand runs
  | IRaw b => b
  end.

Definition err_code (e : derr) : N :=
  match e with
  | QueueNotAccepting => 10 | InvalidHeader => 11 | OutOfBounds => 12
  | Duplicate => 13 | TooOld => 14 | InvalidHeaderValue c => 20 + c
  end.

Definition enc_res (r : res N) : eres :=
  match r with
  | Ok None => (0, 0, [])
  | Ok (Some (so, p)) => (1, so, rle p)
  | Err e => (err_code e, 0, [])
  | Panic _ => (99, 0, [])
  end.

Fixpoint run_model (qs : list (queue N)) (dead : bool) (ins : list (list N)) : list eres :=
  match ins with
  | [] => []
  | b :: r =>
    if dead then (99, 0, []) :: run_model qs true r else
    let '(qs', o, _) := recv qs b in
    enc_res o :: run_model qs' (is_panic o) r
  end.

Definition eres_eqb (a b : eres) : bool :=
  let '(c1, s1, p1) := a in let '(c2, s2, p2) := b in
  (c1 =? c2) && (s1 =? s2) && list_eqb pairN_eqb p1 p2.

(** implementation's emissions, with the index of the frame that triggered each *)
Definition emissions_of (res : list eres) : list (nat * N * list N) :=
  flat_map (fun '(k, (code, so, p)) => if code =? 1 then [(k, so, rle_expand p)] else [])
           (combine (seq 0 (length res)) res).
Definition emissions (c : dcase) : list (nat * N * list N) := emissions_of (c_res c).

Definition parsed_inputs (c : dcase) : list (option (frame N)) :=
  map (fun i => parse_frame (input_bytes i)) (c_in c).

Definition verdict (c : dcase) : N :=
  let ins := map input_bytes (c_in c) in
  let model := run_model (defrag_new 0 (N.to_nat (c_q c))) false ins in
  let mismatch := negb (list_eqb eres_eqb model (c_res c)) in
  let frames := parsed_inputs c in
  let ems := emissions c in
  let panicked := existsb (fun '(code, _, _) => code =? 99) (c_res c) in
  (* property oracles on the implementation's output *)
  let prov_bad := filter (fun '(k, so, p) => negb (prov_ok N.eqb (firstn (S k) frames) so p)) ems in
  let honest := negb (match c_sent c with [] => true | _ => false end) in
  let sent := map (fun '(so, d) => (so, rle_expand d)) (c_sent c) in
  let ident_bad := if honest then filter (fun '(k, so, p) => negb (sent_ok N.eqb sent so p)) ems else [] in
  let twice := if honest then filter (fun '(k, so, p) => twice_before ems k so) ems else [] in
  let twice_unknown := filter (fun '(k, so, p) => negb (known_dup_class frames so)) twice in
  (* liveness ("emitted whenever all its frames arrive before its slot is reclaimed"): with an
     honest sender, a packet that the model -- slot selection and eviction of the OLDEST slot as
     documented -- emits must be emitted by the implementation too (at some step) *)
  let lost := if honest then
      filter (fun '(k, so, p) => negb (existsb (fun '(_, so', _) => so' =? so) ems)) (emissions_of model)
    else [] in
  let unknown := panicked || negb (match prov_bad, ident_bad, twice_unknown, lost with [], [], [], [] => true | _, _, _, _ => false end) in
  let known := match twice with [] => false | _ => match twice_unknown with [] => true | _ => false end end in
  (if mismatch then 1 else 0) + (if unknown then 2 else 0) + (if known then 16 else 0).

Definition verdicts (cs : list dcase) : list N := map verdict cs.
