From Sci Require Import Defrag.Model.
