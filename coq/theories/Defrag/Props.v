(** C17 -- property theorems only.  Each is closed by [exact] of a lemma of [Proofs], pinned by
    [Check], and followed by [Print Assumptions]. *)
From Sci Require Import Defrag.Model Defrag.Spec Defrag.Proofs Defrag.Live.
From Coq Require Import Permutation.
Local Open Scope N_scope.

(** Every emitted packet consists entirely of bytes received in frames of that same packet
    (same stream offset) accepted into the emitting slot since the slot's last
    initialisation, each byte at its own position; the packet length is the one announced
    by a LAST frame of that packet; nothing panics.  For every byte type, every frame
    sequence, every positive queue count: no bound on sizes or history length. *)
Theorem emitted_bytes_own_epoch :
  forall (B : Type) (dflt : B) (n : nat) (fs : list (frame B)),
    n <> 0%nat ->
    Forall2 GoodStep fs (grun (defrag_new dflt n) (repeat [] n) fs).
Proof.
  intros B dflt n fs Hn. apply grun_good; [apply DInv_new|].
  unfold defrag_new. destruct n; [congruence|discriminate].
Qed.
Check emitted_bytes_own_epoch :
  forall (B : Type) (dflt : B) (n : nat) (fs : list (frame B)),
    n <> 0%nat -> Forall2 GoodStep fs (grun (defrag_new dflt n) (repeat [] n) fs).
Print Assumptions emitted_bytes_own_epoch.

(** the ghost logs used above hold only frames of the history delivered so far *)
Theorem logs_are_history :
  forall (B : Type) (dflt : B) (n : nat) (fs : list (frame B)) k r ev logs',
    nth_error (grun (defrag_new dflt n) (repeat [] n) fs) k = Some (r, ev, logs') ->
    LogsFrom (firstn (S k) fs) logs'.
Proof.
  intros B dflt n fs k r ev logs' H.
  refine (grun_logs_from _ _ fs [] _ k r ev logs' H).
  intros lg g Hlg Hg. apply repeat_spec in Hlg. subst lg. destruct Hg.
Qed.
Print Assumptions logs_are_history.

(** with an honest sender an emitted packet is byte-identical to the packet that was sent *)
Theorem honest_emission_identical :
  forall (B : Type) (mtu so : N) (data : list B) frames nxt lg so' p,
    fragmenter_send mtu so data = Ok (frames, nxt) ->
    Emitted lg so' p -> (forall g, In g lg -> In g frames) -> p = data.
Proof.
  intros B mtu so data frames nxt lg so' p Hs He Hsub.
  apply (honest_identical lg so' data p He). intros g Hg. specialize (Hsub g Hg).
  unfold fragmenter_send in Hs.
  destruct (MAX_PACKET_SIZE <? N.of_nat (length data)) eqn:E1; [discriminate|].
  destruct (N.of_nat (length data) =? 0); [discriminate|].
  inversion Hs; subst frames nxt; clear Hs. apply N.ltb_ge in E1.
  refine (proj2 (send_frames_honest (length data) so _ 0 [] data _ eq_refl E1 g Hsub)).
  unfold clamp_mtu. pose proof (N.le_max_r (N.min mtu MAX_MTU) MIN_MTU).
  assert (MIN_MTU = 272 /\ HEADER_SIZE = 16) as [E2 E3] by (split; reflexivity).
  rewrite E2, E3 in *. lia.
Qed.
Print Assumptions honest_emission_identical.

(** at most one emission per slot epoch: an emission closes the slot, a closed slot
    rejects every frame until it is initialised again.
    PARTIAL with respect to the property's "at most once": across epochs the recorded
    finding C17-dup-reemit (Findings.v) shows a duplicated packet is emitted again. *)
Theorem one_emission_per_epoch_partial :
  forall (B : Type) (q : queue B) log f q' so p,
    QInv q log -> h_so (f_hdr f) = q_so q -> ingest_frame q f = (q', Ok (Some (so, p))) ->
    q_idle q' = true /\ forall g, ingest_frame q' g = (q', Err QueueNotAccepting).
Proof.
  intros B q log f q' so p I Hso E. pose proof (emission_closes_epoch q log f q' so p I Hso E) as H.
  split; [exact H|]. intros g. apply idle_slot_rejects. exact H.
Qed.
Print Assumptions one_emission_per_epoch_partial.

(** arbitrary frames never grow memory: the number of slots is constant, every slot buffer
    keeps its size and every slot tracks at most MAX_FRAMES frames *)
Theorem bounded_state :
  forall (B : Type) (qs : list (queue B)) logs f qs' r ev,
    DInv qs logs -> qs <> [] -> recv_frame qs f = (qs', r, ev) ->
    length qs' = length qs /\
    forall i q, nth_error qs' i = Some q ->
      length (q_buf q) = N.to_nat MAX_PACKET_SIZE /\
      (q_idle q = false -> (length (q_mask q) <= N.to_nat MAX_FRAMES)%nat).
Proof.
  intros B qs logs f qs' r ev D Hne E. split; [eapply recv_frame_length; eauto|].
  destruct (recv_frame_spec qs logs f qs' r ev D Hne E) as ((_ & DQ) & _).
  intros i q Hq. specialize (DQ i q Hq). split; [apply (qi_len _ _ DQ)|].
  intros Hi. eapply mask_bounded. apply (qi_act _ _ DQ Hi).
Qed.
Print Assumptions bounded_state.

(** [bounded_state] lifted to EVERY reachable state: after any frame history whatsoever the
    defragmenter still has exactly its configured number of slots, every slot buffer has its
    fixed size and every active slot tracks at most MAX_FRAMES frames. *)
Theorem bounded_state_every_history :
  forall (B : Type) (dflt : B) (n : nat) (fs : list (frame B)),
    n <> 0%nat ->
    let qs := srun (defrag_new dflt n) fs in
    length qs = n /\
    forall i q, nth_error qs i = Some q ->
      length (q_buf q) = N.to_nat MAX_PACKET_SIZE /\
      (q_idle q = false -> (length (q_mask q) <= N.to_nat MAX_FRAMES)%nat).
Proof.
  intros B dflt n fs Hn qs. subst qs.
  rewrite <- (drun_srun fs (defrag_new dflt n) (repeat [] n)).
  assert (Hne : defrag_new dflt n <> []) by (unfold defrag_new; destruct n; [congruence|discriminate]).
  destruct (drun_inv fs _ _ (DInv_new dflt n) Hne) as ((_ & DQ) & Hl).
  split; [rewrite Hl; unfold defrag_new; apply repeat_length|].
  intros i q Hq. specialize (DQ i q Hq). split; [apply (qi_len _ _ DQ)|].
  intros Hi. eapply mask_bounded. apply (qi_act _ _ DQ Hi).
Qed.
Print Assumptions bounded_state_every_history.

(** "it is emitted whenever all its frames arrive before its slot is reclaimed, regardless
    of reordering": the frames Fragmenter::send produces for a multi-frame packet, in ANY
    order, into the slot initialised for that packet, are all accepted, and exactly the frame
    that completes the set makes the slot emit the packet, byte-identical.  (Single-frame
    packets take the fast path: emitted_bytes_own_epoch.)
    PARTIAL: stated for one slot between two initialisations and without duplicated frames
    in between (a duplicate is rejected with Err Duplicate and leaves the slot unchanged in
    the model; that step is covered by the correspondence, not by this theorem). *)
Theorem all_frames_any_order_emit_partial :
  forall (B : Type) (mtu so : N) (data : list B) frames nxt perm (q : queue B) f0,
    fragmenter_send mtu so data = Ok (frames, nxt) ->
    (2 <= length frames)%nat ->
    Permutation perm frames ->
    length (q_buf q) = N.to_nat MAX_PACKET_SIZE -> h_so (f_hdr f0) = so ->
    feed (queue_init q f0) perm
    = repeat (Ok None) (length frames - 1) ++ [Ok (Some (so, data))].
Proof. exact @all_frames_any_order_emit. Qed.
Print Assumptions all_frames_any_order_emit_partial.

(** The complete behaviour of one slot epoch on ANY schedule of the frames of an honestly
    fragmented multi-frame packet -- reordering, duplication and missing frames included:
    first occurrences are accepted ([Ok None]), exactly the frame that completes the set emits
    the packet byte-identical, repeated frames are rejected as duplicates and change nothing,
    and after the emission everything is rejected until the slot is initialised again; so
    within an epoch the packet is emitted exactly once iff all its frames arrive, and never
    otherwise.  (Across epochs: known finding C17-dup-reemit.) *)
Theorem slot_epoch_any_schedule :
  forall (B : Type) (mtu so : N) (data : list B) frames nxt (sched : list nat)
         (q : queue B) f0 d,
    fragmenter_send mtu so data = Ok (frames, nxt) ->
    (2 <= length frames)%nat ->
    (forall j, In j sched -> (j < length frames)%nat) ->
    length (q_buf q) = N.to_nat MAX_PACKET_SIZE -> h_so (f_hdr f0) = so ->
    feed (queue_init q f0) (map (fun j => nth j frames d) sched)
    = spec_feed so (length frames) data [] false sched.
Proof. exact @Live.slot_epoch_any_schedule. Qed.
Print Assumptions slot_epoch_any_schedule.

(** "regardless of ... interleaving with other packets or loss of other packets' frames": a
    frame leaves every slot other than the one it is routed to exactly as it was; a slot is
    touched by a frame of another packet only when it is selected for reuse (idle or evicted
    as the oldest), i.e. reclaimed.  Together with [slot_epoch_any_schedule] this gives the
    liveness clause at the level of the whole defragmenter. *)
Theorem other_packets_do_not_disturb :
  forall (B : Type) (qs : list (queue B)) f qs' r ev i,
    recv_frame qs f = (qs', r, ev) ->
    match ev with Some (k, _) => k <> i | None => True end ->
    nth_error qs' i = nth_error qs i.
Proof. exact @recv_frame_other_slots. Qed.
Print Assumptions other_packets_do_not_disturb.

(** "at most once" inside a slot epoch, on ANY schedule (reordering, duplication, omission) of
    the frames of an honestly fragmented multi-frame packet: the slot's results contain at
    most one emission.  (Across epochs: known finding C17-dup-reemit.) *)
Theorem slot_epoch_emits_at_most_once :
  forall (B : Type) (mtu so : N) (data : list B) frames nxt (sched : list nat)
         (q : queue B) f0 d,
    fragmenter_send mtu so data = Ok (frames, nxt) ->
    (2 <= length frames)%nat ->
    (forall j, In j sched -> (j < length frames)%nat) ->
    length (q_buf q) = N.to_nat MAX_PACKET_SIZE -> h_so (f_hdr f0) = so ->
    (length (filter is_emit
       (feed (queue_init q f0) (map (fun j => nth j frames d) sched))) <= 1)%nat.
Proof.
  intros B mtu so data frames nxt sched q f0 d Hs Hn Hj Hb Hf.
  rewrite (Live.slot_epoch_any_schedule mtu so data frames nxt sched q f0 d Hs Hn Hj Hb Hf).
  apply spec_feed_emits_at_most_once.
Qed.
Print Assumptions slot_epoch_emits_at_most_once.

(** "it is emitted whenever all its frames arrive ... and never otherwise": on ANY schedule of
    the frames of an honestly fragmented multi-frame packet the slot emits the packet if and
    only if every one of its frames occurs in the schedule. *)
Theorem slot_epoch_emits_iff_all_frames_arrive :
  forall (B : Type) (mtu so : N) (data : list B) frames nxt (sched : list nat)
         (q : queue B) f0 d,
    fragmenter_send mtu so data = Ok (frames, nxt) ->
    (2 <= length frames)%nat ->
    (forall j, In j sched -> (j < length frames)%nat) ->
    length (q_buf q) = N.to_nat MAX_PACKET_SIZE -> h_so (f_hdr f0) = so ->
    (existsb is_emit (feed (queue_init q f0) (map (fun j => nth j frames d) sched)) = true
     <-> forall k, (k < length frames)%nat -> In k sched).
Proof.
  intros B mtu so data frames nxt sched q f0 d Hs Hn Hj Hb Hf.
  rewrite (Live.slot_epoch_any_schedule mtu so data frames nxt sched q f0 d Hs Hn Hj Hb Hf).
  rewrite (spec_feed_emits_iff_all_arrive so (length frames) data sched [] (NoDup_nil _));
    [|intros ? []|cbn [length]; lia|exact Hj].
  split; intros H k Hk; [destruct (H k Hk) as [[]|H1]; exact H1|right; apply H; exact Hk].
Qed.
Print Assumptions slot_epoch_emits_iff_all_frames_arrive.

(** both together: EXACTLY one emission iff every frame arrives, none otherwise *)
Theorem slot_epoch_exactly_once_iff_all_frames_arrive :
  forall (B : Type) (mtu so : N) (data : list B) frames nxt (sched : list nat)
         (q : queue B) f0 d,
    fragmenter_send mtu so data = Ok (frames, nxt) ->
    (2 <= length frames)%nat ->
    (forall j, In j sched -> (j < length frames)%nat) ->
    length (q_buf q) = N.to_nat MAX_PACKET_SIZE -> h_so (f_hdr f0) = so ->
    let emissions := filter is_emit
          (feed (queue_init q f0) (map (fun j => nth j frames d) sched)) in
    ((forall k, (k < length frames)%nat -> In k sched) -> length emissions = 1%nat) /\
    (~ (forall k, (k < length frames)%nat -> In k sched) -> emissions = []).
Proof.
  intros B mtu so data frames nxt sched q f0 d Hs Hn Hj Hb Hf emissions. subst emissions.
  pose proof (slot_epoch_emits_at_most_once B mtu so data frames nxt sched q f0 d Hs Hn Hj Hb Hf) as H1.
  pose proof (slot_epoch_emits_iff_all_frames_arrive B mtu so data frames nxt sched q f0 d Hs Hn Hj Hb Hf) as H2.
  set (l := feed (queue_init q f0) (map (fun j => nth j frames d) sched)) in *.
  assert (Hex : existsb is_emit l = true <-> filter is_emit l <> []).
  { clear. induction l as [|x l IH]; cbn [existsb filter]; [split; [discriminate|congruence]|].
    destruct (is_emit x); cbn [orb]; [split; [discriminate|reflexivity]|exact IH]. }
  split.
  - intros Hall. apply H2, Hex in Hall. destruct (filter is_emit l) as [|a [|b r]]; cbn [length] in *;
      [congruence|reflexivity|lia].
  - intros Hn'. destruct (filter is_emit l) as [|a r] eqn:E; [reflexivity|].
    exfalso. apply Hn', H2, Hex. discriminate.
Qed.
Print Assumptions slot_epoch_exactly_once_iff_all_frames_arrive.

(** non-vacuity: a three-frame packet delivered last-frame-first is emitted, intact *)
Example reorder_emits :
  let d1 := repeat 1 256 in let d2 := repeat 2 256 in let d3 := repeat 3 10 in
  let f1 := mkFrame (mkHdr 0 0 0) d1 in let f2 := mkFrame (mkHdr 0 256 0) d2 in
  let f3 := mkFrame (mkHdr 0 512 32768) d3 in
  map (fun x => fst (fst x)) (grun (defrag_new 0 2) (repeat [] 2) [f3; f1; f2])
  = [Ok None; Ok None; Ok (Some (0, d1 ++ d2 ++ d3))].
Proof. vm_compute. reflexivity. Qed.

(** non-vacuity of [slot_epoch_emits_iff_all_frames_arrive] / [slot_epoch_emits_at_most_once]:
    the real fragmenter cuts a 522-byte packet (MTU 272) into three frames; a schedule that
    repeats frames but omits frame 1 emits nothing, a schedule containing all three (with
    repeats, before and after completion) emits exactly once. *)
Example omission_never_emits_all_frames_emit_once :
  let data := repeat 1 256 ++ repeat 2 256 ++ repeat 3 10 in
  match fragmenter_send 272 0 data with
  | Ok (frames, _) =>
    let f0 := nth 0%nat frames (mkFrame (mkHdr 0 0 0) []) in
    let run sched := map is_emit
      (feed (queue_init (queue_new 0) f0) (map (fun j => nth j frames f0) sched)) in
    length frames = 3%nat /\
    run [2; 0; 2; 0; 0]%nat = [false; false; false; false; false] /\
    run [2; 0; 2; 1; 1; 0]%nat = [false; false; false; true; false; false]
  | _ => False
  end.
Proof. vm_compute. repeat split; reflexivity. Qed.
