(** Model of crates/libs/anapaya-edge-tun/src/fragmenting.rs (Fragmenter::send,
    FragmentFrameRef::from_slice, DefragmenterInner::{recv_fallible, select_queue},
    DefragQueue::{new, init, ingest_frame}).  Definitions only; statement by statement.

    The payload byte type [B] is a parameter: the code never inspects payload bytes, so the
    model is polymorphic in them.  Execution (correspondence check) uses [B := N]; the
    theorems hold for every [B], in particular for bytes tagged with their provenance. *)
From Sci Require Export Common.Outcome Gen.DefragConfig.
Local Open Scope N_scope.

Record hdr := mkHdr { h_so : N; h_fo : N; h_flags : N }.
Definition is_last (h : hdr) : bool := N.testbit (h_flags h) LAST_FLAG_BIT.

Inductive derr :=
| QueueNotAccepting | InvalidHeader | InvalidHeaderValue (code : N)
| OutOfBounds | Duplicate | TooOld.
(* InvalidHeaderValue codes *)
Definition IHV_LAST_SIZE := 1.      (* last_packet_size_exceeds_max_packet_size *)
Definition IHV_INCONSISTENT := 2.   (* inconsistent_frame_size *)
Definition IHV_ALIGN := 3.          (* offset_alignment_invalid *)
Definition IHV_TOO_SMALL := 4.      (* frame_too_small *)
Definition IHV_IDX := 5.            (* frame_idx_exceeds_max_frames *)
Definition IHV_LAST_ALIGN := 6.     (* last_frame_offset_alignment_invalid *)
Definition IHV_LAST_LEN := 7.       (* last_frame_size_invalid (added by the C17 repair) *)

(* panic sites *)
Definition P_DIV0 := 1. Definition P_MASK_IDX := 2. Definition P_COPY := 3.
Definition P_ADD_U16 := 4. Definition P_SUB := 7. Definition P_SLICE := 5. Definition P_QUEUE_IDX := 6.

Section WithByte.
Context {B : Type}.

Record frame := mkFrame { f_hdr : hdr; f_frag : list B }.
Definition flen (f : frame) : N := N.of_nat (length (f_frag f)).

Record queue := mkQ {
  q_so : N;                 (* stream_offset; 2^64-1 = never used *)
  q_next : N;               (* next_frame_offset (metrics only) *)
  q_buf : list B;           (* assembly_buffer: MAX_PACKET_SIZE bytes, never cleared *)
  q_mask : list N;          (* set bits of recv_mask, as frame indices *)
  q_fws : option N;         (* frame_window_size *)
  q_fps : option N;         (* final_packet_size *)
  q_exp : option N;         (* expected_frames *)
  q_lfo : option N;         (* last_frame_offset: NOT reset by init *)
  q_idle : bool }.

Definition queue_new (dflt : B) : queue :=
  mkQ U64_MAX 0 (repeat dflt (N.to_nat MAX_PACKET_SIZE)) [] None None None None true.

Definition queue_init (q : queue) (f : frame) : queue :=
  mkQ (h_so (f_hdr f)) (q_next q) (q_buf q) [] None None None (q_lfo q) false.

Definition set_idle (q : queue) : queue :=
  mkQ (q_so q) (q_next q) (q_buf q) (q_mask q) (q_fws q) (q_fps q) (q_exp q) (q_lfo q) true.

(* assembly_buffer[off..off+len].copy_from_slice(data) *)
Definition write_buf (buf : list B) (off : N) (data : list B) : list B :=
  firstn (N.to_nat off) buf ++ data ++ skipn (N.to_nat off + length data) buf.

(* &assembly_buffer[..n] *)
Definition read_buf (buf : list B) (n : N) : list B := firstn (N.to_nat n) buf.

Definition mem (x : N) (l : list N) : bool := existsb (N.eqb x) l.

(* u16::is_multiple_of *)
Definition is_multiple_of (a b : N) : bool := if b =? 0 then a =? 0 else a mod b =? 0.

Definition packet := (N * list B)%type.  (* stream offset, payload *)
Definition res := outcome (option packet) derr.

(* DefragQueue::received_exactly (C17 repair): popcount, last frame, all middle frames *)
Definition received_exactly (mask : list N) (e : N) : bool :=
  (N.of_nat (length mask) =? e) && mem (MAX_FRAMES - 1) mask
  && forallb (fun i => mem (N.of_nat i) mask) (seq 0 (N.to_nat (e - 1))).
(* has_frame(i) indexes recv_mask[i / BITS]: out of range for i >= MAX_FRAMES *)
Definition received_exactly_panics (mask : list N) (e : N) : bool :=
  (N.of_nat (length mask) =? e) && mem (MAX_FRAMES - 1) mask && (MAX_FRAMES <? e - 1).

(** DefragQueue::ingest_frame, in the three parts of the Rust function body.
    Each returns the queue afterwards and the (intermediate) result. *)

(* part 1: `let frame_index = match frame.header.is_last() { .. }` *)
Definition ingest_classify (q : queue) (f : frame) : queue * outcome N derr :=
  let h := f_hdr f in
  let len := flen f in
  if is_last h then
    (* has_frame(MAX_FRAMES - 1): a repeated last frame is a duplicate (C17 repair) *)
    if BITMASK_ENTRY_COUNT <=? (MAX_FRAMES - 1) / BITMASK_ENTRY_BITS then (q, Panic P_MASK_IDX) else
    if mem (MAX_FRAMES - 1) (q_mask q) then (q, Err Duplicate) else
    let fps := h_fo h + len in
    let q1 := mkQ (q_so q) (q_next q) (q_buf q) (q_mask q) (q_fws q) (Some fps) (q_exp q)
                  (Some (h_fo h)) (q_idle q) in
    if MAX_PACKET_SIZE <? fps then (set_idle q1, Err (InvalidHeaderValue IHV_LAST_SIZE))
    else (q1, Ok (MAX_FRAMES - 1))
  else
    let inconsistent := match q_fws q with Some w => negb (w =? len) | None => false end in
    if inconsistent then (set_idle q, Err (InvalidHeaderValue IHV_INCONSISTENT)) else
    let q1 := mkQ (q_so q) (q_next q) (q_buf q) (q_mask q) (Some len) (q_fps q)
                  (q_exp q) (q_lfo q) (q_idle q) in
    if negb (is_multiple_of (h_fo h) (len mod 65536)) then
      (set_idle q1, Err (InvalidHeaderValue IHV_ALIGN))
    else if len <? MIN_PAYLOAD_SIZE then
      (set_idle q1, Err (InvalidHeaderValue IHV_TOO_SMALL))
    else if len =? 0 then (q1, Panic P_DIV0)
    else
      let idx := h_fo h / len in
      if MAX_FRAMES - 1 <=? idx then (set_idle q1, Err (InvalidHeaderValue IHV_IDX))
      else (q1, Ok idx).

(* part 2: the one time operation after the last and any middle frame are known *)
Definition ingest_expect (q1 : queue) : queue * outcome unit derr :=
  match q_fps q1, q_fws q1, q_lfo q1, q_exp q1 with
  | Some fps, Some w, Some lfo, None =>
    if w =? 0 then
      (* usize::is_multiple_of(0) is (lfo == 0); div_ceil by zero panics *)
      if negb (lfo =? 0) then (set_idle q1, Err (InvalidHeaderValue IHV_LAST_ALIGN))
      else (q1, Panic P_DIV0)
    else if negb (lfo mod w =? 0) then
      (set_idle q1, Err (InvalidHeaderValue IHV_LAST_ALIGN))
    else if fps <? lfo then (q1, Panic P_SUB)
    else if (fps - lfo =? 0) || (w <? fps - lfo) then
      (set_idle q1, Err (InvalidHeaderValue IHV_LAST_LEN))
    else
      let e := (fps + w - 1) / w in
      (mkQ (q_so q1) (q_next q1) (q_buf q1) (q_mask q1) (q_fws q1) (q_fps q1) (Some e)
           (q_lfo q1) (q_idle q1), Ok tt)
  | _, _, _, _ => (q1, Ok tt)
  end.

(* part 3: duplicate test, copy, completion test *)
Definition ingest_store (q2 : queue) (f : frame) (idx : N) : queue * res :=
  let h := f_hdr f in
  let len := flen f in
  if BITMASK_ENTRY_COUNT <=? idx / BITMASK_ENTRY_BITS then (q2, Panic P_MASK_IDX) else
  if mem idx (q_mask q2) then (q2, Err Duplicate) else
  if N.of_nat (length (q_buf q2)) <? h_fo h + len then (q2, Panic P_COPY) else
  let nxt := h_fo h + len mod 65536 in
  if 65535 <? nxt then (q2, Panic P_ADD_U16) else
  let q3 := mkQ (q_so q2) nxt (write_buf (q_buf q2) (h_fo h) (f_frag f))
                (idx :: q_mask q2) (q_fws q2) (q_fps q2) (q_exp q2) (q_lfo q2)
                (q_idle q2) in
  match q_exp q3 with
  | Some e =>
    if received_exactly_panics (q_mask q3) e then (q3, Panic P_MASK_IDX) else
    if received_exactly (q_mask q3) e then
      let size := match q_fps q3 with Some s => s | None => MAX_PACKET_SIZE end in
      if N.of_nat (length (q_buf q3)) <? size then (set_idle q3, Panic P_SLICE) else
      (set_idle q3, Ok (Some (q_so q3, read_buf (q_buf q3) size)))
    else (q3, Ok None)
  | None => (q3, Ok None)
  end.

Definition ingest_frame (q : queue) (f : frame) : queue * res :=
  if q_idle q then (q, Err QueueNotAccepting) else
  if MAX_PACKET_SIZE <? h_fo (f_hdr f) + flen f then (set_idle q, Err OutOfBounds) else
  let '(q1, r1) := ingest_classify q f in
  match r1 with
  | Err e => (q1, Err e)
  | Panic s => (q1, Panic s)
  | Ok idx =>
    let '(q2, r2) := ingest_expect q1 in
    match r2 with
    | Err e => (q2, Err e)
    | Panic s => (q2, Panic s)
    | Ok _ => ingest_store q2 f idx
    end
  end.

(** DefragmenterInner::select_queue.  [Some (i, inited)] or [None] (too old). *)
Fixpoint scan (qs : list queue) (i : nat) (so : N)
         (lowest : N) (lowest_i : nat) (idle : option nat)
  : nat + (N * nat * option nat) :=
  match qs with
  | [] => inr (lowest, lowest_i, idle)
  | q :: r =>
    if q_so q =? so then inl i else
    let idle' := if q_idle q then Some i else idle in
    if q_so q <? lowest then scan r (S i) so (q_so q) i idle'
    else scan r (S i) so lowest lowest_i idle'
  end.

Definition select_queue (qs : list queue) (f : frame) : option (nat * bool) :=
  match scan qs 0 (h_so (f_hdr f)) U64_MAX 0%nat None with
  | inl i => Some (i, false)
  | inr (lowest, lowest_i, idle) =>
    match idle with
    | None => if h_so (f_hdr f) <? lowest then None else Some (lowest_i, true)
    | Some i => Some (i, true)
    end
  end.

Fixpoint set_nth {A} (l : list A) (i : nat) (a : A) : list A :=
  match l, i with
  | [], _ => []
  | _ :: r, O => a :: r
  | x :: r, S k => x :: set_nth r k a
  end.

(** What happened, for the ghost bookkeeping of the proofs: which queue was used and
    whether it was (re-)initialised.  [None]: fast path or rejected before selection. *)
Definition event := option (nat * bool).

(** DefragmenterInner::recv_fallible on an already parsed frame. *)
Definition recv_frame (qs : list queue) (f : frame) : list queue * res * event :=
  let h := f_hdr f in
  if is_last h && (h_fo h =? 0) then (qs, Ok (Some (h_so h, f_frag f)), None) else
  match select_queue qs f with
  | None => (qs, Err TooOld, None)
  | Some (i, inited) =>
    match nth_error qs i with
    | None => (qs, Panic P_QUEUE_IDX, None)
    | Some q =>
      let q0 := if inited then queue_init q f else q in
      let '(q1, r) := ingest_frame q0 f in
      (set_nth qs i q1, r, Some (i, inited))
    end
  end.

Definition defrag_new (dflt : B) (n : nat) : list queue := repeat (queue_new dflt) n.

(** Fragmenter::send: the frames, in emission order, for one packet. *)
Definition clamp_mtu (mtu : N) : N := N.max (N.min mtu MAX_MTU) MIN_MTU.

Fixpoint send_frames (fuel : nat) (so : N) (psz : N) (off : N) (data : list B) : list frame :=
  match fuel with
  | O => []
  | S k =>
    let n := N.to_nat psz in
    let lastp := (length data <=? n)%nat in
    let flags := if lastp then 32768 else 0 in
    mkFrame (mkHdr so (off mod 65536) flags) (firstn n data)
      :: (if lastp then [] else send_frames k so psz (off + psz) (skipn n data))
  end.

Inductive send_err := PacketTooLarge | EmptyPacket.

(** returns frames and the next stream offset *)
Definition fragmenter_send (mtu so : N) (data : list B)
  : outcome (list frame * N) send_err :=
  let len := N.of_nat (length data) in
  if MAX_PACKET_SIZE <? len then Err PacketTooLarge else
  if len =? 0 then Err EmptyPacket else
  let psz := clamp_mtu mtu - HEADER_SIZE in
  Ok (send_frames (length data) so psz 0 data, (so + len) mod 18446744073709551616).

End WithByte.
Arguments frame : clear implicits.
Arguments queue : clear implicits.
Arguments packet : clear implicits.
Arguments res : clear implicits.

(** FragmentFrameRef::from_slice on wire bytes *)
Definition parse_frame (data : list N) : option (frame N) :=
  if (length data <? N.to_nat HEADER_SIZE)%nat then None else
  let rng (r : N * N) := be_val 0 (slice data (N.to_nat (fst r)) (N.to_nat (snd r - fst r))) in
  Some (mkFrame (mkHdr (rng STREAM_OFFSET_RANGE) (rng FRAME_OFFSET_RANGE) (rng FLAGS_RANGE))
                (skipn (N.to_nat HEADER_SIZE) data)).

Definition recv (qs : list (queue N)) (data : list N) : list (queue N) * res N * event :=
  match parse_frame data with
  | None => (qs, Err InvalidHeader, None)
  | Some f => recv_frame qs f
  end.

Definition frame_bytes (f : frame N) : list N :=
  be_bytes 8 (h_so (f_hdr f)) ++ be_bytes 2 (h_fo (f_hdr f)) ++ be_bytes 2 (h_flags (f_hdr f))
  ++ [0;0;0;0] ++ f_frag f.
