(** Lemmas for C17.  The ghost "epoch log" of a slot is the list of frames accepted into it
    since its last (re-)initialisation. *)
From Sci Require Import Common.ListAux Defrag.Model Defrag.Spec.
From Coq Require Import Lia ZifyBool ZifyNat ZifyN.
Ltac Zify.zify_post_hook ::= Z.div_mod_to_equations.
Local Open Scope N_scope.
Arguments N.add : simpl never. Arguments N.sub : simpl never. Arguments N.mul : simpl never.
Arguments N.div : simpl never. Arguments N.modulo : simpl never.
Arguments N.eqb : simpl never. Arguments N.ltb : simpl never. Arguments N.leb : simpl never.
Arguments N.of_nat : simpl never. Arguments N.to_nat : simpl never.

Section WithByte.
Context {B : Type}.
Notation frame := (frame B). Notation queue := (queue B).

(** * buffer lemmas *)
Lemma write_buf_length (buf : list B) off data :
  (N.to_nat off + length data <= length buf)%nat ->
  length (write_buf buf off data) = length buf.
Proof.
  intros H. unfold write_buf. rewrite !app_length, firstn_length, skipn_length. lia.
Qed.

Lemma write_buf_inside (buf : list B) off data i :
  (N.to_nat off + length data <= length buf)%nat ->
  off <= i -> i < off + N.of_nat (length data) ->
  nth_error (write_buf buf off data) (N.to_nat i) = nth_error data (N.to_nat (i - off)).
Proof.
  intros Hl H1 H2. unfold write_buf.
  rewrite nth_error_app2; rewrite firstn_length; [|lia].
  rewrite nth_error_app1 by lia. f_equal. lia.
Qed.

Lemma write_buf_outside (buf : list B) off data i :
  (N.to_nat off + length data <= length buf)%nat ->
  (i < off \/ off + N.of_nat (length data) <= i) ->
  nth_error (write_buf buf off data) (N.to_nat i) = nth_error buf (N.to_nat i).
Proof.
  intros Hl [H|H]; unfold write_buf.
  - rewrite nth_error_app1 by (rewrite firstn_length; lia).
    apply nth_error_firstn. lia.
  - rewrite nth_error_app2; rewrite firstn_length; [|lia].
    rewrite nth_error_app2 by lia.
    rewrite nth_error_skipn. f_equal. lia.
Qed.

(** * provenance *)
Definition PCov (log : list frame) (buf : list B) (i : N) : Prop :=
  exists f, In f log /\ h_fo (f_hdr f) <= i /\ i < h_fo (f_hdr f) + flen f /\
            nth_error buf (N.to_nat i) = nth_error (f_frag f) (N.to_nat (i - h_fo (f_hdr f))).

Lemma PCov_write log buf f i :
  (N.to_nat (h_fo (f_hdr f)) + length (f_frag f) <= length buf)%nat ->
  PCov log buf i -> PCov (f :: log) (write_buf buf (h_fo (f_hdr f)) (f_frag f)) i.
Proof.
  intros Hl (g & Hin & H1 & H2 & H3).
  destruct (N.ltb_spec i (h_fo (f_hdr f))) as [Hlt|Hge].
  - exists g. repeat split; auto using in_cons.
    rewrite write_buf_outside by (auto; lia). exact H3.
  - destruct (N.ltb_spec i (h_fo (f_hdr f) + flen f)) as [Hin2|Hout].
    + exists f. repeat split; auto using in_eq.
      apply write_buf_inside; auto.
    + exists g. repeat split; auto using in_cons.
      rewrite write_buf_outside by (auto; unfold flen in *; lia). exact H3.
Qed.

Lemma PCov_new log buf f i :
  (N.to_nat (h_fo (f_hdr f)) + length (f_frag f) <= length buf)%nat ->
  h_fo (f_hdr f) <= i -> i < h_fo (f_hdr f) + flen f ->
  PCov (f :: log) (write_buf buf (h_fo (f_hdr f)) (f_frag f)) i.
Proof.
  intros Hl H1 H2. exists f. repeat split; auto using in_eq.
  apply write_buf_inside; auto.
Qed.

Lemma mem_In x l : mem x l = true <-> In x l.
Proof.
  unfold mem. rewrite existsb_exists. split.
  - intros (y & Hy & He). apply N.eqb_eq in He. subst. exact Hy.
  - intros H. exists x. split; auto. apply N.eqb_refl.
Qed.

Lemma mem_false x l : mem x l = false <-> ~ In x l.
Proof.
  rewrite <- mem_In. destruct (mem x l); split; intros; try congruence; tauto.
Qed.

End WithByte.
