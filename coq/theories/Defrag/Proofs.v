(** Lemmas for C17.  The ghost "epoch log" of a slot is the list of frames accepted into it
    since its last (re-)initialisation. *)
From Sci Require Import Common.ListAux Defrag.Model Defrag.Spec.
From Coq Require Import Lia ZifyBool ZifyNat ZifyN.
Ltac Zify.zify_post_hook ::= Z.div_mod_to_equations.
Local Open Scope N_scope.
Arguments N.add : simpl never. Arguments N.sub : simpl never. Arguments N.mul : simpl never.
Arguments N.div : simpl never. Arguments N.modulo : simpl never.
Arguments N.eqb : simpl never. Arguments N.ltb : simpl never. Arguments N.leb : simpl never.
Arguments N.of_nat : simpl never. Arguments N.to_nat : simpl never.

Section WithByte.
Context {B : Type}.
Notation frame := (frame B). Notation queue := (queue B).

(** * buffer lemmas *)
Lemma write_buf_length (buf : list B) off data :
  (N.to_nat off + length data <= length buf)%nat ->
  length (write_buf buf off data) = length buf.
Proof.
  intros H. unfold write_buf. rewrite !app_length, firstn_length, skipn_length. lia.
Qed.

Lemma write_buf_inside (buf : list B) off data i :
  (N.to_nat off + length data <= length buf)%nat ->
  off <= i -> i < off + N.of_nat (length data) ->
  nth_error (write_buf buf off data) (N.to_nat i) = nth_error data (N.to_nat (i - off)).
Proof.
  intros Hl H1 H2. unfold write_buf.
  rewrite nth_error_app2; rewrite firstn_length; [|lia].
  rewrite nth_error_app1 by lia. f_equal. lia.
Qed.

Lemma write_buf_outside (buf : list B) off data i :
  (N.to_nat off + length data <= length buf)%nat ->
  (i < off \/ off + N.of_nat (length data) <= i) ->
  nth_error (write_buf buf off data) (N.to_nat i) = nth_error buf (N.to_nat i).
Proof.
  intros Hl [H|H]; unfold write_buf.
  - rewrite nth_error_app1 by (rewrite firstn_length; lia).
    apply nth_error_firstn. lia.
  - rewrite nth_error_app2; rewrite firstn_length; [|lia].
    rewrite nth_error_app2 by lia.
    rewrite nth_error_skipn. f_equal. lia.
Qed.

(** * provenance *)
Definition PCov (log : list frame) (buf : list B) (i : N) : Prop :=
  exists f, In f log /\ h_fo (f_hdr f) <= i /\ i < h_fo (f_hdr f) + flen f /\
            nth_error buf (N.to_nat i) = nth_error (f_frag f) (N.to_nat (i - h_fo (f_hdr f))).

Lemma PCov_write log buf f i :
  (N.to_nat (h_fo (f_hdr f)) + length (f_frag f) <= length buf)%nat ->
  PCov log buf i -> PCov (f :: log) (write_buf buf (h_fo (f_hdr f)) (f_frag f)) i.
Proof.
  intros Hl (g & Hin & H1 & H2 & H3).
  destruct (N.ltb_spec i (h_fo (f_hdr f))) as [Hlt|Hge].
  - exists g. repeat split; auto using in_cons.
    rewrite write_buf_outside by (auto; lia). exact H3.
  - destruct (N.ltb_spec i (h_fo (f_hdr f) + flen f)) as [Hin2|Hout].
    + exists f. repeat split; auto using in_eq.
      apply write_buf_inside; auto.
    + exists g. repeat split; auto using in_cons.
      rewrite write_buf_outside by (auto; unfold flen in *; lia). exact H3.
Qed.

Lemma PCov_new log buf f i :
  (N.to_nat (h_fo (f_hdr f)) + length (f_frag f) <= length buf)%nat ->
  h_fo (f_hdr f) <= i -> i < h_fo (f_hdr f) + flen f ->
  PCov (f :: log) (write_buf buf (h_fo (f_hdr f)) (f_frag f)) i.
Proof.
  intros Hl H1 H2. exists f. repeat split; auto using in_eq.
  apply write_buf_inside; auto.
Qed.

Lemma mem_In x l : mem x l = true <-> In x l.
Proof.
  unfold mem. rewrite existsb_exists. split.
  - intros (y & Hy & He). apply N.eqb_eq in He. subst. exact Hy.
  - intros H. exists x. split; auto. apply N.eqb_refl.
Qed.

Lemma mem_false x l : mem x l = false <-> ~ In x l.
Proof.
  rewrite <- mem_In. destruct (mem x l); split; intros; try congruence; tauto.
Qed.

(** * slot invariant *)
Definition accepted {A E} (r : outcome A E) : bool := match r with Ok _ => true | _ => false end.

Record QAct (q : queue) (log : list frame) : Prop := {
  qa_nodup : NoDup (q_mask q);
  qa_lt : forall i, In i (q_mask q) -> i < MAX_FRAMES;
  qa_w : forall w, q_fws q = Some w -> MIN_PAYLOAD_SIZE <= w;
  qa_mid : forall j, In j (q_mask q) -> j <> MAX_FRAMES - 1 ->
       exists w, q_fws q = Some w /\
         forall i, j * w <= i -> i < j * w + w -> PCov log (q_buf q) i;
  qa_fps : forall s, q_fps q = Some s -> In (MAX_FRAMES - 1) (q_mask q);
  qa_last : In (MAX_FRAMES - 1) (q_mask q) ->
       exists l s lf, q_lfo q = Some l /\ q_fps q = Some s /\ s <= MAX_PACKET_SIZE /\
         In lf log /\ is_last (f_hdr lf) = true /\ h_fo (f_hdr lf) = l /\ l + flen lf = s /\
         forall i, l <= i -> i < s -> PCov log (q_buf q) i;
  qa_exp : forall e, q_exp q = Some e -> exists w l s,
       q_fws q = Some w /\ q_lfo q = Some l /\ q_fps q = Some s /\
       l mod w = 0 /\ 1 <= s - l /\ s - l <= w /\ l <= s /\ e = l / w + 1 }.

Record QInv (q : queue) (log : list frame) : Prop := {
  qi_len : length (q_buf q) = N.to_nat MAX_PACKET_SIZE;
  qi_so : forall f, In f log -> h_so (f_hdr f) = q_so q;
  qi_act : q_idle q = false -> QAct q log }.

Lemma consts : MAX_FRAMES = 256 /\ MAX_PACKET_SIZE = 65535 /\ MIN_PAYLOAD_SIZE = 256 /\
               BITMASK_ENTRY_BITS = 128 /\ BITMASK_ENTRY_COUNT = 2.
Proof. repeat split; reflexivity. Qed.

Lemma QInv_idle q log : QInv q log -> QInv (set_idle q) log.
Proof.
  intros [H1 H2 _]. split; cbn; auto. discriminate.
Qed.

(** a freshly initialised slot *)
Lemma QInv_init q log f : QInv q log -> QInv (queue_init q f) [].
Proof.
  intros [H1 _ _]. split; cbn; auto; [intros ? []|].
  intros _. split; cbn; try (intros; discriminate); try (intros ? []); try (intros []).
  constructor.
Qed.

Lemma QInv_new dflt : QInv (queue_new dflt) [].
Proof.
  split; cbn; [apply repeat_length | intros ? [] | discriminate].
Qed.

(** * storing a frame re-establishes the slot invariant *)
Definition ExpOK (q : queue) (fws' fps' exp' lfo' : option N) : Prop :=
  exp' = q_exp q \/
  (q_exp q = None /\ exists w l s, fws' = Some w /\ lfo' = Some l /\ fps' = Some s /\
     l mod w = 0 /\ 1 <= s - l /\ s - l <= w /\ l <= s /\ exp' = Some (l / w + 1)).

Definition MidCase (q : queue) (f : frame) (idx : N) (fws' fps' lfo' : option N) : Prop :=
  is_last (f_hdr f) = false /\ idx < MAX_FRAMES - 1 /\ h_fo (f_hdr f) = idx * flen f /\
  MIN_PAYLOAD_SIZE <= flen f /\ (q_fws q = None \/ q_fws q = Some (flen f)) /\
  fws' = Some (flen f) /\ fps' = q_fps q /\ lfo' = q_lfo q.

Definition LastCase (q : queue) (f : frame) (idx : N) (fws' fps' lfo' : option N) : Prop :=
  is_last (f_hdr f) = true /\ idx = MAX_FRAMES - 1 /\ ~ In (MAX_FRAMES - 1) (q_mask q) /\
  fws' = q_fws q /\ fps' = Some (h_fo (f_hdr f) + flen f) /\ lfo' = Some (h_fo (f_hdr f)).

Lemma QAct_store q log f idx fws' fps' exp' lfo' nxt :
  QAct q log ->
  length (q_buf q) = N.to_nat MAX_PACKET_SIZE ->
  h_fo (f_hdr f) + flen f <= MAX_PACKET_SIZE ->
  ~ In idx (q_mask q) ->
  MidCase q f idx fws' fps' lfo' \/ LastCase q f idx fws' fps' lfo' ->
  ExpOK q fws' fps' exp' lfo' ->
  QAct (mkQ (q_so q) nxt (write_buf (q_buf q) (h_fo (f_hdr f)) (f_frag f))
            (idx :: q_mask q) fws' fps' exp' lfo' false) (f :: log).
Proof.
  intros A Hlen Hfit Hnin Hcase Hexp.
  destruct consts as (CF & CP & CM & _).
  assert (Hl : (N.to_nat (h_fo (f_hdr f)) + length (f_frag f) <= length (q_buf q))%nat)
    by (unfold flen in *; lia).
  destruct A as [a1 a2 a3 a4 a5 a6 a7].
  assert (Hfps_none : ~ In (MAX_FRAMES - 1) (q_mask q) -> q_fps q = None /\ q_exp q = None).
  { intros Hn. assert (q_fps q = None) as E.
    { destruct (q_fps q) as [s|] eqn:E; auto. exfalso. eauto. }
    split; auto. destruct (q_exp q) as [e|] eqn:E2; auto.
    destruct (a7 e eq_refl) as (w & l & s & _ & _ & E3 & _). congruence. }
  split; cbn [q_mask q_fws q_fps q_exp q_lfo q_buf q_so q_idle].
  - constructor; auto.
  - intros i [<-|Hi]; auto. destruct Hcase as [(_ & H & _)|(_ & -> & _)]; lia.
  - intros w Hw. destruct Hcase as [(_ & _ & _ & Hmin & _ & -> & _)|(_ & _ & _ & -> & _)].
    + inversion Hw; subst; auto.
    + auto.
  - intros j [<-|Hj] Hne.
    + destruct Hcase as [(_ & _ & Hfo & _ & _ & -> & _)|(_ & -> & _)]; [|congruence].
      eexists; split; [reflexivity|]. intros i H1 H2. apply PCov_new; auto; lia.
    + destruct (a4 j Hj Hne) as (w & Hw & Hc).
      exists w. split.
      * destruct Hcase as [(_ & _ & _ & _ & [Hn|Hs] & -> & _)|(_ & _ & _ & -> & _)]; congruence.
      * intros i H1 H2. apply PCov_write; auto.
  - intros s Hs. destruct Hcase as [(_ & _ & _ & _ & _ & _ & -> & _)|(_ & -> & _)].
    + right. eauto.
    + left. reflexivity.
  - intros [Heq|Hin].
    + destruct Hcase as [(_ & Hlt & _)|(Hlast & _ & _ & _ & -> & ->)]; [lia|].
      exists (h_fo (f_hdr f)), (h_fo (f_hdr f) + flen f), f.
      repeat split; auto using in_eq. intros i H1 H2. apply PCov_new; auto.
    + destruct Hcase as [(_ & _ & _ & _ & _ & _ & -> & ->)|(_ & -> & Hn' & _)]; [|tauto].
      destruct (a6 Hin) as (l & s & lf & E1 & E2 & E3 & E4 & E5 & E6 & E7 & E8).
      exists l, s, lf. repeat split; auto using in_cons.
      intros i H1 H2. apply PCov_write; auto.
  - intros e He. destruct Hexp as [->|(_ & w & l & s & -> & -> & -> & H1 & H2 & H3 & H4 & ->)].
    + destruct (a7 e He) as (w & l & s & E1 & E2 & E3 & E4).
      destruct Hcase as [(_ & _ & _ & _ & [Hn|Hs] & -> & -> & ->)|(_ & -> & _)].
      * congruence.
      * exists w, l, s. rewrite <- Hs, E1. repeat split; tauto.
      * destruct (Hfps_none Hnin). congruence.
    + inversion He; subst. exists w, l, s. repeat split; auto.
Qed.

(** * completion: exactly the expected frames cover the whole packet *)
Lemma div_lt_bound l w : MIN_PAYLOAD_SIZE <= w -> l <= MAX_PACKET_SIZE -> l / w <= MAX_FRAMES - 1.
Proof.
  destruct consts as (CF & CP & CM & _). rewrite CF, CP, CM. intros Hw Hl.
  transitivity (l / 256).
  - apply N.div_le_compat_l. lia.
  - change (256 - 1) with (65535 / 256). apply N.div_le_mono; lia.
Qed.

Lemma exp_no_panic q log e :
  QAct q log -> q_exp q = Some e -> received_exactly_panics (q_mask q) e = false.
Proof.
  intros A He. destruct (qa_exp _ _ A e He) as (w & l & s & E1 & E2 & E3 & E4 & E5 & E6 & E7 & ->).
  unfold received_exactly_panics.
  destruct (mem (MAX_FRAMES - 1) (q_mask q)) eqn:Hm; [|rewrite andb_false_r; reflexivity].
  apply mem_In in Hm. destruct (qa_last _ _ A Hm) as (l' & s' & lf & F1 & F2 & F3 & _).
  assert (l' = l) by congruence. assert (s' = s) by congruence. subst.
  pose proof (qa_w _ _ A w E1).
  pose proof (div_lt_bound l w). destruct consts as (CF & _).
  assert (l <= MAX_PACKET_SIZE) by lia.
  replace (MAX_FRAMES <? l / w + 1 - 1) with false; [apply andb_false_r|].
  symmetry. apply N.ltb_ge. lia.
Qed.

Lemma complete_cov q log e :
  QAct q log -> q_exp q = Some e -> received_exactly (q_mask q) e = true ->
  exists s lf, q_fps q = Some s /\ s <= MAX_PACKET_SIZE /\ In lf log /\
    is_last (f_hdr lf) = true /\ h_fo (f_hdr lf) + flen lf = s /\
    forall i, i < s -> PCov log (q_buf q) i.
Proof.
  intros A He Hr.
  destruct (qa_exp _ _ A e He) as (w & l & s & E1 & E2 & E3 & E4 & E5 & E6 & E7 & ->).
  unfold received_exactly in Hr. apply andb_prop in Hr. destruct Hr as [Hr Hall].
  apply andb_prop in Hr. destruct Hr as [_ Hm]. apply mem_In in Hm.
  destruct (qa_last _ _ A Hm) as (l' & s' & lf & F1 & F2 & F3 & F4 & F5 & F6 & F7 & F8).
  assert (l' = l) by congruence. assert (s' = s) by congruence. subst l' s'.
  exists s, lf. repeat split; auto; [congruence|].
  intros i Hi. destruct (N.ltb_spec i l) as [Hlt|Hge]; [|apply F8; lia].
  pose proof (qa_w _ _ A w E1) as Hw. destruct consts as (CF & CP & CM & _).
  assert (Hw0 : w <> 0) by lia.
  set (j := i / w).
  assert (Hjl : j < l / w).
  { subst j. apply N.div_lt_upper_bound; auto.
    rewrite (N.div_mod l w Hw0) in Hlt. rewrite E4 in Hlt. lia. }
  rewrite forallb_forall in Hall.
  assert (Hj : In j (q_mask q)).
  { apply mem_In. replace j with (N.of_nat (N.to_nat j)) by lia. apply Hall.
    apply in_seq. lia. }
  assert (Hne : j <> MAX_FRAMES - 1).
  { assert (l <= MAX_PACKET_SIZE) as Hl by lia. pose proof (div_lt_bound l w Hw Hl). lia. }
  destruct (qa_mid _ _ A j Hj Hne) as (w' & Ew & Hc).
  assert (w' = w) by congruence. subst w'.
  apply Hc; subst j.
  - rewrite N.mul_comm. apply N.mul_div_le; auto.
  - pose proof (N.div_mod i w Hw0). pose proof (N.mod_lt i w Hw0). lia.
Qed.

(** * one call of ingest_frame *)
Definition Post (q : queue) (log : list frame) (f : frame) (q' : queue) (r : res B) : Prop :=
  QInv q' (if accepted r then f :: log else log) /\ q_so q' = q_so q /\ is_panic r = false /\
  (accepted r = true -> q_idle q = false) /\
  (forall so p, r = Ok (Some (so, p)) ->
     so = q_so q /\ q_idle q' = true /\
     exists s lf, p = firstn (N.to_nat s) (q_buf q') /\ s <= MAX_PACKET_SIZE /\
       In lf (f :: log) /\ is_last (f_hdr lf) = true /\ h_fo (f_hdr lf) + flen lf = s /\
       forall i, i < s -> PCov (f :: log) (q_buf q') i).

Lemma QAct_nostore q log f idx fws' fps' exp' lfo' nxt :
  QAct q log -> In idx (q_mask q) ->
  MidCase q f idx fws' fps' lfo' -> ExpOK q fws' fps' exp' lfo' ->
  QAct (mkQ (q_so q) nxt (q_buf q) (q_mask q) fws' fps' exp' lfo' false) log.
Proof.
  intros A Hin (_ & Hlt & _ & Hmin & Hfw & -> & -> & ->) Hexp.
  destruct A as [a1 a2 a3 a4 a5 a6 a7].
  assert (Hne : idx <> MAX_FRAMES - 1) by lia.
  destruct (a4 idx Hin Hne) as (w & Ew & _).
  assert (Efw : q_fws q = Some (flen f)) by (destruct Hfw; congruence).
  split; cbn [q_mask q_fws q_fps q_exp q_lfo q_buf q_so q_idle]; auto.
  - intros w' Hw'. inversion Hw'; subst; auto.
  - intros j Hj Hn. rewrite <- Efw. auto.
  - intros e He. destruct Hexp as [->|(_ & w1 & l & s & E1 & -> & -> & H1 & H2 & H3 & H4 & ->)].
    + rewrite <- Efw. auto.
    + inversion He; subst. exists w1, l, s. repeat split; auto.
Qed.

Lemma store_spec q log f idx fws' fps' exp' lfo' q' r :
  QInv q log -> q_idle q = false -> h_so (f_hdr f) = q_so q ->
  h_fo (f_hdr f) + flen f <= MAX_PACKET_SIZE ->
  MidCase q f idx fws' fps' lfo' \/ LastCase q f idx fws' fps' lfo' ->
  ExpOK q fws' fps' exp' lfo' ->
  ingest_store (mkQ (q_so q) (q_next q) (q_buf q) (q_mask q) fws' fps' exp' lfo' false) f idx
    = (q', r) ->
  Post q log f q' r.
Proof.
  intros [I1 I2 I3] Hidle Hso Hfit Hcase Hexp.
  specialize (I3 Hidle).
  destruct consts as (CF & CP & CM & CB & CC).
  assert (Hidx : idx < MAX_FRAMES).
  { destruct Hcase as [(_ & H & _)|(_ & -> & _)]; lia. }
  unfold ingest_store. cbn [q_mask q_fws q_fps q_exp q_lfo q_buf q_so q_idle q_next].
  replace (BITMASK_ENTRY_COUNT <=? idx / BITMASK_ENTRY_BITS) with false
    by (symmetry; apply N.leb_gt; rewrite CB, CC; apply N.div_lt_upper_bound; lia).
  destruct (mem idx (q_mask q)) eqn:Hmem.
  { (* duplicate *)
    intros E. inversion E; subst q' r; clear E. apply mem_In in Hmem.
    destruct Hcase as [Hm|(_ & -> & Hn & _)]; [|tauto].
    unfold Post. cbn [accepted is_panic q_so].
    refine (conj _ (conj eq_refl (conj eq_refl (conj _ _)))); try discriminate.
    split; cbn [q_buf q_so q_idle]; auto.
    intros _. eapply QAct_nostore; eauto. }
  apply mem_false in Hmem.
  replace (N.of_nat (length (q_buf q)) <? h_fo (f_hdr f) + flen f) with false
    by (symmetry; apply N.ltb_ge; lia).
  assert (Hmod : flen f mod 65536 = flen f) by (apply N.mod_small; lia).
  rewrite Hmod.
  replace (65535 <? h_fo (f_hdr f) + flen f) with false by (symmetry; apply N.ltb_ge; lia).
  set (nxt := h_fo (f_hdr f) + flen f).
  pose proof (QAct_store q log f idx fws' fps' exp' lfo' nxt I3 I1 Hfit Hmem Hcase Hexp) as A3.
  set (q3 := mkQ (q_so q) nxt (write_buf (q_buf q) (h_fo (f_hdr f)) (f_frag f))
                 (idx :: q_mask q) fws' fps' exp' lfo' false) in *.
  assert (Hlen3 : length (q_buf q3) = N.to_nat MAX_PACKET_SIZE).
  { subst q3; cbn [q_buf]. rewrite write_buf_length; auto. unfold flen in *; lia. }
  assert (Hso3 : forall g, In g (f :: log) -> h_so (f_hdr g) = q_so q).
  { intros g [<-|Hg]; auto. }
  assert (Hnone : forall qx, qx = q3 -> Post q log f qx (Ok None)).
  { intros qx ->. unfold Post. cbn [accepted is_panic].
    refine (conj _ (conj eq_refl (conj eq_refl (conj (fun _ => Hidle) _)))); try discriminate.
    split; auto. }
  destruct exp' as [e|]; [|intros E; inversion E; subst; apply Hnone; reflexivity].
  pose proof (exp_no_panic q3 (f :: log) e A3 eq_refl) as Hnp.
  unfold q3 in Hnp; cbn [q_mask] in Hnp; rewrite Hnp; clear Hnp.
  destruct (received_exactly (idx :: q_mask q) e) eqn:Hre;
    [|intros E; inversion E; subst; apply Hnone; reflexivity].
  destruct (complete_cov q3 (f :: log) e A3 eq_refl Hre) as (s & lf & E1 & E2 & E3 & E4 & E5 & E6).
  cbn [q_fps q3] in E1. subst fps'.
  replace (N.of_nat (length (write_buf (q_buf q) (h_fo (f_hdr f)) (f_frag f))) <? s) with false.
  2:{ symmetry; apply N.ltb_ge. change (write_buf _ _ _) with (q_buf q3). lia. }
  intros E; inversion E; subst q' r; clear E.
  unfold Post. cbn [accepted is_panic set_idle q_so q_buf q_idle].
  refine (conj _ (conj eq_refl (conj eq_refl (conj (fun _ => Hidle) _)))).
  - split; cbn [q_buf q_so q_idle]; auto. discriminate.
  - intros so p E. inversion E; subst so p; clear E.
    split; [reflexivity|]. split; [reflexivity|].
    exists s, lf. unfold read_buf. repeat split; auto.
Qed.

Lemma div_ceil_last l s w :
  w <> 0 -> l mod w = 0 -> 1 <= s - l -> s - l <= w -> l <= s ->
  (s + w - 1) / w = l / w + 1.
Proof.
  intros Hw Hm H1 H2 H3.
  pose proof (N.div_mod l w Hw) as Hl. rewrite Hm in Hl.
  symmetry. apply (N.div_unique _ _ _ (s - l - 1)); lia.
Qed.

Lemma Post_err_same q log f e : QInv q log -> Post q log f q (Err e).
Proof.
  intros I. unfold Post. cbn [accepted is_panic].
  refine (conj I (conj eq_refl (conj eq_refl (conj _ _)))); discriminate.
Qed.

Lemma Post_err_idle q log f e q1 :
  QInv q log -> q_buf q1 = q_buf q -> q_so q1 = q_so q -> Post q log f (set_idle q1) (Err e).
Proof.
  intros [I1 I2 _] Hb Hs. unfold Post. cbn [accepted is_panic set_idle q_so].
  refine (conj _ (conj Hs (conj eq_refl (conj _ _)))); try discriminate.
  split; cbn [set_idle q_buf q_so q_idle]; try congruence. intros g Hg. rewrite Hs. auto.
Qed.

Lemma ingest_spec q log f q' r :
  QInv q log -> h_so (f_hdr f) = q_so q -> ingest_frame q f = (q', r) -> Post q log f q' r.
Proof.
  intros I Hso. unfold ingest_frame.
  destruct (q_idle q) eqn:Hidle.
  { intros E; inversion E; subst. apply Post_err_same; auto. }
  destruct (MAX_PACKET_SIZE <? h_fo (f_hdr f) + flen f) eqn:Hoob.
  { intros E; inversion E; subst. apply Post_err_idle; auto. }
  apply N.ltb_ge in Hoob.
  pose proof (qi_act _ _ I Hidle) as A.
  destruct consts as (CF & CP & CM & CB & CC).
  unfold ingest_classify.
  destruct (is_last (f_hdr f)) eqn:Hlast.
  - (* last frame *)
    replace (BITMASK_ENTRY_COUNT <=? (MAX_FRAMES - 1) / BITMASK_ENTRY_BITS) with false
      by (rewrite CF, CB, CC; reflexivity).
    destruct (mem (MAX_FRAMES - 1) (q_mask q)) eqn:Hm.
    { intros E; inversion E; subst. apply Post_err_same; auto. }
    apply mem_false in Hm.
    replace (MAX_PACKET_SIZE <? h_fo (f_hdr f) + flen f) with false by (symmetry; apply N.ltb_ge; lia).
    assert (Hfn : q_fps q = None).
    { destruct (q_fps q) as [s|] eqn:E; auto. exfalso. eapply Hm, qa_fps; eauto. }
    assert (Hen : q_exp q = None).
    { destruct (q_exp q) as [e|] eqn:E; auto.
      destruct (qa_exp _ _ A e E) as (w & l & s & _ & _ & E3 & _). congruence. }
    unfold ingest_expect. cbn [q_mask q_fws q_fps q_exp q_lfo q_buf q_so q_idle q_next].
    rewrite Hen.
    assert (Hcase : forall fws', fws' = q_fws q ->
              LastCase q f (MAX_FRAMES - 1) fws' (Some (h_fo (f_hdr f) + flen f)) (Some (h_fo (f_hdr f)))).
    { intros ? ->. repeat split; auto. }
    destruct (q_fws q) as [w|] eqn:Hw.
    + pose proof (qa_w _ _ A w Hw) as Hwm.
      replace (w =? 0) with false by (symmetry; apply N.eqb_neq; lia).
      destruct (negb (h_fo (f_hdr f) mod w =? 0)) eqn:Hal.
      { intros E; inversion E; subst. apply Post_err_idle; auto. }
      apply negb_false_iff, N.eqb_eq in Hal.
      replace (h_fo (f_hdr f) + flen f <? h_fo (f_hdr f)) with false by (symmetry; apply N.ltb_ge; lia).
      destruct ((h_fo (f_hdr f) + flen f - h_fo (f_hdr f) =? 0) || (w <? h_fo (f_hdr f) + flen f - h_fo (f_hdr f))) eqn:Hll.
      { intros E; inversion E; subst. apply Post_err_idle; auto. }
      apply orb_false_iff in Hll. destruct Hll as [Hl1 Hl2].
      apply N.eqb_neq in Hl1. apply N.ltb_ge in Hl2.
      cbn [q_mask q_fws q_fps q_exp q_lfo q_buf q_so q_idle q_next]. rewrite ?Hidle.
      intros E. rewrite (div_ceil_last (h_fo (f_hdr f))) in E by lia.
      refine (store_spec q log f _ _ _ _ _ q' r I Hidle Hso Hoob (or_intror (Hcase _ eq_refl)) _ E).
      right. split; auto. exists w, (h_fo (f_hdr f)), (h_fo (f_hdr f) + flen f).
      repeat split; auto; lia.
    + rewrite ?Hidle. intros E.
      refine (store_spec q log f _ _ _ _ _ q' r I Hidle Hso Hoob (or_intror (Hcase _ eq_refl)) _ E).
      left. symmetry; exact Hen.
  - (* middle frame *)
    destruct (match q_fws q with Some w => negb (w =? flen f) | None => false end) eqn:Hinc.
    { intros E; inversion E; subst. apply Post_err_idle; auto. }
    assert (Hfw : q_fws q = None \/ q_fws q = Some (flen f)).
    { destruct (q_fws q) as [w|]; auto. apply negb_false_iff, N.eqb_eq in Hinc. subst; auto. }
    destruct (negb (is_multiple_of (h_fo (f_hdr f)) (flen f mod 65536))) eqn:Hal.
    { intros E; inversion E; subst. apply Post_err_idle; auto. }
    destruct (flen f <? MIN_PAYLOAD_SIZE) eqn:Hsm.
    { intros E; inversion E; subst. apply Post_err_idle; auto. }
    apply N.ltb_ge in Hsm.
    replace (flen f =? 0) with false by (symmetry; apply N.eqb_neq; lia).
    destruct (MAX_FRAMES - 1 <=? h_fo (f_hdr f) / flen f) eqn:Hix.
    { intros E; inversion E; subst. apply Post_err_idle; auto. }
    apply N.leb_gt in Hix.
    apply negb_false_iff in Hal. unfold is_multiple_of in Hal.
    rewrite N.mod_small in Hal by lia.
    replace (flen f =? 0) with false in Hal by (symmetry; apply N.eqb_neq; lia).
    apply N.eqb_eq in Hal.
    assert (Hfo : h_fo (f_hdr f) = h_fo (f_hdr f) / flen f * flen f).
    { pose proof (N.div_mod (h_fo (f_hdr f)) (flen f)). lia. }
    assert (Hcase : MidCase q f (h_fo (f_hdr f) / flen f) (Some (flen f)) (q_fps q) (q_lfo q)).
    { repeat split; auto. }
    unfold ingest_expect. cbn [q_mask q_fws q_fps q_exp q_lfo q_buf q_so q_idle q_next].
    destruct (q_fps q) as [s|] eqn:Hs;
      [|rewrite ?Hidle; intros E;
       refine (store_spec q log f _ _ _ _ _ q' r I Hidle Hso Hoob (or_introl Hcase) _ E); left; congruence].
    destruct (q_lfo q) as [l|] eqn:Hl;
      [|rewrite ?Hidle; intros E;
       refine (store_spec q log f _ _ _ _ _ q' r I Hidle Hso Hoob (or_introl Hcase) _ E); left; congruence].
    destruct (q_exp q) as [e|] eqn:He;
      [rewrite ?Hidle; intros E;
       refine (store_spec q log f _ _ _ _ _ q' r I Hidle Hso Hoob (or_introl Hcase) _ E); left; congruence|].
    replace (flen f =? 0) with false by (symmetry; apply N.eqb_neq; lia).
    destruct (negb (l mod flen f =? 0)) eqn:Hal2.
    { intros E; inversion E; subst. apply Post_err_idle; auto. }
    apply negb_false_iff, N.eqb_eq in Hal2.
    assert (Hin : In (MAX_FRAMES - 1) (q_mask q)) by (eapply qa_fps; eauto).
    destruct (qa_last _ _ A Hin) as (l' & s' & lf & F1 & F2 & F3 & F4 & F5 & F6 & F7 & F8).
    assert (l' = l) by congruence. assert (s' = s) by congruence. subst l' s'.
    replace (s <? l) with false by (symmetry; apply N.ltb_ge; lia).
    destruct ((s - l =? 0) || (flen f <? s - l)) eqn:Hll.
    { intros E; inversion E; subst. apply Post_err_idle; auto. }
    apply orb_false_iff in Hll. destruct Hll as [Hl1 Hl2].
    apply N.eqb_neq in Hl1. apply N.ltb_ge in Hl2.
    cbn [q_mask q_fws q_fps q_exp q_lfo q_buf q_so q_idle q_next]. rewrite ?Hidle.
    intros E. rewrite (div_ceil_last l) in E by lia.
    refine (store_spec q log f _ _ _ _ _ q' r I Hidle Hso Hoob (or_introl Hcase) _ E).
    right. split; auto. exists (flen f), l, s.
    repeat split; auto; lia.
Qed.

(** * the defragmenter: slot selection and ghost logs *)
Lemma scan_inl (qs : list queue) i so lo li idle k :
  scan qs i so lo li idle = inl k ->
  exists q, nth_error qs (k - i) = Some q /\ q_so q = so /\ (i <= k)%nat.
Proof.
  revert i lo li idle. induction qs as [|q qs IH]; intros i lo li idle; cbn [scan]; [discriminate|].
  destruct (q_so q =? so) eqn:E.
  - intros H; inversion H; subst. exists q. rewrite Nat.sub_diag. apply N.eqb_eq in E. auto.
  - destruct (q_so q <? lo); intros H; apply IH in H; destruct H as (q0 & H1 & H2 & H3);
      exists q0; (split; [|split; [auto|lia]]);
      replace (k - i)%nat with (S (k - S i)) by lia; exact H1.
Qed.

Lemma scan_inr (qs : list queue) i so lo li idle lo' li' idle' :
  scan qs i so lo li idle = inr (lo', li', idle') ->
  (li' = li \/ (i <= li' < i + length qs)%nat) /\
  (idle' = idle \/ exists j, idle' = Some j /\ (i <= j < i + length qs)%nat).
Proof.
  revert i lo li idle. induction qs as [|q qs IH]; intros i lo li idle; cbn [scan].
  - intros H; inversion H; subst; auto.
  - destruct (q_so q =? so); [discriminate|].
    destruct (q_so q <? lo); intros H; apply IH in H; destruct H as [[H1|H1] [H2|(j & H2 & H3)]];
      cbn [length]; (split; [first [left; assumption | right; lia] |]);
      try (right; exists j; split; [assumption|lia]);
      (destruct (q_idle q); [right; exists i; split; [assumption|lia] | left; assumption]).
Qed.

Lemma select_queue_range (qs : list queue) f i inited :
  qs <> [] -> select_queue qs f = Some (i, inited) -> (i < length qs)%nat.
Proof.
  intros Hne. unfold select_queue.
  destruct (scan qs 0 (h_so (f_hdr f)) U64_MAX 0%nat None) as [k|[[lo li] idle]] eqn:E.
  - intros H; inversion H; subst. apply scan_inl in E. destruct E as (q & H1 & _).
    rewrite Nat.sub_0_r in H1. apply nth_error_Some. congruence.
  - apply scan_inr in E. destruct E as [Hli Hidle].
    assert (0 < length qs)%nat by (destruct qs; [congruence|cbn; lia]).
    destruct idle as [j|].
    + intros H'; inversion H'; subst. destruct Hidle as [?|(j' & Hj & ?)]; [discriminate|].
      inversion Hj; subst; lia.
    + destruct (h_so (f_hdr f) <? lo); [discriminate|]. intros H'; inversion H'; subst.
      destruct Hli as [->|?]; lia.
Qed.

Lemma select_queue_so (qs : list queue) f i q :
  select_queue qs f = Some (i, false) -> nth_error qs i = Some q -> q_so q = h_so (f_hdr f).
Proof.
  unfold select_queue.
  destruct (scan qs 0 (h_so (f_hdr f)) U64_MAX 0%nat None) as [k|[[lo li] idle]] eqn:E.
  - intros H; inversion H; subst. apply scan_inl in E. destruct E as (q0 & H1 & H2 & _).
    rewrite Nat.sub_0_r in H1. congruence.
  - destruct idle; [discriminate|]. destruct (_ <? _); discriminate.
Qed.

Lemma set_nth_length {A} (l : list A) i a : length (set_nth l i a) = length l.
Proof. revert i; induction l; intros [|i]; cbn; auto. Qed.

Lemma nth_error_set_nth {A} (l : list A) i j a :
  nth_error (set_nth l i a) j =
  if Nat.eqb i j then (if Nat.ltb i (length l) then Some a else None) else nth_error l j.
Proof.
  revert i j; induction l as [|x l IH]; intros i j.
  - cbn [set_nth length]. destruct (Nat.eqb i j); destruct j; reflexivity.
  - destruct i as [|i]; destruct j as [|j]; cbn [set_nth nth_error length]; auto.
    rewrite IH. change (Nat.eqb (S i) (S j)) with (Nat.eqb i j).
    change (Nat.ltb (S i) (S (length l))) with (Nat.ltb i (length l)). reflexivity.
Qed.

(** ghost logs: one per slot, reset on initialisation, extended by every accepted frame *)
Definition step_logs (logs : list (list frame)) (ev : event) (r : res B) (f : frame)
  : list (list frame) :=
  match ev with
  | Some (i, inited) =>
    set_nth logs i ((if accepted r then [f] else []) ++ (if inited then [] else nth i logs []))
  | None => logs
  end.

Definition DInv (qs : list queue) (logs : list (list frame)) : Prop :=
  length logs = length qs /\
  forall i q, nth_error qs i = Some q -> QInv q (nth i logs []).

(** what an emission guarantees: [p] is made of the bytes of frames of the log [lg] *)
Definition Emitted (lg : list frame) (so : N) (p : list B) : Prop :=
  (forall g, In g lg -> h_so (f_hdr g) = so) /\
  (exists lf, In lf lg /\ is_last (f_hdr lf) = true /\
              N.of_nat (length p) = h_fo (f_hdr lf) + flen lf) /\
  forall j, j < N.of_nat (length p) ->
    exists g, In g lg /\ h_fo (f_hdr g) <= j /\ j < h_fo (f_hdr g) + flen g /\
              nth_error p (N.to_nat j) = nth_error (f_frag g) (N.to_nat (j - h_fo (f_hdr g))).

Lemma recv_frame_spec qs logs f qs' r ev :
  DInv qs logs -> qs <> [] -> recv_frame qs f = (qs', r, ev) ->
  DInv qs' (step_logs logs ev r f) /\ qs' <> [] /\ is_panic r = false /\
  forall so p, r = Ok (Some (so, p)) ->
    so = h_so (f_hdr f) /\
    match ev with
    | None => is_last (f_hdr f) = true /\ h_fo (f_hdr f) = 0 /\ p = f_frag f
    | Some (i, _) => Emitted (nth i (step_logs logs ev r f) []) so p
    end.
Proof.
  intros [DL DQ] Hne. unfold recv_frame.
  destruct (is_last (f_hdr f) && (h_fo (f_hdr f) =? 0)) eqn:Hfast.
  { intros E; inversion E; subst. cbn [step_logs is_panic].
    apply andb_prop in Hfast. destruct Hfast as [F1 F2]. apply N.eqb_eq in F2.
    split; [split; assumption|]. split; [assumption|]. split; [reflexivity|].
    intros so p Hr. inversion Hr; subst. auto. }
  destruct (select_queue qs f) as [[i inited]|] eqn:Hsel.
  2:{ intros E; inversion E; subst. cbn [step_logs is_panic].
      split; [split; assumption|]. split; [assumption|]. split; [reflexivity|]. discriminate. }
  pose proof (select_queue_range qs f i inited Hne Hsel) as Hi.
  destruct (nth_error qs i) as [q|] eqn:Hq; [|apply nth_error_None in Hq; lia].
  set (q0 := if inited then queue_init q f else q).
  set (log0 := if inited then [] else nth i logs []).
  assert (I0 : QInv q0 log0).
  { subst q0 log0. destruct inited; [eapply QInv_init|]; eauto. }
  assert (Hso0 : h_so (f_hdr f) = q_so q0).
  { subst q0. destruct inited; [reflexivity|]. symmetry. eapply select_queue_so; eauto. }
  destruct (ingest_frame q0 f) as [q1 r1] eqn:Hing.
  pose proof (ingest_spec q0 log0 f q1 r1 I0 Hso0 Hing) as (P1 & P2 & P3 & P4 & P5).
  intros E; inversion E; subst qs' r ev; clear E. cbn [step_logs].
  fold log0.
  assert (Hlog : (if accepted r1 then [f] else []) ++ log0 = if accepted r1 then f :: log0 else log0)
    by (destruct (accepted r1); reflexivity).
  rewrite Hlog.
  split; [|split; [|split; [exact P3|]]].
  - split; [rewrite !set_nth_length; exact DL|].
    intros k qk Hk. rewrite nth_error_set_nth in Hk.
    destruct (Nat.eqb_spec i k) as [->|Hik].
    + destruct (Nat.ltb_spec k (length qs)); [|lia]. inversion Hk; subst qk.
      erewrite nth_error_nth; [exact P1|].
      rewrite nth_error_set_nth, Nat.eqb_refl.
      destruct (Nat.ltb_spec k (length logs)); [reflexivity|lia].
    + assert (nth k (set_nth logs i (if accepted r1 then f :: log0 else log0)) [] = nth k logs []) as ->.
      { destruct (nth_error logs k) as [lk|] eqn:Hlk.
        - erewrite nth_error_nth; [|rewrite nth_error_set_nth; destruct (Nat.eqb_spec i k); [lia|exact Hlk]].
          symmetry. apply nth_error_nth. exact Hlk.
        - rewrite !nth_overflow; auto; [|rewrite set_nth_length]; apply nth_error_None; auto. }
      apply DQ; auto.
  - intros Hnil. apply (f_equal (@length _)) in Hnil. rewrite set_nth_length in Hnil.
    destruct qs; [congruence|discriminate].
  - intros so p Hr. destruct (P5 so p Hr) as (S1 & S2 & s & lf & T1 & T2 & T3 & T4 & T5 & T6).
    split; [congruence|].
    subst r1. cbn [accepted] in *.
    erewrite nth_error_nth;
      [|rewrite nth_error_set_nth, Nat.eqb_refl; destruct (Nat.ltb_spec i (length logs)); [reflexivity|lia]].
    destruct P1 as [L1 L2 _]. destruct consts as (_ & CP & _).
    assert (Hlp : N.of_nat (length p) = s).
    { subst p. rewrite firstn_length. lia. }
    split; [|split].
    + intros g Hg. rewrite (L2 g Hg). congruence.
    + exists lf. rewrite Hlp. auto.
    + rewrite Hlp. intros j Hj. destruct (T6 j Hj) as (g & G1 & G2 & G3 & G4).
      exists g. repeat split; auto. rewrite <- G4. subst p. apply nth_error_firstn. lia.
Qed.

(** * whole histories *)
Fixpoint grun (qs : list queue) (logs : list (list frame)) (fs : list frame)
  : list (res B * event * list (list frame)) :=
  match fs with
  | [] => []
  | f :: rest =>
    let '(qs', r, ev) := recv_frame qs f in
    let logs' := step_logs logs ev r f in
    (r, ev, logs') :: grun qs' logs' rest
  end.

Definition GoodStep (f : frame) (x : res B * event * list (list frame)) : Prop :=
  let '(r, ev, logs') := x in
  is_panic r = false /\
  forall so p, r = Ok (Some (so, p)) ->
    so = h_so (f_hdr f) /\
    match ev with
    | None => is_last (f_hdr f) = true /\ h_fo (f_hdr f) = 0 /\ p = f_frag f
    | Some (i, _) => Emitted (nth i logs' []) so p
    end.

Lemma grun_good qs logs fs :
  DInv qs logs -> qs <> [] -> Forall2 GoodStep fs (grun qs logs fs).
Proof.
  revert qs logs; induction fs as [|f fs IH]; intros qs logs D Hne; cbn [grun]; [constructor|].
  destruct (recv_frame qs f) as [[qs' r] ev] eqn:E.
  destruct (recv_frame_spec qs logs f qs' r ev D Hne E) as (D' & Hne' & Hp & Hem).
  constructor; [|apply IH; auto]. split; auto.
Qed.

Lemma DInv_new dflt n : DInv (defrag_new dflt n) (repeat [] n).
Proof.
  split; [unfold defrag_new; rewrite !repeat_length; reflexivity|].
  intros i q Hq. unfold defrag_new in Hq.
  assert (q = queue_new dflt) as -> by (apply nth_error_In, repeat_spec in Hq; exact Hq).
  assert (nth i (repeat ([] : list frame) n) [] = []) as ->.
  { destruct (nth_in_or_default i (repeat ([] : list frame) n) []) as [H|H]; auto.
    apply repeat_spec in H. exact H. }
  apply QInv_new.
Qed.

(** the ghost logs contain only frames of the history seen so far *)
Definition LogsFrom (seen : list frame) (logs : list (list frame)) : Prop :=
  forall lg g, In lg logs -> In g lg -> In g seen.

Lemma In_set_nth {A} (l : list A) i a x : In x (set_nth l i a) -> x = a \/ In x l.
Proof.
  revert i; induction l as [|y l IH]; intros [|i]; cbn; auto.
  - intros [->|H]; auto.
  - intros [->|H]; auto. destruct (IH _ H); auto.
Qed.

Lemma step_logs_from seen logs ev r f :
  LogsFrom seen logs -> LogsFrom (seen ++ [f]) (step_logs logs ev r f).
Proof.
  intros H lg g Hlg Hg. apply in_or_app. destruct ev as [[i inited]|]; cbn [step_logs] in Hlg.
  - apply In_set_nth in Hlg. destruct Hlg as [->|Hlg]; [|left; eauto].
    apply in_app_or in Hg. destruct Hg as [Hg|Hg].
    + destruct (accepted r); [|destruct Hg]. destruct Hg as [<-|[]]. right; left; reflexivity.
    + destruct inited; [destruct Hg|]. left.
      destruct (nth_in_or_default i logs []) as [Hn|Hn]; [eauto|]. rewrite Hn in Hg. destruct Hg.
  - left; eauto.
Qed.

Lemma grun_logs_from qs logs fs seen :
  LogsFrom seen logs ->
  forall k r ev logs', nth_error (grun qs logs fs) k = Some (r, ev, logs') ->
  LogsFrom (seen ++ firstn (S k) fs) logs'.
Proof.
  revert qs logs seen; induction fs as [|f fs IH]; intros qs logs seen H k r ev logs' Hk.
  - destruct k; discriminate.
  - cbn [grun] in Hk. destruct (recv_frame qs f) as [[qs' r0] ev0].
    pose proof (step_logs_from seen logs ev0 r0 f H) as H'.
    destruct k as [|k]; cbn [nth_error] in Hk.
    + inversion Hk; subst. cbn [firstn]. exact H'.
    + specialize (IH _ _ _ H' k r ev logs' Hk).
      cbn [firstn]. rewrite <- app_assoc in IH. exact IH.
Qed.

(** * state stays bounded *)
Lemma mask_bounded q log : QAct q log -> (length (q_mask q) <= N.to_nat MAX_FRAMES)%nat.
Proof.
  intros A. rewrite <- (seq_length (N.to_nat MAX_FRAMES) 0), <- (map_length N.of_nat).
  apply NoDup_incl_length; [apply (qa_nodup _ _ A)|].
  intros x Hx. pose proof (qa_lt _ _ A x Hx). apply in_map_iff. exists (N.to_nat x).
  split; [lia|apply in_seq; lia].
Qed.

Lemma recv_frame_length (qs : list queue) f qs' r ev : recv_frame qs f = (qs', r, ev) -> length qs' = length qs.
Proof.
  unfold recv_frame. destruct (_ && _); [intros E; inversion E; auto|].
  destruct (select_queue qs f) as [[i b]|]; [|intros E; inversion E; auto].
  destruct (nth_error qs i); [|intros E; inversion E; auto].
  destruct (ingest_frame _ f). intros E; inversion E. apply set_nth_length.
Qed.

(** * frames of other packets leave a slot alone unless it is the one selected (reused) *)
Lemma recv_frame_other_slots (qs : list queue) f qs' r ev i :
  recv_frame qs f = (qs', r, ev) ->
  match ev with Some (k, _) => k <> i | None => True end ->
  nth_error qs' i = nth_error qs i.
Proof.
  unfold recv_frame. destruct (_ && _); [intros E _; inversion E; auto|].
  destruct (select_queue qs f) as [[k b]|]; [|intros E _; inversion E; auto].
  destruct (nth_error qs k); [|intros E _; inversion E; auto].
  destruct (ingest_frame _ f). intros E Hk; inversion E; subst.
  rewrite nth_error_set_nth. destruct (Nat.eqb_spec k i); [contradiction|reflexivity].
Qed.

(** * one emission per slot epoch *)
Lemma idle_slot_rejects (q : queue) f : q_idle q = true -> ingest_frame q f = (q, Err QueueNotAccepting).
Proof. intros H. unfold ingest_frame. rewrite H. reflexivity. Qed.

Lemma emission_closes_epoch q log f q' so p :
  QInv q log -> h_so (f_hdr f) = q_so q -> ingest_frame q f = (q', Ok (Some (so, p))) ->
  q_idle q' = true.
Proof.
  intros I Hso E. destruct (ingest_spec q log f q' _ I Hso E) as (_ & _ & _ & _ & H).
  destruct (H so p eq_refl) as (_ & H2 & _). exact H2.
Qed.

(** * honest senders *)
Definition HonestFrame (data : list B) (g : frame) : Prop :=
  h_fo (f_hdr g) + flen g <= N.of_nat (length data) /\
  (forall k, (k < length (f_frag g))%nat ->
     nth_error (f_frag g) k = nth_error data (N.to_nat (h_fo (f_hdr g)) + k)) /\
  (is_last (f_hdr g) = true -> h_fo (f_hdr g) + flen g = N.of_nat (length data)).

Lemma honest_identical lg so data p :
  Emitted lg so p -> (forall g, In g lg -> HonestFrame data g) -> p = data.
Proof.
  intros (_ & (lf & L1 & L2 & L3) & Hc) Hh.
  destruct (Hh lf L1) as (_ & _ & Hl). specialize (Hl L2).
  assert (Hlen : length p = length data) by lia.
  apply nth_error_ext. intros i.
  destruct (Nat.ltb_spec i (length p)) as [Hi|Hi].
  - destruct (Hc (N.of_nat i)) as (g & G1 & G2 & G3 & G4); [lia|].
    destruct (Hh g G1) as (H1 & H2 & _).
    rewrite Nat2N.id in G4. rewrite G4, H2 by (unfold flen in *; lia). f_equal. lia.
  - rewrite (proj2 (nth_error_None p i)), (proj2 (nth_error_None data i)); auto; lia.
Qed.

Lemma testbit_last : N.testbit 32768 LAST_FLAG_BIT = true /\ N.testbit 0 LAST_FLAG_BIT = false.
Proof. split; reflexivity. Qed.

Lemma send_frames_honest fuel so psz off (pre rest : list B) :
  0 < psz -> N.of_nat (length pre) = off -> N.of_nat (length (pre ++ rest)) <= MAX_PACKET_SIZE ->
  forall g, In g (send_frames fuel so psz off rest) ->
    h_so (f_hdr g) = so /\ HonestFrame (pre ++ rest) g.
Proof.
  revert off pre rest; induction fuel as [|fuel IH]; intros off pre rest Hp Hoff Hmax g; cbn [send_frames]; [intros []|].
  destruct consts as (_ & CP & _). rewrite app_length in Hmax.
  set (n := N.to_nat psz).
  intros [<-|Hg].
  - cbn [f_hdr f_frag h_so h_fo h_flags]. split; [reflexivity|].
    assert (Hm : off mod 65536 = off) by (apply N.mod_small; lia).
    unfold HonestFrame, flen. cbn [f_hdr f_frag h_so h_fo h_flags]. rewrite Hm, firstn_length, app_length.
    split; [lia|]. split.
    + intros k Hk. rewrite nth_error_firstn by lia.
      rewrite nth_error_app2 by lia. f_equal. lia.
    + unfold is_last. cbn [h_flags]. destruct (Nat.leb_spec (length rest) n) as [Hle|Hgt].
      * intros _. lia.
      * intros H. destruct testbit_last as [_ H0]. congruence.
  - destruct (Nat.leb_spec (length rest) n) as [Hle|Hgt]; [destruct Hg|].
    replace (pre ++ rest) with ((pre ++ firstn n rest) ++ skipn n rest)
      by (rewrite <- app_assoc, firstn_skipn; reflexivity).
    apply (IH (off + psz) (pre ++ firstn n rest) (skipn n rest)); auto.
    + rewrite app_length, firstn_length. lia.
    + rewrite <- app_assoc, firstn_skipn, app_length. lia.
Qed.

End WithByte.
