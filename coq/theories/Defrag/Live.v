(** C17, liveness clause: all frames of an honestly fragmented multi-frame packet, delivered
    in ANY order into a slot that is not reclaimed meanwhile, make the slot emit the packet
    at the frame that completes the set (and not before). *)
From Sci Require Import Common.ListAux Defrag.Model Defrag.Spec Defrag.Proofs.
From Coq Require Import Lia ZifyBool ZifyNat ZifyN Permutation.
Ltac Zify.zify_post_hook ::= Z.div_mod_to_equations.
Local Open Scope N_scope.
Arguments N.add : simpl never. Arguments N.sub : simpl never. Arguments N.mul : simpl never.
Arguments N.div : simpl never. Arguments N.modulo : simpl never.
Arguments N.eqb : simpl never. Arguments N.ltb : simpl never. Arguments N.leb : simpl never.
Arguments N.of_nat : simpl never. Arguments N.to_nat : simpl never.

Section WithByte.
Context {B : Type}.
Notation frame := (frame B). Notation queue := (queue B).

(** the [j]-th frame of a packet [data] cut into [n] frames of payload size [psz] *)
Definition hframe (so psz : N) (n : nat) (data : list B) (j : nat) : frame :=
  let off := N.of_nat j * psz in
  mkFrame (mkHdr so off (if Nat.eqb (S j) n then 32768 else 0))
          (firstn (N.to_nat psz) (skipn (N.to_nat off) data)).

Definition hframes (so psz : N) (n : nat) (data : list B) : list frame :=
  map (hframe so psz n data) (seq 0 n).

(** control state of a slot that has received the set [P] of frame numbers *)
Record Ctl (so psz : N) (n : nat) (L : N) (P : list nat) (q : queue) : Prop := {
  c_idle : q_idle q = false;
  c_so : q_so q = so;
  c_len : length (q_buf q) = N.to_nat MAX_PACKET_SIZE;
  c_mask : forall i, In i (q_mask q) <->
             exists j, In j P /\ i = (if Nat.eqb (S j) n then MAX_FRAMES - 1 else N.of_nat j);
  c_masklen : length (q_mask q) = length P;
  c_fws : q_fws q = if existsb (fun j => negb (Nat.eqb (S j) n)) P then Some psz else None;
  c_fps : q_fps q = if existsb (fun j => Nat.eqb (S j) n) P then Some L else None;
  c_lfo : existsb (fun j => Nat.eqb (S j) n) P = true -> q_lfo q = Some (N.of_nat (n - 1) * psz);
  c_exp : q_exp q = if existsb (fun j => negb (Nat.eqb (S j) n)) P
                       && existsb (fun j => Nat.eqb (S j) n) P then Some (N.of_nat n) else None }.

(** * evaluation lemmas for the three parts of ingest_frame *)
Lemma classify_last (q : queue) (f : frame) :
  is_last (f_hdr f) = true -> ~ In (MAX_FRAMES - 1) (q_mask q) ->
  h_fo (f_hdr f) + flen f <= MAX_PACKET_SIZE ->
  ingest_classify q f =
    (mkQ (q_so q) (q_next q) (q_buf q) (q_mask q) (q_fws q) (Some (h_fo (f_hdr f) + flen f))
         (q_exp q) (Some (h_fo (f_hdr f))) (q_idle q), Ok (MAX_FRAMES - 1)).
Proof.
  intros Hl Hm Hfit. unfold ingest_classify. rewrite Hl.
  destruct consts as (CF & CP & CM & CB & CC).
  replace (BITMASK_ENTRY_COUNT <=? (MAX_FRAMES - 1) / BITMASK_ENTRY_BITS) with false
    by (rewrite CF, CB, CC; reflexivity).
  apply mem_false in Hm. rewrite Hm.
  replace (MAX_PACKET_SIZE <? h_fo (f_hdr f) + flen f) with false by (symmetry; apply N.ltb_ge; lia).
  reflexivity.
Qed.

Lemma classify_mid (q : queue) (f : frame) :
  is_last (f_hdr f) = false -> (q_fws q = None \/ q_fws q = Some (flen f)) ->
  h_fo (f_hdr f) mod flen f = 0 -> MIN_PAYLOAD_SIZE <= flen f -> flen f <= MAX_PACKET_SIZE ->
  h_fo (f_hdr f) / flen f < MAX_FRAMES - 1 ->
  ingest_classify q f =
    (mkQ (q_so q) (q_next q) (q_buf q) (q_mask q) (Some (flen f)) (q_fps q)
         (q_exp q) (q_lfo q) (q_idle q), Ok (h_fo (f_hdr f) / flen f)).
Proof.
  intros Hl Hw Hal Hmin Hmax Hidx. unfold ingest_classify. rewrite Hl.
  destruct consts as (CF & CP & CM & CB & CC).
  replace (match q_fws q with Some w => negb (w =? flen f) | None => false end) with false.
  2:{ destruct Hw as [->| ->]; [reflexivity|]. rewrite N.eqb_refl. reflexivity. }
  unfold is_multiple_of. rewrite N.mod_small by lia.
  replace (flen f =? 0) with false by (symmetry; apply N.eqb_neq; lia).
  rewrite Hal, N.eqb_refl. cbn [negb].
  replace (flen f <? MIN_PAYLOAD_SIZE) with false by (symmetry; apply N.ltb_ge; lia).
  replace (MAX_FRAMES - 1 <=? h_fo (f_hdr f) / flen f) with false by (symmetry; apply N.leb_gt; lia).
  reflexivity.
Qed.

Lemma expect_compute (q1 : queue) fps w lfo :
  q_fps q1 = Some fps -> q_fws q1 = Some w -> q_lfo q1 = Some lfo -> q_exp q1 = None ->
  w <> 0 -> lfo mod w = 0 -> lfo <= fps -> 1 <= fps - lfo -> fps - lfo <= w ->
  ingest_expect q1 =
    (mkQ (q_so q1) (q_next q1) (q_buf q1) (q_mask q1) (q_fws q1) (q_fps q1)
         (Some ((fps + w - 1) / w)) (q_lfo q1) (q_idle q1), Ok tt).
Proof.
  intros E1 E2 E3 E4 Hw Hm H1 H2 H3. unfold ingest_expect. rewrite E1, E2, E3, E4.
  replace (w =? 0) with false by (symmetry; apply N.eqb_neq; lia).
  rewrite Hm, N.eqb_refl. cbn [negb].
  replace (fps <? lfo) with false by (symmetry; apply N.ltb_ge; lia).
  replace (fps - lfo =? 0) with false by (symmetry; apply N.eqb_neq; lia).
  replace (w <? fps - lfo) with false by (symmetry; apply N.ltb_ge; lia).
  reflexivity.
Qed.

Lemma expect_skip (q1 : queue) :
  q_fps q1 = None \/ q_fws q1 = None \/ (exists e, q_exp q1 = Some e) ->
  ingest_expect q1 = (q1, Ok tt).
Proof.
  unfold ingest_expect. intros [H|[H|(e & H)]]; rewrite H.
  - reflexivity.
  - destruct (q_fps q1); reflexivity.
  - destruct (q_fps q1), (q_fws q1), (q_lfo q1); reflexivity.
Qed.

Definition stored (q2 : queue) (f : frame) (idx : N) : queue :=
  mkQ (q_so q2) (h_fo (f_hdr f) + flen f) (write_buf (q_buf q2) (h_fo (f_hdr f)) (f_frag f))
      (idx :: q_mask q2) (q_fws q2) (q_fps q2) (q_exp q2) (q_lfo q2) (q_idle q2).

Lemma store_compute (q2 : queue) (f : frame) idx :
  idx < MAX_FRAMES -> ~ In idx (q_mask q2) ->
  length (q_buf q2) = N.to_nat MAX_PACKET_SIZE ->
  h_fo (f_hdr f) + flen f <= MAX_PACKET_SIZE ->
  ingest_store q2 f idx =
    let q3 := stored q2 f idx in
    match q_exp q2 with
    | Some e =>
      if received_exactly_panics (idx :: q_mask q2) e then (q3, Panic P_MASK_IDX) else
      if received_exactly (idx :: q_mask q2) e then
        let size := match q_fps q2 with Some s => s | None => MAX_PACKET_SIZE end in
        if N.of_nat (length (q_buf q3)) <? size then (set_idle q3, Panic P_SLICE) else
        (set_idle q3, Ok (Some (q_so q2, read_buf (q_buf q3) size)))
      else (q3, Ok None)
    | None => (q3, Ok None)
    end.
Proof.
  intros Hidx Hm Hlen Hfit. unfold ingest_store, stored.
  destruct consts as (CF & CP & CM & CB & CC).
  replace (BITMASK_ENTRY_COUNT <=? idx / BITMASK_ENTRY_BITS) with false
    by (symmetry; apply N.leb_gt; rewrite CB, CC; apply N.div_lt_upper_bound; lia).
  apply mem_false in Hm. rewrite Hm.
  replace (N.of_nat (length (q_buf q2)) <? h_fo (f_hdr f) + flen f) with false
    by (symmetry; apply N.ltb_ge; lia).
  rewrite (N.mod_small (flen f)) by lia.
  replace (65535 <? h_fo (f_hdr f) + flen f) with false by (symmetry; apply N.ltb_ge; lia).
  reflexivity.
Qed.

Section Packet.
Variables (so psz : N) (n : nat) (data : list B).
Let L := N.of_nat (length data).
Hypothesis Hpsz : MIN_PAYLOAD_SIZE <= psz.
Hypothesis HL : L <= MAX_PACKET_SIZE.
Hypothesis Hn : (2 <= n)%nat.
Hypothesis Hlo : N.of_nat (n - 1) * psz < L.
Hypothesis Hhi : L <= N.of_nat n * psz.

Lemma hf_so j : h_so (f_hdr (hframe so psz n data j)) = so.
Proof. reflexivity. Qed.
Lemma hf_fo j : h_fo (f_hdr (hframe so psz n data j)) = N.of_nat j * psz.
Proof. reflexivity. Qed.
Lemma hf_last j : is_last (f_hdr (hframe so psz n data j)) = Nat.eqb (S j) n.
Proof.
  unfold hframe, is_last. cbn [f_hdr h_flags].
  destruct (Nat.eqb (S j) n); [apply testbit_last|apply testbit_last].
Qed.
Lemma hf_len j : (j < n)%nat ->
  flen (hframe so psz n data j) = if Nat.eqb (S j) n then L - N.of_nat (n - 1) * psz else psz.
Proof.
  intros Hj. unfold flen, hframe. cbn [f_frag]. rewrite firstn_length, skipn_length.
  destruct (Nat.eqb_spec (S j) n) as [E|E].
  - replace j with (n - 1)%nat by lia. subst L. nia.
  - assert (N.of_nat (S j) * psz <= N.of_nat (n - 1) * psz) by (apply N.mul_le_mono_r; lia).
    subst L. nia.
Qed.

Lemma ceil_n : (L + psz - 1) / psz = N.of_nat n.
Proof.
  destruct consts as (_ & _ & CM & _). rewrite CM in Hpsz.
  symmetry. apply (N.div_unique _ _ _ (L - 1 - N.of_nat (n - 1) * psz)); [nia|].
  replace (N.of_nat n) with (N.of_nat (n - 1) + 1) by lia. nia.
Qed.

Lemma n_le_frames : N.of_nat (n - 1) <= MAX_FRAMES - 1.
Proof.
  destruct consts as (CF & CP & CM & _). rewrite CF, CP, CM in *.
  assert (N.of_nat (n - 1) * 256 <= N.of_nat (n - 1) * psz) by (apply N.mul_le_mono_l; lia).
  lia.
Qed.

(** pigeonhole: a duplicate-free list of [n] numbers below [n] contains all of them *)
Lemma all_present (P : list nat) :
  NoDup P -> (forall x, In x P -> (x < n)%nat) -> length P = n -> forall i, (i < n)%nat -> In i P.
Proof.
  intros Hnd Hlt Hlen i Hi.
  apply (NoDup_length_incl Hnd (l' := seq 0 n)).
  - rewrite seq_length. lia.
  - intros x Hx. apply in_seq. specialize (Hlt x Hx). lia.
  - apply in_seq. lia.
Qed.

Notation isl := (fun j => Nat.eqb (S j) n).
Notation hasmid P := (existsb (fun j => negb (Nat.eqb (S j) n)) P).
Notation haslst P := (existsb (fun j => Nat.eqb (S j) n) P).
Definition idxof (j : nat) : N := if Nat.eqb (S j) n then MAX_FRAMES - 1 else N.of_nat j.

Lemma haslst_iff P : haslst P = true <-> In (n - 1)%nat P.
Proof.
  rewrite existsb_exists. split.
  - intros (x & Hx & E). apply Nat.eqb_eq in E. replace (n - 1)%nat with x by lia. exact Hx.
  - intros H. exists (n - 1)%nat. split; auto. apply Nat.eqb_eq. lia.
Qed.

Lemma idxof_inj j1 j2 : (j1 < n)%nat -> (j2 < n)%nat -> idxof j1 = idxof j2 -> j1 = j2.
Proof.
  intros H1 H2. unfold idxof. pose proof n_le_frames as Hf.
  destruct (Nat.eqb_spec (S j1) n), (Nat.eqb_spec (S j2) n); lia.
Qed.

Lemma idxof_lt j : (j < n)%nat -> idxof j < MAX_FRAMES.
Proof.
  intros H. unfold idxof. pose proof n_le_frames as Hf. destruct consts as (CF & _).
  destruct (Nat.eqb_spec (S j) n); lia.
Qed.

Lemma ingest_honest P (q : queue) j :
  Ctl so psz n L P q -> NoDup P -> (forall x, In x P -> (x < n)%nat) ->
  (j < n)%nat -> ~ In j P ->
  exists q' r, ingest_frame q (hframe so psz n data j) = (q', r) /\
    (if Nat.eqb (S (length P)) n then exists p, r = Ok (Some (so, p))
     else r = Ok None /\ Ctl so psz n L (j :: P) q').
Proof.
  intros C Hnd Hlt Hj Hnin.
  destruct consts as (CF & CP & CM & CB & CC).
  set (f := hframe so psz n data j).
  pose proof (hf_len j Hj) as Hlen. fold f in Hlen.
  assert (Hfo : h_fo (f_hdr f) = N.of_nat j * psz) by reflexivity.
  assert (Hso : h_so (f_hdr f) = so) by reflexivity.
  pose proof (hf_last j) as Hlast. fold f in Hlast.
  assert (Hpz : psz <> 0) by lia.
  assert (Hfit : h_fo (f_hdr f) + flen f <= MAX_PACKET_SIZE).
  { rewrite Hfo, Hlen. destruct (Nat.eqb_spec (S j) n) as [E|E].
    - replace j with (n - 1)%nat by lia. lia.
    - assert (N.of_nat (S j) * psz <= N.of_nat (n - 1) * psz) by (apply N.mul_le_mono_r; lia). lia. }
  (* the new index is fresh *)
  assert (Hfresh : ~ In (idxof j) (q_mask q)).
  { intros Hin. apply (c_mask _ _ _ _ _ _ C) in Hin. destruct Hin as (j' & Hj' & E).
    apply Hnin. replace j with j'; auto. symmetry. apply idxof_inj; auto. }
  (* mask characterisation after adding idxof j *)
  assert (Hmask' : forall i, In i (idxof j :: q_mask q) <->
             exists j', In j' (j :: P) /\ i = idxof j').
  { intros i. cbn [In]. rewrite (c_mask _ _ _ _ _ _ C i). split.
    - intros [<-|(j' & H1 & H2)]; [exists j|exists j']; auto.
    - intros (j' & [<-|H1] & H2); [left; auto|right; exists j'; auto]. }
  assert (Hlt' : forall x, In x (j :: P) -> (x < n)%nat) by (intros x [<-|Hx]; auto).
  assert (Hnd' : NoDup (j :: P)) by (constructor; auto).
  (* the completion test *)
  assert (Hcomplete : Nat.eqb (S (length P)) n = true ->
            received_exactly (idxof j :: q_mask q) (N.of_nat n) = true /\
            hasmid (j :: P) = true /\ haslst (j :: P) = true).
  { intros E. apply Nat.eqb_eq in E.
    pose proof (all_present (j :: P) Hnd' Hlt' E) as Hall.
    split; [|split].
    - unfold received_exactly. cbn [length]. rewrite (c_masklen _ _ _ _ _ _ C).
      replace (N.of_nat (S (length P)) =? N.of_nat n) with true by (symmetry; apply N.eqb_eq; lia).
      replace (mem (MAX_FRAMES - 1) (idxof j :: q_mask q)) with true.
      2:{ symmetry. apply mem_In, Hmask'. exists (n - 1)%nat. split; [apply Hall; lia|].
          unfold idxof. replace (Nat.eqb (S (n - 1)) n) with true; auto. symmetry; apply Nat.eqb_eq; lia. }
      cbn [andb]. apply forallb_forall. intros i Hi. apply in_seq in Hi.
      apply mem_In, Hmask'. exists i. split; [apply Hall; lia|].
      unfold idxof. replace (Nat.eqb (S i) n) with false; auto. symmetry; apply Nat.eqb_neq; lia.
    - apply existsb_exists. exists 0%nat. split; [apply Hall; lia|].
      apply negb_true_iff, Nat.eqb_neq. lia.
    - apply haslst_iff, Hall. lia. }
  assert (Hincomplete : Nat.eqb (S (length P)) n = false -> forall e,
            received_exactly (idxof j :: q_mask q) e = true -> e <> N.of_nat n).
  { intros E e Hr He. subst e. unfold received_exactly in Hr. cbn [length] in Hr.
    rewrite (c_masklen _ _ _ _ _ _ C) in Hr. apply Nat.eqb_neq in E.
    apply andb_prop in Hr. destruct Hr as [Hr _]. apply andb_prop in Hr. destruct Hr as [Hr _].
    apply N.eqb_eq in Hr. lia. }
  unfold ingest_frame. rewrite (c_idle _ _ _ _ _ _ C).
  replace (MAX_PACKET_SIZE <? h_fo (f_hdr f) + flen f) with false by (symmetry; apply N.ltb_ge; lia).
  pose proof (c_fws _ _ _ _ _ _ C) as Cfws. pose proof (c_fps _ _ _ _ _ _ C) as Cfps.
  pose proof (c_exp _ _ _ _ _ _ C) as Cexp. pose proof (c_lfo _ _ _ _ _ _ C) as Clfo.
  pose proof (c_len _ _ _ _ _ _ C) as Clen.
  destruct (Nat.eqb_spec (S j) n) as [Elast|Emid].
  - (* the last frame *)
    assert (Hjn : j = (n - 1)%nat) by lia.
    assert (Hnl : haslst P = false).
    { destruct (haslst P) eqn:E; auto. apply haslst_iff in E. subst j. tauto. }
    rewrite Hnl in *. rewrite andb_false_r in Cexp.
    assert (Hidx : idxof j = MAX_FRAMES - 1).
    { unfold idxof. replace (Nat.eqb (S j) n) with true; auto. symmetry; apply Nat.eqb_eq; auto. }
    rewrite Hidx in *.
    rewrite (classify_last q f Hlast Hfresh Hfit).
    assert (HfL : h_fo (f_hdr f) + flen f = L) by (rewrite Hfo, Hlen, Hjn; lia).
    rewrite HfL.
    set (q1 := mkQ (q_so q) (q_next q) (q_buf q) (q_mask q) (q_fws q) (Some L) (q_exp q)
                   (Some (h_fo (f_hdr f))) (q_idle q)).
    assert (Hexp2 : exists q2, ingest_expect q1 = (q2, Ok tt) /\
              q_so q2 = q_so q /\ q_buf q2 = q_buf q /\ q_mask q2 = q_mask q /\
              q_fws q2 = q_fws q /\ q_fps q2 = Some L /\ q_lfo q2 = Some (h_fo (f_hdr f)) /\
              q_idle q2 = false /\
              q_exp q2 = if hasmid P then Some (N.of_nat n) else None).
    { destruct (hasmid P) eqn:Hm.
      - eexists. split.
        + apply (expect_compute q1 L psz (h_fo (f_hdr f))); auto.
          * rewrite Hfo. apply N.mod_mul. auto.
          * lia.
          * rewrite Hfo, Hjn. lia.
          * rewrite Hfo, Hjn. lia.
        + cbn [q_so q_buf q_mask q_fws q_fps q_lfo q_idle q_exp q1]. rewrite ceil_n.
          repeat split; auto. apply (c_idle _ _ _ _ _ _ C).
      - exists q1. split; [apply expect_skip; right; left; exact Cfws|].
        cbn [q_so q_buf q_mask q_fws q_fps q_lfo q_idle q_exp q1].
        repeat split; auto. apply (c_idle _ _ _ _ _ _ C). }
    destruct Hexp2 as (q2 & E2 & S1 & S2 & S3 & S4 & S5 & S6 & S7 & S8).
    rewrite E2.
    rewrite (store_compute q2 f (MAX_FRAMES - 1)); try (rewrite ?S2, ?S3; auto; lia).
    cbv zeta. rewrite S3, S5, S8, S1.
    destruct (Nat.eqb (S (length P)) n) eqn:Ecomp.
    + destruct (Hcomplete eq_refl) as (R1 & R2 & R3).
      cbn [existsb] in R2. replace (negb (Nat.eqb (S j) n)) with false in R2
        by (symmetry; apply negb_false_iff, Nat.eqb_eq; auto).
      cbn [orb] in R2. rewrite R2.
      replace (received_exactly_panics (MAX_FRAMES - 1 :: q_mask q) (N.of_nat n)) with false.
      2:{ unfold received_exactly_panics. pose proof n_le_frames.
          replace (MAX_FRAMES <? N.of_nat n - 1) with false by (symmetry; apply N.ltb_ge; lia).
          rewrite andb_false_r. reflexivity. }
      rewrite R1.
      replace (N.of_nat (length (q_buf (stored q2 f (MAX_FRAMES - 1)))) <? L) with false.
      2:{ symmetry. apply N.ltb_ge. unfold stored. cbn [q_buf]. rewrite S2, write_buf_length; unfold flen in *; lia. }
      eexists _, _. split; [reflexivity|]. rewrite (c_so _ _ _ _ _ _ C). eexists. reflexivity.
    + assert (HCtl : Ctl so psz n L (j :: P) (stored q2 f (MAX_FRAMES - 1))).
      {
      unfold stored. split; cbn [q_so q_buf q_mask q_fws q_fps q_lfo q_idle q_exp q_next]; auto.
      * rewrite S1. apply (c_so _ _ _ _ _ _ C).
      * rewrite S2, write_buf_length; unfold flen in *; lia.
      * rewrite S3. intros i. rewrite (Hmask' i). unfold idxof. reflexivity.
      * rewrite S3. cbn [length]. f_equal. apply (c_masklen _ _ _ _ _ _ C).
      * rewrite S4, Cfws. cbn [existsb]. replace (negb (Nat.eqb (S j) n)) with false
          by (symmetry; apply negb_false_iff, Nat.eqb_eq; auto). reflexivity.
      * rewrite S5. cbn [existsb]. replace (Nat.eqb (S j) n) with true by (symmetry; apply Nat.eqb_eq; auto). reflexivity.
      * intros _. rewrite S6, Hfo, Hjn. reflexivity.
      * rewrite S8. cbn [existsb]. replace (Nat.eqb (S j) n) with true by (symmetry; apply Nat.eqb_eq; auto).
        cbn [negb orb]. rewrite andb_true_r. reflexivity.
      }
      assert (Hnp : received_exactly_panics (MAX_FRAMES - 1 :: q_mask q) (N.of_nat n) = false).
      { unfold received_exactly_panics. pose proof n_le_frames.
        replace (MAX_FRAMES <? N.of_nat n - 1) with false by (symmetry; apply N.ltb_ge; lia).
        rewrite andb_false_r. reflexivity. }
      destruct (hasmid P).
      * rewrite Hnp.
        destruct (received_exactly (MAX_FRAMES - 1 :: q_mask q) (N.of_nat n)) eqn:R.
        { exfalso. exact (Hincomplete eq_refl _ R eq_refl). }
        eexists _, _. split; [reflexivity|]. split; [reflexivity|exact HCtl].
      * eexists _, _. split; [reflexivity|]. split; [reflexivity|exact HCtl].
  - (* a middle frame *)
    assert (Hjn : (j < n - 1)%nat) by lia.
    assert (Hidx : idxof j = N.of_nat j).
    { unfold idxof. replace (Nat.eqb (S j) n) with false; auto. symmetry; apply Nat.eqb_neq; auto. }
    rewrite Hidx in *.
    pose proof Hlen as Hlenp.
    pose proof Hlast as Hl0.
    assert (Hdiv : h_fo (f_hdr f) / flen f = N.of_nat j).
    { rewrite Hfo, Hlenp. apply N.div_mul; auto. }
    pose proof n_le_frames as Hnf.
    rewrite (classify_mid q f Hl0).
    2:{ rewrite Hlenp, Cfws. destruct (hasmid P); auto. }
    2:{ rewrite Hfo, Hlenp. apply N.mod_mul; auto. }
    2:{ lia. }
    2:{ rewrite Hlenp. assert (psz * 1 <= N.of_nat (n - 1) * psz) by nia. lia. }
    2:{ rewrite Hdiv. lia. }
    rewrite Hdiv, Hlenp.
    set (q1 := mkQ (q_so q) (q_next q) (q_buf q) (q_mask q) (Some psz) (q_fps q) (q_exp q)
                   (q_lfo q) (q_idle q)).
    assert (Hexp2 : exists q2, ingest_expect q1 = (q2, Ok tt) /\
              q_so q2 = q_so q /\ q_buf q2 = q_buf q /\ q_mask q2 = q_mask q /\
              q_fws q2 = Some psz /\ q_fps q2 = q_fps q /\ q_lfo q2 = q_lfo q /\
              q_idle q2 = false /\
              q_exp q2 = if haslst P then Some (N.of_nat n) else None).
    { destruct (haslst P) eqn:Hm.
      - destruct (hasmid P) eqn:Hm2.
        + exists q1. split; [apply expect_skip; right; right; exists (N.of_nat n); exact Cexp|].
          cbn [q_so q_buf q_mask q_fws q_fps q_lfo q_idle q_exp q1].
          repeat split; auto. apply (c_idle _ _ _ _ _ _ C).
        + eexists. split.
          * apply (expect_compute q1 L psz (N.of_nat (n - 1) * psz)); auto; try lia.
            apply N.mod_mul; auto.
          * cbn [q_so q_buf q_mask q_fws q_fps q_lfo q_idle q_exp q1]. rewrite ceil_n.
            repeat split; auto. apply (c_idle _ _ _ _ _ _ C).
      - exists q1. split; [apply expect_skip; left; exact Cfps|].
        cbn [q_so q_buf q_mask q_fws q_fps q_lfo q_idle q_exp q1].
        repeat split; auto; [apply (c_idle _ _ _ _ _ _ C)|rewrite Cexp, andb_false_r; reflexivity]. }
    destruct Hexp2 as (q2 & E2 & S1 & S2 & S3 & S4 & S5 & S6 & S7 & S8).
    rewrite E2.
    rewrite (store_compute q2 f (N.of_nat j)); try (rewrite ?S2, ?S3; auto; lia).
    cbv zeta. rewrite S3, S5, S8, S1.
    destruct (Nat.eqb (S (length P)) n) eqn:Ecomp.
    + destruct (Hcomplete eq_refl) as (R1 & R2 & R3).
      cbn [existsb] in R3. replace (Nat.eqb (S j) n) with false in R3 by (symmetry; apply Nat.eqb_neq; auto).
      cbn [orb] in R3. rewrite R3.
      replace (received_exactly_panics (N.of_nat j :: q_mask q) (N.of_nat n)) with false.
      2:{ unfold received_exactly_panics.
          replace (MAX_FRAMES <? N.of_nat n - 1) with false by (symmetry; apply N.ltb_ge; lia).
          rewrite andb_false_r. reflexivity. }
      rewrite R1. rewrite Cfps, R3.
      replace (N.of_nat (length (q_buf (stored q2 f (N.of_nat j)))) <? L) with false.
      2:{ symmetry. apply N.ltb_ge. unfold stored. cbn [q_buf]. rewrite S2, write_buf_length; unfold flen in *; lia. }
      eexists _, _. split; [reflexivity|]. rewrite (c_so _ _ _ _ _ _ C). eexists. reflexivity.
    + assert (HCtl : Ctl so psz n L (j :: P) (stored q2 f (N.of_nat j))).
      {
      unfold stored. split; cbn [q_so q_buf q_mask q_fws q_fps q_lfo q_idle q_exp q_next]; auto.
      * rewrite S1. apply (c_so _ _ _ _ _ _ C).
      * rewrite S2, write_buf_length; unfold flen in *; lia.
      * rewrite S3. intros i. rewrite (Hmask' i). unfold idxof. reflexivity.
      * rewrite S3. cbn [length]. f_equal. apply (c_masklen _ _ _ _ _ _ C).
      * rewrite S4. cbn [existsb]. replace (negb (Nat.eqb (S j) n)) with true
          by (symmetry; apply negb_true_iff, Nat.eqb_neq; auto). reflexivity.
      * rewrite S5, Cfps. cbn [existsb]. replace (Nat.eqb (S j) n) with false by (symmetry; apply Nat.eqb_neq; auto). reflexivity.
      * cbn [existsb]. replace (Nat.eqb (S j) n) with false by (symmetry; apply Nat.eqb_neq; auto).
        cbn [orb]. intros H. rewrite S6. auto.
      * rewrite S8. cbn [existsb]. replace (Nat.eqb (S j) n) with false by (symmetry; apply Nat.eqb_neq; auto).
        cbn [negb orb andb]. reflexivity.
      }
      assert (Hnp : received_exactly_panics (N.of_nat j :: q_mask q) (N.of_nat n) = false).
      { unfold received_exactly_panics.
        replace (MAX_FRAMES <? N.of_nat n - 1) with false by (symmetry; apply N.ltb_ge; lia).
        rewrite andb_false_r. reflexivity. }
      destruct (haslst P).
      * rewrite Hnp.
        destruct (received_exactly (N.of_nat j :: q_mask q) (N.of_nat n)) eqn:R.
        { exfalso. exact (Hincomplete eq_refl _ R eq_refl). }
        eexists _, _. split; [reflexivity|]. split; [reflexivity|exact HCtl].
      * eexists _, _. split; [reflexivity|]. split; [reflexivity|exact HCtl].
Qed.

Lemma hframe_honest j : (j < n)%nat -> HonestFrame data (hframe so psz n data j).
Proof.
  intros Hj. pose proof (hf_len j Hj) as Hlen. pose proof (hf_last j) as Hlast.
  unfold HonestFrame. rewrite (hf_fo j), Hlen, Hlast.
  assert (Hb : N.of_nat j * psz <= N.of_nat (n - 1) * psz) by (apply N.mul_le_mono_r; lia).
  destruct (Nat.eqb_spec (S j) n) as [E|E].
  - replace j with (n - 1)%nat in * by lia. fold L. split; [lia|]. split; [|intros _; lia].
    intros k Hk. unfold hframe in *. cbn [f_frag f_hdr h_fo] in *.
    rewrite firstn_length in Hk. rewrite nth_error_firstn by lia. apply nth_error_skipn.
  - assert (N.of_nat (S j) * psz <= N.of_nat (n - 1) * psz) by (apply N.mul_le_mono_r; lia).
    fold L. split; [lia|]. split; [|discriminate].
    intros k Hk. unfold hframe in *. cbn [f_frag f_hdr h_fo] in *.
    rewrite firstn_length in Hk. rewrite nth_error_firstn by lia. apply nth_error_skipn.
Qed.

Lemma Post_emitted (q : queue) log f q' sp p :
  Post q log f q' (Ok (Some (sp, p))) -> Emitted (f :: log) sp p.
Proof.
  intros (P1 & P2 & _ & _ & P5). destruct (P5 sp p eq_refl) as (S1 & S2 & s & lf & T1 & T2 & T3 & T4 & T5 & T6).
  cbn [accepted] in P1. destruct P1 as [L1 L2 _]. destruct consts as (_ & CP & _).
  assert (Hlp : N.of_nat (length p) = s) by (subst p; rewrite firstn_length; lia).
  split; [|split].
  - intros g Hg. rewrite (L2 g Hg). congruence.
  - exists lf. rewrite Hlp. auto.
  - rewrite Hlp. intros i Hi. destruct (T6 i Hi) as (g & G1 & G2 & G3 & G4).
    exists g. repeat split; auto. rewrite <- G4. subst p. apply nth_error_firstn. lia.
Qed.

Lemma NoDup_app_r {A} (l l' : list A) : NoDup (l ++ l') -> NoDup l'.
Proof. induction l as [|a l IH]; cbn; auto. intros H; inversion H; auto. Qed.

Fixpoint feed (q : queue) (fs : list frame) : list (res B) :=
  match fs with
  | [] => []
  | f :: r => let '(q', x) := ingest_frame q f in x :: feed q' r
  end.

Lemma feed_honest rest : forall P (q : queue) log,
  Ctl so psz n L P q -> QInv q log -> (forall g, In g log -> HonestFrame data g) ->
  NoDup (rest ++ P) -> (forall x, In x (rest ++ P) -> (x < n)%nat) ->
  (length rest + length P = n)%nat -> rest <> [] ->
  feed q (map (hframe so psz n data) rest)
  = repeat (Ok None) (length rest - 1) ++ [Ok (Some (so, data))].
Proof.
  induction rest as [|j rest IH]; intros P q log C I Hh Hnd Hlt Hlen Hne; [congruence|].
  cbn [map feed].
  assert (Hj : (j < n)%nat) by (apply Hlt; left; reflexivity).
  assert (HndP : NoDup P) by (exact (NoDup_app_r _ _ Hnd)).
  assert (HltP : forall x, In x P -> (x < n)%nat) by (intros x Hx; apply Hlt, in_or_app; auto).
  assert (HninP : ~ In j P).
  { cbn [app] in Hnd. inversion Hnd; subst. intros Hx. apply H1, in_or_app. auto. }
  destruct (ingest_honest P q j C HndP HltP Hj HninP) as (q' & r & E & Hr).
  rewrite E.
  assert (Hso : h_so (f_hdr (hframe so psz n data j)) = q_so q) by (rewrite (c_so _ _ _ _ _ _ C); reflexivity).
  pose proof (ingest_spec q log _ q' r I Hso E) as Hpost.
  destruct rest as [|j2 rest].
  - (* the completing frame *)
    cbn [length] in Hlen. replace (Nat.eqb (S (length P)) n) with true in Hr by (symmetry; apply Nat.eqb_eq; lia).
    destruct Hr as (p & ->). cbn [map feed length repeat app Nat.sub].
    pose proof (Post_emitted _ _ _ _ _ _ Hpost) as Hem.
    assert (p = data) as ->; [|reflexivity].
    apply (honest_identical _ _ _ _ Hem). intros g [<-|Hg]; auto. apply hframe_honest; auto.
  - cbn [length] in Hlen. replace (Nat.eqb (S (length P)) n) with false in Hr by (symmetry; apply Nat.eqb_neq; lia).
    destruct Hr as (-> & C').
    destruct Hpost as (I' & _). cbn [accepted] in I'.
    replace (length (j :: j2 :: rest) - 1)%nat with (S (length (j2 :: rest) - 1)) by (cbn [length]; lia).
    cbn [repeat app]. f_equal.
    apply (IH (j :: P) q' (hframe so psz n data j :: log)); auto.
    + intros g [<-|Hg]; auto. apply hframe_honest; auto.
    + cbn [app] in Hnd. apply NoDup_cons_iff in Hnd. destruct Hnd as [Hn1 Hn2].
      apply NoDup_Add with (a := j) (l := (j2 :: rest) ++ P); [apply Add_app|].
      split; auto.
    + intros x Hx. apply Hlt. apply in_app_or in Hx. destruct Hx as [Hx|[<-|Hx]].
      * right. apply in_or_app; auto.
      * left; reflexivity.
      * right. apply in_or_app; auto.
    + cbn [length]. cbn [length] in Hlen. lia.
    + discriminate.
Qed.

(** Frames of an [n >= 2]-frame packet, in any order, into a freshly initialised slot. *)
Lemma complete_delivery (order : list nat) (q : queue) :
  Permutation order (seq 0 n) -> length (q_buf q) = N.to_nat MAX_PACKET_SIZE ->
  forall f0, h_so (f_hdr f0) = so ->
  feed (queue_init q f0) (map (hframe so psz n data) order)
  = repeat (Ok None) (n - 1) ++ [Ok (Some (so, data))].
Proof.
  intros Hperm Hlen f0 Hf0.
  assert (Hl : length order = n) by (rewrite (Permutation_length Hperm); apply seq_length).
  replace (n - 1)%nat with (length order - 1)%nat by lia.
  apply (feed_honest order [] (queue_init q f0) []).
  - split; cbn [queue_init q_idle q_so q_buf q_mask q_fws q_fps q_exp q_lfo existsb length andb]; auto.
    + intros i. split; [intros []|intros (j & [] & _)].
    + discriminate.
  - split; cbn [queue_init q_idle q_so q_buf]; auto; [intros ? []|].
    intros _. split; cbn [queue_init q_mask q_fws q_fps q_exp q_lfo]; try (intros; discriminate); try (intros ? []); try (intros []).
    constructor.
  - intros g [].
  - rewrite app_nil_r. apply (Permutation_NoDup (Permutation_sym Hperm)), seq_NoDup.
  - intros x Hx. rewrite app_nil_r in Hx. apply (Permutation_in _ Hperm) in Hx. apply in_seq in Hx. lia.
  - cbn [length]. lia.
  - intros ->. cbn in Hl. lia.
Qed.

(** a frame that was already accepted in this epoch is rejected as a duplicate and leaves
    the control state as it was *)
Lemma ingest_dup P (q : queue) j :
  Ctl so psz n L P q -> (forall x, In x P -> (x < n)%nat) -> (j < n)%nat -> In j P ->
  exists q', ingest_frame q (hframe so psz n data j) = (q', Err Duplicate) /\ Ctl so psz n L P q'.
Proof.
  intros C Hlt Hj Hin.
  destruct consts as (CF & CP & CM & CB & CC).
  set (f := hframe so psz n data j).
  pose proof (hf_len j Hj) as Hlen. fold f in Hlen.
  assert (Hfo : h_fo (f_hdr f) = N.of_nat j * psz) by reflexivity.
  pose proof (hf_last j) as Hlast. fold f in Hlast.
  assert (Hpz : psz <> 0) by lia.
  assert (Hfit : h_fo (f_hdr f) + flen f <= MAX_PACKET_SIZE).
  { rewrite Hfo, Hlen. destruct (Nat.eqb_spec (S j) n) as [E|E].
    - replace j with (n - 1)%nat by lia. lia.
    - assert (N.of_nat (S j) * psz <= N.of_nat (n - 1) * psz) by (apply N.mul_le_mono_r; lia). lia. }
  assert (Hidx : In (idxof j) (q_mask q)).
  { apply (c_mask _ _ _ _ _ _ C). exists j. split; auto. }
  unfold ingest_frame. rewrite (c_idle _ _ _ _ _ _ C).
  replace (MAX_PACKET_SIZE <? h_fo (f_hdr f) + flen f) with false by (symmetry; apply N.ltb_ge; lia).
  destruct (Nat.eqb_spec (S j) n) as [Elast|Emid].
  - (* repeated last frame: rejected before any state is touched *)
    unfold ingest_classify. rewrite Hlast.
    replace (BITMASK_ENTRY_COUNT <=? (MAX_FRAMES - 1) / BITMASK_ENTRY_BITS) with false
      by (rewrite CF, CB, CC; reflexivity).
    assert (Hm : mem (MAX_FRAMES - 1) (q_mask q) = true).
    { apply mem_In. unfold idxof in Hidx.
      replace (Nat.eqb (S j) n) with true in Hidx by (symmetry; apply Nat.eqb_eq; auto). exact Hidx. }
    rewrite Hm. exists q. split; [reflexivity|exact C].
  - (* repeated middle frame *)
    assert (Hjn : (j < n - 1)%nat) by lia.
    assert (Hidxj : idxof j = N.of_nat j).
    { unfold idxof. replace (Nat.eqb (S j) n) with false; auto. symmetry; apply Nat.eqb_neq; auto. }
    rewrite Hidxj in Hidx.
    assert (Hmid : existsb (fun j => negb (Nat.eqb (S j) n)) P = true).
    { apply existsb_exists. exists j. split; auto. apply negb_true_iff, Nat.eqb_neq; auto. }
    pose proof (c_fws _ _ _ _ _ _ C) as Cfws. rewrite Hmid in Cfws.
    pose proof (c_fps _ _ _ _ _ _ C) as Cfps. pose proof (c_exp _ _ _ _ _ _ C) as Cexp.
    rewrite Hmid in Cexp. cbn [andb] in Cexp.
    assert (Hdiv : h_fo (f_hdr f) / flen f = N.of_nat j).
    { rewrite Hfo, Hlen. apply N.div_mul; auto. }
    pose proof n_le_frames as Hnf.
    rewrite (classify_mid q f Hlast).
    2:{ rewrite Hlen, Cfws. auto. }
    2:{ rewrite Hfo, Hlen. apply N.mod_mul; auto. }
    2:{ lia. }
    2:{ rewrite Hlen. assert (psz * 1 <= N.of_nat (n - 1) * psz) by nia. lia. }
    2:{ rewrite Hdiv. lia. }
    rewrite Hdiv, Hlen.
    set (q1 := mkQ (q_so q) (q_next q) (q_buf q) (q_mask q) (Some psz) (q_fps q) (q_exp q)
                   (q_lfo q) (q_idle q)).
    assert (Hskip : ingest_expect q1 = (q1, Ok tt)).
    { apply expect_skip. destruct (existsb (fun j0 => Nat.eqb (S j0) n) P) eqn:Hl.
      - right; right. exists (N.of_nat n). exact Cexp.
      - left. exact Cfps. }
    rewrite Hskip. unfold ingest_store.
    replace (BITMASK_ENTRY_COUNT <=? N.of_nat j / BITMASK_ENTRY_BITS) with false
      by (symmetry; apply N.leb_gt; rewrite CB, CC; apply N.div_lt_upper_bound; lia).
    assert (Hm : mem (N.of_nat j) (q_mask q1) = true) by (apply mem_In; exact Hidx).
    rewrite Hm. exists q1. split; [reflexivity|].
    destruct C as [c1 c2 c3 c4 c5 c6 c7 c8 c9].
    split; cbn [q1 q_idle q_so q_buf q_mask q_fws q_fps q_lfo q_exp]; auto.
    rewrite Hmid. reflexivity.
Qed.

(** The complete behaviour of one slot epoch on ANY schedule of an honest packet's frames
    (reordering, duplication, missing frames): first occurrences are accepted, the one that
    completes the set emits the packet, repeats are rejected as duplicates, and once the
    packet was emitted everything is rejected until the slot is initialised again. *)
Fixpoint spec_feed (seen : list nat) (complete : bool) (sched : list nat) : list (res B) :=
  match sched with
  | [] => []
  | j :: r =>
    if complete then Err QueueNotAccepting :: spec_feed seen true r
    else if existsb (Nat.eqb j) seen then Err Duplicate :: spec_feed seen false r
    else if Nat.eqb (S (length seen)) n then Ok (Some (so, data)) :: spec_feed (j :: seen) true r
    else Ok None :: spec_feed (j :: seen) false r
  end.

Lemma feed_idle (q : queue) sched seen :
  q_idle q = true ->
  feed q (map (hframe so psz n data) sched) = spec_feed seen true sched.
Proof.
  intros Hi. induction sched as [|j r IH]; cbn [map feed spec_feed]; [reflexivity|].
  rewrite (idle_slot_rejects q _ Hi). f_equal. exact IH.
Qed.

Lemma feed_any sched : forall seen (q : queue) log,
  Ctl so psz n L seen q -> QInv q log -> (forall g, In g log -> HonestFrame data g) ->
  NoDup seen -> (forall x, In x seen -> (x < n)%nat) -> (length seen < n)%nat ->
  (forall x, In x sched -> (x < n)%nat) ->
  feed q (map (hframe so psz n data) sched) = spec_feed seen false sched.
Proof.
  induction sched as [|j r IH]; intros seen q log C I Hh Hnd Hlt Hlen Hs; cbn [map feed spec_feed]; [reflexivity|].
  assert (Hj : (j < n)%nat) by (apply Hs; left; reflexivity).
  assert (Hr : forall x, In x r -> (x < n)%nat) by (intros x Hx; apply Hs; right; exact Hx).
  assert (Hso : h_so (f_hdr (hframe so psz n data j)) = q_so q) by (rewrite (c_so _ _ _ _ _ _ C); reflexivity).
  destruct (existsb (Nat.eqb j) seen) eqn:Hdup.
  - apply existsb_exists in Hdup. destruct Hdup as (x & Hx & E). apply Nat.eqb_eq in E. subst x.
    destruct (ingest_dup seen q j C Hlt Hj Hx) as (q' & E & C').
    rewrite E. f_equal.
    pose proof (ingest_spec q log _ q' _ I Hso E) as (I' & _). cbn [accepted] in I'.
    apply (IH seen q' log); auto.
  - assert (Hnin : ~ In j seen).
    { intros Hx. assert (existsb (Nat.eqb j) seen = true); [|congruence].
      apply existsb_exists. exists j. split; auto. apply Nat.eqb_refl. }
    destruct (ingest_honest seen q j C Hnd Hlt Hj Hnin) as (q' & x & E & Hx).
    rewrite E. pose proof (ingest_spec q log _ q' x I Hso E) as Hpost.
    destruct (Nat.eqb (S (length seen)) n) eqn:Ecomp.
    + destruct Hx as (p & ->).
      pose proof (Post_emitted _ _ _ _ _ _ Hpost) as Hem.
      assert (p = data) as ->.
      { apply (honest_identical _ _ _ _ Hem). intros g [<-|Hg]; auto. apply hframe_honest; auto. }
      f_equal. apply feed_idle.
      destruct Hpost as (_ & _ & _ & _ & H5). destruct (H5 so data eq_refl) as (_ & Hi & _). exact Hi.
    + destruct Hx as (-> & C'). f_equal.
      destruct Hpost as (I' & _). cbn [accepted] in I'.
      apply Nat.eqb_neq in Ecomp.
      apply (IH (j :: seen) q' (hframe so psz n data j :: log)); auto.
      * intros g [<-|Hg]; auto. apply hframe_honest; auto.
      * constructor; auto.
      * intros y [<-|Hy]; auto.
      * cbn [length]. lia.
Qed.

(** Fragmenter::send produces exactly these frames *)
Lemma send_is_hframes fuel k :
  (k < n)%nat -> (n - k <= fuel)%nat ->
  send_frames fuel so psz (N.of_nat k * psz) (skipn (N.to_nat (N.of_nat k * psz)) data)
  = map (hframe so psz n data) (seq k (n - k)).
Proof using Hpsz HL Hlo Hhi.
  clear Hn. revert k; induction fuel as [|fuel IH]; intros k Hk Hf; [lia|].
  destruct consts as (_ & CP & CM & _).
  cbn [send_frames].
  replace (n - k)%nat with (S (n - S k)) by lia. cbn [seq map].
  assert (Hb : N.of_nat k * psz <= N.of_nat (n - 1) * psz) by (apply N.mul_le_mono_r; lia).
  rewrite N.mod_small by lia.
  assert (Hlastp : (length (skipn (N.to_nat (N.of_nat k * psz)) data) <=? N.to_nat psz)%nat = Nat.eqb (S k) n).
  { rewrite skipn_length. destruct (Nat.eqb_spec (S k) n) as [E|E].
    - apply Nat.leb_le. replace k with (n - 1)%nat by lia. subst L. lia.
    - apply Nat.leb_gt.
      assert (N.of_nat (S k) * psz <= N.of_nat (n - 1) * psz) by (apply N.mul_le_mono_r; lia).
      subst L. lia. }
  rewrite Hlastp. unfold hframe at 1. f_equal.
  destruct (Nat.eqb_spec (S k) n) as [E|E].
  - replace (n - S k)%nat with 0%nat by lia. reflexivity.
  - rewrite skipn_skipn.
    replace (N.to_nat psz + N.to_nat (N.of_nat k * psz))%nat with (N.to_nat (N.of_nat (S k) * psz)) by lia.
    replace (N.of_nat k * psz + psz) with (N.of_nat (S k) * psz) by lia.
    apply IH; lia.
Qed.

End Packet.

(** The liveness clause of C17 for the real fragmenter: the frames [Fragmenter::send]
    produces for a packet needing at least two frames, delivered in any order into a slot
    that has just been initialised for this packet and is not reclaimed meanwhile, are all
    accepted and the last one delivered makes the slot emit the packet, byte-identical. *)
Lemma all_frames_any_order_emit (mtu so : N) (data : list B) frames nxt perm (q : queue) f0 :
  fragmenter_send mtu so data = Ok (frames, nxt) ->
  (2 <= length frames)%nat ->
  Permutation perm frames ->
  length (q_buf q) = N.to_nat MAX_PACKET_SIZE -> h_so (f_hdr f0) = so ->
  feed (queue_init q f0) perm
  = repeat (Ok None) (length frames - 1) ++ [Ok (Some (so, data))].
Proof.
  intros Hs Hn2 Hperm Hbuf Hf0. unfold fragmenter_send in Hs.
  destruct (MAX_PACKET_SIZE <? N.of_nat (length data)) eqn:E1; [discriminate|].
  destruct (N.of_nat (length data) =? 0) eqn:E0; [discriminate|].
  apply N.ltb_ge in E1. apply N.eqb_neq in E0.
  inversion Hs; subst frames nxt; clear Hs.
  set (psz := clamp_mtu mtu - HEADER_SIZE) in *.
  set (L := N.of_nat (length data)) in *.
  assert (Hpsz : MIN_PAYLOAD_SIZE <= psz).
  { unfold psz, clamp_mtu. pose proof (N.le_max_r (N.min mtu MAX_MTU) MIN_MTU).
    assert (MIN_MTU = 272 /\ HEADER_SIZE = 16 /\ MIN_PAYLOAD_SIZE = 256) as (E2 & E3 & E4) by (repeat split; reflexivity).
    rewrite E2, E3, E4 in *. lia. }
  destruct consts as (_ & CP & CM & _).
  set (n := N.to_nat ((L + psz - 1) / psz)).
  assert (Hn1 : (1 <= n)%nat).
  { unfold n. assert (1 <= (L + psz - 1) / psz); [|lia]. apply N.div_le_lower_bound; lia. }
  assert (Hlo : N.of_nat (n - 1) * psz < L).
  { unfold n. pose proof (N.div_mod (L + psz - 1) psz). pose proof (N.mod_lt (L + psz - 1) psz). nia. }
  assert (Hhi : L <= N.of_nat n * psz).
  { unfold n. pose proof (N.div_mod (L + psz - 1) psz). pose proof (N.mod_lt (L + psz - 1) psz). nia. }
  assert (Hfr : send_frames (length data) so psz 0 data = map (hframe so psz n data) (seq 0 n)).
  { pose proof (send_is_hframes so psz n data Hpsz E1 Hlo Hhi (length data) 0) as H.
    cbn [N.of_nat] in H. rewrite N.mul_0_l in H. cbn [N.to_nat skipn] in H.
    rewrite Nat.sub_0_r in H. apply H; [lia|].
    assert (N.of_nat (n - 1) * 256 <= N.of_nat (n - 1) * psz) by (apply N.mul_le_mono_l; lia). lia. }
  rewrite Hfr in *. rewrite map_length, seq_length in *.
  apply Permutation_map_inv in Hperm. destruct Hperm as (order & -> & Hperm).
  apply (complete_delivery so psz n data Hpsz E1 Hn2 Hlo Hhi order q (Permutation_sym Hperm) Hbuf f0 Hf0).
Qed.


(** The same for the real fragmenter: ANY schedule (reordering, duplication, omissions) of the
    frames [Fragmenter::send] produced for a multi-frame packet, fed into the slot initialised
    for that packet. *)
Lemma slot_epoch_any_schedule (mtu so : N) (data : list B) frames nxt (sched : list nat)
      (q : queue) f0 d :
  fragmenter_send mtu so data = Ok (frames, nxt) ->
  (2 <= length frames)%nat ->
  (forall j, In j sched -> (j < length frames)%nat) ->
  length (q_buf q) = N.to_nat MAX_PACKET_SIZE -> h_so (f_hdr f0) = so ->
  feed (queue_init q f0) (map (fun j => nth j frames d) sched)
  = spec_feed so (length frames) data [] false sched.
Proof.
  intros Hs Hn2 Hsched Hbuf Hf0. unfold fragmenter_send in Hs.
  destruct (MAX_PACKET_SIZE <? N.of_nat (length data)) eqn:E1; [discriminate|].
  destruct (N.of_nat (length data) =? 0) eqn:E0; [discriminate|].
  apply N.ltb_ge in E1. apply N.eqb_neq in E0.
  inversion Hs; subst frames nxt; clear Hs.
  set (psz := clamp_mtu mtu - HEADER_SIZE) in *.
  set (L := N.of_nat (length data)) in *.
  assert (Hpsz : MIN_PAYLOAD_SIZE <= psz).
  { unfold psz, clamp_mtu. pose proof (N.le_max_r (N.min mtu MAX_MTU) MIN_MTU).
    assert (MIN_MTU = 272 /\ HEADER_SIZE = 16 /\ MIN_PAYLOAD_SIZE = 256) as (E2 & E3 & E4) by (repeat split; reflexivity).
    rewrite E2, E3, E4 in *. lia. }
  destruct consts as (_ & CP & CM & _).
  set (n := N.to_nat ((L + psz - 1) / psz)).
  assert (Hn1 : (1 <= n)%nat).
  { unfold n. assert (1 <= (L + psz - 1) / psz); [|lia]. apply N.div_le_lower_bound; lia. }
  assert (Hlo : N.of_nat (n - 1) * psz < L).
  { unfold n. pose proof (N.div_mod (L + psz - 1) psz). pose proof (N.mod_lt (L + psz - 1) psz). nia. }
  assert (Hhi : L <= N.of_nat n * psz).
  { unfold n. pose proof (N.div_mod (L + psz - 1) psz). pose proof (N.mod_lt (L + psz - 1) psz). nia. }
  assert (Hfr : send_frames (length data) so psz 0 data = map (hframe so psz n data) (seq 0 n)).
  { pose proof (send_is_hframes so psz n data Hpsz E1 Hlo Hhi (length data) 0) as H.
    cbn [N.of_nat] in H. rewrite N.mul_0_l in H. cbn [N.to_nat skipn] in H.
    rewrite Nat.sub_0_r in H. apply H; [lia|].
    assert (N.of_nat (n - 1) * 256 <= N.of_nat (n - 1) * psz) by (apply N.mul_le_mono_l; lia). lia. }
  rewrite Hfr in *. rewrite map_length, seq_length in *.
  assert (Hmap : map (fun j => nth j (map (hframe so psz n data) (seq 0 n)) d) sched
                 = map (hframe so psz n data) sched).
  { apply map_ext_in. intros j Hj. specialize (Hsched j Hj).
    rewrite (nth_indep _ d (hframe so psz n data 0)) by (rewrite map_length, seq_length; exact Hsched).
    rewrite map_nth. f_equal. rewrite seq_nth; auto. }
  rewrite Hmap.
  apply (feed_any so psz n data Hpsz E1 Hn2 Hlo Hhi sched [] (queue_init q f0) []).
  - split; cbn [queue_init q_idle q_so q_buf q_mask q_fws q_fps q_exp q_lfo existsb length andb]; auto.
    + intros i. split; [intros []|intros (j & [] & _)].
    + discriminate.
  - split; cbn [queue_init q_idle q_so q_buf]; auto; [intros ? []|].
    intros _. split; cbn [queue_init q_mask q_fws q_fps q_exp q_lfo]; try (intros; discriminate); try (intros ? []); try (intros []).
    constructor.
  - intros g [].
  - constructor.
  - intros x [].
  - cbn [length]. lia.
  - exact Hsched.
Qed.

End WithByte.

(** Within one slot epoch the honest packet is emitted AT MOST ONCE on any schedule: count
    the emissions of [spec_feed]. *)
Definition is_emit {B : Type} (r : res B) : bool :=
  match r with Ok (Some _) => true | _ => false end.

Lemma spec_feed_complete_silent {B : Type} (so : N) (n : nat) (data : list B) sched seen :
  filter is_emit (spec_feed so n data seen true sched) = [].
Proof.
  induction sched as [|j r IH]; cbn [spec_feed filter is_emit]; [reflexivity|exact IH].
Qed.

Lemma spec_feed_emits_at_most_once {B : Type} (so : N) (n : nat) (data : list B) sched :
  forall seen c, (length (filter is_emit (spec_feed so n data seen c sched)) <= 1)%nat.
Proof.
  induction sched as [|j r IH]; intros seen c; cbn [spec_feed]; [cbn; auto|].
  destruct c; [cbn [filter is_emit]; apply IH|].
  destruct (existsb (Nat.eqb j) seen); [cbn [filter is_emit]; apply IH|].
  destruct (Nat.eqb (S (length seen)) n); cbn [filter is_emit]; [|apply IH].
  rewrite spec_feed_complete_silent. cbn. auto.
Qed.

(** ... and EXACTLY when every frame of the packet occurs in the schedule (pigeonhole over the
    set of distinct frame indices seen so far). *)
Lemma spec_feed_emits_iff_all_arrive {B : Type} (so : N) (n : nat) (data : list B) sched :
  forall seen,
    NoDup seen -> (forall j, In j seen -> (j < n)%nat) -> (length seen < n)%nat ->
    (forall j, In j sched -> (j < n)%nat) ->
    (existsb is_emit (spec_feed so n data seen false sched) = true
     <-> forall k, (k < n)%nat -> In k seen \/ In k sched).
Proof.
  induction sched as [|j r IH]; intros seen Hnd Hlt Hlen Hs; cbn [spec_feed existsb].
  - split; [discriminate|]. intros Hc. exfalso.
    assert (Hi : incl (seq 0 n) seen).
    { intros k Hk. apply in_seq in Hk. destruct (Hc k) as [H|[]]; [lia|exact H]. }
    pose proof (NoDup_incl_length (seq_NoDup n 0) Hi) as Hl. rewrite seq_length in Hl. lia.
  - assert (Hj : (j < n)%nat) by (apply Hs; left; reflexivity).
    assert (Hr : forall k, In k r -> (k < n)%nat) by (intros k Hk; apply Hs; right; exact Hk).
    destruct (existsb (Nat.eqb j) seen) eqn:Ed.
    + cbn [existsb is_emit orb]. rewrite (IH seen Hnd Hlt Hlen Hr).
      apply existsb_exists in Ed. destruct Ed as (x & Hx & Ex). apply Nat.eqb_eq in Ex. subst x.
      split; intros H k Hk; destruct (H k Hk) as [H1|H1]; auto.
      * right. right. exact H1.
      * destruct H1 as [H1|H1]; [subst k; left; exact Hx|right; exact H1].
    + assert (Hnj : ~ In j seen).
      { intros Hin. assert (existsb (Nat.eqb j) seen = true); [|congruence].
        apply existsb_exists. exists j. split; [exact Hin|apply Nat.eqb_refl]. }
      destruct (Nat.eqb (S (length seen)) n) eqn:En.
      * cbn [existsb is_emit orb]. split; [intros _|reflexivity]. apply Nat.eqb_eq in En.
        assert (Hi : incl (seq 0 n) (j :: seen)).
        { apply (NoDup_length_incl (l := j :: seen)).
          - constructor; assumption.
          - rewrite seq_length. cbn [length]. lia.
          - intros x [Hx|Hx]; apply in_seq; [subst x; lia|specialize (Hlt x Hx); lia]. }
        intros k Hk. assert (Hin : In k (seq 0 n)) by (apply in_seq; lia).
        destruct (Hi k Hin) as [H1|H1]; [right; left; exact H1|left; exact H1].
      * cbn [existsb is_emit orb]. apply Nat.eqb_neq in En.
        rewrite (IH (j :: seen)); [| constructor; assumption
                                   | intros x [Hx|Hx]; [subst x; exact Hj|apply Hlt; exact Hx]
                                   | cbn [length]; lia | exact Hr].
        split; intros H k Hk; destruct (H k Hk) as [H1|H1].
        -- destruct H1 as [H1|H1]; [right; left; exact H1|left; exact H1].
        -- right. right. exact H1.
        -- left. right. exact H1.
        -- destruct H1 as [H1|H1]; [left; left; exact H1|right; exact H1].
Qed.

(** * every reachable defragmenter state: the run of the implementation state alone ([srun])
    and with the ghost logs ([drun]); the invariant [DInv] holds after every history. *)
Fixpoint srun {B : Type} (qs : list (queue B)) (fs : list (frame B)) : list (queue B) :=
  match fs with
  | [] => qs
  | f :: rest => let '(qs', _, _) := recv_frame qs f in srun qs' rest
  end.
Fixpoint drun {B : Type} (qs : list (queue B)) (logs : list (list (frame B))) (fs : list (frame B))
  : list (queue B) * list (list (frame B)) :=
  match fs with
  | [] => (qs, logs)
  | f :: rest => let '(qs', r, ev) := recv_frame qs f in drun qs' (step_logs logs ev r f) rest
  end.
Lemma drun_srun {B : Type} (fs : list (frame B)) : forall qs logs, fst (drun qs logs fs) = srun qs fs.
Proof.
  induction fs as [|f fs IH]; intros qs logs; cbn [drun srun]; [reflexivity|].
  destruct (recv_frame qs f) as [[qs' r] ev]. apply IH.
Qed.
Lemma drun_inv {B : Type} (fs : list (frame B)) : forall qs logs,
  DInv qs logs -> qs <> [] ->
  DInv (fst (drun qs logs fs)) (snd (drun qs logs fs)) /\ length (fst (drun qs logs fs)) = length qs.
Proof.
  induction fs as [|f fs IH]; intros qs logs D Hne; cbn [drun]; [split; [exact D|reflexivity]|].
  destruct (recv_frame qs f) as [[qs' r] ev] eqn:E.
  destruct (recv_frame_spec qs logs f qs' r ev D Hne E) as (D' & Hne' & _).
  destruct (IH qs' _ D' Hne') as (I1 & I2). split; [exact I1|].
  rewrite I2. eapply recv_frame_length; eauto.
Qed.
