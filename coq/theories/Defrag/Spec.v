(** Executable statement of C17 over observable behaviour (frame schedule in, emitted packets
    out).  Independent of the model of the implementation; used both in the theorems of
    [Props] and, evaluated on the implementation's output, as the search oracle. *)
From Sci Require Export Defrag.Model.
Local Open Scope N_scope.

Section WithByte.
Context {B : Type} (beq : B -> B -> bool).

(** positions of a packet payload [p] (stream offset [so]) at which frame [f] carries
    exactly the byte found there *)
Fixpoint zip_eq (p frag : list B) : list bool :=
  match p, frag with
  | b :: p', b' :: frag' => beq b b' :: zip_eq p' frag'
  | _, _ => []
  end.
Definition cover (f : frame B) (so : N) (p : list B) : list bool :=
  if h_so (f_hdr f) =? so then
    let off := N.to_nat (h_fo (f_hdr f)) in
    repeat false off ++ zip_eq (skipn off p) (f_frag f)
  else [].
Fixpoint or_mask (a b : list bool) : list bool :=
  match a, b with
  | x :: a', y :: b' => (x || y) :: or_mask a' b'
  | [], _ => b
  | _, [] => a
  end.
Definition covered (hist : list (option (frame B))) (so : N) (p : list B) : list bool :=
  fold_right (fun of acc => match of with Some f => or_mask (cover f so p) acc | None => acc end)
             [] hist.

(** every byte of the emitted payload was received in a frame of the same packet, at the
    same position *)
Definition prov_ok (hist : list (option (frame B))) (so : N) (p : list B) : bool :=
  let c := covered hist so p in
  (length p <=? length c)%nat && forallb (fun x => x) (firstn (length p) c).

Definition sent_ok (sent : list (N * list B)) (so : N) (p : list B) : bool :=
  existsb (fun '(so', d) => (so' =? so) && list_eqb beq d p) sent.
End WithByte.

(** an emission of [so] strictly before index [k] *)
Definition twice_before (ems : list (nat * N * list N)) (k : nat) (so : N) : bool :=
  existsb (fun '(k', so', _) => (k' <? k)%nat && (so' =? so)) ems.

Definition frame_eqb (a b : frame N) : bool :=
  (h_so (f_hdr a) =? h_so (f_hdr b)) && (h_fo (f_hdr a) =? h_fo (f_hdr b))
  && (h_flags (f_hdr a) =? h_flags (f_hdr b)) && list_eqb N.eqb (f_frag a) (f_frag b).

(** KNOWN FINDING classes (known_findings.json, C17-dup-... entries): a packet is emitted a second
    time only when the network delivered one of its frames twice: the fast path for
    single-frame packets keeps no state, and a slot that was reclaimed forgets the packet. *)
Fixpoint has_dup (l : list (frame N)) : bool :=
  match l with [] => false | f :: r => existsb (frame_eqb f) r || has_dup r end.
Definition known_dup_class (hist : list (option (frame N))) (so : N) : bool :=
  has_dup (flat_map (fun of => match of with
                               | Some f => if h_so (f_hdr f) =? so then [f] else []
                               | None => [] end) hist).

Definition prov_ok_N := prov_ok N.eqb.
