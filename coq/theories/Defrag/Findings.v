(** Witnesses, by computation on the model, for the recorded known finding C17-dup-reemit
    (known_findings.json): network duplication makes the reassembler emit a packet twice. *)
From Sci Require Import Defrag.Model Defrag.Spec Defrag.Cases.
Local Open Scope N_scope.

Definition run_codes (q : N) (ins : list dinput) : list N :=
  map (fun '(c, _, _) => c) (run_model (defrag_new 0 (N.to_nat q)) false (map input_bytes ins)).

(** a single-frame packet delivered twice is emitted twice (fast path keeps no state) *)
Lemma dup_single_frame_reemitted :
  run_codes 1 [IF 0 0 32768 [0;0;0;0] [(5,7)]; IF 0 0 32768 [0;0;0;0] [(5,7)]] = [1; 1].
Proof. vm_compute. reflexivity. Qed.

(** packet A (2 frames) completes, packet B reuses the slot and completes, then A's frames
    arrive again: A is emitted a second time *)
Definition A1 := IF 0 0 0 [0;0;0;0] [(256,1)].
Definition A2 := IF 0 256 32768 [0;0;0;0] [(10,2)].
Definition B1 := IF 266 0 0 [0;0;0;0] [(256,3)].
Definition B2 := IF 266 256 32768 [0;0;0;0] [(10,4)].
Lemma dup_after_slot_reuse_reemitted :
  run_codes 1 [A1; A2; B1; B2; A1; A2] = [0; 1; 0; 1; 0; 1].
Proof. vm_compute. reflexivity. Qed.

(** the queue-count precondition of the no-panic theorem is necessary: with zero queues a
    frame with stream offset 2^64-1 indexes an empty vector *)
Lemma zero_queues_panics :
  run_codes 0 [IF 18446744073709551615 256 0 [0;0;0;0] [(256,1)]] = [99].
Proof. vm_compute. reflexivity. Qed.
