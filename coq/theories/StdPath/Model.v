(** Byte-level model of the standard and one-hop SCION path of sciparse:
      proto/dataplane_path/standard/view.rs   (StandardPathView: accessors, try_reverse,
                                               segments, expiration, calculate_segment_index)
      proto/dataplane_path/standard/model.rs  (StandardPath: try_reverse, expiration, wire_valid,
                                               encode_unchecked, from_view)
      proto/dataplane_path/onehop/{view,model}.rs
    Definitions only, statement by statement.  A view is the byte string it is laid over
    ([list N], every element below 256); an in-place operation returns the bytes afterwards
    together with its result.  Everything a Rust function can do that a total function cannot
    (slice out of range, [expect], arithmetic overflow in a debug build) is an explicit [Panic]. *)
From Sci Require Export Common.Outcome Gen.StdPathLayout.
Local Open Scope N_scope.

(** the hand-written accessors below assume these bit ranges; [layout_ok] is proved [true] in
    Proofs.v, so a change of the Rust layout tables breaks the build *)
Definition layout_ok : bool :=
  pairN_eqb META_CURR_INFO_FIELD_RNG (0, 2) && pairN_eqb META_CURR_HOP_FIELD_RNG (2, 6)
  && pairN_eqb META_RSV_RNG (8, 6) && pairN_eqb META_SEG0_LEN_RNG (14, 6)
  && pairN_eqb META_SEG1_LEN_RNG (20, 6) && pairN_eqb META_SEG2_LEN_RNG (26, 6)
  && pairN_eqb META_TOTAL_RNG (0, 32)
  && pairN_eqb INFO_FLAGS_RNG (0, 8) && pairN_eqb INFO_RSV_RNG (8, 8)
  && pairN_eqb INFO_SEGMENT_ID_RNG (16, 16) && pairN_eqb INFO_TIMESTAMP_RNG (32, 32)
  && pairN_eqb INFO_TOTAL_RNG (0, 64)
  && pairN_eqb HOP_FLAGS_RNG (0, 8) && pairN_eqb HOP_EXP_TIME_RNG (8, 8)
  && pairN_eqb HOP_CONS_INGRESS_RNG (16, 16) && pairN_eqb HOP_CONS_EGRESS_RNG (32, 16)
  && pairN_eqb HOP_MAC_RNG (48, 48) && pairN_eqb HOP_TOTAL_RNG (0, 96)
  && (FLAG_CONS_DIR =? 1) && (FLAG_CONS_EGRESS_ROUTER_ALERT =? 1)
  && (FLAG_CONS_INGRESS_ROUTER_ALERT =? 2) && (EXP_TIME_UNIT_MILLIS =? 337500)
  && (MAX_SEGMENT_HOPS =? 63) && (MAX_PATH_SIZE_BYTES =? 984).

(* panic sites *)
Definition P_SLICE := 1.       (* unchecked slice outside the view's buffer (memory unsafety) *)
Definition P_SEG_SLICE := 2.   (* SegmentIterator::next: hop_fields[hop_idx..hop_idx+len] *)
Definition P_EXPECT_MIN := 3.  (* expiration: .min().expect(..) on an empty segment *)
Definition P_EXP_U32 := 4.     (* expiration: as_secs().try_into().expect(..) *)
Definition P_ADD_U32 := 5.     (* u32 `+` overflow (debug build) *)
Definition P_SUB := 6.         (* usize `-` underflow *)
Definition P_ARRAYVEC := 7.    (* ArrayVec::push beyond capacity 3 *)
Definition P_UNREACHABLE := 8. (* unreachable!() *)
Definition P_EXPECT_MUT := 9.  (* info_field_mut(..).expect / hop_field_mut(..).expect *)
Definition P_ADD_U8 := 10.     (* u8 `+` overflow *)

(** * bytes *)
Definition byte (b : list N) (i : nat) : N := nth i b 0.
Definition get_range (b : list N) (off len : nat) : list N := firstn len (skipn off b).
Definition set_range (b : list N) (off : nat) (v : list N) : list N :=
  firstn off b ++ v ++ skipn (off + length v) b.
Definition set_byte (b : list N) (i : nat) (v : N) : list N := set_range b i [v].

(** [n] consecutive chunks of [k] elements *)
Fixpoint chunks {A} (k n : nat) (l : list A) : list (list A) :=
  match n with O => [] | S n' => firstn k l :: chunks k n' (skipn k l) end.

(** * PathMeta header: | C(2) | CurrHF(6) | RSV(6) | Seg0Len(6) | Seg1Len(6) | Seg2Len(6) | *)
Definition curr_inf (b : list N) : N := byte b 0 / 64.
Definition curr_hf (b : list N) : N := byte b 0 mod 64.
Definition meta_rsv (b : list N) : N := byte b 1 / 4.
Definition seg0_len (b : list N) : N := (byte b 1 mod 4) * 16 + byte b 2 / 16.
Definition seg1_len (b : list N) : N := (byte b 2 mod 16) * 4 + byte b 3 / 64.
Definition seg2_len (b : list N) : N := byte b 3 mod 64.

(* unchecked_bit_range_be_write: the value is truncated to the width of the field *)
Definition set_curr_inf (b : list N) (v : N) : list N :=
  set_byte b 0 ((v mod 4) * 64 + byte b 0 mod 64).
Definition set_curr_hf (b : list N) (v : N) : list N :=
  set_byte b 0 ((byte b 0 / 64) * 64 + v mod 64).
Definition set_seg0_len (b : list N) (v : N) : list N :=
  let v := v mod 64 in
  let b1 := set_byte b 1 ((byte b 1 / 4) * 4 + v / 16) in
  set_byte b1 2 ((v mod 16) * 16 + byte b1 2 mod 16).
Definition set_seg1_len (b : list N) (v : N) : list N :=
  let v := v mod 64 in
  let b1 := set_byte b 2 ((byte b 2 / 16) * 16 + v / 4) in
  set_byte b1 3 ((v mod 4) * 64 + byte b1 3 mod 64).
Definition set_seg2_len (b : list N) (v : N) : list N :=
  set_byte b 3 ((byte b 3 / 64) * 64 + v mod 64).

Definition nz (x : N) : N := if x =? 0 then 0 else 1.
Definition info_count (b : list N) : N := nz (seg0_len b) + nz (seg1_len b) + nz (seg2_len b).
Definition hop_count (b : list N) : N := seg0_len b + seg1_len b + seg2_len b.
Definition seg_lens (b : list N) : list N := [seg0_len b; seg1_len b; seg2_len b].
(* StdPathLayout::try_from_slice / size_bytes *)
Definition required_size (b : list N) : N := 4 + 8 * info_count b + 12 * hop_count b.

(** the byte strings the view constructor accepts: [View::try_from_slice] needs 4 bytes for
    the meta header and [required_size] bytes in total, and splits the view off at exactly
    [required_size]; a [u8] is below 256 *)
Definition view_ok (b : list N) : bool :=
  (4 <=? length b)%nat && (N.of_nat (length b) =? required_size b) && bytes_ok b.

Definition info_off (i : nat) : nat := 4 + 8 * i.
Definition hop_off (b : list N) (j : nat) : nat := 4 + 8 * N.to_nat (info_count b) + 12 * j.

(* checked_info_field_range / info_field, checked_hop_field_range / hop_field *)
Definition info_field (b : list N) (i : N) : option (list N) :=
  if info_count b <=? i then None else Some (get_range b (info_off (N.to_nat i)) 8).
Definition hop_field (b : list N) (j : N) : option (list N) :=
  if hop_count b <=? j then None else Some (get_range b (hop_off b (N.to_nat j)) 12).
(* info_fields / hop_fields (and the _mut variants): unchecked slices *)
Definition info_fields (b : list N) : list (list N) :=
  chunks 8 (N.to_nat (info_count b)) (skipn 4 b).
Definition hop_fields (b : list N) : list (list N) :=
  chunks 12 (N.to_nat (hop_count b)) (skipn (hop_off b 0) b).

(** * info field (8 bytes) and hop field (12 bytes) accessors *)
Definition if_flags (f : list N) : N := byte f 0.
Definition if_segid (f : list N) : N := be_val 0 (get_range f 2 2).
Definition if_ts (f : list N) : N := be_val 0 (get_range f 4 4).
Definition if_cons_dir (f : list N) : bool := N.testbit (if_flags f) 0.
Definition if_set_flags (f : list N) (v : N) : list N := set_byte f 0 (v mod 256).
Definition if_set_segid (f : list N) (v : N) : list N := set_range f 2 (be_bytes 2 v).
Definition hf_flags (f : list N) : N := byte f 0.
Definition hf_exp (f : list N) : N := byte f 1.
Definition hf_cons_ingress (f : list N) : N := be_val 0 (get_range f 2 2).
Definition hf_cons_egress (f : list N) : N := be_val 0 (get_range f 4 2).
Definition hf_mac (f : list N) : list N := get_range f 6 6.
Definition hf_set_flags (f : list N) (v : N) : list N := set_byte f 0 (v mod 256).
(* flags.toggle(CONS_DIR); set_flags(flags) *)
Definition toggle_cons_dir (f : list N) : list N := if_set_flags f (N.lxor (if_flags f) FLAG_CONS_DIR).

(** * StandardPathView::try_reverse (as repaired for C12: all range checks precede the
      first write; the original order is kept in Findings.v as [view_try_reverse_orig]) *)
Inductive rev_err := RevNoSegments | RevHopOOB | RevInfoOOB | RevSecondHopUnset | RevHopUnfit.

Definition swap_seg_lens (b : list N) (seg_count seg0 seg1 seg2 : N) : list N :=
  if seg_count =? 1 then b
  else if seg_count =? 2 then set_seg1_len (set_seg0_len b seg1) seg0
  else set_seg2_len (set_seg1_len (set_seg0_len b seg2) seg1) seg0.

(* info_fields_mut: toggle CONS_DIR on every info field, then reverse their order;
   hop_fields_mut().reverse() *)
Definition reverse_fields (b1 : list N) : list N :=
  let b2 := set_range b1 4 (concat (rev (map toggle_cons_dir (info_fields b1)))) in
  set_range b2 (hop_off b2 0) (concat (rev (hop_fields b2))).

Definition view_try_reverse (b : list N) : list N * outcome unit rev_err :=
  let seg0 := seg0_len b in
  let seg1 := seg1_len b in
  let seg2 := seg2_len b in
  let curr_hop_idx := curr_hf b in
  let curr_info_idx := curr_inf b in
  if seg0 =? 0 then (b, Err RevNoSegments) else
  let seg_count := if seg1 =? 0 then 1 else if seg2 =? 0 then 2 else 3 in
  let total_hops := seg0 + seg1 + seg2 in
  if total_hops <=? curr_hop_idx then (b, Err RevHopOOB) else
  if seg_count <=? curr_info_idx then (b, Err RevInfoOOB) else
  (* C12 repair: the reversed position must fit the 6-bit CurrHF field (paths with more than
     64 hop fields are accepted by the constructor) *)
  if 63 <? (total_hops - curr_hop_idx) - 1 then (b, Err RevHopUnfit) else
  let b1 := swap_seg_lens b seg_count seg0 seg1 seg2 in
  if N.of_nat (length b1) <? required_size b1 then (b1, Panic P_SLICE) else
  let b3 := reverse_fields b1 in
  if total_hops - curr_hop_idx <? 1 then (b3, Panic P_SUB) else
  let new_hop_idx := (total_hops - curr_hop_idx) - 1 in
  let new_info_idx := (seg_count - curr_info_idx) - 1 in
  let b4 := set_curr_hf b3 (new_hop_idx mod 256) in
  let b5 := set_curr_inf b4 (new_info_idx mod 256) in
  (b5, Ok tt).

(** * SegmentIterator *)
Definition total_segments (b : list N) : N :=
  if seg0_len b =? 0 then 0 else if seg1_len b =? 0 then 1 else if seg2_len b =? 0 then 2 else 3.

(** the segments the iterator yields, as (segment index, index of first hop, hop count) *)
Fixpoint seg_iter (fuel : nat) (b : list N) (seg_idx hop_idx : N) : outcome (list (N * N * N)) unit :=
  match fuel with
  | O => Ok []
  | S f =>
    if total_segments b <=? seg_idx then Ok [] else
    if info_count b <=? seg_idx then Ok [] else      (* self.info_fields.get(seg_idx)? *)
    let len := nth (N.to_nat seg_idx) (seg_lens b) 0 in
    if hop_count b <? hop_idx + len then Panic P_SEG_SLICE else
    rest <- seg_iter f b (seg_idx + 1) (hop_idx + len) ;;
    Ok ((seg_idx, hop_idx, len) :: rest)
  end.
Definition view_segments (b : list N) : outcome (list (N * N * N)) unit := seg_iter 4 b 0 0.

Definition seg_info (b : list N) (s : N * N * N) : list N :=
  let '(si, _, _) := s in nth (N.to_nat si) (info_fields b) [].
Definition seg_hops (b : list N) (s : N * N * N) : list (list N) :=
  let '(_, hi, len) := s in firstn (N.to_nat len) (skipn (N.to_nat hi) (hop_fields b)).

(** * expiration *)
(* exp_time_to_duration(e).as_secs(): (337.5 s) * (e + 1), whole seconds *)
Definition exp_secs (e : N) : N := (EXP_TIME_UNIT_MILLIS * (e + 1)) / 1000.
Definition U32_MAX : N := 4294967295.
Definition sat_add32 (a c : N) : N := N.min (a + c) U32_MAX.
Definition list_min (l : list N) : option N :=
  match l with [] => None | x :: r => Some (fold_left N.min r x) end.

Definition segment_expiry (ts : N) (exps : list N) : outcome N unit :=
  match list_min exps with
  | None => Panic P_EXPECT_MIN
  | Some e =>
    let d := exp_secs e in
    if U32_MAX <? d then Panic P_EXP_U32 else Ok (sat_add32 ts d)
  end.

Fixpoint fold_expiry (acc : N) (segs : list (N * list N)) : outcome N unit :=
  match segs with
  | [] => Ok acc
  | (ts, exps) :: r => e <- segment_expiry ts exps ;; fold_expiry (N.min acc e) r
  end.

Definition view_expiration (b : list N) : outcome N unit :=
  if total_segments b =? 0 then Ok 0 else
  segs <- view_segments b ;;
  fold_expiry U32_MAX (map (fun s => (if_ts (seg_info b s), map hf_exp (seg_hops b s))) segs).

(** * calculate_segment_index *)
Fixpoint calc_seg_idx_aux (hop_idx agg seg_idx : N) (lens : list N) : option (N * bool * bool) :=
  match lens with
  | [] => None
  | len :: r =>
    if hop_idx <? agg + len
    then Some (seg_idx, hop_idx =? agg, hop_idx + 1 =? agg + len)
    else calc_seg_idx_aux hop_idx (agg + len) (seg_idx + 1) r
  end.
Definition calculate_segment_index (b : list N) (hop_idx : N) : option (N * bool * bool) :=
  calc_seg_idx_aux hop_idx 0 0 (seg_lens b).

(** * the owned model: StandardPath *)
Record info := mkInfo { i_flags : N; i_segid : N; i_ts : N }.
Record hop := mkHop { h_flags : N; h_exp : N; h_ci : N; h_ce : N; h_mac : list N }.
Record seg := mkSeg { s_info : info; s_hops : list hop }.
Record spath := mkPath { p_ci : N; p_ch : N; p_segs : list seg }.

(** the value ranges of the Rust field types (u8/u16/u32/[u8; 6], ArrayVec<_; 3>) *)
Definition info_typed (i : info) : bool :=
  (i_flags i <? 256) && (i_segid i <? 65536) && (i_ts i <? 4294967296).
Definition hop_typed (h : hop) : bool :=
  (h_flags h <? 256) && (h_exp h <? 256) && (h_ci h <? 65536) && (h_ce h <? 65536)
  && (length (h_mac h) =? 6)%nat && bytes_ok (h_mac h).
Definition seg_typed (s : seg) : bool := info_typed (s_info s) && forallb hop_typed (s_hops s).
Definition path_typed (p : spath) : bool :=
  (p_ci p <? 256) && (p_ch p <? 256) && (length (p_segs p) <=? 3)%nat && forallb seg_typed (p_segs p).

Definition seg_len (s : seg) : N := N.of_nat (length (s_hops s)).
Definition m_hop_count (p : spath) : N := fold_right (fun s a => seg_len s + a) 0 (p_segs p).
Definition m_info_count (p : spath) : N := N.of_nat (length (p_segs p)).
(* segment_sizes: `len() as u8` *)
Definition m_segment_sizes (p : spath) : list N :=
  map (fun k => match nth_error (p_segs p) k with Some s => seg_len s mod 256 | None => 0 end) [0; 1; 2]%nat.
Definition m_required_size (p : spath) : N :=
  match m_segment_sizes p with
  | [a; c; d] => 4 + 8 * (nz a + nz c + nz d) + 12 * (a + c + d)
  | _ => 0
  end.

(* FromView: info_fields zipped with the three segment sizes, hop fields taken in order *)
Definition dec_info (f : list N) : info := mkInfo (if_flags f) (if_segid f) (if_ts f).
Definition dec_hop (f : list N) : hop :=
  mkHop (hf_flags f) (hf_exp f) (hf_cons_ingress f) (hf_cons_egress f) (hf_mac f).
Fixpoint zip_segments (infos : list (list N)) (sizes : list N) (hops : list (list N)) : list seg :=
  match infos, sizes with
  | i :: ir, s :: sr =>
    mkSeg (dec_info i) (map dec_hop (firstn (N.to_nat s) hops)) :: zip_segments ir sr (skipn (N.to_nat s) hops)
  | _, _ => []
  end.
Definition from_view (b : list N) : spath :=
  mkPath (curr_inf b) (curr_hf b) (zip_segments (info_fields b) (seg_lens b) (hop_fields b)).

(* StandardPath::expiration *)
Fixpoint m_fold_expiry (acc : N) (segs : list seg) : outcome N unit :=
  match segs with
  | [] => Ok acc
  | s :: r =>
    match list_min (map h_exp (s_hops s)) with
    | None => Ok 0                           (* a segment has no hop fields: return 0 *)
    | Some e =>
      let d := exp_secs e in
      if U32_MAX <? d then Panic P_EXP_U32 else
      m_fold_expiry (N.min acc (sat_add32 (i_ts (s_info s)) d)) r
    end
  end.
Definition model_expiration (p : spath) : outcome N unit := m_fold_expiry U32_MAX (p_segs p).

(* StandardPath::try_reverse (in place: the path afterwards and the result) *)
Definition m_toggle (i : info) : info := mkInfo (N.lxor (i_flags i) FLAG_CONS_DIR) (i_segid i) (i_ts i).
Definition model_try_reverse (p : spath) : spath * outcome unit rev_err :=
  let seg_count := m_info_count p in
  if seg_count =? 0 then (p, Err RevNoSegments) else
  if m_hop_count p <=? p_ch p then (p, Err RevHopOOB) else
  if seg_count <=? p_ci p then (p, Err RevInfoOOB) else
  if 63 <? (m_hop_count p - p_ch p) - 1 then (p, Err RevHopUnfit) else
  let segs1 := map (fun s => mkSeg (m_toggle (s_info s)) (s_hops s)) (p_segs p) in
  let segs2 := rev segs1 in
  let segs3 := map (fun s => mkSeg (s_info s) (rev (s_hops s))) segs2 in
  let p3 := mkPath (p_ci p) (p_ch p) segs3 in
  let total_hops := m_hop_count p3 in
  if total_hops - p_ch p <? 1 then (p3, Panic P_SUB) else
  let new_hop_idx := (total_hops - p_ch p) - 1 in
  let new_info_idx := (seg_count - p_ci p) - 1 in
  (mkPath (new_info_idx mod 256) (new_hop_idx mod 256) segs3, Ok tt).

(* StandardPath::wire_valid; [curr_hf_fits_checked] is the range check added by the C03 repair
   (current_hop_field must fit the 6-bit CurrHF field) *)
Definition wire_valid_gen (curr_hf_fits_checked : bool) (p : spath) : bool :=
  negb (MAX_PATH_SIZE_BYTES <? m_required_size p)
  && negb (MAX_SEGMENTS <? m_info_count p)
  && negb (m_info_count p =? 0)
  && negb (m_hop_count p <=? p_ch p)
  && negb (curr_hf_fits_checked && (63 <? p_ch p))
  && negb (m_info_count p <=? p_ci p)
  && forallb (fun s => negb (MAX_SEGMENT_HOPS <? seg_len s) && negb (seg_len s =? 0)) (p_segs p).

(* InfoField / HopField / StandardPath ::encode_unchecked into a zeroed buffer
   (try_encode_to_vec) *)
Definition enc_info (i : info) : list N :=
  [i_flags i mod 256; 0] ++ be_bytes 2 (i_segid i) ++ be_bytes 4 (i_ts i).
Definition enc_hop (h : hop) : list N :=
  [h_flags h mod 256; h_exp h mod 256] ++ be_bytes 2 (h_ci h) ++ be_bytes 2 (h_ce h) ++ firstn 6 (h_mac h).
Definition mk_meta (ci ch rsv s0 s1 s2 : N) : list N :=
  [ci * 64 + ch; rsv * 4 + s0 / 16; (s0 mod 16) * 16 + s1 / 4; (s1 mod 4) * 64 + s2].
Definition encode (p : spath) : list N :=
  match m_segment_sizes p with
  | [a; c; d] =>
    mk_meta (p_ci p mod 4) (p_ch p mod 64) 0 (a mod 64) (c mod 64) (d mod 64)
    ++ concat (map (fun s => enc_info (s_info s)) (p_segs p))
    ++ concat (map enc_hop (concat (map s_hops (p_segs p))))
  | _ => []
  end.

(** * one-hop path: info field, hop field 1, hop field 2 (32 bytes) *)
Record onehop := mkOne { o_info : info; o_hop1 : hop; o_hop2 : hop }.
Definition oh_view_ok (b : list N) : bool := (length b =? 32)%nat && bytes_ok b.
Definition oh_info (b : list N) : list N := get_range b 0 8.
Definition oh_hop1 (b : list N) : list N := get_range b 8 12.
Definition oh_hop2 (b : list N) : list N := get_range b 20 12.

(* OneHopPathView::try_reverse *)
Definition oh_view_try_reverse (b : list N) : list N * outcome unit rev_err :=
  if hf_cons_ingress (oh_hop2 b) =? 0 then (b, Err RevSecondHopUnset) else
  let b1 := set_range (set_range b 8 (oh_hop2 b)) 20 (oh_hop1 b) in
  let b2 := set_range b1 0 (toggle_cons_dir (oh_info b1)) in
  (b2, Ok tt).

(* OneHopPathView::expiration (as repaired for C12: saturating_add like the standard view;
   the original `base + secs as u32` is kept in Findings.v) *)
Definition oh_view_expiration (b : list N) : outcome N unit :=
  let base := if_ts (oh_info b) in
  let min_exp := N.min (hf_exp (oh_hop1 b)) (hf_exp (oh_hop2 b)) in
  Ok (sat_add32 base (exp_secs min_exp mod 4294967296)).

Definition oh_from_view (b : list N) : onehop :=
  mkOne (dec_info (oh_info b)) (dec_hop (oh_hop1 b)) (dec_hop (oh_hop2 b)).
Definition oh_encode (p : onehop) : list N :=
  enc_info (o_info p) ++ enc_hop (o_hop1 p) ++ enc_hop (o_hop2 p).
(* OneHopPath::try_reverse *)
Definition oh_model_try_reverse (p : onehop) : onehop * outcome unit rev_err :=
  if h_ci (o_hop2 p) =? 0 then (p, Err RevSecondHopUnset) else
  (mkOne (m_toggle (o_info p)) (o_hop2 p) (o_hop1 p), Ok tt).
(* OneHopPath::try_into_reversed_standard_path *)
Definition oh_into_reversed_standard (p : onehop) : outcome spath rev_err :=
  if h_ci (o_hop2 p) =? 0 then Err RevSecondHopUnset else
  Ok (mkPath 0 0 [mkSeg (m_toggle (o_info p)) [o_hop2 p; o_hop1 p]]).
Definition onehop_typed (p : onehop) : bool :=
  info_typed (o_info p) && hop_typed (o_hop1 p) && hop_typed (o_hop2 p).

(** * ScionPath::try_reverse, restricted to what does not depend on hashing: the dataplane
      path is reversed first (`?`), then the endpoints are swapped and the next hop cleared;
      the fingerprints are recomputed from the new state (observed by the harness) *)
Record scion_path := mkSP { sp_src : N; sp_dst : N; sp_dp : list N; sp_next_hop : option N }.
Definition scion_try_reverse (p : scion_path) : scion_path * outcome unit rev_err :=
  let '(b', r) := view_try_reverse (sp_dp p) in
  match r with
  | Ok _ => (mkSP (sp_dst p) (sp_src p) b' None, Ok tt)
  | Err e => (mkSP (sp_src p) (sp_dst p) b' (sp_next_hop p), Err e)
  | Panic s => (mkSP (sp_src p) (sp_dst p) b' (sp_next_hop p), Panic s)
  end.
